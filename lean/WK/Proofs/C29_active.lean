import WK.Model.C29
/-
  C29 — exact characterisation of the `activeAppendItems` loop as coded.
-/
set_option linter.unusedSimpArgs false
namespace WK.C29

theorem activeGo_some : ∀ (r : List Bool) (i : Nat) (a : List Nat),
    activeGo r i (some a) true = a ++ liveFrom r i
  | [], _, a => by simp [activeGo, liveFrom]
  | true :: r, i, a => by simp [activeGo, liveFrom, activeGo_some r (i + 1) a]
  | false :: r, i, a => by simp [activeGo, liveFrom, activeGo_some r (i + 1) (a ++ [i])]

/-- the state after an inactive item 0: `active` is still nil although filtering has begun -/
theorem activeGo_nil_filtered_one : ∀ (r : List Bool),
    activeGo r 1 none true = (match r with | true :: _ => [0] | _ => []) ++ liveFrom r 1
  | [] => by simp [activeGo, liveFrom]
  | true :: r => by simp [activeGo, liveFrom, activeGo_some, List.range_succ]
  | false :: r => by simp [activeGo, liveFrom, activeGo_some]

theorem activeGo_unfiltered : ∀ (r : List Bool) (i : Nat), 0 < i →
    activeGo r i none false = List.range i ++ liveFrom r i
  | [], i, _ => by simp [activeGo, liveFrom]
  | true :: r, i, hi => by
    have : i ≠ 0 := by omega
    simp [activeGo, liveFrom, this, activeGo_some]
  | false :: r, i, hi => by
    simp [activeGo, liveFrom, activeGo_unfiltered r (i + 1) (by omega), List.range_succ]

/-- exact behaviour: the live items in order — plus item 0 when items 0 and 1 are both inactive -/
theorem activeItems_eq (flags : List Bool) :
    activeItems flags = (match flags with | true :: true :: _ => [0] | _ => []) ++ liveFrom flags 0 := by
  unfold activeItems
  match flags with
  | [] => simp [activeGo, liveFrom]
  | false :: r =>
    simp [activeGo, liveFrom, activeGo_unfiltered r 1 (by omega), List.range_succ]
  | true :: r =>
    simp only [activeGo, if_true, liveFrom]
    rw [activeGo_nil_filtered_one r]
    cases r with
    | nil => simp
    | cons b r' => cases b <;> simp

end WK.C29

import WK.Model.C29
/-
  C29 — `activeAppendItems`: the loop as coded returns exactly the live items; exact characterisation
  of the loop before its repair.
-/
set_option linter.unusedSimpArgs false
namespace WK.C29

theorem activeGoPreFix_some : ∀ (r : List Bool) (i : Nat) (a : List Nat),
    activeGoPreFix r i (some a) true = a ++ liveFrom r i
  | [], _, a => by simp [activeGoPreFix, liveFrom]
  | true :: r, i, a => by simp [activeGoPreFix, liveFrom, activeGoPreFix_some r (i + 1) a]
  | false :: r, i, a => by simp [activeGoPreFix, liveFrom, activeGoPreFix_some r (i + 1) (a ++ [i])]

/-- the state after an inactive item 0: `active` is still nil although filtering has begun -/
theorem activeGoPreFix_nil_filtered_one : ∀ (r : List Bool),
    activeGoPreFix r 1 none true = (match r with | true :: _ => [0] | _ => []) ++ liveFrom r 1
  | [] => by simp [activeGoPreFix, liveFrom]
  | true :: r => by simp [activeGoPreFix, liveFrom, activeGoPreFix_some, List.range_succ]
  | false :: r => by simp [activeGoPreFix, liveFrom, activeGoPreFix_some]

theorem activeGoPreFix_unfiltered : ∀ (r : List Bool) (i : Nat), 0 < i →
    activeGoPreFix r i none false = List.range i ++ liveFrom r i
  | [], i, _ => by simp [activeGoPreFix, liveFrom]
  | true :: r, i, hi => by
    have : i ≠ 0 := by omega
    simp [activeGoPreFix, liveFrom, this, activeGoPreFix_some]
  | false :: r, i, hi => by
    simp [activeGoPreFix, liveFrom, activeGoPreFix_unfiltered r (i + 1) (by omega), List.range_succ]

/-- exact behaviour: the live items in order — plus item 0 when items 0 and 1 are both inactive -/
theorem activeItemsPreFix_eq (flags : List Bool) :
    activeItemsPreFix flags = (match flags with | true :: true :: _ => [0] | _ => []) ++ liveFrom flags 0 := by
  unfold activeItemsPreFix
  match flags with
  | [] => simp [activeGoPreFix, liveFrom]
  | false :: r =>
    simp [activeGoPreFix, liveFrom, activeGoPreFix_unfiltered r 1 (by omega), List.range_succ]
  | true :: r =>
    simp only [activeGoPreFix, if_true, liveFrom]
    rw [activeGoPreFix_nil_filtered_one r]
    cases r with
    | nil => simp
    | cons b r' => cases b <;> simp


theorem activeGo_filtered : ∀ (r : List Bool) (i : Nat) (a : List Nat), activeGo r i a true = a ++ liveFrom r i
  | [], _, a => by simp [activeGo, liveFrom]
  | true :: r, i, a => by simp [activeGo, liveFrom, activeGo_filtered r (i + 1) a]
  | false :: r, i, a => by simp [activeGo, liveFrom, activeGo_filtered r (i + 1) (a ++ [i])]

theorem activeGo_unfiltered' : ∀ (r : List Bool) (i : Nat) (a : List Nat),
    activeGo r i a false = List.range i ++ liveFrom r i
  | [], i, a => by simp [activeGo, liveFrom]
  | true :: r, i, a => by simp [activeGo, liveFrom, activeGo_filtered]
  | false :: r, i, a => by simp [activeGo, liveFrom, activeGo_unfiltered' r (i + 1) a, List.range_succ]

end WK.C29

import WK.Model.C26
/-
  C26 part 2 — the inductive invariant of the PendingTable LTS.
-/
namespace WK.C26

structure PerCaller (st : PT) (c : Nat) : Prop where
  idle : st.pc c = .idle → st.cnt c = 0
  waiting : st.pc c = .waiting → st.cnt c = 1
  got : ∀ r, st.pc c = .got r → st.cnt c = 0 ∧ tagOK c r
  gaveUp : st.pc c = .gaveUp → st.cnt c ≤ 1 ∧ st.inTable c = false
  tagInflight : ∀ r ∈ st.inflight c, tagOK c r
  tagChan : ∀ r, st.chan c = some r → tagOK c r
  noDrop : st.dropped c = 0

structure Inv (S : Nat) (st : PT) : Prop where
  per : ∀ c, PerCaller st c
  sweepClosed : st.closed = none → st.sweep = none
  tableOpen : ∀ c, st.inTable c = true → st.closed = none ∨ ∃ e s, st.sweep = some (e, s) ∧ s ≤ c % S

theorem inv_init (S : Nat) : Inv S PT.init := by
  refine ⟨fun c => ⟨?_, ?_, ?_, ?_, ?_, ?_, ?_⟩, ?_, ?_⟩ <;> simp [PT.init, PT.cnt]

theorem upd_same {α} (f : Nat → α) (c : Nat) (v : α) : upd f c v c = v := by simp [upd]
theorem upd_other {α} (f : Nat → α) (c x : Nat) (v : α) (h : x ≠ c) : upd f c v x = f x := by simp [upd, h]

/-- a caller untouched by a step keeps its per-caller facts -/
theorem perCaller_congr {st st' : PT} {x : Nat} (h : PerCaller st x)
    (h1 : st'.inTable x = st.inTable x) (h2 : st'.inflight x = st.inflight x) (h3 : st'.chan x = st.chan x)
    (h4 : st'.pc x = st.pc x) (h5 : st'.dropped x = st.dropped x) : PerCaller st' x := by
  have hc : st'.cnt x = st.cnt x := by simp [PT.cnt, h1, h2, h3]
  exact ⟨by rw [h4, hc]; exact h.idle, by rw [h4, hc]; exact h.waiting, by intro r; rw [h4, hc]; exact h.got r,
    by rw [h4, hc, h1]; exact h.gaveUp, by rw [h2]; exact h.tagInflight, by rw [h3]; exact h.tagChan, by rw [h5]; exact h.noDrop⟩

theorem inv_store (S : Nat) (st st' : PT) (c : Nat) (h : Inv S st) (hs : st.step S (.store c) = some st') : Inv S st' := by
  simp only [PT.step] at hs
  split at hs; · cases hs
  rename_i hen
  have hidle : st.pc c = .idle := by
    have : ¬ (st.pc c ≠ .idle) := fun x => hen (Or.inl x)
    exact Classical.not_not.mp this
  have hsw : st.sweep = none := by
    cases hsw : st.sweep with
    | none => rfl
    | some v => exact absurd (Or.inr (by simp [hsw])) hen
  have hc0 := (h.per c).idle hidle
  have hin : st.inTable c = false ∧ st.inflight c = [] ∧ st.chan c = none := by
    simp only [PT.cnt] at hc0
    refine ⟨?_, ?_, ?_⟩
    · cases hh : st.inTable c <;> simp [hh] at hc0 ⊢
    · cases hh : st.inflight c with
      | nil => rfl
      | cons a b => simp [hh] at hc0
    · cases hh : st.chan c with
      | none => rfl
      | some v => simp [hh] at hc0
  split at hs
  · rename_i e hcl
    cases hs
    refine ⟨fun x => ?_, ?_, ?_⟩
    · by_cases hx : x = c
      · subst hx
        refine ⟨?_, ?_, ?_, ?_, ?_, ?_, ?_⟩
        · simp [upd]
        · intro _; simp [PT.cnt, upd, hin.1, hin.2.1, hin.2.2]
        · intro r; simp [upd]
        · simp [upd]
        · intro r hr; simp [upd, hin.2.1] at hr; subst hr; trivial
        · intro r hr; simp [hin.2.2] at hr
        · exact (h.per x).noDrop
      · exact perCaller_congr (h.per x) rfl (by simp [upd, hx]) rfl (by simp [upd, hx]) rfl
    · intro hc; simp [hcl] at hc
    · intro x hx; exact h.tableOpen x hx
  · rename_i hcl
    cases hs
    refine ⟨fun x => ?_, ?_, ?_⟩
    · by_cases hx : x = c
      · subst hx
        refine ⟨?_, ?_, ?_, ?_, ?_, ?_, ?_⟩
        · simp [upd]
        · intro _; simp [PT.cnt, upd, hin.2.1, hin.2.2]
        · intro r; simp [upd]
        · simp [upd]
        · intro r hr; simp [hin.2.1] at hr
        · intro r hr; simp [hin.2.2] at hr
        · exact (h.per x).noDrop
      · exact perCaller_congr (h.per x) (by simp [upd, hx]) rfl rfl (by simp [upd, hx]) rfl
    · intro _; exact hsw
    · intro x _; exact Or.inl hcl


theorem inv_completeRemove (S : Nat) (st st' : PT) (i n : Nat) (h : Inv S st)
    (hs : st.step S (.completeRemove i n) = some st') : Inv S st' := by
  simp only [PT.step] at hs
  split at hs
  · rename_i hin
    cases hs
    refine ⟨fun x => ?_, h.sweepClosed, ?_⟩
    · by_cases hx : x = i
      · subst hx
        have hp := h.per x
        refine ⟨?_, ?_, ?_, ?_, ?_, hp.tagChan, hp.noDrop⟩
        · intro hpc; have := hp.idle hpc; simp [PT.cnt, hin] at this
        · intro hpc
          have h1 := hp.waiting hpc
          simp only [PT.cnt] at h1 ⊢
          simp [upd, hin] at h1 ⊢; omega
        · intro r hpc; have := (hp.got r hpc).1; simp [PT.cnt, hin] at this
        · intro hpc; have := (hp.gaveUp hpc).2; simp [hin] at this
        · intro r hr
          simp [upd] at hr
          rcases hr with rfl | hr
          · rfl
          · exact hp.tagInflight r hr
      · exact perCaller_congr (h.per x) (by simp [upd, hx]) (by simp [upd, hx]) rfl rfl rfl
    · intro x hx
      by_cases hxi : x = i
      · subst hxi; simp [upd] at hx
      · exact h.tableOpen x (by simpa [upd, hxi] using hx)
  · cases hs; exact h

theorem inv_deliver (S : Nat) (st st' : PT) (c : Nat) (h : Inv S st)
    (hs : st.step S (.deliver c) = some st') : Inv S st' := by
  simp only [PT.step] at hs
  split at hs
  · cases hs
  · rename_i r rest hfl
    have hp := h.per c
    have hcnt : st.cnt c ≤ 1 := by
      cases hpc : st.pc c with
      | idle => have := hp.idle hpc; omega
      | waiting => have := hp.waiting hpc; omega
      | got r' => have := (hp.got r' hpc).1; omega
      | gaveUp => exact (hp.gaveUp hpc).1
    have hch : st.chan c = none := by
      cases hh : st.chan c with
      | none => rfl
      | some v => simp [PT.cnt, hfl, hh] at hcnt
    have hrest : rest = [] := by
      cases rest with
      | nil => rfl
      | cons a b => simp [PT.cnt, hfl] at hcnt; omega
    have htab : st.inTable c = false := by
      cases hh : st.inTable c with
      | false => rfl
      | true => simp [PT.cnt, hfl, hh] at hcnt; omega
    rw [hch] at hs
    simp only at hs
    cases hs
    refine ⟨fun x => ?_, h.sweepClosed, h.tableOpen⟩
    by_cases hx : x = c
    · subst hx
      refine ⟨?_, ?_, ?_, ?_, ?_, ?_, hp.noDrop⟩
      · intro hpc; have h1 := hp.idle hpc; simp [PT.cnt, hfl] at h1
      · intro hpc
        have h1 := hp.waiting hpc
        simp only [PT.cnt] at h1 ⊢
        simp [upd, hfl, hch, hrest, htab] at h1 ⊢
      · intro r' hpc; have h1 := (hp.got r' hpc).1; simp [PT.cnt, hfl] at h1
      · intro hpc
        refine ⟨?_, (hp.gaveUp hpc).2⟩
        simp [PT.cnt, upd, hrest, htab]
      · intro r' hr; simp [upd, hrest] at hr
      · intro r' hr
        simp [upd] at hr; subst hr
        exact hp.tagInflight r (by simp [hfl])
    · exact perCaller_congr (h.per x) rfl (by simp [upd, hx]) (by simp [upd, hx]) rfl rfl

theorem inv_delete (S : Nat) (st st' : PT) (c : Nat) (h : Inv S st)
    (hs : st.step S (.delete c) = some st') : Inv S st' := by
  simp only [PT.step] at hs
  split at hs; · cases hs
  rename_i hw
  have hw : st.pc c = .waiting := Classical.not_not.mp hw
  cases hs
  refine ⟨fun x => ?_, h.sweepClosed, ?_⟩
  · by_cases hx : x = c
    · subst hx
      have hp := h.per x
      have h1 := hp.waiting hw
      refine ⟨?_, ?_, ?_, ?_, hp.tagInflight, hp.tagChan, hp.noDrop⟩
      · simp [upd]
      · simp [upd]
      · intro r; simp [upd]
      · intro _
        refine ⟨?_, by simp [upd]⟩
        simp only [PT.cnt] at h1 ⊢
        simp only [upd_same]
        cases st.inTable x <;> simp at h1 ⊢ <;> omega
    · exact perCaller_congr (h.per x) (by simp [upd, hx]) rfl rfl (by simp [upd, hx]) rfl
  · intro x hx
    by_cases hxc : x = c
    · subst hxc; simp [upd] at hx
    · exact h.tableOpen x (by simpa [upd, hxc] using hx)

theorem inv_recv (S : Nat) (st st' : PT) (c : Nat) (h : Inv S st)
    (hs : st.step S (.recv c) = some st') : Inv S st' := by
  simp only [PT.step] at hs
  split at hs; · cases hs
  rename_i hw
  have hw : st.pc c = .waiting := Classical.not_not.mp hw
  split at hs
  · cases hs
  · rename_i r hch
    cases hs
    have hp := h.per c
    have h1 := hp.waiting hw
    refine ⟨fun x => ?_, h.sweepClosed, h.tableOpen⟩
    by_cases hx : x = c
    · subst hx
      refine ⟨?_, ?_, ?_, ?_, hp.tagInflight, ?_, hp.noDrop⟩
      · simp [upd]
      · simp [upd]
      · intro r' hr
        simp [upd] at hr; subst hr
        refine ⟨?_, hp.tagChan r hch⟩
        simp only [PT.cnt, hch] at h1
        simp only [PT.cnt, upd_same]
        simp at h1 ⊢; omega
      · simp [upd]
      · intro r' hr; simp [upd] at hr
    · exact perCaller_congr (h.per x) rfl rfl (by simp [upd, hx]) (by simp [upd, hx]) rfl

theorem inv_failBegin (S : Nat) (st st' : PT) (e : Nat) (h : Inv S st)
    (hs : st.step S (.failBegin e) = some st') : Inv S st' := by
  simp only [PT.step] at hs
  split at hs; · cases hs
  cases hs
  refine ⟨fun x => perCaller_congr (h.per x) rfl rfl rfl rfl rfl, ?_, ?_⟩
  · intro hc; cases hcl : st.closed <;> simp [hcl] at hc
  · intro x _; exact Or.inr ⟨e, 0, rfl, Nat.zero_le _⟩

theorem inv_failEnd (S : Nat) (st st' : PT) (hS : 0 < S) (h : Inv S st)
    (hs : st.step S .failEnd = some st') : Inv S st' := by
  simp only [PT.step] at hs
  split at hs
  · rename_i e s hsw
    split at hs
    · rename_i hsS
      cases hs
      refine ⟨fun x => perCaller_congr (h.per x) rfl rfl rfl rfl rfl, fun _ => rfl, ?_⟩
      intro x hx
      rcases h.tableOpen x hx with hc | ⟨e', s', hsw', hle⟩
      · exact Or.inl hc
      · rw [hsw] at hsw'
        simp only [Option.some.injEq, Prod.mk.injEq] at hsw'
        obtain ⟨_, rfl⟩ := hsw'
        have := Nat.mod_lt x hS
        omega
    · cases hs
  · cases hs

theorem inv_failShard (S : Nat) (st st' : PT) (h : Inv S st)
    (hs : st.step S .failShard = some st') : Inv S st' := by
  simp only [PT.step] at hs
  split at hs
  · cases hs
  · rename_i e s hsw
    split at hs; · cases hs
    cases hs
    refine ⟨fun x => ?_, ?_, ?_⟩
    · have hp := h.per x
      by_cases hm : (st.inTable x && (x % S == s)) = true
      · -- x's entry is swept: the entry becomes an owed error send
        have hin : st.inTable x = true := by simp at hm; exact hm.1
        have hmod : (x % S == s) = true := by simp at hm; simpa using hm.2
        refine ⟨?_, ?_, ?_, ?_, ?_, hp.tagChan, hp.noDrop⟩
        · intro hpc; have := hp.idle hpc; simp [PT.cnt, hin] at this
        · intro hpc
          have h1 := hp.waiting hpc
          simp only [PT.cnt] at h1 ⊢
          simp [hin, hmod] at h1 ⊢; omega
        · intro r hpc; have := (hp.got r hpc).1; simp [PT.cnt, hin] at this
        · intro hpc; have := (hp.gaveUp hpc).2; simp [hin] at this
        · intro r hr
          simp only [hm, if_true, List.mem_cons] at hr
          rcases hr with rfl | hr
          · trivial
          · exact hp.tagInflight r hr
      · have hm' : (st.inTable x && (x % S == s)) = false := by simpa using hm
        have ht : (st.inTable x && !(x % S == s)) = st.inTable x := by
          cases h1 : st.inTable x <;> cases h2 : (x % S == s) <;> simp [h1, h2] at hm' ⊢
        exact perCaller_congr hp (by simp only [ht]) (by simp only [hm', Bool.false_eq_true, if_false]) rfl rfl rfl
    · intro hc; have := h.sweepClosed hc; rw [hsw] at this; cases this
    · intro x hx
      simp only [Bool.and_eq_true, Bool.not_eq_true'] at hx
      rcases h.tableOpen x hx.1 with hc | ⟨e', s', hsw', hle⟩
      · exact Or.inl hc
      · rw [hsw] at hsw'
        simp only [Option.some.injEq, Prod.mk.injEq] at hsw'
        obtain ⟨_, rfl⟩ := hsw'
        refine Or.inr ⟨e, s + 1, rfl, ?_⟩
        have : x % S ≠ s := by simpa using hx.2
        omega

theorem inv_step (S : Nat) (hS : 0 < S) (st st' : PT) (l : Label) (h : Inv S st) (hs : st.step S l = some st') : Inv S st' := by
  cases l with
  | store c => exact inv_store S st st' c h hs
  | completeRemove i n => exact inv_completeRemove S st st' i n h hs
  | deliver c => exact inv_deliver S st st' c h hs
  | delete c => exact inv_delete S st st' c h hs
  | recv c => exact inv_recv S st st' c h hs
  | failBegin e => exact inv_failBegin S st st' e h hs
  | failShard => exact inv_failShard S st st' h hs
  | failEnd => exact inv_failEnd S st st' hS h hs

theorem inv_reachable (S : Nat) (hS : 0 < S) (st : PT) (h : Reachable S st) : Inv S st := by
  induction h with
  | init => exact inv_init S
  | step l _ hs ih => exact inv_step S hS _ _ l ih hs

end WK.C26

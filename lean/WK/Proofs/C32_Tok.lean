import WK.Proofs.C32_Inv
/-
  C32: every stored bind token is at most the allocator value (tokens are fresh when issued).
-/
namespace WK.C32

def EntOK (n : Nat) (e : Entry) : Prop := e.primary ≤ n ∧ ∀ a ∈ e.extras, a.1 ≤ n

def TokInv (s : St) : Prop := ∀ ke ∈ s.entries, EntOK s.nextTok ke.2

theorem EntOK.mono {n m : Nat} {e : Entry} (h : EntOK n e) (hnm : n ≤ m) : EntOK m e :=
  ⟨Nat.le_trans h.1 hnm, fun a ha => Nat.le_trans (h.2 a ha) hnm⟩

theorem entOK_default (n : Nat) : EntOK n ({} : Entry) := ⟨Nat.zero_le _, by simp⟩

theorem entOK_addAttempt {n : Nat} {e : Entry} (h : EntOK n e) (p : Pend) (tok : Nat) (ht : tok ≤ n) :
    EntOK n (e.addAttempt p tok) := by
  unfold Entry.addAttempt
  split
  · exact ⟨ht, h.2⟩
  · refine ⟨h.1, ?_⟩
    intro a ha
    simp only [List.mem_append, List.mem_singleton] at ha
    rcases ha with ha | rfl
    · exact h.2 a ha
    · exact ht

theorem entOK_finishAttempt {n : Nat} {e : Entry} (h : EntOK n e) (tok : Nat) : EntOK n (e.finishAttempt tok).1 := by
  unfold Entry.finishAttempt
  split
  · exact ⟨Nat.zero_le _, h.2⟩
  · split
    · exact h
    · split
      · refine ⟨Nat.zero_le _, ?_⟩
        intro a ha
        rcases List.mem_or_eq_of_mem_set ha with h1 | h1
        · exact h.2 a h1
        · subst h1; exact h.1
      · exact ⟨h.1, fun a ha => h.2 a (mem_removeExtra ha)⟩

theorem entOK_cancelAttempt {n : Nat} {e : Entry} (h : EntOK n e) (tok : Nat) : EntOK n (e.cancelAttempt tok).1 := by
  unfold Entry.cancelAttempt
  split
  · split
    · rename_i promoted hp
      have hm : promoted ∈ e.extras := by
        split at hp
        · exact List.mem_of_getLast? hp
        · cases hp
      exact ⟨h.2 _ hm, fun a ha => h.2 a ((List.dropLast_sublist _).subset ha)⟩
    · exact ⟨Nat.zero_le _, h.2⟩
  · split
    · exact h
    · exact ⟨h.1, fun a ha => h.2 a (mem_removeExtra ha)⟩

theorem mem_aput {k : MKey} {v : Entry} {m : List (MKey × Entry)} {ke : MKey × Entry} (h : ke ∈ aput k v m) :
    ke = (k, v) ∨ ke ∈ m := by
  induction m with
  | nil => simp [aput] at h; exact Or.inl h
  | cons p m ih =>
    obtain ⟨a, b⟩ := p
    simp only [aput] at h
    split at h
    · rcases List.mem_cons.mp h with h | h
      · exact Or.inl h
      · exact Or.inr (List.mem_cons_of_mem _ h)
    · rcases List.mem_cons.mp h with h | h
      · exact Or.inr (by rw [h]; simp)
      · rcases ih h with h | h
        · exact Or.inl h
        · exact Or.inr (List.mem_cons_of_mem _ h)

theorem tokInv_aput {s : St} {k : MKey} {e : Entry} (h : TokInv s) (he : EntOK s.nextTok e) :
    TokInv { s with entries := aput k e s.entries } := by
  intro ke hke
  rcases mem_aput hke with rfl | hm
  · exact he
  · exact h ke hm

theorem tokInv_sub {s : St} {es : List (MKey × Entry)} (c : Int) (h : TokInv s) (hsub : ∀ ke ∈ es, ke ∈ s.entries) :
    TokInv { s with entries := es, count := c } := fun ke hke => h ke (hsub ke hke)

theorem tokInv_bindCore {s : St} (p : Pend) (h : TokInv s) : TokInv (bindCore s p).1 := by
  unfold bindCore
  simp only
  split
  · split
    · exact h
    · intro ke hke
      rcases mem_aput hke with rfl | hm
      · exact entOK_addAttempt (entOK_default _) _ _ (Nat.le_refl _)
      · exact (h ke hm).mono (Nat.le_succ _)
  · rename_i e he
    intro ke hke
    rcases mem_aput hke with rfl | hm
    · exact entOK_addAttempt ((h _ (aget_mem he)).mono (Nat.le_succ _)) _ _ (Nat.le_refl _)
    · exact (h ke hm).mono (Nat.le_succ _)

theorem tokInv_finish {s : St} (p : Pend) (tok : Nat) (h : TokInv s) : TokInv (finish s p tok).1 := by
  unfold finish
  split
  · exact h
  · split
    · exact h
    · rename_i e he
      simp only
      split
      · exact tokInv_aput h (entOK_finishAttempt (h _ (aget_mem he)) tok)
      · exact h

theorem tokInv_cancel {s : St} (p : Pend) (tok : Nat) (h : TokInv s) : TokInv (cancel s p tok).1 := by
  unfold cancel
  split
  · exact h
  · split
    · exact h
    · rename_i e he
      simp only
      split
      · exact h
      · split
        · exact tokInv_aput h (entOK_cancelAttempt (h _ (aget_mem he)) tok)
        · exact tokInv_sub _ h (fun ke hke => (List.mem_filter.mp hke).1)

theorem tokInv_bindBatchLoop : ∀ (items : List (Nat × Pend)) (s : St) (toks : List (Nat × Nat)) (added : Nat),
    TokInv s → TokInv (bindBatchLoop items s toks added).1
  | [], _, _, _, h => h
  | (_, p) :: rest, s, _, _, h => by
    unfold bindBatchLoop
    exact tokInv_bindBatchLoop rest _ _ _ (tokInv_bindCore p h)

theorem tokInv_finishBatchLoop : ∀ (items : List (Pend × Nat)) (s : St) (n : Nat),
    TokInv s → TokInv (finishBatchLoop items s n).1
  | [], _, _, h => h
  | (p, tok) :: rest, s, _, h => by
    unfold finishBatchLoop
    exact tokInv_finishBatchLoop rest _ _ (tokInv_finish p tok h)

theorem tokInv_bind {s : St} (p : Pend) (h : TokInv s) : TokInv (bind s p).1 := by
  unfold bind
  split
  · exact h
  · exact tokInv_bindCore p h

theorem tokInv_step {s : St} (h : TokInv s) (op : Op) : TokInv (step s op).1 := by
  cases op with
  | setNow n => exact h
  | bind p => exact tokInv_bind p h
  | bindCompat p =>
    simp only [step, bindCompat]
    split
    · exact tokInv_bind p h
    · exact tokInv_finish p _ (tokInv_bind p h)
  | bindBatch ps =>
    simp only [step, bindBatch]
    split
    · exact h
    · exact tokInv_bindBatchLoop _ s [] 0 h
  | finish p tok => exact tokInv_finish p tok h
  | finishBatch ps toks idxs => exact tokInv_finishBatchLoop _ s 0 h
  | cancel p tok => exact tokInv_cancel p tok h
  | ack k =>
    simp only [step, ack]
    split
    · exact h
    · split
      · exact h
      · exact tokInv_sub _ h (fun ke hke => (List.mem_filter.mp hke).1)
  | closed u ss =>
    simp only [step, sessionClosed]
    split
    · exact h
    · exact tokInv_sub _ h (fun ke hke => (List.mem_filter.mp hke).1)
  | expire ttl =>
    simp only [step, expire]
    split
    · exact h
    · exact tokInv_sub _ h (fun ke hke => (List.mem_filter.mp hke).1)
  | count => exact h
  | reset => intro ke hke; simp [step, reset] at hke

theorem tokInv_run {s : St} (h : TokInv s) (ops : List Op) : TokInv (run s ops) := by
  induction ops generalizing s with
  | nil => exact h
  | cons op ops ih => exact ih (tokInv_step h op)

end WK.C32

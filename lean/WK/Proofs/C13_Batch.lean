import WK.Model.C13
/-
  C13 — the batch loop against the one-at-a-time reference.
-/
namespace WK.C13

variable {κ : Type} (cfg : Cfg) (d : Bytes → Except Err Nat) (one : One κ)

theorem seqRun_nil (st : St κ) : seqRun cfg d one st [] = (st, [], none) := rfl

theorem seqRun_cons_err (st : St κ) (c : Cmd) (cs : List Cmd) (e : Err)
    (h : stepOne cfg d one st c = .error e) : seqRun cfg d one st (c :: cs) = (st, [], some e) := by
  simp [seqRun, h]

theorem seqRun_cons_ok (st st' : St κ) (c : Cmd) (cs : List Cmd) (r : Result)
    (h : stepOne cfg d one st c = .ok (st', r)) :
    seqRun cfg d one st (c :: cs) =
      ((seqRun cfg d one st' cs).1, r :: (seqRun cfg d one st' cs).2.1, (seqRun cfg d one st' cs).2.2) := by
  simp [seqRun, h]

/-- sequential runs compose -/
theorem seqRun_append (st : St κ) (a b : List Cmd) :
    seqRun cfg d one st (a ++ b) =
      (match (seqRun cfg d one st a).2.2 with
       | some e => ((seqRun cfg d one st a).1, (seqRun cfg d one st a).2.1, some e)
       | none =>
         ((seqRun cfg d one (seqRun cfg d one st a).1 b).1,
          (seqRun cfg d one st a).2.1 ++ (seqRun cfg d one (seqRun cfg d one st a).1 b).2.1,
          (seqRun cfg d one (seqRun cfg d one st a).1 b).2.2)) := by
  induction a generalizing st with
  | nil =>
    simp only [List.nil_append, seqRun_nil]
  | cons c cs ih =>
    simp only [List.cons_append]
    cases h : stepOne cfg d one st c with
    | error e => simp [seqRun_cons_err cfg d one st c _ e h]
    | ok p =>
      obtain ⟨st', r⟩ := p
      rw [seqRun_cons_ok cfg d one st st' c _ r h, seqRun_cons_ok cfg d one st st' c _ r h, ih st']
      cases (seqRun cfg d one st' cs).2.2 <;> simp

theorem lastIndex_cons_cons (c c' : Cmd) (cs : List Cmd) : lastIndex (c :: c' :: cs) = lastIndex (c' :: cs) := by
  simp [lastIndex, List.getLast?_cons_cons]

/-- the staging loop is the sequential run: same first refusal, same staged KV, same
    results; without a commit-stale command and with positive indices also the same
    applied index -/
theorem stage_seq (st : St κ) (cs : List Cmd) :
    (∀ e, stage cfg d one st.kv cs = .error e → (seqRun cfg d one st cs).2.2 = some e) ∧
    (∀ kv rs flag, stage cfg d one st.kv cs = .ok (kv, rs, flag) →
      (seqRun cfg d one st cs).2.2 = none ∧ (seqRun cfg d one st cs).2.1 = rs ∧
      (seqRun cfg d one st cs).1.kv = kv ∧
      (flag = false → (∀ c ∈ cs, c.index > 0) →
        (seqRun cfg d one st cs).1.applied = (if lastIndex cs > 0 then lastIndex cs else st.applied))) := by
  induction cs generalizing st with
  | nil =>
    constructor
    · intro e h; simp [stage] at h
    · intro kv rs flag h
      simp only [stage, Except.ok.injEq, Prod.mk.injEq] at h
      obtain ⟨rfl, rfl, rfl⟩ := h
      simp [seqRun, lastIndex]
  | cons c cs ih =>
    by_cases hslot : c.slot ≠ cfg.slot
    · have hstep : stepOne cfg d one st c = .error .invalid := by simp [stepOne, hslot]
      constructor
      · intro e h
        simp only [stage, hslot, ne_eq, not_false_eq_true, if_true, Except.error.injEq] at h
        subst h
        simp [seqRun_cons_err cfg d one st c cs _ hstep]
      · intro kv rs flag h; simp [stage, hslot] at h
    · cases hres : resolveHashSlot cfg d c with
      | error e0 =>
        have hstep : stepOne cfg d one st c = .error e0 := by simp [stepOne, hslot, hres]
        constructor
        · intro e h
          simp only [stage, hslot, if_false, hres, Except.error.injEq] at h
          subst h
          simp [seqRun_cons_err cfg d one st c cs _ hstep]
        · intro kv rs flag h; simp [stage, hslot, hres] at h
      | ok hs =>
        cases hone : one st.kv hs c with
        | error e0 =>
          have hstep : stepOne cfg d one st c = .error e0 := by simp [stepOne, hslot, hres, hone]
          constructor
          · intro e h
            simp only [stage, hslot, if_false, hres, hone, Except.error.injEq] at h
            subst h
            simp [seqRun_cons_err cfg d one st c cs _ hstep]
          · intro kv rs flag h; simp [stage, hslot, hres, hone] at h
        | done kv' r =>
          have hstep : stepOne cfg d one st c =
              .ok ({ kv := kv', applied := if c.index > 0 then c.index else st.applied }, r) := by
            simp [stepOne, hslot, hres, hone]
          have ih' := ih { kv := kv', applied := if c.index > 0 then c.index else st.applied }
          rw [seqRun_cons_ok cfg d one st _ c cs r hstep]
          constructor
          · intro e h
            simp only [stage, hslot, if_false, hres, hone] at h
            cases hs' : stage cfg d one kv' cs with
            | error e1 =>
              rw [hs'] at h; simp only [Except.error.injEq] at h; subst h
              exact ih'.1 e1 hs'
            | ok p => rw [hs'] at h; simp at h
          · intro kv rs flag h
            simp only [stage, hslot, if_false, hres, hone] at h
            cases hs' : stage cfg d one kv' cs with
            | error e1 => rw [hs'] at h; simp at h
            | ok p =>
              obtain ⟨kv2, rs2, f2⟩ := p
              rw [hs'] at h
              simp only [Except.ok.injEq, Prod.mk.injEq] at h
              obtain ⟨rfl, rfl, rfl⟩ := h
              obtain ⟨h1, h2, h3, h4⟩ := ih'.2 kv2 rs2 f2 hs'
              refine ⟨h1, by simp [h2], h3, ?_⟩
              intro hf hpos
              have hc := hpos c (List.mem_cons_self ..)
              have := h4 hf (fun x hx => hpos x (List.mem_cons_of_mem _ hx))
              simp only at this
              rw [this]
              cases cs with
              | nil => simp [lastIndex, hc]
              | cons c' cs' =>
                rw [lastIndex_cons_cons]
                have hc' := hpos c' (List.mem_cons_of_mem _ (List.mem_cons_self ..))
                have : lastIndex (c' :: cs') > 0 := by
                  have hmem : ∀ x ∈ (c' :: cs'), x.index > 0 := fun x hx => hpos x (List.mem_cons_of_mem _ hx)
                  unfold lastIndex
                  cases hl : (c' :: cs').getLast? with
                  | none => simp at hl
                  | some l => exact hmem l (List.mem_of_getLast? hl)
                simp [this]
        | commitStale =>
          have hstep : stepOne cfg d one st c = .ok (st, staleResult) := by
            simp [stepOne, hslot, hres, hone]
          have ih' := ih st
          rw [seqRun_cons_ok cfg d one st st c cs _ hstep]
          constructor
          · intro e h
            simp only [stage, hslot, if_false, hres, hone] at h
            cases hs' : stage cfg d one st.kv cs with
            | error e1 =>
              rw [hs'] at h; simp only [Except.error.injEq] at h; subst h
              exact ih'.1 e1 hs'
            | ok p => rw [hs'] at h; simp at h
          · intro kv rs flag h
            simp only [stage, hslot, if_false, hres, hone] at h
            cases hs' : stage cfg d one st.kv cs with
            | error e1 => rw [hs'] at h; simp at h
            | ok p =>
              obtain ⟨kv2, rs2, f2⟩ := p
              rw [hs'] at h
              simp only [Except.ok.injEq, Prod.mk.injEq] at h
              obtain ⟨rfl, rfl, rfl⟩ := h
              obtain ⟨h1, h2, h3, _⟩ := ih'.2 kv2 rs2 f2 hs'
              exact ⟨h1, by simp [h2], h3, fun hf => by cases hf⟩

/-- with no refusal, replaying one at a time after a stale commit IS the sequential run -/
theorem individually_eq_seq (st : St κ) (cs : List Cmd) (h : (seqRun cfg d one st cs).2.2 = none) :
    individually cfg d one st cs = seqRun cfg d one st cs := by
  induction cs generalizing st with
  | nil => rfl
  | cons c cs ih =>
    cases hstep : stepOne cfg d one st c with
    | error e => rw [seqRun_cons_err cfg d one st c cs e hstep] at h; cases h
    | ok p =>
      obtain ⟨st', r⟩ := p
      rw [seqRun_cons_ok cfg d one st st' c cs r hstep] at h ⊢
      simp only [individually, hstep]
      rw [ih st' h]

/-- KEY: a batch none of whose commands is refused does exactly what the
    one-at-a-time run does (state incl. applied index, and results) -/
theorem applyBatch_eq_seq (st : St κ) (cs : List Cmd) (hpos : ∀ c ∈ cs, c.index > 0)
    (h : (seqRun cfg d one st cs).2.2 = none) :
    applyBatch cfg d one st cs = seqRun cfg d one st cs := by
  have hs := stage_seq cfg d one st cs
  unfold applyBatch
  cases hst : stage cfg d one st.kv cs with
  | error e => have := hs.1 e hst; rw [h] at this; cases this
  | ok p =>
    obtain ⟨kv, rs, flag⟩ := p
    obtain ⟨h1, h2, h3, h4⟩ := hs.2 kv rs flag hst
    cases flag with
    | true =>
      simp only [if_true]
      cases cs with
      | nil => simp [stage] at hst
      | cons c cs' =>
        cases cs' with
        | nil =>
          -- the singleton was commit-stale
          simp only
          cases hstep : stepOne cfg d one st c with
          | error e => rw [seqRun_cons_err cfg d one st c [] e hstep] at h; cases h
          | ok q =>
            obtain ⟨st', r⟩ := q
            -- from `stage`: the outcome was commitStale, so st' = st and r = stale
            simp only [stage] at hst
            simp only [stepOne] at hstep
            split at hst
            · simp at hst
            · rename_i hslot
              simp only [hslot, if_false] at hstep
              cases hres : resolveHashSlot cfg d c with
              | error e0 => rw [hres] at hst; simp at hst
              | ok hsl =>
                rw [hres] at hst hstep
                simp only at hst hstep
                cases hone : one st.kv hsl c with
                | error e0 => rw [hone] at hst; simp at hst
                | done kv' r' => rw [hone] at hst; simp at hst
                | commitStale =>
                  rw [hone] at hstep
                  simp only [Except.ok.injEq, Prod.mk.injEq] at hstep
                  obtain ⟨rfl, rfl⟩ := hstep
                  have : stepOne cfg d one st c = .ok (st, staleResult) := by
                    simp [stepOne, hslot, hres, hone]
                  rw [seqRun_cons_ok cfg d one st st c [] staleResult this]
                  rfl
        | cons c2 cs2 => exact individually_eq_seq cfg d one st _ h
    | false =>
      simp only [Bool.false_eq_true, if_false]
      have ha := h4 rfl hpos
      have : seqRun cfg d one st cs = ((seqRun cfg d one st cs).1, (seqRun cfg d one st cs).2.1, (seqRun cfg d one st cs).2.2) := rfl
      rw [this, h1, h2]
      congr 1
      cases hq : (seqRun cfg d one st cs).1 with
      | mk kv' ap' =>
        rw [hq] at h3 ha
        simp only at h3 ha
        rw [h3, ha]

/-- a refusal while staging aborts the whole batch: nothing is written -/
theorem applyBatch_refused (st : St κ) (cs : List Cmd) (e : Err)
    (h : stage cfg d one st.kv cs = .error e) : applyBatch cfg d one st cs = (st, [], some e) := by
  simp [applyBatch, h]

/-- a command whose envelope check fails makes staging fail, wherever it sits in the batch -/
theorem stage_front_error (kv : κ) (cs : List Cmd) (c : Cmd) (hc : c ∈ cs)
    (hf : c.slot ≠ cfg.slot ∨ ∃ e, resolveHashSlot cfg d c = .error e) :
    ∃ e, stage cfg d one kv cs = .error e := by
  induction cs generalizing kv with
  | nil => cases hc
  | cons x xs ih =>
    by_cases hx : x.slot ≠ cfg.slot
    · exact ⟨.invalid, by simp [stage, hx]⟩
    · cases hres : resolveHashSlot cfg d x with
      | error e0 => exact ⟨e0, by simp [stage, hx, hres]⟩
      | ok hs =>
        have hne : c ≠ x := by
          rintro rfl
          rcases hf with h1 | ⟨e, h2⟩
          · exact hx h1
          · rw [hres] at h2; cases h2
        have hmem : c ∈ xs := by
          rcases List.mem_cons.1 hc with h | h
          · exact absurd h hne
          · exact h
        cases hone : one kv hs x with
        | error e0 => exact ⟨e0, by simp [stage, hx, hres, hone]⟩
        | done kv' r =>
          obtain ⟨e, he⟩ := ih kv' hmem
          exact ⟨e, by simp [stage, hx, hres, hone, he]⟩
        | commitStale =>
          obtain ⟨e, he⟩ := ih kv hmem
          exact ⟨e, by simp [stage, hx, hres, hone, he]⟩

end WK.C13

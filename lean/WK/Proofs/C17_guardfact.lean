import WK.Proofs.C17_batch
/-
  C17 — the extracted guard-channel fact as a proof obligation, and what it buys.
-/
namespace WK.C17

/-! ## the guard-channel check is in the source (T fact) ⇒ foreign-fence safety without side condition -/

/-- Both request validators compare the task guard's channel with the runtime guard's channel —
    ChannelID AND ChannelType (extract/c17.go regenerates the two facts from the Go source on every
    run; this obligation fails to check as soon as either comparison is missing in either validator). -/
theorem c17_guard_channel_check_present :
    WK.Gen.C17.transitionChecksGuardChannel = true ∧ WK.Gen.C17.fenceRequestChecksGuardChannel = true := by
  decide

/-- **Foreign fence safety, no side condition** (relies on `c17_guard_channel_check_present`):
    a single command never changes or clears a fence its task does not own. -/
theorem c17_foreign_fence_safe (db : State) (c : Cmd) (x : Nat) (m : Meta) (hm : db.meta? x = some m) (hf : m.ftok ≠ 0)
    (hforeign : ¬ (c.g.chan = x ∧ c.g.id = m.ftok)) :
    ((applySingle db c).1.meta? x).map Meta.fence = some m.fence :=
  c17_foreign_fence_safe_full c17_guard_channel_check_present.1 c17_guard_channel_check_present.2 db c x m hm hf hforeign

/-- non-vacuity: the crossed clear of the old counterexample is now refused, channel 2 keeps its fence -/
example : ((applySingle exForeignState exCrossClear).1.meta? 2).map Meta.fence = some (1, 1, 1, 200) := by decide

end WK.C17

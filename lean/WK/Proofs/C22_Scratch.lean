import WK.Theorems.C22
namespace WK.C22

theorem getU8_spec {b r : Bytes} {x : Nat} (h : getU8 b = some (x, r)) : x < 256 ∧ b.length = r.length + 1 := by
  cases b with
  | nil => simp [getU8] at h
  | cons a t =>
    simp only [getU8, Option.some.injEq, Prod.mk.injEq] at h
    obtain ⟨rfl, rfl⟩ := h
    exact ⟨a.toNat_lt, rfl⟩

theorem getU16_spec {b r : Bytes} {x : Nat} (h : getU16 b = some (x, r)) : x < 65536 ∧ b.length = r.length + 2 := by
  match b, h with
  | a :: c :: t, h =>
    simp only [getU16, Option.some.injEq, Prod.mk.injEq] at h
    obtain ⟨rfl, rfl⟩ := h
    have := a.toNat_lt; have := c.toNat_lt
    exact ⟨by omega, rfl⟩

theorem getU32_spec {b r : Bytes} {x : Nat} (h : getU32 b = some (x, r)) :
    x < 4294967296 ∧ b.length = r.length + 4 := by
  match b, h with
  | a :: c :: d :: e :: t, h =>
    simp only [getU32, Option.some.injEq, Prod.mk.injEq] at h
    obtain ⟨rfl, rfl⟩ := h
    have := a.toNat_lt; have := c.toNat_lt; have := d.toNat_lt; have := e.toNat_lt
    exact ⟨by omega, rfl⟩

theorem getU64_spec {b r : Bytes} {x : Nat} (h : getU64 b = some (x, r)) :
    x < 18446744073709551616 ∧ b.length = r.length + 8 := by
  match b, h with
  | a :: c :: d :: e :: f :: g :: i :: j :: t, h =>
    simp only [getU64, Option.some.injEq, Prod.mk.injEq] at h
    obtain ⟨rfl, rfl⟩ := h
    have := a.toNat_lt; have := c.toNat_lt; have := d.toNat_lt; have := e.toNat_lt
    have := f.toNat_lt; have := g.toNat_lt; have := i.toNat_lt; have := j.toNat_lt
    exact ⟨by omega, rfl⟩

theorem getStr_spec {b r s : Bytes} (h : getStr b = some (s, r)) :
    s.length ≤ 32767 ∧ b.length = r.length + s.length + 2 := by
  unfold getStr at h
  cases h16 : getU16 b with
  | none => simp [h16] at h
  | some pr =>
    obtain ⟨n, t⟩ := pr
    have hs := getU16_spec h16
    simp only [h16, maxInt16] at h
    by_cases h1 : n > 32767
    · simp [h1] at h
    · by_cases h2 : t.length < n
      · simp [h1, h2] at h
      · simp only [h1, h2, if_false, Option.some.injEq, Prod.mk.injEq] at h
        obtain ⟨rfl, rfl⟩ := h
        simp only [List.length_take, List.length_drop]
        omega

theorem getSeq_spec {v : Nat} {b r : Bytes} {x : Nat} (h : getSeq v b = some (x, r)) :
    seqOk v x ∧ b.length = r.length + seqSize v := by
  unfold getSeq at h
  unfold seqOk seqSize
  by_cases hv : v ≤ legacyMessageSeqVersion
  · simp only [hv, if_true] at h ⊢
    exact getU32_spec h
  · simp only [hv, if_false] at h ⊢
    exact getU64_spec h

end WK.C22

namespace WK.C22
theorem decDisconnect_inv {h : Flags} {b : Bytes} {f : Frame} (hd : decDisconnect h b = some f) :
    FieldsOk 0 f ∧ bodySize 0 f ≤ b.length := by
  simp only [decDisconnect, bind, Option.bind_eq_some_iff, pure, Option.some.injEq, Prod.exists] at hd
  obtain ⟨x1, r1, h1, x2, r2, h2, rfl⟩ := hd
  have := getU8_spec h1; have := getStr_spec h2
  simp [FieldsOk, bodySize, sizeDisconnect, u8, strOk, maxInt16]
  omega
end WK.C22

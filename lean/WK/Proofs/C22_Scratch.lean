import WK.Theorems.C22
import WK.Gen.C22
namespace WK.C22
open WK.Gen.C22

theorem t_send (v : Nat) (p : Send) :
    encSend v p = interpEnc ⟨v, false, p.val⟩ enc_send ∧
    sizeSend v p = interpSize ⟨v, false, p.val⟩ size_send ∧
    dec_send = enc_send := by
  refine ⟨?_, ?_, by decide⟩
  · simp [encSend, interpEnc, enc_send, evalGuard, evalAtom, writeItem, Send.val, Val.nat, Val.byt, wIf, streamOn, topicOn, and_assoc]
    first | rfl | congr
  · simp [sizeSend, interpSize, size_send, evalGuard, evalAtom, sizeItem, Send.val, Val.nat, Val.byt, streamOn, topicOn, and_assoc]
    repeat' split
    all_goals (first | omega | (simp [*]; try omega))

import WK.Model.C29
/-
  C29 — invariants of the writer activation LTS.
-/
set_option linter.unusedSimpArgs false
namespace WK.C29

structure WInv (s : Writer) : Prop where
  fresh : ∀ i, s.adv i ≠ .none → i < s.na
  ownSched : ∀ i, (s.adv i).owns = true → s.scheduled = true
  ownUnique : ∀ i j, (s.adv i).owns = true → (s.adv j).owns = true → i = j
  schedOwn : s.scheduled = true → ∃ i, (s.adv i).owns = true
  wake : 0 < s.inbox → s.scheduled = true ∨ (∃ t, s.sub t = .enqueued) ∨ (∃ i, s.adv i = .deact true)
  conserve : s.taken + s.inbox = s.submitted

theorem WInv.init : WInv Writer.init := by
  constructor <;> simp [Writer.init, APc.owns]

local macro "w_simp" : tactic => `(tactic| simp only [updS, updA, APc.owns] at *)

theorem WInv.step_fresh {s s' : Writer} (h : WInv s) (st : WStep s s') : ∀ i, s'.adv i ≠ .none → i < s'.na := by
  obtain ⟨h1, h2, h3, h4, h5, h6⟩ := h
  cases st <;> w_simp <;> grind

theorem WInv.step_ownSched {s s' : Writer} (h : WInv s) (st : WStep s s') :
    ∀ i, (s'.adv i).owns = true → s'.scheduled = true := by
  obtain ⟨h1, h2, h3, h4, h5, h6⟩ := h
  cases st <;> w_simp <;> grind

theorem WInv.step_ownUnique {s s' : Writer} (h : WInv s) (st : WStep s s') :
    ∀ i j, (s'.adv i).owns = true → (s'.adv j).owns = true → i = j := by
  obtain ⟨h1, h2, h3, h4, h5, h6⟩ := h
  cases st <;> w_simp <;> grind

theorem WInv.step_schedOwn {s s' : Writer} (h : WInv s) (st : WStep s s') :
    s'.scheduled = true → ∃ i, (s'.adv i).owns = true := by
  obtain ⟨h1, h2, h3, h4, h5, h6⟩ := h
  cases st
  case casWin t _ _ => intro _; exact ⟨s.na, by simp [updA, APc.owns]⟩
  case resched _ => intro _; exact ⟨s.na, by simp [updA, APc.owns]⟩
  case reactWin i _ _ => intro _; exact ⟨i, by simp [updA, APc.owns]⟩
  case start i hq =>
    intro hs
    exact ⟨i, by simp [updA, APc.owns]⟩
  all_goals (w_simp; grind)

theorem WInv.step_wake {s s' : Writer} (h : WInv s) (st : WStep s s') :
    0 < s'.inbox → s'.scheduled = true ∨ (∃ t, s'.sub t = .enqueued) ∨ (∃ i, s'.adv i = .deact true) := by
  obtain ⟨h1, h2, h3, h4, h5, h6⟩ := h
  cases st
  case enq t _ => intro _; exact Or.inr (Or.inl ⟨t, by simp [updS]⟩)
  case deactivate i other hr =>
    intro hpos
    refine Or.inr (Or.inr ⟨i, ?_⟩)
    simp only [updA, if_true]
    have : decide (0 < s.inbox) = true := by simpa using hpos
    simp [this]
  all_goals (w_simp; grind)

theorem WInv.step_conserve {s s' : Writer} (h : WInv s) (st : WStep s s') : s'.taken + s'.inbox = s'.submitted := by
  obtain ⟨h1, h2, h3, h4, h5, h6⟩ := h
  cases st <;> w_simp <;> omega

theorem WInv.step {s s' : Writer} (h : WInv s) (st : WStep s s') : WInv s' :=
  ⟨h.step_fresh st, h.step_ownSched st, h.step_ownUnique st, h.step_schedOwn st, h.step_wake st, h.step_conserve st⟩

theorem WReach.inv {s : Writer} (r : WReach s) : WInv s := by
  induction r with
  | init => exact WInv.init
  | step _ st ih => exact ih.step st

end WK.C29

import WK.Proofs.C32_Conc
namespace WK.C32

/-- **The TTL is rounded UP to whole seconds.**  `ttlSeconds` is the ceiling of ttl/1e9, so an
    entry whose newest committed/primary delivery has been idle for less than the ttl
    (`(now - deliveredAt)·1e9 < ttl`, fractional ttl included) is fresh and is never expired. -/
theorem c32_expire_ttl_ceil (s : St) (ttl : Int) (hpos : 0 < ttl) :
    (ttl ≤ ttlSeconds ttl * 1000000000 ∧ (ttlSeconds ttl - 1) * 1000000000 < ttl) ∧
    ∀ ke ∈ s.entries, (s.now - ke.2.pending.dat) * 1000000000 < ttl →
      ke ∈ (expire s ttl).1.entries := by
  have hceil : ttl ≤ ttlSeconds ttl * 1000000000 ∧ (ttlSeconds ttl - 1) * 1000000000 < ttl := by
    unfold ttlSeconds; omega
  refine ⟨hceil, ?_⟩
  intro ke hke hidle
  unfold expire
  have : ¬ ttl ≤ 0 := by omega
  simp only [this, if_false]
  rw [List.mem_filter]
  refine ⟨hke, ?_⟩
  unfold Entry.freshAfter
  have : ke.2.pending.dat > s.now - ttlSeconds ttl := by omega
  simp [this]

/-- **Cancelling the uncommitted primary promotes the newest overlapping attempt and loses none.**
    With the entry uncommitted and n ≥ 1 overlapping attempts, after `cancelAttempt primary` the
    tokens still reserved (extras in order, then the new primary) are exactly the previous
    overlapping attempts' tokens, each once, in order; the promoted one is the last (newest) and
    its metadata becomes the entry's pending metadata. -/
theorem c32_cancel_promotes_newest (e : Entry) (hc : e.committed = false) (hne : e.extras ≠ []) :
    (e.cancelAttempt e.primary).2 = true ∧
    (e.cancelAttempt e.primary).1.extras ++ [((e.cancelAttempt e.primary).1.primary, (e.cancelAttempt e.primary).1.pending)] = e.extras ∧
    (e.cancelAttempt e.primary).1.committed = false := by
  unfold Entry.cancelAttempt
  have hl : e.extras.getLast? = some (e.extras.getLast hne) := List.getLast?_eq_some_getLast hne
  simp only [if_true, hc, Bool.not_false, hl]
  refine ⟨trivial, ?_, trivial⟩
  exact List.dropLast_concat_getLast hne

end WK.C32

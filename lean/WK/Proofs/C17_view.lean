import WK.Proofs.C17_normidem
/-
  C17 final round — the view a closure reads (overlay over the committed store) IS the virtual store
  (committed store + the writes staged so far), for commits without GC closures.
-/
namespace WK.C17

def ViewOK (db V : State) (o : Ov) : Prop :=
  (∀ c i, o.task? db c i = V.task? c i) ∧ (∀ c, o.meta? db c = V.meta? c)

theorem view_start (db : State) : ViewOK db db {} := ⟨fun c i => ov_empty_task db c i, fun c => ov_empty_meta db c⟩

theorem ov_putTask_meta (o : Ov) (db : State) (t : Task) (c : Nat) : (o.putTask t).meta? db c = o.meta? db c := rfl

theorem ov_putMeta_meta (o : Ov) (db : State) (rc : Nat) (m : Meta) (c : Nat) :
    (o.putMeta rc m).meta? db c = if c = rc then some m else o.meta? db c := by
  by_cases h : c = rc
  · subst h; simp [Ov.putMeta, Ov.meta?]
  · have : (rc == c) = false := by simp; omega
    simp [Ov.putMeta, Ov.meta?, List.find?_cons, this, h]

theorem upsert_metas_on (db V : State) (nt : Task) (ws : List W) (h : upsertWrites db nt = .ok ws) :
    (applyWs V ws).metas = V.metas := by
  rcases upsert_shape db nt ws h with ⟨_, hw, _⟩ | ⟨_, hw, _⟩ | ⟨_, hw⟩ <;> (rw [hw]; rfl)

theorem view_put (db V : State) (o : Ov) (nt : Task) (ws : List W) (v : ViewOK db V o) (h : upsertWrites db nt = .ok ws) :
    ViewOK db (applyWs V ws) (o.putTask nt) := by
  constructor
  · intro c i
    rw [upsert_lookup_on db V nt ws h c i]
    by_cases hk : nt.chan = c ∧ nt.id = i
    · rw [if_pos hk, ← hk.1, ← hk.2, ov_putTask_same]
    · rw [if_neg hk, ov_putTask_ne o db nt c i hk]; exact v.1 c i
  · intro c
    rw [ov_putTask_meta, meta?_of_metas _ _ (upsert_metas_on db V nt ws h)]
    exact v.2 c


theorem runStaged_taskMeta_exact (db : State) (o o' : Ov) (c : Cmd) (ws : List W)
    (h : runStaged db o (.taskMeta c) = .ok (o', ws)) (hw : ws ≠ []) :
    ∃ t nt m nm0 ws', o.task? db c.g.chan c.g.id = some t ∧ o.meta? db c.rg.chan = some m ∧
      mutate c t m = .ok (nt, nm0) ∧ upsertWrites db nt = .ok ws' ∧
      ws = ws' ++ [W.putMeta c.rg.chan (normMeta (bumpRoute m (normMeta nm0)))] ∧
      o' = (o.putTask nt).putMeta c.rg.chan (bumpRoute m (normMeta nm0)) := by
  simp only [runStaged] at h
  split at h
  · simp at h
  · rename_i t ht
    split at h
    · simp at h
    · rename_i m hm
      split at h
      · simp at h
      · rename_i nt nm0 hmut
        split at h
        · split at h
          · simp at h; exact absurd h.2 hw
          · simp at h
        · split at h
          · simp at h
          · split at h
            · simp at h
            · split at h
              · simp at h
              · split at h
                · simp at h
                · rename_i ws' hw'
                  simp at h
                  exact ⟨t, nt, m, nm0, ws', ht, hm, hmut, hw', h.2.symm, h.1.symm⟩

/-- a task+meta closure keeps "view = virtual store": the metadata row it puts into the overlay is, by
    idempotence of the normalisation, exactly the row the store receives -/
theorem view_taskMeta (db V : State) (o o' : Ov) (c : Cmd) (ws : List W) (v : ViewOK db V o)
    (h : runStaged db o (.taskMeta c) = .ok (o', ws)) : ViewOK db (applyWs V ws) o' := by
  by_cases hw : ws = []
  · have := runStaged_cases db o o' (.taskMeta c) ws h
    rcases this with ⟨_, ho⟩ | ⟨t, he, _⟩ | ⟨c', t, nt, he, _⟩ | ⟨c', t, nt, m, nm0, ws', nm, _, _, _, _, _, _, hws, _⟩ | ⟨b, l, he, _⟩
    · rw [hw, ho]; exact v
    · cases he
    · cases he
    · rw [hw] at hws; simp at hws
    · cases he
  · obtain ⟨t, nt, m, nm0, ws', _, _, _, hup, hws, ho⟩ := runStaged_taskMeta_exact db o o' c ws h hw
    rw [hws, ho, applyWs_append, applyWs_cons, applyWs_nil, normMeta_bump_fixed]
    have v1 := view_put db V o nt ws' v hup
    constructor
    · intro x i
      rw [ov_putMeta_task, task?_putMeta]; exact v1.1 x i
    · intro x
      rw [ov_putMeta_meta, meta?_putMeta]
      split
      · rfl
      · exact v1.2 x

/-- non-vacuity: the commit closure of `exCommit` run on the committed store keeps view = store -/
example : ViewOK exPreCommit exPreCommit {} := view_start _

end WK.C17

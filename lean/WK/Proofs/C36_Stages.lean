import WK.Spec.C36
import WK.Theorems.C35
/-
  C36 helper lemmas: each stage of the batched evaluator equals the
  corresponding sequential check, and each sequential check is the first-true
  rule of its declarative precedence list.
-/
namespace WK.C36
open WK WK.C35

/-! ### batched stage = sequential stage -/

theorem evalGroupTail_eq (st : Store) (src : Bytes) (ty : Nat) (uid : Bytes) :
    evalGroupTail st src ty uid = commonMember st src ty uid := by
  unfold evalGroupTail commonMember
  rfl

theorem evalPersonTail_eq (cfg : Cfg) (st : Store) (rc uid : Bytes) :
    evalPersonTail cfg st rc uid = personReceiverCheck cfg st rc uid := by
  unfold evalPersonTail personReceiverCheck
  cases cfg.isSystem rc <;> simp
  cases st.contains .deny rc tPerson uid with
  | err => rfl
  | val b =>
    cases b <;> simp
    cases cfg.whitelist <;> simp
    cases st.contains .allow rc tPerson uid with
    | err => rfl
    | val b =>
      cases b <;> simp
      cases st.chan rc tPerson with
      | notFound => rfl
      | err => rfl
      | found a b c d => cases d <;> simp

/-- the sender prefix of both evaluators is `checkSenderSendPermission` -/
theorem batchSender_eq (st : Store) (uid : Bytes) :
    batchSender st uid = if (senderCheck st uid).isOk then none else some (senderCheck st uid) := by
  unfold batchSender senderCheck
  cases st.chan uid tPerson with
  | notFound => simp [RE.isOk, ok, rSuccess]
  | err => simp [RE.isOk, rSystemError, rSuccess]
  | found a b c d => cases c <;> simp [RE.isOk, ok, rSuccess, rSendBan]

/-- the terminal prefix of the person evaluator is `checkTerminalChannelPermission` -/
theorem batchTerminal_eq (st : Store) (id : Bytes) :
    batchTerminal st id = if (terminal st id tPerson).isOk then none else some (terminal st id tPerson) := by
  unfold batchTerminal terminal
  cases st.chan id tPerson with
  | notFound => simp [RE.isOk, ok, rSuccess]
  | err => simp [RE.isOk, rSystemError, rSuccess]
  | found a b c d => cases b <;> simp [RE.isOk, ok, rSuccess, rDisband]

theorem terminal_getD (st : Store) (id : Bytes) :
    (batchTerminal st id).getD ok = terminal st id tPerson := by
  unfold batchTerminal terminal
  cases st.chan id tPerson with
  | notFound => rfl
  | err => rfl
  | found a b c d => cases b <;> rfl

/-! ### channel-id bookkeeping (C35) -/

/-- stripping then re-applying the command suffix restores the id, unless the
    stripped id still ends in the suffix -/
theorem reapply_restores (x : Bytes) (h : isCmd (fromCmd x).1 = false) :
    (if (fromCmd x).2 then toCmd (fromCmd x).1 else (fromCmd x).1) = x := by
  rcases c35_cmd_from x with ⟨_, h2⟩ | ⟨_, h2, h3⟩
  · simp [h2]
  · simp only [h2, if_true]
    unfold toCmd
    simp [h, h3]

/-- the batch path's permission channel id is the normalised id, unless that id
    still ends in the command suffix -/
theorem pid_eq (id2 : Bytes) (w : Bool) (h : isCmd id2 = false) :
    (fromCmd (if w then toCmd id2 else id2)).1 = id2 := by
  cases w
  · simp [fromCmd, h]
  · simp only [if_true]
    rw [c35_cmd_inverse id2 h]

/-! ### sequential check = first true rule of its list -/

theorem firstTrue_append (a b : List Rule) :
    firstTrue (a ++ b) = if a.any (·.cond) then firstTrue a else firstTrue b := by
  induction a with
  | nil => simp [firstTrue]
  | cons r rs ih =>
    simp only [List.cons_append, firstTrue, List.any_cons]
    by_cases h : r.cond = true <;> simp [h, ih]

theorem terminal_rules (st : Store) (id : Bytes) (ty : Nat) :
    terminal st id ty = firstTrue (terminalRules st id ty) ∧
    (terminal st id ty).isOk = !(terminalRules st id ty).any (·.cond) := by
  unfold terminal terminalRules
  cases st.chan id ty with
  | notFound => simp [firstTrue, ChanRes.isErr, ChanRes.disband, RE.isOk, ok]
  | err => simp [firstTrue, ChanRes.isErr, ChanRes.disband, RE.isOk, sysErr, rSystemError, rSuccess]
  | found a b c d => cases b <;> simp [firstTrue, ChanRes.isErr, ChanRes.disband, RE.isOk, ok, rDisband, rSuccess]

theorem sender_rules (st : Store) (uid : Bytes) :
    senderCheck st uid = firstTrue (senderRules st uid) ∧
    (senderCheck st uid).isOk = !(senderRules st uid).any (·.cond) := by
  unfold senderCheck senderRules
  cases st.chan uid tPerson with
  | notFound => simp [firstTrue, ChanRes.isErr, ChanRes.sendBan, RE.isOk, ok]
  | err => simp [firstTrue, ChanRes.isErr, ChanRes.sendBan, RE.isOk, sysErr, rSystemError, rSuccess]
  | found a b c d => cases c <;> simp [firstTrue, ChanRes.isErr, ChanRes.sendBan, RE.isOk, ok, rSendBan, rSuccess]

theorem common_rules (st : Store) (id : Bytes) (ty : Nat) (uid : Bytes) :
    commonMember st id ty uid = firstTrue (commonRules st id ty uid) := by
  unfold commonMember commonRules
  cases st.contains .deny id ty uid with
  | err => simp [firstTrue, BoolRes.isErr, sysErr]
  | val d =>
    cases d <;> simp [firstTrue, BoolRes.isErr, BoolRes.isTrue]
    cases st.contains .members id ty uid with
    | err => simp [BoolRes.isErr, sysErr]
    | val m =>
      cases m <;> simp [BoolRes.isErr, BoolRes.isFalse]
      cases st.hasAny .allow id ty with
      | err => simp [BoolRes.isErr, sysErr]
      | val h =>
        cases h <;> simp [BoolRes.isErr, BoolRes.isTrue, firstTrue]
        cases st.contains .allow id ty uid with
        | err => simp [BoolRes.isErr, sysErr]
        | val a => cases a <;> simp [BoolRes.isErr, BoolRes.isFalse]

theorem group_rules (st : Store) (id : Bytes) (ty : Nat) (uid : Bytes) :
    groupCheck st id ty uid = firstTrue (groupRules false st id ty uid) := by
  unfold groupCheck groupRules
  simp only [Bool.false_eq_true, if_false]
  cases st.chan id ty with
  | notFound => simp [firstTrue, ChanRes.isErr, ChanRes.isNotFound]
  | err => simp [firstTrue, ChanRes.isErr, sysErr]
  | found a b c d =>
    cases a <;> cases b <;>
      simp [firstTrue, ChanRes.isErr, ChanRes.isNotFound, ChanRes.ban, ChanRes.disband, common_rules]

theorem person_tail_rules (cfg : Cfg) (st : Store) (rc uid : Bytes) :
    personReceiverCheck cfg st rc uid = firstTrue
      [⟨!cfg.isSystem rc && (st.contains .deny rc tPerson uid).isErr, sysErr⟩,
       ⟨!cfg.isSystem rc && (st.contains .deny rc tPerson uid).isTrue, (rInBlacklist, .none)⟩,
       ⟨(!cfg.isSystem rc && cfg.whitelist) && (st.contains .allow rc tPerson uid).isErr, sysErr⟩,
       ⟨(!cfg.isSystem rc && cfg.whitelist) && (st.contains .allow rc tPerson uid).isFalse && (st.chan rc tPerson).isErr, sysErr⟩,
       ⟨(!cfg.isSystem rc && cfg.whitelist) && (st.contains .allow rc tPerson uid).isFalse && !(st.chan rc tPerson).allowStranger,
          (rNotInWhitelist, .none)⟩] := by
  unfold personReceiverCheck
  cases cfg.isSystem rc <;> simp [firstTrue]
  cases st.contains .deny rc tPerson uid with
  | err => simp [BoolRes.isErr, sysErr]
  | val d =>
    cases d <;> simp [BoolRes.isErr, BoolRes.isTrue]
    cases cfg.whitelist <;> simp
    cases st.contains .allow rc tPerson uid with
    | err => simp [BoolRes.isErr, sysErr]
    | val a =>
      cases a <;> simp [BoolRes.isErr, BoolRes.isFalse]
      cases st.chan rc tPerson with
      | notFound => simp [ChanRes.isErr, ChanRes.allowStranger]
      | err => simp [ChanRes.isErr, sysErr]
      | found a b c d => cases d <;> simp [ChanRes.isErr, ChanRes.allowStranger]

theorem person_rules (cfg : Cfg) (st : Store) (id uid : Bytes) :
    (if !(terminal st id tPerson).isOk then terminal st id tPerson else personCheck cfg st id uid)
      = firstTrue (personRules cfg st id uid) := by
  unfold personRules
  rw [firstTrue_append, ← (terminal_rules st id tPerson).1]
  have h2 := (terminal_rules st id tPerson).2
  cases hok : (terminal st id tPerson).isOk
  · rw [hok] at h2
    have : (terminalRules st id tPerson).any (·.cond) = true := by
      cases h : (terminalRules st id tPerson).any (·.cond) <;> simp_all
    simp [this]
  · rw [hok] at h2
    have : (terminalRules st id tPerson).any (·.cond) = false := by
      cases h : (terminalRules st id tPerson).any (·.cond) <;> simp_all
    simp only [this, Bool.not_true, Bool.false_eq_true, if_false]
    unfold personCheck
    cases decodePerson id with
    | none => simp [firstTrue]
    | some p =>
      obtain ⟨l, r⟩ := p
      simp only
      rw [person_tail_rules]

theorem agent_rules (st : Store) (id uid : Bytes) :
    (if (terminal st id tAgent).isOk then agentCheck id uid else terminal st id tAgent)
      = firstTrue (agentRules st id uid) := by
  unfold agentRules
  rw [firstTrue_append, ← (terminal_rules st id tAgent).1]
  have h2 := (terminal_rules st id tAgent).2
  cases hok : (terminal st id tAgent).isOk
  · rw [hok] at h2
    have : (terminalRules st id tAgent).any (·.cond) = true := by
      cases h : (terminalRules st id tAgent).any (·.cond) <;> simp_all
    simp [this]
  · rw [hok] at h2
    have : (terminalRules st id tAgent).any (·.cond) = false := by
      cases h : (terminalRules st id tAgent).any (·.cond) <;> simp_all
    simp only [this, if_true, Bool.false_eq_true, if_false]
    unfold agentCheck
    cases decodeAgent id with
    | none => simp [firstTrue]
    | some p =>
      obtain ⟨u, a⟩ := p
      simp only [firstTrue]
      cases (uid == u || uid == a) <;> simp

theorem visitors_rules (st : Store) (id uid : Bytes) :
    (if (terminal st id tVisitors).isOk then visitorsCheck st id uid else terminal st id tVisitors)
      = firstTrue (visitorsRules st id uid) := by
  unfold visitorsRules
  rw [firstTrue_append, ← (terminal_rules st id tVisitors).1]
  have h2 := (terminal_rules st id tVisitors).2
  cases hok : (terminal st id tVisitors).isOk
  · rw [hok] at h2
    have : (terminalRules st id tVisitors).any (·.cond) = true := by
      cases h : (terminalRules st id tVisitors).any (·.cond) <;> simp_all
    simp [this]
  · rw [hok] at h2
    have : (terminalRules st id tVisitors).any (·.cond) = false := by
      cases h : (terminalRules st id tVisitors).any (·.cond) <;> simp_all
    simp only [this, if_true, Bool.false_eq_true, if_false]
    unfold visitorsCheck
    cases (uid == id) <;> simp [firstTrue, common_rules]

/-- the channel-type switch is the first true rule of `typeRules` in the code's order -/
theorem type_rules (cfg : Cfg) (st : Store) (id : Bytes) (ty : Nat) (uid : Bytes) :
    typeSwitch cfg st id ty uid = firstTrue (typeRules false cfg st id ty uid) := by
  unfold typeSwitch typeRules
  by_cases h1 : ty = tPerson
  · subst h1; simp only [if_true]; exact person_rules cfg st id uid
  · simp only [h1, if_false]
    by_cases h2 : ty = tGroup
    · simp only [h2, if_true]; exact group_rules st id tGroup uid
    · simp only [h2, if_false]
      by_cases h3 : ty = tInfo ∨ ty = tCustomerService
      · have h4 : ty ≠ tAgent := by rcases h3 with h | h <;> simp [h, tInfo, tCustomerService, tAgent]
        have h5 : ty ≠ tVisitors := by rcases h3 with h | h <;> simp [h, tInfo, tCustomerService, tVisitors]
        simp only [h3, if_true, h4, h5, if_false]
        exact (terminal_rules st id ty).1
      · simp only [h3, if_false]
        by_cases h4 : ty = tAgent
        · subst h4; simp only [if_true]; exact agent_rules st id uid
        · simp only [h4, if_false]
          by_cases h5 : ty = tVisitors
          · subst h5; simp only [if_true]; exact visitors_rules st id uid
          · simp only [h5, if_false]
            exact (terminal_rules st id ty).1

end WK.C36

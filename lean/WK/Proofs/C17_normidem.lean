import WK.Proofs.C17_noabort_batch
/-
  C17 final round — the set normalisation is idempotent, so the metadata row a closure puts into the
  overlay is exactly the row the store receives.
-/
namespace WK.C17

def SSorted (l : List Nat) : Prop := l.Pairwise (· < ·)

theorem mem_insertSorted (x y : Nat) (l : List Nat) : y ∈ insertSorted x l ↔ y = x ∨ y ∈ l := by
  induction l with
  | nil => simp [insertSorted]
  | cons a rest ih =>
    simp only [insertSorted]
    split
    · simp
    · split
      · rename_i h1 h2
        simp at h2
        simp [h2]
      · simp [ih]
        constructor
        · rintro (h | h | h)
          · exact Or.inr (Or.inl h)
          · exact Or.inl h
          · exact Or.inr (Or.inr h)
        · rintro (h | h | h)
          · exact Or.inr (Or.inl h)
          · exact Or.inl h
          · exact Or.inr (Or.inr h)

theorem sorted_insertSorted (x : Nat) (l : List Nat) (h : SSorted l) : SSorted (insertSorted x l) := by
  induction l with
  | nil => simp [insertSorted, SSorted]
  | cons a rest ih =>
    unfold SSorted at h ⊢
    rw [List.pairwise_cons] at h
    simp only [insertSorted]
    split
    · rename_i hlt
      rw [List.pairwise_cons]
      refine ⟨?_, List.pairwise_cons.mpr h⟩
      intro b hb
      rcases List.mem_cons.mp hb with rfl | hb
      · exact hlt
      · have := h.1 b hb; omega
    · split
      · exact List.pairwise_cons.mpr h
      · rename_i h1 h2
        simp at h2
        rw [List.pairwise_cons]
        refine ⟨?_, ih h.2⟩
        intro b hb
        rcases (mem_insertSorted x b rest).mp hb with rfl | hb
        · omega
        · exact h.1 b hb

theorem sorted_normSet (xs : List Nat) : SSorted (normSet xs) := by
  induction xs with
  | nil => exact List.Pairwise.nil
  | cons x rest ih => exact sorted_insertSorted x _ ih

theorem normSet_of_sorted (l : List Nat) (h : SSorted l) : normSet l = l := by
  induction l with
  | nil => rfl
  | cons a rest ih =>
    unfold SSorted at h
    rw [List.pairwise_cons] at h
    show insertSorted a (normSet rest) = a :: rest
    rw [ih h.2]
    cases rest with
    | nil => rfl
    | cons b r =>
      have := h.1 b List.mem_cons_self
      simp [insertSorted, this]

/-- normalizeUint64Set is idempotent -/
theorem normSet_idem (xs : List Nat) : normSet (normSet xs) = normSet xs :=
  normSet_of_sorted _ (sorted_normSet xs)

theorem normMeta_fixed (y : Meta) (a b : List Nat) (h1 : y.replicas = normSet a) (h2 : y.isr = normSet b)
    (h3 : y.rgen ≠ 0) : normMeta y = y := by
  cases y with
  | mk cep lep rgen leader minisr lease replicas isr ftok fver freason funtil =>
    simp only at h1 h2 h3
    subst h1 h2
    have : (rgen == 0) = false := by simp; exact h3
    simp [normMeta, normSet_idem, this]

theorem normMeta_rgen (x : Meta) : (normMeta x).rgen ≠ 0 := by
  simp only [normMeta]
  split
  · have : 1 ≤ max (max x.cep x.lep) (max x.fver 1) := by omega
    omega
  · rename_i h; simpa using h

/-- the row a task+meta closure computes is already normalised: what goes into the overlay is exactly what
    the store receives (`W.putMeta … (normMeta nm)` with `nm = bumpRoute m (normMeta nm0)`) -/
theorem normMeta_bump_fixed (m nm0 : Meta) : normMeta (bumpRoute m (normMeta nm0)) = bumpRoute m (normMeta nm0) := by
  unfold bumpRoute
  split
  · exact normMeta_fixed _ nm0.replicas nm0.isr rfl rfl (by simp)
  · exact normMeta_fixed _ nm0.replicas nm0.isr rfl rfl (normMeta_rgen nm0)

example : normSet (normSet [3, 1, 3, 2]) = [1, 2, 3] := by decide

end WK.C17

import WK.Proofs.C09_RetFloor
/-
  C09 — where rows can appear: every mutation batch leaves the old rows or adds rows strictly above the old
  recovered log end (nothing is ever overwritten or written into the retained range); row sequences are positive.
-/
namespace WK.C09

/-- every stored row has a positive sequence -/
def RowsPos (s : Store) : Prop := ∀ ch q v, get s (.row ch q) = some v → 0 < q

theorem get_append_untouched (s : Store) (a z : List W) (k : Key) (hz : ∀ w ∈ z, touches k w = false) :
    get (applyBatch s (a ++ z)) k = get (applyBatch s a) k := by
  rw [applyBatch_append]; exact get_untouched z k _ hz

/-- no write of the batch PUTS a row -/
def NoRowPut (b : List W) : Prop := ∀ w ∈ b, ∀ c q v, w ≠ .put (.row c q) v

theorem nrp_nil : NoRowPut [] := by intro w hw; cases hw
theorem nrp_append {a b : List W} (ha : NoRowPut a) (hb : NoRowPut b) : NoRowPut (a ++ b) := by
  intro w hw; rcases List.mem_append.1 hw with h | h
  · exact ha w h
  · exact hb w h
theorem nrp_delOnly (b : List W) (h : DelOnly b) : NoRowPut b := by
  intro w hw c q v he; obtain ⟨k, hk⟩ := h w hw; rw [hk] at he; cases he
theorem nrp_sys (b : List W) (h : ∀ w ∈ b, sysW w = true) : NoRowPut b := by
  intro w hw c q v he; exact noRowPut_of_sysW c q w (h w hw) v he
theorem nrp_ite {c : Prop} [Decidable c] {a b : List W} (ha : NoRowPut a) (hb : NoRowPut b) : NoRowPut (if c then a else b) := by
  split <;> assumption
theorem nrp_single_sys (w : W) (h : sysW w = true) : NoRowPut [w] :=
  nrp_sys [w] (by intro x hx; simp at hx; subst hx; exact h)
theorem nrp_puts (b : List W) (h : ∀ w ∈ b, ∃ k v, w = .put k v ∧ (match k with | .row _ _ => false | _ => true) = true) : NoRowPut b := by
  intro w hw c q v he
  obtain ⟨k, v', hk, hn⟩ := h w hw
  rw [he] at hk; cases hk; simp at hn

theorem delOnly_propW (ch : Nat) (xs : List (Nat × Nat × Nat)) :
    DelOnly ((xs.map (fun (x : Nat × Nat × Nat) => [W.del (.pl ch x.1), W.del (.pc ch x.2.2)])).flatten) := by
  intro w hw
  simp only [List.mem_flatten, List.mem_map] at hw
  obtain ⟨l, ⟨x, _, rfl⟩, hm⟩ := hw
  simp at hm; rcases hm with rfl | rfl <;> exact ⟨_, rfl⟩

/-- the non-append mutations never put a row -/
theorem noRowPut_plan (s : Store) (op : Op)
    (hop : match op with | .app .. => False | .fetch .. => False | .xapp .. => False | _ => True) :
    NoRowPut (plan s op).2 := by
  cases op with
  | app c mode recs => exact absurd hop (by simp)
  | fetch c hw recs => exact absurd hop (by simp)
  | xapp c cmd term committed mode recs => exact absurd hop (by simp)
  | trunc c to =>
    unfold plan; simp only
    repeat' split
    all_goals first
      | exact nrp_nil
      | (refine nrp_append (nrp_append (nrp_append (nrp_append (nrp_delOnly _ (delOnly_propW _ _)) ?_) (nrp_delOnly _ (delOnly_deleteSeqs _ _ _))) ?_) (nrp_single_sys _ rfl)
         · intro w hw c' q' v he; simp at hw; subst hw; cases he
         · first | exact nrp_nil | exact nrp_puts _ (by intro x hx; simp at hx; subst hx; exact ⟨_, _, rfl, by rfl⟩))
  | adopt c th =>
    unfold plan; simp only
    repeat' split
    all_goals first
      | exact nrp_nil
      | (refine nrp_append (nrp_append ?_ ?_) (nrp_single_sys _ rfl)
         · first | exact nrp_nil | exact nrp_puts _ (by intro x hx; simp at hx; subst hx; exact ⟨_, _, rfl, by rfl⟩)
         · first | exact nrp_nil | exact nrp_puts _ (by intro x hx; simp at hx; subst hx; exact ⟨_, _, rfl, by rfl⟩))
  | trim c th mx =>
    unfold plan; simp only
    repeat' split
    all_goals first
      | exact nrp_nil
      | exact nrp_append (nrp_delOnly _ (delOnly_deleteSeqs _ _ _)) (nrp_puts _ (by intro x hx; simp at hx; rcases hx with rfl | rfl <;> exact ⟨_, _, rfl, by rfl⟩))
  | ckpt c hw' =>
    unfold plan; simp only
    repeat' split
    all_goals first
      | exact nrp_nil
      | exact nrp_puts _ (by intro x hx; simp at hx; rcases hx with rfl | rfl <;> exact ⟨_, _, rfl, by rfl⟩)

/-- rows after ANY mutation batch are old rows or lie above the old recovered log end -/
theorem rows_after_plan (s : Store) (op : Op) (ch q : Nat) (v : Val)
    (hv : get (applyBatch s (plan s op).2) (.row ch q) = some v) : leo s ch < q ∨ get s (.row ch q) = some v := by
  have sub : ∀ b : List W, (∀ w ∈ b, ∀ v', w ≠ .put (.row ch q) v') →
      get (applyBatch s b) (.row ch q) = some v → leo s ch < q ∨ get s (.row ch q) = some v :=
    fun b hb h => Or.inr (get_sub_of_noPut b _ s v hb h)
  have app : ∀ (c : Nat) (recs : List Rec) (z : List W), (∀ w ∈ z, sysW w = true) →
      get (applyBatch s (rowsWrites c (leo s c) recs ++ z)) (.row ch q) = some v →
      leo s ch < q ∨ get s (.row ch q) = some v := by
    intro c recs z hz h
    rw [applyBatch_append] at h
    have h' := get_sub_of_noPut z (.row ch q) _ v (fun w hw => noRowPut_of_sysW ch q w (hz w hw)) h
    rw [rowsWrites_eq] at h'
    rcases row_after_rowsFrom c (leo s c) recs 0 s ch q v h' with h1 | h1
    · left; obtain ⟨rfl, h2⟩ := h1; omega
    · right; exact h1
  cases op with
  | app c mode recs =>
    unfold plan at hv; simp only at hv
    split at hv
    · exact Or.inr hv
    split at hv
    · exact Or.inr hv
    · exact app c recs _ (sysW_catalogW _ _) hv
  | fetch c hw recs =>
    unfold plan at hv; simp only at hv
    repeat' split at hv
    all_goals first
      | exact Or.inr hv
      | (rw [List.append_assoc] at hv
         refine app c recs _ (sysW_append ?_ ?_) hv
         · first | exact sysW_ckptAdvance _ _ _ | (intro w hw; cases hw)
         · first | exact sysW_catalogW _ _ | (intro w hw; simp at hw; subst hw; rfl))
  | xapp c cmd term committed mode recs =>
    unfold plan at hv; simp only at hv
    repeat' split at hv
    all_goals first
      | exact Or.inr hv
      | (rw [List.append_assoc, List.append_assoc, List.append_assoc] at hv
         refine app c recs _ ?_ hv
         refine sysW_append (sysW_ckptAdvance _ _ _) (sysW_append ?_ (sysW_append (sysW_entryWrites _ _ _ _ _ _) (sysW_catalogW _ _)))
         intro w hw; simp at hw; rcases hw with rfl | rfl <;> rfl)
  | trunc c to => exact sub _ (fun w hw v' => noRowPut_plan s (.trunc c to) trivial w hw ch q v') hv
  | adopt c th => exact sub _ (fun w hw v' => noRowPut_plan s (.adopt c th) trivial w hw ch q v') hv
  | trim c th mx => exact sub _ (fun w hw v' => noRowPut_plan s (.trim c th mx) trivial w hw ch q v') hv
  | ckpt c hw' => exact sub _ (fun w hw v' => noRowPut_plan s (.ckpt c hw') trivial w hw ch q v') hv

theorem rowsPos_stepG (s : Store) (op : Op) (h : RowsPos s) : RowsPos (stepG s op) := by
  unfold stepG
  split
  · exact h
  · rw [step_snd]
    intro ch q v hv
    rcases rows_after_plan s op ch q v hv with h1 | h1
    · omega
    · exact h ch q v h1

end WK.C09

import WK.Proofs.Repl_Frame
/-
  Store-level invariants of the replication model (MemoryChannelStore behind the
  StoreAdapter): the proposal chain, committed ≤ LEO, committed monotone.
  Used by the C02 theorems.
-/
namespace WK.Repl

/-! ### committed watermark never moves backwards -/

theorem appendExact_hw (s : Store) (m : Manifest) (cs : List Nat) : (s.appendExact m cs).1.hw = s.hw := by
  unfold Store.appendExact
  cases s.appendDecision m cs <;> rfl

theorem sync_hw_le (s : Store) (m : Manifest) (cs : List Nat) (c : Nat) : s.hw ≤ (s.sync m cs c).1.hw := by
  unfold Store.sync
  split
  · exact Nat.le_refl _
  · have h := appendExact_hw s m cs
    generalize s.appendExact m cs = r at h
    obtain ⟨s', out⟩ := r
    simp only at h ⊢
    split
    · rename_i hc; simp only; omega
    · simp only; omega

theorem load_committed {s : Store} {st : RState} (h : s.load = .ok st) : st.committed = s.hw ∧ st.leo = s.leo := by
  unfold Store.load at h
  split at h
  · cases h
  · split at h
    · cases h; rename_i hp; simp [Store.leo, hp]
    · dsimp only at h
      split at h
      · cases h
      · cases h; rename_i p ps hp _; simp [Store.leo, hp]

theorem replace_hw_le (s : Store) (e : RState) (k : Nat) (ps : List PRec) (c : Nat) (s' : Store)
    (h : s.replace e k ps c = .ok s') : s.hw ≤ s'.hw := by
  unfold Store.replace at h
  split at h
  · cases h
  · split at h
    · cases h
    · split at h
      · cases h
      · split at h
        · cases h
        · rename_i cur hl
          split at h
          · cases h
          · rename_i hg
            split at h
            · cases h
            · dsimp only at h
              split at h
              · cases h
              · cases h
                simp only
                have := (load_committed hl).1
                simp only [not_or, Nat.not_lt] at hg
                omega

def HwMono (a b : Store) : Prop := a.hw ≤ b.hw

theorem hwMono_rel : StoreRel HwMono :=
  ⟨fun _ => Nat.le_refl _, fun _ _ _ h1 h2 => Nat.le_trans h1 h2, sync_hw_le, replace_hw_le⟩

/-! ### the proposal chain -/

/-- one stored proposal is well formed: valid manifest, entries derived from it, sealed digest -/
def PRec.WF (p : PRec) : Prop :=
  p.m.validFor p.m.base p.contents.length = true ∧ deriveEntries p.m p.contents = some p.entries ∧
  (lastIdent p.entries).digest = p.m.digest

/-- newest-first list of proposals forming one unbroken predecessor chain from offset 0 -/
inductive ChainP : List PRec → Prop
  | nil : ChainP []
  | one (p : PRec) : p.WF → p.m.base = 0 → ChainP [p]
  | cons (p q : PRec) (rest : List PRec) : p.WF → p.m.base = q.m.last → p.m.prevTerm = q.m.a.term →
      p.m.prevDigest = q.m.digest → ChainP (q :: rest) → ChainP (p :: q :: rest)

structure StoreInv (s : Store) : Prop where
  chain : ChainP s.props
  hw_le : s.hw ≤ s.leo

theorem validFor_last_gt {m : Manifest} {b n : Nat} (h : m.validFor b n = true) : m.base < m.last := by
  unfold Manifest.validFor Manifest.structurallyValid at h
  simp only [Bool.and_eq_true, decide_eq_true_eq] at h
  obtain ⟨⟨⟨h1, _⟩, _⟩, _⟩ := h
  split at h1
  · cases h1
  · rename_i hn; simp only [not_or, Nat.not_le] at hn; exact hn.2.2.2.2.2.1

theorem ChainP.tail {p : PRec} {rest : List PRec} (h : ChainP (p :: rest)) : ChainP rest := by
  cases h with
  | one => exact ChainP.nil
  | cons _ _ _ _ _ _ _ h => exact h

theorem ChainP.head_wf {p : PRec} {rest : List PRec} (h : ChainP (p :: rest)) : p.WF := by
  cases h with
  | one _ h _ => exact h
  | cons _ _ _ h _ _ _ _ => exact h

/-- every older proposal ends at or below the base of a newer one -/
theorem ChainP.older_le {p : PRec} {rest : List PRec} (h : ChainP (p :: rest)) : ∀ q ∈ rest, q.m.last ≤ p.m.base := by
  induction rest generalizing p with
  | nil => intro q hq; cases hq
  | cons r rest ih =>
    intro q hq
    cases h with
    | cons _ _ _ hwf hb _ _ hc =>
      cases hq with
      | head => omega
      | tail _ hq' =>
        have := ih hc q hq'
        have := validFor_last_gt hc.head_wf.1
        omega

theorem filter_le_of_chain {l : List PRec} (h : ChainP l) (keep : Nat) : ChainP (l.filter (fun p => p.m.last ≤ keep)) := by
  induction l with
  | nil => exact ChainP.nil
  | cons p rest ih =>
    by_cases hp : p.m.last ≤ keep
    · -- everything older is kept as well
      have hall : ∀ q ∈ rest, (decide (q.m.last ≤ keep)) = true := by
        intro q hq
        have := h.older_le q hq
        have := validFor_last_gt h.head_wf.1
        simp; omega
      have : (p :: rest).filter (fun p => decide (p.m.last ≤ keep)) = p :: rest := by
        rw [List.filter_cons]; simp only [hp, decide_true, if_true]
        congr 1
        exact List.filter_eq_self.mpr hall
      rw [this]; exact h
    · rw [List.filter_cons]; simp only [hp, decide_false, Bool.false_eq_true, if_false]
      exact ih h.tail

/-- what the decision `.append es` guarantees (the guards of appendLeaderExactLocked) -/
theorem appendDecision_append {s : Store} {m : Manifest} {cs : List Nat} {es : List Ident}
    (h : s.appendDecision m cs = .append es) :
    m.validFor m.base cs.length = true ∧ deriveEntries m cs = some es ∧ (lastIdent es).digest = m.digest ∧
    s.leo = m.base ∧ (m.base > 0 → s.prevMismatch m = false) := by
  unfold Store.appendDecision at h
  split at h
  · cases h
  · rename_i hv
    split at h
    · cases h
    · rename_i es' hd
      split at h
      · cases h
      · rename_i hdig
        split at h
        · cases h
        · rename_i hb
          split at h
          · cases h
          · rename_i hpm
            have hprev : m.base > 0 → s.prevMismatch m = false := by
              intro hpos
              simp only [not_and] at hpm
              have := hpm hpos
              simpa using this
            split at h
            · -- sequencedFresh: appended at exactly the log end
              rename_i hf
              cases h
              exact ⟨by simpa using hv, hd, by simpa using hdig, hf.2.symm, hprev⟩
            · split at h
              · split at h <;> cases h
              · split at h
                · cases h
                · split at h
                  · cases h
                  · rename_i hl1
                    split at h
                    · cases h
                    · rename_i hl2
                      cases h
                      refine ⟨by simpa using hv, hd, by simpa using hdig, ?_, hprev⟩
                      have := validFor_last_gt (by simpa using hv : m.validFor m.base cs.length = true)
                      simp only [not_or, not_and, Nat.not_lt, Nat.not_le] at hl1 hl2 hb
                      omega

theorem appendDecision_already {s : Store} {m : Manifest} {cs : List Nat}
    (h : s.appendDecision m cs = .already) : m.last ≤ s.leo := by
  unfold Store.appendDecision at h
  split at h
  · cases h
  · split at h
    · cases h
    · repeat' (split at h)
      all_goals first | (cases h; done) | skip
      all_goals
        rename_i hr
        unfold Store.isExactReplay at hr
        split at hr
        · simp only [Bool.and_eq_true, Bool.not_eq_true', decide_eq_false_iff_not, Nat.not_lt] at hr
          exact hr.1.2
        · cases hr

theorem leo_cons (s : Store) (p : PRec) : ({ s with props := p :: s.props } : Store).leo = p.m.last := rfl

/-- exact append keeps the chain -/
theorem appendExact_chain (s : Store) (m : Manifest) (cs : List Nat) (h : ChainP s.props) :
    ChainP (s.appendExact m cs).1.props := by
  unfold Store.appendExact
  cases hd : s.appendDecision m cs with
  | notWritten => exact h
  | conflict nf => exact h
  | already => exact h
  | append es =>
    obtain ⟨h1, h2, h3, h4, h5⟩ := appendDecision_append hd
    have wf : PRec.WF ⟨m, cs, es⟩ := ⟨h1, h2, h3⟩
    simp only
    cases hp : s.props with
    | nil =>
      refine ChainP.one _ wf ?_
      simp [Store.leo, hp] at h4; exact h4.symm
    | cons q rest =>
      rw [hp] at h
      have hq : q.m.last = m.base := by simp [Store.leo, hp] at h4; exact h4
      have hpos : m.base > 0 := by have := validFor_last_gt h.head_wf.1; omega
      have hm := h5 hpos
      unfold Store.prevMismatch Store.byLast at hm
      rw [hp] at hm
      simp only [List.find?_cons, hq, beq_self_eq_true] at hm
      simp only [decide_eq_false_iff_not, not_or, Decidable.not_not] at hm
      exact ChainP.cons _ q rest wf hq.symm hm.1.symm hm.2.symm h

theorem appendExact_leo_ge (s : Store) (m : Manifest) (cs : List Nat) : s.leo ≤ (s.appendExact m cs).1.leo := by
  unfold Store.appendExact
  cases hd : s.appendDecision m cs with
  | notWritten => exact Nat.le_refl _
  | conflict nf => exact Nat.le_refl _
  | already => exact Nat.le_refl _
  | append es =>
    obtain ⟨h1, _, _, h4, _⟩ := appendDecision_append hd
    have := validFor_last_gt h1
    simp only [leo_cons]; omega

/-- a durable / already-durable exact append leaves LEO at or above the manifest's last offset -/
theorem appendExact_durable_leo (s : Store) (m : Manifest) (cs : List Nat) (h : (s.appendExact m cs).2.isDurable = true) :
    m.last ≤ (s.appendExact m cs).1.leo := by
  unfold Store.appendExact at h ⊢
  cases hd : s.appendDecision m cs with
  | notWritten => simp [hd, SOut.isDurable] at h
  | conflict nf => simp [hd, SOut.isDurable] at h
  | already => simp only; exact appendDecision_already hd
  | append es => simp only [leo_cons]; exact Nat.le_refl _

theorem validMutation_committed {m : Manifest} {cs : List Nat} {c : Nat} (h : validMutation m cs c = true) : c ≤ m.last := by
  unfold validMutation at h
  simp only [Bool.and_eq_true, decide_eq_true_eq] at h
  exact h.1.2

theorem sync_inv (s : Store) (m : Manifest) (cs : List Nat) (c : Nat) (h : StoreInv s) : StoreInv (s.sync m cs c).1 := by
  unfold Store.sync
  split
  · exact h
  · rename_i hv
    have hc := appendExact_chain s m cs h.chain
    have hh := appendExact_hw s m cs
    have hl := appendExact_leo_ge s m cs
    have hd := appendExact_durable_leo s m cs
    generalize s.appendExact m cs = r at hc hh hl hd
    obtain ⟨s', out⟩ := r
    simp only at hc hh hl hd ⊢
    split
    · rename_i hcond
      refine ⟨hc, ?_⟩
      have := hd hcond.1
      have := validMutation_committed (by simpa using hv : validMutation m cs c = true)
      show c ≤ Store.leo { s' with hw := c }
      have : Store.leo { s' with hw := c } = s'.leo := rfl
      omega
    · refine ⟨hc, ?_⟩
      show s'.hw ≤ s'.leo
      have := h.hw_le; omega

theorem appendAll_chain (ps : List PRec) : ∀ (s next : Store), ChainP s.props → appendAll s ps = some next → ChainP next.props := by
  induction ps with
  | nil => intro s next h e; change some s = some next at e; cases e; exact h
  | cons p ps ih =>
    intro s next h e
    simp only [appendAll] at e
    have hc := appendExact_chain s p.m p.contents h
    generalize s.appendExact p.m p.contents = r at hc e
    obtain ⟨s', out⟩ := r
    cases out with
    | durable => exact ih s' next hc e
    | already => exact ih s' next hc e
    | notWritten => cases e
    | conflict nf => cases e

/-- after all appends of a base-chained page LEO is at least the page's last offset -/
theorem appendAll_leo (ps : List PRec) : ∀ (s next : Store) (base : Nat), base ≤ s.leo → chainBases base ps = true →
    appendAll s ps = some next → lastBase base ps ≤ next.leo := by
  induction ps with
  | nil => intro s next base hb _ e; change some s = some next at e; cases e; simpa [lastBase] using hb
  | cons p ps ih =>
    intro s next base hb hcb e
    simp only [appendAll] at e
    simp only [chainBases, Bool.and_eq_true, decide_eq_true_eq] at hcb
    have hd := appendExact_durable_leo s p.m p.contents
    generalize s.appendExact p.m p.contents = r at hd e
    obtain ⟨s', out⟩ := r
    simp only [lastBase]
    cases out with
    | durable => exact ih s' next p.m.last (hd rfl) hcb.2 e
    | already => exact ih s' next p.m.last (hd rfl) hcb.2 e
    | notWritten => cases e
    | conflict nf => cases e

theorem filter_leo_of_byLast {l : List PRec} (h : ChainP l) (keep : Nat) (hk : (l.find? (fun p => p.m.last == keep)).isSome) :
    (Store.mk (l.filter (fun p => p.m.last ≤ keep)) 0 false).leo = keep := by
  induction l with
  | nil => simp at hk
  | cons p rest ih =>
    by_cases hp : p.m.last ≤ keep
    · rw [List.filter_cons]; simp only [hp, decide_true, if_true, Store.leo]
      -- the head is the newest proposal with last ≤ keep; since one with last = keep exists it is the head
      rw [List.find?_cons] at hk
      by_cases he : p.m.last = keep
      · exact he
      · have hb : (p.m.last == keep) = false := by simp [he]
        simp only [hb] at hk
        rw [Option.isSome_iff_exists] at hk
        obtain ⟨q, hq⟩ := hk
        have hmem := List.mem_of_find?_eq_some hq
        have hql : q.m.last = keep := by have := List.find?_some hq; simpa using this
        have := h.older_le q hmem
        have := validFor_last_gt h.head_wf.1
        omega
    · rw [List.filter_cons]; simp only [hp, decide_false, Bool.false_eq_true, if_false]
      rw [List.find?_cons] at hk
      have he : ¬ p.m.last = keep := by omega
      have hb : (p.m.last == keep) = false := by simp [he]
      simp only [hb] at hk
      exact ih h.tail hk

theorem replace_inv (s : Store) (e : RState) (k : Nat) (ps : List PRec) (c : Nat) (s' : Store)
    (hinv : StoreInv s) (h : s.replace e k ps c = .ok s') : StoreInv s' := by
  unfold Store.replace at h
  split at h
  · cases h
  · split at h
    · cases h
    · rename_i hcb
      split at h
      · cases h
      · rename_i hcl
        split at h
        · cases h
        · rename_i cur hl
          split at h
          · cases h
          · split at h
            · cases h
            · rename_i hbl
              dsimp only at h
              split at h
              · cases h
              · rename_i next ha
                cases h
                have hkc := filter_le_of_chain hinv.chain k
                refine ⟨appendAll_chain ps _ next hkc ha, ?_⟩
                have hbase : k ≤ (Store.mk (s.props.filter (fun p => p.m.last ≤ k)) s.hw s.fresh).leo := by
                  by_cases hk0 : k = 0
                  · omega
                  · have hsome : (s.byLast k).isSome = true := by
                      simp only [not_and, Option.isNone_iff_eq_none] at hbl
                      have := hbl (by omega)
                      cases hb : s.byLast k with
                      | none => exact absurd hb this
                      | some _ => rfl
                    have := filter_leo_of_byLast hinv.chain k hsome
                    have e2 : (Store.mk (s.props.filter (fun p => p.m.last ≤ k)) s.hw s.fresh).leo =
                        (Store.mk (s.props.filter (fun p => p.m.last ≤ k)) 0 false).leo := rfl
                    omega
                have := appendAll_leo ps _ next k hbase (by simpa using hcb) ha
                simp only [Nat.not_lt] at hcl
                show c ≤ Store.leo { next with hw := c }
                have : Store.leo { next with hw := c } = next.leo := rfl
                omega

def InvRel (a b : Store) : Prop := StoreInv a → StoreInv b

theorem invRel_rel : StoreRel InvRel :=
  ⟨fun _ h => h, fun _ _ _ h1 h2 h => h2 (h1 h), fun s m cs c h => sync_inv s m cs c h,
   fun s e k ps c s' h hi => replace_inv s e k ps c s' hi h⟩

end WK.Repl

import WK.Proofs.Repl_Frame
/-
  Store-level invariants of the replication model (MemoryChannelStore behind the
  StoreAdapter): the proposal chain, committed ≤ LEO, committed monotone.
  Used by the C02 theorems.
-/
namespace WK.Repl

/-! ### committed watermark never moves backwards -/

theorem appendExact_hw (s : Store) (m : Manifest) (cs : List Nat) : (s.appendExact m cs).1.hw = s.hw := by
  unfold Store.appendExact
  repeat' split
  all_goals rfl

theorem sync_hw_le (s : Store) (m : Manifest) (cs : List Nat) (c : Nat) : s.hw ≤ (s.sync m cs c).1.hw := by
  unfold Store.sync
  split
  · exact Nat.le_refl _
  · have h := appendExact_hw s m cs
    generalize s.appendExact m cs = r at h
    obtain ⟨s', out⟩ := r
    simp only at h ⊢
    split
    · rename_i hc; simp only; omega
    · simp only; omega

theorem load_committed {s : Store} {st : RState} (h : s.load = .ok st) : st.committed = s.hw ∧ st.leo = s.leo := by
  unfold Store.load at h
  split at h
  · cases h
  · split at h
    · cases h; rename_i hp; simp [Store.leo, hp]
    · split at h
      · cases h
      · cases h; rename_i p ps hp _; simp [Store.leo, hp]

theorem replace_hw_le (s : Store) (e : RState) (k : Nat) (ps : List PRec) (c : Nat) (s' : Store)
    (h : s.replace e k ps c = .ok s') : s.hw ≤ s'.hw := by
  unfold Store.replace at h
  split at h
  · cases h
  · split at h
    · cases h
    · split at h
      · cases h
      · split at h
        · cases h
        · rename_i cur hl
          split at h
          · cases h
          · rename_i hg
            split at h
            · cases h
            · split at h
              · cases h
              · cases h
                simp only
                have := (load_committed hl).1
                simp only [not_or, Nat.not_lt] at hg
                omega

def HwMono (a b : Store) : Prop := a.hw ≤ b.hw

theorem hwMono_rel : StoreRel HwMono :=
  ⟨fun _ => Nat.le_refl _, fun _ _ _ h1 h2 => Nat.le_trans h1 h2, sync_hw_le, replace_hw_le⟩

/-! ### the proposal chain -/

/-- one stored proposal is well formed: valid manifest, entries derived from it, sealed digest -/
def PRec.WF (p : PRec) : Prop :=
  p.m.validFor p.m.base p.contents.length = true ∧ deriveEntries p.m p.contents = some p.entries ∧
  (lastIdent p.entries).digest = p.m.digest

/-- newest-first list of proposals forming one unbroken predecessor chain from offset 0 -/
inductive ChainP : List PRec → Prop
  | nil : ChainP []
  | one (p : PRec) : p.WF → p.m.base = 0 → ChainP [p]
  | cons (p q : PRec) (rest : List PRec) : p.WF → p.m.base = q.m.last → p.m.prevTerm = q.m.a.term →
      p.m.prevDigest = q.m.digest → ChainP (q :: rest) → ChainP (p :: q :: rest)

structure StoreInv (s : Store) : Prop where
  chain : ChainP s.props
  hw_le : s.hw ≤ s.leo

theorem validFor_last_gt {m : Manifest} {b n : Nat} (h : m.validFor b n = true) : m.base < m.last := by
  unfold Manifest.validFor Manifest.structurallyValid at h
  simp only [Bool.and_eq_true, decide_eq_true_eq] at h
  obtain ⟨⟨⟨h1, _⟩, _⟩, _⟩ := h
  split at h1
  · cases h1
  · rename_i hn; simp only [not_or, Nat.not_le] at hn; exact hn.2.2.2.2.2.1

theorem ChainP.tail {p : PRec} {rest : List PRec} (h : ChainP (p :: rest)) : ChainP rest := by
  cases h with
  | one => exact ChainP.nil
  | cons _ _ _ _ _ _ _ h => exact h

theorem ChainP.head_wf {p : PRec} {rest : List PRec} (h : ChainP (p :: rest)) : p.WF := by
  cases h with
  | one _ h _ => exact h
  | cons _ _ _ h _ _ _ _ => exact h

/-- every older proposal ends at or below the base of a newer one -/
theorem ChainP.older_le {p : PRec} {rest : List PRec} (h : ChainP (p :: rest)) : ∀ q ∈ rest, q.m.last ≤ p.m.base := by
  induction rest generalizing p with
  | nil => intro q hq; cases hq
  | cons r rest ih =>
    intro q hq
    cases h with
    | cons _ _ _ hwf hb _ _ hc =>
      cases hq with
      | head => omega
      | tail _ hq' =>
        have := ih hc q hq'
        have := validFor_last_gt hc.head_wf.1
        omega

theorem filter_le_of_chain {l : List PRec} (h : ChainP l) (keep : Nat) : ChainP (l.filter (fun p => p.m.last ≤ keep)) := by
  induction l with
  | nil => exact ChainP.nil
  | cons p rest ih =>
    by_cases hp : p.m.last ≤ keep
    · -- everything older is kept as well
      have hall : ∀ q ∈ rest, (decide (q.m.last ≤ keep)) = true := by
        intro q hq
        have := h.older_le q hq
        have := validFor_last_gt h.head_wf.1
        simp; omega
      have : (p :: rest).filter (fun p => decide (p.m.last ≤ keep)) = p :: rest := by
        rw [List.filter_cons]; simp only [hp, decide_true, if_true]
        congr 1
        exact List.filter_eq_self.mpr hall
      rw [this]; exact h
    · rw [List.filter_cons]; simp only [hp, decide_false, Bool.false_eq_true, if_false]
      exact ih h.tail

end WK.Repl

import WK.Proofs.C09_Crash
import WK.Model.C11
/-
  C11 — lemmas: a batch of puts is characterised key by key by its last put; re-applying it on top
  of any prefix of itself changes nothing (retry after a crash).
-/
namespace WK.C11
open WK.C09

/-- last value written to `k` by a batch of puts, `acc` if none -/
def lastPut (k : Key) : Option Val → List W → Option Val
  | acc, [] => acc
  | acc, .put k' v :: rest => lastPut k (if k = k' then some v else acc) rest
  | acc, _ :: rest => lastPut k acc rest

def PutsOnly (b : List W) : Prop := ∀ w ∈ b, ∃ k v, w = W.put k v

theorem get_applyBatch_puts (b : List W) (hb : PutsOnly b) (s : Store) (k : Key) :
    get (applyBatch s b) k = lastPut k (get s k) b := by
  induction b generalizing s with
  | nil => rfl
  | cons w rest ih =>
    obtain ⟨k', v, rfl⟩ := hb w List.mem_cons_self
    have hr : PutsOnly rest := fun w hw => hb w (List.mem_cons_of_mem _ hw)
    show get (applyBatch (put s k' v) rest) k = _
    rw [ih hr, get_put]
    rfl

theorem lastPut_acc (k : Key) (b : List W) (hb : PutsOnly b) (a : Option Val) :
    lastPut k a b = match lastPut k none b with | some v => some v | none => a := by
  induction b generalizing a with
  | nil => rfl
  | cons w rest ih =>
    obtain ⟨k', v, rfl⟩ := hb w List.mem_cons_self
    have hr : PutsOnly rest := fun w hw => hb w (List.mem_cons_of_mem _ hw)
    show lastPut k (if k = k' then some v else a) rest = match lastPut k (if k = k' then some v else none) rest with | some v => some v | none => a
    rw [ih hr (if k = k' then some v else a), ih hr (if k = k' then some v else none)]
    by_cases h : k = k'
    · simp [h]; split <;> simp_all
    · simp [h]; split <;> rfl

/-- no put to `k` in the batch ⇒ none in any prefix -/
theorem lastPut_none_take (k : Key) (b : List W) (hb : PutsOnly b) (j : Nat)
    (h : lastPut k none b = none) : lastPut k none (b.take j) = none := by
  induction b generalizing j with
  | nil => simp [lastPut]
  | cons w rest ih =>
    obtain ⟨k', v, rfl⟩ := hb w List.mem_cons_self
    have hr : PutsOnly rest := fun w hw => hb w (List.mem_cons_of_mem _ hw)
    cases j with
    | zero => rfl
    | succ j =>
      by_cases hk : k = k'
      · exfalso
        have : lastPut k none (W.put k' v :: rest) = lastPut k (some v) rest := by simp [lastPut, hk]
        rw [this, lastPut_acc k rest hr (some v)] at h
        split at h <;> simp at h
      · have h' : lastPut k none rest = none := by simpa [lastPut, hk] using h
        simpa [lastPut, hk] using ih hr j h'

theorem putsOnly_take (b : List W) (hb : PutsOnly b) (j : Nat) : PutsOnly (b.take j) :=
  fun w hw => hb w (List.mem_of_mem_take hw)

/-- RETRY IDEMPOTENCE incl. crash: applying an all-puts write list on top of ANY prefix of itself
    (a restore that crashed after j writes, then a full retry) gives, key by key, the store of one
    uninterrupted application. `j = b.length` is the plain retry of a completed import. -/
theorem retry_get (b : List W) (hb : PutsOnly b) (t : Store) (j : Nat) (k : Key) :
    get (applyBatch (applyBatch t (b.take j)) b) k = get (applyBatch t b) k := by
  rw [get_applyBatch_puts b hb, get_applyBatch_puts b hb, get_applyBatch_puts _ (putsOnly_take b hb j),
    lastPut_acc k b hb (lastPut k (get t k) (b.take j)), lastPut_acc k b hb (get t k)]
  cases h : lastPut k none b with
  | some v => rfl
  | none =>
    simp only
    rw [lastPut_acc k _ (putsOnly_take b hb j) (get t k), lastPut_none_take k b hb j h]

theorem putsOnly_rowWrites (ch q : Nat) (x : Rec) : PutsOnly (rowWrites ch q x) := by
  intro w hw
  unfold rowWrites at hw
  simp only [List.mem_append, List.mem_cons, List.mem_nil_iff, or_false] at hw
  rcases hw with (((h | h) | h) | h) | h
  · exact ⟨_, _, h⟩
  · exact ⟨_, _, h⟩
  · split at h <;> simp at h; exact ⟨_, _, h⟩
  · split at h <;> simp at h; exact ⟨_, _, h⟩
  · split at h <;> simp at h; exact ⟨_, _, h⟩

theorem putsOnly_chanWrites (r : ChanRec) : PutsOnly (chanWrites r) := by
  intro w hw
  unfold chanWrites at hw
  simp only [List.mem_append, List.mem_cons, List.mem_nil_iff, or_false, List.mem_map, List.mem_flatten] at hw
  rcases hw with ((h | h) | ⟨e, _, h⟩) | ⟨l, ⟨⟨q, v⟩, _, rfl⟩, h⟩
  · exact ⟨_, _, h⟩
  · exact ⟨_, _, h⟩
  · exact ⟨_, _, h.symm⟩
  · simp only at h
    split at h
    · exact putsOnly_rowWrites _ _ _ w h
    · simp at h

theorem putsOnly_importWrites (recs : List ChanRec) : PutsOnly (importWrites recs) := by
  intro w hw
  unfold importWrites at hw
  simp only [List.mem_flatten, List.mem_map] at hw
  obtain ⟨l, ⟨r, _, rfl⟩, h⟩ := hw
  exact putsOnly_chanWrites r w h

/-- everything in a store built by a batch from the empty store was put by that batch -/
theorem mem_applyBatch_nil (b : List W) (e : Key × Val) (h : e ∈ applyBatch [] b) : W.put e.1 e.2 ∈ b :=
  allEntries_applyBatch (fun k v => W.put k v ∈ b) b [] (by intro e he; cases he) (fun _ _ h => h) e h

theorem row_of_rowWrites (ch q : Nat) (x : Rec) (c q' : Nat) (v : Val)
    (h : W.put (.row c q') v ∈ rowWrites ch q x) : c = ch ∧ q' = q ∧ v = .row x.id x.f x.c x.flags x.pay := by
  unfold rowWrites at h
  simp only [List.mem_append, List.mem_cons, List.mem_nil_iff, or_false, W.put.injEq] at h
  rcases h with (((h | h) | h) | h) | h
  · obtain ⟨hk, hv⟩ := h; cases hk; exact ⟨rfl, rfl, hv⟩
  · exact absurd h.1 (by simp)
  · split at h <;> simp at h
  · split at h <;> simp at h
  · split at h <;> simp at h

theorem rowRec_some (v : Val) (x : Rec) (h : rowRec v = some x) : v = .row x.id x.f x.c x.flags x.pay := by
  cases v <;> simp [rowRec] at h
  subst h; rfl

/-- a row entry written by one valid channel section is one of its rows -/
theorem row_of_chanWrites (r : ChanRec) (hv : chanValid r = true) (c q : Nat) (v : Val)
    (h : W.put (.row c q) v ∈ chanWrites r) : c = r.ch ∧ (q, v) ∈ r.rows := by
  unfold chanWrites at h
  simp only [List.mem_append, List.mem_cons, List.mem_nil_iff, or_false, List.mem_map, List.mem_flatten, W.put.injEq] at h
  rcases h with ((h | h) | ⟨e, he, h⟩) | ⟨l, ⟨⟨q', v'⟩, hm, rfl⟩, h⟩
  · exact absurd h.1 (by simp)
  · exact absurd h.1 (by simp)
  · -- system entries never have row keys
    unfold chanValid at hv
    simp only [Bool.and_eq_true, List.all_eq_true] at hv
    have := hv.2 e he
    obtain ⟨hk, _⟩ := h
    rw [show e = (e.1, e.2) from rfl, hk] at this
    simp [sysKeep] at this
  · simp only at h
    split at h
    · next x hx =>
      obtain ⟨h1, h2, h3⟩ := row_of_rowWrites _ _ _ _ _ _ h
      subst h1 h2
      rw [h3, ← rowRec_some v' x hx]
      exact ⟨rfl, hm⟩
    · simp at h

theorem seqsOk_le (hw : Nat) (rows : List (Nat × Val)) (prev : Nat) (h : seqsOk hw prev rows = true) :
    ∀ e ∈ rows, 1 ≤ e.1 ∧ e.1 ≤ hw := by
  induction rows generalizing prev with
  | nil => intro e he; cases he
  | cons a rest ih =>
    obtain ⟨q, v⟩ := a
    unfold seqsOk at h
    simp only [Bool.and_eq_true, bne_iff_ne, ne_eq, decide_eq_true_eq] at h
    intro e he
    rcases List.mem_cons.1 he with he | he
    · subst he; exact ⟨by omega, h.1.1.1.2⟩
    · exact ih q h.2 e he

end WK.C11

import WK.Spec.C26
/-
  C26 — helper lemmas for the header codec: stores/loads on a byte buffer and
  the loads of an encoded header.  (About the regenerated `WK.Gen.C26` defs.)
-/
namespace WK.C26
open WK.Gen.C26

theorem length_wr (bs : Bytes) (o w v : Nat) : (wr bs o w v).length = bs.length := by
  simp [wr]

theorem byteAt_wr (bs : Bytes) (o w v i : Nat) :
    byteAt (wr bs o w v) i = if o ≤ i ∧ i < o + w ∧ i < bs.length then beByte w v (i - o) else byteAt bs i := by
  unfold wr byteAt
  simp only [List.getD_eq_getElem?_getD, List.getElem?_mapIdx]
  by_cases h : i < bs.length
  · simp [h]
  · simp [h]

theorem byteAt_replicate0 (n i : Nat) : byteAt (List.replicate n (0:UInt8)) i = 0 := by
  simp [byteAt, List.getElem?_replicate]
  split <;> rfl

theorem toNat_beByte (w v i : Nat) : (beByte w v i).toNat = v / 256 ^ (w - 1 - i) % 256 := by
  simp [beByte]

theorem byteAt_append_left (a b : Bytes) (i : Nat) (h : i < a.length) : byteAt (a ++ b) i = byteAt a i := by
  simp [byteAt, List.getElem?_append_left h]

theorem byteAt_take (a : Bytes) (n i : Nat) (h : i < n) : byteAt (a.take n) i = byteAt a i := by
  simp [byteAt, h]

theorem rd_append_left (a b : Bytes) (off w : Nat) (h : off + w ≤ a.length) : rd (a ++ b) off w = rd a off w := by
  induction w generalizing off with
  | zero => rfl
  | succ w ih =>
    simp only [rd]
    rw [byteAt_append_left a b off (by omega), ih (off + 1) (by omega)]

theorem rd_take (a : Bytes) (n off w : Nat) (h : off + w ≤ n) : rd (a.take n) off w = rd a off w := by
  induction w generalizing off with
  | zero => rfl
  | succ w ih =>
    simp only [rd]
    rw [byteAt_take a n off (by omega), ih (off + 1) (by omega)]

theorem rd_lt (bs : Bytes) (off w : Nat) : rd bs off w < 256 ^ w := by
  induction w generalizing off with
  | zero => simp [rd]
  | succ w ih =>
    simp only [rd]
    have h1 := (byteAt bs off).toNat_lt
    have h2 := ih (off + 1)
    rw [Nat.pow_succ]
    have : (byteAt bs off).toNat * 256 ^ w ≤ 255 * 256 ^ w := Nat.mul_le_mul_right _ (by omega)
    omega

theorem enc_len (h : Header) : (encodeHeader h).length = HeaderSize := by
  simp [encodeHeader, applyWrites, encodeWrites, length_wr, HeaderSize]

/-- every load DecodeHeader performs, on the output of EncodeHeader -/
theorem rd_enc (h : Header) (hwf : h.WF) :
    rd (encodeHeader h) headerMagicOffset 2 = Magic ∧ rd (encodeHeader h) headerVersionOffset 1 = Version ∧
    rd (encodeHeader h) headerFlagsOffset 1 = 0 ∧ rd (encodeHeader h) headerKindOffset 1 = h.kind ∧
    rd (encodeHeader h) headerPriorityOffset 1 = h.priority ∧ rd (encodeHeader h) headerServiceIDOffset 2 = h.serviceID ∧
    rd (encodeHeader h) headerRequestIDOffset 8 = h.requestID ∧ rd (encodeHeader h) headerBodyLenOffset 4 = h.bodyLen ∧
    rd (encodeHeader h) headerReservedOffset 4 = 0 := by
  obtain ⟨h1, h2, h3, h4, h5⟩ := hwf
  simp [rd, encodeHeader, applyWrites, encodeWrites, byteAt_wr, length_wr, HeaderSize,
    headerMagicOffset, headerVersionOffset, headerFlagsOffset, headerKindOffset, headerPriorityOffset,
    headerServiceIDOffset, headerRequestIDOffset, headerBodyLenOffset, headerReservedOffset, toNat_beByte, Magic, Version]
  refine ⟨?_, ?_, ?_, ?_, ?_⟩ <;> omega

end WK.C26

import WK.Model.C09
/-
  C09 — lemmas: replaying the commits of a history = running the history;
  every prefix of the commit list is the state after a clean prefix of the
  history (each mutation issues at most one batch); synced commits are never
  lost; entry-local invariants survive batches.
-/
namespace WK.C09

theorem applyBatch_nil (s : Store) : applyBatch s [] = s := rfl

theorem applyCommits_cons (s : Store) (c : Commit) (cs : List Commit) :
    applyCommits s (c :: cs) = applyCommits (applyBatch s c.writes) cs := rfl

theorem applyCommits_append (s : Store) (a b : List Commit) :
    applyCommits s (a ++ b) = applyCommits (applyCommits s a) b := by
  simp [applyCommits, List.foldl_append]

/-- one guarded mutation -/
def stepG (s : Store) (op : Op) : Store :=
  if (callerGuard s op).isSome then s else (step s op).2

theorem run_cons (s : Store) (op : Op) (ops : List Op) : run s (op :: ops) = run (stepG s op) ops := rfl

theorem run_nil (s : Store) : run s [] = s := rfl

theorem run_append (s : Store) (a b : List Op) : run s (a ++ b) = run (run s a) b := by
  simp [run, List.foldl_append]

theorem step_snd (s : Store) (op : Op) : (step s op).2 = applyBatch s (plan s op).2 := by
  unfold step; rfl

theorem commitsOf_cons (s : Store) (op : Op) (rest : List Op) :
    commitsOf s (op :: rest) =
      if (callerGuard s op).isSome then commitsOf s rest
      else if (plan s op).2.isEmpty then commitsOf s rest
      else ⟨(plan s op).2, true⟩ :: commitsOf (applyBatch s (plan s op).2) rest := by
  rw [commitsOf]

/-- every commit a history issues is synced (`Commit(true)`) -/
theorem commitsOf_sync (s : Store) (ops : List Op) : ∀ c ∈ commitsOf s ops, c.sync = true := by
  induction ops generalizing s with
  | nil => intro c h; simp [commitsOf] at h
  | cons op rest ih =>
    intro c h
    rw [commitsOf_cons] at h
    split at h
    · exact ih _ c h
    · split at h
      · exact ih _ c h
      · rcases List.mem_cons.1 h with h | h
        · subst h; rfl
        · exact ih _ c h

/-- each mutation issues at most one commit -/
theorem commitsOf_single_le (s : Store) (op : Op) : (commitsOf s [op]).length ≤ 1 := by
  rw [commitsOf_cons]
  split
  · simp [commitsOf]
  · split <;> simp [commitsOf]

theorem stepG_eq_of_empty (s : Store) (op : Op) (hg : ¬ (callerGuard s op).isSome = true)
    (he : (plan s op).2.isEmpty = true) : stepG s op = s := by
  unfold stepG
  rw [if_neg hg, step_snd]
  have : (plan s op).2 = [] := List.isEmpty_iff.1 he
  rw [this]; rfl

/-- replaying the commits of a history gives the state after the history -/
theorem applyCommits_commitsOf (s : Store) (ops : List Op) : applyCommits s (commitsOf s ops) = run s ops := by
  induction ops generalizing s with
  | nil => rfl
  | cons op rest ih =>
    rw [commitsOf_cons, run_cons]
    by_cases hg : (callerGuard s op).isSome = true
    · rw [if_pos hg]; unfold stepG; rw [if_pos hg]; exact ih s
    · rw [if_neg hg]
      by_cases he : (plan s op).2.isEmpty = true
      · rw [if_pos he, stepG_eq_of_empty s op hg he]; exact ih s
      · rw [if_neg he, applyCommits_cons]
        unfold stepG; rw [if_neg hg, step_snd]; exact ih _

/-- ATOMICITY ⇒ every prefix of the issued commits is the state after a clean
    prefix of the history: a crash is indistinguishable from stopping between
    two mutations. -/
theorem commit_prefix_is_clean_prefix (s : Store) (ops : List Op) (k : Nat) :
    ∃ j, j ≤ ops.length ∧ applyCommits s ((commitsOf s ops).take k) = run s (ops.take j) := by
  induction ops generalizing s k with
  | nil => exact ⟨0, Nat.le_refl _, by simp [commitsOf, applyCommits, run]⟩
  | cons op rest ih =>
    rw [commitsOf_cons]
    by_cases hg : (callerGuard s op).isSome = true
    · rw [if_pos hg]
      obtain ⟨j, hj, h⟩ := ih s k
      refine ⟨j + 1, by simp; omega, ?_⟩
      rw [h, List.take_succ_cons, run_cons]; unfold stepG; rw [if_pos hg]
    · rw [if_neg hg]
      by_cases he : (plan s op).2.isEmpty = true
      · rw [if_pos he]
        obtain ⟨j, hj, h⟩ := ih s k
        refine ⟨j + 1, by simp; omega, ?_⟩
        rw [h, List.take_succ_cons, run_cons, stepG_eq_of_empty s op hg he]
      · rw [if_neg he]
        cases k with
        | zero => exact ⟨0, Nat.zero_le _, by simp [applyCommits, run]⟩
        | succ k =>
          obtain ⟨j, hj, h⟩ := ih (applyBatch s (plan s op).2) k
          refine ⟨j + 1, by simp; omega, ?_⟩
          rw [List.take_succ_cons, applyCommits_cons, List.take_succ_cons, run_cons]
          unfold stepG; rw [if_neg hg, step_snd]; exact h

theorem lastSynced_of_all_sync : ∀ (cs : List Commit), (∀ c ∈ cs, c.sync = true) → lastSynced cs = cs.length
  | [], _ => rfl
  | c :: cs, h => by
    have ih := lastSynced_of_all_sync cs (fun c' hc' => h c' (List.mem_cons_of_mem _ hc'))
    have hc : c.sync = true := h c (List.mem_cons_self)
    unfold lastSynced
    rw [ih]
    cases cs with
    | nil => simp [hc]
    | cons d ds => simp

/-! ### entry-local invariants -/

theorem get_del_ne (s : Store) (k k' : Key) (h : k' ≠ k) : get (del s k) k' = get s k' := by
  unfold get del
  induction s with
  | nil => rfl
  | cons e t ih =>
    obtain ⟨a, b⟩ := e
    rw [List.filter_cons]
    by_cases ha : a = k
    · subst ha
      have hb : (k' == a) = false := by simpa using h
      simp [List.lookup, hb]; simpa using ih
    · by_cases hk : k' = a
      · subst hk; simp [ha, List.lookup]
      · have hb2 : (k' == a) = false := by simpa using hk
        simp [ha, List.lookup, hb2]; simpa using ih

theorem get_put (s : Store) (k k' : Key) (v : Val) :
    get (put s k v) k' = if k' = k then some v else get s k' := by
  by_cases h : k' = k
  · subst h; simp [get, put]
  · rw [if_neg h, ← get_del_ne s k k' h]
    have hb : (k' == k) = false := by simpa using h
    simp [get, put, List.lookup, hb]
/-- a predicate on single entries -/
def AllEntries (P : Key → Val → Prop) (s : Store) : Prop := ∀ e ∈ s, P e.1 e.2

theorem allEntries_applyW (P : Key → Val → Prop) (s : Store) (w : W)
    (hs : AllEntries P s) (hw : ∀ k v, w = .put k v → P k v) : AllEntries P (applyW s w) := by
  cases w with
  | put k v =>
    intro e he
    simp only [applyW, put, del, List.mem_cons, List.mem_filter] at he
    rcases he with he | ⟨he, _⟩
    · subst he; exact hw k v rfl
    · exact hs e he
  | del k =>
    intro e he
    simp only [applyW, del, List.mem_filter] at he
    exact hs e he.1
  | delEntFrom ch frm =>
    intro e he
    simp only [applyW, List.mem_filter] at he
    exact hs e he.1

/-- entry-local invariants survive any batch whose puts satisfy them (deletes only remove) -/
theorem allEntries_applyBatch (P : Key → Val → Prop) (b : List W) :
    ∀ (s : Store), AllEntries P s → (∀ k v, W.put k v ∈ b → P k v) → AllEntries P (applyBatch s b) := by
  induction b with
  | nil => intro s hs _; exact hs
  | cons w rest ih =>
    intro s hs hb
    have : applyBatch s (w :: rest) = applyBatch (applyW s w) rest := rfl
    rw [this]
    apply ih
    · apply allEntries_applyW P s w hs
      intro k v hw; subst hw; exact hb k v (List.mem_cons_self)
    · intro k v hm; exact hb k v (List.mem_cons_of_mem _ hm)

theorem applyBatch_append (s : Store) (a b : List W) : applyBatch s (a ++ b) = applyBatch (applyBatch s a) b := by
  simp [applyBatch, List.foldl_append]

end WK.C09

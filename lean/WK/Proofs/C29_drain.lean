import WK.Model.C29
/-
  C29 — the completion drain hands append completions on in batch-sequence order.
-/
set_option linter.unusedSimpArgs false
namespace WK.C29

theorem Drain.popMap_val {d d' : Drain} {s : Nat} (h : d.popMap = some (s, d')) : s = d.next ∧ d'.next = d.next + 1 := by
  unfold Drain.popMap at h
  split at h
  · simp at h; obtain ⟨rfl, rfl⟩ := h; exact ⟨rfl, rfl⟩
  · simp at h

theorem Drain.pop_val {d d' : Drain} {s : Nat} (h : d.pop = some (s, d')) : s = d.next ∧ d'.next = d.next + 1 := by
  unfold Drain.pop at h
  split at h
  · next s' hs' =>
    split at h
    · next heq =>
      simp at h; obtain ⟨rfl, rfl⟩ := h
      exact ⟨by simpa using heq, rfl⟩
    · exact Drain.popMap_val h
  · exact Drain.popMap_val h

theorem Drain.popAll_range : ∀ (fuel : Nat) (d : Drain),
    (Drain.popAll fuel d).1 = List.range' d.next (Drain.popAll fuel d).1.length ∧
    (Drain.popAll fuel d).2.next = d.next + (Drain.popAll fuel d).1.length
  | 0, d => by simp [Drain.popAll]
  | fuel + 1, d => by
    unfold Drain.popAll
    cases hp : d.pop with
    | none => simp
    | some sd =>
      obtain ⟨s, d'⟩ := sd
      obtain ⟨hs, hn⟩ := Drain.pop_val hp
      obtain ⟨ih1, ih2⟩ := Drain.popAll_range fuel d'
      simp only [List.length_cons]
      constructor
      · rw [List.range'_succ, ← hn, ← ih1, hs]
      · rw [ih2, hn]; omega

theorem Drain.record_next (d : Drain) (seq : Nat) : (d.record seq).next = d.next := by
  unfold Drain.record
  split
  · rfl
  · split <;> rfl

theorem Drain.run_flatten : ∀ (arr : List Nat) (d : Drain),
    (Drain.run d arr).flatten = List.range' d.next (Drain.run d arr).flatten.length
  | [], d => by simp [Drain.run]
  | a :: rest, d => by
    simp only [Drain.run, Drain.arrive]
    obtain ⟨h1, h2⟩ := Drain.popAll_range ((d.record a).done.length + 2) (d.record a)
    have ih := Drain.run_flatten rest (Drain.popAll ((d.record a).done.length + 2) (d.record a)).2
    rw [Drain.record_next] at h1 h2
    simp only [List.flatten_cons, List.length_append]
    rw [List.range'_append_1 |>.symm]
    rw [← h1, ih, h2]
    simp [List.length_range']

end WK.C29

import WK.Proofs.C15_Reducer
/-
  C15 — one store operation moves the row forward (`Fwd`) or leaves it unchanged.
-/
namespace WK.C15

theorem Fwd.refl (m : Meta) : Fwd m m :=
  ⟨Or.inr ⟨rfl, Nat.le_refl _⟩, fun _ => ⟨rfl, Int.le_refl _⟩, Nat.le_refl _, Nat.le_refl _, Nat.le_refl _,
   Nat.le_refl _, fun h => by unfold routeRelevantChange at h; simp at h⟩

theorem Fwd.trans {a b c : Meta} (h1 : Fwd a b) (h2 : Fwd b c) : Fwd a c := by
  have e1 := h1.epochs
  have e2 := h2.epochs
  unfold epochLe at e1 e2
  refine ⟨?_, ?_, Nat.le_trans h1.retention h2.retention, Nat.le_trans h1.fence h2.fence,
    Nat.le_trans h1.directory h2.directory, Nat.le_trans h1.routeMono h2.routeMono, ?_⟩
  · unfold epochLe; omega
  · intro hs
    unfold sameEpochs at hs
    have s1 : sameEpochs a b := by unfold sameEpochs; omega
    have s2 : sameEpochs b c := by unfold sameEpochs; omega
    have n1 := h1.noSwitch s1
    have n2 := h2.noSwitch s2
    exact ⟨by rw [n2.1, n1.1], Int.le_trans n1.2 n2.2⟩
  · intro hc hm
    have m1 := h1.routeMono
    have m2 := h2.routeMono
    by_cases hab : routeRelevantChange a b
    · have := h1.routeStrict hab hm; omega
    · -- a and b agree on every relevant field, so the change is between b and c
      have hbc : routeRelevantChange b c := by
        unfold routeRelevantChange at hab hc ⊢
        simp only [not_or, Decidable.not_not] at hab
        obtain ⟨q1, q2, q3, q4, q5, q6, q7, q8, q9, q10, q11, q12⟩ := hab
        rw [q1, q2, q3, q4, q5, q6, q7, q8, q9, q10, q11, q12] at hc
        exact hc
      by_cases hbm : b.routeGen < u64max
      · have := h2.routeStrict hbc hbm; omega
      · omega

/-- the applied branches of resolveMonotonicChannelRuntimeMeta -/
theorem applied_fwd (old c : Meta) (had : Bool) (hN : Normal old) (hc : Normal c)
    (hge : had = true → old.routeGen ≤ c.routeGen) (hep : epochLe old c)
    (hns : sameEpochs old c → c.leader = old.leader ∧ old.lease ≤ c.lease) :
    Fwd old (normalize (bump old (preserve old c) had)) := by
  obtain ⟨p1, p2, p3, p4, p5, p6, p7, p8, p9, p10, p11, p12⟩ := preserve_fields old c
  have hb := bump_eq old (preserve old c) had
  obtain ⟨g1, g2, g3⟩ := bumpRG_spec old (preserve old c) had (by rw [p8]; exact hge)
  obtain ⟨n1, n2, n3, n4, n5, n6, n7, n8, n9, n10, n11, n12, n13, n14, n15, n16, n17, n18⟩ :=
    normalize_fields (bump old (preserve old c) had)
  rw [hb] at n1 n2 n3 n4 n5 n6 n7 n8 n9 n10 n11 n12 n13 n14 n15 n16 n17 n18
  simp only at n1 n2 n3 n4 n5 n6 n7 n8 n9 n10 n11 n12 n13 n14 n15 n16 n17 n18
  rw [hb]
  have hrep : normSet (preserve old c).replicas = (preserve old c).replicas := by rw [p6]; exact hc.1.symm
  have hisr : normSet (preserve old c).isr = (preserve old c).isr := by rw [p7]; exact hc.2.1.symm
  refine ⟨?_, ?_, ?_, ?_, ?_, ?_, ?_⟩
  · unfold epochLe at hep ⊢; rw [n2, n3, p2, p3]; exact hep
  · intro hs
    unfold sameEpochs at hs
    rw [n2, n3, p2, p3] at hs
    rw [n4, n7, p4, p5]
    exact hns hs
  · rw [n8]; exact p9
  · rw [n11]; exact p10
  · exact Nat.le_trans p11 n17
  · exact Nat.le_trans g1 n16
  · intro hch hm
    have hrc : routeChanged old (preserve old c) = true := by
      unfold routeRelevantChange at hch
      rw [n2, n3, n4, n14, n15, n6, n7, n8, n10, n11, n12, n13, hrep, hisr] at hch
      simp only [routeChanged, decide_eq_true_eq]
      rcases hch with h | h | h | h | h | h | h | h | h | h | h | h <;> simp [h]
    exact Nat.lt_of_lt_of_le (g2 hrc hm) n16

theorem normal_lease (c : Meta) (l : Int) (h : Normal c) : Normal { c with lease := l } := h

/-- UpsertChannelRuntimeMeta on an existing (normal) row -/
theorem upsert_some (idLen : Nat) (old cand : Meta) (hN : Normal old) :
    (upsert idLen (some old) cand).1 = some old ∨
    (∃ new, (upsert idLen (some old) cand) = (some new, Out.applied) ∧ Fwd old new ∧ Normal new) := by
  unfold upsert
  by_cases hv : validate idLen cand = true
  · simp only [hv, not_true_eq_false, ↓reduceIte]
    unfold resolve
    simp only [normalize_of_normal old hN]
    have hcN := normalize_normal cand
    by_cases c1 : ((decide (cand.routeGen ≠ 0)) = true ∧ (normalize cand).routeGen < old.routeGen)
    · rw [if_pos c1]; exact Or.inl rfl
    · rw [if_neg c1]
      have hge : (decide (cand.routeGen ≠ 0)) = true → old.routeGen ≤ (normalize cand).routeGen :=
        fun h => Nat.le_of_not_lt (fun hlt => c1 ⟨h, hlt⟩)
      by_cases c2 : (normalize cand).chEpoch < old.chEpoch
      · rw [if_pos c2]; exact Or.inl rfl
      · rw [if_neg c2]
        by_cases c3 : (normalize cand).chEpoch > old.chEpoch
        · rw [if_pos c3]
          right
          refine ⟨_, rfl, applied_fwd old _ _ hN hcN hge (Or.inl c3) ?_, normalize_normal _⟩
          intro hs; unfold sameEpochs at hs; omega
        · rw [if_neg c3]
          have hce : old.chEpoch = (normalize cand).chEpoch := by omega
          by_cases c4 : (normalize cand).leEpoch < old.leEpoch
          · rw [if_pos c4]; exact Or.inl rfl
          · rw [if_neg c4]
            by_cases c5 : (normalize cand).leEpoch > old.leEpoch
            · rw [if_pos c5]
              right
              refine ⟨_, rfl, applied_fwd old _ _ hN hcN hge (Or.inr ⟨hce, by omega⟩) ?_, normalize_normal _⟩
              intro hs; unfold sameEpochs at hs; omega
            · rw [if_neg c5]
              by_cases c6 : (normalize cand).leader ≠ old.leader
              · rw [if_pos c6]; exact Or.inl rfl
              · rw [if_neg c6]
                have hld : (normalize cand).leader = old.leader := Decidable.of_not_not c6
                right
                by_cases c7 : (normalize cand).lease < old.lease
                · rw [if_pos c7]
                  refine ⟨_, rfl, applied_fwd old { normalize cand with lease := old.lease } _ hN
                    (normal_lease _ _ hcN) hge (Or.inr ⟨hce, by show old.leEpoch ≤ (normalize cand).leEpoch; omega⟩) ?_,
                    normalize_normal _⟩
                  intro _; exact ⟨hld, Int.le_refl _⟩
                · rw [if_neg c7]
                  refine ⟨_, rfl, applied_fwd old _ _ hN hcN hge (Or.inr ⟨hce, by omega⟩) ?_, normalize_normal _⟩
                  intro _; exact ⟨hld, by omega⟩
  · simp only [hv, not_false_eq_true, ↓reduceIte]; exact Or.inl rfl

end WK.C15

import WK.Theorems.C17
/-
  C17 phase 3 — multi-command ApplyBatch calls: "at most one active task per channel" for all
  batches without a same-batch re-activation, and the per-closure theorems for arbitrary overlays.
-/
namespace WK.C17

def termSt (s : Nat) : Bool := s == 4 || s == 5 || s == 6

/-- the command is not a free-form Claim/Advance that takes a TERMINAL row back to an active status
    (its task guard expects a terminal status and it asks for a non-terminal one) -/
def NoReact (c : Cmd) : Prop :=
  (c.kind = .claim ∨ c.kind = .advance) → ¬ (termSt c.g.est = true ∧ termSt c.st = false)

def dbActive (db : State) (c i : Nat) : Prop := ∃ e, db.task? c i = some e ∧ e.isActive = true

def blockedKey (db : State) (c i : Nat) : Bool :=
  match db.activeIdx? c with
  | none => false
  | some v =>
    if v == i then false
    else match db.task? c v with
      | none => false
      | some e => e.isActive

theorem activeBlocked_key (db : State) (t : Task) : activeBlocked db t = blockedKey db t.chan t.id := rfl

/-- a db-active row blocks every other id of its channel -/
theorem blocked_of_dbActive (db : State) (hinv : Inv db) (c i j : Nat) (h : dbActive db c i) (hne : j ≠ i) :
    blockedKey db c j = true := by
  obtain ⟨e, he, hea⟩ := h
  obtain ⟨hem, hec, hei⟩ := mem_of_task? db c i e he
  have hidx := hinv.2 e hem hea
  rw [hec, hei] at hidx
  unfold blockedKey
  rw [hidx]
  have : (i == j) = false := by simp; omega
  simp [this, he, hea]

/-! overlay lookups -/

theorem ov_putTask_same (o : Ov) (db : State) (t : Task) : (o.putTask t).task? db t.chan t.id = some t := by
  simp [Ov.putTask, Ov.task?]

theorem ov_putTask_ne (o : Ov) (db : State) (t : Task) (c i : Nat) (h : ¬ (t.chan = c ∧ t.id = i)) :
    (o.putTask t).task? db c i = o.task? db c i := by
  have : ((t.chan, t.id) == (c, i)) = false := by
    cases hx : ((t.chan, t.id) == (c, i)) with
    | false => rfl
    | true => simp at hx; exact absurd hx h
  simp [Ov.putTask, Ov.task?, List.find?_cons, this]

theorem ov_putMeta_task (o : Ov) (db : State) (rc : Nat) (m : Meta) (c i : Nat) :
    (o.putMeta rc m).task? db c i = o.task? db c i := rfl


/-- the invariant kept while the closures of ONE commit run: `V` is the committed store plus the
    writes staged so far, `o` the overlay, `CA` the keys of the active rows CREATED in this commit -/
structure BInv (db V : State) (o : Ov) (CA : List (Nat × Nat)) : Prop where
  ku : KeysUnique V.tasks
  cov : Covers V
  vprov : ∀ t ∈ V.tasks, t.isActive = true → dbActive db t.chan t.id ∨ (t.chan, t.id) ∈ CA
  oprov : ∀ c i t, o.task? db c i = some t → t.isActive = true → dbActive db c i ∨ (c, i) ∈ CA
  caOk : ∀ p ∈ CA, blockedKey db p.1 p.2 = false
  caUniq : ∀ p ∈ CA, ∀ q ∈ CA, p.1 = q.1 → p = q

theorem binv_start (db : State) (h : Inv db) : BInv db db {} [] where
  ku := h.1
  cov := h.2
  vprov := fun t ht ha => Or.inl ⟨t, task?_of_mem db.tasks h.1 t ht, ha⟩
  oprov := fun c i t ht ha => Or.inl ⟨t, by simpa [Ov.task?] using ht, ha⟩
  caOk := fun p hp => by cases hp
  caUniq := fun p hp => by cases hp

theorem dbActive_same_chan (db : State) (hinv : Inv db) (c i j : Nat) (h1 : dbActive db c i) (h2 : dbActive db c j) : i = j := by
  obtain ⟨e1, he1, ha1⟩ := h1
  obtain ⟨e2, he2, ha2⟩ := h2
  obtain ⟨m1, c1, i1⟩ := mem_of_task? db c i e1 he1
  obtain ⟨m2, c2, i2⟩ := mem_of_task? db c j e2 he2
  have x1 := hinv.2 e1 m1 ha1
  have x2 := hinv.2 e2 m2 ha2
  rw [c1] at x1; rw [c2, x1] at x2
  simp at x2; omega

theorem oprov_put (db : State) (o : Ov) (CA : List (Nat × Nat)) (nt : Task)
    (h : ∀ c i t, o.task? db c i = some t → t.isActive = true → dbActive db c i ∨ (c, i) ∈ CA)
    (hnt : nt.isActive = true → dbActive db nt.chan nt.id ∨ (nt.chan, nt.id) ∈ CA) :
    ∀ c i t, (o.putTask nt).task? db c i = some t → t.isActive = true → dbActive db c i ∨ (c, i) ∈ CA := by
  intro c i t ht ha
  by_cases hk : nt.chan = c ∧ nt.id = i
  · rw [← hk.1, ← hk.2, ov_putTask_same] at ht
    simp at ht; subst ht
    rw [← hk.1, ← hk.2]; exact hnt ha
  · rw [ov_putTask_ne o db nt c i hk] at ht
    exact h c i t ht ha

/-- an ACTIVE upsert that the committed active index did not block -/
theorem binv_put_active (db V : State) (o : Ov) (CA CA' : List (Nat × Nat)) (nt : Task) (hdb : Inv db)
    (b : BInv db V o CA) (hsub : ∀ p ∈ CA, p ∈ CA')
    (hok : ∀ p ∈ CA', blockedKey db p.1 p.2 = false) (huq : ∀ p ∈ CA', ∀ q ∈ CA', p.1 = q.1 → p = q)
    (hact : nt.isActive = true) (hnb : blockedKey db nt.chan nt.id = false)
    (hprov : dbActive db nt.chan nt.id ∨ (nt.chan, nt.id) ∈ CA') :
    BInv db (applyWs V [W.setActive nt.chan nt.id, W.putTask nt]) (o.putTask nt) CA' := by
  have widen : ∀ c i, (dbActive db c i ∨ (c, i) ∈ CA) → (dbActive db c i ∨ (c, i) ∈ CA') := by
    intro c i h; rcases h with h | h
    · exact Or.inl h
    · exact Or.inr (hsub _ h)
  simp only [applyWs, List.foldl, applyW]
  refine ⟨keysUnique_put nt V.tasks b.ku, ?_, ?_, ?_, hok, huq⟩
  · intro x hx hxa
    rcases mem_putTaskRow nt x _ hx with rfl | ⟨hmem, hne⟩
    · simp [State.activeIdx?, find_putKV_same]
    · by_cases hch : x.chan = nt.chan
      · exfalso
        have hid : nt.id ≠ x.id := fun e => hne ⟨hch, e.symm⟩
        rcases widen _ _ (b.vprov x hmem hxa) with hx1 | hx1
        · rw [hch] at hx1
          have := blocked_of_dbActive db hdb nt.chan x.id nt.id hx1 hid
          rw [this] at hnb; cases hnb
        · rcases hprov with hp | hp
          · have := blocked_of_dbActive db hdb nt.chan nt.id x.id hp (fun e => hid e.symm)
            have h2 := hok _ hx1
            simp only at h2
            rw [hch, this] at h2; cases h2
          · have := huq _ hx1 _ hp hch
            simp at this
            exact hid this.2.symm
      · have hold := b.cov x hmem hxa
        simp only [State.activeIdx?] at hold ⊢
        rw [find_putKV_ne _ _ hch]
        exact hold
  · intro x hx hxa
    rcases mem_putTaskRow nt x _ hx with rfl | ⟨hmem, _⟩
    · exact hprov
    · exact widen _ _ (b.vprov x hmem hxa)
  · exact oprov_put db o CA' nt (fun c i t ht ha => widen _ _ (b.oprov c i t ht ha)) (fun _ => hprov)

/-- a NON-active upsert over a row that is active in the committed store: the index entry is deleted -/
theorem binv_put_del (db V : State) (o : Ov) (CA : List (Nat × Nat)) (nt : Task) (hdb : Inv db)
    (b : BInv db V o CA) (hact : nt.isActive = false) (he : dbActive db nt.chan nt.id) :
    BInv db (applyWs V [W.delActive nt.chan, W.putTask nt]) (o.putTask nt) CA := by
  simp only [applyWs, List.foldl, applyW]
  refine ⟨keysUnique_put nt V.tasks b.ku, ?_, ?_, ?_, b.caOk, b.caUniq⟩
  · intro x hx hxa
    rcases mem_putTaskRow nt x _ hx with rfl | ⟨hmem, hne⟩
    · rw [hact] at hxa; cases hxa
    · by_cases hch : x.chan = nt.chan
      · exfalso
        have hid : x.id ≠ nt.id := fun e => hne ⟨hch, e⟩
        rcases b.vprov x hmem hxa with hx1 | hx1
        · rw [hch] at hx1
          exact hid (dbActive_same_chan db hdb nt.chan x.id nt.id hx1 he)
        · have := blocked_of_dbActive db hdb nt.chan nt.id x.id he hid
          have h2 := b.caOk _ hx1
          simp only at h2
          rw [hch, this] at h2; cases h2
      · have hold := b.cov x hmem hxa
        simp only [State.activeIdx?] at hold ⊢
        rw [find_delKV_ne _ _ hch]
        exact hold
  · intro x hx hxa
    rcases mem_putTaskRow nt x _ hx with rfl | ⟨hmem, _⟩
    · rw [hact] at hxa; cases hxa
    · exact b.vprov x hmem hxa
  · exact oprov_put db o CA nt b.oprov (fun h => by rw [hact] at h; cases h)

theorem binv_put_plain (db V : State) (o : Ov) (CA : List (Nat × Nat)) (nt : Task)
    (b : BInv db V o CA) (hact : nt.isActive = false) :
    BInv db (applyWs V [W.putTask nt]) (o.putTask nt) CA := by
  simp only [applyWs, List.foldl, applyW]
  refine ⟨keysUnique_put nt V.tasks b.ku, ?_, ?_, ?_, b.caOk, b.caUniq⟩
  · intro x hx hxa
    rcases mem_putTaskRow nt x _ hx with rfl | ⟨hmem, _⟩
    · rw [hact] at hxa; cases hxa
    · exact b.cov x hmem hxa
  · intro x hx hxa
    rcases mem_putTaskRow nt x _ hx with rfl | ⟨hmem, _⟩
    · rw [hact] at hxa; cases hxa
    · exact b.vprov x hmem hxa
  · exact oprov_put db o CA nt b.oprov (fun h => by rw [hact] at h; cases h)


theorem binv_widen (db V : State) (o : Ov) (CA CA' : List (Nat × Nat)) (b : BInv db V o CA)
    (hsub : ∀ p ∈ CA, p ∈ CA') (hok : ∀ p ∈ CA', blockedKey db p.1 p.2 = false)
    (huq : ∀ p ∈ CA', ∀ q ∈ CA', p.1 = q.1 → p = q) : BInv db V o CA' where
  ku := b.ku
  cov := b.cov
  vprov := fun t ht ha => (b.vprov t ht ha).elim Or.inl (fun h => Or.inr (hsub _ h))
  oprov := fun c i t ht ha => (b.oprov c i t ht ha).elim Or.inl (fun h => Or.inr (hsub _ h))
  caOk := hok
  caUniq := huq

theorem dbActive_of_existing (db : State) (nt : Task) (h : existingActive db nt = true) : dbActive db nt.chan nt.id := by
  unfold existingActive at h
  split at h
  · rename_i e he; exact ⟨e, he, h⟩
  · cases h

/-- the writes of one upsert (computed against the COMMITTED store) applied to the virtual store -/
theorem binv_upsert (db V : State) (o : Ov) (CA : List (Nat × Nat)) (nt : Task) (ws : List W) (hdb : Inv db)
    (b : BInv db V o CA) (h : upsertWrites db nt = .ok ws)
    (hprov : nt.isActive = true → dbActive db nt.chan nt.id ∨ (nt.chan, nt.id) ∈ CA) :
    BInv db (applyWs V ws) (o.putTask nt) CA := by
  rcases upsert_shape db nt ws h with ⟨ha, hw, hb⟩ | ⟨ha, hw, he⟩ | ⟨ha, hw⟩
  · rw [hw]
    exact binv_put_active db V o CA CA nt hdb b (fun _ h => h) b.caOk b.caUniq ha (by rw [← activeBlocked_key]; exact hb) (hprov ha)
  · rw [hw]; exact binv_put_del db V o CA nt hdb b ha (dbActive_of_existing db nt he)
  · rw [hw]; exact binv_put_plain db V o CA nt b ha

theorem binv_putMeta (db V : State) (o : Ov) (CA : List (Nat × Nat)) (rc : Nat) (m m' : Meta) (b : BInv db V o CA) :
    BInv db (applyW V (W.putMeta rc m)) (o.putMeta rc m') CA where
  ku := b.ku
  cov := fun x hx ha => b.cov x hx ha
  vprov := fun x hx ha => b.vprov x hx ha
  oprov := fun c i t ht ha => b.oprov c i t ht ha
  caOk := b.caOk
  caUniq := b.caUniq

theorem binv_dels (db : State) (o : Ov) (CA : List (Nat × Nat)) (ws : List W) (hd : ∀ w ∈ ws, ∃ c i, w = W.delTask c i)
    (V : State) (b : BInv db V o CA) : BInv db (applyWs V ws) o CA := by
  induction ws generalizing V with
  | nil => exact b
  | cons w rest ih =>
    obtain ⟨c, i, rfl⟩ := hd w List.mem_cons_self
    simp only [applyWs, List.foldl]
    apply ih (fun w hw => hd w (List.mem_cons_of_mem _ hw))
    exact {
      ku := keysUnique_filter _ _ b.ku
      cov := fun x hx ha => b.cov x (List.mem_filter.mp hx).1 ha
      vprov := fun x hx ha => b.vprov x (List.mem_filter.mp hx).1 ha
      oprov := b.oprov
      caOk := b.caOk
      caUniq := b.caUniq }

theorem terminal_status (t : Task) : t.terminal = termSt t.status := rfl

theorem mutTaskOnly_status (c : Cmd) (t nt : Task) (h : mutTaskOnly c t = .ok nt) :
    nt.status = c.st ∧ (c.kind = .claim ∨ c.kind = .advance) := by
  unfold mutTaskOnly at h
  split at h
  · rename_i hk
    split at h
    · simp at h
    · simp at h; rw [← h]; exact ⟨rfl, Or.inl hk⟩
  · rename_i hk
    simp at h
    rw [← h]
    refine ⟨?_, Or.inr hk⟩
    split <;> split <;> rfl
  · simp at h


/-- what one closure does, for an arbitrary overlay -/
theorem runStaged_cases (db : State) (o o' : Ov) (op : Staged) (ws : List W) (h : runStaged db o op = .ok (o', ws)) :
    (ws = [] ∧ o' = o) ∨
    (∃ t, op = .createRow t ∧ upsertWrites db t = .ok ws ∧ o' = o.putTask t) ∨
    (∃ c t nt, op = .taskOnly c ∧ o.task? db c.g.chan c.g.id = some t ∧ c.g.matches t = true ∧
        mutTaskOnly c t = .ok nt ∧ upsertWrites db nt = .ok ws ∧ o' = o.putTask nt) ∨
    (∃ c t nt m nm0 ws' nm, op = .taskMeta c ∧ o.task? db c.g.chan c.g.id = some t ∧ c.g.matches t = true ∧
        mutate c t m = .ok (nt, nm0) ∧ (t.terminal = true → t = nt) ∧ upsertWrites db nt = .ok ws' ∧
        ws = ws' ++ [W.putMeta c.rg.chan (normMeta nm)] ∧ o' = (o.putTask nt).putMeta c.rg.chan nm) ∨
    (∃ b l, op = .gc b l ∧ ws = gcWrites db b l ∧ o' = o) := by
  cases op with
  | createRow t =>
    simp only [runStaged] at h
    split at h
    · split at h
      · simp at h; left; exact ⟨h.2, h.1.symm⟩
      · simp at h
    · split at h
      · simp at h
      · rename_i ws' hw
        simp at h
        right; left; exact ⟨t, rfl, by rw [← h.2]; exact hw, h.1.symm⟩
  | guardCreate t rg =>
    have := runStaged_guard db o o' t rg ws h
    left; exact ⟨this.2, this.1⟩
  | taskOnly c =>
    simp only [runStaged] at h
    split at h
    · simp at h
    · rename_i t ht
      split at h
      · simp at h
      · rename_i hg
        split at h
        · simp at h
        · split at h
          · simp at h
          · rename_i _ nt hmut _ ws' hw
            simp at h hg
            right; right; left
            exact ⟨c, t, nt, rfl, ht, hg, hmut, by rw [← h.2]; exact hw, h.1.symm⟩
  | taskMeta c =>
    simp only [runStaged] at h
    split at h
    · simp at h
    · rename_i t ht
      split at h
      · simp at h
      · rename_i m hm
        split at h
        · simp at h
        · rename_i nt nm0 hmut
          split at h
          · split at h
            · simp at h; left; exact ⟨h.2, h.1.symm⟩
            · simp at h
          · rename_i hg
            split at h
            · simp at h
            · rename_i hterm
              split at h
              · simp at h
              · split at h
                · simp at h
                · split at h
                  · simp at h
                  · rename_i ws' hw
                    simp at h hg hterm
                    right; right; right; left
                    exact ⟨c, t, nt, m, nm0, ws', _, rfl, ht, hg.1, hmut, hterm, hw, h.2.symm, h.1.symm⟩
  | gc b l =>
    simp [runStaged] at h
    right; right; right; right
    exact ⟨b, l, rfl, h.2.symm, h.1.symm⟩

def NRop : Staged → Prop
  | .taskOnly c => NoReact c
  | _ => True

theorem binv_step (db V : State) (o o' : Ov) (CA : List (Nat × Nat)) (op : Staged) (ws : List W) (hdb : Inv db)
    (b : BInv db V o CA) (h : runStaged db o op = .ok (o', ws)) (hnr : NRop op)
    (hfresh : ∀ t, op = .createRow t → t.isActive = true → ∀ p ∈ CA, p.1 ≠ t.chan) :
    ∃ CA', (∀ p ∈ CA, p ∈ CA') ∧
      (∀ p ∈ CA', p ∈ CA ∨ ∃ t, op = .createRow t ∧ t.isActive = true ∧ p = (t.chan, t.id)) ∧
      BInv db (applyWs V ws) o' CA' := by
  rcases runStaged_cases db o o' op ws h with ⟨hw, ho⟩ | ⟨t, rfl, hw, ho⟩ | ⟨c, t, nt, rfl, ht, hg, hmut, hw, ho⟩ |
      ⟨c, t, nt, m, nm0, ws', nm, rfl, ht, hg, hmut, hterm, hw, hws, ho⟩ | ⟨bb, l, rfl, hw, ho⟩
  · rw [hw, ho]; exact ⟨CA, fun _ h => h, fun _ h => Or.inl h, b⟩
  · -- create
    rw [ho]
    cases hact : t.isActive with
    | false =>
      refine ⟨CA, fun _ h => h, fun _ h => Or.inl h, ?_⟩
      exact binv_upsert db V o CA t ws hdb b hw (fun h => by rw [hact] at h; cases h)
    | true =>
      have hnb : blockedKey db t.chan t.id = false := by
        rcases upsert_shape db t ws hw with ⟨_, _, hb⟩ | ⟨ha, _, _⟩ | ⟨ha, _⟩
        · rw [← activeBlocked_key]; exact hb
        · rw [hact] at ha; cases ha
        · rw [hact] at ha; cases ha
      have hfr := hfresh t rfl hact
      have b' : BInv db V o ((t.chan, t.id) :: CA) := by
        apply binv_widen db V o CA _ b (fun p hp => List.mem_cons_of_mem _ hp)
        · intro p hp
          rcases List.mem_cons.mp hp with rfl | hp
          · exact hnb
          · exact b.caOk p hp
        · intro p hp q hq hpq
          rcases List.mem_cons.mp hp with rfl | hp <;> rcases List.mem_cons.mp hq with rfl | hq
          · rfl
          · exact absurd hpq.symm (hfr q hq)
          · exact absurd hpq (hfr p hp)
          · exact b.caUniq p hp q hq hpq
      refine ⟨(t.chan, t.id) :: CA, fun p hp => List.mem_cons_of_mem _ hp, ?_, ?_⟩
      · intro p hp
        rcases List.mem_cons.mp hp with rfl | hp
        · exact Or.inr ⟨t, rfl, hact, rfl⟩
        · exact Or.inl hp
      · exact binv_upsert db V o _ t ws hdb b' hw (fun _ => Or.inr List.mem_cons_self)
  · -- claim / advance
    rw [ho]
    refine ⟨CA, fun _ h => h, fun _ h => Or.inl h, ?_⟩
    have hk := mutTaskOnly_key c t nt hmut
    have hgk := guard_key c.g t hg
    have hst := mutTaskOnly_status c t nt hmut
    apply binv_upsert db V o CA nt ws hdb b hw
    intro hna
    have hta : t.isActive = true := by
      cases hx : t.isActive with
      | true => rfl
      | false =>
        exfalso
        have hterm : t.terminal = true := by simp [Task.isActive] at hx; exact hx
        have hgs : t.status = c.g.est := by
          simp [Guard.matches] at hg; exact hg.1.1.1.1.2
        apply hnr hst.2
        constructor
        · rw [← hgs, ← terminal_status]; exact hterm
        · rw [← hst.1, ← terminal_status]
          simp [Task.isActive] at hna; exact hna
    rw [hk.1, hk.2, hgk.1, hgk.2]
    exact b.oprov _ _ t ht hta
  · -- task + meta
    rw [ho, hws, applyWs_append]
    refine ⟨CA, fun _ h => h, fun _ h => Or.inl h, ?_⟩
    have hk := mutate_key c t nt m nm0 hmut
    have hgk := guard_key c.g t hg
    apply binv_putMeta
    apply binv_upsert db V o CA nt ws' hdb b hw
    intro hna
    have hta : t.isActive = true := by
      cases hx : t.isActive with
      | true => rfl
      | false =>
        exfalso
        have hterm' : t.terminal = true := by simp [Task.isActive] at hx; exact hx
        rw [← hterm hterm'] at hna
        rw [hx] at hna; cases hna
    rw [hk.1, hk.2.1, hgk.1, hgk.2]
    exact b.oprov _ _ t ht hta
  · rw [hw, ho]
    exact ⟨CA, fun _ h => h, fun _ h => Or.inl h, binv_dels db o CA _ (gc_dels db bb l) V b⟩


/-- two staged ACTIVE creates never name the same channel -/
def CreatesDistinct (ops : List Staged) : Prop :=
  ops.Pairwise (fun a b => ∀ ta tb, a = .createRow ta → b = .createRow tb → ta.isActive = true → tb.isActive = true → ta.chan ≠ tb.chan)

theorem binv_commit (db : State) (hdb : Inv db) (ops : List Staged) :
    ∀ (V : State) (o : Ov) (CA : List (Nat × Nat)) (ws : List W), BInv db V o CA →
      commitStaged db o ops = .ok ws → (∀ op ∈ ops, NRop op) → CreatesDistinct ops →
      (∀ p ∈ CA, ∀ t, Staged.createRow t ∈ ops → t.isActive = true → p.1 ≠ t.chan) →
      ∃ o' CA', BInv db (applyWs V ws) o' CA' := by
  induction ops with
  | nil =>
    intro V o CA ws b h _ _ _
    simp [commitStaged] at h
    rw [h]; exact ⟨o, CA, b⟩
  | cons op rest ih =>
    intro V o CA ws b h hnr hd hfr
    simp only [commitStaged] at h
    split at h
    · simp at h
    · rename_i o1 ws1 hr
      split at h
      · simp at h
      · rename_i ws2 hc
        simp at h
        rw [← h, applyWs_append]
        unfold CreatesDistinct at hd
        rw [List.pairwise_cons] at hd
        obtain ⟨CA1, hsub, horig, b1⟩ := binv_step db V o o1 CA op ws1 hdb b hr (hnr op List.mem_cons_self)
          (fun t ht ha p hp => hfr p hp t (by rw [ht]; exact List.mem_cons_self) ha)
        apply ih (applyWs V ws1) o1 CA1 ws2 b1 hc (fun x hx => hnr x (List.mem_cons_of_mem _ hx)) hd.2
        intro p hp t ht ha
        rcases horig p hp with hp | ⟨t0, hop, ha0, rfl⟩
        · exact hfr p hp t (List.mem_cons_of_mem _ ht) ha
        · exact hd.1 (.createRow t) ht t0 t hop rfl ha0 ha

/-! staging: what the WriteBatch queues -/

/-- WriteBatch bookkeeping invariant: every staged active create has its channel in `activeChans`,
    and staged active creates name pairwise different channels -/
def WBInv (wb : WB) : Prop :=
  (∀ t, Staged.createRow t ∈ wb.staged → t.isActive = true → t.chan ∈ wb.activeChans) ∧ CreatesDistinct wb.staged

theorem pairwise_append_single {α : Type} (R : α → α → Prop) (l : List α) (x : α) (h : l.Pairwise R) (hx : ∀ a ∈ l, R a x) :
    (l ++ [x]).Pairwise R := by
  rw [List.pairwise_append]
  exact ⟨h, List.pairwise_singleton R x, fun a ha b hb => by simp at hb; rw [hb]; exact hx a ha⟩

theorem wbinv_append_other (wb : WB) (op : Staged) (h : WBInv wb) (hop : ∀ t, op ≠ .createRow t) :
    WBInv { wb with staged := wb.staged ++ [op] } := by
  constructor
  · intro t ht ha
    simp at ht
    rcases ht with ht | ht
    · exact h.1 t ht ha
    · exact absurd ht.symm (hop t)
  · apply pairwise_append_single _ _ _ h.2
    intro a _ ta tb _ hb
    exact absurd hb (hop tb)

theorem stageCreate_inv (wb wb' : WB) (t : Task) (h : WBInv wb) (hs : stageCreate wb t = .ok wb') :
    WBInv wb' ∧ (∀ op ∈ wb'.staged, op ∈ wb.staged ∨ op = .createRow t) := by
  unfold stageCreate at hs
  split at hs
  · simp at hs
  · split at hs
    · split at hs
      · simp at hs; rw [← hs]; exact ⟨h, fun op hop => Or.inl hop⟩
      · simp at hs
    · split at hs
      · simp at hs
      · rename_i hna
        simp at hs
        rw [← hs]
        refine ⟨⟨?_, ?_⟩, ?_⟩
        · intro t' ht' ha'
          simp at ht'
          rcases ht' with ht' | ht'
          · have := h.1 t' ht' ha'
            simp only
            split
            · exact List.mem_cons_of_mem _ this
            · exact this
          · rw [ht'] at ha' ⊢
            simp [ha']
        · apply pairwise_append_single _ _ _ h.2
          intro a ha ta tb hta htb hact hbct
          simp at htb; subst htb
          subst hta
          have hin := h.1 ta ha hact
          intro hch
          simp at hna
          have := hna hbct
          rw [hch] at hin
          exact this hin
        · intro op hop
          simp at hop
          rcases hop with hop | hop
          · exact Or.inl hop
          · exact Or.inr hop


def WBok (wb : WB) : Prop := WBInv wb ∧ ∀ op ∈ wb.staged, NRop op

theorem wbok_append_other (wb : WB) (op : Staged) (h : WBok wb) (hop : ∀ t, op ≠ .createRow t) (hnr : NRop op) :
    WBok { wb with staged := wb.staged ++ [op] } := by
  refine ⟨wbinv_append_other wb op h.1 hop, ?_⟩
  intro x hx
  simp at hx
  rcases hx with hx | hx
  · exact h.2 x hx
  · rw [hx]; exact hnr

theorem stageCreate_ok (wb wb' : WB) (t : Task) (h : WBok wb) (hs : stageCreate wb t = .ok wb') : WBok wb' := by
  have := stageCreate_inv wb wb' t h.1 hs
  refine ⟨this.1, ?_⟩
  intro op hop
  rcases this.2 op hop with h1 | h1
  · exact h.2 op h1
  · rw [h1]; trivial

theorem stageCmd_ok (wb : WB) (c : Cmd) (h : WBok wb) (hnr : NoReact c) : WBok (stageCmd wb c).1 := by
  unfold stageCmd
  cases hk : c.kind
  case create =>
    simp only
    split
    · rename_i wb' hs; exact stageCreate_ok wb wb' c.task h hs
    · exact h
  case createg =>
    simp only
    split
    · exact h
    · have h1 : WBok { wb with staged := wb.staged ++ [Staged.guardCreate c.task c.rg] } :=
        wbok_append_other wb _ h (fun t => by simp) trivial
      split
      · rename_i wb' hs; exact stageCreate_ok _ wb' c.task h1 hs
      · exact h1
  case claim =>
    simp only
    split
    · exact h
    · exact wbok_append_other wb _ h (fun t => by simp) hnr
  case advance =>
    simp only
    exact wbok_append_other wb _ h (fun t => by simp) hnr
  all_goals
    simp only
    split
    · exact h
    · exact wbok_append_other wb _ h (fun t => by simp) trivial

theorem stageAll_ok (cs : List Cmd) : ∀ (wb wb' : WB) (rs : List (Option String)), WBok wb → (∀ c ∈ cs, NoReact c) →
    stageAll wb cs = .ok (wb', rs) → WBok wb' := by
  induction cs with
  | nil => intro wb wb' rs h _ hs; simp [stageAll] at hs; rw [← hs.1]; exact h
  | cons c rest ih =>
    intro wb wb' rs h hnr hs
    have h1 := stageCmd_ok wb c h (hnr c List.mem_cons_self)
    simp only [stageAll] at hs
    split at hs
    · rename_i wb1 heq
      have e : wb1 = (stageCmd wb c).1 := by rw [heq]
      split at hs
      · simp at hs
      · rename_i wb2 rs2 hr
        simp at hs
        rw [← hs.1]
        exact ih wb1 wb2 rs2 (by rw [e]; exact h1) (fun x hx => hnr x (List.mem_cons_of_mem _ hx)) hr
    · rename_i wb1 e0 heq
      have e : wb1 = (stageCmd wb c).1 := by rw [heq]
      split at hs
      · split at hs
        · simp at hs
        · rename_i wb2 rs2 hr
          simp at hs
          rw [← hs.1]
          exact ih wb1 wb2 rs2 (by rw [e]; exact h1) (fun x hx => hnr x (List.mem_cons_of_mem _ hx)) hr
      · simp at hs

theorem wbok_empty : WBok {} := ⟨⟨fun t ht _ => (by cases ht), List.Pairwise.nil⟩, fun op hop => (by cases hop)⟩

/-- ONE multi-command ApplyBatch that commits as a whole keeps the invariant, provided none of its
    commands re-activates a terminal row -/
theorem inv_applyOnce (db s' : State) (cs : List Cmd) (rs : List String) (hdb : Inv db) (hnr : ∀ c ∈ cs, NoReact c)
    (h : applyOnce db cs = .ok (s', rs)) : Inv s' := by
  unfold applyOnce at h
  split at h
  · simp at h
  · rename_i wb rs0 hst
    split at h
    · simp at h
    · rename_i ws hc
      simp at h
      rw [← h.1]
      have hwb := stageAll_ok cs {} wb rs0 wbok_empty hnr hst
      obtain ⟨o', CA', b⟩ := binv_commit db hdb wb.staged db {} [] ws (binv_start db hdb) hc hwb.2 hwb.1.2
        (fun p hp => by cases hp)
      exact ⟨b.ku, b.cov⟩

theorem inv_applyIndividually (cs : List Cmd) (db : State) (h : Inv db) : Inv (applyIndividually db cs).1 := by
  induction cs generalizing db with
  | nil => exact h
  | cons c rest ih =>
    simp only [applyIndividually]
    have h1 := inv_applySingle db c h
    split
    · rename_i db' e heq
      rw [heq] at h1; exact h1
    · rename_i db' r heq
      rw [heq] at h1
      have h2 := ih db' h1
      split
      · rename_i db'' e heq2
        rw [heq2] at h2; exact h2
      · rename_i db'' rs heq2
        rw [heq2] at h2; exact h2

theorem inv_applyBatch (db : State) (cs : List Cmd) (hdb : Inv db) (hnr : cs.length ≥ 2 → ∀ c ∈ cs, NoReact c) :
    Inv (applyBatch db cs).1 := by
  unfold applyBatch
  split
  · rename_i c
    have h1 := inv_applySingle db c hdb
    split
    · rename_i db' r heq; rw [heq] at h1; exact h1
    · rename_i db' e heq; rw [heq] at h1; exact h1
  · rename_i hne
    split
    · rename_i db' rs heq
      by_cases hl : cs.length ≥ 2
      · exact inv_applyOnce db db' cs rs hdb (hnr hl) heq
      · -- 0 commands: nothing staged
        have : cs = [] := by
          match cs, hl, hne with
          | [], _, _ => rfl
          | [c], _, hne => exact absurd rfl (hne c)
          | _ :: _ :: _, hl, _ => simp at hl
        subst this
        simp [applyOnce, stageAll, commitStaged, applyWs] at heq
        rw [← heq.1]; exact hdb
    · split
      · exact inv_applyIndividually cs db hdb
      · exact hdb


theorem inv_stepLine_batch (s : State) (l : Line) (h : Inv s)
    (hnr : ∀ cs, l = .batch cs → cs.length ≥ 2 → ∀ c ∈ cs, NoReact c) : Inv (stepLine s l) := by
  cases l with
  | setmeta c m => exact inv_setMeta s c m h
  | batch cs => exact inv_applyBatch s cs h (hnr cs rfl)

/-- **At most one active task per channel — multi-command batches included.**  After ANY history of
    ApplyBatch calls (any number of commands per call, including the stale-commit one-by-one
    fallback) and metadata writes, every channel has at most one active task and the active index
    names it — provided no MULTI-command batch contains a free-form Claim/Advance whose guard expects
    a terminal status and which asks for a non-terminal one (`NoReact`: the same-batch re-activation,
    the one exception, see `c17_one_active_batch_counterexample`).  Single-command calls are unrestricted. -/
theorem c17_one_active_batches (ls : List Line)
    (hnr : ∀ l ∈ ls, ∀ cs, l = .batch cs → cs.length ≥ 2 → ∀ c ∈ cs, NoReact c) :
    (run State.empty ls).oneActive = true ∧ Covers (run State.empty ls) := by
  suffices h : ∀ s : State, Inv s → Inv (run s ls) from
    ⟨oneActive_of_inv _ (h _ inv_empty), (h _ inv_empty).2⟩
  induction ls with
  | nil => intro s h; exact h
  | cons l rest ih =>
    intro s h
    simp only [run, List.foldl]
    exact ih (fun l' hl' => hnr l' (List.mem_cons_of_mem _ hl')) _ (inv_stepLine_batch s l h (hnr l List.mem_cons_self))

/-- non-vacuity: two active creates for one channel in ONE batch — the second is answered stale at
    staging time, one task ends up active -/
example : NoReact (exCreate (exTask 1 1 1 1 1)) ∧
    ((run State.empty [.batch [exCreate (exTask 1 1 1 1 1), exCreate (exTask 1 2 3 1 1)]]).activeOn 1).length = 1 := by
  refine ⟨fun h => ?_, by decide⟩
  rcases h with h | h <;> cases h

/-- the excluded command is exactly the one of the counterexample -/
example : ¬ NoReact exReactivate := by
  intro h
  exact h (Or.inr rfl) ⟨by decide, by decide⟩


/-! ## the per-closure theorems for an ARBITRARY overlay (any position inside any multi-command commit)

  Inside a commit a closure reads the task row and the metadata row through the overlay `o`
  (committed store + what earlier closures of the same commit wrote).  The three per-step
  properties hold relative to that view, wherever the closure sits in the batch. -/

theorem runStaged_taskMeta_view (db : State) (o o' : Ov) (c : Cmd) (ws : List W)
    (h : runStaged db o (.taskMeta c) = .ok (o', ws)) (hw : ws ≠ []) :
    ∃ t nt m nm0, o.task? db c.g.chan c.g.id = some t ∧ o.meta? db c.rg.chan = some m ∧
      mutate c t m = .ok (nt, nm0) ∧ c.g.matches t = true ∧ c.rg.matches m = true ∧
      ∃ ws', upsertWrites db nt = .ok ws' ∧
        ws = ws' ++ [W.putMeta c.rg.chan (normMeta (bumpRoute m (normMeta nm0)))] := by
  simp only [runStaged] at h
  split at h
  · simp at h
  · rename_i t ht
    split at h
    · simp at h
    · rename_i m hm
      split at h
      · simp at h
      · rename_i nt nm0 hmut
        split at h
        · split at h
          · simp at h; exact absurd h.2 hw
          · simp at h
        · rename_i hg
          split at h
          · simp at h
          · split at h
            · simp at h
            · split at h
              · simp at h
              · split at h
                · simp at h
                · rename_i ws' hw'
                  simp at h hg
                  exact ⟨t, nt, m, nm0, ht, hm, hmut, hg.1, hg.2, ws', hw', h.2.symm⟩

/-- a cutover closure that writes anything saw a task row whose stored proof equals the metadata row it saw -/
theorem c17_commit_needs_proof_in_batch (db : State) (o o' : Ov) (c : Cmd) (ws : List W)
    (hk : c.kind = .commit ∨ c.kind = .promote)
    (h : runStaged db o (.taskMeta c) = .ok (o', ws)) (hw : ws ≠ []) :
    ∃ t m, o.task? db c.g.chan c.g.id = some t ∧ o.meta? db c.rg.chan = some m ∧
      proofMatches t m = true ∧ c.rg.efver = m.fver ∧ c.rg.matches m = true ∧ c.g.matches t = true := by
  obtain ⟨t, nt, m, nm0, ht, hm, hmut, hg, hrg, _⟩ := runStaged_taskMeta_view db o o' c ws h hw
  refine ⟨t, m, ht, hm, ?_, ?_, hrg, hg⟩
  · rcases hk with hk | hk
    · simp only [mutate, hk] at hmut; exact (mutCommit_ok c t nt m nm0 hmut).1
    · simp only [mutate, hk] at hmut; exact (mutPromote_ok c t nt m nm0 hmut).1
  · rcases hk with hk | hk
    · simp only [mutate, hk] at hmut; exact (mutCommit_ok c t nt m nm0 hmut).2.1
    · simp only [mutate, hk] at hmut; exact (mutPromote_ok c t nt m nm0 hmut).2.1

/-- an abort closure aimed at a row that (as the closure sees it) is not abortable writes nothing -/
theorem c17_abort_refused_in_batch (db : State) (o o' : Ov) (c : Cmd) (ws : List W) (hk : c.kind = .abort)
    (hsafe : ∀ t, o.task? db c.g.chan c.g.id = some t → t.abortable = false)
    (h : runStaged db o (.taskMeta c) = .ok (o', ws)) : ws = [] := by
  by_cases hw : ws = []
  · exact hw
  · exfalso
    obtain ⟨t, nt, m, nm0, ht, _, hmut, _⟩ := runStaged_taskMeta_view db o o' c ws h hw
    simp only [mutate, hk] at hmut
    have := mutAbort_needs_abortable c t nt m nm0 hmut
    rw [hsafe t ht] at this; cases this

/-- a closure whose two guards name one channel writes back the fence it saw unless its task owns it -/
theorem c17_foreign_fence_in_batch (db : State) (o o' : Ov) (c : Cmd) (ws : List W) (m : Meta)
    (hm : o.meta? db c.rg.chan = some m) (hf : m.ftok ≠ 0) (hforeign : m.ftok ≠ c.g.id)
    (h : runStaged db o (.taskMeta c) = .ok (o', ws)) :
    ∀ x nm, W.putMeta x nm ∈ ws → x = c.rg.chan ∧ nm.fence = m.fence := by
  intro x nm hmem
  have hw : ws ≠ [] := fun e => by rw [e] at hmem; cases hmem
  obtain ⟨t, nt, m', nm0, ht, hm', hmut, hg, _, ws', hup, hws⟩ := runStaged_taskMeta_view db o o' c ws h hw
  rw [hm] at hm'; simp at hm'; subst hm'
  rw [hws] at hmem
  rcases List.mem_append.mp hmem with hmem | hmem
  · exfalso
    rcases upsert_shape db nt ws' hup with ⟨_, hw', _⟩ | ⟨_, hw', _⟩ | ⟨_, hw'⟩ <;> (rw [hw'] at hmem; simp at hmem)
  · simp at hmem
    refine ⟨hmem.1, ?_⟩
    rw [hmem.2, fence_norm_bump]
    have k2 := guard_key c.g t hg
    exact mutate_foreign c t nt m nm0 hmut hf (by rw [k2.2]; exact hforeign)


def exPreCommit : State := run State.empty [.setmeta 1 exFencedMeta, .batch [exCreate exDrained]]

/-- non-vacuity: the commit closure writes (index + task row + metadata row); the abort closure after it writes nothing -/
example : (match runStaged exPreCommit {} (.taskMeta exCommit) with | .ok (_, ws) => ws.length | .error _ => 0) = 3 := by decide
example : (match runStaged exCommitted {} (.taskMeta (exAbort 11 7 2 2 1 1)) with | .ok (_, ws) => ws.length | .error _ => 99) = 99 := by decide

end WK.C17

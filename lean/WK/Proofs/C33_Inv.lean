import WK.Proofs.C33_Expire
/-
  C33: slot invariant (index + tombstone fence) is preserved by every slot
  operation; tombstones only grow within one authority incarnation.
-/
namespace WK.C33

def TombInv (s : Slot) : Prop :=
  ∀ k t, aget k s.tomb = some t →
    (∀ r ∈ s.active, r.key = k → t < r.seq) ∧ (∀ p ∈ s.pending, p.route.key = k → t < p.route.seq)

structure SlotInv (s : Slot) : Prop where
  idx : SlotIdx s
  tomb : TombInv s

def TombMono (s s' : Slot) : Prop :=
  ∀ k t, aget k s.tomb = some t → ∃ t', aget k s'.tomb = some t' ∧ t ≤ t'

theorem TombMono.refl (s : Slot) : TombMono s s := fun _ t h => ⟨t, h, Nat.le_refl _⟩
theorem TombMono.of_eq {s s' : Slot} (h : s'.tomb = s.tomb) : TombMono s s' := by
  intro k t hk; exact ⟨t, by rw [h]; exact hk, Nat.le_refl _⟩
theorem TombMono.trans {a b c : Slot} (h1 : TombMono a b) (h2 : TombMono b c) : TombMono a c := by
  intro k t hk
  obtain ⟨t1, h11, h12⟩ := h1 k t hk
  obtain ⟨t2, h21, h22⟩ := h2 k t1 h11
  exact ⟨t2, h21, Nat.le_trans h12 h22⟩

@[simp] theorem normalize_key (r : Route) : (normalize r).key = r.key := by
  unfold normalize; split <;> rfl
@[simp] theorem normalize_seq (r : Route) : (normalize r).seq = r.seq := by
  unfold normalize; split <;> rfl
@[simp] theorem withSeen_key (r : Route) (x : Int) : (r.withSeen x).key = r.key := rfl
@[simp] theorem withSeen_seq (r : Route) (x : Int) : (r.withSeen x).seq = r.seq := rfl
@[simp] theorem withSeen_uid (r : Route) (x : Int) : (r.withSeen x).uid = r.uid := rfl
@[simp] theorem normalize_uid (r : Route) : (normalize r).uid = r.uid := by
  unfold normalize; split <;> rfl

theorem staleFor_false {s : Slot} {k : Key} {q : Nat} (h : s.staleFor k q = false) :
    ∀ t, aget k s.tomb = some t → t < q := by
  intro t ht
  unfold Slot.staleFor at h
  rw [ht] at h
  simp at h
  omega

theorem tombInv_upsert {s : Slot} {r : Route} (h : TombInv s)
    (hg : ∀ t, aget r.key s.tomb = some t → t < r.seq) : TombInv (s.upsert r) := by
  intro k t hk
  rw [upsert_tomb] at hk
  obtain ⟨h1, h2⟩ := h k t hk
  refine ⟨?_, by rw [upsert_pending]; exact h2⟩
  intro r' hr' hkey
  rw [upsert_active] at hr'
  rcases List.mem_append.mp hr' with hr' | hr'
  · exact h1 r' (mem_delA.mp hr').1 hkey
  · simp at hr'; subst hr'
    simp at hkey ⊢
    exact hg t (hkey ▸ hk)

theorem tombInv_removeActive {s : Slot} (k : Key) (h : TombInv s) : TombInv (s.removeActive k) := by
  intro k' t hk
  rw [removeActive_tomb] at hk
  obtain ⟨h1, h2⟩ := h k' t hk
  refine ⟨?_, by rw [removeActive_pending]; exact h2⟩
  intro r hr
  rw [removeActive_active] at hr
  exact h1 r (mem_delA.mp hr).1

theorem slotInv_removeActive {s : Slot} (k : Key) (h : SlotInv s) : SlotInv (s.removeActive k) :=
  ⟨slotIdx_removeActive k h.idx, tombInv_removeActive k h.tomb⟩

/-! #### register -/

theorem register_tomb (s : Slot) (r : Route) : (s.register r).1.tomb = s.tomb := by
  unfold Slot.register
  simp only
  split
  · rfl
  · split <;> simp

theorem slotInv_register {s : Slot} (r : Route) (h : SlotInv s) : SlotInv (s.register r).1 := by
  unfold Slot.register
  simp only
  split
  · exact h
  · rename_i hst
    simp only [Bool.not_eq_true] at hst
    have hg := staleFor_false hst
    split
    · refine ⟨slotIdx_upsert _ h.idx, ?_⟩
      apply tombInv_upsert (s := { s with ownerSeq := aset r.key r.seq s.ownerSeq }) h.tomb
      simpa using hg
    · refine ⟨h.idx, ?_⟩
      intro k t hk
      obtain ⟨h1, h2⟩ := h.tomb k t hk
      refine ⟨h1, ?_⟩
      intro p hp hkey
      simp only [List.mem_append, List.mem_singleton] at hp
      rcases hp with hp | hp
      · exact h2 p hp hkey
      · subst hp
        simp at hkey ⊢
        exact hg t (hkey ▸ hk)

/-! #### commit / abort -/

theorem removeAll_inv (ks : List Key) : ∀ s : Slot, SlotInv s →
    SlotInv (removeAll s ks) ∧ (removeAll s ks).tomb = s.tomb ∧ (removeAll s ks).pending = s.pending ∧
    (removeAll s ks).ownerSeq = s.ownerSeq ∧ (removeAll s ks).target = s.target ∧ (removeAll s ks).nextID = s.nextID ∧
    (∀ r ∈ (removeAll s ks).active, r ∈ s.active) := by
  induction ks with
  | nil => intro s h; exact ⟨h, rfl, rfl, rfl, rfl, rfl, fun _ hr => hr⟩
  | cons k ks ih =>
    intro s h
    unfold removeAll
    split
    · obtain ⟨g1, g2, g3, g4, g5, g6, g7⟩ := ih (s.removeActive k) (slotInv_removeActive k h)
      refine ⟨g1, by simpa using g2, by simpa using g3, by simpa using g4, by simpa using g5, by simpa using g6, ?_⟩
      intro r hr
      have := g7 r hr
      rw [removeActive_active] at this
      exact (mem_delA.mp this).1
    · exact ih s h

theorem delP_sub {tok : String} {l : List Pending} {p : Pending} (h : p ∈ delP tok l) : p ∈ l := by
  unfold delP at h; exact (List.mem_filter.mp h).1

theorem findP_mem {tok : String} {l : List Pending} {p : Pending} (h : findP tok l = some p) : p ∈ l :=
  List.mem_of_find?_eq_some h

theorem removeAll_tomb (ks : List Key) : ∀ s : Slot, (removeAll s ks).tomb = s.tomb := by
  induction ks with
  | nil => intro s; rfl
  | cons k ks ih => intro s; unfold removeAll; split <;> simp [ih]

theorem commit_tomb (s : Slot) (tok : String) : (s.commit tok).1.tomb = s.tomb := by
  unfold Slot.commit
  split
  · rfl
  · simp only
    split
    · rfl
    · split
      · rfl
      · simp only [upsert_tomb, removeAll_tomb]

theorem slotInv_commit {s : Slot} (tok : String) (h : SlotInv s) : SlotInv (s.commit tok).1 := by
  unfold Slot.commit
  split
  · exact h
  · rename_i p hp
    simp only
    split
    · refine ⟨h.idx, ?_⟩
      intro k t hk
      obtain ⟨h1, h2⟩ := h.tomb k t hk
      exact ⟨h1, fun q hq => h2 q (delP_sub hq)⟩
    · rename_i hst
      split
      · exact h
      · simp only [Bool.not_eq_true] at hst
        have hg := staleFor_false hst
        obtain ⟨g1, g2, g3, g4, g5, g6, g7⟩ := removeAll_inv p.conflicts s h
        have hu : SlotInv ((removeAll s p.conflicts).upsert p.route) := by
          refine ⟨slotIdx_upsert _ g1.idx, tombInv_upsert g1.tomb ?_⟩
          rw [g2]; exact hg
        refine ⟨hu.idx, ?_⟩
        intro k t hk
        obtain ⟨h1, h2⟩ := hu.tomb k t hk
        exact ⟨h1, fun q hq => h2 q (delP_sub hq)⟩

theorem abort_tomb (s : Slot) (tok : String) : (s.abort tok).1.tomb = s.tomb := by
  unfold Slot.abort; split <;> rfl

theorem slotInv_abort {s : Slot} (tok : String) (h : SlotInv s) : SlotInv (s.abort tok).1 := by
  unfold Slot.abort
  split
  · exact h
  · refine ⟨h.idx, ?_⟩
    intro k t hk
    obtain ⟨h1, h2⟩ := h.tomb k t hk
    exact ⟨h1, fun q hq => h2 q (delP_sub hq)⟩

/-! #### unregister -/

theorem unregActive_frame (s : Slot) (k : Key) (seq : Nat) :
    (s.unregActive k seq).tomb = s.tomb ∧ (s.unregActive k seq).pending = s.pending ∧
    (∀ r ∈ (s.unregActive k seq).active, r ∈ s.active) := by
  unfold Slot.unregActive
  split
  · split
    · exact ⟨by simp, by simp, fun r hr => (mem_delA.mp (by simpa using hr)).1⟩
    · exact ⟨rfl, rfl, fun _ h => h⟩
  · exact ⟨rfl, rfl, fun _ h => h⟩

theorem unregister_tomb (s : Slot) (k : Key) (seq : Nat) : (s.unregister k seq).tomb = tombAfter s.tomb k seq := by
  unfold Slot.unregister Slot.unregPending
  simp only
  rw [(unregActive_frame _ k seq).1]
  rfl

theorem tombAfter_get (m : List (Key × Nat)) (k : Key) (seq : Nat) :
    ∃ t', aget k (tombAfter m k seq) = some t' ∧ seq ≤ t' ∧
      (∀ t, aget k m = some t → t ≤ t') ∧ (t' = seq ∨ aget k m = some t') := by
  unfold tombAfter
  cases h : aget k m with
  | none => exact ⟨seq, by simp [aget_aset], Nat.le_refl _, by simp, Or.inl rfl⟩
  | some t =>
    simp only
    by_cases hq : seq > t
    · simp only [hq, if_true]
      refine ⟨seq, by simp [aget_aset], Nat.le_refl _, ?_, Or.inl rfl⟩
      intro t0 h0; cases h0; omega
    · simp only [hq, if_false]
      refine ⟨t, h, by omega, ?_, Or.inr rfl⟩
      intro t0 h0; cases h0; exact Nat.le_refl _

theorem tombAfter_other (m : List (Key × Nat)) (k k' : Key) (seq : Nat) (hne : k' ≠ k) :
    aget k' (tombAfter m k seq) = aget k' m := by
  unfold tombAfter
  cases h : aget k m with
  | none => simp [aget_aset, hne]
  | some t => simp only; split <;> simp [aget_aset, hne]

theorem unregister_tombMono (s : Slot) (k : Key) (seq : Nat) : TombMono s (s.unregister k seq) := by
  intro k' t hk
  rw [unregister_tomb]
  by_cases hne : k' = k
  · subst hne
    obtain ⟨t', h1, _, h3, _⟩ := tombAfter_get s.tomb k' seq
    exact ⟨t', h1, h3 t hk⟩
  · exact ⟨t, by rw [tombAfter_other s.tomb k k' seq hne]; exact hk, Nat.le_refl _⟩

theorem unregister_sets_tomb (s : Slot) (k : Key) (seq : Nat) :
    ∃ t', aget k (s.unregister k seq).tomb = some t' ∧ seq ≤ t' := by
  rw [unregister_tomb]
  obtain ⟨t', h1, h2, _⟩ := tombAfter_get s.tomb k seq
  exact ⟨t', h1, h2⟩

theorem slotInv_unregister {s : Slot} (k : Key) (seq : Nat) (h : SlotInv s) : SlotInv (s.unregister k seq) := by
  -- stage 1+2 only touch tomb / ownerSeq
  let s2 := (s.unregTomb k seq).unregSeq k seq
  have hidx2 : SlotIdx s2 := h.idx
  have hact2 : s2.active = s.active := rfl
  have hpend2 : s2.pending = s.pending := rfl
  have htomb2 : s2.tomb = tombAfter s.tomb k seq := rfl
  have hidx3 : SlotIdx (s2.unregActive k seq) := by
    unfold Slot.unregActive
    split
    · split
      · exact slotIdx_removeActive k hidx2
      · exact hidx2
    · exact hidx2
  obtain ⟨f1, f2, f3⟩ := unregActive_frame s2 k seq
  refine ⟨hidx3, ?_⟩
  intro k' t hk
  have hk' : aget k' (tombAfter s.tomb k seq) = some t := by
    have : (s.unregister k seq).tomb = tombAfter s.tomb k seq := unregister_tomb s k seq
    rw [this] at hk; exact hk
  show (∀ r ∈ (s2.unregActive k seq).active, r.key = k' → t < r.seq) ∧
       (∀ p ∈ ((s2.unregActive k seq).pending.filter (fun p => !(p.route.key = k ∧ p.route.seq ≤ seq))),
          p.route.key = k' → t < p.route.seq)
  rw [f2, hpend2]
  by_cases hne : k' = k
  · subst hne
    obtain ⟨t', h1, h2, h3, h4⟩ := tombAfter_get s.tomb k' seq
    rw [h1] at hk'; cases hk'
    constructor
    · intro r hr hkey
      rcases h4 with h4 | h4
      · subst h4
        unfold Slot.unregActive at hr
        cases hf : findA k' s2.active with
        | none =>
          rw [hf] at hr
          exact absurd hkey (findA_none hf r hr)
        | some e =>
          rw [hf] at hr
          simp only at hr
          by_cases hq : e.seq ≤ t
          · simp only [hq, if_true, removeActive_active] at hr
            exact absurd hkey (mem_delA.mp hr).2
          · simp only [hq, if_false] at hr
            obtain ⟨hem, hek⟩ := findA_some hf
            have : r = e := nodup_key_unique hidx2.nodup hr hem (hkey.trans hek.symm)
            subst this; omega
      · exact (h.tomb k' t h4).1 r (hact2 ▸ f3 r hr) hkey
    · intro p hp' hkey
      obtain ⟨hpm, hpc⟩ := List.mem_filter.mp hp'
      simp only [hkey, true_and, Bool.not_eq_eq_eq_not, Bool.not_true, decide_eq_false_iff_not] at hpc
      rcases h4 with h4 | h4
      · subst h4; omega
      · exact (h.tomb k' t h4).2 p hpm hkey
  · rw [tombAfter_other s.tomb k k' seq hne] at hk'
    obtain ⟨h1, h2⟩ := h.tomb k' t hk'
    exact ⟨fun r hr => h1 r (hact2 ▸ f3 r hr), fun p hp' => h2 p (List.mem_filter.mp hp').1⟩

/-! #### touch -/

theorem touch_tomb (s : Slot) (r : Route) : (s.touch r).tomb = s.tomb := by
  unfold Slot.touch
  split
  · rfl
  · simp only
    split
    · rfl
    · split
      · simp
      · split <;> simp

theorem slotInv_touch {s : Slot} (r : Route) (h : SlotInv s) : SlotInv (s.touch r) := by
  unfold Slot.touch
  split
  · exact h
  · simp only
    split
    · exact h
    · rename_i hst
      simp only [Bool.not_eq_true] at hst
      have hg := staleFor_false hst
      split
      · rename_i e _
        refine ⟨slotIdx_upsert _ h.idx, ?_⟩
        apply tombInv_upsert (s := { s with ownerSeq := aset r.key r.seq s.ownerSeq }) h.tomb
        split <;> simpa using hg
      · split
        · refine ⟨slotIdx_upsert _ h.idx, ?_⟩
          apply tombInv_upsert (s := { s with ownerSeq := aset r.key r.seq s.ownerSeq }) h.tomb
          simpa using hg
        · exact ⟨h.idx, h.tomb⟩

theorem touches_inv (rs : List Route) : ∀ s : Slot, SlotInv s →
    SlotInv (rs.foldl Slot.touch s) ∧ (rs.foldl Slot.touch s).tomb = s.tomb := by
  induction rs with
  | nil => intro s h; exact ⟨h, rfl⟩
  | cons r rs ih =>
    intro s h
    obtain ⟨g1, g2⟩ := ih (s.touch r) (slotInv_touch r h)
    exact ⟨g1, by rw [List.foldl_cons, g2, touch_tomb]⟩

/-! #### expire -/

theorem slotInv_expire {s : Slot} (nz : Bool) (now ttl : Int) (h : SlotInv s) :
    SlotInv (s.expire nz now ttl).1 ∧ (s.expire nz now ttl).1.tomb = s.tomb := by
  obtain ⟨g1, g2, g3, _⟩ := slot_expire_exact s h.idx nz now ttl
  refine ⟨⟨g2, ?_⟩, g3.tomb⟩
  intro k t hk
  rw [g3.tomb] at hk
  obtain ⟨h1, h2⟩ := h.tomb k t hk
  rw [g1, g3.pending]
  refine ⟨?_, h2⟩
  intro r hr
  apply h1 r
  unfold expireSpec at hr
  split at hr
  · exact (List.mem_filter.mp hr).1
  · exact hr

end WK.C33

import WK.Proofs.C14_Steps
/-
  C14 — on corresponding states the whole read API of the Pebble store equals the reference's.
-/
namespace WK.C14

theorem limitGo_zero' (size : Nat) (ne : Bool) (es : List Entry) : limitGo 0 size ne es = es := by
  induction es generalizing size ne with
  | nil => rfl
  | cons e es ih => simp [limitGo, ih]

theorem allOk_map_ok (f : Nat → Nat) (ks : List Nat) :
    allOk (ks.map (fun k => (Except.ok (f k) : Except Err Nat))) = some (ks.map f) := by
  induction ks with
  | nil => rfl
  | cons k ks ih => simp [allOk, ih]

theorem termGo_canon (m : RaftStore) (h : RInv m) (x : Meta) (ak : Nat)
    (hm : MetaRel m (some x) ak) (i : Nat) :
    (durOf m (some x) ak).termGo i = .ok (m.termGo i) := by
  unfold Durable.termGo RaftStore.termGo
  simp only [durOf]
  cases hf : m.entries.find? (fun e => decide (e.index = i)) with
  | some e => rfl
  | none =>
    simp only
    by_cases hi : i = 0
    · subst hi
      simp only [if_true]
      by_cases h0 : m.snapshot.index = 0
      · rw [h.snapNone h0]; rfl
      · simp [h0]
    · have he := ensureMeta_canon m h (some x) ak hm
      simp only [durOf, effMeta, Option.getD_some] at he
      simp only [hi, if_false, he]
      obtain ⟨c, _, hx⟩ := hm
      subst hx
      rfl

theorem reads_eq (p : PStore) (m : RaftStore) (hr : Refines p m) (h : RInv m) : p.reads.2 = m.reads := by
  obtain ⟨mt, ak, hd, hm, hc⟩ := hr
  obtain ⟨c0, hc0, heff⟩ := effMeta_eq m mt ak hm
  have hm' : MetaRel m (some (effMeta m mt)) ak := ⟨c0, hc0, heff⟩
  have hsnap : ∀ x, (durOf m x ak).snapshotGo = m.snapshot := by
    intro x
    unfold Durable.snapshotGo
    by_cases h0 : m.snapshot.index = 0
    · have := h.snapNone h0
      simp only [durOf, manOf, h0, if_true]; exact this.symm
    · simp [durOf, manOf, h0]
  have hents : (durOf m (some (effMeta m mt)) ak).entriesGo 0 maxU64 0 = m.entriesGo 0 maxU64 0 := by
    unfold Durable.entriesGo RaftStore.entriesGo limitSize
    rw [limitGo_zero', limitGo_zero']
    simp only [durOf]
    congr 1
    funext e
    simp [maxU64]
  have hterms : ∀ lo n, allOk ((List.range n).map (fun k => (durOf m (some (effMeta m mt)) ak).termGo (lo + k)))
      = some ((List.range n).map (fun k => m.termGo (lo + k))) := by
    intro lo n
    have : (fun k => (durOf m (some (effMeta m mt)) ak).termGo (lo + k))
        = (fun k => (Except.ok (m.termGo (lo + k)) : Except Err Nat)) := by
      funext k; exact termGo_canon m h _ ak hm' (lo + k)
    rw [this]
    exact allOk_map_ok (fun k => m.termGo (lo + k)) (List.range n)
  unfold PStore.reads RaftStore.reads
  rw [hd, ensureMeta_canon m h mt ak hm]
  simp only [hents, hterms, firstIndex_eq m h, lastIndex_eq m h, hc0, Option.map_some]
  simp only [hsnap]
  rw [heff]
  simp only [metaOf, durOf]

end WK.C14

import WK.Proofs.C37_mb
/-
  C37 — the log-level single-drain clause of the judge holds of every mailbox model log.
-/
set_option linter.unusedSimpArgs false
namespace WK.C37


theorem drainState_append : ∀ (l r : List Ev) (act : List Nat),
    drainState act (l ++ r) = (drainState act l).bind fun a => drainState a r
  | [], r, act => by simp [drainState]
  | e :: l, r, act => by
    cases e <;> simp only [List.cons_append, drainState, drainState_append l r]
    split <;> simp

theorem drainState_map_run (b : List Nat) (act : List Nat) : drainState act (b.map .run) = some act := by
  induction b with
  | nil => rfl
  | cons x b ih => simpa [drainState] using ih

theorem drainState_map_done (b : List Nat) (act : List Nat) : drainState act (b.map .done) = some act := by
  induction b with
  | nil => rfl
  | cons x b ih => simpa [drainState] using ih

/-- the open batches of the log are exactly the shards with an instance inside its handler -/
def DrainInv (s : MB) : Prop :=
  ∃ act, drainState [] s.log = some act ∧ act.Nodup ∧
    ∀ sd, sd ∈ act ↔ ∃ i b, s.g i = .handling b ∧ s.gs i = sd

theorem DrainInv.init : DrainInv MB.init := ⟨[], rfl, List.nodup_nil, by simp [MB.init]⟩

theorem DrainInv.step {cfg : MBCfg} {s s' : MB} (h : MBInv cfg s) (hd : DrainInv s) (st : MBStep cfg s s') :
    DrainInv s' := by
  obtain ⟨act, hact, hnd, hiff⟩ := hd
  cases st
  case gHandle i b hg =>
    have hnot : (s.gs i) ∉ act := by
      intro hin
      obtain ⟨j, b', hj, hs⟩ := (hiff _).mp hin
      have : j = i := h.gUnique j i (by rw [hj]; simp) (by rw [hg]; simp) hs
      subst this; rw [hg] at hj; cases hj
    refine ⟨s.gs i :: act, ?_, List.nodup_cons.mpr ⟨hnot, hnd⟩, ?_⟩
    · simp only [drainState_append, hact, Option.bind_some, drainState]
      simp [hnot, drainState_map_run]
    · intro sd
      simp only [List.mem_cons, upd_apply]
      constructor
      · rintro (rfl | hin)
        · exact ⟨i, b, by simp, rfl⟩
        · obtain ⟨j, b', hj, hs⟩ := (hiff sd).mp hin
          have hne : j ≠ i := by intro he; subst he; rw [hg] at hj; cases hj
          exact ⟨j, b', by simp [hne, hj], hs⟩
      · rintro ⟨j, b', hj, hs⟩
        by_cases he : j = i
        · subst he; exact Or.inl hs.symm
        · simp only [he, if_false] at hj
          exact Or.inr ((hiff sd).mpr ⟨j, b', hj, hs⟩)
  case gHandled i b hg =>
    have hin : s.gs i ∈ act := (hiff _).mpr ⟨i, b, hg, rfl⟩
    refine ⟨act.erase (s.gs i), ?_, hnd.erase _, ?_⟩
    · simp only [drainState_append, hact, Option.bind_some, drainState_map_done, drainState]
    · intro sd
      rw [hnd.mem_erase_iff]
      simp only [upd_apply]
      constructor
      · rintro ⟨hne, hin'⟩
        obtain ⟨j, b', hj, hs⟩ := (hiff sd).mp hin'
        have hji : j ≠ i := by intro he; subst he; exact hne hs.symm
        exact ⟨j, b', by simp [hji, hj], hs⟩
      · rintro ⟨j, b', hj, hs⟩
        by_cases he : j = i
        · subst he; simp at hj
        · simp only [he, if_false] at hj
          refine ⟨?_, (hiff sd).mpr ⟨j, b', hj, hs⟩⟩
          intro hsd
          have : j = i := h.gUnique j i (by rw [hj]; simp) (by rw [hg]; simp) (hs.trans hsd)
          exact he this
  all_goals
    refine ⟨act, ?_, hnd, ?_⟩
    · first
        | exact hact
        | (simp only [drainState_append, hact, Option.bind_some, drainState, closeOk])
    · intro sd
      have hf := h.gFresh
      refine (hiff sd).trans ?_
      first
        | exact Iff.rfl
        | (simp only [upd_apply]
           constructor
           · rintro ⟨j, b', hj, hs⟩
             refine ⟨j, b', ?_, ?_⟩ <;> grind
           · rintro ⟨j, b', hj, hs⟩
             refine ⟨j, b', ?_, ?_⟩ <;> grind)

theorem MBReach.drainInv {cfg : MBCfg} {s : MB} (r : MBReach cfg s) : DrainInv s := by
  induction r with
  | init => exact DrainInv.init
  | step r st ih => exact ih.step r.inv st

end WK.C37

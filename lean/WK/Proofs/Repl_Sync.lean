import WK.Proofs.Repl_Frame
/-
  Sync-only frame lemmas: the operations that never call `Store.replace` (commit, follower
  repair, crash, restart) respect every reflexive transitive store relation that `Store.sync`
  respects — e.g. "no proposal is ever removed".  (Generated from the corresponding lemmas of
  Repl_Frame.lean by renaming; those also demand closure under `replace`.)
-/
namespace WK.Repl

structure StoreRelS (R : Store → Store → Prop) : Prop where
  refl : ∀ s, R s s
  trans : ∀ a b c, R a b → R b c → R a c
  sync : ∀ s m cs c, R s (s.sync m cs c).1

theorem StoresRel.reflS {R} (hR : StoreRelS R) (s : Sys) : StoresRel R s s := fun v => hR.refl _
theorem StoresRel.transS {R} (hR : StoreRelS R) {a b c : Sys} (h1 : StoresRel R a b) (h2 : StoresRel R b c) :
    StoresRel R a c := fun v => hR.trans _ _ _ (h1 v) (h2 v)

theorem StoresRel.setStoreS {R} (hR : StoreRelS R) (s : Sys) (i : Nat) (st : Store) (h : R (s.storeOf i) st) :
    StoresRel R s (s.setStore i st) := by
  intro v
  rw [storeOf_setStore]
  by_cases hv : v = i ∧ (s.node? i).isSome
  · simp only [hv, and_self, if_true]; exact h
  · simp only [hv, if_false]; exact hR.refl _

theorem voteOn_relS {R} (hR : StoreRelS R) (s : Store) (ack : Ack) (l : Bool) (p : Proposal) :
    R s (voteOn s ack l p).1 := by
  unfold voteOn
  cases ack with
  | X => exact hR.refl _
  | L => exact hR.sync _ _ _ _
  | D => exact hR.sync _ _ _ _

theorem applyVotes_frameS {R} (hR : StoreRelS R) (s : Sys) (ln : Nat) (acks : List Ack) (p : Proposal) (vs : List Nat) :
    SameOwners s (applyVotes s ln acks p vs).1 ∧ StoresRel R s (applyVotes s ln acks p vs).1 := by
  induction vs generalizing s with
  | nil => exact ⟨SameOwners.refl _, StoresRel.reflS hR _⟩
  | cons v vs ih =>
    simp only [applyVotes]
    have h1 := SameOwners.setStore s v (voteOn (s.storeOf v) (ackOf s acks v) (v == ln) p).1
    have h2 := StoresRel.setStoreS hR s v _ (voteOn_relS hR (s.storeOf v) (ackOf s acks v) (v == ln) p)
    have ih' := ih (s.setStore v (voteOn (s.storeOf v) (ackOf s acks v) (v == ln) p).1)
    exact ⟨h1.trans ih'.1, StoresRel.transS hR h2 ih'.2⟩

theorem runRound_frameS {R} (hR : StoreRelS R) (s : Sys) (ln q : Nat) (acks : List Ack) (p : Proposal) :
    SameOwners s (runRound s ln q acks p).1 ∧ StoresRel R s (runRound s ln q acks p).1 := by
  unfold runRound
  exact applyVotes_frameS hR s ln acks p _

theorem setChan_frameS {R} (hR : StoreRelS R) {s : Sys} {i : Nat} {nd : NodeSt} (h : s.node? i = some nd) (c : Option QChan) :
    OwnerStep i s (s.setNode i { nd with chan := c }) ∧ StoresRel R s (s.setNode i { nd with chan := c }) := by
  refine ⟨⟨rfl, rfl, fun j => ?_, fun j hj => ?_⟩, fun v => ?_⟩
  · rw [node?_setNode h]; by_cases hj : j = i
    · subst hj; simp [h]
    · simp [hj]
  · rw [node?_setNode h]; simp [hj]
  · rw [storeOf_setNode h]; by_cases hv : v = i
    · subst hv; simp [Sys.storeOf, h]; exact hR.refl _
    · simp [hv]; exact hR.refl _

theorem Framed.reflS {R} (hR : StoreRelS R) (i : Nat) (s : Sys) : Framed R i s s :=
  ⟨OwnerStep.refl i s, StoresRel.reflS hR s⟩

theorem Framed.transS {R} (hR : StoreRelS R) {i : Nat} {a b c : Sys} (h1 : Framed R i a b) (h2 : Framed R i b c) :
    Framed R i a c := ⟨h1.1.trans h2.1, StoresRel.transS hR h1.2 h2.2⟩

theorem commitRetry_frameS {R} (hR : StoreRelS R) (s : Sys) (i : Nat) (ch : QChan) (r : Retained) (acks : List Ack) :
    Framed R i s (commitRetry s i ch r acks).1 := by
  unfold commitRetry
  have f := Framed.ofSame (i := i) (runRound_frameS hR s i ch.auth.q acks r.p)
  generalize runRound s i ch.auth.q acks r.p = rr at f ⊢
  obtain ⟨s', ok, out⟩ := rr
  simp only
  split
  · exact f
  · cases hn : s'.node? i with
    | none => exact f
    | some nd' => exact Framed.transS hR f (setChan_frameS hR hn _)

theorem commitFresh_frameS {R} (hR : StoreRelS R) (s : Sys) (i : Nat) (nd : NodeSt) (hn : s.node? i = some nd)
    (ch : QChan) (cmd : Cmd) (cs : List Nat) (acks : List Ack) :
    Framed R i s (commitFresh s i nd ch cmd cs acks).1 := by
  unfold commitFresh
  cases hs : sealBusiness ch cmd cs with
  | none => exact Framed.reflS hR i s
  | some r =>
    simp only
    have f0 := setChan_frameS hR hn (some { ch with pending := some r })
    generalize s.setNode i { nd with chan := some { ch with pending := some r } } = s0 at f0 ⊢
    have f := Framed.ofSame (i := i) (runRound_frameS hR s0 i ch.auth.q acks r.p)
    generalize runRound s0 i ch.auth.q acks r.p = rr at f ⊢
    obtain ⟨s', ok, out⟩ := rr
    simp only
    have f01 := Framed.transS hR f0 f
    cases hn' : s'.node? i with
    | none => exact f01
    | some nd' =>
      simp only
      split
      · split
        · exact Framed.transS hR f01 (setChan_frameS hR hn' _)
        · exact f01
      · exact Framed.transS hR f01 (setChan_frameS hR hn' _)

theorem commitAdmitted_frameS {R} (hR : StoreRelS R) (s : Sys) (i : Nat) (nd : NodeSt) (hn : s.node? i = some nd)
    (ch : QChan) (cmd : Cmd) (cs : List Nat) (acks : List Ack) :
    Framed R i s (commitAdmitted s i nd ch cmd cs acks).1 := by
  unfold commitAdmitted
  split
  · split
    · exact Framed.reflS hR i s
    · split
      · exact Framed.reflS hR i s
      · exact commitRetry_frameS hR s i ch _ acks
  · split
    · split
      · split
        · exact Framed.reflS hR i s
        · exact commitRetry_frameS hR s i ch _ acks
      · exact Framed.reflS hR i s
    · exact commitFresh_frameS hR s i nd hn ch cmd cs acks

theorem commit_frameS {R} (hR : StoreRelS R) (s : Sys) (i : Nat) (e : AuthId) (c : Nat) (cs : List Nat) (acks : List Ack) :
    Framed R i s (commit s i e c cs acks).1 := by
  unfold commit
  cases hn : s.node? i with
  | none => exact Framed.reflS hR i s
  | some nd =>
    simp only
    split
    · exact Framed.reflS hR i s
    · split
      · exact Framed.reflS hR i s
      · split
        · exact Framed.reflS hR i s
        · split
          · exact Framed.reflS hR i s
          · split
            · exact Framed.reflS hR i s
            · exact commitAdmitted_frameS hR s i nd hn _ _ cs acks

theorem repairProps_frameS {R} (hR : StoreRelS R) (f c : Nat) : ∀ (ps : List PRec) (s : Sys),
    SameOwners s (repairProps s f c ps).1 ∧ StoresRel R s (repairProps s f c ps).1 := by
  intro ps
  induction ps with
  | nil => intro s; exact ⟨SameOwners.refl _, StoresRel.reflS hR _⟩
  | cons p ps ih =>
    intro s
    simp only [repairProps]
    split
    · exact ⟨SameOwners.refl _, StoresRel.reflS hR _⟩
    · have h1 := SameOwners.setStore s f ((s.storeOf f).sync p.m p.contents (min c p.m.last)).1
      have h2 := StoresRel.setStoreS hR s f _ (hR.sync (s.storeOf f) p.m p.contents (min c p.m.last))
      generalize (s.storeOf f).sync p.m p.contents (min c p.m.last) = r at h1 h2 ⊢
      obtain ⟨st, out⟩ := r
      simp only at h1 h2 ⊢
      split
      · have := ih (s.setStore f st)
        exact ⟨h1.trans this.1, StoresRel.transS hR h2 this.2⟩
      · exact ⟨h1, h2⟩

theorem batchProps_frameS {R} (hR : StoreRelS R) (f c : Nat) : ∀ (ps : List PRec) (s : Sys),
    SameOwners s (batchProps s f c ps).1 ∧ StoresRel R s (batchProps s f c ps).1 := by
  intro ps
  induction ps with
  | nil => intro s; exact ⟨SameOwners.refl _, StoresRel.reflS hR _⟩
  | cons p ps ih =>
    intro s
    simp only [batchProps]
    have h1 := SameOwners.setStore s f ((s.storeOf f).sync p.m p.contents (min c p.m.last)).1
    have h2 := StoresRel.setStoreS hR s f _ (hR.sync (s.storeOf f) p.m p.contents (min c p.m.last))
    generalize (s.storeOf f).sync p.m p.contents (min c p.m.last) = r at h1 h2 ⊢
    obtain ⟨st, out⟩ := r
    simp only at h1 h2 ⊢
    have := ih (s.setStore f st)
    exact ⟨h1.trans this.1, StoresRel.transS hR h2 this.2⟩

theorem batchFollower_frameS {R} (hR : StoreRelS R) (s : Sys) (l f nf : Nat) :
    SameOwners s (batchFollower s l f nf).1 ∧ StoresRel R s (batchFollower s l f nf).1 := by
  have triv : SameOwners s s ∧ StoresRel R s s := ⟨SameOwners.refl _, StoresRel.reflS hR _⟩
  unfold batchFollower
  split
  · exact triv
  · cases hl : (s.storeOf l).load with
    | error e => exact triv
    | ok state =>
      dsimp only
      split
      · exact triv
      · exact batchProps_frameS hR f state.committed _ s

theorem repairFollower_frameS {R} (hR : StoreRelS R) (s : Sys) (l f nf : Nat) :
    SameOwners s (repairFollower s l f nf).1 ∧ StoresRel R s (repairFollower s l f nf).1 := by
  have triv : SameOwners s s ∧ StoresRel R s s := ⟨SameOwners.refl _, StoresRel.reflS hR _⟩
  unfold repairFollower
  split
  · exact batchFollower_frameS hR s l f (nf - 1000)
  rename_i hnb
  split
  · exact triv
  · cases hl : (s.storeOf l).load with
    | error e => exact triv
    | ok state =>
      simp only
      split
      · exact triv
      · generalize (if nf > 1 then
            match (s.storeOf l).probe (nf - 1) with
            | Except.ok (some id) => some id
            | _ => none
          else some Ident.zero) = pe
        cases pe with
        | none => exact triv
        | some previous =>
          simp only
          cases hf : (s.storeOf l).fetch state nf state.manifest.last previous with
          | error e => exact triv
          | ok props =>
            simp only
            have := repairProps_frameS hR f state.committed props s
            generalize repairProps s f state.committed props = r at this ⊢
            obtain ⟨s', b⟩ := r
            cases b <;> exact this

/-- ops that are not an install (on any node) and not an accepted cfg -/
def Op.noReplace : Op → Bool
  | .install .. => false
  | .cfg .. => false
  | _ => true

theorem step_stores_sync {R} (hR : StoreRelS R) (s : Sys) (op : Op) (h : op.noReplace = true) :
    StoresRel R s (step s op).1 := by
  obtain ⟨n, q, cap, started, nodes, owners⟩ := s
  have same : ∀ st, StoresRel R ⟨n, q, cap, started, nodes, owners⟩ ⟨n, q, cap, st, nodes, owners⟩ := fun _ v => hR.refl _
  cases op with
  | cfg n q cap fr => simp [Op.noReplace] at h
  | install i a ps acks => simp [Op.noReplace] at h
  | crash i =>
    simp only [step]
    cases hn : Sys.node? ⟨n, q, cap, true, nodes, owners⟩ i with
    | none => exact same _
    | some nd =>
      simp only
      split
      · exact same _
      · intro v; rw [storeOf_setNode hn]
        by_cases hv : v = i
        · subst hv
          have hn' : Sys.node? ⟨n, q, cap, started, nodes, owners⟩ v = some nd := hn
          simp [Sys.storeOf, hn']; exact hR.refl _
        · simp [hv]; exact hR.refl _
  | restart i =>
    simp only [step]
    cases hn : Sys.node? ⟨n, q, cap, true, nodes, owners⟩ i with
    | none => exact same _
    | some nd =>
      simp only
      split
      · exact same _
      · intro v; rw [storeOf_setNode hn]
        by_cases hv : v = i
        · subst hv
          have hn' : Sys.node? ⟨n, q, cap, started, nodes, owners⟩ v = some nd := hn
          simp [Sys.storeOf, hn']; exact hR.refl _
        · simp [hv]; exact hR.refl _
  | repair l f nf =>
    simp only [step]
    split
    · split
      · exact same _
      · exact fun v => (repairFollower_frameS hR ⟨n, q, cap, true, nodes, owners⟩ l f nf).2 v
    · exact same _
  | commit i e c k p acks =>
    simp only [step]
    cases hn : Sys.node? ⟨n, q, cap, true, nodes, owners⟩ i with
    | none => exact same _
    | some nd =>
      simp only
      split
      · exact same _
      · split
        · exact same _
        · exact fun v => (commit_frameS hR ⟨n, q, cap, true, nodes, owners⟩ i e c _ acks).2 v

end WK.Repl

import WK.Proofs.C07_Ref9
namespace WK.C07

theorem all_ne_eq_not_any (del : List Row) (r : Row) :
    del.all (fun v => decide (r.seq ≠ v.seq)) = !(del.any (fun d => decide (d.seq = r.seq))) := by
  induction del with
  | nil => rfl
  | cons a t ih =>
    simp only [List.all_cons, List.any_cons, ih, Bool.not_or]
    congr 1
    by_cases h : r.seq = a.seq
    · simp [h]
    · have : ¬ a.seq = r.seq := fun e => h e.symm
      simp [h, this]

theorem trimNext_eq (state : Ret) (leo t mm mb : Nat) (rows : List Row) :
    trimNext state leo t mm mb rows =
      ⟨Nat.max t state.loc,
       if trimMore rows t mm mb = false ∧ t > state.phys then t else Nat.max (trimDelThrough rows mm) state.phys,
       Nat.max leo (Nat.max t state.max)⟩ := by
  unfold trimNext
  congr 1
  · simp only [Nat.max_def]; split <;> split <;> omega
  · by_cases h : trimMore rows t mm mb = false ∧ t > state.phys
    · rw [if_pos h, if_pos h]
    · rw [if_neg h, if_neg h]; simp only [Nat.max_def]; split <;> split <;> omega
  · simp only [Nat.max_def]; repeat' split
    all_goals omega

def sState (o : Option Ret) : Ret := match o with | some r => r | none => ⟨0, 0, 0⟩

/-- the stored retention state satisfies `physical ≤ logical` (what `validateRetentionState` enforces before every write) -/
def PhysLeLoc (ch : Chan) : Prop := (trimState ch).phys ≤ (trimState ch).loc

theorem refines_trim (st : Store) (c t mm mb : Nat) (hi : Inv st) (hk : Chk st) (hcn : c < numChan)
    (hpl : PhysLeLoc (st.chan c)) : Refines st (.trim c t mm mb) := by
  unfold Refines
  show abs (doTrim st c t mm mb).1 = (specTrim (abs st) c t mm mb).1 ∧
    (doTrim st c t mm mb).2 = (specTrim (abs st) c t mm mb).2 ∧ Chk (doTrim st c t mm mb).1
  have If : Inv (doTrim st c t mm mb).1 := doTrim_inv st c t mm mb hi hcn
  rw [doTrim_eq] at If ⊢
  unfold doTrim' at If ⊢
  unfold specTrim
  by_cases h0 : t = 0
  · rw [if_pos h0, if_pos h0]; exact ⟨rfl, rfl, hk⟩
  rw [if_neg h0] at If
  rw [if_neg h0, if_neg h0]
  obtain ⟨I1, g1, i1, r1, t1, k1, l1, v1, c1⟩ := loaded_facts st c hi hcn
  have hc : c < st.chans.length := by rw [hi.len]; exact hcn
  have hc1 : c < (loaded st c).chans.length := by rw [I1.len]; exact hcn
  have K1 := chk_loaded st c hk hc
  have A1 := abs_loaded st c hi hcn
  have hrows1 : (loadLEO (st.chan c)).2.rows = (st.chan c).rows := (loadLEO_fields _).1
  have hret1 : (loadLEO (st.chan c)).2.ret = (st.chan c).ret := (loadLEO_fields _).2.1
  have hstate : trimState (loadLEO (st.chan c)).2 = trimState (st.chan c) := by unfold trimState; rw [hret1]
  rw [hrows1, hstate, v1] at If ⊢
  have hts : trimState (st.chan c) = sState (st.chan c).ret := rfl
  change _ = (match readForward ((abs st).chan c).rows ((sState ((abs st).chan c).ret).phys + 1) t (if mm > 0 then mm + 1 else 0) mb with
      | .error e => (abs st, Out.err e)
      | .ok rows =>
        ((abs st).setChan c
          { rows := ((abs st).chan c).rows.filter (fun r => !((trimDel rows mm).any (fun d => decide (d.seq = r.seq)))),
            leo := Nat.max ((abs st).chan c).leo (Nat.max ((abs st).chan c).leo (Nat.max t (sState ((abs st).chan c).ret).max)),
            ret := some ⟨Nat.max t (sState ((abs st).chan c).ret).loc,
              if trimMore rows t mm mb = false ∧ t > (sState ((abs st).chan c).ret).phys then t
                else Nat.max (trimDelThrough rows mm) (sState ((abs st).chan c).ret).phys,
              Nat.max ((abs st).chan c).leo (Nat.max t (sState ((abs st).chan c).ret).max)⟩,
            ck := ((abs st).chan c).ck },
         Out.trim (trimDelThrough rows mm) (trimDel rows mm).length (trimMore rows t mm mb))).1 ∧
    _ = (match readForward ((abs st).chan c).rows ((sState ((abs st).chan c).ret).phys + 1) t (if mm > 0 then mm + 1 else 0) mb with
      | .error e => (abs st, Out.err e)
      | .ok rows =>
        ((abs st).setChan c
          { rows := ((abs st).chan c).rows.filter (fun r => !((trimDel rows mm).any (fun d => decide (d.seq = r.seq)))),
            leo := Nat.max ((abs st).chan c).leo (Nat.max ((abs st).chan c).leo (Nat.max t (sState ((abs st).chan c).ret).max)),
            ret := some ⟨Nat.max t (sState ((abs st).chan c).ret).loc,
              if trimMore rows t mm mb = false ∧ t > (sState ((abs st).chan c).ret).phys then t
                else Nat.max (trimDelThrough rows mm) (sState ((abs st).chan c).ret).phys,
              Nat.max ((abs st).chan c).leo (Nat.max t (sState ((abs st).chan c).ret).max)⟩,
            ck := ((abs st).chan c).ck },
         Out.trim (trimDelThrough rows mm) (trimDel rows mm).length (trimMore rows t mm mb))).2 ∧ _
  rw [abs_ret, abs_rows, abs_leo, ← hts]
  unfold PhysLeLoc at hpl
  generalize hstt : trimState (st.chan c) = state at *
  generalize hleo : recoverLEO (st.chan c) = leo at *
  have CI := hi.chan c
  have hfloor : floorOf (st.chan c) = state.loc := by rw [← hstt]; unfold floorOf trimState; cases (st.chan c).ret <;> rfl
  have hrmax : retMax (st.chan c) = state.max := by rw [← hstt]; unfold retMax trimState; cases (st.chan c).ret <;> rfl
  have smaxle : state.max ≤ leo := by rw [← hrmax, ← hleo, recoverLEO_eq]; exact Nat.le_max_right _ _
  have slocle : state.loc ≤ state.max := by rw [← hfloor, ← hrmax]; exact CI.retOK
  cases hrd : readForward (st.chan c).rows (state.phys + 1) t (if mm > 0 then mm + 1 else 0) mb with
  | error e => exact ⟨A1, rfl, K1⟩
  | ok rows =>
    rw [hrd] at If
    dsimp only at If ⊢
    -- deleted rows are live rows in (phys, t]
    have hdel : ∀ v ∈ trimDel rows mm, v ∈ (st.chan c).rows ∧ v.seq ≤ t := by
      intro v hv
      have h2 : v ∈ rows := by unfold trimDel at hv; split at hv; exact List.mem_of_mem_take hv; exact hv
      have : v ∈ window (st.chan c).rows (state.phys + 1) t := by
        unfold readForward at hrd
        rcases scanGo_subset _ _ _ _ _ _ hrd v h2 with e | e
        · cases e
        · exact e
      have := (mem_window _ _ _ _).mp this
      exact ⟨this.1, by omega⟩
    have hdt : trimDelThrough rows mm ≤ t := by
      unfold trimDelThrough
      cases hl : (trimDel rows mm).getLast? with
      | none => exact Nat.zero_le _
      | some r => exact (hdel r (List.mem_of_getLast? hl)).2
    rw [trimNext_eq] at If ⊢
    generalize hnext : (⟨Nat.max t state.loc,
       if trimMore rows t mm mb = false ∧ t > state.phys then t else Nat.max (trimDelThrough rows mm) state.phys,
       Nat.max leo (Nat.max t state.max)⟩ : Ret) = next at If ⊢
    have hnl : next.loc = Nat.max t state.loc := by rw [← hnext]
    have hnm : next.max = Nat.max leo (Nat.max t state.max) := by rw [← hnext]
    have hnp : next.phys ≤ next.loc := by
      rw [← hnext]; dsimp only
      have : state.phys ≤ state.loc := hpl
      split
      · exact Nat.le_max_left _ _
      · simp only [Nat.max_def]; repeat' split
        all_goals omega
    have hvalid : retValid next = true := by
      unfold retValid
      have h1 : next.loc ≠ 0 := by rw [hnl]; simp only [Nat.max_def]; split <;> omega
      have h3 : next.loc ≤ next.max := by rw [hnl, hnm]; simp only [Nat.max_def]; repeat' split
                                          all_goals omega
      simp only [Bool.not_eq_true', decide_eq_false_iff_not, not_or, not_and, Nat.not_lt]
      exact ⟨fun h => absurd h h1, hnp, fun _ => h3⟩
    simp only [hvalid, Bool.not_true, Bool.false_eq_true, if_false] at If ⊢
    have hlm : leo ≤ next.max := by rw [hnm]; exact Nat.le_max_left _ _
    have hmx : (if leo > next.max then leo else next.max) = next.max := by
      rw [if_neg (by omega)]
    rw [hmx] at If ⊢
    obtain ⟨r2, t2, k2, l2, o2⟩ := delete_fold_plain c (trimDel rows mm) (loaded st c) hc1
    generalize hst2 : (trimDel rows mm).foldl (deleteRow c) (loaded st c) = st2 at *
    have hc2 : c < st2.chans.length := by rw [l2]; exact hc1
    have hc3 : c < (st2.setChan c { st2.chan c with ret := some next }).chans.length := by rw [set_len]; exact hc2
    have hfin : (setLeoC (st2.setChan c { st2.chan c with ret := some next }) c next.max).chan c =
        { st2.chan c with ret := some next, leoC := some next.max } := by
      unfold setLeoC; rw [chan_set_self _ _ _ hc3, chan_set_self _ _ _ hc2]
    have hleoF : recoverLEO ((setLeoC (st2.setChan c { st2.chan c with ret := some next }) c next.max).chan c) = next.max := by
      have := (If.chan c).cache next.max (by rw [hfin]); exact this.symm
    have hfilter : (st2.chan c).rows = (st.chan c).rows.filter (fun r => !((trimDel rows mm).any (fun d => decide (d.seq = r.seq)))) := by
      rw [r2, r1]
      apply List.filter_congr
      intro r _
      exact all_ne_eq_not_any _ r
    have hother : ∀ c', c' ≠ c → (setLeoC (st2.setChan c { st2.chan c with ret := some next }) c next.max).chan c' = (loaded st c).chan c' := by
      intro c' e; unfold setLeoC; rw [chan_set_ne _ _ _ _ e, chan_set_ne _ _ _ _ e, o2 c' e]
    refine ⟨?_, trivial, ?_⟩
    · rw [abs_eq_of (loaded st c) _ c (by unfold setLeoC; rw [set_len, set_len, l2]) hother, A1]
      congr 1
      unfold absChan
      rw [hleoF, hfin]
      have hmx2 : Nat.max leo next.max = next.max := Nat.max_eq_right hlm
      simp only [hfilter, k2, k1, hmx2, abs_ck, ← hnm]
    · intro c' r hr
      by_cases e : c' = c
      · subst e
        rw [hfin] at hr
        change r ∈ (st2.chan c').rows at hr
        rw [hfilter] at hr
        exact hk c' r (List.mem_filter.mp hr).1
      · rw [hother c' e] at hr; exact K1 c' r hr

end WK.C07

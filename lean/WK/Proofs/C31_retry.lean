import WK.Model.C31
/-
  C31 — the judge accepts every attempt list of the retry model (helper lemmas).
-/
namespace WK.C31

theorem lookup_update {κ α : Type} [BEq κ] [LawfulBEq κ] (l : List (κ × α)) (k k' : κ) (v : α) :
    lookup (update l k v) k' = if k' == k then some v else lookup l k' := by
  unfold lookup update
  by_cases h : k = k'
  · subst h; simp
  · have h' : (k == k') = false := by simpa using h
    have h'' : (k' == k) = false := by simpa using (Ne.symm h)
    simp only [List.find?_cons, h', h'']
    congr 1
    induction l with
    | nil => rfl
    | cons x xs ih =>
      by_cases hx : x.1 = k
      · have : (x.1 == k') = false := by rw [hx]; exact h'
        simp [List.filter_cons, hx, List.find?_cons, this, h']
        simpa [hx] using ih
      · have hx' : (x.1 == k) = false := by simpa using hx
        simp only [List.filter_cons, hx', Bool.not_false, if_true, List.find?_cons]
        split
        · rfl
        · exact ih

def rkey (m : Nat) (r : Route) : Nat × Nat × Nat := (m, r.node, r.sess)

theorem attempt_ok {j : J} {i : MsgInfo} {m uid node sess k : Nat} (term : Bool)
    (hm : lookup j.msgs m = some i) (he : j.expected.contains (m, uid, node, sess) = true)
    (ha : (lookup j.att (m, node, sess)).getD (0, false) = (k, false)) (hk : k + 1 ≤ j.retryMax)
    (hl : (lookup j.last (node, sess, i.ch)).getD 0 ≤ i.seq) :
    attempt j m uid node sess term = .ok { j with att := update j.att (m, node, sess) (k + 1, term),
                                                  last := update j.last (node, sess, i.ch) i.seq } := by
  unfold attempt
  simp only [hm, he, Bool.not_true, Bool.false_eq_true, if_false, ha]
  have h1 : ¬ (k + 1 > j.retryMax) := by omega
  have h2 : ¬ (i.seq < (lookup j.last (node, sess, i.ch)).getD 0) := by omega
  simp [h1, h2]

theorem retryableOf_sublist : ∀ (rs : List Route) (ds : List Disp), List.Sublist (retryableOf rs ds) rs
  | [], _ => by simp [retryableOf]
  | _ :: _, [] => by simp [retryableOf]
  | r :: rs, d :: ds => by
    unfold retryableOf
    split
    · exact (retryableOf_sublist rs ds).cons₂ r
    · exact (retryableOf_sublist rs ds).cons r

theorem attemptAll_ok {i : MsgInfo} {m k : Nat} (ok : Bool) : ∀ (rs : List Route) (ds : List Disp) (j : J),
    lookup j.msgs m = some i →
    (∀ r ∈ rs, j.expected.contains (m, r.uid, r.node, r.sess) = true) →
    (∀ r ∈ rs, (lookup j.att (rkey m r)).getD (0, false) = (k, false)) →
    k + 1 ≤ j.retryMax →
    (∀ n s, (lookup j.last (n, s, i.ch)).getD 0 ≤ i.seq) →
    (rs.map (rkey m)).Nodup →
    ∃ j', attemptAll j m ok (zipAtt rs ds) = .ok j' ∧ j'.msgs = j.msgs ∧ j'.expected = j.expected ∧ j'.retryMax = j.retryMax ∧
      (∀ n s, (lookup j'.last (n, s, i.ch)).getD 0 ≤ i.seq) ∧
      (∀ key, key ∉ rs.map (rkey m) → lookup j'.att key = lookup j.att key) ∧
      (∀ r ∈ retryableOf rs ds, (lookup j'.att (rkey m r)).getD (0, false) = (k + 1, false)) ∧
      (ok = false → ∀ r ∈ rs, (lookup j'.att (rkey m r)).getD (0, false) = (k + 1, false))
  | [], ds, j, hm, _, _, _, hl, _ => by
    refine ⟨j, by simp [zipAtt, attemptAll], rfl, rfl, rfl, hl, fun _ _ => rfl, ?_, ?_⟩
    · intro r hr; simp [retryableOf] at hr
    · intro _ r hr; cases hr
  | r :: rs, ds, j, hm, he, ha, hk, hl, hnd => by
    have hnd' : rkey m r ∉ rs.map (rkey m) ∧ (rs.map (rkey m)).Nodup := List.nodup_cons.mp hnd
    -- the head attempt
    obtain ⟨d, dt, hz⟩ : ∃ d dt, zipAtt (r :: rs) ds = (r.uid, r.node, r.sess, d) :: zipAtt rs dt ∧
        retryableOf (r :: rs) ds = (if d = 2 then r :: retryableOf rs dt else retryableOf rs dt) := by
      cases ds with
      | nil => exact ⟨3, [], by simp [zipAtt, retryableOf]⟩
      | cons d ds => exact ⟨dispCode d, ds, by cases d <;> simp [zipAtt, retryableOf, dispCode]⟩
    obtain ⟨hz1, hz2⟩ := hz
    have h1 := attempt_ok (j := j) (ok && (d == 1 || d == 3)) hm (he r List.mem_cons_self)
      (ha r List.mem_cons_self) hk (hl r.node r.sess)
    let j1 : J := { j with att := update j.att (m, r.node, r.sess) (k + 1, ok && (d == 1 || d == 3)),
                           last := update j.last (r.node, r.sess, i.ch) i.seq }
    have hl1 : ∀ n s, (lookup j1.last (n, s, i.ch)).getD 0 ≤ i.seq := by
      intro n s
      simp only [j1, lookup_update]
      split
      · simp
      · exact hl n s
    have ha1 : ∀ r' ∈ rs, (lookup j1.att (rkey m r')).getD (0, false) = (k, false) := by
      intro r' hr'
      have hne : rkey m r' ≠ rkey m r := fun h => hnd'.1 (h ▸ List.mem_map.mpr ⟨r', hr', rfl⟩)
      have : (rkey m r' == (m, r.node, r.sess)) = false := by simpa [rkey] using hne
      simp only [j1, lookup_update, this]
      exact ha r' (List.mem_cons_of_mem _ hr')
    obtain ⟨j', h2, e1, e2, e3, e4, e5, e6, e7⟩ := attemptAll_ok ok rs dt j1 hm
      (fun r' hr' => he r' (List.mem_cons_of_mem _ hr')) ha1 hk hl1 hnd'.2
    have hhead : lookup j'.att (rkey m r) = some (k + 1, ok && (d == 1 || d == 3)) := by
      rw [e5 _ hnd'.1]; simp [j1, lookup_update, rkey]
    refine ⟨j', ?_, e1, e2, e3, e4, ?_, ?_, ?_⟩
    · rw [hz1]; simp only [attemptAll, h1]; exact h2
    · intro key hkey
      simp only [List.map_cons, List.mem_cons, not_or] at hkey
      rw [e5 key hkey.2]
      have : (key == (m, r.node, r.sess)) = false := by simpa [rkey] using hkey.1
      simp [j1, lookup_update, this]
    · intro r' hr'
      rw [hz2] at hr'
      by_cases hd : d = 2
      · simp only [hd, if_true, List.mem_cons] at hr'
        rcases hr' with rfl | hr'
        · rw [hhead]; simp [hd]
        · exact e6 r' hr'
      · simp only [hd, if_false] at hr'; exact e6 r' hr'
    · intro hok r' hr'
      rcases List.mem_cons.mp hr' with rfl | hr'
      · rw [hhead]; simp [hok]
      · exact e7 hok r' hr'

end WK.C31

import WK.Spec.C06
/-
  C06 — helper lemmas about the association-list maps, the order list, the
  sorting helper and the loops of append.go.  Core Lean only.
-/
namespace WK.C06

-- ---------------------------------------------------------------- waiters ---

theorem keysW_eraseW (p : List Waiter) (op : Nat) :
    keysW (eraseW p op) = (keysW p).filter (fun k => k != op) := by
  unfold keysW eraseW
  rw [List.filter_map]
  rfl

theorem mem_keysW_eraseW {p : List Waiter} {op x : Nat} :
    x ∈ keysW (eraseW p op) ↔ x ∈ keysW p ∧ x ≠ op := by
  rw [keysW_eraseW, List.mem_filter]
  simp

theorem nodup_keysW_eraseW {p : List Waiter} (op : Nat) (h : (keysW p).Nodup) :
    (keysW (eraseW p op)).Nodup := by
  rw [keysW_eraseW]
  exact List.Nodup.sublist List.filter_sublist h

theorem hasW_iff {p : List Waiter} {op : Nat} : hasW p op = true ↔ op ∈ keysW p := by
  unfold hasW keysW
  rw [List.any_eq_true, List.mem_map]
  constructor
  · rintro ⟨w, hw, he⟩
    exact ⟨w, hw, by simpa using he⟩
  · rintro ⟨w, hw, he⟩
    exact ⟨w, hw, by simpa using he⟩

theorem hasW_false_iff {p : List Waiter} {op : Nat} : hasW p op = false ↔ op ∉ keysW p := by
  rw [← hasW_iff]
  cases hasW p op <;> simp

theorem lookupW_some {p : List Waiter} {op : Nat} {w : Waiter} (h : lookupW p op = some w) :
    w ∈ p ∧ w.op = op := by
  unfold lookupW at h
  exact ⟨List.mem_of_find?_eq_some h, by simpa using List.find?_some h⟩

theorem lookupW_some_mem_keys {p : List Waiter} {op : Nat} {w : Waiter} (h : lookupW p op = some w) :
    op ∈ keysW p := by
  have ⟨hm, ho⟩ := lookupW_some h
  unfold keysW
  exact List.mem_map.mpr ⟨w, hm, ho⟩

theorem keysW_setW_has {p : List Waiter} {w : Waiter} (h : hasW p w.op = true) :
    keysW (setW p w) = keysW p := by
  unfold setW
  rw [if_pos h]
  unfold keysW
  rw [List.map_map]
  apply List.map_congr_left
  intro x _
  by_cases hx : x.op = w.op
  · simp [hx]
  · simp [hx]

theorem keysW_setW_new {p : List Waiter} {w : Waiter} (h : hasW p w.op = false) :
    keysW (setW p w) = keysW p ++ [w.op] := by
  unfold setW
  rw [if_neg (by simp [h])]
  simp [keysW]

-- ------------------------------------------------------------------ order ---

theorem mem_removeOrder {o d : List Nat} {x : Nat} : x ∈ removeOrder o d ↔ x ∈ o ∧ x ∉ d := by
  unfold removeOrder
  rw [List.mem_filter]
  simp

theorem nodup_removeOrder {o : List Nat} (d : List Nat) (h : o.Nodup) : (removeOrder o d).Nodup :=
  List.Nodup.sublist List.filter_sublist h

/-- pending map and order list agree -/
structure PO (p : List Waiter) (o : List Nat) : Prop where
  pn : (keysW p).Nodup
  on : o.Nodup
  iff : ∀ x, x ∈ o ↔ x ∈ keysW p

theorem PO.remove {p p' : List Waiter} {o d : List Nat} (h : PO p o)
    (hk : ∀ x, x ∈ keysW p' ↔ x ∈ keysW p ∧ x ∉ d) (hn : (keysW p').Nodup) :
    PO p' (removeOrder o d) where
  pn := hn
  on := nodup_removeOrder d h.on
  iff := by
    intro x
    rw [mem_removeOrder, hk, h.iff]

theorem PO.same_keys {p p' : List Waiter} {o : List Nat} (h : PO p o) (hk : keysW p' = keysW p) : PO p' o where
  pn := hk ▸ h.pn
  on := h.on
  iff := by rw [hk]; exact h.iff

theorem PO.nil : PO [] [] := ⟨by simp [keysW], by simp, by simp [keysW]⟩

/-- one iteration of the registration loop of ProposeAppendBatch keeps map and order in step -/
theorem PO.add {p : List Waiter} {o : List Nat} (h : PO p o) (w : Waiter) :
    PO (setW p w) (appendOrder o w.op) := by
  cases hh : hasW p w.op
  · have hnk : w.op ∉ keysW p := hasW_false_iff.mp hh
    have hno : w.op ∉ o := fun hm => hnk ((h.iff _).mp hm)
    have hc : o.contains w.op = false := by
      cases hcc : o.contains w.op
      · rfl
      · exact absurd (List.contains_iff_mem.mp hcc) hno
    have ha : appendOrder o w.op = o ++ [w.op] := by
      unfold appendOrder
      rw [hc]
      simp
    rw [ha]
    refine ⟨?_, ?_, ?_⟩
    · rw [keysW_setW_new hh, List.nodup_append]
      refine ⟨h.pn, by simp, ?_⟩
      intro a ha b hb
      simp at hb
      subst hb
      exact fun e => hnk (e ▸ ha)
    · rw [List.nodup_append]
      refine ⟨h.on, by simp, ?_⟩
      intro a ha b hb
      simp at hb
      subst hb
      exact fun e => hno (e ▸ ha)
    · intro x
      rw [keysW_setW_new hh, List.mem_append, List.mem_append, h.iff]
  · have hk : w.op ∈ keysW p := hasW_iff.mp hh
    have ho : w.op ∈ o := (h.iff _).mpr hk
    have hc : o.contains w.op = true := List.contains_iff_mem.mpr ho
    have ha : appendOrder o w.op = o := by
      unfold appendOrder
      rw [hc]
      simp
    rw [ha]
    exact h.same_keys (keysW_setW_has hh)

-- --------------------------------------------------------------- progress ---

theorem getP_le {p : List (Nat × Nat)} {L : Nat} (h : ∀ e ∈ p, e.2 ≤ L) (n : Nat) : getP p n ≤ L := by
  unfold getP
  split
  · next e he => exact h e (List.mem_of_find?_eq_some he)
  · exact Nat.zero_le _

theorem mem_setP {p : List (Nat × Nat)} {n m : Nat} {e : Nat × Nat} (h : e ∈ setP p n m) :
    e ∈ p ∨ e = (n, m) := by
  unfold setP at h
  split at h
  · rw [List.mem_map] at h
    obtain ⟨x, hx, he⟩ := h
    split at he
    · exact Or.inr he.symm
    · exact Or.inl (he ▸ hx)
  · rw [List.mem_append] at h
    rcases h with h | h
    · exact Or.inl h
    · exact Or.inr (by simpa using h)

theorem setP_le {p : List (Nat × Nat)} {L n m : Nat} (h : ∀ e ∈ p, e.2 ≤ L) (hm : m ≤ L) :
    ∀ e ∈ setP p n m, e.2 ≤ L := by
  intro e he
  rcases mem_setP he with h1 | h1
  · exact h e h1
  · rw [h1]; exact hm

theorem mem_insertDesc {a x : Nat} {l : List Nat} : x ∈ insertDesc a l ↔ x = a ∨ x ∈ l := by
  induction l with
  | nil => simp [insertDesc]
  | cons y ys ih =>
    unfold insertDesc
    split
    · simp
    · simp [ih]
      constructor
      · rintro (h | h | h)
        · exact Or.inr (Or.inl h)
        · exact Or.inl h
        · exact Or.inr (Or.inr h)
      · rintro (h | h | h)
        · exact Or.inr (Or.inl h)
        · exact Or.inl h
        · exact Or.inr (Or.inr h)

theorem mem_sortDesc {x : Nat} {l : List Nat} : x ∈ sortDesc l ↔ x ∈ l := by
  induction l with
  | nil => simp [sortDesc]
  | cons y ys ih =>
    have : sortDesc (y :: ys) = insertDesc y (sortDesc ys) := rfl
    rw [this, mem_insertDesc, ih]
    simp

/-- AdvanceHW only moves `hw`, never down, and never above a bound on all matches -/
theorem advanceHW_spec (s : State) :
    ∃ h, advanceHW s = { s with hw := h } ∧ s.hw ≤ h ∧
      (∀ L, (∀ e ∈ s.progress, e.2 ≤ L) → s.hw ≤ L → h ≤ L) := by
  unfold advanceHW
  split
  · exact ⟨s.hw, rfl, Nat.le_refl _, fun _ _ h => h⟩
  · dsimp only
    split
    · exact ⟨s.hw, rfl, Nat.le_refl _, fun _ _ h => h⟩
    · next nxt hn =>
      split
      · exact ⟨s.hw, rfl, Nat.le_refl _, fun _ _ h => h⟩
      · next hlt =>
        refine ⟨nxt, rfl, by omega, ?_⟩
        intro L hp _
        have hm : nxt ∈ sortDesc (s.isr.map (getP s.progress)) := List.mem_of_getElem? hn
        rw [mem_sortDesc, List.mem_map] at hm
        obtain ⟨n, _, hn2⟩ := hm
        rw [← hn2]
        exact getP_le hp n

-- ------------------------------------------------------------------ loops ---

/-- what the loop of completeAppendWaiters does to the pending map and what it replies -/
theorem completeLoop_spec (hw : Nat) (order : List Nat) :
    ∀ p : List Waiter,
      (∀ x, x ∈ keysW (completeLoop hw order p).1 ↔
            x ∈ keysW p ∧ x ∉ (completeLoop hw order p).2.map (·.op)) ∧
      ((keysW p).Nodup → (keysW (completeLoop hw order p).1).Nodup) ∧
      (∀ x ∈ (completeLoop hw order p).2.map (·.op), x ∈ keysW p) ∧
      ((keysW p).Nodup → ((completeLoop hw order p).2.map (·.op)).Nodup) ∧
      (∀ rp ∈ (completeLoop hw order p).2, rp.err = .ok ∧ rp.target ≠ 0 ∧ (rp.mode = 1 → rp.target ≤ hw)) := by
  induction order with
  | nil =>
    intro p
    simp [completeLoop]
  | cons op rest ih =>
    intro p
    unfold completeLoop
    split
    · exact ih p
    · next w hw1 =>
      split
      · exact ih p
      · next ht =>
        split
        · exact ih p
        · next hq =>
          obtain ⟨ia, ib, ic, id, ie⟩ := ih (eraseW p op)
          have hopk : op ∈ keysW p := lookupW_some_mem_keys hw1
          refine ⟨?_, ?_, ?_, ?_, ?_⟩
          · intro x
            simp only [List.map_cons, List.mem_cons, not_or]
            rw [ia x, mem_keysW_eraseW]
            constructor
            · rintro ⟨⟨h1, h2⟩, h3⟩
              exact ⟨h1, h2, h3⟩
            · rintro ⟨h1, h2, h3⟩
              exact ⟨⟨h1, h2⟩, h3⟩
          · intro hn
            exact ib (nodup_keysW_eraseW op hn)
          · intro x hx
            simp only [List.map_cons, List.mem_cons] at hx
            rcases hx with hx | hx
            · rw [hx]; exact hopk
            · exact (mem_keysW_eraseW.mp (ic x hx)).1
          · intro hn
            simp only [List.map_cons]
            rw [List.nodup_cons]
            refine ⟨?_, id (nodup_keysW_eraseW op hn)⟩
            intro hm
            exact (mem_keysW_eraseW.mp (ic op hm)).2 rfl
          · intro rp hrp
            simp only [List.mem_cons] at hrp
            rcases hrp with hrp | hrp
            · subst hrp
              refine ⟨rfl, by simpa using ht, ?_⟩
              intro hm
              simp only at hm
              simp only [hm, BEq.rfl, Bool.true_and, decide_eq_true_eq] at hq
              simp only
              omega
            · exact ie rp hrp

/-- what the loop of failInflightAppend does -/
theorem failLoop_spec (ops : List Nat) :
    ∀ p : List Waiter,
      (∀ x, x ∈ keysW (failLoop ops p).1 ↔ x ∈ keysW p ∧ x ∉ (failLoop ops p).2) ∧
      ((keysW p).Nodup → (keysW (failLoop ops p).1).Nodup) ∧
      (∀ x ∈ (failLoop ops p).2, x ∈ keysW p) ∧
      ((keysW p).Nodup → ((failLoop ops p).2).Nodup) := by
  induction ops with
  | nil =>
    intro p
    simp [failLoop]
  | cons op rest ih =>
    intro p
    unfold failLoop
    split
    · next hh =>
      obtain ⟨ia, ib, ic, id⟩ := ih (eraseW p op)
      have hopk : op ∈ keysW p := hasW_iff.mp hh
      refine ⟨?_, ?_, ?_, ?_⟩
      · intro x
        simp only [List.mem_cons, not_or]
        rw [ia x, mem_keysW_eraseW]
        constructor
        · rintro ⟨⟨h1, h2⟩, h3⟩
          exact ⟨h1, h2, h3⟩
        · rintro ⟨h1, h2, h3⟩
          exact ⟨⟨h1, h2⟩, h3⟩
      · intro hn
        exact ib (nodup_keysW_eraseW op hn)
      · intro x hx
        simp only [List.mem_cons] at hx
        rcases hx with hx | hx
        · rw [hx]; exact hopk
        · exact (mem_keysW_eraseW.mp (ic x hx)).1
      · intro hn
        rw [List.nodup_cons]
        refine ⟨?_, id (nodup_keysW_eraseW op hn)⟩
        intro hm
        exact (mem_keysW_eraseW.mp (ic op hm)).2 rfl
    · exact ih p

theorem assignOne_op (recs : List Nat) (w : Waiter) (c n : Nat) : (assignOne recs w c n).1.op = w.op := rfl

theorem assignOne_mode (recs : List Nat) (w : Waiter) (c n : Nat) : (assignOne recs w c n).1.mode = w.mode := rfl

/-- assigning stored offsets to the waiters never adds or removes a waiter -/
theorem keysW_assignLoop (recs : List Nat) (ops : List Nat) :
    ∀ (counts : List Nat) (next : Nat) (p : List Waiter),
      keysW (assignLoop recs ops counts next p) = keysW p := by
  induction ops with
  | nil => intro counts next p; rfl
  | cons op rest ih =>
    intro counts next p
    unfold assignLoop
    dsimp only
    split
    · exact ih _ _ _
    · next w hw =>
      have ⟨_, hop⟩ := lookupW_some hw
      rw [ih]
      apply keysW_setW_has
      have hk : op ∈ keysW p := lookupW_some_mem_keys hw
      rw [assignOne_op, hop]
      exact hasW_iff.mpr hk

/-- AbortAppendBatchProposal's delete loop -/
theorem foldl_eraseW_spec (ops : List Nat) :
    ∀ p : List Waiter,
      (∀ x, x ∈ keysW (ops.foldl eraseW p) ↔ x ∈ keysW p ∧ x ∉ ops) ∧
      ((keysW p).Nodup → (keysW (ops.foldl eraseW p)).Nodup) := by
  induction ops with
  | nil => intro p; simp
  | cons op rest ih =>
    intro p
    obtain ⟨ia, ib⟩ := ih (eraseW p op)
    simp only [List.foldl_cons]
    refine ⟨?_, fun hn => ib (nodup_keysW_eraseW op hn)⟩
    intro x
    rw [ia x, mem_keysW_eraseW]
    simp only [List.mem_cons, not_or]
    constructor
    · rintro ⟨⟨h1, h2⟩, h3⟩
      exact ⟨h1, h2, h3⟩
    · rintro ⟨h1, h2, h3⟩
      exact ⟨⟨h1, h2⟩, h3⟩

/-- the registration loop of ProposeAppendBatch -/
theorem addWaiters_spec (ws : List WaiterCmd) :
    ∀ (p : List Waiter) (o : List Nat), PO p o →
      PO (addWaiters ws p o).1 (addWaiters ws p o).2 ∧
      (∀ x ∈ keysW (addWaiters ws p o).1, x ∈ keysW p ∨ x ∈ ws.map (·.op)) := by
  induction ws with
  | nil =>
    intro p o h
    exact ⟨h, fun x hx => Or.inl hx⟩
  | cons w rest ih =>
    intro p o h
    unfold addWaiters
    simp only
    have h1 := PO.add h { op := w.op, target := 0, mode := if w.mode == 0 then 1 else w.mode,
                           recs := List.replicate w.nrec 0 }
    obtain ⟨i1, i2⟩ := ih _ _ h1
    refine ⟨i1, ?_⟩
    intro x hx
    rcases i2 x hx with hx | hx
    · cases hh : hasW p w.op
      · rw [keysW_setW_new (by simpa using hh)] at hx
        simp only [List.mem_append, List.mem_singleton] at hx
        rcases hx with hx | hx
        · exact Or.inl hx
        · exact Or.inr (by simp [hx])
      · rw [keysW_setW_has (by simpa using hh)] at hx
        exact Or.inl hx
    · exact Or.inr (by simp [hx])

-- ------------------------------------- replies reflect the completed waiter ---

theorem lookupW_eraseW_ne {p : List Waiter} {op x : Nat} (h : x ≠ op) :
    lookupW (eraseW p op) x = lookupW p x := by
  unfold lookupW eraseW
  induction p with
  | nil => rfl
  | cons a t ih =>
    by_cases ha : a.op = op
    · have hb : (a.op != op) = false := by simp [ha]
      have hx : (a.op == x) = false := by
        rw [ha, beq_eq_false_iff_ne]
        exact fun e => h e.symm
      simp only [List.filter_cons, hb, Bool.false_eq_true, if_false, List.find?_cons, hx]
      exact ih
    · have hb : (a.op != op) = true := by simpa using ha
      simp only [List.filter_cons, hb, if_true, List.find?_cons]
      split
      · rfl
      · exact ih

/-- every reply of the completion loop carries op / mode / target / records of the waiter
    that was pending under that op when the loop started -/
theorem completeLoop_reflects (hw : Nat) (order : List Nat) :
    ∀ p : List Waiter, ∀ rp ∈ (completeLoop hw order p).2,
      ∃ w, lookupW p rp.op = some w ∧ rp.mode = w.mode ∧ rp.target = w.target ∧ rp.seqs = w.recs ∧ rp.err = .ok := by
  induction order with
  | nil => intro p rp h; simp [completeLoop] at h
  | cons op rest ih =>
    intro p
    unfold completeLoop
    split
    · exact ih p
    · next w hw1 =>
      split
      · exact ih p
      · split
        · exact ih p
        · intro rp hrp
          simp only [List.mem_cons] at hrp
          rcases hrp with hrp | hrp
          · subst hrp
            exact ⟨w, hw1, rfl, rfl, rfl, rfl⟩
          · obtain ⟨w', h1, h2⟩ := ih (eraseW p op) rp hrp
            have hne : rp.op ≠ op := (mem_keysW_eraseW.mp (lookupW_some_mem_keys h1)).2
            rw [lookupW_eraseW_ne hne] at h1
            exact ⟨w', h1, h2⟩

theorem find_replace (w : Waiter) (x : Nat) (p : List Waiter) :
    List.find? (fun v => v.op == x) (p.map (fun y => if y.op == w.op then w else y)) = some w ∨
    List.find? (fun v => v.op == x) (p.map (fun y => if y.op == w.op then w else y)) =
      List.find? (fun v => v.op == x) p := by
  induction p with
  | nil => right; rfl
  | cons a t ih =>
    simp only [List.map_cons, List.find?_cons]
    by_cases ha : a.op = w.op
    · simp only [ha, BEq.rfl, if_true]
      by_cases hx : w.op = x
      · left; simp [hx]
      · have : (w.op == x) = false := by simpa using hx
        simp only [this]
        exact ih
    · have hb : (a.op == w.op) = false := by simpa using ha
      simp only [hb, Bool.false_eq_true, if_false]
      split
      · right; rfl
      · exact ih

theorem lookupW_setW_has {p : List Waiter} {w : Waiter} (x : Nat) :
    lookupW (setW p w) x = some w ∨ lookupW (setW p w) x = lookupW p x := by
  unfold setW
  split
  · exact find_replace w x p
  · unfold lookupW
    rw [List.find?_append]
    cases hf : List.find? (fun w => w.op == x) p with
    | some v => right; simp
    | none =>
      simp only [Option.none_or, List.find?_cons, List.find?_nil]
      split
      · left; rfl
      · right; rfl

/-- assigning stored offsets never changes a waiter's commit mode -/
theorem assignLoop_mode (recs : List Nat) (ops : List Nat) :
    ∀ (counts : List Nat) (next : Nat) (p : List Waiter) (x : Nat) (w' : Waiter),
      lookupW (assignLoop recs ops counts next p) x = some w' →
      ∃ w, lookupW p x = some w ∧ w.mode = w'.mode := by
  induction ops with
  | nil => intro counts next p x w' h; exact ⟨w', h, rfl⟩
  | cons op rest ih =>
    intro counts next p x w' h
    unfold assignLoop at h
    dsimp only at h
    split at h
    · exact ih _ _ _ _ _ h
    · next w hw =>
      obtain ⟨w1, h1, h2⟩ := ih _ _ _ _ _ h
      rcases lookupW_setW_has (p := p) (w := (assignOne recs w (counts.headD 0) next).1) x with h3 | h3
      · rw [h3] at h1
        have hw1 : w1 = (assignOne recs w (counts.headD 0) next).1 := (Option.some.inj h1).symm
        -- x is the op of the updated waiter
        have hx : x = op := by
          have := (lookupW_some (by rw [← hw1] at h3; exact h3 : lookupW (setW p w1) x = some w1)).2
          rw [hw1, assignOne_op, (lookupW_some hw).2] at this
          exact this.symm
        subst hx
        exact ⟨w, hw, by rw [← h2, hw1, assignOne_mode]⟩
      · rw [h3] at h1
        exact ⟨w1, h1, h2⟩

end WK.C06

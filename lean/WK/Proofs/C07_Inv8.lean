import WK.Proofs.C07_Inv7
/-
  C07 — `Inv` holds initially and is preserved by every operation of `step`
  under the caller contracts `Safe`; consequences for lookups.
-/
namespace WK.C07

theorem chanInv_ck (ch : Chan) (h : ChanInv ch) (k : Option Ckpt) : ChanInv { ch with ck := k } :=
  ⟨h.uniq, h.nodup, h.nz, h.noHoles, h.cache, h.retOK, h.iidx, h.sidx, h.cidx⟩

theorem chanInv_empty : ChanInv ({} : Chan) := by
  refine ⟨?_, List.Pairwise.nil, ?_, ?_, ?_, Nat.le_refl _, ?_, ?_, ?_⟩
  · intro a ha; cases ha
  · intro r hr; cases hr
  · intro s h1 h2
    have : recoverLEO ({} : Chan) = 0 := rfl
    rw [this] at h2; omega
  · intro l e; cases e
  · intro cmn frm v; constructor
    · intro e; cases e
    · rintro ⟨r, hr, _⟩; cases hr
  · intro frm s id; constructor
    · intro e; cases e
    · rintro ⟨r, hr, _⟩; cases hr
  · intro cmn s; constructor
    · intro e; cases e
    · rintro ⟨r, hr, _⟩; cases hr

theorem init_chan (c : Nat) : Store.init.chan c = ({} : Chan) := by
  unfold Store.init Store.chan numChan
  simp only [List.getD_eq_getElem?_getD]
  by_cases h : c < 4
  · rw [List.getElem?_replicate]; simp [h]
  · rw [List.getElem?_eq_none (by simp; omega)]; rfl

theorem inv_init : Inv Store.init := by
  refine ⟨by simp [Store.init], fun c => by rw [init_chan]; exact chanInv_empty, ?_⟩
  intro id c s
  constructor
  · intro e; cases e
  · rintro ⟨r, hr, _⟩; rw [init_chan] at hr; cases hr

theorem reopen_chan (st : Store) (c : Nat) : (doReopen st).chan c = { st.chan c with leoC := none } := by
  unfold doReopen Store.chan
  simp only [List.getD_eq_getElem?_getD, List.getElem?_map]
  cases st.chans[c]? <;> rfl

theorem doReopen_inv (st : Store) (hi : Inv st) : Inv (doReopen st) := by
  refine ⟨by unfold doReopen; simp [hi.len], fun c => by rw [reopen_chan]; exact chanInv_noleo _ (hi.chan c), ?_⟩
  intro id c s
  rw [reopen_chan]
  exact hi.gidx id c s

/-- the caller contracts of one operation (everything else needs nothing) -/
def Safe (st : Store) : Op → Prop
  | .app c mode _ recs => SafeBatch st c mode recs
  | .fetch c _ _ recs => SafeBatch st c 2 recs
  | .trunc c f => SafeTrunc st c f
  | .trim c _ _ _ => c < numChan
  | .ckpt c _ => c < numChan
  | .ckptm c _ _ _ => c < numChan
  | .leo c => c < numChan
  | .rread c _ _ _ => c < numChan
  | _ => True

/-- **one step**: every operation of `step` preserves `Inv` -/
theorem inv_step (st : Store) (op : Op) (hi : Inv st) (hs : Safe st op) : Inv (step st op).1 := by
  cases op with
  | app c mode base recs => exact doAppend_inv st c mode base recs hi hs
  | fetch c base ck recs => exact doFetch_inv st c base ck recs hi hs
  | trunc c f => exact doTrunc_inv st c f hi hs
  | trim c t mm mb => exact doTrim_inv st c t mm mb hi hs
  | ckpt c k =>
    show Inv (doCkpt st c k).1
    unfold doCkpt; split
    · exact hi
    · exact inv_set st c _ hi hs rfl (chanInv_ck _ (hi.chan c) _)
  | ckptm c k v l =>
    show Inv (doCkptm st c k v l).1
    unfold doCkptm; split
    · exact hi
    · exact inv_set st c _ hi hs rfl (chanInv_ck _ (hi.chan c) _)
  | close c => exact hi
  | reopen => exact doReopen_inv st hi
  | leo c => exact inv_load st c hi hs
  | lret c => exact hi
  | lckpt c => exact hi
  | read c f l b => show Inv (doRead st c f l b).1; unfold doRead; dsimp only; split <;> exact hi
  | rread c f l b =>
    show Inv (doRRead st c f l b).1
    unfold doRRead
    dsimp only
    by_cases hf : f = 0
    · simp only [hf, if_true]; split <;> exact inv_load st c hi hs
    · simp only [hf, if_false]; split <;> exact hi
  | get c s => exact hi
  | byid c id => exact hi
  | lastvis c a => exact hi
  | bycmn c cmn b l => exact hi
  | idem c f m => exact hi
  | lss c f t => exact hi

/-- the contracts hold along a whole history -/
def SafeRun : Store → List Op → Prop
  | _, [] => True
  | st, op :: rest => Safe st op ∧ SafeRun (step st op).1 rest

theorem inv_run (st : Store) (ops : List Op) (hi : Inv st) (hs : SafeRun st ops) : Inv (run st ops) := by
  induction ops generalizing st with
  | nil => exact hi
  | cons op rest ih =>
    unfold run
    simp only [List.foldl_cons]
    exact ih _ (inv_step st op hi hs.1) hs.2

end WK.C07

import WK.Spec.C31
/-
  C31 — invariants of the judge state (what `stepJ` records about the trace it consumed).
-/
namespace WK.C31

theorem lookup_update_isSome {κ α : Type} [BEq κ] [LawfulBEq κ] (l : List (κ × α)) (k k' : κ) (v : α) :
    (lookup (update l k v) k').isSome = (k' == k || (lookup l k').isSome) := by
  unfold lookup update
  by_cases h : k = k'
  · subst h; simp
  · have h' : (k == k') = false := by simpa using h
    have h'' : (k' == k) = false := by simpa using (Ne.symm h)
    simp only [List.find?_cons, h', h'', Bool.false_or]
    congr 1
    induction l with
    | nil => rfl
    | cons x xs ih =>
      by_cases hx : x.1 = k
      · have : (x.1 == k') = false := by rw [hx]; exact h'
        simp [List.filter_cons, hx, List.find?_cons, this, ih, h']
        simpa [hx] using ih
      · have hx' : (x.1 == k) = false := by simpa using hx
        simp only [List.filter_cons, hx', Bool.not_false, if_true, List.find?_cons]
        split
        · rfl
        · exact ih


/-! ### what the judge state records about the consumed trace -/

def presPairs (tr : List Ev) : List (Nat × Nat) :=
  tr.flatMap (fun e => match e with | .pres m _ true us => us.map (fun u => (m, u)) | _ => [])
def offPairs (tr : List Ev) : List (Nat × Nat) :=
  tr.flatMap (fun e => match e with | .offline m us => us.map (fun u => (m, u)) | _ => [])
def attKeys (tr : List Ev) : List (Nat × Nat × Nat) :=
  tr.flatMap (fun e => match e with
    | .write m _ n s _ => [(m, n, s)]
    | .remote m _ _ rs => rs.map (fun r => (m, r.2.1, r.2.2.1))
    | _ => [])

structure JInv (w : World) (j : J) (pre : List Ev) : Prop where
  hworld : j.world = w
  hpres : ∀ x, j.presOk.count x = (presPairs pre).count x
  hoff : ∀ x, j.offl.count x = (offPairs pre).count x
  hatt : ∀ k, (lookup j.att k).isSome = true ↔ k ∈ attKeys pre
  hoffOk : ∀ m u, (m, u) ∈ j.offl → (w.routes u).isEmpty = true ∧ j.offl.count (m, u) ≤ j.presOk.count (m, u)

theorem presPairs_snoc (pre : List Ev) (e : Ev) : presPairs (pre ++ [e]) = presPairs pre ++ presPairs [e] := by
  simp [presPairs]
theorem offPairs_snoc (pre : List Ev) (e : Ev) : offPairs (pre ++ [e]) = offPairs pre ++ offPairs [e] := by
  simp [offPairs]
theorem attKeys_snoc (pre : List Ev) (e : Ev) : attKeys (pre ++ [e]) = attKeys pre ++ attKeys [e] := by
  simp [attKeys]

theorem attempt_att {j j' : J} {m uid node sess : Nat} {term : Bool} (h : attempt j m uid node sess term = .ok j') :
    j'.world = j.world ∧ j'.presOk = j.presOk ∧ j'.offl = j.offl ∧
    ∀ k, (lookup j'.att k).isSome = (k == (m, node, sess) || (lookup j.att k).isSome) := by
  unfold attempt at h
  repeat' split at h
  all_goals try (dsimp only at h)
  all_goals repeat' split at h
  all_goals first
    | (cases h; exact ⟨rfl, rfl, rfl, fun k => lookup_update_isSome _ _ _ _⟩)
    | cases h

theorem attemptAll_att {m : Nat} {ok : Bool} : ∀ (rs : List RouteAtt) (j j' : J), attemptAll j m ok rs = .ok j' →
    j'.world = j.world ∧ j'.presOk = j.presOk ∧ j'.offl = j.offl ∧
    ∀ k, (lookup j'.att k).isSome = true ↔ (k ∈ rs.map (fun r => (m, r.2.1, r.2.2.1)) ∨ (lookup j.att k).isSome = true)
  | [], j, j', h => by simp [attemptAll] at h; subst h; simp
  | (uid, node, sess, d) :: rs, j, j', h => by
    simp only [attemptAll] at h
    cases ha : attempt j m uid node sess (ok && (d == 1 || d == 3)) with
    | error e => simp [ha] at h
    | ok j1 =>
      simp only [ha] at h
      obtain ⟨a1, a2, a3, a4⟩ := attempt_att ha
      obtain ⟨b1, b2, b3, b4⟩ := attemptAll_att rs j1 j' h
      refine ⟨b1.trans a1, b2.trans a2, b3.trans a3, fun k => ?_⟩
      rw [b4 k, a4 k]
      simp only [List.map_cons, List.mem_cons, Bool.or_eq_true, beq_iff_eq]
      constructor
      · rintro (h1 | h1 | h1)
        · exact Or.inl (Or.inr h1)
        · exact Or.inl (Or.inl h1)
        · exact Or.inr h1
      · rintro ((h1 | h1) | h1)
        · exact Or.inr (Or.inl h1)
        · exact Or.inl h1
        · exact Or.inr (Or.inr h1)

theorem count_map_pair (m m' u : Nat) : ∀ us : List Nat,
    (us.map (fun u => (m, u))).count (m', u) = if m' = m then us.count u else 0
  | [] => by simp
  | x :: xs => by
    simp only [List.map_cons, List.count_cons, count_map_pair m m' u xs, Prod.mk.injEq, beq_iff_eq]
    by_cases h1 : m' = m
    · subst h1; by_cases h2 : x = u <;> simp [h2]
    · have h1' : ¬ m = m' := fun h => h1 h.symm
      by_cases h2 : x = u <;> simp [h1, h1', h2]

theorem jinv_step {w : World} {j j' : J} {pre : List Ev} {e : Ev} (hI : JInv w j pre) (h : stepJ j e = .ok j') :
    JInv w j' (pre ++ [e]) := by
  have keep : ∀ (j2 : J), j2.world = j.world → j2.presOk = j.presOk → j2.offl = j.offl →
      (∀ k, (lookup j2.att k).isSome = true ↔ (k ∈ attKeys [e] ∨ (lookup j.att k).isSome = true)) →
      presPairs [e] = [] → offPairs [e] = [] → JInv w j2 (pre ++ [e]) := by
    intro j2 h1 h2 h3 h4 h5 h6
    constructor
    · rw [h1]; exact hI.hworld
    · intro x; rw [h2, presPairs_snoc, h5, List.append_nil]; exact hI.hpres x
    · intro x; rw [h3, offPairs_snoc, h6, List.append_nil]; exact hI.hoff x
    · intro k; rw [h4 k, attKeys_snoc, List.mem_append, hI.hatt k]; exact Or.comm
    · intro m u hm; rw [h3] at hm ⊢; rw [h2]; exact hI.hoffOk m u hm
  cases e with
  | msg m ch seq mode frm snode ssess recips =>
    simp only [stepJ] at h
    split at h
    · cases h
    · cases h; exact keep _ rfl rfl rfl (by simp [attKeys]) (by simp [presPairs]) (by simp [offPairs])
  | enq m ok batches =>
    simp only [stepJ] at h
    split at h
    · cases h
    · split at h
      · cases h
      · split at h <;> cases h <;> exact keep _ rfl rfl rfl (by simp [attKeys]) (by simp [presPairs]) (by simp [offPairs])
  | stopCall => simp only [stepJ] at h; cases h; exact keep _ rfl rfl rfl (by simp [attKeys]) (by simp [presPairs]) (by simp [offPairs])
  | stopRet ok =>
    simp only [stepJ] at h
    split at h
    · cases h
    · cases h; exact keep _ rfl rfl rfl (by simp [attKeys]) (by simp [presPairs]) (by simp [offPairs])
  | write m uid node sess d =>
    simp only [stepJ] at h
    obtain ⟨a1, a2, a3, a4⟩ := attempt_att h
    refine keep _ a1 a2 a3 (fun k => ?_) (by simp [presPairs]) (by simp [offPairs])
    rw [a4 k]; simp [attKeys]
  | remote m owner ok rs =>
    simp only [stepJ] at h
    obtain ⟨a1, a2, a3, a4⟩ := attemptAll_att rs j j' h
    refine keep _ a1 a2 a3 (fun k => ?_) (by simp [presPairs]) (by simp [offPairs])
    rw [a4 k]; simp [attKeys]
  | pres m g ok us =>
    simp only [stepJ] at h
    split at h
    · cases h
    · split at h
      · cases h
        rename_i hok
        have hok : ok = false := by simpa using hok
        subst hok
        exact keep _ rfl rfl rfl (by simp [attKeys]) (by simp [presPairs]) (by simp [offPairs])
      · cases h
        rename_i hok
        have hok : ok = true := by simpa using hok
        subst hok
        constructor
        · exact hI.hworld
        · intro x
          simp only [presPairs_snoc, List.count_append]
          rw [hI.hpres x]
          simp [presPairs, Nat.add_comm]
        · intro x; simp only [offPairs_snoc]; simpa [offPairs] using hI.hoff x
        · intro k; simp only [attKeys_snoc]; simpa [attKeys] using hI.hatt k
        · intro m' u hm
          have := hI.hoffOk m' u hm
          refine ⟨this.1, ?_⟩
          simp only [List.count_append]
          omega
  | offline m us =>
    simp only [stepJ] at h
    split at h
    · cases h
    · split at h
      · cases h
      · split at h
        · cases h
        · split at h
          · cases h
          · rename_i i hmsg hmode hwrong hdup
            cases h
            simp only [List.any_eq_true, Bool.or_eq_true, Bool.not_eq_true', not_exists, not_and, not_or] at hwrong hdup
            constructor
            · exact hI.hworld
            · intro x; simp only [presPairs_snoc]; simpa [presPairs] using hI.hpres x
            · intro x
              simp only [offPairs_snoc, List.count_append]
              rw [hI.hoff x]
              simp [offPairs, Nat.add_comm]
            · intro k; simp only [attKeys_snoc]; simpa [attKeys] using hI.hatt k
            · intro m' u hm
              have hcm := count_map_pair m m' u us
              refine ⟨?_, ?_⟩
              · simp only [List.mem_append, List.mem_map] at hm
                rcases hm with ⟨u', hu', heq⟩ | hm
                · simp only [Prod.mk.injEq] at heq
                  obtain ⟨rfl, rfl⟩ := heq
                  have hw : (j.world.routes u').isEmpty = true := by simpa using (hwrong u' hu').2
                  rw [hI.hworld] at hw; exact hw
                · exact (hI.hoffOk m' u hm).1
              · simp only [List.count_append, hcm]
                by_cases h1 : m' = m
                · subst h1
                  by_cases h2 : u ∈ us
                  · have := hdup u h2
                    simp only [gt_iff_lt, decide_eq_true_eq, Nat.not_lt] at this
                    rw [if_pos rfl]; omega
                  · rw [if_pos rfl]
                    simp only [List.count_eq_zero.mpr h2, Nat.zero_add]
                    by_cases h3 : (m', u) ∈ j.offl
                    · exact (hI.hoffOk m' u h3).2
                    · simp [List.count_eq_zero.mpr h3]
                · simp only [h1, if_false, Nat.zero_add]
                  by_cases h3 : (m', u) ∈ j.offl
                  · exact (hI.hoffOk m' u h3).2
                  · simp [List.count_eq_zero.mpr h3]

theorem runJ_inv {w : World} : ∀ (post pre : List Ev) (j j' : J), JInv w j pre → runJ j post = .ok j' →
    JInv w j' (pre ++ post)
  | [], pre, j, j', hI, h => by simp [runJ] at h; subst h; simpa using hI
  | e :: es, pre, j, j', hI, h => by
    simp only [runJ] at h
    cases hs : stepJ j e with
    | error m => simp [hs] at h
    | ok j1 =>
      simp only [hs] at h
      have := runJ_inv es (pre ++ [e]) j1 j' (jinv_step hI hs) h
      simpa using this

theorem jinv_init (w : World) (rm : Nat) : JInv w { world := w, retryMax := rm } [] := by
  constructor <;> simp [presPairs, offPairs, attKeys, lookup]

end WK.C31

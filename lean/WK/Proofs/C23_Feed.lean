import WK.Proofs.C23_Loop
/-
  C23 — the gateway's inbound-buffer discipline on (prefixes of) valid streams.
-/
namespace WK.C23
open WK.C22

/-- `q` is empty or a strict prefix of the encoding of the first frame of `h` -/
def PartialHead (v : Nat) (q : Bytes) (h : List Frame) : Prop :=
  q = [] ∨ ∃ f fs3 q', h = f :: fs3 ∧ encOf v f = q ++ q' ∧ q' ≠ []

theorem PartialHead.stalls {v : Nat} {q : Bytes} {h : List Frame} (hp : PartialHead v q h)
    (hw : ∀ f ∈ h, WithinLimits v f) : Stalls v q := by
  rcases hp with rfl | ⟨f, fs3, q', rfl, he, hq⟩
  · exact Or.inl rfl
  · exact partial_stalls v f (hw f (by simp)) q q' he hq

/-- adapter-level stream lemma with a stalling tail -/
theorem adapter_frames (sv : Nat) (fs : List Frame) (q : Bytes)
    (h : ∀ g ∈ fs, WithinLimits (effVersion sv) g) (hst : Stalls (effVersion sv) q) :
    adapterDecode sv (encAll (effVersion sv) fs ++ q) =
      .ok (fs.map (norm (effVersion sv))) (encAll (effVersion sv) fs).length := by
  unfold adapterDecode
  split
  · rename_i hemp
    simp only [List.isEmpty_iff, List.append_eq_nil_iff] at hemp
    cases fs with
    | nil => simp
    | cons g fs' =>
      exfalso
      have := encOf_pos _ g (h g (by simp))
      have h0 := congrArg List.length hemp.1
      simp only [encAll_cons, List.length_append, List.length_nil] at h0
      omega
  · apply decodeLoop_frames _ fs q _ h _ hst
    have := length_le_encAll _ fs h
    simp only [List.length_append]; omega

/-- every prefix of a valid stream is some complete frames followed by a partial head -/
theorem prefix_decomp (v : Nat) : ∀ (fs : List Frame) (S rest : Bytes), encAll v fs = S ++ rest →
    ∃ g h q, fs = g ++ h ∧ S = encAll v g ++ q ∧ q ++ rest = encAll v h ∧ PartialHead v q h := by
  intro fs
  induction fs with
  | nil =>
    intro S rest he
    simp only [encAll_nil] at he
    have := List.append_eq_nil_iff.mp he.symm
    exact ⟨[], [], [], rfl, by simp [this.1], by simp [this.2], Or.inl rfl⟩
  | cons f fs ih =>
    intro S rest he
    rw [encAll_cons, List.append_eq_append_iff] at he
    rcases he with ⟨a', h1, h2⟩ | ⟨c', h1, h2⟩
    · obtain ⟨g, h, q, e1, e2, e3, e4⟩ := ih a' rest h2
      exact ⟨f :: g, h, q, by simp [e1], by simp [h1, e2], e3, e4⟩
    · by_cases hc : c' = []
      · subst hc
        simp only [List.append_nil, List.nil_append] at h1 h2
        exact ⟨[f], fs, [], rfl, by simp [h1], by simp [h2], Or.inl rfl⟩
      · refine ⟨[], f :: fs, S, rfl, by simp, ?_, Or.inr ⟨f, fs, c', rfl, h1, hc⟩⟩
        rw [h2, ← List.append_assoc, ← h1, encAll_cons]

/-- one drain on a buffer that is complete frames + a stalling tail -/
theorem drain_valid (sv : Nat) (g : List Frame) (q : Bytes) (st : Inbound) (fuel : Nat)
    (hg : ∀ f ∈ g, WithinLimits (effVersion sv) f) (hst : Stalls (effVersion sv) q)
    (hbuf : st.buf = encAll (effVersion sv) g ++ q) (hfuel : st.buf.length + 1 ≤ fuel) :
    drain sv fuel st = { st with buf := q, out := st.out ++ g.map (norm (effVersion sv)) } := by
  obtain ⟨k, rfl⟩ : ∃ k, fuel = k + 1 := ⟨fuel - 1, by omega⟩
  have hdec := adapter_frames sv g q hg hst
  rw [← hbuf] at hdec
  simp only [drain, hdec]
  by_cases hc : (encAll (effVersion sv) g).length = 0
  · have hg0 : g = [] := by
      have := length_le_encAll _ g hg
      exact List.eq_nil_of_length_eq_zero (by omega)
    subst hg0
    simp only [encAll_nil, List.nil_append] at hbuf
    cases st
    simp_all
  · rw [if_neg hc]
    have hk : 1 ≤ k := by
      rw [hbuf] at hfuel
      simp only [List.length_append] at hfuel
      omega
    obtain ⟨k', rfl⟩ : ∃ k', k = k' + 1 := ⟨k - 1, by omega⟩
    have hdrop : st.buf.drop (encAll (effVersion sv) g).length = q := by
      rw [hbuf, List.drop_left]
    have hq : adapterDecode sv q = .ok [] 0 := by
      simpa using adapter_frames sv [] q (by simp) hst
    simp only [drain, hdrop, hq, if_true]

theorem feedChunk_closed_false (sv : Nat) (st : Inbound) (c : Bytes) (hc : st.closed = false) :
    feedChunk sv st c = drain sv ((st.buf ++ c).length + 1) { st with buf := st.buf ++ c } := by
  simp [feedChunk, hc]

/-- feeding any chunking of a prefix of a valid stream, from a state whose buffer is
    itself part of that stream -/
theorem feed_from (sv : Nat) : ∀ (chunks : List Bytes) (st : Inbound) (fs2 : List Frame) (rest : Bytes),
    st.closed = false → PartialHead (effVersion sv) st.buf fs2 →
    (∀ f ∈ fs2, WithinLimits (effVersion sv) f) →
    st.buf ++ chunks.flatten ++ rest = encAll (effVersion sv) fs2 →
    ∃ g h q, fs2 = g ++ h ∧
      chunks.foldl (feedChunk sv) st = { st with buf := q, out := st.out ++ g.map (norm (effVersion sv)) } ∧
      q ++ rest = encAll (effVersion sv) h ∧ PartialHead (effVersion sv) q h := by
  intro chunks
  induction chunks with
  | nil =>
    intro st fs2 rest hcl hph _ he
    refine ⟨[], fs2, st.buf, rfl, ?_, by simpa using he, hph⟩
    cases st; simp
  | cons c cs ih =>
    intro st fs2 rest hcl _ hw he
    have he' : encAll (effVersion sv) fs2 = (st.buf ++ c) ++ (cs.flatten ++ rest) := by
      rw [← he]; simp [List.append_assoc]
    obtain ⟨g1, h1, q1, e1, e2, e3, e4⟩ := prefix_decomp _ fs2 _ _ he'
    have hw1 : ∀ f ∈ g1, WithinLimits (effVersion sv) f := fun f hf => hw f (by simp [e1, hf])
    have hw2 : ∀ f ∈ h1, WithinLimits (effVersion sv) f := fun f hf => hw f (by simp [e1, hf])
    have hstep : feedChunk sv st c =
        { st with buf := q1, out := st.out ++ g1.map (norm (effVersion sv)) } := by
      rw [feedChunk_closed_false sv st c hcl]
      rw [drain_valid sv g1 q1 _ _ hw1 (e4.stalls hw2) e2 (by simp)]
    obtain ⟨g2, h2, q2, f1, f2, f3, f4⟩ :=
      ih { st with buf := q1, out := st.out ++ g1.map (norm (effVersion sv)) } h1 rest hcl e4 hw2
        (by simpa [List.append_assoc] using e3)
    refine ⟨g1 ++ g2, h2, q2, by simp [e1, f1], ?_, f3, f4⟩
    rw [List.foldl_cons, hstep, f2]
    simp [List.append_assoc]

end WK.C23

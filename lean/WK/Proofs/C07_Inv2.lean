import WK.Proofs.C07_Inv
/-
  C07 — index agreement is preserved by staging a fresh row and by deleting a live row.
-/
namespace WK.C07

structure Idx (st : Store) (c : Nat) : Prop where
  g : GAgree st
  i : IAgree (st.chan c)
  s : SAgree (st.chan c)
  cc : CAgree (st.chan c)
  u : SeqUnique (st.chan c).rows

/-- freshness of a row about to be staged in channel `c` -/
structure FreshRow (st : Store) (c : Nat) (row : Row) : Prop where
  id : alookup row.id st.gidx = none
  key : row.frm ≠ [] → row.cmn ≠ [] → alookup (row.cmn, row.frm) (st.chan c).iidx = none
  seq : ∀ r ∈ (st.chan c).rows, r.seq ≠ row.seq

theorem stage_idx (c : Nat) (st : Store) (row : Row) (hc : c < st.chans.length) (h : Idx st c) (f : FreshRow st c row) :
    Idx (stageRow c st row) c := by
  obtain ⟨hrows, hcidx, hiidx, hsidx, _, _, _, hgidx, _, hother⟩ := stageRow_spec c st row hc
  have noId : ∀ c' r, r ∈ (st.chan c').rows → r.id ≠ row.id := by
    intro c' r hr e
    have := (h.g row.id c' r.seq).mpr ⟨r, hr, e, rfl⟩
    rw [f.id] at this; cases this
  constructor
  · -- global id index
    intro id c' s
    rw [hgidx, alookup_aput]
    by_cases hid : row.id = id
    · rw [if_pos hid]
      constructor
      · intro e
        simp only [Option.some.injEq, Prod.mk.injEq] at e
        obtain ⟨e1, e2⟩ := e
        subst e1
        exact ⟨row, by rw [hrows]; simp, hid, e2⟩
      · rintro ⟨r, hr, e1, e2⟩
        by_cases hcc : c' = c
        · subst hcc
          rw [hrows] at hr
          rcases List.mem_append.mp hr with hr | hr
          · exact absurd (e1.trans hid.symm) (noId _ r hr)
          · simp only [List.mem_singleton] at hr; subst hr; simp [e2]
        · rw [hother c' hcc] at hr
          exact absurd (e1.trans hid.symm) (noId _ r hr)
    · rw [if_neg hid, h.g id c' s]
      by_cases hcc : c' = c
      · subst hcc
        rw [hrows]
        constructor
        · rintro ⟨r, hr, e⟩; exact ⟨r, List.mem_append_left _ hr, e⟩
        · rintro ⟨r, hr, e1, e2⟩
          rcases List.mem_append.mp hr with hr | hr
          · exact ⟨r, hr, e1, e2⟩
          · simp only [List.mem_singleton] at hr; subst hr; exact absurd e1 hid
      · rw [hother c' hcc]
  · -- idempotency index
    intro cmn frm v
    rw [hiidx, hrows]
    by_cases hk : row.frm ≠ [] ∧ row.cmn ≠ []
    · rw [if_pos hk, alookup_aput]
      by_cases hkey : (row.cmn, row.frm) = (cmn, frm)
      · rw [if_pos hkey]
        simp only [Prod.mk.injEq] at hkey
        obtain ⟨e1, e2⟩ := hkey
        constructor
        · intro e
          simp only [Option.some.injEq] at e
          exact ⟨row, by simp, e1, e2, e2 ▸ hk.1, e1 ▸ hk.2, e.symm⟩
        · rintro ⟨r, hr, r1, r2, _, _, rv⟩
          rcases List.mem_append.mp hr with hr | hr
          · have := (h.i cmn frm (r.seq, r.id, r.hash)).mpr ⟨r, hr, r1, r2, e2 ▸ hk.1, e1 ▸ hk.2, rfl⟩
            rw [← e1, ← e2, f.key hk.1 hk.2] at this; cases this
          · simp only [List.mem_singleton] at hr; subst hr; rw [rv]
      · rw [if_neg hkey, h.i cmn frm v]
        constructor
        · rintro ⟨r, hr, e⟩; exact ⟨r, List.mem_append_left _ hr, e⟩
        · rintro ⟨r, hr, r1, r2, e⟩
          rcases List.mem_append.mp hr with hr | hr
          · exact ⟨r, hr, r1, r2, e⟩
          · simp only [List.mem_singleton] at hr; subst hr
            exact absurd (by rw [r1, r2]) hkey
    · rw [if_neg hk, h.i cmn frm v]
      constructor
      · rintro ⟨r, hr, e⟩; exact ⟨r, List.mem_append_left _ hr, e⟩
      · rintro ⟨r, hr, r1, r2, n1, n2, e⟩
        rcases List.mem_append.mp hr with hr | hr
        · exact ⟨r, hr, r1, r2, n1, n2, e⟩
        · simp only [List.mem_singleton] at hr; subst hr
          exact absurd ⟨r2 ▸ n1, r1 ▸ n2⟩ hk
  · -- sender-seq index
    intro frm s id
    rw [hsidx, hrows]
    by_cases hk : row.frm ≠ []
    · rw [if_pos hk, alookup_aput]
      by_cases hkey : (row.frm, row.seq) = (frm, s)
      · rw [if_pos hkey]
        simp only [Prod.mk.injEq] at hkey
        obtain ⟨e1, e2⟩ := hkey
        constructor
        · intro e
          simp only [Option.some.injEq] at e
          exact ⟨row, by simp, e1, e1 ▸ hk, e2, e⟩
        · rintro ⟨r, hr, r1, _, r3, r4⟩
          rcases List.mem_append.mp hr with hr | hr
          · exact absurd (r3.trans e2.symm) (f.seq r hr)
          · simp only [List.mem_singleton] at hr; subst hr; rw [r4]
      · rw [if_neg hkey, h.s frm s id]
        constructor
        · rintro ⟨r, hr, e⟩; exact ⟨r, List.mem_append_left _ hr, e⟩
        · rintro ⟨r, hr, r1, r2, r3, r4⟩
          rcases List.mem_append.mp hr with hr | hr
          · exact ⟨r, hr, r1, r2, r3, r4⟩
          · simp only [List.mem_singleton] at hr; subst hr
            exact absurd (by rw [r1, r3]) hkey
    · rw [if_neg hk, h.s frm s id]
      constructor
      · rintro ⟨r, hr, e⟩; exact ⟨r, List.mem_append_left _ hr, e⟩
      · rintro ⟨r, hr, r1, r2, r3, r4⟩
        rcases List.mem_append.mp hr with hr | hr
        · exact ⟨r, hr, r1, r2, r3, r4⟩
        · simp only [List.mem_singleton] at hr; subst hr
          exact absurd (r1 ▸ r2) hk
  · -- legacy client-msg-no index
    intro cmn s
    rw [hcidx, hrows]
    by_cases hk : row.cmn ≠ [] ∧ row.frm = []
    · rw [if_pos hk, alookup_aput]
      by_cases hkey : (row.cmn, row.seq) = (cmn, s)
      · rw [if_pos hkey]
        simp only [Prod.mk.injEq] at hkey
        obtain ⟨e1, e2⟩ := hkey
        constructor
        · intro _
          exact ⟨row, by simp, e1, e1 ▸ hk.1, hk.2, e2⟩
        · intro _; rfl
      · rw [if_neg hkey, h.cc cmn s]
        constructor
        · rintro ⟨r, hr, e⟩; exact ⟨r, List.mem_append_left _ hr, e⟩
        · rintro ⟨r, hr, r1, r2, r3, r4⟩
          rcases List.mem_append.mp hr with hr | hr
          · exact ⟨r, hr, r1, r2, r3, r4⟩
          · simp only [List.mem_singleton] at hr; subst hr
            exact absurd (by rw [r1, r4]) hkey
    · rw [if_neg hk, h.cc cmn s]
      constructor
      · rintro ⟨r, hr, e⟩; exact ⟨r, List.mem_append_left _ hr, e⟩
      · rintro ⟨r, hr, r1, r2, r3, r4⟩
        rcases List.mem_append.mp hr with hr | hr
        · exact ⟨r, hr, r1, r2, r3, r4⟩
        · simp only [List.mem_singleton] at hr; subst hr
          exact absurd ⟨r1 ▸ r2, r3⟩ hk
  · -- sequences stay unique
    intro a ha b hb e
    rw [hrows] at ha hb
    rcases List.mem_append.mp ha with ha1 | ha1 <;> rcases List.mem_append.mp hb with hb1 | hb1
    · exact h.u a ha1 b hb1 e
    · simp only [List.mem_singleton] at hb1; rw [hb1] at e; exact absurd e (f.seq a ha1)
    · simp only [List.mem_singleton] at ha1; rw [ha1] at e; exact absurd e.symm (f.seq b hb1)
    · simp only [List.mem_singleton] at ha1 hb1; rw [ha1, hb1]


theorem delete_idx (c : Nat) (st : Store) (row : Row) (hc : c < st.chans.length) (h : Idx st c)
    (hrow : row ∈ (st.chan c).rows) (hnz : row.id ≠ 0) : Idx (deleteRow c st row) c := by
  obtain ⟨hrows, hcidx, hiidx, hsidx, _, _, _, hgidx, _, hother⟩ := deleteRow_spec c st row hc
  have memf : ∀ r, r ∈ (st.chan c).rows.filter (fun r => r.seq ≠ row.seq) ↔ r ∈ (st.chan c).rows ∧ r.seq ≠ row.seq := by
    intro r; simp [List.mem_filter]
  have sameSeq : ∀ r, r ∈ (st.chan c).rows → r.seq = row.seq → r = row := fun r hr e => h.u r hr row hrow e
  constructor
  · intro id c' s
    rw [hgidx, if_pos hnz, alookup_adel]
    have hrowG := (h.g row.id c row.seq).mpr ⟨row, hrow, rfl, rfl⟩
    by_cases hid : row.id = id
    · rw [if_pos hid]
      constructor
      · intro e; cases e
      · rintro ⟨r, hr, e1, e2⟩
        exfalso
        by_cases hcc : c' = c
        · subst hcc
          rw [hrows, memf] at hr
          have := (h.g row.id c' r.seq).mpr ⟨r, hr.1, e1.trans hid.symm, rfl⟩
          rw [hrowG] at this
          simp only [Option.some.injEq, Prod.mk.injEq, true_and] at this
          exact hr.2 this.symm
        · rw [hother c' hcc] at hr
          have := (h.g row.id c' r.seq).mpr ⟨r, hr, e1.trans hid.symm, rfl⟩
          rw [hrowG] at this
          simp only [Option.some.injEq, Prod.mk.injEq] at this
          exact hcc this.1.symm
    · rw [if_neg hid, h.g id c' s]
      by_cases hcc : c' = c
      · subst hcc
        rw [hrows]
        constructor
        · rintro ⟨r, hr, e1, e2⟩
          refine ⟨r, (memf r).mpr ⟨hr, ?_⟩, e1, e2⟩
          intro es; exact hid ((sameSeq r hr es) ▸ e1)
        · rintro ⟨r, hr, e⟩; exact ⟨r, ((memf r).mp hr).1, e⟩
      · rw [hother c' hcc]
  · intro cmn frm v
    rw [hiidx, hrows]
    have keep : (∃ r ∈ (st.chan c).rows, r.cmn = cmn ∧ r.frm = frm ∧ frm ≠ [] ∧ cmn ≠ [] ∧ v = (r.seq, r.id, r.hash)) →
        ¬(row.cmn = cmn ∧ row.frm = frm ∧ frm ≠ [] ∧ cmn ≠ []) →
        ∃ r ∈ (st.chan c).rows.filter (fun r => r.seq ≠ row.seq), r.cmn = cmn ∧ r.frm = frm ∧ frm ≠ [] ∧ cmn ≠ [] ∧ v = (r.seq, r.id, r.hash) := by
      rintro ⟨r, hr, r1, r2, n1, n2, e⟩ hne
      refine ⟨r, (memf r).mpr ⟨hr, ?_⟩, r1, r2, n1, n2, e⟩
      intro es; have := sameSeq r hr es; subst this; exact hne ⟨r1, r2, n1, n2⟩
    have back : (∃ r ∈ (st.chan c).rows.filter (fun r => r.seq ≠ row.seq), r.cmn = cmn ∧ r.frm = frm ∧ frm ≠ [] ∧ cmn ≠ [] ∧ v = (r.seq, r.id, r.hash)) →
        ∃ r ∈ (st.chan c).rows, r.cmn = cmn ∧ r.frm = frm ∧ frm ≠ [] ∧ cmn ≠ [] ∧ v = (r.seq, r.id, r.hash) := by
      rintro ⟨r, hr, e⟩; exact ⟨r, ((memf r).mp hr).1, e⟩
    by_cases hk : row.frm ≠ [] ∧ row.cmn ≠ []
    · rw [if_pos hk, alookup_adel]
      by_cases hkey : (row.cmn, row.frm) = (cmn, frm)
      · rw [if_pos hkey]
        simp only [Prod.mk.injEq] at hkey
        obtain ⟨e1, e2⟩ := hkey
        constructor
        · intro e; cases e
        · rintro ⟨r, hr, r1, r2, n1, n2, _⟩
          exfalso
          have hr' := (memf r).mp hr
          have a1 := (h.i cmn frm (r.seq, r.id, r.hash)).mpr ⟨r, hr'.1, r1, r2, n1, n2, rfl⟩
          have a2 := (h.i cmn frm (row.seq, row.id, row.hash)).mpr ⟨row, hrow, e1, e2, n1, n2, rfl⟩
          rw [a1] at a2
          simp only [Option.some.injEq, Prod.mk.injEq] at a2
          exact hr'.2 a2.1
      · rw [if_neg hkey, h.i cmn frm v]
        constructor
        · intro hx; exact keep hx (fun hh => hkey (by rw [hh.1, hh.2.1]))
        · exact back
    · rw [if_neg hk, h.i cmn frm v]
      constructor
      · intro hx; exact keep hx (fun hh => hk ⟨hh.2.1 ▸ hh.2.2.1, hh.1 ▸ hh.2.2.2⟩)
      · exact back
  · intro frm s id
    rw [hsidx, hrows]
    have back : (∃ r ∈ (st.chan c).rows.filter (fun r => r.seq ≠ row.seq), r.frm = frm ∧ frm ≠ [] ∧ r.seq = s ∧ r.id = id) →
        ∃ r ∈ (st.chan c).rows, r.frm = frm ∧ frm ≠ [] ∧ r.seq = s ∧ r.id = id := by
      rintro ⟨r, hr, e⟩; exact ⟨r, ((memf r).mp hr).1, e⟩
    have keep : (∃ r ∈ (st.chan c).rows, r.frm = frm ∧ frm ≠ [] ∧ r.seq = s ∧ r.id = id) → ¬(row.frm = frm ∧ row.seq = s) →
        ∃ r ∈ (st.chan c).rows.filter (fun r => r.seq ≠ row.seq), r.frm = frm ∧ frm ≠ [] ∧ r.seq = s ∧ r.id = id := by
      rintro ⟨r, hr, r1, r2, r3, r4⟩ hne
      refine ⟨r, (memf r).mpr ⟨hr, ?_⟩, r1, r2, r3, r4⟩
      intro es; have := sameSeq r hr es; subst this; exact hne ⟨r1, r3⟩
    by_cases hk : row.frm ≠ []
    · rw [if_pos hk, alookup_adel]
      by_cases hkey : (row.frm, row.seq) = (frm, s)
      · rw [if_pos hkey]
        simp only [Prod.mk.injEq] at hkey
        constructor
        · intro e; cases e
        · rintro ⟨r, hr, _, _, r3, _⟩
          exact absurd (r3.trans hkey.2.symm) ((memf r).mp hr).2
      · rw [if_neg hkey, h.s frm s id]
        constructor
        · intro hx; exact keep hx (fun hh => hkey (by rw [hh.1, hh.2]))
        · exact back
    · rw [if_neg hk, h.s frm s id]
      constructor
      · intro hx
        refine keep hx (fun hh => hk ?_)
        obtain ⟨r, _, _, r2, _, _⟩ := hx
        exact hh.1 ▸ r2
      · exact back
  · intro cmn s
    rw [hcidx, hrows]
    have back : (∃ r ∈ (st.chan c).rows.filter (fun r => r.seq ≠ row.seq), r.cmn = cmn ∧ cmn ≠ [] ∧ r.frm = [] ∧ r.seq = s) →
        ∃ r ∈ (st.chan c).rows, r.cmn = cmn ∧ cmn ≠ [] ∧ r.frm = [] ∧ r.seq = s := by
      rintro ⟨r, hr, e⟩; exact ⟨r, ((memf r).mp hr).1, e⟩
    have keep : (∃ r ∈ (st.chan c).rows, r.cmn = cmn ∧ cmn ≠ [] ∧ r.frm = [] ∧ r.seq = s) → ¬(row.cmn = cmn ∧ row.frm = [] ∧ row.seq = s) →
        ∃ r ∈ (st.chan c).rows.filter (fun r => r.seq ≠ row.seq), r.cmn = cmn ∧ cmn ≠ [] ∧ r.frm = [] ∧ r.seq = s := by
      rintro ⟨r, hr, r1, r2, r3, r4⟩ hne
      refine ⟨r, (memf r).mpr ⟨hr, ?_⟩, r1, r2, r3, r4⟩
      intro es; have := sameSeq r hr es; subst this; exact hne ⟨r1, r3, r4⟩
    by_cases hk : row.cmn ≠ [] ∧ row.frm = []
    · rw [if_pos hk, alookup_adel]
      by_cases hkey : (row.cmn, row.seq) = (cmn, s)
      · rw [if_pos hkey]
        simp only [Prod.mk.injEq] at hkey
        constructor
        · intro e; cases e
        · rintro ⟨r, hr, _, _, _, r4⟩
          exact absurd (r4.trans hkey.2.symm) ((memf r).mp hr).2
      · rw [if_neg hkey, h.cc cmn s]
        constructor
        · intro hx; exact keep hx (fun hh => hkey (by rw [hh.1, hh.2.2]))
        · exact back
    · rw [if_neg hk, h.cc cmn s]
      constructor
      · intro hx
        refine keep hx (fun hh => hk ⟨?_, hh.2.1⟩)
        obtain ⟨r, _, _, r2, _, _⟩ := hx
        exact hh.1 ▸ r2
      · exact back
  · intro a ha b hb e
    rw [hrows] at ha hb
    exact h.u a ((memf a).mp ha).1 b ((memf b).mp hb).1 e

end WK.C07

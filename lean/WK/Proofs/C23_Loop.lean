import WK.Theorems.C22
import WK.Spec.C23
/-
  C23 — lemmas about `decodeLoop` / `adapterDecode`.
-/
namespace WK.C23
open WK.C22

theorem encOf_ok (v : Nat) (f : Frame) (h : WithinLimits v f) : encodeFrame v f = .ok (encOf v f) := by
  obtain ⟨bs, hb, _⟩ := c22_roundtrip v f [] h
  simp [encOf, hb]

theorem decode_encOf (v : Nat) (f : Frame) (rest : Bytes) (h : WithinLimits v f) :
    decodeFrame v (encOf v f ++ rest) = .ok (norm v f) (encOf v f).length := by
  obtain ⟨bs, hb, hd⟩ := c22_roundtrip v f rest h
  have : encOf v f = bs := by simp [encOf, hb]
  rw [this]; exact hd

theorem encOf_pos (v : Nat) (f : Frame) (h : WithinLimits v f) : 0 < (encOf v f).length := by
  have := decode_encOf v f [] h
  have := (c22_decode_bounds v _ _ _ this).1
  omega

@[simp] theorem encAll_nil (v : Nat) : encAll v [] = [] := rfl
@[simp] theorem encAll_cons (v : Nat) (f : Frame) (fs : List Frame) :
    encAll v (f :: fs) = encOf v f ++ encAll v fs := by simp [encAll]
theorem encAll_append (v : Nat) (fs gs : List Frame) : encAll v (fs ++ gs) = encAll v fs ++ encAll v gs := by
  simp [encAll]

theorem length_le_encAll (v : Nat) (fs : List Frame) (h : ∀ f ∈ fs, WithinLimits v f) :
    fs.length ≤ (encAll v fs).length := by
  induction fs with
  | nil => simp
  | cons f fs ih =>
    have hp := encOf_pos v f (h f (by simp))
    have := ih (fun g hg => h g (by simp [hg]))
    simp only [encAll_cons, List.length_cons, List.length_append]
    omega

theorem decodeLoop_no_panic (v : Nat) : ∀ (fuel : Nat) (rem : Bytes), decodeLoop v fuel rem ≠ .panic := by
  intro fuel
  induction fuel with
  | zero => intro rem; simp [decodeLoop]
  | succ k ih =>
    intro rem
    cases rem with
    | nil => simp [decodeLoop]
    | cons b r =>
      simp only [decodeLoop]
      cases hd : decodeFrame v (b :: r) with
      | panic => exact absurd ((c22_decode_panic_iff v _).1 hd) (by simp)
      | need => simp
      | err => simp
      | ok f n =>
        simp only
        split
        · simp
        · have := ih ((b :: r).drop n)
          cases hl : decodeLoop v k ((b :: r).drop n) with
          | panic => exact absurd hl this
          | err => simp
          | ok fs c => simp

theorem decodeLoop_bounds (v : Nat) : ∀ (fuel : Nat) (rem : Bytes) (fs : List Frame) (c : Nat),
    decodeLoop v fuel rem = .ok fs c → c ≤ rem.length ∧ fs.length ≤ c ∧ (fs = [] → c = 0) := by
  intro fuel
  induction fuel with
  | zero => intro rem fs c h; simp [decodeLoop] at h; obtain ⟨rfl, rfl⟩ := h; simp
  | succ k ih =>
    intro rem fs c h
    cases rem with
    | nil => simp [decodeLoop] at h; obtain ⟨rfl, rfl⟩ := h; simp
    | cons b r =>
      simp only [decodeLoop] at h
      cases hd : decodeFrame v (b :: r) with
      | panic => simp [hd] at h
      | err => simp [hd] at h
      | need => simp [hd] at h; obtain ⟨rfl, rfl⟩ := h; simp
      | ok f n =>
        simp only [hd] at h
        have hb := c22_decode_bounds v _ _ _ hd
        split at h
        · simp at h; obtain ⟨rfl, rfl⟩ := h; simp
        · cases hl : decodeLoop v k ((b :: r).drop n) with
          | panic => simp [hl] at h
          | err => simp [hl] at h
          | ok fs' c' =>
            simp only [hl, AllRes.ok.injEq] at h
            obtain ⟨rfl, rfl⟩ := h
            have := ih _ _ _ hl
            simp only [List.length_drop] at this
            refine ⟨by omega, by simp; omega, by simp⟩

/-- The stream lemma for the loop: complete in-limit frames followed by a tail on
    which the decoder stalls. -/
theorem decodeLoop_frames (v : Nat) : ∀ (fs : List Frame) (tail : Bytes) (fuel : Nat),
    (∀ f ∈ fs, WithinLimits v f) → fs.length ≤ fuel → Stalls v tail →
    decodeLoop v fuel (encAll v fs ++ tail) = .ok (fs.map (norm v)) (encAll v fs).length := by
  intro fs
  induction fs with
  | nil =>
    intro tail fuel _ _ hst
    simp only [encAll, List.map_nil, List.flatten_nil, List.nil_append, List.length_nil]
    cases fuel with
    | zero => rfl
    | succ k =>
      cases tail with
      | nil => rfl
      | cons b r =>
        rcases hst with h | h
        · cases h
        · simp [decodeLoop, h]
  | cons f fs ih =>
    intro tail fuel hall hfuel hst
    have hfuel' : fs.length + 1 ≤ fuel := by simpa using hfuel
    obtain ⟨k, rfl⟩ : ∃ k, fuel = k + 1 := ⟨fuel - 1, by omega⟩
    have hw := hall f (by simp)
    have hpos := encOf_pos v f hw
    have hdec := decode_encOf v f (encAll v fs ++ tail) hw
    have e : encAll v (f :: fs) ++ tail = encOf v f ++ (encAll v fs ++ tail) := by
      simp [encAll, List.append_assoc]
    rw [e]
    cases hx : encOf v f ++ (encAll v fs ++ tail) with
    | nil => have := congrArg List.length hx; simp only [List.length_append, List.length_nil] at this; omega
    | cons b r =>
      rw [← hx]
      have step : decodeLoop v (k + 1) (encOf v f ++ (encAll v fs ++ tail)) =
          (if (encOf v f).length = 0 then AllRes.ok [] 0
           else match decodeLoop v k ((encOf v f ++ (encAll v fs ++ tail)).drop (encOf v f).length) with
             | .ok fs' c => .ok (norm v f :: fs') ((encOf v f).length + c)
             | r => r) := by
        rw [hx]
        simp only [decodeLoop]
        rw [← hx, hdec]
        rfl
      rw [step, if_neg (by omega), List.drop_left]
      rw [ih tail k (fun g hg => hall g (by simp [hg])) (by omega) hst]
      simp [encAll]


/-- **No progress on a partial frame**: on a strict prefix of the encoding of an
    in-limit frame the decoder stalls (never an error, never a frame). -/
theorem partial_stalls (v : Nat) (f : Frame) (hw : WithinLimits v f) (p q : Bytes)
    (hpq : encOf v f = p ++ q) (hq : q ≠ []) : Stalls v p := by
  cases p with
  | nil => exact Or.inl rfl
  | cons b0 p' =>
    right
    have hqpos : 0 < q.length := List.length_pos_iff.mpr hq
    by_cases hp : f.typeNo ≠ 7 ∧ f.typeNo ≠ 8
    · obtain ⟨body, he, hl⟩ := c22_encode_shape v f hw hp
      have henc : encOf v f = hdrByte f.typeNo f.flags :: (encVar (bodySize v f) ++ body) := by
        simp [encOf, he]
      rw [henc, List.cons_append, List.cons.injEq] at hpq
      obtain ⟨rfl, hpq⟩ := hpq
      have hpos := c22_body_nonempty v f hp
      have hlt : bodySize v f < 268435456 := by
        have := hw.2; simp [maxRemainingLength] at this; omega
      obtain ⟨hty, hty0⟩ := typeNo_lt f
      have hty' := typeOfByte_hdr f.typeNo f.flags hty
      rw [List.append_eq_append_iff] at hpq
      -- in either case the header cannot be completed or the body is short
      have key : decLen p' = none ∨
          (decLen p' = some (bodySize v f, varSize (bodySize v f)) ∧
            (hdrByte f.typeNo f.flags :: p').length < bodySize v f + 1 + varSize (bodySize v f)) := by
        rcases hpq with ⟨a', h1, h2⟩ | ⟨c', h1, h2⟩
        · right
          subst h1
          refine ⟨decLen_encVar (bodySize v f) a' hpos hlt, ?_⟩
          have : a'.length + q.length = bodySize v f := by rw [← hl, h2]; simp
          simp [encVar_length]; omega
        · by_cases hc : c' = []
          · subst hc
            simp only [List.append_nil, List.nil_append] at h1 h2
            right
            rw [← h1]
            refine ⟨by simpa using decLen_encVar (bodySize v f) [] hpos hlt, ?_⟩
            simp [encVar_length]; omega
          · left
            have hcl : 0 < c'.length := List.length_pos_iff.mpr hc
            apply decLen_prefix_none (bodySize v f) p' hpos hlt
            · rw [h1]; simp; omega
            · exact ⟨c', h1.symm⟩
      simp only [decodeFrame, decodeHeader, hty']
      rw [if_pos hp]
      rcases key with hk | ⟨hk, hlen⟩
      · simp [hk]
      · simp only [hk]
        simp only [if_neg hty0, if_neg hp.1, if_neg hp.2]
        have c2 : ¬ bodySize v f > maxRemainingLength := by have := hw.2; omega
        rw [if_neg c2, if_pos hlen]
    · -- PING / PONG encode to one byte: a strict prefix is empty
      exfalso
      have : f.typeNo = 7 ∨ f.typeNo = 8 := by omega
      have hlen : (encOf v f).length = 1 := by
        cases f <;> simp [Frame.typeNo] at this <;> simp [encOf, encodeFrame]
      rw [hpq] at hlen
      simp only [List.length_append, List.length_cons] at hlen
      omega

end WK.C23

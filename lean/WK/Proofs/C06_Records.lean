import WK.Proofs.C06_Reactor
/-
  C06 — an ok reply carries exactly the waiter's records (model counterpart of the judge clause
  added for the first-record-Target mutant), and a mixed machine/reactor history for c06_rinv_run.
-/
namespace WK.C06

theorem consecutive_range' (a n : Nat) : consecutive (List.range' a n) = true := by
  induction n generalizing a with
  | zero => rfl
  | succ k ih =>
    cases k with
    | zero => rfl
    | succ j =>
      have := ih (a + 1)
      simp only [List.range'_succ] at this ⊢
      simp [consecutive, this]

theorem slice_range' (base n next c : Nat) (h : next + c ≤ n) :
    slice (List.range' base n) next (next + c) = List.range' (base + next) c := by
  unfold slice
  apply List.ext_getElem
  · simp; omega
  · intro i h1 h2
    simp at h1 h2 ⊢
    try omega

/-- NAMED HYPOTHESIS (bookkeeping of ProposeAppendBatch, not part of `Inv`): the in-flight
    batch's WaiterRecordCounts entry equals the waiter's record count, and the batch's
    flattened record list is long enough. -/
def CountsMatch (w : Waiter) (count next n : Nat) : Prop :=
  count = w.recs.length ∧ 0 < count ∧ next + count ≤ n

/-- assignInflightRecordsToWaiters gives a waiter exactly `count` consecutive sequences
    starting at base+next, Target = the LAST of them -/
theorem assignOne_exact (base n : Nat) (w : Waiter) (count next : Nat) (h : CountsMatch w count next n) :
    (assignOne (List.range' base n) w count next).1.recs = List.range' (base + next) count ∧
    (assignOne (List.range' base n) w count next).1.target = base + next + count - 1 ∧
    (assignOne (List.range' base n) w count next).2 = next + count := by
  obtain ⟨h1, h2, h3⟩ := h
  have he : (assignOne (List.range' base n) w count next).2 = next + count := by
    unfold assignOne
    dsimp only
    have hc : (count == 0) = false := by simp; omega
    simp only [hc, Bool.false_eq_true, if_false, List.length_range']
    have hp : count > 0 := h2
    simp only [hp, if_true]
    rw [if_neg (by omega)]
  have hr : (assignOne (List.range' base n) w count next).1.recs =
      slice (List.range' base n) next (assignOne (List.range' base n) w count next).2 := rfl
  have hrecs : (assignOne (List.range' base n) w count next).1.recs = List.range' (base + next) count := by
    rw [hr, he, slice_range' base n next count h3]
  refine ⟨hrecs, ?_, he⟩
  have ht : (assignOne (List.range' base n) w count next).1.target =
      if (assignOne (List.range' base n) w count next).1.recs.length > 0 then
        (assignOne (List.range' base n) w count next).1.recs.getLast?.getD 0
      else w.target := rfl
  rw [ht, hrecs, List.length_range', if_pos h2]
  cases count with
  | zero => omega
  | succ k =>
    rw [List.range'_concat, List.getLast?_append]
    first
      | (simp; done)
      | (simp; omega)

theorem lookupW_setW_self {p : List Waiter} {w : Waiter} (h : hasW p w.op = true) :
    lookupW (setW p w) w.op = some w := by
  unfold setW
  rw [if_pos h]
  unfold lookupW
  unfold hasW at h
  induction p with
  | nil => simp at h
  | cons a t ih =>
    simp only [List.map_cons, List.find?_cons]
    by_cases ha : a.op = w.op
    · simp [ha]
    · have hb : (a.op == w.op) = false := by simpa using ha
      simp only [hb, Bool.false_eq_true, if_false]
      simp only [List.any_cons, hb, Bool.false_or] at h
      exact ih h

/-- An ok reply carries EXACTLY the records of the waiter that was pending under its op
    when completeAppendWaiters ran (sequences, Target) … -/
theorem c06_reply_carries_waiter_records (s : State) (order : List Nat) (rp : Reply)
    (h : rp ∈ (completeAppendWaiters s order).2.replies) :
    ∃ w, lookupW s.pending rp.op = some w ∧ rp.seqs = w.recs ∧ rp.target = w.target ∧ rp.err = .ok := by
  unfold completeAppendWaiters at h
  split at h
  · simp at h
  · dsimp only at h
    obtain ⟨w, h1, _, h3, h4, h5⟩ := completeLoop_reflects _ _ _ rp h
    exact ⟨w, h1, h4, h3, h5⟩

/-- … and a waiter whose offsets were assigned under `CountsMatch` is answered with exactly
    `count` = len(its records) CONSECUTIVE sequences whose last one is its Target: the judge
    clause `viol:reply-items-do-not-match-waiter-records` / `…not-covered-by-hw` as a theorem
    about assignInflightRecordsToWaiters + completeAppendWaiters.
    `_partial`: CountsMatch (established by ProposeAppendBatch: counts[i] = len(cloned),
    Records = concatenation) is a hypothesis, not derived from `Inv`. -/
theorem c06_reply_records_exact_partial (s : State) (base n : Nat) (w : Waiter) (count next : Nat)
    (hw : lookupW s.pending w.op = some w) (hc : CountsMatch w count next n)
    (order : List Nat) (rp : Reply)
    (hr : rp ∈ (completeAppendWaiters
            { s with pending := setW s.pending (assignOne (List.range' base n) w count next).1 } order).2.replies)
    (hop : rp.op = w.op) :
    rp.seqs = List.range' (base + next) count ∧ rp.seqs.length = w.recs.length ∧
    consecutive rp.seqs = true ∧ rp.seqs.getLast? = some rp.target := by
  obtain ⟨w', h1, h2, h3, _⟩ := c06_reply_carries_waiter_records _ order rp hr
  dsimp only at h1
  have hhas : hasW s.pending (assignOne (List.range' base n) w count next).1.op = true := by
    rw [assignOne_op]; exact hasW_iff.mpr (lookupW_some_mem_keys hw)
  have hself := lookupW_setW_self hhas
  rw [assignOne_op] at hself
  rw [hop, hself] at h1
  have hw' : w' = (assignOne (List.range' base n) w count next).1 := (Option.some.inj h1).symm
  obtain ⟨e1, e2, _⟩ := assignOne_exact base n w count next hc
  rw [hw'] at h2 h3
  rw [e1] at h2
  rw [e2] at h3
  obtain ⟨c1, c2, _⟩ := hc
  refine ⟨h2, by rw [h2, List.length_range', c1], by rw [h2]; exact consecutive_range' _ _, ?_⟩
  rw [h2, h3]
  cases count with
  | zero => omega
  | succ k =>
    rw [List.range'_concat, List.getLast?_append]
    first
      | (simp; done)
      | (simp; omega)

-- non-vacuity of c06_reply_records_exact_partial: a 2-record quorum waiter, offsets 1..2, HW = 2
def exW : Waiter := ⟨11, 0, 1, [0, 0]⟩
def exS : State := { hw := 2, leo := 2, pending := [exW], order := [11] }

example : CountsMatch exW 2 0 3 := ⟨rfl, by decide, by decide⟩

example : ((completeAppendWaiters
    { exS with pending := setW exS.pending (assignOne (List.range' 1 3) exW 2 0).1 } [11]).2.replies.map
      (fun r => (r.op, r.seqs, r.target))) = [(11, [1, 2], 2)] := by decide

/-- A history mixing machine events with an admissible install result and an admissible
    checkpoint result (non-vacuity of `c06_rinv_run`): a loaded leader (LEO = HW = 5,
    CheckpointHW 2) admits a 2-record quorum waiter, the store answers 6..7, a quorum install
    recovers (7, 6), a checkpoint of HW = 6 completes, follower 2 acks 7 and the waiter is answered. -/
def mixedDemo : List REvent :=
  [ .machine (.propose 10 [⟨11, 1, 2⟩]),
    .machine (.stored ⟨1, 7, 1, 1, 10⟩ 6 7 .ok),
    .install ⟨1, 7, 1, 1, 99⟩ 1 7 6 .ok,
    .ckptResult ⟨1, 7, 1, 1, 77⟩ true 6 .ok,
    .machine (.ack 1 1 1 2 7) ]

theorem mixedDemo_admissible : AdmissibleRun (loadedLeader 2) mixedDemo := by
  refine ⟨trivial, trivial, ⟨by decide, by decide⟩, (by show (6 : Nat) ≤ _; decide), trivial, trivial⟩

theorem c06_rinv_run_mixed_demo :
    AdmissibleRun (loadedLeader 2) mixedDemo ∧ Inv (rrun (loadedLeader 2) mixedDemo).1 ∧
    (rrun (loadedLeader 2) mixedDemo).1.leo = 7 ∧ (rrun (loadedLeader 2) mixedDemo).1.hw = 7 ∧
    (rrun (loadedLeader 2) mixedDemo).1.ckpt = 6 ∧
    (rrun (loadedLeader 2) mixedDemo).2.map (fun d => d.replies.map (fun r => (r.op, r.seqs))) =
      [[], [], [], [], [(11, [6, 7])]] := by
  refine ⟨mixedDemo_admissible, (c06_rinv_run (loadedLeader_inv 2 (by decide)) mixedDemo mixedDemo_admissible).1,
          ?_, ?_, ?_, ?_⟩ <;> decide

end WK.C06

import WK.Theorems.C33
/-
  C33 (final round): BecomeAuthority with the installed identity is a no-op on authority state;
  the stored owner sequence of an identity never decreases within an authority incarnation.
-/
namespace WK.C33

/-- **BecomeAuthority with the installed identity is a no-op on authority state.**  If hash slot
    `t.hs` already has an authority with the same identity (slot id, leader, term, config epoch;
    any RouteRevision / AuthorityEpoch), `BecomeAuthority(t)` keeps active routes, pending
    candidates, owner sequences, tombstones, the expiry index and the token counter; only the
    stored target may advance to `t` (when its revision is not older).  Other slots are untouched. -/
theorem c33_become_authority_same_identity_noop (d : Dir) (t : Target) (cur : Slot)
    (hc : aget t.hs d.slots = some cur) (hs : sameAuth cur.target t = true) :
    (∃ s', aget t.hs (step d (.become t)).1.slots = some s' ∧
      s'.active = cur.active ∧ s'.pending = cur.pending ∧ s'.ownerSeq = cur.ownerSeq ∧ s'.tomb = cur.tomb ∧
      s'.buckets = cur.buckets ∧ s'.byKey = cur.byKey ∧ s'.nextID = cur.nextID ∧
      (s'.target = t ∨ s'.target = cur.target) ∧ sameAuth s'.target t = true) ∧
    (∀ hs', hs' ≠ t.hs → aget hs' (step d (.become t)).1.slots = aget hs' d.slots) ∧
    (step d (.become t)).1.touchTotal = d.touchTotal ∧ (step d (.become t)).1.expiredTotal = d.expiredTotal := by
  simp only [step, Dir.become, hc, hs, if_true]
  split
  · refine ⟨⟨{ cur with target := t }, by rw [aget_setSlot]; simp, rfl, rfl, rfl, rfl, rfl, rfl, rfl, Or.inl rfl, ?_⟩, ?_, rfl, rfl⟩
    · simp [sameAuth]
    · intro hs' hne; rw [aget_setSlot]; simp [hne]
  · exact ⟨⟨cur, hc, rfl, rfl, rfl, rfl, rfl, rfl, rfl, Or.inr rfl, hs⟩, fun _ _ => rfl, rfl, rfl⟩


/-! #### the stored owner sequence never decreases -/

def SeqMono (s s' : Slot) : Prop := ∀ k, getSeq k s.ownerSeq ≤ getSeq k s'.ownerSeq

theorem SeqMono.refl (s : Slot) : SeqMono s s := fun _ => Nat.le_refl _
theorem SeqMono.of_eq {s s' : Slot} (h : s'.ownerSeq = s.ownerSeq) : SeqMono s s' := by
  intro k; rw [h]; exact Nat.le_refl _
theorem SeqMono.trans {a b c : Slot} (h1 : SeqMono a b) (h2 : SeqMono b c) : SeqMono a c :=
  fun k => Nat.le_trans (h1 k) (h2 k)

theorem getSeq_aset (k k' : Key) (v : Nat) (m : List (Key × Nat)) :
    getSeq k' (aset k v m) = if k' = k then v else getSeq k' m := by
  unfold getSeq; rw [aget_aset]; split <;> rfl

theorem seqMono_aset {s : Slot} {k : Key} {v : Nat} (h : getSeq k s.ownerSeq ≤ v) (s' : Slot)
    (hs' : s'.ownerSeq = aset k v s.ownerSeq) : SeqMono s s' := by
  intro k'
  rw [hs', getSeq_aset]
  split
  · rename_i e; rw [e]; exact h
  · exact Nat.le_refl _

theorem staleFor_false_seq {s : Slot} {k : Key} {q : Nat} (h : s.staleFor k q = false) :
    getSeq k s.ownerSeq ≤ q := by
  unfold Slot.staleFor at h
  simp only [Bool.or_eq_false_iff, decide_eq_false_iff_not] at h
  omega

theorem register_seqMono (s : Slot) (r : Route) : SeqMono s (s.register r).1 := by
  unfold Slot.register
  simp only
  split
  · exact SeqMono.refl s
  · rename_i hst
    simp only [Bool.not_eq_true] at hst
    have hle := staleFor_false_seq hst
    split
    · exact seqMono_aset hle _ (by simp)
    · exact seqMono_aset hle _ rfl

theorem removeAll_ownerSeq (ks : List Key) : ∀ s : Slot, (removeAll s ks).ownerSeq = s.ownerSeq := by
  induction ks with
  | nil => intro s; rfl
  | cons k ks ih => intro s; unfold removeAll; split <;> simp [ih]

theorem commit_ownerSeq (s : Slot) (tok : String) : (s.commit tok).1.ownerSeq = s.ownerSeq := by
  unfold Slot.commit
  split
  · rfl
  · simp only
    split
    · rfl
    · split
      · rfl
      · simp only [upsert_ownerSeq, removeAll_ownerSeq]

theorem abort_ownerSeq (s : Slot) (tok : String) : (s.abort tok).1.ownerSeq = s.ownerSeq := by
  unfold Slot.abort; split <;> rfl

theorem unregActive_ownerSeq (s : Slot) (k : Key) (q : Nat) : (s.unregActive k q).ownerSeq = s.ownerSeq := by
  unfold Slot.unregActive
  split
  · split <;> simp
  · rfl

theorem unregister_seqMono (s : Slot) (k : Key) (q : Nat) : SeqMono s (s.unregister k q) := by
  have h : (s.unregister k q).ownerSeq = (if q > getSeq k s.ownerSeq then aset k q s.ownerSeq else s.ownerSeq) := by
    unfold Slot.unregister Slot.unregPending
    simp only [unregActive_ownerSeq]
    rfl
  by_cases hq : q > getSeq k s.ownerSeq
  · exact seqMono_aset (Nat.le_of_lt hq) _ (by rw [h]; simp [hq])
  · exact SeqMono.of_eq (by rw [h]; simp [hq])

theorem touch_seqMono (s : Slot) (r : Route) : SeqMono s (s.touch r) := by
  unfold Slot.touch
  split
  · exact SeqMono.refl s
  · simp only
    split
    · exact SeqMono.refl s
    · rename_i hst
      simp only [Bool.not_eq_true] at hst
      have hle := staleFor_false_seq hst
      split
      · exact seqMono_aset hle _ (by simp)
      · split
        · exact seqMono_aset hle _ (by simp)
        · exact seqMono_aset hle _ rfl

theorem touches_seqMono (rs : List Route) : ∀ s : Slot, SeqMono s (rs.foldl Slot.touch s) := by
  induction rs with
  | nil => intro s; exact SeqMono.refl s
  | cons r rs ih => intro s; exact (touch_seqMono s r).trans (ih _)

theorem step_slot_seqMono {d : Dir} {hs : Nat} {s : Slot} (hd : DirInv d) (op : Op)
    (hk : keepsSlot d hs op = true) (hs0 : aget hs d.slots = some s) :
    ∃ s', aget hs (step d op).1.slots = some s' ∧ SeqMono s s' := by
  have same : ∃ s', aget hs d.slots = some s' ∧ SeqMono s s' := ⟨s, hs0, SeqMono.refl s⟩
  have upd : ∀ (t : Target) (s0 s1 : Slot), d.validate t = some s0 → (s1.ownerSeq = s0.ownerSeq ∨ SeqMono s0 s1) →
      ∃ s', aget hs (d.setSlot t.hs s1).slots = some s' ∧ SeqMono s s' := by
    intro t s0 s1 hv hm
    rw [aget_setSlot]
    by_cases he : hs = t.hs
    · simp only [he, if_true]
      have : s0 = s := by
        have := (validate_some hv).1
        rw [← he, hs0] at this; cases this; rfl
      subst this
      rcases hm with hm | hm
      · exact ⟨s1, rfl, SeqMono.of_eq hm⟩
      · exact ⟨s1, rfl, hm⟩
    · simp only [he, if_false]; exact same
  cases op with
  | become t =>
    simp only [keepsSlot, Bool.or_eq_true, bne_iff_ne, ne_eq] at hk
    simp only [step, Dir.become]
    by_cases he : t.hs = hs
    · rcases hk with hk | hk
      · exact absurd he hk
      · rw [hs0] at hk
        simp only at hk
        rw [he, hs0]
        simp only [hk, if_true]
        split
        · rw [aget_setSlot]; simp only [if_true]
          exact ⟨_, rfl, SeqMono.of_eq rfl⟩
        · exact same
    · have hne : hs ≠ t.hs := fun e => he e.symm
      split
      · split
        · split
          · rw [aget_setSlot]; simp only [hne, if_false]; exact same
          · exact same
        · rw [aget_setSlot]; simp only [hne, if_false]; exact same
      · rw [aget_setSlot]; simp only [hne, if_false]; exact same
  | lose h =>
    simp only [keepsSlot, bne_iff_ne, ne_eq] at hk
    simp only [step, aget_adel]
    have : hs ≠ h := fun e => hk e.symm
    simp only [this, if_false]; exact same
  | reg t r =>
    simp only [step]
    split
    · exact same
    · rename_i s0 hv
      have ht := register_seqMono s0 r
      split <;> (rename_i heq; rw [heq] at ht; exact upd t s0 _ hv (Or.inr ht))
  | commit t tok =>
    simp only [step]
    split
    · exact same
    · rename_i s0 hv
      have ht := commit_ownerSeq s0 tok
      split <;> (rename_i heq; rw [heq] at ht; exact upd t s0 _ hv (Or.inl ht))
  | abort t tok =>
    simp only [step]
    split
    · exact same
    · rename_i s0 hv
      have ht := abort_ownerSeq s0 tok
      split <;> (rename_i heq; rw [heq] at ht; exact upd t s0 _ hv (Or.inl ht))
  | unreg t k q =>
    simp only [step]
    split
    · exact same
    · rename_i s0 hv
      exact upd t s0 _ hv (Or.inr (unregister_seqMono s0 k q))
  | touch t rs =>
    simp only [step]
    split
    · exact same
    · rename_i s0 hv
      exact upd t s0 _ hv (Or.inr (touches_seqMono rs s0))
  | expire nz now ttl =>
    simp only [step, expireSlots_fst]
    have hm := aget_map_snd (fun s : Slot => (s.expire nz now ttl).1) hs d.slots
    rw [hm, hs0]
    exact ⟨_, rfl, SeqMono.of_eq (slot_expire_exact s (slotInv_of_aget hd hs0).idx nz now ttl).2.2.1.ownerSeq⟩
  | ep t u => simp only [step]; split <;> exact same
  | eps t us => simp only [step]; split <;> exact same
  | ept gs => exact same
  | snap => exact same


/-- **The stored owner sequence of an identity never decreases** over any operation sequence that
    stays within one authority incarnation of the hash slot (register, commit, abort, unregister,
    touch, expire, lookups, BecomeAuthority with the same identity, operations on other slots). -/
theorem c33_owner_seq_monotone {hs : Nat} : ∀ (ops : List Op) (d : Dir) (s : Slot), DirInv d →
    aget hs d.slots = some s → keepsAll hs d ops →
    ∃ s', aget hs (run d ops).slots = some s' ∧ ∀ k, getSeq k s.ownerSeq ≤ getSeq k s'.ownerSeq := by
  intro ops
  induction ops with
  | nil => intro d s _ h _; exact ⟨s, h, fun _ => Nat.le_refl _⟩
  | cons op ops ih =>
    intro d s hd h hk
    obtain ⟨hk1, hk2⟩ := hk
    obtain ⟨s1, g1, g2⟩ := step_slot_seqMono hd op hk1 h
    obtain ⟨s', g3, g4⟩ := ih (step d op).1 s1 (dirInv_step hd op) g1 hk2
    exact ⟨s', g3, fun k => Nat.le_trans (g2 k) (g4 k)⟩

/-! non-vacuity -/
/-- re-announcing the same authority with a newer and then an older revision keeps the route, its
    owner sequence and the tombstone of another identity; the target follows only the newer one -/
example : ((run {} [.become exT, .reg exT (exR 3), .unreg exT ⟨[118], 1, 1, 1⟩ 7, .become { exT with rev := 5, aepoch := 9 },
      .become { exT with rev := 2 }]).slots.map
    (fun p => (p.2.target.rev, p.2.active.map (·.seq), p.2.tomb.map (·.2), p.2.ownerSeq.map (·.2)))) = [(5, [3], [7], [7, 3])] := by decide
/-- the owner sequence really moves (3 → 5) and an older register (4) is refused without lowering it -/
example : ((run {} [.become exT, .reg exT (exR 3), .reg exT (exR 5), .reg exT (exR 4)]).slots.map
    (fun p => getSeq exK p.2.ownerSeq)) = [5] := by decide
example : keepsAll 0 (run {} [.become exT]) [.reg exT (exR 3), .become { exT with rev := 5 }, .reg exT (exR 5)] :=
  ⟨rfl, rfl, rfl, trivial⟩

end WK.C33

import WK.Model.C28
/-
  C28 — list lemmas about `itemsOf`, `popFirst`, `takeP` used by the invariant proof.
-/
namespace WK.C28

@[simp] theorem upd_same (f : Nat → Sess) (s : Nat) (v : Sess) : upd f s v s = v := by simp [upd]
theorem upd_ne (f : Nat → Sess) {s x : Nat} (v : Sess) (h : x ≠ s) : upd f s v x = f x := by simp [upd, h]

@[simp] theorem itemsOf_nil (s : Nat) : itemsOf s [] = [] := rfl

theorem itemsOf_cons (s : Nat) (t n : Nat) (l : List Item) :
    itemsOf s ((t, n) :: l) = if t = s then n :: itemsOf s l else itemsOf s l := by
  by_cases h : t = s <;> simp [itemsOf, h]

theorem itemsOf_append (s : Nat) (a b : List Item) : itemsOf s (a ++ b) = itemsOf s a ++ itemsOf s b := by
  simp [itemsOf]

theorem itemsOf_single_same (s n : Nat) : itemsOf s [(s, n)] = [n] := by simp [itemsOf]
theorem itemsOf_single_ne {s t : Nat} (n : Nat) (h : t ≠ s) : itemsOf s [(t, n)] = [] := by
  simp [itemsOf, h]

theorem popFirst_spec (s : Nat) : ∀ (l : List Item) (n : Nat) (r : List Item), popFirst s l = some (n, r) →
    itemsOf s l = n :: itemsOf s r ∧ (∀ t, t ≠ s → itemsOf t l = itemsOf t r) ∧ l.length = r.length + 1
  | [], n, r, h => by simp [popFirst] at h
  | (t, m) :: xs, n, r, h => by
    unfold popFirst at h
    by_cases hts : t = s
    · simp [hts] at h
      obtain ⟨h1, h2⟩ := h
      subst h1; subst h2; subst hts
      refine ⟨by simp [itemsOf_cons], ?_, by simp⟩
      intro u hu
      simp [itemsOf_cons, Ne.symm hu]
    · simp [hts] at h
      cases hp : popFirst s xs with
      | none => simp [hp] at h
      | some pr =>
        obtain ⟨m', r'⟩ := pr
        simp [hp] at h
        obtain ⟨h1, h2⟩ := h
        subst h1; subst h2
        obtain ⟨ih1, ih2, ih3⟩ := popFirst_spec s xs m' r' hp
        refine ⟨?_, ?_, ?_⟩
        · simp [itemsOf_cons, hts, ih1]
        · intro u hu
          by_cases htu : t = u
          · simp [itemsOf_cons, htu, ih2 u hu]
          · simp [itemsOf_cons, htu, ih2 u hu]
        · simp [ih3]

theorem popFirst_none (s : Nat) : ∀ (l : List Item), popFirst s l = none → itemsOf s l = []
  | [], _ => rfl
  | (t, m) :: xs, h => by
    unfold popFirst at h
    by_cases hts : t = s
    · simp [hts] at h
    · simp [hts] at h
      cases hp : popFirst s xs with
      | none => simp [itemsOf_cons, hts, popFirst_none s xs hp]
      | some pr => obtain ⟨a, b⟩ := pr; simp [hp] at h

@[simp] theorem takeP_nil (p : Item → Bool) (k : Nat) : takeP p k [] = ([], []) := by cases k <;> rfl

theorem takeP_cons_pos (p : Item → Bool) (k : Nat) (x : Item) (xs : List Item) (h : p x = true) :
    takeP p (k+1) (x :: xs) = (x :: (takeP p k xs).1, (takeP p k xs).2) := by simp [takeP, h]
theorem takeP_cons_neg (p : Item → Bool) (k : Nat) (x : Item) (xs : List Item) (h : ¬ p x = true) :
    takeP p (k+1) (x :: xs) = ((takeP p (k+1) xs).1, x :: (takeP p (k+1) xs).2) := by simp [takeP, h]

theorem takeP_in (p : Item → Bool) (s : Nat) (hp : ∀ it : Item, it.1 = s → p it = true) :
    ∀ (k : Nat) (l : List Item), itemsOf s l = itemsOf s (takeP p k l).1 ++ itemsOf s (takeP p k l).2
  | 0, l => by simp [takeP]
  | k+1, [] => by simp [takeP]
  | k+1, (t, n) :: xs => by
    by_cases hpx : p (t, n) = true
    · rw [takeP_cons_pos p k _ _ hpx]
      simp only
      rw [itemsOf_cons, itemsOf_cons, takeP_in p s hp k xs]
      by_cases h : t = s <;> simp [h]
    · have hts : t ≠ s := fun h => hpx (hp (t, n) h)
      rw [takeP_cons_neg p k _ _ hpx]
      simp only
      rw [itemsOf_cons, itemsOf_cons, takeP_in p s hp (k+1) xs]
      simp [hts]

theorem takeP_out (p : Item → Bool) (s : Nat) (hp : ∀ it : Item, it.1 = s → p it = false) :
    ∀ (k : Nat) (l : List Item), itemsOf s (takeP p k l).1 = [] ∧ itemsOf s (takeP p k l).2 = itemsOf s l
  | 0, l => by simp [takeP]
  | k+1, [] => by simp [takeP]
  | k+1, (t, n) :: xs => by
    by_cases hpx : p (t, n) = true
    · have hts : t ≠ s := fun h => by rw [hp (t, n) h] at hpx; exact Bool.noConfusion hpx
      rw [takeP_cons_pos p k _ _ hpx]
      obtain ⟨a, b⟩ := takeP_out p s hp k xs
      simp [itemsOf_cons, hts, a, b]
    · rw [takeP_cons_neg p k _ _ hpx]
      obtain ⟨a, b⟩ := takeP_out p s hp (k+1) xs
      refine ⟨a, ?_⟩
      simp only
      rw [itemsOf_cons, itemsOf_cons, b]

theorem takeP_length (p : Item → Bool) : ∀ (k : Nat) (l : List Item),
    (takeP p k l).1.length + (takeP p k l).2.length = l.length
  | 0, l => by simp [takeP]
  | k+1, [] => by simp [takeP]
  | k+1, x :: xs => by
    by_cases hpx : p x = true
    · rw [takeP_cons_pos p k _ _ hpx]
      have := takeP_length p k xs
      simp only [List.length_cons]
      omega
    · rw [takeP_cons_neg p k _ _ hpx]
      have := takeP_length p (k+1) xs
      simp only [List.length_cons]
      omega

theorem itemsOf_filter_keep (x : Nat) (q : Item → Bool) : ∀ (l : List Item),
    (∀ it ∈ l, it.1 = x → q it = true) → itemsOf x (l.filter q) = itemsOf x l
  | [], _ => rfl
  | (t, n) :: xs, h => by
    have ih := itemsOf_filter_keep x q xs (fun it hit => h it (List.mem_cons_of_mem _ hit))
    by_cases hq : q (t, n) = true
    · rw [List.filter_cons_of_pos hq, itemsOf_cons, itemsOf_cons, ih]
    · have hts : t ≠ x := fun ht => hq (h (t, n) (List.mem_cons_self) ht)
      rw [List.filter_cons_of_neg hq, itemsOf_cons, ih]
      simp [hts]

theorem filter_split_length (q : Item → Bool) : ∀ (l : List Item),
    (l.filter q).length + (l.filter (fun it => !q it)).length = l.length
  | [] => rfl
  | x :: xs => by
    have ih := filter_split_length q xs
    by_cases hq : q x = true
    · simp [List.filter_cons, hq]; omega
    · simp [List.filter_cons, hq]; omega

theorem mem_itemsOf {s n : Nat} {l : List Item} : n ∈ itemsOf s l ↔ (s, n) ∈ l := by
  simp only [itemsOf, List.mem_map, List.mem_filter]
  constructor
  · rintro ⟨⟨a, b⟩, ⟨hm, ha⟩, hb⟩
    simp at ha hb
    subst ha; subst hb
    exact hm
  · intro h
    exact ⟨(s, n), ⟨h, by simp⟩, rfl⟩

end WK.C28

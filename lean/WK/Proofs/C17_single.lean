import WK.Proofs.C17_lists
/-
  C17 — the shape of what ONE command (one ApplyBatch of a single command) does to
  the store: no change, or the writes of exactly one committed closure.
-/
namespace WK.C17

/-- the writes of one committed closure, relative to the committed store -/
inductive OneOp (db : State) : List W → Prop
  | nothing : OneOp db []
  | upsert (t : Task) (ws : List W) : upsertWrites db t = .ok ws → OneOp db ws
  | upsertMeta (c : Cmd) (t nt : Task) (m nm0 : Meta) (ws : List W) :
      db.task? c.g.chan c.g.id = some t → db.meta? c.rg.chan = some m →
      mutate c t m = .ok (nt, nm0) → c.g.matches t = true → c.rg.matches m = true →
      validMeta (bumpRoute m (normMeta nm0)) = true →
      upsertWrites db nt = .ok ws →
      OneOp db (ws ++ [W.putMeta c.rg.chan (normMeta (bumpRoute m (normMeta nm0)))])
  | gc (b l : Nat) : OneOp db (gcWrites db b l)

theorem ov_empty_task (db : State) (c i : Nat) : ({} : Ov).task? db c i = db.task? c i := by
  simp [Ov.task?]

theorem ov_empty_meta (db : State) (c : Nat) : ({} : Ov).meta? db c = db.meta? c := by
  simp [Ov.meta?]

theorem runStaged_guard (db : State) (o o' : Ov) (t : Task) (rg : RtGuard) (ws : List W)
    (h : runStaged db o (.guardCreate t rg) = .ok (o', ws)) : o' = o ∧ ws = [] := by
  simp only [runStaged] at h
  split at h
  · split at h
    · simp at h; exact ⟨h.1.symm, h.2⟩
    · simp at h
  · split at h
    · simp at h
    · split at h
      · simp at h
      · simp at h; exact ⟨h.1.symm, h.2⟩

theorem runStaged_oneOp (db : State) (op : Staged) (o' : Ov) (ws : List W)
    (h : runStaged db {} op = .ok (o', ws)) : OneOp db ws := by
  cases op with
  | createRow t =>
    simp only [runStaged, ov_empty_task] at h
    split at h
    · split at h
      · simp at h; rw [h.2]; exact .nothing
      · simp at h
    · split at h
      · simp at h
      · rename_i ws' hw
        simp at h; rw [← h.2]; exact .upsert t ws' hw
  | guardCreate t rg =>
    have := runStaged_guard db {} o' t rg ws h
    rw [this.2]; exact .nothing
  | taskOnly c =>
    simp only [runStaged, ov_empty_task] at h
    split at h
    · simp at h
    · split at h
      · simp at h
      · split at h
        · simp at h
        · split at h
          · simp at h
          · rename_i _ nt hmut _ ws' hw
            simp at h; rw [← h.2]; exact .upsert nt ws' hw
  | taskMeta c =>
    simp only [runStaged, ov_empty_task, ov_empty_meta] at h
    split at h
    · simp at h
    · rename_i t ht
      split at h
      · simp at h
      · rename_i m hm
        split at h
        · simp at h
        · rename_i nt nm0 hmut
          split at h
          · split at h
            · simp at h; rw [h.2]; exact .nothing
            · simp at h
          · rename_i hg
            split at h
            · simp at h
            · split at h
              · simp at h
              · split at h
                · simp at h
                · rename_i hv
                  split at h
                  · simp at h
                  · rename_i ws' hw
                    simp at h
                    rw [← h.2]
                    simp at hg hv
                    exact .upsertMeta c t nt m nm0 ws' ht hm hmut hg.1 hg.2 hv hw
  | gc b l =>
    simp [runStaged] at h
    rw [← h.2]; exact .gc b l

theorem stageCreate_fresh (s0 : List Staged) (t : Task) (wb' : WB)
    (h : stageCreate { staged := s0 } t = .ok wb') : wb'.staged = s0 ++ [Staged.createRow t] := by
  unfold stageCreate at h
  split at h
  · simp at h
  · simp at h
    rw [← h]

/-- the closures one command queues on a fresh WriteBatch -/
theorem stageCmd_shape (c : Cmd) :
    let ops := (stageCmd {} c).1.staged
    ops = [] ∨ (∃ op, ops = [op]) ∨ (∃ t rg op, ops = [Staged.guardCreate t rg, op]) ∨ (∃ t rg, ops = [Staged.guardCreate t rg]) := by
  simp only
  unfold stageCmd
  cases hk : c.kind
  case create =>
    simp only
    split
    · rename_i wb' h
      have := stageCreate_fresh [] c.task wb' h
      right; left; exact ⟨_, by simpa using this⟩
    · left; rfl
  case createg =>
    simp only
    split
    · left; rfl
    · split
      · rename_i wb' h
        have := stageCreate_fresh [Staged.guardCreate c.task c.rg] c.task wb' (by simpa using h)
        right; right; left; exact ⟨_, _, _, by simpa using this⟩
      · right; right; right; exact ⟨_, _, rfl⟩
  all_goals
    simp only
    first
      | (right; left; exact ⟨_, rfl⟩)
      | (split
         · left; rfl
         · right; left; exact ⟨_, rfl⟩)

theorem commitStaged_single (db : State) (ops : List Staged) (ws : List W)
    (hs : ops = [] ∨ (∃ op, ops = [op]) ∨ (∃ t rg op, ops = [Staged.guardCreate t rg, op]) ∨ (∃ t rg, ops = [Staged.guardCreate t rg]))
    (h : commitStaged db {} ops = .ok ws) : OneOp db ws := by
  rcases hs with hs | ⟨op, hs⟩ | ⟨t, rg, op, hs⟩ | ⟨t, rg, hs⟩
  · subst hs; simp [commitStaged] at h; rw [h]; exact .nothing
  · subst hs
    simp only [commitStaged] at h
    split at h
    · simp at h
    · rename_i o' ws' hr
      simp at h; rw [← h]
      exact runStaged_oneOp db op o' ws' hr
  · subst hs
    simp only [commitStaged] at h
    split at h
    · simp at h
    · rename_i o' ws' hr
      have hg := runStaged_guard db {} o' t rg ws' hr
      rw [hg.1, hg.2] at h
      split at h
      · simp at h
      · rename_i ws2 h2
        split at h2
        · simp at h2
        · rename_i o2 ws3 hr2
          (try simp at h2)
          (try simp at h)
          rw [← h, ← h2]
          simp
          exact runStaged_oneOp db op o2 ws3 hr2
  · subst hs
    simp only [commitStaged] at h
    split at h
    · simp at h
    · rename_i o' ws' hr
      have hg := runStaged_guard db {} o' t rg ws' hr
      rw [hg.2] at h; simp [commitStaged] at h; rw [h]; exact .nothing

/-- ONE command: the store is unchanged or receives the writes of one closure -/
theorem applySingle_state (db : State) (c : Cmd) :
    (applySingle db c).1 = db ∨ ∃ ws, OneOp db ws ∧ (applySingle db c).1 = applyWs db ws := by
  have hshape := stageCmd_shape c
  simp only at hshape
  unfold applySingle
  split
  · rename_i wb' e heq
    have hwb : wb' = (stageCmd {} c).1 := by rw [heq]
    split
    · split
      · rename_i ws hc
        right; refine ⟨ws, ?_, rfl⟩
        rw [hwb] at hc
        exact commitStaged_single db _ ws hshape hc
      · split <;> (left; rfl)
    · left; rfl
  · rename_i wb heq
    have hwb : wb = (stageCmd {} c).1 := by rw [heq]
    split
    · rename_i ws hc
      right; refine ⟨ws, ?_, rfl⟩
      rw [hwb] at hc
      exact commitStaged_single db _ ws hshape hc
    · split <;> (left; rfl)

end WK.C17

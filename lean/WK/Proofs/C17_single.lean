import WK.Proofs.C17_lists
/-
  C17 — the shape of what ONE command (one ApplyBatch of a single command) does to
  the store: no change, or the writes of exactly one committed closure.
-/
namespace WK.C17

/-- the seven commands that mutate a task row together with the channel's metadata row -/
def Kind.isTaskMeta : Kind → Bool
  | .setfence | .resetfence | .commit | .addlearner | .promote | .clearfence | .abort => true
  | _ => false

/-- the writes of the one closure that a single command `c` commits, relative to the committed store -/
inductive OneOp (db : State) (c : Cmd) : List W → Prop
  | nothing : OneOp db c []
  | create (ws : List W) : (c.kind = .create ∨ c.kind = .createg) →
      db.task? c.task.chan c.task.id = none → upsertWrites db c.task = .ok ws → OneOp db c ws
  | taskOnly (t nt : Task) (ws : List W) : (c.kind = .claim ∨ c.kind = .advance) →
      db.task? c.g.chan c.g.id = some t → c.g.matches t = true → mutTaskOnly c t = .ok nt →
      upsertWrites db nt = .ok ws → OneOp db c ws
  | taskMeta (t nt : Task) (m nm0 : Meta) (ws : List W) : c.kind.isTaskMeta = true →
      db.task? c.g.chan c.g.id = some t → db.meta? c.rg.chan = some m →
      mutate c t m = .ok (nt, nm0) → c.g.matches t = true → c.rg.matches m = true →
      (t.terminal = true → t = nt) → validTask nt = true →
      validMeta (bumpRoute m (normMeta nm0)) = true →
      upsertWrites db nt = .ok ws →
      OneOp db c (ws ++ [W.putMeta c.rg.chan (normMeta (bumpRoute m (normMeta nm0)))])
  | gc : c.kind = .gc → OneOp db c (gcWrites db c.before c.limit)

/-- the closures command `c` can queue -/
def OpOf (c : Cmd) (op : Staged) : Prop :=
  ((c.kind = .create ∨ c.kind = .createg) ∧ op = Staged.createRow c.task) ∨
  ((c.kind = .claim ∨ c.kind = .advance) ∧ op = Staged.taskOnly c) ∨
  (c.kind.isTaskMeta = true ∧ op = Staged.taskMeta c) ∨
  (c.kind = .gc ∧ op = Staged.gc c.before c.limit)

theorem ov_empty_task (db : State) (c i : Nat) : ({} : Ov).task? db c i = db.task? c i := by
  simp [Ov.task?]

theorem ov_empty_meta (db : State) (c : Nat) : ({} : Ov).meta? db c = db.meta? c := by
  simp [Ov.meta?]

theorem runStaged_guard (db : State) (o o' : Ov) (t : Task) (rg : RtGuard) (ws : List W)
    (h : runStaged db o (.guardCreate t rg) = .ok (o', ws)) : o' = o ∧ ws = [] := by
  simp only [runStaged] at h
  split at h
  · split at h
    · simp at h; exact ⟨h.1.symm, h.2⟩
    · simp at h
  · split at h
    · simp at h
    · split at h
      · simp at h
      · simp at h; exact ⟨h.1.symm, h.2⟩

theorem runStaged_oneOp (db : State) (c : Cmd) (op : Staged) (hop : OpOf c op) (o' : Ov) (ws : List W)
    (h : runStaged db {} op = .ok (o', ws)) : OneOp db c ws := by
  rcases hop with ⟨hk, rfl⟩ | ⟨hk, rfl⟩ | ⟨hk, rfl⟩ | ⟨hk, rfl⟩
  · simp only [runStaged, ov_empty_task] at h
    split at h
    · split at h
      · simp at h; rw [h.2]; exact .nothing
      · simp at h
    · rename_i hnone
      split at h
      · simp at h
      · rename_i ws' hw
        simp at h; rw [← h.2]; exact .create ws' hk hnone hw
  · simp only [runStaged, ov_empty_task] at h
    split at h
    · simp at h
    · rename_i t ht
      split at h
      · simp at h
      · rename_i hg
        split at h
        · simp at h
        · split at h
          · simp at h
          · rename_i _ nt hmut _ ws' hw
            simp at h hg; rw [← h.2]; exact .taskOnly t nt ws' hk ht hg hmut hw
  · simp only [runStaged, ov_empty_task, ov_empty_meta] at h
    split at h
    · simp at h
    · rename_i t ht
      split at h
      · simp at h
      · rename_i m hm
        split at h
        · simp at h
        · rename_i nt nm0 hmut
          split at h
          · split at h
            · simp at h; rw [h.2]; exact .nothing
            · simp at h
          · rename_i hg
            split at h
            · simp at h
            · rename_i hterm
              split at h
              · simp at h
              · rename_i hvt
                split at h
                · simp at h
                · rename_i hv
                  split at h
                  · simp at h
                  · rename_i ws' hw
                    simp at h
                    rw [← h.2]
                    simp at hg hv hvt hterm
                    exact .taskMeta t nt m nm0 ws' hk ht hm hmut hg.1 hg.2 hterm hvt hv hw
  · simp [runStaged] at h
    rw [← h.2]; exact .gc hk

theorem stageCreate_fresh (s0 : List Staged) (t : Task) (wb' : WB)
    (h : stageCreate { staged := s0 } t = .ok wb') : wb'.staged = s0 ++ [Staged.createRow t] := by
  unfold stageCreate at h
  split at h
  · simp at h
  · simp at h
    rw [← h]

/-- the closures one command queues on a fresh WriteBatch -/
theorem stageCmd_shape (c : Cmd) :
    let ops := (stageCmd {} c).1.staged
    ops = [] ∨ (∃ op, OpOf c op ∧ ops = [op]) ∨ (∃ op, OpOf c op ∧ ops = [Staged.guardCreate c.task c.rg, op]) ∨
      (ops = [Staged.guardCreate c.task c.rg]) := by
  simp only
  unfold stageCmd
  cases hk : c.kind
  case create =>
    simp only
    split
    · rename_i wb' h
      have := stageCreate_fresh [] c.task wb' h
      right; left; exact ⟨_, Or.inl ⟨Or.inl hk, rfl⟩, by simpa using this⟩
    · left; rfl
  case createg =>
    simp only
    split
    · left; rfl
    · split
      · rename_i wb' h
        have := stageCreate_fresh [Staged.guardCreate c.task c.rg] c.task wb' (by simpa using h)
        right; right; left; exact ⟨_, Or.inl ⟨Or.inr hk, rfl⟩, by simpa using this⟩
      · right; right; right; rfl
  case gc =>
    simp only
    split
    · left; rfl
    · right; left; exact ⟨_, Or.inr (Or.inr (Or.inr ⟨hk, rfl⟩)), rfl⟩
  case claim =>
    simp only
    split
    · left; rfl
    · right; left; exact ⟨_, Or.inr (Or.inl ⟨Or.inl hk, rfl⟩), rfl⟩
  case advance =>
    simp only
    right; left; exact ⟨_, Or.inr (Or.inl ⟨Or.inr hk, rfl⟩), rfl⟩
  all_goals
    simp only
    split
    · left; rfl
    · right; left; exact ⟨_, Or.inr (Or.inr (Or.inl ⟨by rw [hk]; rfl, rfl⟩)), rfl⟩

theorem commitStaged_single (db : State) (c : Cmd) (ops : List Staged) (ws : List W)
    (hs : ops = [] ∨ (∃ op, OpOf c op ∧ ops = [op]) ∨ (∃ op, OpOf c op ∧ ops = [Staged.guardCreate c.task c.rg, op]) ∨
      (ops = [Staged.guardCreate c.task c.rg]))
    (h : commitStaged db {} ops = .ok ws) : OneOp db c ws := by
  rcases hs with hs | ⟨op, hop, hs⟩ | ⟨op, hop, hs⟩ | hs
  · subst hs; simp [commitStaged] at h; rw [h]; exact .nothing
  · subst hs
    simp only [commitStaged] at h
    split at h
    · simp at h
    · rename_i o' ws' hr
      simp at h; rw [← h]
      exact runStaged_oneOp db c op hop o' ws' hr
  · subst hs
    simp only [commitStaged] at h
    split at h
    · simp at h
    · rename_i o' ws' hr
      have hg := runStaged_guard db {} o' c.task c.rg ws' hr
      rw [hg.1, hg.2] at h
      split at h
      · simp at h
      · rename_i ws2 h2
        split at h2
        · simp at h2
        · rename_i o2 ws3 hr2
          (try simp at h2)
          (try simp at h)
          rw [← h, ← h2]
          exact runStaged_oneOp db c op hop o2 ws3 hr2
  · subst hs
    simp only [commitStaged] at h
    split at h
    · simp at h
    · rename_i o' ws' hr
      have hg := runStaged_guard db {} o' c.task c.rg ws' hr
      rw [hg.2] at h; simp at h; rw [h]; exact .nothing

/-- ONE command: the store is unchanged or receives the writes of one closure -/
theorem applySingle_state (db : State) (c : Cmd) :
    (applySingle db c).1 = db ∨ ∃ ws, OneOp db c ws ∧ (applySingle db c).1 = applyWs db ws := by
  have hshape := stageCmd_shape c
  simp only at hshape
  unfold applySingle
  split
  · rename_i wb' e heq
    have hwb : wb' = (stageCmd {} c).1 := by rw [heq]
    split
    · split
      · rename_i ws hc
        right; refine ⟨ws, ?_, rfl⟩
        rw [hwb] at hc
        exact commitStaged_single db c _ ws hshape hc
      · split <;> (left; rfl)
    · left; rfl
  · rename_i wb heq
    have hwb : wb = (stageCmd {} c).1 := by rw [heq]
    split
    · rename_i ws hc
      right; refine ⟨ws, ?_, rfl⟩
      rw [hwb] at hc
      exact commitStaged_single db c _ ws hshape hc
    · split <;> (left; rfl)

end WK.C17

import WK.Model.C41
/-
  C41 — invariants of the admission / stop LTS.
-/
set_option linter.unusedSimpArgs false
namespace WK.C41

theorem adms_append (a b : List Ev) : adms (a ++ b) = adms a ++ adms b := by simp [adms]
theorem terms_append (a b : List Ev) : terms (a ++ b) = terms a ++ terms b := by simp [terms]

theorem noAdmAfter_append (f : Ev → Bool) : ∀ (l r : List Ev) (seen : Bool),
    noAdmAfter f seen (l ++ r) = (noAdmAfter f seen l && noAdmAfter f (seen || l.any f) r)
  | [], r, seen => by simp [noAdmAfter]
  | e :: l, r, seen => by
    cases e <;> simp [noAdmAfter, noAdmAfter_append f l r, Bool.and_assoc, Bool.or_assoc]

structure GInv (s : G) : Prop where
  wexcl : ∀ k, s.stp k = .wlocked → ∀ t, (s.sub t).reads = false
  wone : ∀ k k', s.stp k = .wlocked → s.stp k' = .wlocked → k = k'
  notStopping : s.stopping = false → s.fin = .none ∧ s.stopped = false ∧ s.cancelled = false ∧ s.stopDone = false
  finDone : (s.fin = .done ↔ s.stopped = true) ∧ (s.stopped = true ↔ s.cancelled = true) ∧ (s.stopped = true ↔ s.stopDone = true)
  cancelledNoSlot : s.cancelled = true → ∀ t, (s.sub t).holdsSlot = false
  noCancelTerm : ∀ t, s.sub t ≠ .terminal true
  admIff : ∀ t, t ∈ adms s.log ↔ ((s.sub t).holdsSlot = true ∨ ∃ c, s.sub t = .terminal c)
  termIff : ∀ t, t ∈ terms s.log ↔ ∃ c, s.sub t = .terminal c
  stopSetLog : (s.log.any fun e => e == .stopSet) = true → s.stopping = true
  stopOkLog : s.log.any isStopOk = true → s.stopped = true
  admOrder : noAdmissionAfterStopSet s.log = true

theorem GInv.init : GInv G.init := by
  constructor <;> simp [G.init, SPc.reads, SPc.holdsSlot, adms, terms, noAdmissionAfterStopSet, noAdmAfter]

local macro "g_simp" : tactic => `(tactic|
  simp only [updS, updK, SPc.reads, SPc.holdsSlot, adms_append, terms_append, adms, terms, isStopOk,
    List.filterMap_cons, List.filterMap_nil, List.any_append, List.any_cons, List.any_nil, List.mem_append,
    List.mem_singleton, List.mem_cons, Bool.or_false, Bool.or_eq_true, List.append_nil] at *)

theorem GInv.step_wexcl {s s' : G} (h : GInv s) (st : GStep s s') : ∀ k, s'.stp k = .wlocked → ∀ t, (s'.sub t).reads = false := by
  obtain ⟨h1, h2, h3, h4, h5, h6, h7, h8, h9, h10, h11⟩ := h
  cases st <;> g_simp <;> grind

theorem GInv.step_wone {s s' : G} (h : GInv s) (st : GStep s s') : ∀ k k', s'.stp k = .wlocked → s'.stp k' = .wlocked → k = k' := by
  obtain ⟨h1, h2, h3, h4, h5, h6, h7, h8, h9, h10, h11⟩ := h
  cases st <;> g_simp <;> grind

theorem GInv.step_notStopping {s s' : G} (h : GInv s) (st : GStep s s') :
    s'.stopping = false → s'.fin = .none ∧ s'.stopped = false ∧ s'.cancelled = false ∧ s'.stopDone = false := by
  obtain ⟨h1, h2, h3, h4, h5, h6, h7, h8, h9, h10, h11⟩ := h
  cases st <;> g_simp <;> grind

theorem GInv.step_finDone {s s' : G} (h : GInv s) (st : GStep s s') :
    (s'.fin = .done ↔ s'.stopped = true) ∧ (s'.stopped = true ↔ s'.cancelled = true) ∧ (s'.stopped = true ↔ s'.stopDone = true) := by
  obtain ⟨h1, h2, h3, h4, h5, h6, h7, h8, h9, h10, h11⟩ := h
  cases st <;> g_simp <;> grind

theorem GInv.step_cancelledNoSlot {s s' : G} (h : GInv s) (st : GStep s s') :
    s'.cancelled = true → ∀ t, (s'.sub t).holdsSlot = false := by
  obtain ⟨h1, h2, h3, h4, h5, h6, h7, h8, h9, h10, h11⟩ := h
  cases st <;> g_simp <;> grind

theorem GInv.step_noCancelTerm {s s' : G} (h : GInv s) (st : GStep s s') : ∀ t, s'.sub t ≠ .terminal true := by
  obtain ⟨h1, h2, h3, h4, h5, h6, h7, h8, h9, h10, h11⟩ := h
  cases st <;> g_simp <;> grind

theorem GInv.step_admIff {s s' : G} (h : GInv s) (st : GStep s s') :
    ∀ t, t ∈ adms s'.log ↔ ((s'.sub t).holdsSlot = true ∨ ∃ c, s'.sub t = .terminal c) := by
  obtain ⟨h1, h2, h3, h4, h5, h6, h7, h8, h9, h10, h11⟩ := h
  cases st <;> g_simp <;> grind

theorem GInv.step_termIff {s s' : G} (h : GInv s) (st : GStep s s') :
    ∀ t, t ∈ terms s'.log ↔ ∃ c, s'.sub t = .terminal c := by
  obtain ⟨h1, h2, h3, h4, h5, h6, h7, h8, h9, h10, h11⟩ := h
  cases st <;> g_simp <;> grind

theorem GInv.step_stopSetLog {s s' : G} (h : GInv s) (st : GStep s s') :
    (s'.log.any fun e => e == .stopSet) = true → s'.stopping = true := by
  obtain ⟨h1, h2, h3, h4, h5, h6, h7, h8, h9, h10, h11⟩ := h
  cases st <;> g_simp <;> grind

theorem GInv.step_stopOkLog {s s' : G} (h : GInv s) (st : GStep s s') : s'.log.any isStopOk = true → s'.stopped = true := by
  obtain ⟨h1, h2, h3, h4, h5, h6, h7, h8, h9, h10, h11⟩ := h
  cases st <;> g_simp <;> grind

theorem GInv.step_admOrder {s s' : G} (h : GInv s) (st : GStep s s') : noAdmissionAfterStopSet s'.log = true := by
  obtain ⟨h1, h2, h3, h4, h5, h6, h7, h8, h9, h10, h11⟩ := h
  unfold noAdmissionAfterStopSet at *
  cases st <;> simp only [noAdmAfter_append, h11, Bool.true_and, Bool.false_or] <;> simp [noAdmAfter]
  case acquire t hp hs hst =>
    cases hany : (s.log.any fun e => e == Ev.stopSet) with
    | false => simpa using hany
    | true => have := h9 hany; rw [hs] at this; cases this

theorem GInv.step {s s' : G} (h : GInv s) (st : GStep s s') : GInv s' :=
  ⟨h.step_wexcl st, h.step_wone st, h.step_notStopping st, h.step_finDone st, h.step_cancelledNoSlot st,
   h.step_noCancelTerm st, h.step_admIff st, h.step_termIff st, h.step_stopSetLog st, h.step_stopOkLog st, h.step_admOrder st⟩

theorem GReach.inv {s : G} (r : GReach s) : GInv s := by
  induction r with
  | init => exact GInv.init
  | step _ st ih => exact ih.step st

end WK.C41

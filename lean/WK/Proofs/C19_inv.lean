import WK.Spec.C19
/-
  C19 — helper lemmas that hold for EVERY call list: inode numbers that appear
  in the directory (on disk or journalled) are allocated ones.  Used to carry
  `Stable` across a crash so that histories of saves compose.
-/
namespace WK.C19

def DirOp.Below (N : Nat) : DirOp → Prop
  | .link _ i => i < N
  | _ => True

def DirBelow (d : Dir) (N : Nat) : Prop := ∀ n i, d n = some i → i < N

theorem applyDirOp_below {d : Dir} {N : Nat} (h : DirBelow d N) (op : DirOp) (hop : op.Below N) :
    DirBelow (applyDirOp d op) N := by
  intro n i hn
  cases op with
  | link m k =>
    simp only [applyDirOp] at hn
    split at hn
    · cases hn; exact hop
    · exact h _ _ hn
  | unlink m =>
    simp only [applyDirOp] at hn
    split at hn
    · cases hn
    · exact h _ _ hn
  | rename a b =>
    simp only [applyDirOp] at hn
    cases hk : d a with
    | none => rw [hk] at hn; exact h _ _ hn
    | some k =>
      rw [hk] at hn
      simp only at hn
      split at hn
      · cases hn; exact h _ _ hk
      · split at hn
        · cases hn
        · exact h _ _ hn

theorem foldl_below {N : Nat} (ops : List DirOp) : ∀ {d : Dir}, DirBelow d N → (∀ op ∈ ops, op.Below N) →
    DirBelow (ops.foldl applyDirOp d) N := by
  induction ops with
  | nil => intro d h _; exact h
  | cons op rest ih =>
    intro d h hops
    simp only [List.foldl_cons]
    exact ih (applyDirOp_below h op (hops op (by simp))) (fun o ho => hops o (by simp [ho]))

theorem Below_mono {N M : Nat} (h : N ≤ M) {op : DirOp} (hop : op.Below N) : op.Below M := by
  cases op with
  | link n i => exact Nat.lt_of_lt_of_le hop h
  | unlink n => trivial
  | rename a b => trivial

theorem DirBelow_mono {N M : Nat} (h : N ≤ M) {d : Dir} (hd : DirBelow d N) : DirBelow d M :=
  fun n i hn => Nat.lt_of_lt_of_le (hd n i hn) h

/-- inode numbers in the directory (on disk and journalled) are allocated ones -/
def InoInv (fs : FS) : Prop := DirBelow fs.durable fs.next ∧ ∀ op ∈ fs.pending, op.Below fs.next

theorem exec_inoInv (t : Name) (new : Bytes) (s : FS × Proc) (o : Op) (h : InoInv s.1) : InoInv (exec t new s o).1 := by
  obtain ⟨hd, hp⟩ := h
  cases o with
  | createTemp =>
    refine ⟨DirBelow_mono (Nat.le_succ _) hd, ?_⟩
    intro op hop
    simp only [exec, List.mem_append, List.mem_singleton] at hop
    rcases hop with hop | hop
    · exact Below_mono (Nat.le_succ _) (hp op hop)
    · subst hop; simp [DirOp.Below, exec]
  | openFixed trunc =>
    simp only [exec]
    split
    · refine ⟨DirBelow_mono (Nat.le_succ _) hd, ?_⟩
      intro op hop
      simp only [List.mem_append, List.mem_singleton] at hop
      rcases hop with hop | hop
      · exact Below_mono (Nat.le_succ _) (hp op hop)
      · subst hop; simp [DirOp.Below]
    · exact ⟨hd, hp⟩
  | write enc => simp only [exec]; split <;> exact ⟨hd, hp⟩
  | fsync => simp only [exec]; split <;> exact ⟨hd, hp⟩
  | close => exact ⟨hd, hp⟩
  | hook => exact ⟨hd, hp⟩
  | rename a b =>
    simp only [exec]
    split
    · refine ⟨hd, ?_⟩
      intro op hop
      simp only [List.mem_append, List.mem_singleton] at hop
      rcases hop with hop | hop
      · exact hp op hop
      · subst hop; simp [DirOp.Below]
    · exact ⟨hd, hp⟩
  | setKeep => exact ⟨hd, hp⟩
  | fsyncDir =>
    refine ⟨?_, by simp [exec]⟩
    exact foldl_below _ hd hp
  | removeTmp =>
    simp only [exec]
    split
    · exact ⟨hd, hp⟩
    · refine ⟨hd, ?_⟩
      intro op hop
      simp only [List.mem_append, List.mem_singleton] at hop
      rcases hop with hop | hop
      · exact hp op hop
      · subst hop; simp [DirOp.Below]
  | other w => exact ⟨hd, hp⟩

theorem run_inoInv (t : Name) (new : Bytes) (ops : List Op) : ∀ (s : FS × Proc), InoInv s.1 → InoInv (run t new ops s).1 := by
  induction ops with
  | nil => intro s h; exact h
  | cons o rest ih => intro s h; exact ih _ (exec_inoInv t new s o h)

theorem crash_below (c : CrashChoice) (fs : FS) (h : InoInv fs) : DirBelow (crash c fs).durable (crash c fs).next := by
  simp only [crash]
  exact foldl_below _ h.1 (fun op hop => h.2 op (List.mem_of_mem_take hop))

end WK.C19

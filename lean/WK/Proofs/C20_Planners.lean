import WK.Proofs.C20_Plan
/-
  C20 — ComputeRebalancePlan / ComputeAddSlotPlan / ComputeRemoveSlotPlan:
  plan validity, exactness, and balanced-in ⇒ balanced-out.
-/
namespace WK.C20

theorem fa_mem {a : List Nat} (h : fullyAssigned a = true) : ∀ x ∈ a, x ≠ 0 := by
  intro x hx
  simp only [fullyAssigned, List.all_eq_true] at h
  simpa using h x hx

/-- `level` in div/mod form -/
theorem level_iff (H n c : Nat) (hn : 0 < n) :
    level H n c = true ↔ H / n ≤ c ∧ c ≤ H / n + (if 0 < H % n then 1 else 0) := by
  have hdm : H / n * n + H % n = H := by rw [Nat.mul_comm]; exact Nat.div_add_mod H n
  have hr := Nat.mod_lt H hn
  simp only [level, decide_eq_true_eq]
  constructor
  · rintro ⟨h1, h2⟩
    refine ⟨h1, ?_⟩
    by_cases hr0 : 0 < H % n
    · simp only [hr0, ↓reduceIte]
      rcases Nat.lt_or_ge (H / n + 1) c with hc | hc
      · have := Nat.mul_le_mul_right n (show H / n + 2 ≤ c by omega)
        rw [Nat.add_mul] at this
        omega
      · exact hc
    · simp only [hr0, ↓reduceIte]
      rcases Nat.lt_or_ge (H / n) c with hc | hc
      · have := Nat.mul_le_mul_right n (show H / n + 1 ≤ c by omega)
        rw [Nat.add_mul] at this
        omega
      · omega
  · rintro ⟨h1, h2⟩
    refine ⟨h1, ?_⟩
    by_cases hr0 : 0 < H % n
    · simp only [hr0, ↓reduceIte] at h2
      have := Nat.mul_le_mul_right n h2
      rw [Nat.add_mul] at this
      omega
    · simp only [hr0, ↓reduceIte, Nat.add_zero] at h2
      have := Nat.mul_le_mul_right n h2
      omega

/-- a level count is within one of the ideal share -/
theorem level_withinOne (H n c : Nat) (hn : 0 < n) (h : level H n c = true) : withinOne H n c = true := by
  · have hr := Nat.mod_lt H hn
    have hdm : H / n * n + H % n = H := by rw [Nat.mul_comm]; exact Nat.div_add_mod H n
    simp only [level, decide_eq_true_eq] at h
    simp only [withinOne, decide_eq_true_eq]
    have := Nat.mul_le_mul_right n h.1
    omega

/-! ### the common core of the three planners -/

theorem plan_counts (t : Table) {pick : Cnt → Option (Nat × Nat)} {tgt : Cnt} {ks ds : List Nat}
    (hp : PickOK pick tgt ks ds) (hds : ∀ s ∈ ds, s ∈ ks) (hnd : ks.Nodup)
    (hin : ∀ x ∈ t.asg, x ∈ ks) :
    ∃ curF : Cnt,
      pick curF = none ∧
      (∀ s ∈ ks, cget curF s = (specApply t.asg (runPlan pick (slotCounts t ks) (slotHashSlots t ds))).count s) ∧
      (∀ s ∈ ks,
        (cget tgt s ≤ t.asg.count s →
          cget tgt s ≤ (specApply t.asg (runPlan pick (slotCounts t ks) (slotHashSlots t ds))).count s ∧
          (specApply t.asg (runPlan pick (slotCounts t ks) (slotHashSlots t ds))).count s ≤ t.asg.count s) ∧
        (t.asg.count s ≤ cget tgt s →
          t.asg.count s ≤ (specApply t.asg (runPlan pick (slotCounts t ks) (slotHashSlots t ds))).count s ∧
          (specApply t.asg (runPlan pick (slotCounts t ks) (slotHashSlots t ds))).count s ≤ cget tgt s)) ∧
      (ks.map (fun s => (specApply t.asg (runPlan pick (slotCounts t ks) (slotHashSlots t ds))).count s)).sum
        = t.asg.length := by
  obtain ⟨curF, h1, h2, h3, h4⟩ := runPlan_spec t hp hds
  refine ⟨curF, h1, h2, ?_, ?_⟩
  · intro s hs
    have := h3 s
    rw [← h2 s hs]
    have hc : cget (slotCounts t ks) s = t.asg.count s := by simp [cget_slotCounts, hs]
    rw [hc] at this
    exact this
  · have hmem : ∀ x ∈ specApply t.asg (runPlan pick (slotCounts t ks) (slotHashSlots t ds)), x ∈ ks := by
      intro x hx
      rcases mem_specApply _ _ _ hx with h | ⟨m, hm, rfl⟩
      · exact hin x h
      · exact (h4.2 m hm).2.2
    rw [sum_counts ks _ hnd hmem, specApply_length]

/-! ### rebalance -/

theorem pickRebalance_ok (tgt : Cnt) (slots : List Nat) (hnz : ∀ s ∈ slots, s ≠ 0) :
    PickOK (pickRebalance tgt slots) tgt slots slots := by
  intro cur d r h
  simp only [pickRebalance] at h
  split at h
  · cases h
  · rename_i hc
    have hd : selL cur tgt slots ≠ 0 := fun h0 => hc (Or.inl h0)
    have hr : selS cur tgt slots ≠ 0 := fun h0 => hc (Or.inr h0)
    have e := Option.some.inj h
    have e1 : selL cur tgt slots = d := congrArg Prod.fst e
    have e2 : selS cur tgt slots = r := congrArg Prod.snd e
    have a := (selL_spec cur tgt slots hnz).2 hd
    have b := (selS_spec cur tgt slots hnz).2 hr
    rw [e1] at a; rw [e2] at b
    exact ⟨a.1, a.1, b.1, a.2, b.2⟩

theorem activeSlots_nz (t : Table) : ∀ s ∈ activeSlots t, s ≠ 0 :=
  fun s hs => ((mem_activeSlots t s).mp hs).1

theorem fa_in_active (t : Table) (hfa : fullyAssigned t.asg = true) : ∀ x ∈ t.asg, x ∈ activeSlots t :=
  fun x hx => (mem_activeSlots t x).mpr ⟨fa_mem hfa x hx, hx⟩

theorem rebalance_valid (t : Table) : planValid t.asg (computeRebalance t) = true := by
  unfold computeRebalance
  simp only []
  split
  · simp [planValid]
  · obtain ⟨_, _, _, _, h4⟩ := runPlan_spec t
      (pickRebalance_ok (idealCounts t.asg.length (activeSlots t)) (activeSlots t) (activeSlots_nz t))
      (fun s hs => hs)
    exact planOK_valid t _ _ _ h4

theorem rebalance_exact (t : Table) (hfa : fullyAssigned t.asg = true) :
    ∀ s ∈ activeSlots t,
      (specApply t.asg (computeRebalance t)).count s = cget (idealCounts t.asg.length (activeSlots t)) s := by
  have hnd := nodup_activeSlots t
  have hin := fa_in_active t hfa
  by_cases hne : (activeSlots t).length = 0
  · intro s hs
    have : activeSlots t = [] := List.eq_nil_of_length_eq_zero hne
    rw [this] at hs; cases hs
  obtain ⟨_, _, hsum⟩ := idealCounts_spec t.asg.length (activeSlots t) hnd hne
  unfold computeRebalance
  simp only []
  split
  · -- a single slot: nothing to move, and it already owns everything
    have h0 : specApply t.asg [] = t.asg := rfl
    rw [h0]
    have hs := sum_counts (activeSlots t) t.asg hnd hin
    have hlen : (activeSlots t).length = 1 := by omega
    match hact : activeSlots t, hlen with
    | [x], _ =>
      rw [hact] at hs hsum
      intro s hs'
      have : s = x := by simpa using hs'
      subst this
      simp at hs hsum
      omega
  · obtain ⟨curF, h1, h2, _, h4⟩ := plan_counts t
      (pickRebalance_ok (idealCounts t.asg.length (activeSlots t)) (activeSlots t) (activeSlots_nz t))
      (fun s hs => hs) hnd hin
    generalize specApply t.asg (runPlan (pickRebalance (idealCounts t.asg.length (activeSlots t)) (activeSlots t))
      (slotCounts t (activeSlots t)) (slotHashSlots t (activeSlots t))) = a' at h2 h4 ⊢
    simp only [pickRebalance] at h1
    split at h1
    · rename_i hc
      rcases hc with hc | hc
      · have hle := (selL_spec curF _ _ (activeSlots_nz t)).1 hc
        exact eq_of_le_of_sum_eq (activeSlots t) (fun s => a'.count s) _
          (fun s hs => by show a'.count s ≤ _; rw [← h2 s hs]; exact hle s hs) (by rw [h4, hsum])
      · have hle := (selS_spec curF _ _ (activeSlots_nz t)).1 hc
        intro s hs
        exact (eq_of_le_of_sum_eq (activeSlots t) _ (fun s => a'.count s)
          (fun s hs => by show _ ≤ a'.count s; rw [← h2 s hs]; exact hle s hs) (by rw [h4, hsum]) s hs).symm
    · cases h1

/-! ### add -/

/-- the participants of an add plan, as the Go code builds them -/
def addSlots (t : Table) (new : Nat) : List Nat := sortIds (activeSlots t ++ [new])

theorem mem_addSlots (t : Table) (new s : Nat) : s ∈ addSlots t new ↔ s ∈ activeSlots t ∨ s = new := by
  simp [addSlots, mem_sortIds]

theorem nodup_addSlots (t : Table) (new : Nat) (hnew : new ∉ activeSlots t) : (addSlots t new).Nodup := by
  apply nodup_sortIds
  rw [List.nodup_append]
  refine ⟨nodup_activeSlots t, by simp, ?_⟩
  intro a ha b hb
  have : b = new := by simpa using hb
  subst this
  intro h; subst h; exact hnew ha

theorem length_addSlots (t : Table) (new : Nat) : (addSlots t new).length = (activeSlots t).length + 1 := by
  simp [addSlots, length_sortIds]

theorem pickAdd_ok (tgt : Cnt) (existing slots : List Nat) (new : Nat) (hnz : ∀ s ∈ existing, s ≠ 0)
    (hsub : ∀ s ∈ existing, s ∈ slots) (hnew : new ∈ slots) :
    PickOK (pickAdd tgt existing new) tgt slots existing := by
  intro cur d r h
  simp only [pickAdd] at h
  split at h
  · rename_i hlt
    split at h
    · cases h
    · rename_i hd
      have e := Option.some.inj h
      have e1 : selL cur tgt existing = d := congrArg Prod.fst e
      have e2 : new = r := congrArg Prod.snd e
      have a := (selL_spec cur tgt existing hnz).2 hd
      rw [e1] at a
      subst e2
      exact ⟨a.1, hsub d a.1, hnew, a.2, hlt⟩
  · cases h

theorem computeAdd_eq (t : Table) (new : Nat) (h0 : new ≠ 0) (hnew : new ∉ activeSlots t) :
    computeAdd t new = runPlan (pickAdd (idealCounts t.asg.length (addSlots t new)) (activeSlots t) new)
      (slotCounts t (addSlots t new)) (slotHashSlots t (activeSlots t)) := by
  simp [computeAdd, h0, hnew, addSlots]

theorem add_valid (t : Table) (new : Nat) : planValid t.asg (computeAdd t new) = true := by
  by_cases h0 : new = 0
  · simp [computeAdd, h0, planValid]
  · by_cases hnew : new ∈ activeSlots t
    · simp [computeAdd, h0, hnew, planValid]
    · rw [computeAdd_eq t new h0 hnew]
      obtain ⟨_, _, _, _, h4⟩ := runPlan_spec t
        (pickAdd_ok (idealCounts t.asg.length (addSlots t new)) (activeSlots t) (addSlots t new) new
          (activeSlots_nz t) (fun s hs => (mem_addSlots t new s).mpr (Or.inl hs))
          ((mem_addSlots t new new).mpr (Or.inr rfl)))
        (fun s hs => (mem_addSlots t new s).mpr (Or.inl hs))
      exact planOK_valid t _ _ _ h4

/-- everything the add planner guarantees on a fully assigned table, in one statement:
    `c' = tgt` on the new slot; every slot between `min c tgt` and `max c tgt`; sums. -/
theorem add_core (t : Table) (new : Nat) (hfa : fullyAssigned t.asg = true) (h0 : new ≠ 0)
    (hnew : new ∉ activeSlots t) (a' : List Nat) (tgt : Cnt)
    (ha : a' = specApply t.asg (computeAdd t new))
    (ht : tgt = idealCounts t.asg.length (addSlots t new)) :
    a'.count new = cget tgt new ∧
    (∀ s ∈ addSlots t new,
      (cget tgt s ≤ t.asg.count s → cget tgt s ≤ a'.count s ∧ a'.count s ≤ t.asg.count s) ∧
      (t.asg.count s ≤ cget tgt s → t.asg.count s ≤ a'.count s ∧ a'.count s ≤ cget tgt s)) ∧
    ((∀ s ∈ activeSlots t, cget tgt s ≤ t.asg.count s) → ∀ s ∈ addSlots t new, a'.count s = cget tgt s) := by
  subst ht
  have hnd := nodup_addSlots t new hnew
  have hne : (addSlots t new).length ≠ 0 := by rw [length_addSlots]; omega
  obtain ⟨_, _, hsum⟩ := idealCounts_spec t.asg.length (addSlots t new) hnd hne
  have hin : ∀ x ∈ t.asg, x ∈ addSlots t new :=
    fun x hx => (mem_addSlots t new x).mpr (Or.inl (fa_in_active t hfa x hx))
  obtain ⟨curF, h1, h2, h3, h4⟩ := plan_counts t
    (pickAdd_ok (idealCounts t.asg.length (addSlots t new)) (activeSlots t) (addSlots t new) new
      (activeSlots_nz t) (fun s hs => (mem_addSlots t new s).mpr (Or.inl hs))
      ((mem_addSlots t new new).mpr (Or.inr rfl)))
    (fun s hs => (mem_addSlots t new s).mpr (Or.inl hs)) hnd hin
  have ha' : a' = specApply t.asg (runPlan (pickAdd (idealCounts t.asg.length (addSlots t new)) (activeSlots t) new)
      (slotCounts t (addSlots t new)) (slotHashSlots t (activeSlots t))) := by
    rw [ha, computeAdd_eq t new h0 hnew]
  rw [← ha'] at h2 h3 h4
  have hnewin : new ∈ addSlots t new := (mem_addSlots t new new).mpr (Or.inr rfl)
  have hc0 : t.asg.count new = 0 := by
    rw [List.count_eq_zero]
    intro h; exact hnew ((mem_activeSlots t new).mpr ⟨h0, h⟩)
  have hnewle : a'.count new ≤ cget (idealCounts t.asg.length (addSlots t new)) new := ((h3 new hnewin).2 (by rw [hc0]; exact Nat.zero_le _)).2
  -- if no existing slot is below its target the final counts are exactly the targets
  have hall : (∀ s ∈ activeSlots t, a'.count s ≤ cget (idealCounts t.asg.length (addSlots t new)) s) →
      ∀ s ∈ addSlots t new, a'.count s = cget (idealCounts t.asg.length (addSlots t new)) s := by
    intro hle
    exact eq_of_le_of_sum_eq (addSlots t new) (fun s => a'.count s) (cget (idealCounts t.asg.length (addSlots t new)))
      (fun s hs => by
        rcases (mem_addSlots t new s).mp hs with h | h
        · exact hle s h
        · subst h; exact hnewle)
      (by rw [h4, hsum])
  refine ⟨?_, h3, ?_⟩
  · -- the new slot ends exactly on its share
    simp only [pickAdd] at h1
    split at h1
    · split at h1
      · rename_i hsel
        have hle := (selL_spec curF _ (activeSlots t) (activeSlots_nz t)).1 hsel
        exact hall (fun s hs => by
          rw [← h2 s ((mem_addSlots t new s).mpr (Or.inl hs))]; exact hle s hs) new hnewin
      · cases h1
    · rename_i hge
      rw [h2 new hnewin] at hge
      omega
  · intro hsur
    have hge : ∀ s ∈ addSlots t new, cget (idealCounts t.asg.length (addSlots t new)) s ≤ a'.count s := by
      intro s hs
      rcases (mem_addSlots t new s).mp hs with h | h
      · exact ((h3 s hs).1 (hsur s h)).1
      · subst h
        -- new slot: exact, by the first part
        simp only [pickAdd] at h1
        split at h1
        · split at h1
          · rename_i hsel
            have hle := (selL_spec curF _ (activeSlots t) (activeSlots_nz t)).1 hsel
            exact Nat.le_of_eq (hall (fun x hx => by
              rw [← h2 x ((mem_addSlots t s x).mpr (Or.inl hx))]; exact hle x hx) s hnewin).symm
          · cases h1
        · rename_i hge
          rw [h2 s hnewin] at hge
          omega
    intro s hs
    exact (eq_of_le_of_sum_eq (addSlots t new) (cget (idealCounts t.asg.length (addSlots t new))) (fun s => a'.count s) hge (by rw [h4, hsum]) s hs).symm

theorem add_level (t : Table) (new : Nat) (hfa : fullyAssigned t.asg = true) (h0 : new ≠ 0)
    (hnew : new ∉ activeSlots t)
    (hlev : ∀ s ∈ activeSlots t, level t.asg.length (activeSlots t).length (t.asg.count s) = true) :
    ∀ s ∈ addSlots t new,
      level t.asg.length (addSlots t new).length ((specApply t.asg (computeAdd t new)).count s) = true := by
  obtain ⟨e1, e2, e3⟩ := add_core t new hfa h0 hnew _ _ rfl rfl
  have hnd := nodup_addSlots t new hnew
  have hlen := length_addSlots t new
  have hne : (addSlots t new).length ≠ 0 := by omega
  have hm : 0 < (addSlots t new).length := by omega
  obtain ⟨_, htg, _⟩ := idealCounts_spec t.asg.length (addSlots t new) hnd hne
  have hc0 : t.asg.count new = 0 := by
    rw [List.count_eq_zero]
    intro h; exact hnew ((mem_activeSlots t new).mpr ⟨h0, h⟩)
  by_cases hB : ∃ s0, s0 ∈ activeSlots t ∧ t.asg.count s0 < cget (idealCounts t.asg.length (addSlots t new)) s0
  · obtain ⟨s0, hs0, hlt⟩ := hB
    have hn : 0 < (activeSlots t).length := List.length_pos_of_mem hs0
    have hdiv : t.asg.length / (addSlots t new).length ≤ t.asg.length / (activeSlots t).length :=
      Nat.div_le_div_left (by omega) hn
    have hin0 := (level_iff _ _ _ hn).mp (hlev s0 hs0)
    have ht0 := htg s0 ((mem_addSlots t new s0).mpr (Or.inl hs0))
    have hrem : 0 < t.asg.length % (addSlots t new).length := by
      rcases Nat.eq_zero_or_pos (t.asg.length % (addSlots t new).length) with h | h
      · rw [h] at ht0; simp at ht0; omega
      · exact h
    have hbeq : t.asg.length / (addSlots t new).length = t.asg.length / (activeSlots t).length := by
      simp only [hrem, ↓reduceIte] at ht0; omega
    intro s hs
    rw [level_iff _ _ _ hm]
    simp only [hrem, ↓reduceIte]
    have hts := htg s hs
    simp only [hrem, ↓reduceIte] at hts
    have hcs : t.asg.count s ≤ t.asg.length / (activeSlots t).length + 1 ∧
        (s ∈ activeSlots t → t.asg.length / (activeSlots t).length ≤ t.asg.count s) := by
      rcases (mem_addSlots t new s).mp hs with h | h
      · have := (level_iff _ _ _ hn).mp (hlev s h)
        refine ⟨?_, fun _ => this.1⟩
        have h2 := this.2
        by_cases hr : 0 < t.asg.length % (activeSlots t).length
        · simp only [hr, ↓reduceIte] at h2; exact h2
        · simp only [hr, ↓reduceIte] at h2; omega
      · subst h; rw [hc0]; exact ⟨Nat.zero_le _, fun h => absurd h hnew⟩
    rcases Nat.le_total (cget (idealCounts t.asg.length (addSlots t new)) s) (t.asg.count s) with h | h
    · have := (e2 s hs).1 h
      omega
    · have := (e2 s hs).2 h
      rcases (mem_addSlots t new s).mp hs with h' | h'
      · have := hcs.2 h'
        omega
      · subst h'; omega
  · have hA : ∀ s ∈ activeSlots t, cget (idealCounts t.asg.length (addSlots t new)) s ≤ t.asg.count s :=
      fun s hs => Nat.le_of_not_lt (fun hlt => hB ⟨s, hs, hlt⟩)
    intro s hs
    rw [e3 hA s hs, level_iff _ _ _ hm]
    exact htg s hs

/-! ### remove -/

/-- the participants of a remove plan -/
def rmRemaining (t : Table) (rm : Nat) : List Nat := (activeSlots t).filter (· ≠ rm)

theorem mem_rmRemaining (t : Table) (rm s : Nat) : s ∈ rmRemaining t rm ↔ s ∈ activeSlots t ∧ s ≠ rm := by
  simp [rmRemaining]

theorem nodup_rmKeys (t : Table) (rm : Nat) : (rmRemaining t rm ++ [rm]).Nodup := by
  rw [List.nodup_append]
  refine ⟨List.Pairwise.filter _ (nodup_activeSlots t), by simp, ?_⟩
  intro a ha b hb
  have : b = rm := by simpa using hb
  subst this
  exact ((mem_rmRemaining t b a).mp ha).2

theorem rmRemaining_nz (t : Table) (rm : Nat) : ∀ s ∈ rmRemaining t rm, s ≠ 0 :=
  fun s hs => activeSlots_nz t s ((mem_rmRemaining t rm s).mp hs).1

theorem pickRemove_ok (tgt : Cnt) (remaining : List Nat) (rm : Nat) (hnz : ∀ s ∈ remaining, s ≠ 0)
    (htr : cget tgt rm = 0) :
    PickOK (pickRemove tgt remaining rm) tgt (remaining ++ [rm]) [rm] := by
  intro cur d r h
  simp only [pickRemove] at h
  split at h
  · rename_i hpos
    split at h
    · cases h
    · rename_i hr
      have e := Option.some.inj h
      have e1 : rm = d := congrArg Prod.fst e
      have e2 : selS cur tgt remaining = r := congrArg Prod.snd e
      have b := (selS_spec cur tgt remaining hnz).2 hr
      rw [e2] at b
      subst e1
      refine ⟨by simp, by simp, by simp [b.1], ?_, b.2⟩
      rw [htr]; exact hpos
  · cases h

theorem computeRemove_eq (t : Table) (rm : Nat) (h0 : rm ≠ 0) (hin : rm ∈ activeSlots t)
    (hrem : (rmRemaining t rm).length ≠ 0) :
    computeRemove t rm = runPlan (pickRemove (idealCounts t.asg.length (rmRemaining t rm)) (rmRemaining t rm) rm)
      (slotCounts t (rmRemaining t rm ++ [rm])) (slotHashSlots t [rm]) := by
  have hpos : (hashSlotsOf t rm).length ≠ 0 := by
    rw [length_hashSlotsOf]
    have := List.count_pos_iff.mpr ((mem_activeSlots t rm).mp hin).2
    omega
  have hrem' : ((activeSlots t).filter (· ≠ rm)).length ≠ 0 := hrem
  simp only [computeRemove, h0, hpos, hrem', ↓reduceIte, rmRemaining]

theorem remove_valid (t : Table) (rm : Nat) : planValid t.asg (computeRemove t rm) = true := by
  by_cases h0 : rm = 0
  · simp [computeRemove, h0, planValid]
  · by_cases hpos : (hashSlotsOf t rm).length = 0
    · simp [computeRemove, h0, hpos, planValid]
    · by_cases hrem : ((activeSlots t).filter (· ≠ rm)).length = 0
      · simp only [computeRemove, h0, hpos, hrem, ↓reduceIte]; simp [planValid]
      · have hin : rm ∈ activeSlots t := by
          rw [mem_activeSlots]
          refine ⟨h0, ?_⟩
          rw [length_hashSlotsOf] at hpos
          exact List.count_pos_iff.mp (by omega)
        rw [computeRemove_eq t rm h0 hin hrem]
        have hnd := (nodup_activeSlots t)
        obtain ⟨hz, _, _⟩ := idealCounts_spec t.asg.length (rmRemaining t rm)
          (List.Pairwise.filter _ hnd) hrem
        obtain ⟨_, _, _, _, h4⟩ := runPlan_spec t
          (pickRemove_ok (idealCounts t.asg.length (rmRemaining t rm)) (rmRemaining t rm) rm
            (rmRemaining_nz t rm) (hz rm (by simp [mem_rmRemaining])))
          (fun s hs => by simp at hs; simp [hs])
        exact planOK_valid t _ _ _ h4

theorem length_filter_ne (l : List Nat) (x : Nat) (hnd : l.Nodup) (hx : x ∈ l) :
    (l.filter (· ≠ x)).length + 1 = l.length := by
  induction l with
  | nil => cases hx
  | cons y ys ih =>
    have hy := List.nodup_cons.mp hnd
    by_cases h : y = x
    · subst h
      simp
      intro a ha e
      exact hy.1 (e ▸ ha)
    · have hx' : x ∈ ys := by
        rcases List.mem_cons.mp hx with e | e
        · exact absurd e.symm h
        · exact e
      have := ih hy.2 hx'
      simpa [h] using this

theorem remove_core (t : Table) (rm : Nat) (hfa : fullyAssigned t.asg = true) (h0 : rm ≠ 0)
    (hin : rm ∈ activeSlots t) (hrem : (rmRemaining t rm).length ≠ 0) (a' : List Nat) (tgt : Cnt)
    (ha : a' = specApply t.asg (computeRemove t rm))
    (ht : tgt = idealCounts t.asg.length (rmRemaining t rm)) :
    a'.count rm = 0 ∧
    (∀ s ∈ rmRemaining t rm,
      (cget tgt s ≤ t.asg.count s → cget tgt s ≤ a'.count s ∧ a'.count s ≤ t.asg.count s) ∧
      (t.asg.count s ≤ cget tgt s → t.asg.count s ≤ a'.count s ∧ a'.count s ≤ cget tgt s)) ∧
    ((∀ s ∈ rmRemaining t rm, t.asg.count s ≤ cget tgt s) → ∀ s ∈ rmRemaining t rm, a'.count s = cget tgt s) := by
  subst ht
  have hndr : (rmRemaining t rm).Nodup := List.Pairwise.filter _ (nodup_activeSlots t)
  have hnd := nodup_rmKeys t rm
  obtain ⟨hz, _, hsum⟩ := idealCounts_spec t.asg.length (rmRemaining t rm) hndr hrem
  have htr : cget (idealCounts t.asg.length (rmRemaining t rm)) rm = 0 := hz rm (by simp [mem_rmRemaining])
  have hinks : ∀ x ∈ t.asg, x ∈ rmRemaining t rm ++ [rm] := by
    intro x hx
    have := fa_in_active t hfa x hx
    by_cases e : x = rm
    · simp [e]
    · simp [mem_rmRemaining, this, e]
  obtain ⟨curF, h1, h2, h3, h4⟩ := plan_counts t
    (pickRemove_ok (idealCounts t.asg.length (rmRemaining t rm)) (rmRemaining t rm) rm
      (rmRemaining_nz t rm) htr)
    (fun s hs => by simp at hs; simp [hs]) hnd hinks
  have ha' : a' = specApply t.asg (runPlan (pickRemove (idealCounts t.asg.length (rmRemaining t rm)) (rmRemaining t rm) rm)
      (slotCounts t (rmRemaining t rm ++ [rm])) (slotHashSlots t [rm])) := by
    rw [ha, computeRemove_eq t rm h0 hin hrem]
  rw [← ha'] at h2 h3 h4
  have hsumks : ((rmRemaining t rm ++ [rm]).map (cget (idealCounts t.asg.length (rmRemaining t rm)))).sum
      = t.asg.length := by
    rw [List.map_append, List.sum_append, hsum]; simp [htr]
  have hrmin : rm ∈ rmRemaining t rm ++ [rm] := by simp
  have hsub : ∀ s ∈ rmRemaining t rm, s ∈ rmRemaining t rm ++ [rm] := fun s hs => by simp [hs]
  -- the removed slot ends empty
  have hrm0 : a'.count rm = 0 := by
    simp only [pickRemove] at h1
    split at h1
    · split at h1
      · rename_i hsel
        have hle := (selS_spec curF _ (rmRemaining t rm) (rmRemaining_nz t rm)).1 hsel
        have := eq_of_le_of_sum_eq (rmRemaining t rm ++ [rm]) (cget (idealCounts t.asg.length (rmRemaining t rm)))
          (fun s => a'.count s)
          (fun s hs => by
            rcases List.mem_append.mp hs with h | h
            · show _ ≤ a'.count s
              rw [← h2 s hs]; exact hle s h
            · have : s = rm := by simpa using h
              subst this; rw [htr]; exact Nat.zero_le _)
          (by rw [h4, hsumks]) rm hrmin
        rw [htr] at this; exact this.symm
      · cases h1
    · rename_i hge
      rw [h2 rm hrmin] at hge
      omega
  refine ⟨hrm0, fun s hs => h3 s (hsub s hs), ?_⟩
  intro hdef s hs
  exact eq_of_le_of_sum_eq (rmRemaining t rm ++ [rm]) (fun s => a'.count s)
    (cget (idealCounts t.asg.length (rmRemaining t rm)))
    (fun x hx => by
      rcases List.mem_append.mp hx with h | h
      · exact ((h3 x hx).2 (hdef x h)).2
      · have : x = rm := by simpa using h
        subst this; show a'.count x ≤ _; rw [hrm0]; exact Nat.zero_le _)
    (by rw [h4, hsumks]) s (hsub s hs)

theorem remove_level (t : Table) (rm : Nat) (hfa : fullyAssigned t.asg = true) (h0 : rm ≠ 0)
    (hin : rm ∈ activeSlots t) (hrem : (rmRemaining t rm).length ≠ 0)
    (hlev : ∀ s ∈ activeSlots t, level t.asg.length (activeSlots t).length (t.asg.count s) = true) :
    ∀ s ∈ rmRemaining t rm,
      level t.asg.length (rmRemaining t rm).length ((specApply t.asg (computeRemove t rm)).count s) = true := by
  obtain ⟨_, e2, e3⟩ := remove_core t rm hfa h0 hin hrem _ _ rfl rfl
  have hndr : (rmRemaining t rm).Nodup := List.Pairwise.filter _ (nodup_activeSlots t)
  have hm : 0 < (rmRemaining t rm).length := by omega
  have hlen : (rmRemaining t rm).length + 1 = (activeSlots t).length :=
    length_filter_ne _ _ (nodup_activeSlots t) hin
  have hn : 0 < (activeSlots t).length := by omega
  obtain ⟨_, htg, _⟩ := idealCounts_spec t.asg.length (rmRemaining t rm) hndr hrem
  by_cases hB : ∃ s0, s0 ∈ rmRemaining t rm ∧ cget (idealCounts t.asg.length (rmRemaining t rm)) s0 < t.asg.count s0
  · obtain ⟨s0, hs0, hlt⟩ := hB
    have hdiv : t.asg.length / (activeSlots t).length ≤ t.asg.length / (rmRemaining t rm).length :=
      Nat.div_le_div_left (by omega) hm
    have hin0 := (level_iff _ _ _ hn).mp (hlev s0 ((mem_rmRemaining t rm s0).mp hs0).1)
    have ht0 := htg s0 hs0
    have hremn : 0 < t.asg.length % (activeSlots t).length := by
      rcases Nat.eq_zero_or_pos (t.asg.length % (activeSlots t).length) with h | h
      · rw [h] at hin0; simp at hin0; omega
      · exact h
    have hbeq : t.asg.length / (activeSlots t).length = t.asg.length / (rmRemaining t rm).length := by
      simp only [hremn, ↓reduceIte] at hin0; omega
    have hremm : 0 < t.asg.length % (rmRemaining t rm).length := by
      have h1 := Nat.div_add_mod t.asg.length (activeSlots t).length
      have h2 := Nat.div_add_mod t.asg.length (rmRemaining t rm).length
      rw [hbeq] at h1
      have hmul : (activeSlots t).length * (t.asg.length / (rmRemaining t rm).length)
          = (rmRemaining t rm).length * (t.asg.length / (rmRemaining t rm).length)
            + t.asg.length / (rmRemaining t rm).length := by
        rw [← hlen, Nat.add_mul, Nat.one_mul]
      generalize t.asg.length / (rmRemaining t rm).length = b at h1 h2 hmul
      generalize (activeSlots t).length * b = nb at h1 hmul
      generalize (rmRemaining t rm).length * b = mb at h2 hmul
      omega
    intro s hs
    rw [level_iff _ _ _ hm]
    simp only [hremm, ↓reduceIte]
    have hts := htg s hs
    simp only [hremm, ↓reduceIte] at hts
    have hcs := (level_iff _ _ _ hn).mp (hlev s ((mem_rmRemaining t rm s).mp hs).1)
    simp only [hremn, ↓reduceIte] at hcs
    rcases Nat.le_total (cget (idealCounts t.asg.length (rmRemaining t rm)) s) (t.asg.count s) with h | h
    · have := (e2 s hs).1 h
      omega
    · have := (e2 s hs).2 h
      omega
  · have hA : ∀ s ∈ rmRemaining t rm, t.asg.count s ≤ cget (idealCounts t.asg.length (rmRemaining t rm)) s :=
      fun s hs => Nat.le_of_not_lt (fun hlt => hB ⟨s, hs, hlt⟩)
    intro s hs
    rw [e3 hA s hs, level_iff _ _ _ hm]
    exact htg s hs

end WK.C20

import WK.Proofs.C07_Ref10
import WK.Proofs.C07_Ref7
import WK.Proofs.C07_Ref8
import WK.Proofs.C07_Ref9
import WK.Proofs.C07_Inv8
namespace WK.C07

/-- reference-log side of `PhysLeLoc`: every channel's stored retention state has `physical ≤ logical` -/
def SPhys (s : SStore) : Prop := ∀ c, (sState (s.chan c).ret).phys ≤ (sState (s.chan c).ret).loc

/-- model side: every channel satisfies `PhysLeLoc` -/
def PhysAll (st : Store) : Prop := ∀ c, PhysLeLoc (st.chan c)

theorem sset_chan_cases (s : SStore) (c c' : Nat) (ch : SChan) :
    (s.setChan c ch).chan c' = ch ∨ (s.setChan c ch).chan c' = s.chan c' := by
  unfold SStore.setChan SStore.chan
  simp only [List.getD_eq_getElem?_getD, List.getElem?_set]
  by_cases e : c = c'
  · subst e
    by_cases h : c < s.chans.length
    · left; simp [h]
    · right; simp [h]
  · right; simp [e]

theorem sphys_set (s : SStore) (c : Nat) (ch : SChan) (h : SPhys s)
    (hch : (sState ch.ret).phys ≤ (sState ch.ret).loc) : SPhys (s.setChan c ch) := by
  intro c'
  rcases sset_chan_cases s c c' ch with e | e <;> rw [e]
  · exact hch
  · exact h c'

theorem sphys_abs (st : Store) : SPhys (abs st) ↔ PhysAll st := by
  constructor
  · intro h c; have := h c; rw [abs_ret] at this; exact this
  · intro h c; rw [abs_ret]; exact h c

/-- `specTrim`, restated with the named pieces of `doTrim'` -/
def specTrim' (s : SStore) (c t mm mb : Nat) : SStore × Out :=
  if t = 0 then (s, .trim 0 0 false)
  else
    match readForward (s.chan c).rows ((sState (s.chan c).ret).phys + 1) t (if mm > 0 then mm + 1 else 0) mb with
    | .error e => (s, .err e)
    | .ok rows =>
      (s.setChan c
        { rows := (s.chan c).rows.filter (fun r => !((trimDel rows mm).any (fun d => decide (d.seq = r.seq)))),
          leo := Nat.max (s.chan c).leo (Nat.max (s.chan c).leo (Nat.max t (sState (s.chan c).ret).max)),
          ret := some ⟨Nat.max t (sState (s.chan c).ret).loc,
            if trimMore rows t mm mb = false ∧ t > (sState (s.chan c).ret).phys then t
              else Nat.max (trimDelThrough rows mm) (sState (s.chan c).ret).phys,
            Nat.max (s.chan c).leo (Nat.max t (sState (s.chan c).ret).max)⟩,
          ck := (s.chan c).ck },
       Out.trim (trimDelThrough rows mm) (trimDel rows mm).length (trimMore rows t mm mb))

theorem specTrim_eq (s : SStore) (c t mm mb : Nat) : specTrim s c t mm mb = specTrim' s c t mm mb := by
  unfold specTrim specTrim'
  rfl

theorem specTrim_sphys (s : SStore) (c t mm mb : Nat) (h : SPhys s) : SPhys (specTrim s c t mm mb).1 := by
  rw [specTrim_eq]
  unfold specTrim'
  by_cases h0 : t = 0
  · rw [if_pos h0]; exact h
  rw [if_neg h0]
  have hpl := h c
  generalize hstt : sState (s.chan c).ret = state at *
  cases hrd : readForward (s.chan c).rows (state.phys + 1) t (if mm > 0 then mm + 1 else 0) mb with
  | error e => exact h
  | ok rows =>
    dsimp only
    apply sphys_set _ _ _ h
    show (sState (some _)).phys ≤ (sState (some _)).loc
    unfold sState
    dsimp only
    have hdel : ∀ v ∈ trimDel rows mm, v.seq ≤ t := by
      intro v hv
      have h2 : v ∈ rows := by unfold trimDel at hv; split at hv; exact List.mem_of_mem_take hv; exact hv
      have : v ∈ window (s.chan c).rows (state.phys + 1) t := by
        unfold readForward at hrd
        rcases scanGo_subset _ _ _ _ _ _ hrd v h2 with e | e
        · cases e
        · exact e
      have := (mem_window _ _ _ _).mp this
      omega
    have hdt : trimDelThrough rows mm ≤ t := by
      unfold trimDelThrough
      cases hl : (trimDel rows mm).getLast? with
      | none => exact Nat.zero_le _
      | some r => exact hdel r (List.mem_of_getLast? hl)
    split
    · exact Nat.le_max_left _ _
    · simp only [Nat.max_def]; repeat' split
      all_goals omega

theorem specStep_sphys (s : SStore) (op : Op) (h : SPhys s) : SPhys (specStep s op).1 := by
  cases op with
  | app c mode base recs =>
    show SPhys (specAppend s c mode base recs).1
    unfold specAppend
    dsimp only
    repeat' split
    all_goals try dsimp only
    all_goals repeat' split
    all_goals first | exact h | exact sphys_set _ _ _ h (h c)
  | fetch c base ck recs =>
    show SPhys (specFetch s c base ck recs).1
    unfold specFetch
    dsimp only
    repeat' split
    all_goals try dsimp only
    all_goals repeat' split
    all_goals first | exact h | exact sphys_set _ _ _ h (h c)
  | trunc c f =>
    show SPhys (specTrunc s c f).1
    unfold specTrunc
    dsimp only
    repeat' split
    all_goals try dsimp only
    all_goals repeat' split
    all_goals first | exact h | exact sphys_set _ _ _ h (h c)
  | trim c t mm mb => exact specTrim_sphys s c t mm mb h
  | ckpt c k =>
    show SPhys (if k.lso > k.hw then (s, Out.err .corruptstate) else (s.setChan c { s.chan c with ck := some k }, Out.ok)).1
    split
    · exact h
    · exact sphys_set _ _ _ h (h c)
  | ckptm c k v l =>
    show SPhys (if !specCkOk (s.chan c) k v l then (s, Out.err .corruptstate) else (s.setChan c { s.chan c with ck := some k }, Out.ok)).1
    split
    · exact h
    · exact sphys_set _ _ _ h (h c)
  | close c => exact h
  | reopen => exact h
  | leo c => exact h
  | lret c => exact h
  | lckpt c => exact h
  | read c f l b => exact h
  | rread c f l b => exact h
  | get c s => exact h
  | byid c id => exact h
  | lastvis c a => exact h
  | bycmn c cmn b l => exact h
  | idem c f m => exact h
  | lss c f t => exact h

theorem physAll_init : PhysAll Store.init := by
  intro c; rw [init_chan]; exact Nat.le_refl _

end WK.C07

import WK.Theorems.C39
/-
  C39 — no loss for every per-key-ordered delivery (phase 3): builds on Theorems/C39.
-/
namespace WK.C39

/-- the deltas of a delivery sequence that actually take effect, given the recorded replay keys -/
def fresh (seen : List Nat) : List Delta → List Delta
  | [] => []
  | d :: rest => if seen.any (· == d.idx) then fresh seen rest else d :: fresh (d.idx :: seen) rest

def touches (k : Nat) (d : Delta) : Bool :=
  match d.cmd with
  | some (k', _) => k' == k
  | none => false

theorem deliverAll_data (ds : List Delta) (t : Tgt) :
    (t.deliverAll ds).data = putAll ((fresh t.applied ds).filterMap (·.cmd)) t.data := by
  induction ds generalizing t with
  | nil => rfl
  | cons d rest ih =>
    simp only [Tgt.deliverAll, List.foldl, fresh]
    have ih' := ih (t.applyDelta d)
    simp only [Tgt.deliverAll] at ih'
    rw [ih']
    by_cases h : d.idx ∈ t.applied
    · have hs : t.applied.any (· == d.idx) = true := by simp; exact h
      rw [applyDelta_recorded t d h, hs]; simp
    · have hs : t.applied.any (· == d.idx) = false := by
        cases hx : t.applied.any (· == d.idx) with
        | false => rfl
        | true => simp at hx; exact absurd hx h
      have hd := (c39_delta_step t d).2 h
      rw [hs, hd.1, hd.2]
      cases hc : d.cmd with
      | none => simp [hc]
      | some kv => obtain ⟨k, v⟩ := kv; simp [hc, putAll]

theorem foldl_filter_key (ws : List (Nat × Nat)) (k : Nat) (a : Option Nat) :
    (ws.filter (fun w => w.1 == k)).foldl (fun acc w => if w.1 = k then some w.2 else acc) a =
      ws.foldl (fun acc w => if w.1 = k then some w.2 else acc) a := by
  induction ws generalizing a with
  | nil => rfl
  | cons w rest ih =>
    by_cases h : w.1 = k
    · simp [List.filter_cons, h, ih]
    · have : (w.1 == k) = false := by simp; exact h
      simp [List.filter_cons, this, h, ih]

theorem lastWrite_filter (ws : List (Nat × Nat)) (k : Nat) :
    lastWrite (ws.filter (fun w => w.1 == k)) k = lastWrite ws k :=
  foldl_filter_key ws k none

theorem filter_cmds (ds : List Delta) (k : Nat) :
    (ds.filterMap (·.cmd)).filter (fun w => w.1 == k) = (ds.filter (touches k)).filterMap (·.cmd) := by
  induction ds with
  | nil => rfl
  | cons d rest ih =>
    cases hc : d.cmd with
    | none => simp [List.filterMap_cons, List.filter_cons, hc, touches, ih]
    | some kv =>
      obtain ⟨k', v⟩ := kv
      by_cases h : k' = k
      · simp [List.filterMap_cons, List.filter_cons, hc, touches, h, ih]
      · have : (k' == k) = false := by simp; exact h
        simp [List.filterMap_cons, List.filter_cons, hc, touches, this, ih]

/-- the value a key gets from a run of deltas depends only on the deltas touching that key, in their order -/
theorem get_putAll_perkey (a b : List Delta) (m : KV) (k : Nat)
    (h : a.filter (touches k) = b.filter (touches k)) :
    get (putAll (a.filterMap (·.cmd)) m) k = get (putAll (b.filterMap (·.cmd)) m) k := by
  rw [get_putAll, get_putAll, ← lastWrite_filter (a.filterMap _), ← lastWrite_filter (b.filterMap _), filter_cmds, filter_cmds, h]


theorem fresh_distinct (ds : List Delta) (seen : List Nat)
    (hs : ∀ d ∈ ds, d.idx ∉ seen) (hd : ds.Pairwise (fun a b => a.idx < b.idx)) : fresh seen ds = ds := by
  induction ds generalizing seen with
  | nil => rfl
  | cons d rest ih =>
    rw [List.pairwise_cons] at hd
    have h0 : seen.any (· == d.idx) = false := by
      cases hx : seen.any (· == d.idx) with
      | false => rfl
      | true => simp at hx; exact absurd hx (hs d List.mem_cons_self)
    simp only [fresh, h0]
    rw [ih (d.idx :: seen) _ hd.2]
    · rfl
    · intro x hx hmem
      rcases List.mem_cons.mp hmem with h | h
      · have := hd.1 x hx; omega
      · exact hs x (List.mem_cons_of_mem _ hx) h

/-- the deltas forwarded by two consecutive runs of accepted writes have strictly increasing source indices -/
theorem forwarded_increasing (ws1 ws2 : List (Nat × Nat)) (s : Src) (ho : s.open) (hs : s.started = true) :
    ((s.writes ws1).2 ++ ((s.writes ws1).1.writes ws2).2).Pairwise (fun a b => a.idx < b.idx) := by
  have w1 := writes_spec ws1 s ho
  have w2 := writes_spec ws2 (s.writes ws1).1 w1.2.1
  have hst2 : (s.writes ws1).1.started = true := by rw [w1.2.2.1]; exact hs
  have d1 := w1.2.2.2.2.2 hs
  have d2 := w2.2.2.2.2.2 hst2
  rw [List.pairwise_append]
  refine ⟨d1.2.2, d2.2.2, ?_⟩
  intro a ha b hb
  have hb' := d2.2.1 b hb
  have hle : ∀ (ws : List (Nat × Nat)) (s : Src), s.open → s.started = true →
      ∀ d ∈ (s.writes ws).2, d.idx ≤ (s.writes ws).1.idx := by
    intro ws
    induction ws with
    | nil => intro s _ _ d hd; simp [Src.writes] at hd
    | cons w rest ih =>
      intro s ho hs d hd
      obtain ⟨k', v'⟩ := w
      have hw := write_started s k' v' ho hs
      obtain ⟨_, hopen, hst, hidx', _, hdelta, _⟩ := hw
      simp only [Src.writes] at hd ⊢
      rw [hdelta] at hd
      simp at hd
      have hspec := writes_spec rest (s.write k' v').1 hopen
      rcases hd with rfl | hd
      · rw [hspec.2.2.2.1, hidx']; simp
      · exact ih _ hopen hst d hd
  have := hle ws1 s ho hs a ha
  omega

/-- **No loss for every per-key-ordered delivery.**  Same setting as `c39_no_loss`, but the target
    receives an ARBITRARY sequence `ds` of deltas (any interleaving across keys, any replays, fence
    markers anywhere).  `fresh [] ds` are the deliveries that take effect (the first occurrence of each
    source index).  If, for every key, the effective deliveries touching that key are exactly the
    forwarded writes of that key in source order (complete, and in order PER KEY), the target equals
    the source on every key. -/
theorem c39_no_loss_per_key (ws0 ws1 ws2 : List (Nat × Nat)) (ds : List Delta) :
    let s1 := (({} : Src).writes ws0).1
    let r2 := ({ s1 with started := true } : Src).writes ws1
    let t1 := ({} : Tgt).importSnapshot r2.1
    let r3 := r2.1.writes ws2
    (∀ k, (fresh [] ds).filter (touches k) = (r2.2 ++ r3.2).filter (touches k)) →
    ∀ k, get (t1.deliverAll ds).data k = get r3.1.data k := by
  intro s1 r2 t1 r3 hkey k
  have h0 : ({} : Src).open := ⟨rfl, rfl⟩
  have w0 := writes_spec ws0 {} h0
  have ho1 : ({ s1 with started := true } : Src).open := w0.2.1
  have hpw := forwarded_increasing ws1 ws2 { s1 with started := true } ho1 rfl
  have hF : fresh [] (r2.2 ++ r3.2) = r2.2 ++ r3.2 := fresh_distinct _ [] (by intro d _ h; cases h) hpw
  have hin := c39_no_loss ws0 ws1 ws2 k
  have e1 := deliverAll_data ds t1
  have e2 := deliverAll_data (r2.2 ++ r3.2) t1
  have ha : t1.applied = [] := rfl
  rw [ha] at e1 e2
  rw [hF] at e2
  rw [e1, get_putAll_perkey _ _ _ k (hkey k), ← e2]
  exact hin

/-- non-vacuity: key 1 and key 2 interleaved the other way round, with replays and the second run first -/
example :
    let r2 := ({ started := true } : Src).writes [(1, 1), (2, 2)]
    let r3 := r2.1.writes [(1, 3), (2, 4)]
    let F := r2.2 ++ r3.2
    let g := fun (i : Nat) => F.getD i ⟨0, none⟩
    let ds := [g 1, g 3, g 1, g 0, g 3, g 2, g 0]
    (∀ k ∈ [1, 2, 3, 4], (fresh [] ds).filter (touches k) = F.filter (touches k)) ∧
    sameOn [1, 2, 3, 4] ((({} : Tgt).importSnapshot r2.1).deliverAll ds).data r3.1.data = true := by
  decide

end WK.C39

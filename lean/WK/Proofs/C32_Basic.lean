import WK.Model.C32
/-
  C32 helper lemmas: association lists with in-place update, entry bookkeeping.
-/
namespace WK.C32

section assoc
variable {κ ν : Type} [DecidableEq κ]

def keys (m : List (κ × ν)) : List κ := m.map (·.1)

@[simp] theorem aget_nil (k : κ) : aget k ([] : List (κ × ν)) = none := rfl

theorem aget_cons (k k' : κ) (v : ν) (m : List (κ × ν)) :
    aget k ((k', v) :: m) = if k' = k then some v else aget k m := rfl

theorem aget_aput (k k' : κ) (v : ν) (m : List (κ × ν)) :
    aget k' (aput k v m) = if k' = k then some v else aget k' m := by
  induction m with
  | nil => simp [aput, aget_cons]; grind
  | cons p m ih =>
    obtain ⟨a, b⟩ := p
    simp only [aput]
    split
    · simp only [aget_cons]; grind
    · simp only [aget_cons, ih]; grind

theorem aget_adel (k k' : κ) (m : List (κ × ν)) :
    aget k (adel k' m) = if k = k' then none else aget k m := by
  induction m with
  | nil => simp [adel]
  | cons p m ih =>
    obtain ⟨a, b⟩ := p
    simp only [adel, List.filter_cons] at ih ⊢
    by_cases h : a = k' <;> by_cases h2 : a = k <;> simp_all [aget_cons] <;> grind

theorem aget_none_iff {k : κ} {m : List (κ × ν)} : aget k m = none ↔ k ∉ keys m := by
  induction m with
  | nil => simp [keys]
  | cons p m ih =>
    obtain ⟨a, b⟩ := p
    simp only [aget_cons, keys, List.map_cons, List.mem_cons, not_or] at ih ⊢
    by_cases h : a = k
    · simp [h]
    · simp only [h, if_false, ih]
      constructor
      · intro hh; exact ⟨fun e => h e.symm, hh⟩
      · intro hh; exact hh.2

theorem aget_mem {k : κ} {v : ν} {m : List (κ × ν)} (h : aget k m = some v) : (k, v) ∈ m := by
  induction m with
  | nil => simp at h
  | cons p m ih =>
    obtain ⟨a, b⟩ := p
    rw [aget_cons] at h
    by_cases h2 : a = k
    · simp [h2] at h; simp [h2, h]
    · simp [h2] at h; exact List.mem_cons_of_mem _ (ih h)

theorem keys_aput (k : κ) (v : ν) (m : List (κ × ν)) :
    keys (aput k v m) = if (aget k m).isSome then keys m else keys m ++ [k] := by
  induction m with
  | nil => simp [aput, keys]
  | cons p m ih =>
    obtain ⟨a, b⟩ := p
    simp only [aput, aget_cons]
    by_cases h : a = k
    · simp [h, keys]
    · simp only [h, if_false, keys, List.map_cons] at ih ⊢
      rw [ih]
      split <;> simp

theorem aput_self {k : κ} {v : ν} {m : List (κ × ν)} (h : aget k m = some v) : aput k v m = m := by
  induction m with
  | nil => simp at h
  | cons p m ih =>
    obtain ⟨a, b⟩ := p
    rw [aget_cons] at h
    simp only [aput]
    by_cases h2 : a = k
    · simp [h2] at h; simp [h2, h]
    · simp [h2] at h; simp [h2, ih h]

theorem aput_aput (k : κ) (v w : ν) (m : List (κ × ν)) : aput k v (aput k w m) = aput k v m := by
  induction m with
  | nil => simp [aput]
  | cons p m ih =>
    obtain ⟨a, b⟩ := p
    simp only [aput]
    by_cases h : a = k
    · simp [h, aput]
    · simp [h, aput, ih]

theorem keys_adel (k : κ) (m : List (κ × ν)) : keys (adel k m) = (keys m).filter (fun x => x ≠ k) := by
  simp [keys, adel, List.filter_map]
  rfl

theorem length_adel {k : κ} {m : List (κ × ν)} (hnd : (keys m).Nodup) (hk : (aget k m).isSome) :
    (adel k m).length + 1 = m.length := by
  induction m with
  | nil => simp at hk
  | cons p m ih =>
    obtain ⟨a, b⟩ := p
    simp only [keys, List.map_cons, List.nodup_cons] at hnd
    rw [aget_cons] at hk
    by_cases h : a = k
    · subst h
      have : adel a m = m := by
        unfold adel
        rw [List.filter_eq_self]
        intro q hq
        have : q.1 ∈ m.map (·.1) := List.mem_map_of_mem hq
        simp only [ne_eq, decide_eq_true_eq]
        intro e; exact hnd.1 (e ▸ this)
      have h2 : adel a ((a, b) :: m) = adel a m := by simp [adel]
      rw [h2, this]; simp
    · simp only [h, if_false] at hk
      have := ih hnd.2 hk
      simp [adel, h] at this ⊢
      omega

theorem filter_split_length {α : Type} (p : α → Bool) (l : List α) :
    (l.filter p).length + (l.filter (fun x => !p x)).length = l.length := by
  induction l with
  | nil => rfl
  | cons x xs ih =>
    simp only [List.filter_cons]
    cases p x <;> simp <;> omega

end assoc

/-! ### entry bookkeeping -/

theorem mem_removeExtra {xs : List (Nat × Pend)} {i : Nat} {a : Nat × Pend} (h : a ∈ removeExtra xs i) : a ∈ xs := by
  unfold removeExtra at h
  split at h
  · exact h
  · rename_i l hl
    split at h
    · exact (List.dropLast_sublist _).subset h
    · have := (List.dropLast_sublist _).subset h
      rcases List.mem_or_eq_of_mem_set this with h1 | h1
      · exact h1
      · subst h1; exact List.mem_of_getLast? hl

theorem removeExtra_append_last (xs : List (Nat × Pend)) (x : Nat × Pend) :
    removeExtra (xs ++ [x]) xs.length = xs := by
  unfold removeExtra
  simp

theorem findTok_append_fresh {xs : List (Nat × Pend)} {tok : Nat} {p : Pend} (h : ∀ a ∈ xs, a.1 ≠ tok) :
    findTok tok (xs ++ [(tok, p)]) = some xs.length := by
  unfold findTok
  induction xs with
  | nil => simp
  | cons y ys ih =>
    have hy : y.1 ≠ tok := h y (by simp)
    have := ih (fun a ha => h a (List.mem_cons_of_mem _ ha))
    simp [List.findIdx?_cons, hy, this]

/-- cancelling on a committed entry never changes the protocol-visible delivery -/
theorem cancelAttempt_committed {e : Entry} (tok : Nat) (hc : e.committed = true) :
    (e.cancelAttempt tok).1.committed = true ∧ (e.cancelAttempt tok).1.pending = e.pending := by
  unfold Entry.cancelAttempt
  split
  · simp [hc]
  · split <;> simp [hc]

theorem finishAttempt_ok_committed (e : Entry) (tok : Nat) (h : (e.finishAttempt tok).2 = true) :
    (e.finishAttempt tok).1.committed = true := by
  unfold Entry.finishAttempt at h ⊢
  split
  · rfl
  · split
    · simp_all
    · split <;> rfl

end WK.C32

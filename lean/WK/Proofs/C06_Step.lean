import WK.Proofs.C06_Maps
/-
  C06 — every transition of the machine (and the three guarded reactor ack entry
  points) satisfies `StepOK`: it keeps the invariant, never lowers HW, keeps the
  fence from regressing, and its replies are addressed to distinct waiters that
  were pending before and are gone afterwards; a successful reply to a
  quorum-mode waiter is covered by the new HW.  Core Lean only.
-/
namespace WK.C06

/-- linear arithmetic after reducing structure projections -/
macro "arith" : tactic => `(tactic| ((try dsimp only at *); omega))

structure StepOK (s : State) (r : State × Decision) (adm : List Nat) : Prop where
  inv : Inv r.1
  hw_mono : s.hw ≤ r.1.hw
  fence : fenceLe s r.1
  rep_nodup : (r.2.replies.map (·.op)).Nodup
  rep_pending : ∀ x ∈ r.2.replies.map (·.op), x ∈ keysW s.pending
  rep_gone : ∀ x ∈ r.2.replies.map (·.op), x ∉ keysW r.1.pending
  keys_sub : ∀ x ∈ keysW r.1.pending, x ∈ keysW s.pending ∨ x ∈ adm
  covered : ∀ rp ∈ r.2.replies, rp.err = .ok → rp.mode = 1 → rp.target ≠ 0 ∧ rp.target ≤ r.1.hw
  rep_mode : ∀ rp ∈ r.2.replies, rp.err = .ok → ∃ w, lookupW s.pending rp.op = some w ∧ w.mode = rp.mode

theorem fenceLe_refl (s : State) : fenceLe s s := Or.inr ⟨rfl, Nat.le_refl _⟩

theorem fenceLe_of_eq {a b : State} (h1 : b.epoch = a.epoch) (h2 : b.lepoch = a.lepoch) : fenceLe a b :=
  Or.inr ⟨h1.symm, by arith⟩

theorem Inv.po {s : State} (h : Inv s) : PO s.pending s.order := ⟨h.pend_nodup, h.order_nodup, h.order_iff⟩

/-- a transition that changes nothing and replies nothing -/
theorem StepOK.refl {s : State} (h : Inv s) {d : Decision} (hd : d.replies = []) (adm : List Nat) :
    StepOK s (s, d) adm where
  inv := h
  hw_mono := Nat.le_refl _
  fence := fenceLe_refl s
  rep_nodup := by simp [hd]
  rep_pending := by simp [hd]
  rep_gone := by simp [hd]
  keys_sub := fun x hx => Or.inl hx
  covered := by simp [hd]
  rep_mode := by simp [hd]

/-- prefix a reply-free preparation step that keeps the pending keys -/
theorem StepOK.pre {s s' : State} {r : State × Decision} {adm : List Nat}
    (hk : keysW s'.pending = keysW s.pending) (hhw : s.hw ≤ s'.hw)
    (he : s'.epoch = s.epoch) (hl : s'.lepoch = s.lepoch)
    (hm : ∀ x w', lookupW s'.pending x = some w' → ∃ w, lookupW s.pending x = some w ∧ w.mode = w'.mode)
    (h : StepOK s' r adm) : StepOK s r adm where
  inv := h.inv
  hw_mono := Nat.le_trans hhw h.hw_mono
  fence := by
    have := h.fence
    unfold fenceLe at *
    omega
  rep_nodup := h.rep_nodup
  rep_pending := fun x hx => hk ▸ h.rep_pending x hx
  rep_gone := h.rep_gone
  keys_sub := fun x hx => hk ▸ h.keys_sub x hx
  covered := h.covered
  rep_mode := by
    intro rp hrp hok
    obtain ⟨w', h1, h2⟩ := h.rep_mode rp hrp hok
    obtain ⟨w, h3, h4⟩ := hm _ _ h1
    exact ⟨w, h3, by rw [h4, h2]⟩

theorem StepOK.decision {s a : State} {d d' : Decision} {adm : List Nat}
    (h : StepOK s (a, d) adm) (hr : d'.replies = d.replies) : StepOK s (a, d') adm where
  inv := h.inv
  hw_mono := h.hw_mono
  fence := h.fence
  rep_nodup := by simpa [hr] using h.rep_nodup
  rep_pending := by simpa [hr] using h.rep_pending
  rep_gone := by simpa [hr] using h.rep_gone
  keys_sub := h.keys_sub
  covered := by simpa [hr] using h.covered
  rep_mode := by simpa [hr] using h.rep_mode

/-- replacing pending map and order list by a consistent pair keeps the invariant -/
theorem Inv.with_po {s : State} (h : Inv s) {p : List Waiter} {o : List Nat} (hpo : PO p o) :
    Inv { s with pending := p, order := o } :=
  ⟨h.ckpt_le, h.hw_le, h.match_le, hpo.pn, hpo.on, hpo.iff, h.infl_wf⟩

-- ------------------------------------------------------ completeAppendWaiters

theorem complete_ok {s : State} (h : Inv s) (order : List Nat) :
    StepOK s (completeAppendWaiters s order) [] := by
  unfold completeAppendWaiters
  split
  · exact StepOK.refl h rfl []
  · dsimp only
    generalize (if order.isEmpty = true then
        (if s.order.isEmpty = true then sortAsc (keysW s.pending) else s.order) else order) = ord
    obtain ⟨ia, ib, ic, id, ie⟩ := completeLoop_spec s.hw ord s.pending
    have po' := h.po.remove ia (ib h.pend_nodup)
    refine ⟨h.with_po po', Nat.le_refl _, fenceLe_of_eq rfl rfl, id h.pend_nodup, ic, ?_, ?_, ?_, ?_⟩
    · intro x hx hk
      exact ((ia x).mp hk).2 hx
    · intro x hx
      exact Or.inl ((ia x).mp hx).1
    · intro rp hrp _ hm
      obtain ⟨_, h2, h3⟩ := ie rp hrp
      exact ⟨h2, h3 hm⟩
    · intro rp hrp _
      obtain ⟨w, h1, h2, _⟩ := completeLoop_reflects s.hw ord s.pending rp hrp
      exact ⟨w, h1, h2.symm⟩

-- --------------------------------------------------------- failInflightAppend

theorem map_op_mk (err : Err) (l : List Nat) :
    (l.map (fun op => ({ op := op, err := err, seqs := [] } : Reply))).map (·.op) = l := by
  induction l with
  | nil => rfl
  | cons a t ih =>
    simp only [List.map_cons, List.cons.injEq, true_and]
    exact ih

theorem fail_ok {s : State} (h : Inv s) (err : Err) (hne : err ≠ .ok) : StepOK s (failInflight s err) [] := by
  unfold failInflight
  split
  · exact StepOK.refl h rfl []
  · next inf _ =>
    dsimp only
    obtain ⟨ia, ib, ic, id⟩ := failLoop_spec inf.ops s.pending
    have po' := h.po.remove ia (ib h.pend_nodup)
    have hmap := map_op_mk err (failLoop inf.ops s.pending).2
    refine ⟨⟨h.ckpt_le, h.hw_le, h.match_le, po'.pn, po'.on, po'.iff, by simp⟩,
            Nat.le_refl _, fenceLe_of_eq rfl rfl, ?_, ?_, ?_, ?_, ?_, ?_⟩
    · rw [hmap]; exact id h.pend_nodup
    · rw [hmap]; exact ic
    · rw [hmap]
      intro x hx hk
      exact ((ia x).mp hk).2 hx
    · intro x hx
      exact Or.inl ((ia x).mp hx).1
    · intro rp hrp _ hm
      simp only [List.mem_map] at hrp
      obtain ⟨op, _, hop⟩ := hrp
      rw [← hop] at hm
      simp at hm
    · intro rp hrp hok
      simp only [List.mem_map] at hrp
      obtain ⟨op, _, hop⟩ := hrp
      rw [← hop] at hok
      exact absurd hok hne

-- ------------------------------------------------------------ ApplyAppendStored

theorem storedPre_ok {s : State} (h : Inv s) (inf : Inflight) (base last : Nat) :
    Inv (storedPre s inf base last) ∧
    keysW (storedPre s inf base last).pending = keysW s.pending ∧
    s.hw ≤ (storedPre s inf base last).hw ∧
    (storedPre s inf base last).epoch = s.epoch ∧ (storedPre s inf base last).lepoch = s.lepoch ∧
    (∀ x w', lookupW (storedPre s inf base last).pending x = some w' →
       ∃ w, lookupW s.pending x = some w ∧ w.mode = w'.mode) := by
  unfold storedPre
  dsimp only
  have hk := keysW_assignLoop (List.range' base inf.recs.length) inf.ops inf.counts 0 s.pending
  have po' : PO (assignLoop (List.range' base inf.recs.length) inf.ops inf.counts 0 s.pending) s.order :=
    h.po.same_keys hk
  have h1 := h.ckpt_le
  have h2 := h.hw_le
  have hmode := assignLoop_mode (List.range' base inf.recs.length) inf.ops inf.counts 0 s.pending
  split
  · -- leader: Progress[local] = LEO; AdvanceHW
    generalize hX : ({ s with pending := assignLoop (List.range' base inf.recs.length) inf.ops inf.counts 0 s.pending,
                              leo := max s.leo last,
                              progress := setP s.progress s.localNode (max s.leo last) } : State) = X
    obtain ⟨hv, heq, hle, hb⟩ := advanceHW_spec X
    rw [heq]
    subst hX
    dsimp only at *
    have hm : ∀ e ∈ setP s.progress s.localNode (max s.leo last), e.2 ≤ max s.leo last :=
      setP_le (fun e he => Nat.le_trans (h.match_le e he) (Nat.le_max_left _ _)) (Nat.le_refl _)
    have hb' := hb (max s.leo last) hm (by arith)
    exact ⟨⟨by arith, hb', hm, po'.pn, po'.on, po'.iff, by simp⟩, hk, hle, rfl, rfl, hmode⟩
  · refine ⟨⟨h1, by arith, ?_, po'.pn, po'.on, po'.iff, by simp⟩, hk, Nat.le_refl _, rfl, rfl, hmode⟩
    intro e he
    exact Nat.le_trans (h.match_le e he) (Nat.le_max_left _ _)

theorem stored_ok {s : State} (h : Inv s) (f : Fence) (base last : Nat) (err : Err) :
    StepOK s (applyAppendStored s f base last err) [] := by
  unfold applyAppendStored
  split
  · exact StepOK.refl h rfl []
  · split
    · next hne => exact fail_ok h err hne
    · split
      · exact StepOK.refl h rfl []
      · next inf _ =>
        dsimp only
        obtain ⟨hi, hk, hhw, he, hl, hmo⟩ := storedPre_ok h inf base last
        have hc := StepOK.pre hk hhw he hl hmo (complete_ok hi inf.ops)
        exact StepOK.decision (d := (completeAppendWaiters (storedPre s inf base last) inf.ops).2) hc rfl

-- --------------------------------------------------------- ApplyQuorumCommitted

theorem quorumPre_ok {s : State} (h : Inv s) (inf : Inflight) (first last : Nat) :
    Inv (quorumPre s inf first last last) ∧
    keysW (quorumPre s inf first last last).pending = keysW s.pending ∧
    s.hw ≤ (quorumPre s inf first last last).hw ∧
    (quorumPre s inf first last last).epoch = s.epoch ∧ (quorumPre s inf first last last).lepoch = s.lepoch ∧
    (∀ x w', lookupW (quorumPre s inf first last last).pending x = some w' →
       ∃ w, lookupW s.pending x = some w ∧ w.mode = w'.mode) := by
  unfold quorumPre
  dsimp only
  have hk := keysW_assignLoop (List.range' first inf.recs.length) inf.ops inf.counts 0 s.pending
  have po' : PO (assignLoop (List.range' first inf.recs.length) inf.ops inf.counts 0 s.pending) s.order :=
    h.po.same_keys hk
  have h1 := h.ckpt_le
  have h2 := h.hw_le
  have hg : getP s.progress s.localNode ≤ s.leo := getP_le h.match_le _
  have hm : ∀ e ∈ setP s.progress s.localNode (max (getP s.progress s.localNode) last), e.2 ≤ max s.leo last :=
    setP_le (fun e he => Nat.le_trans (h.match_le e he) (Nat.le_max_left _ _)) (by arith)
  exact ⟨⟨by arith, by arith, hm, po'.pn, po'.on, po'.iff, by simp⟩, hk, by arith, rfl, rfl,
         assignLoop_mode (List.range' first inf.recs.length) inf.ops inf.counts 0 s.pending⟩

theorem quorum_ok {s : State} (h : Inv s) (f : Fence) (first last hw : Nat) (err : Err) :
    StepOK s (applyQuorumCommitted s f first last hw err) [] := by
  unfold applyQuorumCommitted
  split
  · exact StepOK.refl h rfl []
  · split
    · next hne => exact fail_ok h err hne
    · split
      · exact StepOK.refl h rfl []
      · next inf _ =>
        dsimp only
        split
        · exact fail_ok h .conflict (by decide)
        · next hc =>
          have hhw : hw = last := by
            simp only [Bool.or_eq_true, not_or] at hc
            simpa using hc.2
          subst hhw
          obtain ⟨hi, hk, hhw, he, hl, hmo⟩ := quorumPre_ok h inf first hw
          exact StepOK.pre hk hhw he hl hmo (complete_ok hi inf.ops)

-- ------------------------------------------------------------- ApplyFollowerAck

theorem ackPre_ok {s : State} (h : Inv s) (follower mtch : Nat) (hle : mtch ≤ s.leo) :
    Inv (ackPre s follower mtch) ∧
    keysW (ackPre s follower mtch).pending = keysW s.pending ∧
    s.hw ≤ (ackPre s follower mtch).hw ∧
    (ackPre s follower mtch).epoch = s.epoch ∧ (ackPre s follower mtch).lepoch = s.lepoch := by
  unfold ackPre
  have h1 := h.ckpt_le
  have h2 := h.hw_le
  split
  · generalize hX : ({ s with progress := setP s.progress follower mtch } : State) = X
    obtain ⟨hv, heq, hge, hb⟩ := advanceHW_spec X
    rw [heq]
    subst hX
    dsimp only at *
    have hm : ∀ e ∈ setP s.progress follower mtch, e.2 ≤ s.leo := setP_le h.match_le hle
    have hb' := hb s.leo hm h2
    exact ⟨⟨by arith, hb', hm, h.pend_nodup, h.order_nodup, h.order_iff, h.infl_wf⟩, rfl, hge, rfl, rfl⟩
  · obtain ⟨hv, heq, hge, hb⟩ := advanceHW_spec s
    rw [heq]
    have hb' := hb s.leo h.match_le h2
    exact ⟨⟨by arith, hb', h.match_le, h.pend_nodup, h.order_nodup, h.order_iff, h.infl_wf⟩, rfl, hge, rfl, rfl⟩

/-- ApplyFollowerAck keeps the invariant PROVIDED the acknowledged offset does not exceed
    the LEO — the machine itself does not check this; the reactor's entry points do. -/
theorem followerAck_ok {s : State} (h : Inv s) (follower mtch : Nat) (hle : mtch ≤ s.leo) :
    StepOK s (applyFollowerAck s follower mtch) [] := by
  unfold applyFollowerAck
  split
  · exact StepOK.refl h rfl []
  · obtain ⟨hi, hk, hhw, he, hl⟩ := ackPre_ok h follower mtch hle
    have hp : (ackPre s follower mtch).pending = s.pending := by
      unfold ackPre
      split
      · obtain ⟨hv, heq, _⟩ := advanceHW_spec ({ s with progress := setP s.progress follower mtch } : State)
        rw [heq]
      · obtain ⟨hv, heq, _⟩ := advanceHW_spec s
        rw [heq]
    exact StepOK.pre hk hhw he hl (fun x w' hx => ⟨w', by rw [← hp]; exact hx, rfl⟩) (complete_ok hi _)

theorem reactorAck_ok {s : State} (h : Inv s) (key epoch lepoch follower mtch : Nat) :
    StepOK s (reactorAck s key epoch lepoch follower mtch) [] := by
  unfold reactorAck
  split
  · exact StepOK.refl h rfl []
  · split
    · exact StepOK.refl h rfl []
    · split
      · exact StepOK.refl h rfl []
      · next hgt => exact followerAck_ok h follower mtch (by arith)

theorem reactorStoppedAck_ok {s : State} (h : Inv s) (key epoch lepoch follower mtch lv av : Nat) :
    StepOK s (reactorStoppedAck s key epoch lepoch follower mtch lv av) [] := by
  unfold reactorStoppedAck
  split
  · exact StepOK.refl h rfl []
  · split
    · exact StepOK.refl h rfl []
    · next hg =>
      split
      · exact StepOK.refl h rfl []
      · have hm : mtch = s.leo := by
          simp only [Bool.or_eq_true, not_or] at hg
          simpa using hg.2
        exact followerAck_ok h follower mtch (by arith)

theorem reactorPullAck_ok {s : State} (h : Inv s) (follower off : Nat) :
    StepOK s (reactorPullAck s follower off) [] := by
  unfold reactorPullAck
  split
  · exact StepOK.refl h rfl []
  · split
    · exact StepOK.refl h rfl []
    · next hgt => exact followerAck_ok h follower off (by arith)

-- -------------------------------------------------------------- cancel / abort

theorem cancel_ok {s : State} (h : Inv s) (op : Nat) : StepOK s (cancelAppendWaiter s op) [] := by
  unfold cancelAppendWaiter
  split
  · exact StepOK.refl h rfl []
  · have hk : ∀ x, x ∈ keysW (eraseW s.pending op) ↔ x ∈ keysW s.pending ∧ x ∉ [op] := by
      intro x
      rw [mem_keysW_eraseW]
      simp
    have po' := h.po.remove hk (nodup_keysW_eraseW op h.pend_nodup)
    refine ⟨h.with_po po', Nat.le_refl _, fenceLe_of_eq rfl rfl, by simp, by simp, by simp, ?_, by simp, by simp⟩
    intro x hx
    exact Or.inl ((hk x).mp hx).1

theorem abort_ok {s : State} (h : Inv s) (batch : Nat) : StepOK s (abortAppendBatch s batch) [] := by
  unfold abortAppendBatch
  split
  · exact StepOK.refl h rfl []
  · next inf _ =>
    split
    · exact StepOK.refl h rfl []
    · obtain ⟨ia, ib⟩ := foldl_eraseW_spec inf.ops s.pending
      have po' := h.po.remove ia (ib h.pend_nodup)
      refine ⟨⟨h.ckpt_le, h.hw_le, h.match_le, po'.pn, po'.on, po'.iff, by simp⟩,
              Nat.le_refl _, fenceLe_of_eq rfl rfl, by simp, by simp, by simp, ?_, by simp, by simp⟩
      intro x hx
      exact Or.inl ((ia x).mp hx).1

-- --------------------------------------------------------- ProposeAppendBatch

theorem propose_ok {s : State} (h : Inv s) (batch : Nat) (ws : List WaiterCmd) :
    StepOK s (proposeAppendBatch s batch ws) (ws.map (·.op)) := by
  unfold proposeAppendBatch
  split
  · exact StepOK.refl h rfl _
  · split
    · exact StepOK.refl h rfl _
    · split
      · exact StepOK.refl h rfl _
      · split
        · exact StepOK.refl h rfl _
        · split
          · exact StepOK.refl h rfl _
          · split
            · exact StepOK.refl h rfl _
            · dsimp only
              obtain ⟨po', hsub⟩ := addWaiters_spec ws s.pending s.order h.po
              refine ⟨⟨h.ckpt_le, h.hw_le, h.match_le, po'.pn, po'.on, po'.iff, ?_⟩,
                      Nat.le_refl _, fenceLe_of_eq rfl rfl, by simp, by simp, by simp, hsub, by simp, by simp⟩
              intro i hi
              simp only [Option.some.injEq] at hi
              subst hi
              simp

-- ------------------------------------------------------------------ ApplyMeta

theorem validateMeta_ok_fence {s : State} {m : Meta} (h : validateMeta s m = .ok) :
    s.epoch < m.epoch ∨ (s.epoch = m.epoch ∧ s.lepoch ≤ m.lepoch) := by
  unfold validateMeta at h
  split at h
  · cases h
  · split at h
    · cases h
    · split at h
      · cases h
      · next hc =>
        simp only [Bool.or_eq_true, Bool.and_eq_true, decide_eq_true_eq, beq_iff_eq, not_or, not_and] at hc
        omega

theorem metaInstall_ok {s0 : State} (h0 : Inv s0) (m : Meta) :
    Inv (metaInstall s0 m).1 ∧ (metaInstall s0 m).1.hw = s0.hw ∧
    (metaInstall s0 m).1.pending = s0.pending ∧
    (metaInstall s0 m).1.epoch = m.epoch ∧ (metaInstall s0 m).1.lepoch = m.lepoch ∧
    (metaInstall s0 m).2.replies = [] := by
  unfold metaInstall
  dsimp only
  split
  · exact ⟨⟨h0.ckpt_le, h0.hw_le, h0.match_le, h0.pend_nodup, h0.order_nodup, h0.order_iff, h0.infl_wf⟩,
           rfl, rfl, rfl, rfl, rfl⟩
  · split
    · exact ⟨⟨h0.ckpt_le, h0.hw_le, setP_le h0.match_le (Nat.le_refl _), h0.pend_nodup, h0.order_nodup,
              h0.order_iff, h0.infl_wf⟩, rfl, rfl, rfl, rfl, rfl⟩
    · exact ⟨⟨h0.ckpt_le, h0.hw_le, h0.match_le, h0.pend_nodup, h0.order_nodup, h0.order_iff, h0.infl_wf⟩,
             rfl, rfl, rfl, rfl, rfl⟩

theorem clear_inv {s : State} (h : Inv s) : Inv (clearAppendState s) :=
  ⟨h.ckpt_le, h.hw_le, h.match_le, PO.nil.pn, PO.nil.on, PO.nil.iff, by simp [clearAppendState]⟩

theorem meta_ok {s : State} (h : Inv s) (m : Meta) : StepOK s (applyMeta s m) [] := by
  unfold applyMeta
  split
  · next hv =>
    have hf := validateMeta_ok_fence hv
    have key : ∀ s0 : State, Inv s0 → s0.hw = s.hw → (∀ x ∈ keysW s0.pending, x ∈ keysW s.pending) →
        StepOK s (metaInstall s0 m) [] := by
      intro s0 h0 hhw hsub
      obtain ⟨hi, e1, e2, e3, e4, e5⟩ := metaInstall_ok h0 m
      refine ⟨hi, by rw [e1, hhw]; exact Nat.le_refl _, ?_, by simp [e5], by simp [e5], by simp [e5], ?_,
              by simp [e5], by simp [e5]⟩
      · unfold fenceLe
        rw [e3, e4]
        exact hf
      · intro x hx
        rw [e2] at hx
        exact Or.inl (hsub x hx)
    split
    · exact key _ (clear_inv h) rfl (by simp [clearAppendState, keysW])
    · exact key s h rfl (fun x hx => hx)
  · exact StepOK.refl h rfl []

-- ----------------------------------------------------------------------- step

/-- the OpIDs an event may newly register as pending -/
def admits : Event → List Nat
  | .propose _ ws => ws.map (·.op)
  | _ => []

theorem step_ok {s : State} (h : Inv s) (ev : Event) : StepOK s (step s ev) (admits ev) := by
  cases ev with
  | setMeta m => exact meta_ok h m
  | propose b ws => exact propose_ok h b ws
  | stored f base last err => exact stored_ok h f base last err
  | quorum f first last hw err => exact quorum_ok h f first last hw err
  | ack k e le fo m => exact reactorAck_ok h k e le fo m
  | stoppedAck k e le fo m lv av => exact reactorStoppedAck_ok h k e le fo m lv av
  | pullAck fo off => exact reactorPullAck_ok h fo off
  | cancel op => exact cancel_ok h op
  | abort b => exact abort_ok h b

end WK.C06

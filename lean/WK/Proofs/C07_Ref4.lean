import WK.Proofs.C07_Ref3
/-
  C07 — `doAppend` refines `specAppend` (strict, server-allocated and trusted modes).
-/
namespace WK.C07

/-- refinement statement for one operation, with the hash invariant carried along -/
def Refines (st : Store) (op : Op) : Prop :=
  abs (step st op).1 = (specStep (abs st) op).1 ∧ (step st op).2 = (specStep (abs st) op).2 ∧ Chk (step st op).1

theorem refines_append (st : Store) (c mode base : Nat) (recs : List Rec) (hi : Inv st) (hk : Chk st)
    (hs : SafeBatch st c mode recs) : Refines st (.app c mode base recs) := by
  unfold Refines
  show abs (doAppend st c mode base recs).1 = (specAppend (abs st) c mode base recs).1 ∧
    (doAppend st c mode base recs).2 = (specAppend (abs st) c mode base recs).2 ∧ Chk (doAppend st c mode base recs).1
  have hD : doAppend st c mode base recs =
      (if mode > 2 then (st, Out.err Err.invalid) else
      match (if base ≠ 0 ∧ base ≠ (loadLEO (st.chan c)).1 + 1 then (loaded st c, Except.error Err.conflict)
        else match walkRows (loaded st c) c mode ((loadLEO (st.chan c)).1 + 1) recs {} [] with
          | .error e => (loaded st c, .error e)
          | .ok rows => (loaded st c, .ok (rows, (loadLEO (st.chan c)).1))) with
      | (st, .error e) => (st, Out.err e)
      | (st, .ok (rows, leo)) =>
        if rows.isEmpty then (st, .app 0 0 0)
        else
          (setLeoC (rows.foldl (stageRow c) st) c (leo + rows.length), .app (leo + 1) (leo + rows.length) rows.length)) := by
    unfold doAppend prepare
    by_cases hm : mode > 2
    · rw [if_pos hm, if_pos hm]
    · rw [if_neg hm, if_neg hm]; rfl
  rw [hD]
  unfold specAppend specPrepare
  by_cases hm : mode > 2
  · rw [if_pos hm, if_pos hm]; exact ⟨rfl, rfl, hk⟩
  rw [if_neg hm, if_neg hm]
  obtain ⟨I1, g1, i1, r1, t1, k1, l1, v1, c1⟩ := loaded_facts st c hi hs.1
  have hc : c < st.chans.length := by rw [hi.len]; exact hs.1
  have K1 := chk_loaded st c hk hc
  have A1 := abs_loaded st c hi hs.1
  have hleoS : ((abs st).chan c).leo = recoverLEO (st.chan c) := by rw [abs_chan]; rfl
  rw [hleoS]
  rw [v1]
  by_cases hb : base ≠ 0 ∧ base ≠ recoverLEO (st.chan c) + 1
  · rw [if_pos hb, if_pos hb]; exact ⟨A1, rfl, K1⟩
  rw [if_neg hb, if_neg hb]
  have hw := walk_eq (loaded st c) I1 K1 c mode recs (recoverLEO (st.chan c) + 1) {} []
    (fun r hr => by have := le_recoverLEO _ r hr; rw [l1] at this; omega)
  rw [A1] at hw
  rw [hw]
  cases hsw : specWalk (abs st) c mode recs {} with
  | error e => exact ⟨A1, rfl, K1⟩
  | ok u =>
    cases u
    dsimp only
    simp only [List.reverse_nil, List.nil_append]
    have hlen := rowsOfP_len (recoverLEO (st.chan c) + 1) recs
    by_cases he : recs.isEmpty = true
    · have : (rowsOfP (recoverLEO (st.chan c) + 1) recs).isEmpty = true := by
        cases recs with | nil => rfl | cons a t => cases he
      simp only [this, he, if_true]; exact ⟨A1, trivial, K1⟩
    · have hne : rowsOfP (recoverLEO (st.chan c) + 1) recs ≠ [] := by
        cases recs with | nil => exact absurd rfl he | cons a t => simp [rowsOfP]
      have : ¬ (rowsOfP (recoverLEO (st.chan c) + 1) recs).isEmpty = true := by
        intro h; exact hne (List.isEmpty_iff.mp h)
      simp only [this, he, if_false, Bool.false_eq_true]
      -- the accepted batch
      have hwalk : walkRows (loaded st c) c mode (recoverLEO (st.chan c) + 1) recs {} [] = .ok (rowsOfP (recoverLEO (st.chan c) + 1) recs) := by
        have := walk_eq (loaded st c) I1 K1 c mode recs (recoverLEO (st.chan c) + 1) {} []
          (fun r hr => by have := le_recoverLEO _ r hr; rw [l1] at this; omega)
        rw [A1, hsw] at this; simpa using this
      obtain ⟨new, hrows, B⟩ := walk_batch _ _ _ _ _ _ _ _ hwalk
      simp only [List.reverse_nil, List.nil_append] at hrows
      subst hrows
      rw [← l1] at B hne
      have hs1 : SafeBatch (loaded st c) c mode recs := ⟨hs.1, by rw [g1]; exact hs.2.1, by rw [i1]; exact hs.2.2⟩
      have S := staged_abs (loaded st c) c mode recs _ none I1 K1 hs1 (by rw [c1, l1]) B hne
      dsimp only at S
      rw [l1, A1, r1, t1, k1] at S
      refine ⟨?_, ?_, ?_⟩
      · rw [S.1, abs_chan, hlen, specRows_eq]; rfl
      · simp only [hleoS, hlen]
      · exact S.2 (fun r hr => by
          have hnz := B.nz r (l1 ▸ hr)
          have : ∀ rcs s, r ∈ rowsOfP s rcs → ∃ s' rc', r = mkRow s' rc' := by
            intro rcs; induction rcs with
            | nil => intro s h; cases h
            | cons a t ih => intro s h; rcases List.mem_cons.mp h with e | e; exact ⟨s, a, e⟩; exact ih _ e
          obtain ⟨s', rc', e⟩ := this recs _ hr
          subst e; exact rowCheck_mkRow _ _ hnz)

end WK.C07

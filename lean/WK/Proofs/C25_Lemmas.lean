import WK.Spec.C25
/-
  C25 — helper lemmas: PKCS7 pad/unpad, chunking, CBC over an abstract block
  function, decimal rendering, the order-generic preimage lemma.  Core tactics only.
-/
namespace WK.C25
open WK WK.Gen.C25

/-! ## PKCS7 -/

theorem paddingSize16 (n : Nat) :
    1 ≤ pkcs7PaddingSize n 16 ∧ pkcs7PaddingSize n 16 ≤ 16 ∧ (n + pkcs7PaddingSize n 16) % 16 = 0 := by
  unfold pkcs7PaddingSize
  simp only
  split <;> omega

theorem u8_ofNat_toNat (k : Nat) (h : k < 256) : (UInt8.ofNat k).toNat = k := by
  simp [Nat.mod_eq_of_lt h]

theorem u8_eq_of_toNat (b : UInt8) (k : Nat) (h : b.toNat = k) : b = UInt8.ofNat k := by
  subst h; simp

/-- unpad of a block-aligned `p ++ k×k` with 1 ≤ k ≤ 16 returns `p` -/
theorem unpad_append_replicate (p : Bytes) (k : Nat) (hk1 : 1 ≤ k) (hk2 : k ≤ 16) (hlen : (p.length + k) % 16 = 0) :
    unpadView (p ++ List.replicate k (UInt8.ofNat k)) 16 = .ok p := by
  have hkn : (UInt8.ofNat k).toNat = k := u8_ofNat_toNat k (by omega)
  have hl : (p ++ List.replicate k (UInt8.ofNat k)).length = p.length + k := by simp
  have hk0 : k ≠ 0 := by omega
  unfold unpadView
  rw [hl]
  have h1 : ¬ (p.length + k = 0 ∨ (p.length + k) % 16 ≠ 0) := by omega
  rw [if_neg h1]
  have hlast : (p ++ List.replicate k (UInt8.ofNat k)).getLast? = some (UInt8.ofNat k) := by
    rw [List.getLast?_append, List.getLast?_replicate, if_neg hk0]; rfl
  rw [hlast]
  simp only [hkn]
  have h2 : ¬ (k = 0 ∨ k > 16 ∨ k > p.length + k) := by omega
  rw [if_neg h2]
  have h3 : p.length + k - k = p.length := by omega
  rw [h3, List.drop_left, List.take_left, List.all_replicate, if_neg hk0]
  simp [hkn]

theorem c25_unpad_pad (p : Bytes) : unpadView (padBytes p 16) 16 = .ok p := by
  have h := paddingSize16 p.length
  exact unpad_append_replicate p _ h.1 h.2.1 h.2.2

theorem all_eq_replicate (l : Bytes) (k : Nat) (h : l.all (fun b => b.toNat == k) = true) :
    l = List.replicate l.length (UInt8.ofNat k) := by
  induction l with
  | nil => rfl
  | cons a t ih =>
    simp only [List.all_cons, Bool.and_eq_true, beq_iff_eq] at h
    rw [List.length_cons, List.replicate_succ, ← ih h.2, u8_eq_of_toNat a k h.1]

/-- unpad accepts exactly the PKCS7 paddings: the only inputs that unpad to `p` are `pad p` -/
theorem c25_unpad_iff (q p : Bytes) : unpadView q 16 = .ok p ↔ q = padBytes p 16 := by
  constructor
  · intro h
    unfold unpadView at h
    split at h
    · cases h
    · rename_i h1
      split at h
      · cases h
      · rename_i last hlast
        simp only at h
        split at h
        · cases h
        · rename_i h2
          split at h
          · rename_i h3
            injection h with h
            have hq : q = q.take (q.length - last.toNat) ++ q.drop (q.length - last.toNat) := (List.take_append_drop _ _).symm
            have hd := all_eq_replicate _ _ h3
            have hdl : (q.drop (q.length - last.toNat)).length = last.toNat := by
              rw [List.length_drop]; omega
            rw [hdl] at hd
            have hpl : p.length = q.length - last.toNat := by
              rw [← h, List.length_take]; omega
            have hps : pkcs7PaddingSize p.length 16 = last.toNat := by
              have := paddingSize16 p.length
              unfold pkcs7PaddingSize at *
              simp only at *
              split <;> omega
            unfold padBytes
            rw [hps, ← h, ← hd]
            exact hq
          · cases h
  · intro h
    subst h
    exact c25_unpad_pad p

/-- rejection, stated positively: whatever is not a PKCS7 padding of something is an error -/
theorem c25_unpad_rejects_bad (q : Bytes) (h : ∀ p, q ≠ padBytes p 16) : unpadView q 16 = .error .missingKey := by
  cases hq : unpadView q 16 with
  | ok p => exact absurd ((c25_unpad_iff q p).1 hq) (h p)
  | error e =>
    unfold unpadView at hq
    split at hq
    · cases hq; rfl
    · split at hq
      · cases hq; rfl
      · simp only at hq
        split at hq
        · cases hq; rfl
        · split at hq
          · cases hq
          · cases hq; rfl

/-! ## chunking and CBC -/

theorem u8_xor_cancel (a b : UInt8) : (a ^^^ b) ^^^ b = a := by
  rw [UInt8.xor_assoc, UInt8.xor_self, UInt8.xor_zero]

theorem xorB_length (a b : Bytes) (h : a.length = b.length) : (xorB a b).length = a.length := by
  simp [xorB, h]

theorem xorB_cancel (a b : Bytes) (h : a.length = b.length) : xorB (xorB a b) b = a := by
  induction a generalizing b with
  | nil => simp [xorB]
  | cons x xs ih =>
    cases b with
    | nil => simp at h
    | cons y ys =>
      simp only [List.length_cons, Nat.add_right_cancel_iff] at h
      have := ih ys h
      simp only [xorB, List.zipWith_cons_cons] at *
      rw [u8_xor_cancel, this]

theorem chunks_nil : chunks [] = [] := by
  rw [chunks]; simp

theorem chunks_ne (bs : Bytes) (h : bs.length ≠ 0) : chunks bs = bs.take 16 :: chunks (bs.drop 16) := by
  rw [chunks]; simp [h, blockSize]

/-- chunking the concatenation of 16-byte blocks gives the blocks back -/
theorem chunks_flatten (bs : List Bytes) (h : ∀ b ∈ bs, b.length = 16) : chunks bs.flatten = bs := by
  induction bs with
  | nil => simp [chunks_nil]
  | cons b rest ih =>
    have hb : b.length = 16 := h b (by simp)
    have hr : ∀ c ∈ rest, c.length = 16 := fun c hc => h c (by simp [hc])
    rw [List.flatten_cons, chunks_ne _ (by simp [hb])]
    have h1 : (b ++ rest.flatten).take 16 = b := by rw [← hb]; exact List.take_left
    have h2 : (b ++ rest.flatten).drop 16 = rest.flatten := by rw [← hb]; exact List.drop_left
    rw [h1, h2, ih hr]

theorem flatten_chunks (n : Nat) : ∀ data : Bytes, data.length ≤ n → (chunks data).flatten = data := by
  induction n with
  | zero => intro data h; have : data = [] := List.length_eq_zero_iff.mp (by omega); subst this; simp [chunks_nil]
  | succ n ih =>
    intro data h
    by_cases h0 : data.length = 0
    · have : data = [] := List.length_eq_zero_iff.mp h0; subst this; simp [chunks_nil]
    · rw [chunks_ne _ h0, List.flatten_cons, ih _ (by rw [List.length_drop]; omega), List.take_append_drop]

theorem chunks_all16 (n : Nat) : ∀ data : Bytes, data.length ≤ n → data.length % 16 = 0 → ∀ b ∈ chunks data, b.length = 16 := by
  induction n with
  | zero => intro data h _ b hb; have : data = [] := List.length_eq_zero_iff.mp (by omega); subst this; simp [chunks_nil] at hb
  | succ n ih =>
    intro data h hm b hb
    by_cases h0 : data.length = 0
    · have : data = [] := List.length_eq_zero_iff.mp h0; subst this; simp [chunks_nil] at hb
    · rw [chunks_ne _ h0] at hb
      rcases List.mem_cons.mp hb with hb | hb
      · subst hb; rw [List.length_take]; omega
      · exact ih _ (by rw [List.length_drop]; omega) (by rw [List.length_drop]; omega) b hb

section
variable (E D : Bytes → Bytes)

theorem cbcEnc_all16 (hE : ∀ b, b.length = 16 → (E b).length = 16) :
    ∀ (bs : List Bytes) (iv : Bytes), iv.length = 16 → (∀ b ∈ bs, b.length = 16) →
      (∀ c ∈ cbcEncBlocks E iv bs, c.length = 16) ∧ (cbcEncBlocks E iv bs).length = bs.length := by
  intro bs
  induction bs with
  | nil => intro iv _ _; simp [cbcEncBlocks]
  | cons b rest ih =>
    intro iv hiv h
    have hb : b.length = 16 := h b (by simp)
    have hx : (xorB b iv).length = 16 := by rw [xorB_length _ _ (by omega)]; exact hb
    have hc := hE _ hx
    have := ih (E (xorB b iv)) hc (fun c hc => h c (by simp [hc]))
    simp only [cbcEncBlocks, List.mem_cons, List.length_cons]
    refine ⟨?_, by omega⟩
    intro c hc'
    rcases hc' with hc' | hc'
    · subst hc'; exact hc
    · exact this.1 c hc'

/-- CBC decryption inverts CBC encryption, block list level -/
theorem cbcDec_enc_blocks (hE : ∀ b, b.length = 16 → (E b).length = 16) (hDE : ∀ b, b.length = 16 → D (E b) = b) :
    ∀ (bs : List Bytes) (iv : Bytes), iv.length = 16 → (∀ b ∈ bs, b.length = 16) →
      cbcDecBlocks D iv (cbcEncBlocks E iv bs) = bs := by
  intro bs
  induction bs with
  | nil => intro iv _ _; simp [cbcEncBlocks, cbcDecBlocks]
  | cons b rest ih =>
    intro iv hiv h
    have hb : b.length = 16 := h b (by simp)
    have hx : (xorB b iv).length = 16 := by rw [xorB_length _ _ (by omega)]; exact hb
    simp only [cbcEncBlocks, cbcDecBlocks]
    rw [hDE _ hx, xorB_cancel _ _ (by omega), ih _ (hE _ hx) (fun c hc => h c (by simp [hc]))]

theorem flatten_length16 (bs : List Bytes) (h : ∀ b ∈ bs, b.length = 16) : bs.flatten.length = 16 * bs.length := by
  induction bs with
  | nil => simp
  | cons b rest ih =>
    rw [List.flatten_cons, List.length_append, h b (by simp), ih (fun c hc => h c (by simp [hc])), List.length_cons]
    omega

theorem cbcEncrypt_length (hE : ∀ b, b.length = 16 → (E b).length = 16) (iv data : Bytes)
    (hiv : iv.length = 16) (hd : data.length % 16 = 0) : (cbcEncrypt E iv data).length = data.length := by
  have h16 := chunks_all16 data.length data (Nat.le_refl _) hd
  have := cbcEnc_all16 E hE (chunks data) iv hiv h16
  unfold cbcEncrypt
  rw [flatten_length16 _ this.1, this.2, ← flatten_length16 _ h16, flatten_chunks _ _ (Nat.le_refl _)]

/-- CBC decryption inverts CBC encryption on block-aligned data -/
theorem cbcDecrypt_encrypt (hE : ∀ b, b.length = 16 → (E b).length = 16) (hDE : ∀ b, b.length = 16 → D (E b) = b)
    (iv data : Bytes) (hiv : iv.length = 16) (hd : data.length % 16 = 0) :
    cbcDecrypt D iv (cbcEncrypt E iv data) = data := by
  have h16 := chunks_all16 data.length data (Nat.le_refl _) hd
  have he := cbcEnc_all16 E hE (chunks data) iv hiv h16
  unfold cbcDecrypt cbcEncrypt
  rw [chunks_flatten _ he.1, cbcDec_enc_blocks E D hE hDE _ iv hiv h16, flatten_chunks _ _ (Nat.le_refl _)]

end

/-! decimal -/
def decVal (bs : Bytes) : Nat := bs.foldl (fun a b => a * 10 + (b.toNat - 48)) 0

theorem decDigit_val (d : Nat) (h : d < 10) : (decDigit d).toNat - 48 = d := by
  unfold decDigit
  have : (UInt8.ofNat (48 + d)).toNat = 48 + d := by simp; omega
  omega

theorem decVal_decBytes (n : Nat) : decVal (decBytes n) = n := by
  induction n using Nat.strongRecOn with
  | _ n ih =>
    rw [decBytes]
    split
    · rename_i h
      simp [decVal, decDigit_val n h]
    · rename_i h
      have := ih (n / 10) (by omega)
      unfold decVal at *
      rw [List.foldl_append, this]
      simp [decDigit_val (n % 10) (by omega)]
      omega

theorem decBytes_inj (m n : Nat) (h : decBytes m = decBytes n) : m = n := by
  rw [← decVal_decBytes m, ← decVal_decBytes n, h]


/-! ## the preimage for an arbitrary append order -/

theorem fieldEnc_kind (p : SendPacket) (f : Field) (k k' : Kind) : fieldEnc p (f, k) = fieldEnc p (f, k') := by
  cases f <;> rfl

/-- total length contributed by the entries of field `f` if each contributes `n` bytes -/
def fLen (f : Field) (n : Nat) : List (Field × Kind) → Nat
  | [] => 0
  | g :: r => (if g.1 = f then n else 0) + fLen f n r

theorem fLen_mono (f : Field) (a b : Nat) (h : a ≤ b) : ∀ order, fLen f a order ≤ fLen f b order := by
  intro order
  induction order with
  | nil => simp [fLen]
  | cons g r ih => simp only [fLen]; split <;> omega

theorem fLen_strict (f : Field) (a b : Nat) (h : a < b) : ∀ order, (∃ k, (f, k) ∈ order) → fLen f a order < fLen f b order := by
  intro order
  induction order with
  | nil => intro ⟨k, hk⟩; simp at hk
  | cons g r ih =>
    intro ⟨k, hk⟩
    have hm := fLen_mono f a b (Nat.le_of_lt h) r
    simp only [fLen]
    rcases List.mem_cons.mp hk with hk | hk
    · have : g.1 = f := by rw [← hk]
      rw [if_pos this, if_pos this]; omega
    · have := ih ⟨k, hk⟩
      split <;> omega

theorem preimage_len (order : List (Field × Kind)) (p q : SendPacket) (f : Field)
    (hsame : ∀ g : Field × Kind, g.1 ≠ f → fieldEnc p g = fieldEnc q g) :
    (preimageOf order p).length + fLen f (fieldEnc q (f, .raw)).length order
      = (preimageOf order q).length + fLen f (fieldEnc p (f, .raw)).length order := by
  unfold preimageOf
  induction order with
  | nil => simp [fLen]
  | cons g r ih =>
    simp only [List.map_cons, List.flatten_cons, List.length_append, fLen]
    by_cases hg : g.1 = f
    · obtain ⟨g1, g2⟩ := g
      simp only at hg; subst hg
      rw [if_pos rfl, if_pos rfl, fieldEnc_kind p g1 g2 .raw, fieldEnc_kind q g1 g2 .raw]
      omega
    · rw [if_neg hg, if_neg hg, hsame g hg]; omega

/-- if two packets agree on every field except `f`, where their encodings differ, and `f` occurs in the
    append order, then the preimages differ — for ANY append order -/
theorem preimage_ne_of_field_ne (order : List (Field × Kind)) (p q : SendPacket) (f : Field)
    (hsame : ∀ g : Field × Kind, g.1 ≠ f → fieldEnc p g = fieldEnc q g)
    (hdiff : ∀ k, fieldEnc p (f, k) ≠ fieldEnc q (f, k))
    (hmem : ∃ k, (f, k) ∈ order) : preimageOf order p ≠ preimageOf order q := by
  by_cases hl : (fieldEnc p (f, .raw)).length = (fieldEnc q (f, .raw)).length
  · -- equal lengths: the first occurrence of `f` sits at the same offset
    unfold preimageOf
    induction order with
    | nil => obtain ⟨k, hk⟩ := hmem; simp at hk
    | cons g rest ih =>
      simp only [List.map_cons, List.flatten_cons]
      by_cases hg : g.1 = f
      · obtain ⟨g1, g2⟩ := g
        simp only at hg; subst hg
        intro h
        have hl' : (fieldEnc p (g1, g2)).length = (fieldEnc q (g1, g2)).length := by
          rw [fieldEnc_kind p g1 g2 .raw, fieldEnc_kind q g1 g2 .raw]; exact hl
        exact hdiff g2 (List.append_inj h hl').1
      · rw [hsame g hg]
        intro h
        apply ih _ (List.append_cancel_left h)
        obtain ⟨k, hk⟩ := hmem
        rcases List.mem_cons.mp hk with hk | hk
        · exact absurd (by rw [← hk]) hg
        · exact ⟨k, hk⟩
  · -- different lengths: the total lengths differ
    intro h
    have hlen := preimage_len order p q f hsame
    rw [h] at hlen
    rcases Nat.lt_or_gt_of_ne hl with h1 | h1
    · have := fLen_strict f _ _ h1 order hmem; omega
    · have := fLen_strict f _ _ h1 order hmem; omega


end WK.C25

/-
  C36 — the exits, reads and constants of internal/usecase/message's permission
  checks AS THEY WERE when the hand model (Model/C36.lean) and the precedence
  lists (Spec/C36.lean) were written.  A committed copy of extract/c36.go's output
  at that moment; `Theorems/C36.lean` proves `WK.Gen.C36.x = WK.C36.Pinned.x` for
  the regenerated facts, so any reordered, dropped, added or re-targeted check in
  the Go source breaks a `c36_gen_order_*` theorem.  (Update this file only
  together with the model.)
-/
namespace WK.C36.Pinned

/-- `Reason` constants (iota block of internal/contracts/channelappend/types.go) -/
def reasonCodes : List (String × Nat) := [("ReasonSuccess", 0), ("ReasonInvalidRequest", 1), ("ReasonAuthFail", 2), ("ReasonChannelNotExist", 3), ("ReasonNodeNotMatch", 4), ("ReasonSystemError", 5), ("ReasonUnsupported", 6), ("ReasonSubscriberNotExist", 7), ("ReasonInBlacklist", 8), ("ReasonNotAllowSend", 9), ("ReasonNotInWhitelist", 10), ("ReasonBan", 11), ("ReasonDisband", 12), ("ReasonSendBan", 13)]

/-- channel type constants of send.go -/
def channelTypes : List (String × Nat) := [("channelTypePerson", 1), ("channelTypeGroup", 2), ("channelTypeCustomerService", 3), ("channelTypeInfo", 6), ("channelTypeVisitors", 10), ("channelTypeAgent", 11)]

/-- exits of App.checkSendPermission in source order -/
def checkSendPermission : List (String × String) := [
  ("cmd.RequestScoped||(len(cmd.MessageScopedUIDs)>0&&cmd.ChannelID==\"\")", "return cmd,ReasonSuccess,nil"),
  ("", "sourceChannelID,alreadyCommandChannel:=runtimechannelid.FromCommandChannel(cmd.ChannelID)"),
  ("", "cmd.ChannelID=sourceChannelID"),
  ("cmd.ChannelType==channelTypePerson&&cmd.NormalizePersonChannel", "channelID,err:=runtimechannelid.NormalizePersonChannel(cmd.FromUID,cmd.ChannelID)"),
  ("cmd.ChannelType==channelTypePerson&&cmd.NormalizePersonChannel && err!=nil", "return cmd,0,err"),
  ("cmd.ChannelType==channelTypePerson&&cmd.NormalizePersonChannel", "cmd.ChannelID=channelID"),
  ("a==nil||a.permissions==nil", "return reapplyCommandChannel(cmd),ReasonSuccess,nil"),
  ("a.systemUIDs!=nil&&a.systemUIDs.IsSystemUID(cmd.FromUID)", "reason,err:=a.checkTerminalChannelPermission(ctx,cmd)"),
  ("a.systemUIDs!=nil&&a.systemUIDs.IsSystemUID(cmd.FromUID)", "return reapplyCommandChannel(cmd),reason,err"),
  ("reason,err:=a.checkSenderSendPermission(ctx,cmd.FromUID);reason!=ReasonSuccess||err!=nil", "return cmd,reason,err"),
  ("a.systemDeviceID!=\"\"&&cmd.DeviceID==a.systemDeviceID", "reason,err:=a.checkTerminalChannelPermission(ctx,cmd)"),
  ("a.systemDeviceID!=\"\"&&cmd.DeviceID==a.systemDeviceID", "return reapplyCommandChannel(cmd),reason,err"),
  ("case cmd.ChannelType=channelTypePerson && reason,err=a.checkTerminalChannelPermission(ctx,cmd);err!=nil||reason!=ReasonSuccess", "break"),
  ("case cmd.ChannelType=channelTypePerson", "reason,err=a.checkPersonSendPermission(ctx,cmd)"),
  ("case cmd.ChannelType=channelTypeGroup", "reason,err=a.checkGroupSendPermission(ctx,cmd)"),
  ("case cmd.ChannelType=channelTypeInfo|channelTypeCustomerService", "reason,err=a.checkTerminalChannelPermission(ctx,cmd)"),
  ("case cmd.ChannelType=channelTypeAgent && reason,err=a.checkTerminalChannelPermission(ctx,cmd);err==nil&&reason==ReasonSuccess", "reason,err=a.checkAgentSendPermission(cmd)"),
  ("case cmd.ChannelType=channelTypeVisitors && reason,err=a.checkTerminalChannelPermission(ctx,cmd);err==nil&&reason==ReasonSuccess", "reason,err=a.checkVisitorsSendPermission(ctx,cmd)"),
  ("default cmd.ChannelType", "reason,err=a.checkTerminalChannelPermission(ctx,cmd)"),
  ("err!=nil||reason!=ReasonSuccess", "return cmd,reason,err"),
  ("", "return reapplyCommandChannel(cmd),ReasonSuccess,nil")]

/-- the reasons those exits produce, in source order -/
def checkSendPermissionReasons : List String := ["ReasonSuccess", "0", "ReasonSuccess", "ReasonSuccess"]

/-- exits of App.checkTerminalChannelPermission in source order -/
def checkTerminalChannelPermission : List (String × String) := [
  ("", "channel,err:=a.permissionAuthority.GetChannelForPermission(ctx,cmd.ChannelID,int64(cmd.ChannelType))"),
  ("errors.Is(err,metadb.ErrNotFound)", "return ReasonSuccess,nil"),
  ("err!=nil", "return ReasonSystemError,err"),
  ("channel.Disband!=0", "return ReasonDisband,nil"),
  ("", "return ReasonSuccess,nil")]

/-- the reasons those exits produce, in source order -/
def checkTerminalChannelPermissionReasons : List String := ["ReasonSuccess", "ReasonSystemError", "ReasonDisband", "ReasonSuccess"]

/-- exits of App.checkSenderSendPermission in source order -/
def checkSenderSendPermission : List (String × String) := [
  ("", "ch,err:=a.permissions.GetChannelForPermission(ctx,fromUID,int64(channelTypePerson))"),
  ("errors.Is(err,metadb.ErrNotFound)", "return ReasonSuccess,nil"),
  ("err!=nil", "return ReasonSystemError,err"),
  ("ch.SendBan!=0", "return ReasonSendBan,nil"),
  ("", "return ReasonSuccess,nil")]

/-- the reasons those exits produce, in source order -/
def checkSenderSendPermissionReasons : List String := ["ReasonSuccess", "ReasonSystemError", "ReasonSendBan", "ReasonSuccess"]

/-- exits of App.checkGroupSendPermission in source order -/
def checkGroupSendPermission : List (String × String) := [
  ("", "ch,err:=a.permissionAuthority.GetChannelForPermission(ctx,cmd.ChannelID,int64(cmd.ChannelType))"),
  ("errors.Is(err,metadb.ErrNotFound)", "return ReasonChannelNotExist,nil"),
  ("err!=nil", "return ReasonSystemError,err"),
  ("ch.Ban!=0", "return ReasonBan,nil"),
  ("ch.Disband!=0", "return ReasonDisband,nil"),
  ("", "return a.checkCommonMemberPermission(ctx,<*ast.CompositeLit>,cmd.FromUID)")]

/-- the reasons those exits produce, in source order -/
def checkGroupSendPermissionReasons : List String := ["ReasonChannelNotExist", "ReasonSystemError", "ReasonBan", "ReasonDisband"]

/-- exits of App.checkCommonMemberPermission in source order -/
def checkCommonMemberPermission : List (String × String) := [
  ("", "denied,err:=a.permissions.ContainsChannelSubscriber(ctx,channelmembers.DenylistChannelID(key),channelType,fromUID)"),
  ("err!=nil", "return ReasonSystemError,err"),
  ("denied", "return ReasonInBlacklist,nil"),
  ("", "subscriber,err:=a.permissions.ContainsChannelSubscriber(ctx,key.ChannelID,channelType,fromUID)"),
  ("err!=nil", "return ReasonSystemError,err"),
  ("!subscriber", "return ReasonSubscriberNotExist,nil"),
  ("", "hasAllowlist,err:=a.permissions.HasChannelSubscribers(ctx,allowID,channelType)"),
  ("err!=nil", "return ReasonSystemError,err"),
  ("!hasAllowlist", "return ReasonSuccess,nil"),
  ("", "allowed,err:=a.permissions.ContainsChannelSubscriber(ctx,allowID,channelType,fromUID)"),
  ("err!=nil", "return ReasonSystemError,err"),
  ("!allowed", "return ReasonNotInWhitelist,nil"),
  ("", "return ReasonSuccess,nil")]

/-- the reasons those exits produce, in source order -/
def checkCommonMemberPermissionReasons : List String := ["ReasonSystemError", "ReasonInBlacklist", "ReasonSystemError", "ReasonSubscriberNotExist", "ReasonSystemError", "ReasonSuccess", "ReasonSystemError", "ReasonNotInWhitelist", "ReasonSuccess"]

/-- exits of App.checkAgentSendPermission in source order -/
def checkAgentSendPermission : List (String × String) := [
  ("", "uid,agentUID,err:=runtimechannelid.DecodeAgentChannel(cmd.ChannelID)"),
  ("err!=nil", "return 0,err"),
  ("cmd.FromUID==uid||cmd.FromUID==agentUID", "return ReasonSuccess,nil"),
  ("", "return ReasonNotAllowSend,nil")]

/-- the reasons those exits produce, in source order -/
def checkAgentSendPermissionReasons : List String := ["0", "ReasonSuccess", "ReasonNotAllowSend"]

/-- exits of App.checkVisitorsSendPermission in source order -/
def checkVisitorsSendPermission : List (String × String) := [
  ("cmd.FromUID==cmd.ChannelID", "return ReasonSuccess,nil"),
  ("", "return a.checkCommonMemberPermission(ctx,key,cmd.FromUID)")]

/-- the reasons those exits produce, in source order -/
def checkVisitorsSendPermissionReasons : List String := ["ReasonSuccess"]

/-- exits of App.checkPersonSendPermission in source order -/
def checkPersonSendPermission : List (String × String) := [
  ("", "left,right,err:=runtimechannelid.DecodePersonChannel(cmd.ChannelID)"),
  ("err!=nil", "return 0,err"),
  ("", "receiver:=right"),
  ("cmd.FromUID==right", "receiver=left"),
  ("a.systemUIDs!=nil&&a.systemUIDs.IsSystemUID(receiver)", "return ReasonSuccess,nil"),
  ("", "denied,err:=a.permissions.ContainsChannelSubscriber(ctx,channelmembers.DenylistChannelID(key),int64(channelTypePerson),cmd.FromUID)"),
  ("err!=nil", "return ReasonSystemError,err"),
  ("denied", "return ReasonInBlacklist,nil"),
  ("!a.personWhitelistEnabled", "return ReasonSuccess,nil"),
  ("", "allowed,err:=a.permissions.ContainsChannelSubscriber(ctx,channelmembers.AllowlistChannelID(key),int64(channelTypePerson),cmd.FromUID)"),
  ("err!=nil", "return ReasonSystemError,err"),
  ("allowed", "return ReasonSuccess,nil"),
  ("", "ch,err:=a.permissions.GetChannelForPermission(ctx,receiver,int64(channelTypePerson))"),
  ("errors.Is(err,metadb.ErrNotFound)", "return ReasonNotInWhitelist,nil"),
  ("err!=nil", "return ReasonSystemError,err"),
  ("ch.AllowStranger!=0", "return ReasonSuccess,nil"),
  ("", "return ReasonNotInWhitelist,nil")]

/-- the reasons those exits produce, in source order -/
def checkPersonSendPermissionReasons : List String := ["0", "ReasonSuccess", "ReasonSystemError", "ReasonInBlacklist", "ReasonSuccess", "ReasonSystemError", "ReasonSuccess", "ReasonNotInWhitelist", "ReasonSystemError", "ReasonSuccess", "ReasonNotInWhitelist"]

/-- exits of evaluateGroupPermissionReadPlan in source order -/
def evaluateGroupPermissionReadPlan : List (String × String) := [
  ("sender,ok:=read(plan.senderChannel);ok && sender.Err!=nil", "outcome.reason,outcome.err=ReasonSystemError,sender.Err"),
  ("sender,ok:=read(plan.senderChannel);ok && sender.Err!=nil", "return outcome"),
  ("sender,ok:=read(plan.senderChannel);ok && sender.Found&&sender.Channel.SendBan!=0", "outcome.reason=ReasonSendBan"),
  ("sender,ok:=read(plan.senderChannel);ok && sender.Found&&sender.Channel.SendBan!=0", "return outcome"),
  ("", "group,_:=read(plan.groupChannel)"),
  ("group.Err!=nil", "outcome.reason,outcome.err=ReasonSystemError,group.Err"),
  ("group.Err!=nil", "return outcome"),
  ("!group.Found && !plan.trusted", "outcome.reason=ReasonChannelNotExist"),
  ("!group.Found", "return outcome"),
  ("plan.trusted && group.Channel.Disband!=0", "outcome.reason=ReasonDisband"),
  ("plan.trusted", "return outcome"),
  ("group.Channel.Ban!=0", "outcome.reason=ReasonBan"),
  ("group.Channel.Ban!=0", "return outcome"),
  ("group.Channel.Disband!=0", "outcome.reason=ReasonDisband"),
  ("group.Channel.Disband!=0", "return outcome"),
  ("", "denied,_:=read(plan.denied)"),
  ("denied.Err!=nil", "outcome.reason,outcome.err=ReasonSystemError,denied.Err"),
  ("denied.Err!=nil", "return outcome"),
  ("denied.Value", "outcome.reason=ReasonInBlacklist"),
  ("denied.Value", "return outcome"),
  ("", "subscriber,_:=read(plan.subscriber)"),
  ("subscriber.Err!=nil", "outcome.reason,outcome.err=ReasonSystemError,subscriber.Err"),
  ("subscriber.Err!=nil", "return outcome"),
  ("!subscriber.Value", "outcome.reason=ReasonSubscriberNotExist"),
  ("!subscriber.Value", "return outcome"),
  ("", "hasAllowlist,_:=read(plan.hasAllowlist)"),
  ("hasAllowlist.Err!=nil", "outcome.reason,outcome.err=ReasonSystemError,hasAllowlist.Err"),
  ("hasAllowlist.Err!=nil", "return outcome"),
  ("!hasAllowlist.Value", "return outcome"),
  ("", "allowlistEntry,_:=read(plan.allowlistEntry)"),
  ("allowlistEntry.Err!=nil", "outcome.reason,outcome.err=ReasonSystemError,allowlistEntry.Err"),
  ("allowlistEntry.Err!=nil", "return outcome"),
  ("!allowlistEntry.Value", "outcome.reason=ReasonNotInWhitelist"),
  ("", "return outcome")]

/-- the reasons those exits produce, in source order -/
def evaluateGroupPermissionReadPlanReasons : List String := ["ReasonSystemError", "ReasonSendBan", "ReasonSystemError", "ReasonChannelNotExist", "ReasonDisband", "ReasonBan", "ReasonDisband", "ReasonSystemError", "ReasonInBlacklist", "ReasonSystemError", "ReasonSubscriberNotExist", "ReasonSystemError", "ReasonSystemError", "ReasonNotInWhitelist"]

/-- exits of evaluatePersonPermissionReadPlan in source order -/
def evaluatePersonPermissionReadPlan : List (String × String) := [
  ("plan.planErr!=nil", "outcome.err=plan.planErr"),
  ("plan.planErr!=nil", "return outcome"),
  ("sender,ok:=read(plan.senderChannel);ok && sender.Err!=nil", "outcome.reason,outcome.err=ReasonSystemError,sender.Err"),
  ("sender,ok:=read(plan.senderChannel);ok && sender.Err!=nil", "return outcome"),
  ("sender,ok:=read(plan.senderChannel);ok && sender.Found&&sender.Channel.SendBan!=0", "outcome.reason=ReasonSendBan"),
  ("sender,ok:=read(plan.senderChannel);ok && sender.Found&&sender.Channel.SendBan!=0", "return outcome"),
  ("", "terminal,_:=read(plan.terminalChannel)"),
  ("terminal.Err!=nil", "outcome.reason,outcome.err=ReasonSystemError,terminal.Err"),
  ("terminal.Err!=nil", "return outcome"),
  ("terminal.Found&&terminal.Channel.Disband!=0", "outcome.reason=ReasonDisband"),
  ("terminal.Found&&terminal.Channel.Disband!=0", "return outcome"),
  ("plan.trusted||plan.systemDevice||plan.receiverTrusted", "return outcome"),
  ("", "denied,_:=read(plan.denied)"),
  ("denied.Err!=nil", "outcome.reason,outcome.err=ReasonSystemError,denied.Err"),
  ("denied.Err!=nil", "return outcome"),
  ("denied.Value", "outcome.reason=ReasonInBlacklist"),
  ("denied.Value", "return outcome"),
  ("", "allowlistEntry,ok:=read(plan.allowlistEntry)"),
  ("!ok", "return outcome"),
  ("allowlistEntry.Err!=nil", "outcome.reason,outcome.err=ReasonSystemError,allowlistEntry.Err"),
  ("allowlistEntry.Err!=nil", "return outcome"),
  ("allowlistEntry.Value", "return outcome"),
  ("", "receiver,_:=read(plan.receiverChannel)"),
  ("receiver.Err!=nil", "outcome.reason,outcome.err=ReasonSystemError,receiver.Err"),
  ("receiver.Err!=nil", "return outcome"),
  ("!receiver.Found||receiver.Channel.AllowStranger==0", "outcome.reason=ReasonNotInWhitelist"),
  ("", "return outcome")]

/-- the reasons those exits produce, in source order -/
def evaluatePersonPermissionReadPlanReasons : List String := ["ReasonSystemError", "ReasonSendBan", "ReasonSystemError", "ReasonDisband", "ReasonSystemError", "ReasonInBlacklist", "ReasonSystemError", "ReasonSystemError", "ReasonNotInWhitelist"]

/-- planning steps of App.checkGroupSendPermissionsBatch in source order -/
def checkGroupSendPermissionsBatch : List (String × String) := [
  ("", "sourceChannelID,_:=runtimechannelid.FromCommandChannel(cmd.ChannelID)"),
  ("", "plan.groupChannel=addRead(<*ast.CompositeLit>)"),
  ("", "plan.trusted=a.systemUIDs!=nil&&a.systemUIDs.IsSystemUID(cmd.FromUID)"),
  ("!plan.trusted", "plan.senderChannel=addRead(<*ast.CompositeLit>)"),
  ("!plan.trusted && a.systemDeviceID!=\"\"&&cmd.DeviceID==a.systemDeviceID", "plan.trusted=true"),
  ("!plan.trusted && !(a.systemDeviceID!=\"\"&&cmd.DeviceID==a.systemDeviceID)", "plan.denied=addRead(<*ast.CompositeLit>)"),
  ("!plan.trusted && !(a.systemDeviceID!=\"\"&&cmd.DeviceID==a.systemDeviceID)", "plan.subscriber=addRead(<*ast.CompositeLit>)"),
  ("!plan.trusted && !(a.systemDeviceID!=\"\"&&cmd.DeviceID==a.systemDeviceID)", "plan.hasAllowlist=addRead(<*ast.CompositeLit>)"),
  ("!plan.trusted && !(a.systemDeviceID!=\"\"&&cmd.DeviceID==a.systemDeviceID)", "plan.allowlistEntry=addRead(<*ast.CompositeLit>)")]

/-- fact reads registered by App.checkGroupSendPermissionsBatch: (plan slot, read key) -/
def checkGroupSendPermissionsBatchReads : List (String × String) := [
  ("plan.groupChannel", "Kind:PermissionReadChannel,ChannelID:sourceChannelID,ChannelType:channelType"),
  ("plan.senderChannel", "Kind:PermissionReadChannel,ChannelID:cmd.FromUID,ChannelType:int64(channelTypePerson)"),
  ("plan.denied", "Kind:PermissionReadSubscriberContains,ChannelID:channelmembers.DenylistChannelID(key),ChannelType:channelType,UID:cmd.FromUID"),
  ("plan.subscriber", "Kind:PermissionReadSubscriberContains,ChannelID:sourceChannelID,ChannelType:channelType,UID:cmd.FromUID"),
  ("plan.hasAllowlist", "Kind:PermissionReadSubscriberHasAny,ChannelID:allowID,ChannelType:channelType"),
  ("plan.allowlistEntry", "Kind:PermissionReadSubscriberContains,ChannelID:allowID,ChannelType:channelType,UID:cmd.FromUID")]

/-- planning steps of App.checkPersonSendPermissionsBatch in source order -/
def checkPersonSendPermissionsBatch : List (String × String) := [
  ("", "sourceChannelID,commandChannel:=runtimechannelid.FromCommandChannel(cmd.ChannelID)"),
  ("", "cmd.ChannelID=sourceChannelID"),
  ("cmd.NormalizePersonChannel", "normalized,err:=runtimechannelid.NormalizePersonChannel(cmd.FromUID,cmd.ChannelID)"),
  ("cmd.NormalizePersonChannel && err!=nil", "continue"),
  ("cmd.NormalizePersonChannel", "cmd.ChannelID=normalized"),
  ("commandChannel", "cmd.ChannelID=runtimechannelid.ToCommandChannel(cmd.ChannelID)"),
  ("", "permissionChannelID,_:=runtimechannelid.FromCommandChannel(cmd.ChannelID)"),
  ("", "plan.terminalChannel=addRead(<*ast.CompositeLit>)"),
  ("", "plan.trusted=a.systemUIDs!=nil&&a.systemUIDs.IsSystemUID(cmd.FromUID)"),
  ("plan.trusted", "continue"),
  ("", "plan.senderChannel=addRead(<*ast.CompositeLit>)"),
  ("", "plan.systemDevice=a.systemDeviceID!=\"\"&&cmd.DeviceID==a.systemDeviceID"),
  ("plan.systemDevice", "continue"),
  ("", "left,right,err:=runtimechannelid.DecodePersonChannel(permissionChannelID)"),
  ("err!=nil", "plan.planErr=err"),
  ("err!=nil", "continue"),
  ("", "receiver:=right"),
  ("cmd.FromUID==right", "receiver=left"),
  ("", "plan.receiverTrusted=a.systemUIDs!=nil&&a.systemUIDs.IsSystemUID(receiver)"),
  ("plan.receiverTrusted", "continue"),
  ("", "plan.denied=addRead(<*ast.CompositeLit>)"),
  ("a.personWhitelistEnabled", "plan.allowlistEntry=addRead(<*ast.CompositeLit>)"),
  ("a.personWhitelistEnabled", "plan.receiverChannel=addRead(<*ast.CompositeLit>)")]

/-- fact reads registered by App.checkPersonSendPermissionsBatch: (plan slot, read key) -/
def checkPersonSendPermissionsBatchReads : List (String × String) := [
  ("plan.terminalChannel", "Kind:PermissionReadChannel,ChannelID:permissionChannelID,ChannelType:int64(channelTypePerson)"),
  ("plan.senderChannel", "Kind:PermissionReadChannel,ChannelID:cmd.FromUID,ChannelType:int64(channelTypePerson)"),
  ("plan.denied", "Kind:PermissionReadSubscriberContains,ChannelID:channelmembers.DenylistChannelID(key),ChannelType:int64(channelTypePerson),UID:cmd.FromUID"),
  ("plan.allowlistEntry", "Kind:PermissionReadSubscriberContains,ChannelID:channelmembers.AllowlistChannelID(key),ChannelType:int64(channelTypePerson),UID:cmd.FromUID"),
  ("plan.receiverChannel", "Kind:PermissionReadChannel,ChannelID:receiver,ChannelType:int64(channelTypePerson)")]

/-- which permission scopes take the batched path (condition, target list) -/
def batchEligibility : List (String × String) := [
  ("a!=nil&&a.permissionBatch!=nil&&!cmd.RequestScoped&&len(cmd.MessageScopedUIDs)==0 && case cmd.ChannelType=channelTypeGroup", "batchedGroups"),
  ("a!=nil&&a.permissionBatch!=nil&&!cmd.RequestScoped&&len(cmd.MessageScopedUIDs)==0 && case cmd.ChannelType=channelTypePerson", "batchedPersons")]

/-- message.New: when the batch store is installed -/
def newBatchStore : List (String × String) := [
  ("opts.PermissionCacheTTL<=0", "permissionBatch=opts.PermissionBatchStore")]

end WK.C36.Pinned

import WK.Proofs.C17_single
/-
  C17 — the inductive invariant behind "at most one active task per channel":
  task keys are unique and every active task is the one the active index names.
-/
namespace WK.C17

def KeysUnique (ts : List Task) : Prop := ts.Pairwise (fun a b => ¬ (a.chan = b.chan ∧ a.id = b.id))

def Covers (s : State) : Prop := ∀ t ∈ s.tasks, t.isActive = true → s.activeIdx? t.chan = some t.id

def Inv (s : State) : Prop := KeysUnique s.tasks ∧ Covers s

theorem inv_empty : Inv State.empty := by
  constructor
  · exact List.Pairwise.nil
  · intro t ht; cases ht

theorem mem_of_task? (s : State) (c i : Nat) (t : Task) (h : s.task? c i = some t) :
    t ∈ s.tasks ∧ t.chan = c ∧ t.id = i := by
  unfold State.task? at h
  have h1 := List.mem_of_find?_eq_some h
  have h2 := List.find?_some h
  simp at h2
  exact ⟨h1, h2.1, h2.2⟩

theorem task?_of_mem (ts : List Task) (hu : KeysUnique ts) (t : Task) (ht : t ∈ ts) :
    ts.find? (fun x => x.chan == t.chan && x.id == t.id) = some t := by
  induction ts with
  | nil => cases ht
  | cons x xs ih =>
    unfold KeysUnique at hu
    rw [List.pairwise_cons] at hu
    rw [List.find?_cons]
    rcases List.mem_cons.mp ht with rfl | hmem
    · simp
    · have hne := hu.1 t hmem
      have : (x.chan == t.chan && x.id == t.id) = false := by
        cases hb : (x.chan == t.chan && x.id == t.id) with
        | false => rfl
        | true => simp at hb; exact absurd hb hne
      simp only [this]
      exact ih hu.2 hmem

theorem keysUnique_filter (p : Task → Bool) (ts : List Task) (h : KeysUnique ts) : KeysUnique (ts.filter p) :=
  List.Pairwise.sublist List.filter_sublist h

theorem keysUnique_put (t : Task) (ts : List Task) (h : KeysUnique ts) : KeysUnique (putTaskRow t ts) := by
  unfold putTaskRow KeysUnique
  rw [List.pairwise_cons]
  constructor
  · intro b hb
    have := (List.mem_filter.mp hb).2
    simp [sameKey] at this
    intro hk
    omega
  · exact keysUnique_filter _ ts h

/-! shapes of the upsert writes -/

theorem upsert_shape (db : State) (t : Task) (ws : List W) (h : upsertWrites db t = .ok ws) :
    (t.isActive = true ∧ ws = [W.setActive t.chan t.id, W.putTask t] ∧ activeBlocked db t = false) ∨
    (t.isActive = false ∧ ws = [W.delActive t.chan, W.putTask t] ∧ existingActive db t = true) ∨
    (t.isActive = false ∧ ws = [W.putTask t]) := by
  unfold upsertWrites at h
  split at h
  · simp at h
  · split at h
    · rename_i hact
      split at h
      · simp at h
      · rename_i hb
        simp at h hb
        left; exact ⟨hact, h.symm, hb⟩
    · rename_i hact
      simp at hact
      split at h
      · rename_i he
        simp at h
        right; left; exact ⟨hact, h.symm, he⟩
      · simp at h
        right; right; exact ⟨hact, h.symm⟩


/-! state-level lookups after a write -/

theorem activeIdx_putKV_same (s : State) (c i : Nat) :
    ({ s with active := putKV c i s.active } : State).activeIdx? c = some i := by
  simp [State.activeIdx?, find_putKV_same]

theorem activeIdx_putKV_ne (s : State) (c i c' : Nat) (h : c' ≠ c) :
    ({ s with active := putKV c i s.active } : State).activeIdx? c' = s.activeIdx? c' := by
  simp [State.activeIdx?, find_putKV_ne c c' h]

theorem activeIdx_del_ne (s : State) (c c' : Nat) (h : c' ≠ c) :
    ({ s with active := s.active.filter (fun p => p.1 != c) } : State).activeIdx? c' = s.activeIdx? c' := by
  simp only [State.activeIdx?]
  rw [find_delKV_ne c c' h]

theorem mem_putTaskRow (t x : Task) (ts : List Task) (h : x ∈ putTaskRow t ts) :
    x = t ∨ (x ∈ ts ∧ ¬ (x.chan = t.chan ∧ x.id = t.id)) := by
  unfold putTaskRow at h
  rcases List.mem_cons.mp h with h | h
  · left; exact h
  · right
    have := List.mem_filter.mp h
    refine ⟨this.1, ?_⟩
    have h2 := this.2
    simp [sameKey] at h2
    omega

/-- an active put that the active index did not block -/
theorem inv_put_active (db : State) (t : Task) (hinv : Inv db) (hact : t.isActive = true)
    (hnb : activeBlocked db t = false) :
    Inv (applyWs db [W.setActive t.chan t.id, W.putTask t]) := by
  obtain ⟨hu, hc⟩ := hinv
  simp only [applyWs, List.foldl, applyW]
  constructor
  · exact keysUnique_put t db.tasks hu
  · intro x hx hxa
    rcases mem_putTaskRow t x _ hx with rfl | ⟨hmem, hne⟩
    · exact activeIdx_putKV_same _ _ _
    · by_cases hch : x.chan = t.chan
      · exfalso
        have hold := hc x hmem hxa
        have hid : x.id ≠ t.id := fun e => hne ⟨hch, e⟩
        unfold activeBlocked at hnb
        rw [← hch, hold] at hnb
        have hne' : (x.id == t.id) = false := by simp; exact hid
        simp only [hne'] at hnb
        have hfind : db.task? x.chan x.id = some x := task?_of_mem db.tasks hu x hmem
        rw [hfind] at hnb
        simp at hnb
        rw [hnb] at hxa
        cases hxa
      · have hold := hc x hmem hxa
        simp only [State.activeIdx?] at hold ⊢
        rw [find_putKV_ne _ _ hch]
        exact hold

/-- a terminal put over a row that was active: the index entry is deleted -/
theorem inv_put_terminal_del (db : State) (t : Task) (hinv : Inv db) (hact : t.isActive = false)
    (he : existingActive db t = true) :
    Inv (applyWs db [W.delActive t.chan, W.putTask t]) := by
  obtain ⟨hu, hc⟩ := hinv
  simp only [applyWs, List.foldl, applyW]
  constructor
  · exact keysUnique_put t db.tasks hu
  · intro x hx hxa
    rcases mem_putTaskRow t x _ hx with rfl | ⟨hmem, hne⟩
    · rw [hact] at hxa; cases hxa
    · by_cases hch : x.chan = t.chan
      · exfalso
        unfold existingActive at he
        split at he
        · rename_i e hfe
          obtain ⟨hem, hec, hei⟩ := mem_of_task? db _ _ e hfe
          have h1 := hc e hem he
          have h2 := hc x hmem hxa
          rw [hec] at h1
          rw [hch, h1] at h2
          simp at h2
          exact hne ⟨hch, by omega⟩
        · cases he
      · have hold := hc x hmem hxa
        simp only [State.activeIdx?] at hold ⊢
        rw [find_delKV_ne _ _ hch]
        exact hold

theorem inv_put_terminal (db : State) (t : Task) (hinv : Inv db) (hact : t.isActive = false) :
    Inv (applyWs db [W.putTask t]) := by
  obtain ⟨hu, hc⟩ := hinv
  simp only [applyWs, List.foldl, applyW]
  constructor
  · exact keysUnique_put t db.tasks hu
  · intro x hx hxa
    rcases mem_putTaskRow t x _ hx with rfl | ⟨hmem, _⟩
    · rw [hact] at hxa; cases hxa
    · exact hc x hmem hxa

theorem inv_upsert (db : State) (t : Task) (ws : List W) (hinv : Inv db) (h : upsertWrites db t = .ok ws) :
    Inv (applyWs db ws) := by
  rcases upsert_shape db t ws h with ⟨ha, hw, hb⟩ | ⟨ha, hw, he⟩ | ⟨ha, hw⟩
  · rw [hw]; exact inv_put_active db t hinv ha hb
  · rw [hw]; exact inv_put_terminal_del db t hinv ha he
  · rw [hw]; exact inv_put_terminal db t hinv ha

theorem inv_putMeta (s : State) (c : Nat) (m : Meta) (h : Inv s) : Inv (applyW s (W.putMeta c m)) := by
  obtain ⟨hu, hc⟩ := h
  exact ⟨hu, fun x hx hxa => hc x hx hxa⟩

theorem applyWs_append (s : State) (a b : List W) : applyWs s (a ++ b) = applyWs (applyWs s a) b := by
  simp [applyWs, List.foldl_append]

theorem inv_delTask (s : State) (c i : Nat) (h : Inv s) : Inv (applyW s (W.delTask c i)) := by
  obtain ⟨hu, hc⟩ := h
  constructor
  · exact keysUnique_filter _ _ hu
  · intro x hx hxa
    have := (List.mem_filter.mp hx).1
    exact hc x this hxa

theorem gcGo_dels (before limit : Nat) (ts : List Task) (n : Nat) :
    ∀ w ∈ gcWrites.go before limit ts n, ∃ c i, w = W.delTask c i := by
  induction ts generalizing n with
  | nil => intro w hw; simp [gcWrites.go] at hw
  | cons t rest ih =>
    intro w hw
    unfold gcWrites.go at hw
    split at hw
    · cases hw
    · split at hw
      · exact ih n w hw
      · rcases List.mem_cons.mp hw with rfl | hw
        · exact ⟨_, _, rfl⟩
        · exact ih (n + 1) w hw

theorem inv_dels (s : State) (ws : List W) (hd : ∀ w ∈ ws, ∃ c i, w = W.delTask c i) (h : Inv s) : Inv (applyWs s ws) := by
  induction ws generalizing s with
  | nil => exact h
  | cons w rest ih =>
    obtain ⟨c, i, rfl⟩ := hd w (List.mem_cons_self)
    simp only [applyWs, List.foldl]
    exact ih _ (fun w hw => hd w (List.mem_cons_of_mem _ hw)) (inv_delTask s c i h)

theorem inv_oneOp (db : State) (c : Cmd) (ws : List W) (hinv : Inv db) (h : OneOp db c ws) : Inv (applyWs db ws) := by
  cases h with
  | nothing => exact hinv
  | create ws _ _ hw => exact inv_upsert db _ ws hinv hw
  | taskOnly t nt ws _ _ _ _ hw => exact inv_upsert db nt ws hinv hw
  | taskMeta t nt m nm0 ws' _ _ _ _ _ _ _ _ _ hw =>
    rw [applyWs_append]
    exact inv_putMeta _ _ _ (inv_upsert db nt ws' hinv hw)
  | gc _ => exact inv_dels db _ (gcGo_dels _ _ _ 0) hinv

theorem inv_applySingle (db : State) (c : Cmd) (hinv : Inv db) : Inv (applySingle db c).1 := by
  rcases applySingle_state db c with h | ⟨ws, ho, h⟩
  · rw [h]; exact hinv
  · rw [h]; exact inv_oneOp db c ws hinv ho

theorem inv_setMeta (db : State) (c : Nat) (m : Meta) (hinv : Inv db) : Inv (setMeta db c m).1 := by
  obtain ⟨hu, hc⟩ := hinv
  unfold setMeta
  simp only
  split
  · exact ⟨hu, fun x hx hxa => hc x hx hxa⟩
  · exact ⟨hu, fun x hx hxa => hc x hx hxa⟩

/-- keys unique + every active task named by the index ⇒ at most one active task per channel -/
theorem oneActive_of_inv (s : State) (h : Inv s) : s.oneActive = true := by
  obtain ⟨hu, hc⟩ := h
  unfold State.oneActive
  rw [List.all_eq_true]
  intro t _
  simp only [decide_eq_true_eq]
  unfold State.activeOn
  have hpw : (s.tasks.filter (fun x => x.chan == t.chan && x.isActive)).Pairwise (fun a b => ¬ (a.chan = b.chan ∧ a.id = b.id)) :=
    keysUnique_filter _ _ hu
  match hl : s.tasks.filter (fun x => x.chan == t.chan && x.isActive) with
  | [] => rw [hl]; simp
  | [_] => rw [hl]; simp
  | a :: b :: rest =>
    exfalso
    rw [hl] at hpw
    have hab := (List.pairwise_cons.mp hpw).1 b (List.mem_cons_self)
    have ha : a ∈ s.tasks.filter (fun x => x.chan == t.chan && x.isActive) := by rw [hl]; exact List.mem_cons_self
    have hb : b ∈ s.tasks.filter (fun x => x.chan == t.chan && x.isActive) := by
      rw [hl]; exact List.mem_cons_of_mem _ List.mem_cons_self
    obtain ⟨ham, hap⟩ := List.mem_filter.mp ha
    obtain ⟨hbm, hbp⟩ := List.mem_filter.mp hb
    simp at hap hbp
    have h1 := hc a ham hap.2
    have h2 := hc b hbm hbp.2
    rw [hap.1] at h1
    rw [hbp.1, h1] at h2
    simp at h2
    exact hab ⟨by omega, h2⟩

end WK.C17

import WK.Model.C05
/-
  C05 — spec and judge predicates.  Core only.

  The *semantic content* bound by an entry digest: authority (epoch, term,
  fence), index, predecessor (term, index, digest), command, and the seven
  message fields.  `Record.Index` / `Record.Epoch` are not hashed: `VerifyEntry`
  forces them (`Index ∈ {0, entry.Index}`, `Epoch = entry.ChannelEpoch`).
-/
namespace WK.C05

/-- equality of every hashed field of (identity, record) -/
structure SemEq (e : Entry) (r : Rec) (e' : Entry) (r' : Rec) : Prop where
  epoch : e.epoch = e'.epoch
  term : e.term = e'.term
  fence : e.fence = e'.fence
  index : e.index = e'.index
  pterm : e.pterm = e'.pterm
  pidx : e.pidx = e'.pidx
  cmd : e.cmd = e'.cmd
  pdig : e.pdig = e'.pdig
  id : r.id = r'.id
  setting : r.setting = r'.setting
  sync : r.sync = r'.sync
  ts : r.ts = r'.ts
  frm : r.frm = r'.frm
  cmn : r.cmn = r'.cmn
  payload : r.payload = r'.payload

/-- the seven message fields -/
structure RecSemEq (r r' : Rec) : Prop where
  id : r.id = r'.id
  setting : r.setting = r'.setting
  sync : r.sync = r'.sync
  ts : r.ts = r'.ts
  frm : r.frm = r'.frm
  cmn : r.cmn = r'.cmn
  payload : r.payload = r'.payload

/-- field domains of the Go types (uint64 / uint8 / int64 / [32]byte / slice lengths) -/
structure WF (e : Entry) (r : Rec) : Prop where
  epoch : e.epoch < 18446744073709551616
  term : e.term < 18446744073709551616
  fence : e.fence < 18446744073709551616
  index : e.index < 18446744073709551616
  pterm : e.pterm < 18446744073709551616
  pidx : e.pidx < 18446744073709551616
  cmd : e.cmd.length = 32
  pdig : e.pdig.length = 32
  id : r.id < 18446744073709551616
  setting : r.setting < 256
  tsLo : -9223372036854775808 ≤ r.ts
  tsHi : r.ts < 9223372036854775808
  frm : r.frm.length < 18446744073709551616
  cmn : r.cmn.length < 18446744073709551616
  payload : r.payload.length < 18446744073709551616

/-- a collision of the hash: two different inputs with one output -/
def Collision (H : Bytes → Dig) : Prop := ∃ x y, x ≠ y ∧ H x = H y

/-- two byte strings that really collide under `H` -/
def CollideOn (H : Bytes → Dig) (x y : Bytes) : Prop := x ≠ y ∧ H x = H y

theorem CollideOn.collision {H : Bytes → Dig} {x y : Bytes} (h : CollideOn H x y) : Collision H := ⟨x, y, h.1, h.2⟩

/-! ### executable judge helpers (used by the driver on the implementation's output) -/

/-- hashed content as a comparable tuple -/
structure Sem where
  epoch : Nat
  term : Nat
  fence : Nat
  index : Nat
  pterm : Nat
  pidx : Nat
  cmd : Bytes
  pdig : Bytes
  id : Nat
  setting : Nat
  sync : Bool
  ts : Int
  frm : Bytes
  cmn : Bytes
  payload : Bytes
  deriving DecidableEq, Repr

def semOf (e : Entry) (r : Rec) : Sem :=
  { epoch := e.epoch, term := e.term, fence := e.fence, index := e.index, pterm := e.pterm, pidx := e.pidx,
    cmd := e.cmd, pdig := e.pdig, id := r.id, setting := r.setting, sync := r.sync, ts := r.ts,
    frm := r.frm, cmn := r.cmn, payload := r.payload }

/-- "record `r'` under identity `e'` is the content identity `e` was sealed from (with record `r`)":
    same identity (all ten fields), same seven message fields, and the two unhashed
    record fields within what `VerifyEntry` tolerates. -/
def sameSealedContent (e : Entry) (r : Rec) (e' : Entry) (r' : Rec) : Bool :=
  decide (e' = e) && decide (semOf e r = semOf e' r') &&
  (r'.index == 0 || r'.index == e.index) && r'.epoch == e.epoch

end WK.C05

import WK.Model.C40
/-
  C40 — spec / judge predicates (properties.jsonl C40), evaluated by the driver on
  the IMPLEMENTATION's observations (cursor and lanes read back after every op):

  * seq_mono        the durable event sequence (the message's cursor) never decreases, every
                    lane's LastMsgEventSeq is at most the cursor and never decreases;
  * terminal_once   a lane observed closed / error / cancelled is observed identical ever after;
  * replay_same     an event id that was durably applied is not applied again (no lane carries it
                    at a new sequence number) and a durable-path replay reports the (lane, seq,
                    status) of the first time;
  * finish_fail_closed  a finish is acknowledged only if there is something to complete from:
                    cached open lanes acknowledged since the last cache loss, or a snapshot in
                    its own payload; and an acknowledged finish leaves every such lane durable
                    and terminal.
  Core only.
-/
namespace WK.C40

/-- observation of one message on the implementation: cursor + lanes by key -/
structure Obs where
  cur : Nat := 0
  lanes : List (Bytes × Lane) := []
deriving Repr

def seqOk (prev new : Obs) : Bool :=
  decide (prev.cur ≤ new.cur) &&
  new.lanes.all (fun kl => decide (kl.2.seq ≤ new.cur)) &&
  prev.lanes.all (fun kl => match aget kl.1 new.lanes with
    | some l => decide (kl.2.seq ≤ l.seq)
    | none => false)

def terminalKept (prev new : Obs) : Bool :=
  prev.lanes.all fun kl => !kl.2.status.terminal || aget kl.1 new.lanes == some kl.2

/-- result triple -/
abbrev Triple := Bytes × Nat × Status

/-- `id` was durably applied before with result `first`: no lane may carry `id` as its last
    event at another sequence number (it was not applied again), and — when the replayed op
    goes through the durable path (`durable`) — the reported result is the first one.
    (A finish replay may still advance the cursor: its flush events carry derived ids.) -/
def replayOk (id : Bytes) (first : Triple) (new : Obs) (durable : Bool) (res : Option Triple) : Bool :=
  new.lanes.all (fun kl => kl.2.lastId != id || kl.2.seq == first.2.1) &&
  (!durable || (match res with | some t => t == first | none => true))

/-- what an acknowledged finish must leave behind for the lanes that were open in the cache -/
def finishCovers (pending : List Bytes) (new : Obs) : Bool :=
  pending.all fun k => match aget k new.lanes with
    | some l => l.status.terminal
    | none => false

/-! ### histories at node level -/

inductive NOp
  | nd (r : RawEvent)          -- Node.AppendMessageEvent on the leader
  | ev (r : RawEvent)          -- a direct durable append (Shard.AppendMessageEvent)
  | bt (rs : List RawEvent)    -- one metadata batch of appends
  | lose                       -- the leader's cache is lost (process restart)
  | rt (r : Route)             -- a route-table change (Slot leaders, hash-slot ownership)
  | cap (c : Nat)              -- the stream cache's session capacity is (re)configured

def nexec (n : Node) : NOp → Node
  | .nd r => (nstepP n r).1
  | .ev r => { n with db := (tstep n.db r).1 }
  | .bt rs => { n with db := (tbatch n.db rs).1 }
  | .lose => loseCache n
  | .rt r => setRoute n r
  | .cap c => { n with cap := c }

def nrun (n : Node) (h : List NOp) : Node := h.foldl nexec n

/-- the durable event sequence of message `m` -/
def cur (db : DB) (m : MsgKey) : Nat := ((aget m db.cursors).map (·.1)).getD 0

def Result.triple (r : Result) : Triple := (r.key, r.seq, r.status)

end WK.C40

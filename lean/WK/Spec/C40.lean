import WK.Model.C40
/-
  C40 — spec / judge predicates (properties.jsonl C40), evaluated by the driver on
  the IMPLEMENTATION's observations (cursor and lanes read back after every op):

  * seq_mono        the durable event sequence (the message's cursor) never decreases, every
                    lane's LastMsgEventSeq is at most the cursor and never decreases;
  * terminal_once   a lane observed closed / error / cancelled is observed identical ever after;
  * replay_same     an event id that was durably applied is not applied again: the cursor does
                    not move and the (lane, seq, status) result is the one of the first time;
  * finish_fail_closed  a finish is acknowledged only if there is something to complete from:
                    cached open lanes acknowledged since the last cache loss, or a snapshot in
                    its own payload; and an acknowledged finish leaves every such lane durable
                    and terminal.
  Core only.
-/
namespace WK.C40

/-- observation of one message on the implementation: cursor + lanes by key -/
structure Obs where
  cur : Nat := 0
  lanes : List (Bytes × Lane) := []
deriving Repr

def seqOk (prev new : Obs) : Bool :=
  decide (prev.cur ≤ new.cur) &&
  new.lanes.all (fun kl => decide (kl.2.seq ≤ new.cur)) &&
  prev.lanes.all (fun kl => match aget kl.1 new.lanes with
    | some l => decide (kl.2.seq ≤ l.seq)
    | none => false)

def terminalKept (prev new : Obs) : Bool :=
  prev.lanes.all fun kl => !kl.2.status.terminal || aget kl.1 new.lanes == some kl.2

/-- result triple -/
abbrev Triple := Bytes × Nat × Status

def replayOk (first : Triple) (prev new : Obs) (res : Option Triple) : Bool :=
  decide (prev.cur = new.cur) && (match res with | some t => t == first | none => true)

/-- what an acknowledged finish must leave behind for the lanes that were open in the cache -/
def finishCovers (pending : List Bytes) (new : Obs) : Bool :=
  pending.all fun k => match aget k new.lanes with
    | some l => l.status.terminal
    | none => false

end WK.C40

import WK.Model.C18
/-
  C18 — spec predicates.  Core only.
-/
namespace WK.C18

/-- a committed Raft log: strictly increasing indices -/
def StrictIdx {κ : Type} (es : List (Entry κ)) : Prop := List.Pairwise (fun a b => a.idx < b.idx) es

/-- handlers refuse everything except `init` while the state is uninitialised
    (every handler starts with `if next.Revision == 0 ... return reject(...)`);
    in particular none of them edits an uninitialised state in place. -/
def PreInit {β κ : Type} (handler : State β → Nat → κ → Proposal β) : Prop :=
  ∀ s idx c cand, s.rev = 0 → handler s idx c ≠ .update cand

/-- `ClusterState.Validate` does not look at `AppliedRaftIndex` -/
def ValidIgnoresApplied {β : Type} (valid : State β → Bool) : Prop :=
  ∀ (s : State β) (a : Nat), valid { s with applied := a } = valid s

/-- every initialised published state passed `Validate` -/
def PublishedValid {β : Type} (valid : State β → Bool) (sm : SM β) : Prop :=
  sm.published.rev ≠ 0 → valid sm.published = true

/-- the published state and the state file agree (so a restart changes nothing) -/
def Coherent {β : Type} (empty : State β) (sm : SM β) : Prop :=
  (sm.published.rev ≠ 0 ∧ sm.file = some sm.published) ∨ (sm.published = empty ∧ sm.file = none)

/-- **The contract the batch theorems need from `applyMutation`** (guards +
    handler), as a property of an arbitrary function of (candidate state, raft
    index, command) — it has no access to the published state, so its outcome is
    independent of it by construction:
    * `Noop`/`Rejected` ⇒ the candidate state is returned UNCHANGED;
    * `Changed` ⇒ revision + 1, applied index kept (or, on an uninitialised
      candidate, the initial state: revision 1, applied index = the entry's index);
    * `Updated` ⇒ revision and applied index kept. -/
def MutateContract {β κ : Type} (mutate : State β → Nat → κ → State β × Outcome) : Prop :=
  ∀ s idx c,
    ((mutate s idx c).1 = s ∧ ((∃ r, (mutate s idx c).2 = .rejected r) ∨ (∃ r, (mutate s idx c).2 = .noop r))) ∨
    (∃ cand, mutate s idx c = (⟨s.rev + 1, s.applied, cand⟩, .changed)) ∨
    (∃ cand, mutate s idx c = (⟨s.rev, s.applied, cand⟩, .updated)) ∨
    (∃ body, s.rev = 0 ∧ mutate s idx c = (⟨1, idx, body⟩, .changed))

/-- before init a command leaves the candidate alone or initialises it at its own index -/
def UninitContract {β κ : Type} (mutate : State β → Nat → κ → State β × Outcome) : Prop :=
  ∀ s idx c, s.rev = 0 → (mutate s idx c).1 = s ∨ ((mutate s idx c).1.rev ≠ 0 ∧ (mutate s idx c).1.applied = idx)

/-- every state a command produces passed `Validate` -/
def ValidContract {β κ : Type} (valid : State β → Bool) (mutate : State β → Nat → κ → State β × Outcome) : Prop :=
  ∀ s idx c, (mutate s idx c).1 = s ∨ valid (mutate s idx c).1 = true

end WK.C18

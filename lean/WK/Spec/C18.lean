import WK.Model.C18
/-
  C18 — spec predicates.  Core only.
-/
namespace WK.C18

/-- a committed Raft log: strictly increasing indices -/
def StrictIdx {κ : Type} (es : List (Entry κ)) : Prop := List.Pairwise (fun a b => a.idx < b.idx) es

/-- handlers refuse everything except `init` while the state is uninitialised
    (every handler starts with `if next.Revision == 0 ... return reject(...)`);
    in particular none of them edits an uninitialised state in place. -/
def PreInit {β κ : Type} (handler : State β → Nat → κ → Proposal β) : Prop :=
  ∀ s idx c cand, s.rev = 0 → handler s idx c ≠ .update cand

/-- `ClusterState.Validate` does not look at `AppliedRaftIndex` -/
def ValidIgnoresApplied {β : Type} (valid : State β → Bool) : Prop :=
  ∀ (s : State β) (a : Nat), valid { s with applied := a } = valid s

/-- every initialised published state passed `Validate` -/
def PublishedValid {β : Type} (valid : State β → Bool) (sm : SM β) : Prop :=
  sm.published.rev ≠ 0 → valid sm.published = true

/-- the published state and the state file agree (so a restart changes nothing) -/
def Coherent {β : Type} (empty : State β) (sm : SM β) : Prop :=
  (sm.published.rev ≠ 0 ∧ sm.file = some sm.published) ∨ (sm.published = empty ∧ sm.file = none)

end WK.C18

import WK.Model.C36
/-
  C36 — spec.  The property has three parts; each is an executable judge over
  the IMPLEMENTATION's observed outcomes (`sendOut` of App.Send, `batchOut` of
  App.SendBatch) and the fact record the harness installed:

    1. paths agree         — `sendOut = batchOut`;
    2. fixed precedence    — the (reason, error) equals the FIRST rule that
                             holds in a fixed, declarative rule list
                             (`specDecision`), with Disband ahead of the other
                             channel-state reasons;
    3. system bypass       — follows from (2): for a system sender the list is
                             the terminal (Disband) rules only.

  The rule list is a flat `List Rule`; nothing here calls the model's
  `perSend`/`batch`.  Core only.
-/
namespace WK.C36
open WK WK.C35

structure Rule where
  cond : Bool
  res : RE

/-- the verdict of a precedence list: the first rule whose condition holds, else success -/
def firstTrue : List Rule → RE
  | [] => ok
  | r :: rs => if r.cond then r.res else firstTrue rs

def ChanRes.isErr : ChanRes → Bool | .err => true | _ => false
def ChanRes.isNotFound : ChanRes → Bool | .notFound => true | _ => false
def ChanRes.ban : ChanRes → Bool | .found b _ _ _ => b | _ => false
def ChanRes.disband : ChanRes → Bool | .found _ d _ _ => d | _ => false
def ChanRes.sendBan : ChanRes → Bool | .found _ _ s _ => s | _ => false
def ChanRes.allowStranger : ChanRes → Bool | .found _ _ _ a => a | _ => false
def BoolRes.isErr : BoolRes → Bool | .err => true | _ => false
def BoolRes.isTrue : BoolRes → Bool | .val true => true | _ => false
def BoolRes.isFalse : BoolRes → Bool | .val false => true | _ => false

def sysErr : RE := (rSystemError, .store)

/-- terminal channel state: read failure, then Disband -/
def terminalRules (st : Store) (id : Bytes) (ty : Nat) : List Rule :=
  let c := st.chan id ty
  [⟨c.isErr, sysErr⟩, ⟨c.disband, (rDisband, .none)⟩]

def senderRules (st : Store) (uid : Bytes) : List Rule :=
  let s := st.chan uid tPerson
  [⟨s.isErr, sysErr⟩, ⟨s.sendBan, (rSendBan, .none)⟩]

/-- denylist, membership, allowlist — in that order -/
def commonRules (st : Store) (id : Bytes) (ty : Nat) (uid : Bytes) : List Rule :=
  let d := st.contains .deny id ty uid
  let m := st.contains .members id ty uid
  let h := st.hasAny .allow id ty
  let a := st.contains .allow id ty uid
  [⟨d.isErr, sysErr⟩, ⟨d.isTrue, (rInBlacklist, .none)⟩,
   ⟨m.isErr, sysErr⟩, ⟨m.isFalse, (rSubscriberNotExist, .none)⟩,
   ⟨h.isErr, sysErr⟩,
   ⟨h.isTrue && a.isErr, sysErr⟩, ⟨h.isTrue && a.isFalse, (rNotInWhitelist, .none)⟩]

/-- group channel rules.  `disbandFirst = true` is the order the PROPERTY asks
    for (Disband ahead of the other channel-state reasons); `false` is the order
    the code has (legacy: Ban before Disband). -/
def groupRules (disbandFirst : Bool) (st : Store) (id : Bytes) (ty : Nat) (uid : Bytes) : List Rule :=
  let c := st.chan id ty
  let banDisband : List Rule :=
    if disbandFirst then [⟨c.disband, (rDisband, .none)⟩, ⟨c.ban, (rBan, .none)⟩]
    else [⟨c.ban, (rBan, .none)⟩, ⟨c.disband, (rDisband, .none)⟩]
  [⟨c.isErr, sysErr⟩, ⟨c.isNotFound, (rChannelNotExist, .none)⟩] ++ banDisband ++ commonRules st id ty uid

def personRules (cfg : Cfg) (st : Store) (id uid : Bytes) : List Rule :=
  terminalRules st id tPerson ++
  match decodePerson id with
  | none => [⟨true, (0, .invalidPerson)⟩]
  | some (l, r) =>
    let rc := receiverOf uid l r
    let live := !cfg.isSystem rc
    let d := st.contains .deny rc tPerson uid
    let a := st.contains .allow rc tPerson uid
    let c := st.chan rc tPerson
    let wl := live && cfg.whitelist
    [⟨live && d.isErr, sysErr⟩, ⟨live && d.isTrue, (rInBlacklist, .none)⟩,
     ⟨wl && a.isErr, sysErr⟩,
     ⟨wl && a.isFalse && c.isErr, sysErr⟩,
     ⟨wl && a.isFalse && !c.allowStranger, (rNotInWhitelist, .none)⟩]

def agentRules (st : Store) (id uid : Bytes) : List Rule :=
  terminalRules st id tAgent ++
  match decodeAgent id with
  | none => [⟨true, (0, .invalidAgent)⟩]
  | some (u, a) => [⟨!(uid == u || uid == a), (rNotAllowSend, .none)⟩]

def visitorsRules (st : Store) (id uid : Bytes) : List Rule :=
  terminalRules st id tVisitors ++ (if uid == id then [] else commonRules st id tCustomerService uid)

def typeRules (disbandFirst : Bool) (cfg : Cfg) (st : Store) (id : Bytes) (ty : Nat) (uid : Bytes) : List Rule :=
  if ty = tPerson then personRules cfg st id uid
  else if ty = tGroup then groupRules disbandFirst st id ty uid
  else if ty = tAgent then agentRules st id uid
  else if ty = tVisitors then visitorsRules st id uid
  else terminalRules st id ty

/-- the whole precedence list for a command whose permission channel id is `id`
    (command suffix stripped, person id normalised).  System senders: terminal
    rules only.  Others: sender ban first; a system device then keeps only the
    terminal rules. -/
def allRules (disbandFirst : Bool) (cfg : Cfg) (st : Store) (cmd : Cmd) (id : Bytes) : List Rule :=
  if !cfg.hasPerm then []
  else if cfg.isSystem cmd.sender then terminalRules st id cmd.chanType
  else senderRules st cmd.sender ++
    (if cfg.isSystemDevice cmd then terminalRules st id cmd.chanType
     else typeRules disbandFirst cfg st id cmd.chanType cmd.sender)

/-- permission channel id of a command: `none` = NormalizePersonChannel failed;
    `skip` = permission-free (request scoped) -/
inductive Prep | free | invalid | id (id : Bytes) (wasCmd : Bool)
  deriving DecidableEq

def prep (cmd : Cmd) : Prep :=
  if cmd.requestScoped || (cmd.scopedN > 0 && cmd.chanId.isEmpty) then .free
  else
    let src := fromCmd cmd.chanId
    if cmd.chanType = tPerson ∧ cmd.normalize then
      match normalizePerson cmd.sender src.1 with
      | none => .invalid
      | some id2 => .id id2 src.2
    else .id src.1 src.2

/-- the decision the property prescribes (reason, error class) -/
def specDecision (disbandFirst : Bool) (cfg : Cfg) (st : Store) (cmd : Cmd) : RE :=
  match prep cmd with
  | .free => ok
  | .invalid => (0, .invalidPerson)
  | .id id _ => firstTrue (allRules disbandFirst cfg st cmd id)

/-! ### characterised exceptions (findings on the unchanged tree) -/

/-- the permission channel id still ends in the command suffix after one strip
    (`x____cmd____cmd`, or a normalised person id whose second UID ends in `____cmd`) -/
def residualSuffix (cmd : Cmd) : Bool :=
  match prep cmd with
  | .id id _ => isCmd id
  | _ => false

/-- person channel id that does not decode (only reachable with NormalizePersonChannel = false) -/
def malformedPerson (cmd : Cmd) : Bool :=
  cmd.chanType = tPerson &&
  match prep cmd with
  | .id id _ => (decodePerson id).isNone
  | _ => false

/-- group channel that is both banned and disbanded, asked by an ordinary sender -/
def banAndDisband (st : Store) (cmd : Cmd) : Bool :=
  cmd.chanType = tGroup &&
  match prep cmd with
  | .id id _ => (st.chan id cmd.chanType).ban && (st.chan id cmd.chanType).disband
  | _ => false

/-- verdict for one command.  `sendOut`/`batchOut` are the implementation's outcomes. -/
def judgeOne (cfg : Cfg) (st : Store) (cmd : Cmd) (sendOut batchOut : Outcome) : String :=
  let spec := specDecision true cfg st cmd
  -- 1. the two paths agree (decision, reason, error class, delivered channel)
  if sendOut != batchOut then
    if residualSuffix cmd then "viol:paths-disagree:residual-cmd-suffix"
    else if malformedPerson cmd then "viol:paths-disagree:malformed-person-id"
    else "viol:paths-disagree"
  -- 2. an outcome is well formed: delivered iff success without error
  else if sendOut.delivered.isSome != (sendOut.reason == rSuccess && sendOut.err == .none) then
    "viol:delivered-without-success"
  -- 3. fixed precedence (includes the system bypass)
  else if (sendOut.reason, sendOut.err) != spec then
    if banAndDisband st cmd && sendOut.reason == rBan && sendOut.err == .none
       && specDecision false cfg st cmd == (rBan, .none) then "viol:precedence:group-ban-over-disband"
    else "viol:precedence"
  else "ok"

/-- the narrow classes above; everything else is reported first -/
def isNarrow (v : String) : Bool :=
  v == "viol:paths-disagree:residual-cmd-suffix" || v == "viol:paths-disagree:malformed-person-id" ||
  v == "viol:precedence:group-ban-over-disband"

/-- one verdict per op line: a non-narrow violation wins over a narrow one -/
def combine (vs : List String) : String :=
  match vs.find? (fun v => v != "ok" && !isNarrow v) with
  | some v => v
  | none => (vs.find? (· != "ok")).getD "ok"

end WK.C36

/-
  C29 — Send results are aligned, ordered and idempotent.

  Spec side: the event alphabet of the concurrent traffic log and the judge
  (reference-map acceptor) the driver evaluates on every implementation log.
  Core Lean only.
-/
namespace WK.C29

inductive Tok where
  | item (call idx ch u m p : Nat)        -- item idx of a SendBatch / SubmitLocal call
  | beg (call : Nat)                      -- the call begins
  | len (call n : Nat)                    -- the call returned n results
  | res (call idx kind id seq : Nat)      -- result idx: kind 0 success, ≥1 some failure
  | fin (call : Nat)                      -- the call returned
  | req (r ch att : Nat)                  -- an AppendBatch request reached the port
  | msg (r u m p id : Nat)                -- one of its messages
  | pers (ch u m p id seq : Nat)          -- the reference store persisted a record
  | hang (call : Nat)                     -- a future / the stop did not complete (30 s)
  | lkerr (u m : Nat)                     -- the reference store answered a lookup for (u, m) with an error
  | twoInflight (ch : Nat)                -- a second AppendBatch for ch arrived while one was in flight
  deriving DecidableEq, Repr, Inhabited

/-- position of the first token satisfying p -/
def pos (p : Tok → Bool) (l : List Tok) : Option Nat :=
  let i := l.findIdx p
  if i < l.length then some i else none

def itemsOf (l : List Tok) : List (Nat × Nat × Nat × Nat × Nat × Nat) :=
  l.filterMap fun | .item c i ch u m p => some (c, i, ch, u, m, p) | _ => none

def calls (l : List Tok) : List Nat := l.filterMap fun | .beg c => some c | _ => none

/-- (call, idx, ch, u, m, p, id, seq) of every successful result whose item is known -/
def successes (l : List Tok) : List (Nat × Nat × Nat × Nat × Nat × Nat × Nat × Nat) :=
  let its := itemsOf l
  l.filterMap fun
    | .res c i 0 id sq =>
      match its.find? (fun t => t.1 == c && t.2.1 == i) with
      | some (_, _, ch, u, m, p) => some (c, i, ch, u, m, p, id, sq)
      | none => none
    | _ => none

/-- J1: every call returns exactly one result per item, in positions 0..n-1 -/
def alignedCall (l : List Tok) (c : Nat) : Bool :=
  let n := (itemsOf l).countP (fun t => t.1 == c)
  let lens := l.filterMap fun | .len c' k => if c' == c then some k else none | _ => none
  let idxs := l.filterMap fun | .res c' i _ _ _ => if c' == c then some i else none | _ => none
  lens == [n] && idxs == List.range n

def aligned (l : List Tok) : Bool := (calls l).all (alignedCall l)

/-- J2: a success answers ITS item: the reference store holds exactly that record -/
def successInStore (l : List Tok) : Bool :=
  (successes l).all fun (_, _, ch, u, m, p, id, sq) => l.contains (.pers ch u m p id sq)

/-- results whose success has no item at all -/
def successHasItem (l : List Tok) : Bool :=
  let its := itemsOf l
  l.all fun
    | .res c i 0 _ _ => its.any (fun t => t.1 == c && t.2.1 == i)
    | _ => true

/-- J2b: sends without a client message number are never answered with another send's message -/
def noSharedIds (l : List Tok) : Bool :=
  let ss := successes l
  ss.all fun (c, i, _, _, m, _, id, _) => ss.all fun (c', i', _, _, m', _, id', _) =>
    if (c, i) ≠ (c', i') ∧ (m = 0 ∨ m' = 0) then id ≠ id' else true

/-- the idempotency key of the item occurs once in the whole log (or there is none) -/
def freshKey (l : List Tok) (ch u m : Nat) : Bool :=
  m == 0 || (itemsOf l).countP (fun t => t.2.2.1 == ch && t.2.2.2.1 == u && t.2.2.2.2.1 == m) == 1

/- J3/J4 (see `seqViolations`):  successful fresh sends to one channel get strictly increasing sequences in
    submission order (inside one call: item order; across calls: returned-before-begun) -/
/-- how often a send (u, m, p) of channel ch was handed to the Appender -/
def appendCount (l : List Tok) (ch u m p : Nat) : Nat :=
  let reqs : List Nat := l.filterMap fun | .req r ch' _ => if ch' == ch then some r else none | _ => none
  l.countP fun | .msg r u' m' p' _ => u' == u && m' == m && p' == p && reqs.contains r | _ => false

/-- The order the property defines: successful sends to one channel submitted one after the other by one
    caller (same call in item order, or a call that returned before the other began).  A send that was handed
    to the Appender more than once (failed and retried, by the recovery path or by the Router) has been
    re-submitted later and is not part of that order; neither is a send whose key occurs more than once. -/
def seqViolations (l : List Tok) : List (Nat × Nat) :=
  let ss := (successes l).filter fun (_, _, ch, u, m, p, _, _) => freshKey l ch u m && appendCount l ch u m p == 1
  ss.flatMap fun (c, i, ch, u, m, _, _, sq) => ss.filterMap fun (c', i', ch', _, _, _, _, sq') =>
    let bad :=
      if ch = ch' then
        if c = c' then (if i < i' then !(sq < sq') else false)
        else match pos (· == .fin c) l, pos (· == .beg c') l with
          | some e, some b => if e < b then !(sq < sq') else false
          | _, _ => false
      else false
    if bad then some (u, m) else none

def seqOrdered (l : List Tok) : Bool := (seqViolations l).isEmpty

/-- J5: in-batch coalescing — one storage append per logical send inside an append request -/
def noDupInRequest (l : List Tok) : Bool :=
  let ms : List (Nat × Nat × Nat × Nat) := l.filterMap fun | .msg r u m p _ => some (r, u, m, p) | _ => none
  let keyed : List (Nat × Nat × Nat × Nat) := ms.filter fun (_, u, m, _) => u != 0 && m != 0
  decide keyed.Nodup

/-- message ids the reference store persisted more than once, with the client-message-number
    field of the record -/
def persistedTwice (l : List Tok) : List (Nat × Nat) :=
  let ps : List (Nat × Nat) := l.filterMap fun | .pers _ _ m _ id _ => some (id, m) | _ => none
  ps.filter fun (id, _) => ps.countP (fun q => q.1 == id) > 1

/-- the id was sent to the port in a recovery (attempt ≥ 2) request -/
def reappendedByRecovery (l : List Tok) (id : Nat) : Bool :=
  l.any fun
    | .msg r _ _ _ id' => id' == id && l.any (fun | .req r' _ att => r' == r && att ≥ 2 | _ => false)
    | _ => false

def judge (l : List Tok) : String :=
  if l.any (fun | .hang _ => true | .res _ _ 5 _ _ => true | _ => false) then "viol:future-never-completed"
  else if l.any (fun | .twoInflight _ => true | _ => false) then "viol:two-appends-in-flight"
  else if !(persistedTwice l).isEmpty then
    -- one logical send stored twice.  Known (narrow): an item WITHOUT a client message number whose
    -- first append was durable but reported ErrAppendFailed is re-appended by idempotency recovery.
    if (persistedTwice l).all (fun (id, m) => m == 0 && reappendedByRecovery l id)
    then "viol:message-stored-twice:recovery-reappends-unkeyed-item"
    else "viol:message-stored-twice:other"
  else if !aligned l then "viol:results-misaligned"
  else if !successHasItem l then "viol:results-misaligned"
  else if !successInStore l then "viol:success-not-matching-store"
  else if !noSharedIds l then "viol:duplicate-message-id"
  else if !seqOrdered l then
    -- Known (narrow): the Router re-submits an item whose prepare-time idempotency lookup failed with a
    -- retryable error AFTER later items of the same call were appended.
    if (seqViolations l).all (fun (u, m) => l.contains (.lkerr u m))
    then "viol:seq-order:router-retried-item-after-lookup-error"
    else "viol:seq-order"
  else if !noDupInRequest l then "viol:duplicate-in-append-batch"
  else "ok"


/-- calls were issued one after the other by ONE goroutine (call ids = submission order): successful sends
    to one channel carry sequences increasing with the call id -/
def seqFollowsCallOrder (l : List Tok) : Bool :=
  let ss := successes l
  ss.all fun (c, _, ch, _, _, _, _, sq) => ss.all fun (c', _, ch', _, _, _, _, sq') =>
    if ch = ch' ∧ c < c' then sq < sq' else true

/-- steered, failure-free scenarios: additionally every send reaches the Appender at most once (payloads are
    unique per item there) and every live send succeeds (`mustSucceed` = item indexes of call 1) -/
def judgeNoFailures (mustSucceed : List Nat) (l : List Tok) : String :=
  let v := judge l
  if v != "ok" then v
  else if !seqFollowsCallOrder l then "viol:seq-order"
  else
    let ms : List (Nat × Nat × Nat) := l.filterMap fun | .msg _ u m p _ => some (u, m, p) | _ => none
    if !(decide ms.Nodup) then "viol:item-appended-twice"
    else if !(mustSucceed.all fun i => l.any fun | .res 1 i' 0 _ _ => i' == i | _ => false) then "viol:live-send-failed"
    else "ok"

end WK.C29

import WK.Model.C19
/-
  C19 — spec: what an atomic, durable state-file replacement is, and the
  executable judges the driver runs (on the call list regenerated from the
  source, and on the call list observed with strace).  Core only.
-/
namespace WK.C19

/-- the on-disk directory maps the state file to an inode that holds exactly
    `v` and is completely synced (`none`: no state file) -/
def PathHolds (fs : FS) (v : Option Bytes) : Prop :=
  match v with
  | none => fs.durable pathName = none
  | some b => ∃ i, fs.durable pathName = some i ∧ fs.inodes i = ⟨b, b.length⟩

/-- A quiescent directory holding the state file with contents `old`
    (`none` = the file does not exist yet): nothing is pending, the file's
    inode is completely on the disk, and inode numbers below `next` are the
    only ones in use.  Left-over temp files of earlier crashed saves may exist. -/
def Stable (fs : FS) (old : Option Bytes) : Prop :=
  fs.pending = [] ∧ (∀ n i, fs.durable n = some i → i < fs.next) ∧ PathHolds fs old

/-- the file system after `Save` executed its first `k` calls and the machine lost power -/
def crashedAt (ops : List Op) (t : Name) (new : Bytes) (k : Nat) (c : CrashChoice) (fs : FS) : FS :=
  crash c (run t new (ops.take k) (fs, {})).1

/-- **Atomicity**: at every crash point and for every crash choice the state
    file holds the complete old or the complete new bytes. -/
def AtomicSave (ops : List Op) : Prop :=
  ∀ (fs : FS) (old : Option Bytes) (t : Name) (new : Bytes) (k : Nat) (c : CrashChoice),
    Stable fs old → t ≠ pathName →
    (crashedAt ops t new k c fs).read pathName = old ∨ (crashedAt ops t new k c fs).read pathName = some new

/-- **Durability**: once `Save` returned, every crash choice leaves the new bytes. -/
def DurableSave (ops : List Op) : Prop :=
  ∀ (fs : FS) (old : Option Bytes) (t : Name) (new : Bytes) (k : Nat) (c : CrashChoice),
    Stable fs old → t ≠ pathName → ops.length ≤ k →
    (crashedAt ops t new k c fs).read pathName = some new

/-! ### executable judges (used by the driver) -/

/-- a concrete quiescent file system: the state file is inode 0 -/
def fs0 (old : Option Bytes) : FS :=
  match old with
  | none => { inodes := fun _ => ⟨[], 0⟩, next := 0, durable := fun _ => none, pending := [] }
  | some b => { inodes := fun i => if i = 0 then ⟨b, b.length⟩ else ⟨[], 0⟩, next := 1,
                durable := fun n => if n = pathName then some 0 else none, pending := [] }

def uniformChoice (j n : Nat) : CrashChoice := ⟨j, fun _ => n⟩

/-- crash choices tried at one crash point: every journal prefix × every uniform cut `0..maxLen` -/
def choicesFor (fs : FS) (maxLen : Nat) : List (Nat × Nat) :=
  (List.range (fs.pending.length + 1)).flatMap fun j => (List.range (maxLen + 1)).map fun n => (j, n)

/-- first crash point `k`, journal prefix `j` and cut `n` after which the state
    file is neither `old` nor `new`, starting from the quiescent file system `fs` -/
def findTornFrom (fs0 : FS) (ops : List Op) (old : Option Bytes) (new : Bytes) : Option (Nat × Nat × Nat) :=
  (List.range (ops.length + 1)).findSome? fun k =>
    let fs := (run 1 new (ops.take k) (fs0, {})).1
    (choicesFor fs (new.length + 3)).findSome? fun (j, n) =>
      let r := (crash (uniformChoice j n) fs).read pathName
      if r = old ∨ r = some new then none else some (k, j, n)

/-- first crash choice after the *complete* call list that loses the new state -/
def findLostFrom (fs0 : FS) (ops : List Op) (new : Bytes) : Option (Nat × Nat) :=
  let fs := (run 1 new ops (fs0, {})).1
  (choicesFor fs (new.length + 3)).findSome? fun (j, n) =>
    let r := (crash (uniformChoice j n) fs).read pathName
    if r = some new then none else some (j, n)

def findTorn (ops : List Op) (old : Option Bytes) (new : Bytes) : Option (Nat × Nat × Nat) :=
  findTornFrom (fs0 old) ops old new

def findLost (ops : List Op) (old : Option Bytes) (new : Bytes) : Option (Nat × Nat) :=
  findLostFrom (fs0 old) ops new

/-- initial-state choice: besides the state file, a STALE TEMP FILE of an earlier
    crashed save exists under the very name (`1`) the save under test will use,
    with contents `stale`, completely on the disk. -/
def fs0Stale (old : Option Bytes) (stale : Bytes) : FS :=
  let b := fs0 old
  { inodes := fun i => if i = b.next then ⟨stale, stale.length⟩ else b.inodes i,
    next := b.next + 1,
    durable := fun n => if n = 1 then some b.next else b.durable n,
    pending := [] }

/-- the stale contents tried: longer than the new state, and shorter -/
def staleChoices (new : Bytes) : List Bytes := [new ++ [0x58, 0x58], [0x58]]

def findTornStale (ops : List Op) (old : Option Bytes) (new : Bytes) : Option (Nat × Nat × Nat) :=
  (staleChoices new).findSome? fun st => findTornFrom (fs0Stale old st) ops old new

def findLostStale (ops : List Op) (old : Option Bytes) (new : Bytes) : Option (Nat × Nat) :=
  (staleChoices new).findSome? fun st => findLostFrom (fs0Stale old st) ops new

/-- verdict of the crash judge on a call list -/
def crashVerdict (ops : List Op) (old : Option Bytes) (new : Bytes) : String :=
  match findTorn ops old new with
  | some (k, j, n) => s!"viol:crash-leaves-neither-old-nor-new:after-{k}-calls:journal-prefix-{j}:data-cut-{n}"
  | none =>
    match findLost ops old new with
    | some (j, n) => s!"viol:completed-save-lost-by-crash:journal-prefix-{j}:data-cut-{n}"
    | none =>
      match findTornStale ops old new with
      | some (k, j, n) => s!"viol:stale-temp-file-leaves-neither-old-nor-new:after-{k}-calls:journal-prefix-{j}:data-cut-{n}"
      | none =>
        match findLostStale ops old new with
        | some (j, n) => s!"viol:stale-temp-file-corrupts-completed-save:journal-prefix-{j}:data-cut-{n}"
        | none => "ok"

end WK.C19

/-
  C32 — Receive-acknowledgement tracking is exact.

  Observable state of `delivery.AckTracker` (what the harness dumps after every
  operation), the reference specification "set of outstanding (session, message)
  deliveries" and the property's predicates as `Bool` judges.  Core Lean only.

  Go → Lean: `string` = `List UInt8`, `uint64` = `Nat`, `int64`/`atomic.Int64` = `Int`,
  maps = association lists, `AckBindToken{id}` = `Nat` (0 = the zero token).
-/
namespace WK.C32

abbrev Str := List UInt8

def aget {κ ν : Type} [DecidableEq κ] (k : κ) : List (κ × ν) → Option ν
  | [] => none
  | (k', v) :: m => if k' = k then some v else aget k m

def adel {κ ν : Type} [DecidableEq κ] (k : κ) (m : List (κ × ν)) : List (κ × ν) :=
  m.filter (fun p => p.1 ≠ k)

/-- overwrite in place, or append a new key -/
def aput {κ ν : Type} [DecidableEq κ] (k : κ) (v : ν) : List (κ × ν) → List (κ × ν)
  | [] => [(k, v)]
  | (k', v') :: m => if k' = k then (k, v) :: m else (k', v') :: aput k v m

/-- `PendingRecvAck` -/
structure Pend where
  uid : Str
  sess : Nat
  msg : Nat
  seq : Nat
  chan : Str
  ctype : Nat
  dat : Int
  deriving DecidableEq, Inhabited, Repr

/-- `ackMessageKey`: one outstanding (session, message) delivery -/
structure MKey where
  uid : Str
  sess : Nat
  msg : Nat
  deriving DecidableEq, Inhabited, Repr

def Pend.key (p : Pend) : MKey := ⟨p.uid, p.sess, p.msg⟩

/-- `ackTrackerEntry` -/
structure Entry where
  pending : Pend := default
  committed : Bool := false
  primary : Nat := 0
  extras : List (Nat × Pend) := []
  deriving DecidableEq, Inhabited, Repr

/-- `AckTracker` (shards are unobservable sequentially except through the batch order and the
    `Shards` diagnostic; `bySession` is derived and judged on the dump) -/
structure St where
  shards : Nat := 32
  maxPer : Int := 0
  now : Int := 0
  entries : List (MKey × Entry) := []
  count : Int := 0
  nextTok : Nat := 0
  deriving DecidableEq, Inhabited, Repr

/-! ### reference specification: the set of outstanding deliveries -/

def outstanding (s : St) : List MKey := s.entries.map (·.1)

def inSession (uid : Str) (sess : Nat) (k : MKey) : Bool := k.uid = uid ∧ k.sess = sess

/-- `hasDeliveryAfter`: some delivery candidate of the entry is newer than the cutoff -/
def Entry.freshAfter (e : Entry) (cutoff : Int) : Bool :=
  decide (e.pending.dat > cutoff) || e.extras.any (fun a => decide (a.2.dat > cutoff))

/-- `(ttl + time.Second - 1) / time.Second` for ttl > 0 -/
def ttlSeconds (ttl : Int) : Int := (ttl + 999999999) / 1000000000

/-! ### judges on a dumped state -/

def keysDistinct : List MKey → Bool
  | [] => true
  | k :: ks => !ks.contains k && keysDistinct ks

/-- the O(1) counter equals the number of distinct outstanding deliveries -/
def countExact (s : St) : Bool := keysDistinct (outstanding s) && s.count == (s.entries.length : Int)

/-- every stored entry is justified: committed or still reserved by a token; the entry's key is
    its pending key; tokens are below the allocator -/
def entryOK (next : Nat) (ke : MKey × Entry) : Bool :=
  (ke.2.committed || ke.2.primary != 0 || !ke.2.extras.isEmpty) &&
  ke.2.pending.key == ke.1 && ke.2.extras.all (fun a => a.2.key == ke.1 && a.1 != 0 && a.1 ≤ next) &&
  ke.2.primary ≤ next

end WK.C32

import WK.Spec.C22
import WK.Model.C23
/-
  C23 — spec vocabulary: the byte stream a list of frames denotes.  Core only.
-/
namespace WK.C23
open WK.C22

/-- the encoding of one frame (defined as the empty string when the encoder refuses;
    the theorems only use it under `WithinLimits`, where the encoder succeeds) -/
def encOf (v : Nat) (f : Frame) : Bytes :=
  match encodeFrame v f with
  | .ok b => b
  | .error _ => []

/-- concatenation of the encodings -/
def encAll (v : Nat) (fs : List Frame) : Bytes := (fs.map (encOf v)).flatten

/-- the decoder makes no progress on `q`: it is empty (the adapter does not even call
    the codec) or `DecodeFrame` answers (nil, 0, nil) -/
def Stalls (v : Nat) (q : Bytes) : Prop := q = [] ∨ decodeFrame v q = .need

end WK.C23

import WK.Model.C07
/-
  C08 — the property itself.
    * `UniqueIdem rows`: a non-empty (sender, clientMsgNo) pair identifies at most one stored row of a channel;
    * `UniqueIds st`  : a message id is stored at most once across all channels of the node;
  and the executable judges the driver applies to the implementation's `scan` output.
-/
namespace WK.C08
open WK.C07

def UniqueIdem (rows : List Row) : Prop :=
  ∀ r1 ∈ rows, ∀ r2 ∈ rows, r1.frm ≠ [] → r1.cmn ≠ [] → r1.frm = r2.frm → r1.cmn = r2.cmn → r1.seq = r2.seq

def UniqueIds (st : Store) : Prop :=
  ∀ c1 c2 : Nat, ∀ r1 ∈ (st.chan c1).rows, ∀ r2 ∈ (st.chan c2).rows, r1.id = r2.id → c1 = c2 ∧ r1.seq = r2.seq

/-- judge on scan output rows (seq, id, fromHex, cmnHex); "-" is the empty string -/
def dupKey : List (Nat × Nat × String × String) → Bool
  | [] => false
  | r :: t =>
    (r.2.2.1 ≠ "-" ∧ r.2.2.2 ≠ "-" ∧ t.any (fun q => q.2.2.1 = r.2.2.1 ∧ q.2.2.2 = r.2.2.2)) || dupKey t

def dupId : List (Nat × Nat × String × String) → Bool
  | [] => false
  | r :: t => t.any (fun q => q.2.1 = r.2.1) || dupId t

end WK.C08

/-
  C33 — Presence routing is fenced by slot authority.

  Observable state of `internal/runtime/presence.Directory` (what the harness
  dumps after every operation) and the property's predicates as executable
  `Bool` judges.  Core Lean only.

  Go → Lean:  `string` = `List UInt8`, `uint*` = `Nat`, `int64` = `Int`,
  maps = association lists (`aget/aset/adel`), `*expiryBucket` = the bucket's
  `seenUnix` (buckets are unique per second), the bucket heap = the list of
  buckets kept ascending by `seenUnix` (abstract priority queue; the concrete
  `container/heap` array is judged separately on the implementation's dump).
-/
namespace WK.C33

abbrev Str := List UInt8

/-! ### association lists (Go maps) -/

def aget {κ ν : Type} [DecidableEq κ] (k : κ) : List (κ × ν) → Option ν
  | [] => none
  | (k', v) :: m => if k' = k then some v else aget k m

def adel {κ ν : Type} [DecidableEq κ] (k : κ) (m : List (κ × ν)) : List (κ × ν) :=
  m.filter (fun p => p.1 ≠ k)

def aset {κ ν : Type} [DecidableEq κ] (k : κ) (v : ν) (m : List (κ × ν)) : List (κ × ν) :=
  (k, v) :: adel k m

/-! ### types (types.go) -/

/-- `RouteTarget` -/
structure Target where
  hs : Nat
  slotID : Nat
  leader : Nat
  term : Nat
  epoch : Nat
  rev : Nat
  aepoch : Nat
  deriving DecidableEq, Inhabited, Repr

/-- `identityKey` / `RouteIdentity` -/
structure Key where
  uid : Str
  node : Nat
  boot : Nat
  sess : Nat
  deriving DecidableEq, Inhabited, Repr

/-- `Route` -/
structure Route where
  uid : Str
  node : Nat
  boot : Nat
  seq : Nat
  sess : Nat
  dev : Str
  flag : Nat
  level : Nat
  listener : Str
  conn : Int
  seen : Int
  deriving DecidableEq, Inhabited, Repr

/-- `makeRouteIdentityKey` -/
def Route.key (r : Route) : Key := ⟨r.uid, r.node, r.boot, r.sess⟩

/-- `pendingRoute` together with its token -/
structure Pending where
  token : String
  route : Route
  conflicts : List Key
  deriving DecidableEq, Inhabited, Repr

/-- `authoritySlot` (byUID is derived: it is dumped by the harness and judged
    against `active`). -/
structure Slot where
  target : Target
  active : List Route := []
  pending : List Pending := []
  ownerSeq : List (Key × Nat) := []
  tomb : List (Key × Nat) := []
  /-- expiryBySeen + expiryHeap: bucket second ↦ keys, ascending by second -/
  buckets : List (Int × List Key) := []
  /-- expiryByKey: key ↦ the second of its bucket -/
  byKey : List (Key × Int) := []
  nextID : Nat := 0
  deriving DecidableEq, Inhabited, Repr

/-- `Directory` (shards are unobservable sequentially) -/
structure Dir where
  localNode : Nat := 0
  slots : List (Nat × Slot) := []
  touchTotal : Nat := 0
  expiredTotal : Nat := 0
  deriving DecidableEq, Inhabited, Repr

/-! ### pure helpers shared by model and spec -/

/-- `sameAuthorityIdentity` -/
def sameAuth (a b : Target) : Bool :=
  a.hs == b.hs && a.slotID == b.slotID && a.leader == b.leader && a.term == b.term && a.epoch == b.epoch

/-- `lessIdentityKey` -/
def keyLess (a b : Key) : Bool :=
  if a.uid ≠ b.uid then decide (a.uid < b.uid)
  else if a.sess ≠ b.sess then decide (a.sess < b.sess)
  else if a.node ≠ b.node then decide (a.node < b.node)
  else if a.boot ≠ b.boot then decide (a.boot < b.boot)
  else false

/-- `routeSeenUnix` -/
def routeSeen (r : Route) : Int := if r.seen ≠ 0 then r.seen else r.conn

def findA (k : Key) (l : List Route) : Option Route := l.find? (fun r => r.key = k)
def delA (k : Key) (l : List Route) : List Route := l.filter (fun r => r.key ≠ k)

/-! ### the property's predicates -/

/-- A target is *current* for the directory: `validateTargetLocked` accepts it. -/
def accepts (d : Dir) (t : Target) : Bool :=
  if d.localNode ≠ 0 ∧ t.leader ≠ d.localNode then false
  else match aget t.hs d.slots with
    | none => false
    | some s => sameAuth s.target t

/-- `time.Unix(seen,0).Add(ttl).Before(now)` in nanoseconds -/
def dueSeen (now ttl seen : Int) : Bool := seen * 1000000000 + ttl < now

/-- The filter specification of TTL expiry: a route is removed iff it carries an
    activity second and that second is more than `ttl` before `now`. -/
def dueRoute (now ttl : Int) (r : Route) : Bool := routeSeen r ≠ 0 && dueSeen now ttl (routeSeen r)

/-- does the expiry pass run at all (`ttl > 0 && !now.IsZero()`) -/
def expiryRuns (nowZero : Bool) (ttl : Int) : Bool := decide (ttl > 0) && !nowZero

def expireSpec (nowZero : Bool) (now ttl : Int) (active : List Route) : List Route :=
  if expiryRuns nowZero ttl then active.filter (fun r => !dueRoute now ttl r) else active

/-- Tombstone fence on one slot: nothing active or pending at or below a tombstone. -/
def tombOK (s : Slot) : Bool :=
  s.tomb.all (fun kt =>
    s.active.all (fun r => r.key ≠ kt.1 || decide (kt.2 < r.seq)) &&
    s.pending.all (fun p => p.route.key ≠ kt.1 || decide (kt.2 < p.route.seq)))

/-- no active route of `k` at or below `seq` -/
def fenced (s : Slot) (k : Key) (seq : Nat) : Bool :=
  s.active.all (fun r => r.key ≠ k || decide (seq < r.seq))

/-- strictly ascending in `lessIdentityKey` -/
def keysSorted : List Key → Bool
  | [] => true
  | [_] => true
  | a :: b :: rest => keyLess a b && keysSorted (b :: rest)

/-- every active route has its own key (no two with the same identity) -/
def keysDistinct : List Route → Bool
  | [] => true
  | r :: rest => rest.all (fun q => q.key ≠ r.key) && keysDistinct rest

def bucketSeensAscending : List (Int × List Key) → Bool
  | [] => true
  | [_] => true
  | a :: b :: rest => decide (a.1 < b.1) && bucketSeensAscending (b :: rest)

/-- The expiry index is exactly the schedule of the active routes:
    `expiryByKey[k] = t` iff `k` is active with activity second `t ≠ 0`, and
    bucket `t` holds exactly those keys; buckets are non-empty and distinct. -/
def indexOK (s : Slot) : Bool :=
  keysDistinct s.active &&
  bucketSeensAscending s.buckets &&
  s.active.all (fun r =>
    if routeSeen r = 0 then aget r.key s.byKey == none
    else aget r.key s.byKey == some (routeSeen r)) &&
  s.byKey.all (fun kt => match findA kt.1 s.active with
    | none => false
    | some r => routeSeen r == kt.2 && kt.2 ≠ 0) &&
  s.byKey.all (fun kt => match aget kt.2 s.buckets with
    | none => false
    | some ks => ks.contains kt.1) &&
  s.buckets.all (fun b => !b.2.isEmpty && b.2.all (fun k => aget k s.byKey == some b.1)) &&
  (s.byKey.map (·.1)).length == (s.buckets.map (fun b => b.2.length)).sum

end WK.C33

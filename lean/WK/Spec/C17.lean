/-
  C17 — Channel migration cutover is fenced and irreversible.
  Spec: the observable state (task rows, raw active index, runtime-meta rows)
  and the property predicates.  The SAME predicates are (a) evaluated by the
  driver on the implementation's output after every op (the judge) and (b) the
  statements of the theorems about the model.  Core only.

  Conventions: channel ids are numbers (1 = "ca", 2 = "cb"), task ids / fence
  tokens are numbers (n = "t<n>", token 0 = ""), all int64 times are
  non-negative (`x <= 0` in Go is `x = 0` here), uint64 arithmetic does not
  wrap (values are far below 2^64).

  Readings fixed here (DESIGN §7 C17):
  * "committed or promoted": a leader-transfer-kind task (kinds 1,3) on which
    CommitChannelLeaderTransfer was accepted, or a replica-replace task (kind 2)
    on which PromoteLearnerAndRemoveReplica was accepted.  A replica-replace
    task whose EMBEDDED leader transfer was committed is protected until the
    designed hand-off (ClearChannelWriteFence → Running/AddLearner) closes the
    embedded transfer; after that it is an ordinary, abortable replica-replace.
  * the owner of a fence stored on channel `x` with token `k` is the task
    `(x, k)`; any other task is foreign to it.
-/
namespace WK.C17

structure Task where
  chan : Nat
  id : Nat
  kind : Nat
  status : Nat
  phase : Nat
  src : Nat
  tgt : Nat
  des : Nat
  ftok : Nat
  fver : Nat
  funtil : Nat
  emb : Bool
  embdes : Nat
  owner : Nat
  olease : Nat
  leo : Nat
  hw : Nat
  dnode : Nat
  drgen : Nat
  dcep : Nat
  dlep : Nat
  dfv : Nat
  upd : Nat
  comp : Nat
deriving DecidableEq, Repr, Inhabited

structure Meta where
  cep : Nat
  lep : Nat
  rgen : Nat
  leader : Nat
  minisr : Nat
  lease : Nat
  replicas : List Nat
  isr : List Nat
  ftok : Nat
  fver : Nat
  freason : Nat
  funtil : Nat
deriving DecidableEq, Repr, Inhabited

/-- `tasks` = task rows (a bag with unique (chan,id) keys); `active` = raw active-index rows
    chan ↦ task id; `metas` = runtime-meta rows chan ↦ meta. -/
structure State where
  tasks : List Task
  active : List (Nat × Nat)
  metas : List (Nat × Meta)
deriving DecidableEq, Repr, Inhabited

def State.empty : State := ⟨[], [], []⟩

def Task.terminal (t : Task) : Bool := t.status == 4 || t.status == 5 || t.status == 6
def Task.isActive (t : Task) : Bool := !t.terminal

def State.task? (s : State) (c i : Nat) : Option Task := s.tasks.find? (fun t => t.chan == c && t.id == i)
def State.meta? (s : State) (c : Nat) : Option Meta := (s.metas.find? (fun p => p.1 == c)).map (·.2)
def State.activeIdx? (s : State) (c : Nat) : Option Nat := (s.active.find? (fun p => p.1 == c)).map (·.2)

/-! ### phase tables (compat_channel_migration_helpers.go) -/

def isLTKind (k : Nat) : Bool := k == 1 || k == 3
def ltPhase (p : Nat) : Bool := p == 1 || p == 2 || p == 3 || p == 4 || p == 5 || p == 6 || p == 7 || p == 27
def ltFencePhase (p : Nat) : Bool := p == 3 || p == 4 || p == 5 || p == 6 || p == 7 || p == 27
def rrFencePhase (p : Nat) : Bool := p == 23 || p == 5 || p == 25 || p == 26 || p == 27
def ltAbortPhase (p : Nat) : Bool := p == 1 || p == 2 || p == 3 || p == 4 || p == 5 || p == 6
def rrAbortPhase (p : Nat) : Bool := p == 1 || p == 20 || p == 21 || p == 22 || p == 23 || p == 5 || p == 25

/-- `requireChannelMigrationAbortTransition` succeeds -/
def abortTransitionOk (t : Task) : Bool :=
  if t.kind == 1 || t.kind == 3 then ltAbortPhase t.phase
  else if t.kind == 2 then
    if t.emb && ltPhase t.phase then ltAbortPhase t.phase else rrAbortPhase t.phase
  else false

/-- the abort command's own preconditions on the task row -/
def Task.abortable (t : Task) : Bool := !t.terminal && abortTransitionOk t

/-! ### the property predicates -/

def memNat (x : Nat) (xs : List Nat) : Bool := xs.any (· == x)

/-- validateChannelRuntimeMeta on a stored (normalised) row:
    replicas non-empty, 1 ≤ minISR ≤ |replicas|, ISR ⊆ replicas, leader ≠ 0 → leader ∈ ISR ∩ replicas,
    fence fields consistent. -/
def Meta.valid (m : Meta) : Bool :=
  !m.replicas.isEmpty &&
  (1 ≤ m.minisr && m.minisr ≤ m.replicas.length) &&
  m.isr.all (fun x => memNat x m.replicas) &&
  (m.leader == 0 || (memNat m.leader m.replicas && memNat m.leader m.isr)) &&
  (if m.ftok == 0 then m.freason == 0 && m.funtil == 0 else m.fver != 0 && m.freason != 0 && m.funtil != 0)

def State.metasValid (s : State) : Bool := s.metas.all (fun p => p.2.valid)

def State.activeOn (s : State) (c : Nat) : List Task := s.tasks.filter (fun t => t.chan == c && t.isActive)

/-- at most one active task per channel -/
def State.oneActive (s : State) : Bool := s.tasks.all (fun t => (s.activeOn t.chan).length ≤ 1)

/-- every active task is the one the active index names (the invariant that makes `oneActive` inductive) -/
def State.indexCovers (s : State) : Bool := s.tasks.all (fun t => !t.isActive || s.activeIdx? t.chan == some t.id)

/-- the drain proof stored on the task matches the channel's CURRENT meta and the fence is this task's -/
def proofMatches (t : Task) (m : Meta) : Bool :=
  t.dfv != 0 && t.dfv == m.fver && t.dcep == m.cep && t.dlep == m.lep && t.dnode == m.leader &&
  t.ftok == t.id && m.ftok == t.id && t.fver == m.fver

/-- fence fields of a meta row -/
def Meta.fence (m : Meta) : Nat × Nat × Nat × Nat := (m.ftok, m.fver, m.freason, m.funtil)

/-- leadership / ISR part of a meta row: what only a cutover may change -/
def Meta.authority (m : Meta) : Nat × Nat × List Nat := (m.leader, m.lep, m.isr)

end WK.C17

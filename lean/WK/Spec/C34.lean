import WK.Model.C34
/-
  C34 — spec: the property as executable judges over the IMPLEMENTATION's
  outputs.  Written directly with `max`/truncated subtraction, independent of
  the model's fold-and-guard phrasing (Theorems/C34.lean proves them equal).
-/
namespace WK.C34

/-- the effective read point: max of join point, delete-to, retention, read cursor, own last send -/
def specEffectiveRead (r : Row) (h : Head) : Nat :=
  max (max (max (max (r.join - 1) r.del) h.retention) r.read) h.ownSend

def specFloor (r : Row) (h : Head) : Nat := max (max (r.join - 1) r.del) h.retention

/-- unread = committed messages after the effective read point (truncated: never negative) -/
def specUnread (r : Row) (h : Head) : Nat := h.committed - specEffectiveRead r h

/-- judge of one listed item against the facts of its channel -/
def judgeItem (r : Row) (h : Head) (unread : Nat) (last : Option Nat) : String :=
  if unread != specUnread r h then "viol:unread-not-exact"
  else match last with
    | some s =>
      if s ≤ r.join - 1 && r.join > 0 then "viol:last-before-join"
      else if s ≤ r.del then "viol:last-deleted"
      else if s ≤ h.retention then "viol:last-retained"
      else if h.last != some s then "viol:last-not-head"
      else "ok"
    | none =>
      match h.last with
      | some s => if s > specFloor r h && h.committed ≥ r.join && h.committed > r.del then "viol:last-hidden" else "ok"
      | none => "ok"

/-- judge of a mutation: `pre`/`post` rows as the implementation's store held them -/
def judgeMutation (kind : String) (n : Nat) (pre post : Row) (h : Head) : String :=
  if post.read < pre.read then "viol:read-regressed"
  else if post.del < pre.del then "viol:deleted-to-regressed"
  else if post.join != pre.join then "viol:join-changed"
  else if kind == "clear" && specUnread post h != 0 then "viol:clear-not-zero"
  else if kind == "set" && specUnread post h > n then "viol:set-above-n"
  else if kind == "set" && post.read > pre.read && post.read > max (specFloor pre h) (h.committed - n) then "viol:set-overshoot"
  else if kind == "clear" && post.read > max pre.read h.committed then "viol:clear-overshoot"
  else if kind == "del" && specUnread post h != 0 then "viol:delete-not-zero"
  else if kind == "del" && post.read != pre.read then "viol:delete-moved-read"
  else if (kind == "clear" || kind == "set") && post.del != pre.del then "viol:unread-cmd-moved-deleted-to"
  else "ok"

end WK.C34

/-
  C15 — Channel routing metadata never regresses.  Spec / judge predicates (core only).

  A stored row of `channel_runtime_meta` is a `Meta`.  "Moves forward" is relative
  to the current incarnation of the row: DeleteChannelRuntimeMeta removes the row
  and the next write starts a new incarnation (the property's wording is about the
  stored row; a delete leaves no row to regress).

  `Fwd old new` is the whole monotonicity clause of the property for one write
  that found `old` stored and left `new` stored.
-/
namespace WK.C15

structure Meta where
  chType : Int
  chEpoch : Nat
  leEpoch : Nat
  routeGen : Nat
  replicas : List Nat
  isr : List Nat
  leader : Nat
  minISR : Int
  status : Nat
  features : Nat
  lease : Int
  retSeq : Nat
  retAt : Int
  fenceToken : String
  fenceVer : Nat
  fenceReason : Nat
  fenceUntil : Int
  dirGen : Nat
deriving DecidableEq, Repr

def u64max : Nat := 2 ^ 64 - 1

/-- (channelEpoch, leaderEpoch) lexicographically -/
def epochLe (a b : Meta) : Prop :=
  a.chEpoch < b.chEpoch ∨ (a.chEpoch = b.chEpoch ∧ a.leEpoch ≤ b.leEpoch)

instance (a b : Meta) : Decidable (epochLe a b) := by unfold epochLe; infer_instance

def sameEpochs (a b : Meta) : Prop := a.chEpoch = b.chEpoch ∧ a.leEpoch = b.leEpoch

instance (a b : Meta) : Decidable (sameEpochs a b) := by unfold sameEpochs; infer_instance

/-- the changes the property says must bump the route generation:
    leader, replicas, ISR, status, lease, retention, fence (and the epochs) -/
def routeRelevantChange (a b : Meta) : Prop :=
  a.chEpoch ≠ b.chEpoch ∨ a.leEpoch ≠ b.leEpoch ∨ a.leader ≠ b.leader ∨ a.replicas ≠ b.replicas ∨
  a.isr ≠ b.isr ∨ a.status ≠ b.status ∨ a.lease ≠ b.lease ∨ a.retSeq ≠ b.retSeq ∨
  a.fenceToken ≠ b.fenceToken ∨ a.fenceVer ≠ b.fenceVer ∨ a.fenceReason ≠ b.fenceReason ∨
  a.fenceUntil ≠ b.fenceUntil

instance (a b : Meta) : Decidable (routeRelevantChange a b) := by unfold routeRelevantChange; infer_instance

/-- the monotonicity clause for one write -/
structure Fwd (old new : Meta) : Prop where
  epochs : epochLe old new
  noSwitch : sameEpochs old new → new.leader = old.leader ∧ old.lease ≤ new.lease
  retention : old.retSeq ≤ new.retSeq
  fence : old.fenceVer ≤ new.fenceVer
  directory : old.dirGen ≤ new.dirGen
  routeMono : old.routeGen ≤ new.routeGen
  routeStrict : routeRelevantChange old new → old.routeGen < u64max → old.routeGen < new.routeGen

/-- executable judge: the first clause of `Fwd` that fails, as a verdict signature -/
def judgeFwd (old new : Meta) : String :=
  if ¬ epochLe old new then "viol:epoch-regressed"
  else if sameEpochs old new ∧ new.leader ≠ old.leader then "viol:same-epoch-leader-switch"
  else if sameEpochs old new ∧ new.lease < old.lease then "viol:same-epoch-lease-shortened"
  else if new.retSeq < old.retSeq then "viol:retention-regressed"
  else if new.fenceVer < old.fenceVer then "viol:fence-version-regressed"
  else if new.dirGen < old.dirGen then "viol:directory-generation-regressed"
  else if new.routeGen < old.routeGen then "viol:route-generation-regressed"
  else if routeRelevantChange old new ∧ old.routeGen < u64max ∧ ¬ (old.routeGen < new.routeGen)
    then "viol:route-change-without-generation-bump"
  else "ok"

theorem judgeFwd_ok_iff (old new : Meta) : judgeFwd old new = "ok" ↔ Fwd old new := by
  unfold judgeFwd
  constructor
  · intro h
    split at h; · exact absurd h (by decide)
    split at h; · exact absurd h (by decide)
    split at h; · exact absurd h (by decide)
    split at h; · exact absurd h (by decide)
    split at h; · exact absurd h (by decide)
    split at h; · exact absurd h (by decide)
    split at h; · exact absurd h (by decide)
    split at h; · exact absurd h (by decide)
    rename_i h1 h2 h3 h4 h5 h6 h7 h8
    refine ⟨Decidable.of_not_not h1, ?_, by omega, by omega, by omega, by omega, ?_⟩
    · intro hs
      refine ⟨Decidable.of_not_not (fun hne => h2 ⟨hs, hne⟩), ?_⟩
      exact Int.not_lt.mp (fun hlt => h3 ⟨hs, hlt⟩)
    · intro hc hm
      exact Decidable.of_not_not (fun hn => h8 ⟨hc, hm, hn⟩)
  · intro h
    have e := h.epochs
    have r := h.retention
    have f := h.fence
    have d := h.directory
    have g := h.routeMono
    have h2 : ¬ (sameEpochs old new ∧ new.leader ≠ old.leader) := fun ⟨a, b⟩ => b (h.noSwitch a).1
    have h3 : ¬ (sameEpochs old new ∧ new.lease < old.lease) := fun ⟨a, b⟩ => by
      have := (h.noSwitch a).2; omega
    have h8 : ¬ (routeRelevantChange old new ∧ old.routeGen < u64max ∧ ¬ (old.routeGen < new.routeGen)) :=
      fun ⟨a, b, c⟩ => c (h.routeStrict a b)
    have h4 : ¬ new.retSeq < old.retSeq := by omega
    have h5 : ¬ new.fenceVer < old.fenceVer := by omega
    have h6 : ¬ new.dirGen < old.dirGen := by omega
    have h7 : ¬ new.routeGen < old.routeGen := by omega
    rw [if_neg (fun hn => hn e), if_neg h2, if_neg h3, if_neg h4, if_neg h5, if_neg h6, if_neg h7, if_neg h8]

end WK.C15

/-
  C20 — The hash-slot table assigns every hash slot to exactly one slot.
  Spec / judge predicates.  Core only; independent of the model (`WK.Model.C20`):
  everything here is stated over a bare assignment `a : List Nat`
  (index = hash slot, value = physical slot id, 0 = "no slot") and a plan.

  Reading of the property's wording used here:
  * "ideal share" of a participant of a plan over `n` participants and `H` hash
    slots is `H / n` (a rational); "within one hash slot of its ideal share" is
    `|c - H/n| ≤ 1`, i.e. `withinOne H n c`.  The code's own per-id target
    (`idealSlotCounts`: ⌊H/n⌋, +1 for the first `H mod n` ids in id order) is
    `idealShare`; it is within one of `H/n`, and so is every `level` count.
  * participants of an add plan = active slots ∪ {new}; of a remove plan = active
    slots \ {removed}; of a rebalance plan = active slots.
  * a table is *balanced* (`levelTable`) when every active slot owns ⌊H/n⌋ or
    ⌈H/n⌉ hash slots.  This is what NewHashSlotTable and a rebalance produce.
  * the balance clauses presuppose a fully assigned table (no hash slot mapped to
    slot id 0): `NewHashSlotTable(h, p ≥ 1)` is fully assigned and every table
    operation with non-zero slot ids keeps it so (`c20_total_function`).
  * the version clause is about a uint64: "strictly increases" is claimed while
    the version is below 2^64-1 (2^64 effective changes are out of reach).
-/
namespace WK.C20

structure Move where
  hs : Nat
  src : Nat
  dst : Nat
deriving DecidableEq, Repr

/-- every hash slot is mapped to a real (non-zero) slot -/
def fullyAssigned (a : List Nat) : Bool := a.all (· ≠ 0)

/-- applying a plan: hash slot `m.hs` now belongs to `m.dst` -/
def specApply (a : List Nat) (p : List Move) : List Nat :=
  p.foldl (fun a m => a.set m.hs m.dst) a

/-- the distinct elements of a list (last occurrences, in order) -/
def distinct : List Nat → List Nat
  | [] => []
  | x :: xs => if xs.contains x then distinct xs else x :: distinct xs

/-- distinct non-zero slot ids of the table (any order) -/
def specActive (a : List Nat) : List Nat := distinct (a.filter (· ≠ 0))

/-- each hash slot at most once, only away from its current owner -/
def planValid (a : List Nat) (p : List Move) : Bool :=
  (p.map (·.hs)).Nodup ∧ p.all (fun m => m.hs < a.length ∧ a.getD m.hs 0 = m.src ∧ m.src ≠ m.dst)

/-- `|c - H/n| ≤ 1` -/
def withinOne (H n c : Nat) : Bool := c * n ≤ H + n ∧ H ≤ c * n + n

/-- `c ∈ {⌊H/n⌋, ⌈H/n⌉}` -/
def level (H n c : Nat) : Bool := H / n ≤ c ∧ c * n < H + n

/-- the code's per-id target: ⌊H/n⌋, plus one for the `H mod n` smallest ids -/
def idealShare (H : Nat) (parts : List Nat) (s : Nat) : Nat :=
  H / parts.length + (if (parts.filter (· < s)).length < H % parts.length then 1 else 0)

def withinOneTable (a : List Nat) (parts : List Nat) : Bool :=
  parts.all (fun s => withinOne a.length parts.length (a.count s))

def levelTable (a : List Nat) (parts : List Nat) : Bool :=
  parts.all (fun s => level a.length parts.length (a.count s))

/-- a balanced table: every active slot owns ⌊H/n⌋ or ⌈H/n⌉ hash slots -/
def balanced (a : List Nat) : Bool := levelTable a (specActive a)

inductive PlanKind where
  | add | remove | rebalance
deriving DecidableEq, Repr

def PlanKind.name : PlanKind → String
  | .add => "add" | .remove => "remove" | .rebalance => "rebalance"

/-- participants of a plan of kind `k` with slot argument `s` on table `a` -/
def participants (k : PlanKind) (a : List Nat) (s : Nat) : List Nat :=
  match k with
  | .add => specActive a ++ [s]
  | .remove => (specActive a).filter (· ≠ s)
  | .rebalance => specActive a

/-- is `(k, s)` a request the planners act on (otherwise the plan must be empty) -/
def planApplicable (k : PlanKind) (a : List Nat) (s : Nat) : Bool :=
  match k with
  | .add => s ≠ 0 ∧ ¬ (specActive a).contains s
  | .remove => s ≠ 0 ∧ (specActive a).contains s ∧ ((specActive a).filter (· ≠ s)).length > 0
  | .rebalance => (specActive a).length > 1

/-- The judge for one plan `p` the implementation returned for `(k, s)` on table `a`.
    `ok`, or the signature of the first clause of the property that fails.
    The clause "every participant within one of its ideal share" is split in two
    classes: add/remove plans computed from a table that was not balanced (the
    confirmed finding DESIGN §8.4: these planners only fill the new slot / empty
    the removed slot and never level the other participants) and everything else. -/
def judgePlan (k : PlanKind) (a : List Nat) (s : Nat) (p : List Move) : String :=
  if ¬ planValid a p then "viol:plan-move-invalid:" ++ k.name
  else if ¬ fullyAssigned a then "ok"          -- balance clauses presuppose a total table
  else if ¬ planApplicable k a s then (if p.isEmpty then "ok" else "viol:plan-nonempty-for-inapplicable-request:" ++ k.name)
  else
    let a' := specApply a p
    let parts := participants k a s
    let H := a.length
    if k = .add ∧ a'.count s ≠ idealShare H parts s then "viol:add-new-slot-not-on-share"
    else if k = .remove ∧ a'.count s ≠ 0 then "viol:remove-not-emptied"
    else if ¬ fullyAssigned a' then "viol:plan-unassigns:" ++ k.name
    else if k = .add ∧ (specActive a).any (fun x => a'.count x > a.count x ∨ a'.count x < min (a.count x) (H / parts.length))
      then "viol:add-donor-overdrawn"
    else if k = .remove ∧ parts.any (fun x => a'.count x < a.count x ∨ a'.count x > max (a.count x) (H / parts.length + 1))
      then "viol:remove-receiver-overfilled"
    else if withinOneTable a' parts then "ok"
    else if k ≠ .rebalance ∧ ¬ balanced a then "viol:plan-unbalanced-from-unbalanced-input:" ++ k.name
    else "viol:plan-unbalanced:" ++ k.name

end WK.C20

import WK.Prelude.Hex
import WK.Gen.C13
/-
  C13 — spec.  Core only.

  * the command envelope, the error/result vocabulary;
  * the TLV wire skeleton of `pkg/slot/fsm/command.go` (`[version][type]` header,
    then `[tag:1][len:4 BE][value]` fields) — `walkTLV` is the loop every TLV
    decoder runs (`for off < len(data) { readTLV … }`);
  * `seqRun`: the REFERENCE meaning of a command log — one command at a time.
-/
namespace WK.C13

structure Cmd where
  slot : Nat
  hashSlot : Nat
  index : Nat
  data : Bytes
deriving DecidableEq, Repr, Inhabited

inductive Err where
  | invalid | corrupt | stale | notFound | exists | other
deriving DecidableEq, Repr, Inhabited

/-- `isStaleMetaCommitError` -/
def Err.staleClass : Err → Bool
  | .stale | .notFound | .exists => true
  | _ => false

/-! ### TLV skeleton -/

def be32 (a b c d : UInt8) : Nat := a.toNat * 16777216 + b.toNat * 65536 + c.toNat * 256 + d.toNat

/-- `readTLV`: tag, value, rest — or `corrupt` when the header or the value is truncated -/
def readTLV : Bytes → Except Err (Nat × Bytes × Bytes)
  | tag :: a :: b :: c :: d :: rest =>
    let len := be32 a b c d
    if len > rest.length then .error .corrupt
    else .ok (tag.toNat, rest.take len, rest.drop len)
  | _ => .error .corrupt

/-- the decoder loop; `fuel` bounds the iterations (each consumes ≥ 5 bytes) -/
def walkTLVFuel : Nat → Bytes → Except Err (List (Nat × Bytes))
  | _, [] => .ok []
  | 0, _ :: _ => .error .corrupt
  | fuel + 1, d =>
    match readTLV d with
    | .error e => .error e
    | .ok (tag, v, rest) =>
      match walkTLVFuel fuel rest with
      | .error e => .error e
      | .ok fs => .ok ((tag, v) :: fs)

def walkTLV (d : Bytes) : Except Err (List (Nat × Bytes)) := walkTLVFuel d.length d

def encLen (n : Nat) : Bytes :=
  [UInt8.ofNat (n / 16777216 % 256), UInt8.ofNat (n / 65536 % 256), UInt8.ofNat (n / 256 % 256), UInt8.ofNat (n % 256)]

/-- `appendBytesTLVField` -/
def encodeTLV : List (Nat × Bytes) → Bytes
  | [] => []
  | (tag, v) :: fs => UInt8.ofNat tag :: (encLen v.length ++ v ++ encodeTLV fs)

/-- `decodeCommand` header: version 1, command type, body -/
def header : Bytes → Except Err (Nat × Bytes)
  | v :: t :: body => if v.toNat ≠ 1 then .error .corrupt else .ok (t.toNat, body)
  | _ => .error .corrupt

/-- command types whose decoder does not walk TLV fields (regenerated from the source: currently none) -/
def jsonType (t : Nat) : Bool := Gen.C13.nonTLVTypes.contains t

/-- every command type `commandDecoders` knows (regenerated from the source on every run) -/
def knownTypes : List Nat := Gen.C13.knownTypes

/-- what the wire skeleton alone already decides: `some e` = the command must be refused with `e` -/
def skeletonVerdict (d : Bytes) : Option Err :=
  match header d with
  | .error e => some e
  | .ok (t, body) =>
    if !knownTypes.contains t then some .invalid
    else if jsonType t then none
    else match walkTLV body with
      | .error e => some e
      | .ok _ => none

/-! ### ownership (`resolveHashSlot`) -/

structure Cfg where
  slot : Nat
  owned : List Nat
  legacyDefault : Bool := false
deriving Repr, Inhabited

def cmdType (d : Bytes) : Option Nat :=
  match d with
  | v :: t :: _ => if v.toNat = 1 then some t.toNat else none
  | _ => none

def isApplyDelta (d : Bytes) : Bool := cmdType d == some 20
/-- `isSourceMigrationMaintenanceCommandData`: EnterFence / AckOutbox / CleanupOutbox -/
def isSourceMaintenance (d : Bytes) : Bool :=
  cmdType d == some 21 || cmdType d == some 22 || cmdType d == some 23

/-- `resolveHashSlot`; `deltaHS` decodes the hash slot an ApplyDelta payload names -/
def resolveHashSlot (cfg : Cfg) (deltaHS : Bytes → Except Err Nat) (c : Cmd) : Except Err Nat :=
  if isApplyDelta c.data then
    match deltaHS c.data with
    | .error e => .error e
    | .ok hs => if hs ≠ c.hashSlot then .error .invalid else .ok hs
  else
    let hs := if c.hashSlot = 0 ∧ cfg.legacyDefault then cfg.owned.headD 0 else c.hashSlot
    if cfg.owned.contains hs then .ok hs
    else if isSourceMaintenance c.data then .ok hs
    else .error .invalid

/-- the command is for a hash slot this slot does not own (and is not exempt) -/
def unowned (cfg : Cfg) (c : Cmd) : Bool :=
  !isApplyDelta c.data && !isSourceMaintenance c.data &&
  !cfg.owned.contains (if c.hashSlot = 0 ∧ cfg.legacyDefault then cfg.owned.headD 0 else c.hashSlot)

/-! ### one command -/

abbrev Result := String

/-- what applying ONE decoded command to a staged KV does.  `commitStale`: the
    conditional mutation lost at commit time (`isStaleMetaCommitError`): nothing
    is written, not even the applied index. -/
inductive Outcome (κ : Type) where
  | error (e : Err)
  | done (kv : κ) (r : Result)
  | commitStale

structure St (κ : Type) where
  kv : κ
  applied : Nat

/-- the per-command handler, a PARAMETER: a function of the staged KV, the
    resolved hash slot and the command — no hidden state -/
abbrev One (κ : Type) := κ → Nat → Cmd → Outcome κ

def staleResult : Result := "stale"

/-- one command in its own batch (`ApplyBatch` of a singleton) -/
def stepOne {κ : Type} (cfg : Cfg) (deltaHS : Bytes → Except Err Nat) (one : One κ)
    (st : St κ) (c : Cmd) : Except Err (St κ × Result) :=
  if c.slot ≠ cfg.slot then .error .invalid else
  match resolveHashSlot cfg deltaHS c with
  | .error e => .error e
  | .ok hs =>
    match one st.kv hs c with
    | .error e => .error e
    | .done kv r => .ok ({ kv := kv, applied := if c.index > 0 then c.index else st.applied }, r)
    | .commitStale => .ok (st, staleResult)

/-- the reference: one at a time, stopping at the first refused command
    (a refused command fails the slot); returns the state reached, the results so
    far and the error, if any -/
def seqRun {κ : Type} (cfg : Cfg) (deltaHS : Bytes → Except Err Nat) (one : One κ) :
    St κ → List Cmd → St κ × List Result × Option Err
  | st, [] => (st, [], none)
  | st, c :: cs =>
    match stepOne cfg deltaHS one st c with
    | .error e => (st, [], some e)
    | .ok (st', r) =>
      let (st'', rs, e) := seqRun cfg deltaHS one st' cs
      (st'', r :: rs, e)

end WK.C13

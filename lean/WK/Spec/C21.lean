/-
  C21 — spec: the mathematical (bit-serial, reflected) CRC-32/IEEE and the
  hash-slot mapping.  Core only.  `Spec.crc32` is what Go's
  `hash/crc32.ChecksumIEEE` is trusted to compute (checked differentially by
  the harness on every run); everything else is proved.
-/
namespace WK.C21

def poly : BitVec 32 := 0xEDB88320#32

/-- one bit-step of the reflected CRC-32 shift register -/
def round1 (c : BitVec 32) : BitVec 32 :=
  (c >>> 1) ^^^ (if c.getLsbD 0 then poly else 0#32)

def rounds : Nat → BitVec 32 → BitVec 32
  | 0, c => c
  | n+1, c => rounds n (round1 c)

/-- feed one byte -/
def specStep (crc : BitVec 32) (b : BitVec 8) : BitVec 32 :=
  rounds 8 (crc ^^^ BitVec.setWidth 32 b)

def specCrc32 (s : List (BitVec 8)) : BitVec 32 :=
  ~~~ (s.foldl specStep (~~~ 0#32))

/-- the hash-slot mapping every component must compute -/
def specHashSlot (s : List (BitVec 8)) (count : BitVec 16) : BitVec 16 :=
  if count = 0#16 then 0#16 else BitVec.setWidth 16 (specCrc32 s % BitVec.setWidth 32 count)

end WK.C21

/-
  C37 — work queues run each accepted task exactly once.

  Spec side: the event alphabet shared by the harness log (observable events of the
  REAL queues) and by the LTS models (which additionally emit the internal
  linearisation event `enq`), the property predicates as executable `Bool`
  functions over an event log, and the trace acceptor `judge` the driver runs on
  every implementation log.  Core Lean only.

  The theorems in `WK/Theorems/C37.lean` prove these very predicates for every
  reachable state's log of the models.
-/
namespace WK.C37

inductive Ev where
  | sub (t s : Nat)      -- Submit of task t (shard s) begins
  | acc (t : Nat)        -- Submit returned nil
  | rej (t : Nat)        -- Submit returned an error (full, closed, context)
  | run (t : Nat)        -- handler entered for t
  | done (t : Nat)       -- handler left for t
  | cancel (t : Nat)     -- cancellation hook ran for t
  | bbeg (s : Nat)       -- mailbox: a handler batch of shard s begins
  | bend (s : Nat)       -- mailbox: it ends
  | wup (s : Nat)        -- mailbox: a drain of shard s entered
  | wdn (s : Nat)        -- mailbox: the drain left its loop (final empty check done) ...
  | wend (s : Nat)       -- ... and is about to call finishShardDrain
  | closeBeg             -- Close called
  | closeEnd (r : Nat)   -- Close returned: 0 nil, 1 error (deadline), 2 did not return
  | enq (t s : Nat)      -- MODEL ONLY: the admission linearisation point
  | note                 -- verdict-neutral harness note
  deriving DecidableEq, Repr, Inhabited

/-! ### projections -/

def runs (l : List Ev) : List Nat := l.filterMap fun | .run t => some t | _ => none
def dones (l : List Ev) : List Nat := l.filterMap fun | .done t => some t | _ => none
def cancels (l : List Ev) : List Nat := l.filterMap fun | .cancel t => some t | _ => none
def accs (l : List Ev) : List Nat := l.filterMap fun | .acc t => some t | _ => none
def rejs (l : List Ev) : List Nat := l.filterMap fun | .rej t => some t | _ => none
def subs (l : List Ev) : List Nat := l.filterMap fun | .sub t _ => some t | _ => none
def enqs (l : List Ev) : List Nat := l.filterMap fun | .enq t _ => some t | _ => none
/-- tasks whose handler was entered or whose cancellation hook ran -/
def fin (l : List Ev) : List Nat := l.filterMap fun | .run t => some t | .cancel t => some t | _ => none
/-- per-shard sequences (mailbox) -/
def enqsOf (s : Nat) (l : List Ev) : List Nat :=
  l.filterMap fun | .enq t s' => if s' = s then some t else none | _ => none

/-! ### the property, clause by clause (each a `Bool` function of the log) -/

/-- no task is run twice, cancelled twice, or both run and cancelled -/
def atMostOnce (l : List Ev) : Bool := decide (fin l).Nodup

/-- a task whose Submit returned an error never runs and is never cancelled -/
def rejectedNeverRun (l : List Ev) : Bool := (rejs l).all fun t => !(fin l).contains t

/-- only submitted tasks run -/
def ranWereSubmitted (l : List Ev) : Bool := (fin l).all fun t => (subs l).contains t

def closeOk : Ev := .closeEnd 0
/-- the log up to (excluding) the first `Close returned nil` -/
def preClose (l : List Ev) : List Ev := l.takeWhile fun e => e != closeOk

/-- close waits: once Close returned nil, every task whose Submit returned nil (at any
    time, even later) had left its handler, or had its cancellation hook run, before
    Close returned. -/
def closeWaits (l : List Ev) : Bool :=
  !l.contains closeOk ||
    (accs l).all fun t => (dones (preClose l)).contains t || (cancels (preClose l)).contains t

/-- open handler batches per shard while scanning a log; `none` = a shard had two open at once -/
def drainState : List Nat → List Ev → Option (List Nat)
  | act, [] => some act
  | act, .bbeg s :: r => if act.contains s then none else drainState (s :: act) r
  | act, .bend s :: r => drainState (act.erase s) r
  | act, _ :: r => drainState act r

/-- a mailbox shard never has two handler batches open at the same time -/
def singleDrain (l : List Ev) : Bool := (drainState [] l).isSome

/-! ### positions (driver-side helpers; arrays indexed by task id) -/

structure Pos where
  sub : Array (Option Nat) := #[]
  shard : Array Nat := #[]
  acc : Array (Option Nat) := #[]
  run : Array (Option Nat) := #[]
  fin : Array (Option Nat) := #[]     -- done or cancel
  any : Array (Option Nat) := #[]     -- run, done or cancel: first
  deriving Inhabited

def setFirst (a : Array (Option Nat)) (t i : Nat) : Array (Option Nat) :=
  let a := if a.size ≤ t then a ++ Array.replicate (t + 1 - a.size) none else a
  match a[t]! with
  | none => a.set! t (some i)
  | some _ => a

def setShard (a : Array Nat) (t s : Nat) : Array Nat :=
  let a := if a.size ≤ t then a ++ Array.replicate (t + 1 - a.size) 0 else a
  a.set! t s

def positions (l : List Ev) : Pos :=
  (l.foldl (fun (pi : Pos × Nat) e =>
    let (p, i) := pi
    let p := match e with
      | .sub t s => { p with sub := setFirst p.sub t i, shard := setShard p.shard t s }
      | .acc t => { p with acc := setFirst p.acc t i }
      | .run t => { p with run := setFirst p.run t i, any := setFirst p.any t i }
      | .done t => { p with fin := setFirst p.fin t i, any := setFirst p.any t i }
      | .cancel t => { p with fin := setFirst p.fin t i, any := setFirst p.any t i }
      | _ => p
    (p, i + 1)) (({} : Pos), 0)).1

def getPos (a : Array (Option Nat)) (t : Nat) : Option Nat := (a[t]?).join

/-- index of the first / last event satisfying `p` -/
def firstIdx (p : Ev → Bool) (l : List Ev) : Option Nat :=
  let i := l.findIdx p
  if i < l.length then some i else none

def lastIdx (p : Ev → Bool) (l : List Ev) : Option Nat :=
  (l.foldl (fun (ri : Option Nat × Nat) e => (if p e then some ri.2 else ri.1, ri.2 + 1)) (none, 0)).1

/-- mailbox order (observable form): if Submit(x) returned before Submit(y) began, both on
    the same shard, and both ran, then x's handler was entered first. -/
def fifoObs (l : List Ev) : Bool :=
  let p := positions l
  let ts := (subs l).eraseDups
  ts.all fun x => ts.all fun y =>
    match getPos p.acc x, getPos p.sub y, getPos p.run x, getPos p.run y with
    | some ax, some sy, some rx, some ry =>
      if x ≠ y ∧ p.shard[x]! = p.shard[y]! ∧ ax < sy then rx < ry else true
    | _, _, _, _ => true

/-! ### the trace acceptor -/

inductive Kind where | bp | bbp | wq | mb
  deriving DecidableEq, Repr, Inhabited

def isShardWorkerEv (s : Nat) : Ev → Bool
  | .wup s' => s' = s | .wdn s' => s' = s | .wend s' => s' = s | _ => false

/-- Which stranding is it?  The classes name the three defects repaired in /repo (mailbox drain window,
    bounded-pool submit select, batch-pool cancel-on-close exit) by their observable necessary conditions,
    so a regression to an old protocol is reported under its name; all of them are violations.  Only
    `batchpool-cancelrunning-overload` is still an open known finding. -/
def strandClass (k : Kind) (cancelCfg : Nat) (l : List Ev) (p : Pos) (t : Nat) : String :=
  let cb := firstIdx (· == .closeBeg) l
  let ce := firstIdx (· == closeOk) l
  match k with
  | .mb =>
    let s := p.shard[t]!
    let lastW := lastIdx (isShardWorkerEv s) l
    let lastWend := lastIdx (· == .wend s) l
    let lastBend := lastIdx (· == .bend s) l
    let n1 := lastW.isSome && lastW == lastWend            -- the shard's last drain ended, none started later
    let n2 := match getPos p.acc t, lastBend with           -- admitted after that drain's last batch
      | some a, some b => b < a
      | some _, none => true
      | none, _ => false
    let b := match cb, lastWend with                        -- Close was called before the drain reached finishShardDrain
      | some c, some w => c < w
      | _, _ => false
    -- no drain of the shard was ever observed after the item was submitted: the Submit scheduled one that never ran
    let noDrainSince : Bool := match getPos p.sub t, lastW with
      | some st, some w => decide (w < st)
      | some _, none => true
      | none, _ => false
    if n1 && n2 && b then "mailbox-drain-window"
    else if noDrainSince then "mailbox-submit-wgadd-window"
    else "mailbox-other"
  | .bp =>
    match cb, ce, getPos p.sub t, getPos p.acc t with
    | some c, some e, some st, some a =>
      if c < a ∧ st < e then "boundedpool-submit-select" else "boundedpool-other"
    | _, _, _, _ => "boundedpool-other"
  | .bbp =>
    match cb with
    | some c =>
      let cancelAfterClose := (lastIdx (fun e => match e with | .cancel _ => true | _ => false) l).any (c < ·)
      if cancelCfg % 2 = 1 && cancelAfterClose then "batchpool-cancel-overload"
      else if cancelCfg % 2 = 0 && cancelCfg / 2 % 2 = 1 then "batchpool-cancelrunning-overload"
      else "batchpool-other"
    | none => "batchpool-other"
  | .wq => "workerqueue"

def isNarrow (c : String) : Bool :=
  c == "mailbox-drain-window" || c == "boundedpool-submit-select" || c == "batchpool-cancel-overload" ||
    c == "batchpool-cancelrunning-overload"

/-- The acceptor run on every implementation log. `ok` or `viol:<signature>`. -/
def judge (k : Kind) (cancelCfg : Nat) (l : List Ev) : String :=
  if l.contains (.closeEnd 2) then "viol:close-hung"
  else if !atMostOnce l then "viol:task-ran-twice"
  else if !rejectedNeverRun l then "viol:rejected-task-ran"
  else if !ranWereSubmitted l then "viol:unsubmitted-task-ran"
  else if cancelCfg % 2 ≠ 1 && !(cancels l).isEmpty then "viol:cancel-hook-unconfigured"
  else if !singleDrain l then "viol:concurrent-drain"
  else if k == .mb && !fifoObs l then "viol:shard-order"
  else if closeWaits l then "ok"
  else
    -- some accepted task had not finished when Close returned nil
    let p := positions l
    let pre := preClose l
    let late := (accs l).filter fun t => !((dones pre).contains t || (cancels pre).contains t)
    if late.any fun t => (getPos p.any t).isSome then "viol:close-did-not-wait"
    else
      let cls := late.map (strandClass k cancelCfg l p)
      match cls.find? (fun c => !isNarrow c) with
      | some c => "viol:close-stranded-admitted-item:" ++ c
      | none => "viol:close-stranded-admitted-item:" ++ cls.headD "unknown"

end WK.C37

import WK.Model.ReplJudge
/-
  C04 — a deposed or fenced authority cannot acknowledge appends.

  Judge per owner (one quorumLog = one node between restarts), from the
  implementation's results only:
   * an install whose id is below the highest id the owner has adopted must not succeed nor
     become the owner's authority (`viol:older-authority-installed`);
   * an owner never becomes writable under an authority older than one whose entries its own
     durable log already holds — the only defence once a restart has erased the owner's memory
     (`viol:installed-below-durable-tail`);
   * a fenced install never succeeds (`viol:fenced-install-ok`);
   * a successful install reports the requested id (`viol:install-authority-mismatch`);
   * a receipt is only returned for Expected = the id of the owner's last
     successful install, and only if no higher id was adopted since — even when
     that later install failed or was fenced (`viol:deposed-or-unready-authority-acked`),
     and it names that authority (`viol:receipt-authority-mismatch`).
-/
namespace WK.C04
open WK WK.Repl

def judge (j : JState) (op : Op) (cur : Obs) : String :=
  match op with
  | .install i a _ _ =>
    let nj := j.nodeJ i
    let lower := match nj.hi with
      | some h => cmpAuth a.id h == .lt
      | none => false
    if cur.isOk && a.fenced then "viol:fenced-install-ok"
    else if lower && (cur.isOk || ((cur.leader i).status == "present" && decide ((cur.leader i).a = a.id))) then
      -- the owner reports the older id as its authority afterwards (or even answered ok)
      "viol:older-authority-installed"
    else if cur.isOk && !((j.prev.leader i).status == "present" && (j.prev.leader i).ready && decide ((j.prev.leader i).a = a.id))
        && (cur.store i).entries.any (fun e => cmpAuth e.a a.id == .gt) then
      -- the owner became writable under an authority OLDER than one that already wrote into its own
      -- durable log (e.g. same epoch and term, older fence version, installed after a restart)
      "viol:installed-below-durable-tail"
    else if cur.isOk then
      (match cur.res with
       | ["ok", ra, _, _] => if parseAuth ra == some a.id then "ok" else "viol:install-authority-mismatch"
       | _ => "viol:unparseable-output")
    else "ok"
  | .commit i e _ _ _ _ =>
    (match cur.res with
     | ["ok", ra, _, _, _, _] =>
       if (j.nodeJ i).writable ≠ some e then "viol:deposed-or-unready-authority-acked"
       else if parseAuth ra ≠ some e then "viol:receipt-authority-mismatch"
       else "ok"
     | _ => "ok")
  | _ => "ok"

end WK.C04

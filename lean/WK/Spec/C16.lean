import WK.Model.C16
/-
  C16 — spec / judge predicates.  Core only.

  Reading of the property (properties.jsonl C16):
  * "cursors never move backwards": for one membership key, `ReadSeq`,
    `DeletedToSeq` (ordinary table) and `AckSeq` (CMD table) observed by
    `Get…Membership` before and after every operation are non-decreasing.  A row
    removed by `DeleteUserChannelMembership` ends the incarnation (the operation
    is not in the property's list of interleaved mutations; a later upsert
    creates a new row from nothing).
  * "older source version refused": an upsert whose `SourceVersion` is below
    the stored one leaves the row unchanged; an equal one may only clear the
    tombstone; an ensure whose generation is not above the stored one leaves the
    row unchanged.
  * "directory pass": the concatenation of the pages of one pass (any positive
    page sizes) is the list of that user's rows ordered by
    (activatedAt desc, channel id, channel type), each exactly once, provided no
    row of that user changed during the pass.  (`ListUserChannelMembershipPage`
    returns tombstoned rows too; the conversation usecase filters them, so the
    statement for live rows is the `filter` of this one.)

  Known finding (DESIGN §8.3): the reducers *assign* the cursors
    (a) `resolveUserChannelMembership`: tombstone → live with a strictly newer
        source version  (`return next`),
    (b) `resolveUserCMDChannelMembership`: re-bind of a tombstoned row (`return next`),
    (c) `resolveEnsuredUserChannelMembership`: a strictly newer generation over a
        row whose generation is non-zero ("true delete/recreate boundary").
  `Verdict.rejoin` (a, b) and `Verdict.ensureGen` (c) are emitted only when the
  regression happens at exactly such a transition AND the stored cursors are
  the incoming ones; every other regression is `Verdict.regressed`.
-/
namespace WK.C16

inductive Verdict | ok | rejoin | ensureGen | regressed | stale
deriving DecidableEq, Repr

def Verdict.str : Verdict → String
  | .ok => "ok"
  | .rejoin => "viol:cursor-regressed-at-rejoin"
  | .ensureGen => "viol:cursor-regressed-at-ensure-generation"
  | .regressed => "viol:cursor-regressed"
  | .stale => "viol:stale-source-applied"

/-- the row a same-version live upsert may turn a tombstoned row into -/
def untomb (a : Row) (nx : Row) : Row :=
  { a with tomb := false, tombAt := 0, upd := if nx.upd > a.upd then nx.upd else a.upd }

/-- judge of one observed transition `prev → new` of an ordinary row under `op` -/
def judgeRow (prev new : Option Row) (op : Op) : Verdict :=
  match prev, new with
  | some a, some b =>
    let staleBad : Bool := match op with
      | .up _ nx => (decide (nx.sv < a.sv) && decide (b ≠ a)) ||
                    (decide (nx.sv = a.sv) && decide (b ≠ a) &&
                      !(a.tomb && !nx.tomb && decide (b = untomb a nx)))
      | .en _ nx => decide (nx.sv ≤ a.sv) && decide (b ≠ a)
      | _ => false
    if staleBad then .stale
    else if a.read ≤ b.read ∧ a.del ≤ b.del then .ok
    else match op with
      | .up _ nx => if a.tomb = true ∧ nx.tomb = false ∧ a.sv < nx.sv ∧ b = nx then .rejoin else .regressed
      | .en _ nx => if a.sv ≠ 0 ∧ a.sv < nx.sv ∧ b.read = nx.read ∧ b.del = nx.del then .ensureGen else .regressed
      | _ => .regressed
  | _, _ => .ok

/-- judge of one observed transition of a CMD row -/
def judgeCRow (prev new : Option CRow) (op : Op) : Verdict :=
  match prev, new with
  | some a, some b =>
    if a.ack ≤ b.ack then .ok
    else match op with
      | .cup _ nx => if a.tomb = true ∧ nx.tomb = false ∧ b = nx then .rejoin else .regressed
      | _ => .regressed
  | _, _ => .ok

/-- the position command sync resumes from (internal/usecase/cmdsync): `max(StartSeq, AckSeq+1)` -/
def CRow.floor (r : CRow) : Nat := if r.ack + 1 > r.start then r.ack + 1 else r.start

/-- an operation that may start a new incarnation of the row it addresses -/
def Op.boundary (prev : Option Row) : Op → Bool
  | .up _ nx => match prev with
    | some a => a.tomb && !nx.tomb && decide (a.sv < nx.sv)
    | none => false
  | .en _ nx => match prev with
    | some a => decide (a.sv ≠ 0) && decide (a.sv < nx.sv)
    | none => false
  | .dl _ => true
  | _ => false

def Op.cboundary (prev : Option CRow) : Op → Bool
  | .cup _ nx => match prev with
    | some a => a.tomb && !nx.tomb
    | none => false
  | _ => false

/-- insertion sort of index entries by key order (the expected directory listing) -/
def sortIdx (l : List IdxE) : List IdxE := l.foldl (fun acc e => idxInsert e acc) []

/-- the expected result of a complete directory pass over the rows of `(slot, uid)` -/
def expectedPass (rows : List (Key × Row)) (slot uid : Nat) : List IdxE :=
  sortIdx ((rows.filter fun kr => decide (kr.1.slot = slot) && decide (kr.1.uid = uid)).map fun kr => entry kr.1 kr.2)

/-! ### histories -/

/-- one command of a history: a Shard-level operation or one metadata Batch -/
inductive Cmd
  | one (o : Op)
  | batch (os : List Op)

def exec (st : St) : Cmd → St
  | .one o => (step st o).1
  | .batch os => (batchStep st os).1

def run (st : St) (h : List Cmd) : St := h.foldl exec st

/-- shape of the rows the callers build, relative to the channel's committed tail `t`
    (pkg/cluster/node_meta.go groupUserChannelMembershipsByHashSlot,
    internal/runtime/persondirectory projectedMembership, internal/usecase/conversation):
    live join rows carry `ReadSeq = DeletedToSeq = t`, user mutations stay at or below `t`,
    rows are never deleted. -/
def shaped (t : Nat) : Op → Prop
  | .up _ nx => nx.read ≤ t ∧ nx.del ≤ t ∧ (nx.tomb = false → nx.read = t ∧ nx.del = t)
  | .en _ nx => nx.read = t ∧ nx.del = t
  | .rd _ v _ => v ≤ t
  | .hd _ v _ => v ≤ t
  | .dl _ => False
  | _ => True

/-- the `CursorBelowTail` invariant of DESIGN §8.3 -/
def below (t : Nat) (r : Option Row) : Prop := ∀ a, r = some a → a.read ≤ t ∧ a.del ≤ t

end WK.C16

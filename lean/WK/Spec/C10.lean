import WK.Model.C10
/-
  C10 — the property's predicates (executable judges; the theorems state the
  same predicates about the model functions).
-/
namespace WK.C10
open WK.C07

/-- every returned sequence is above the logical floor and at most the committed frontier -/
def readBoundsOK (seqs : List Nat) (floor committed : Nat) : Bool :=
  seqs.all (fun s => floor < s ∧ s ≤ committed)

/-- no recovery-barrier (SyncOnce) record is returned as an ordinary message -/
def noBarrier (seqs sync : List Nat) : Bool := seqs.all (fun s => !sync.contains s)

/-- progress of an ISR member as the commit rule (`AdvanceHW`) reads it: an
    unrecorded member has matched nothing -/
def strictMatch (st : RState) (node : Nat) : Nat :=
  if node = st.localNode then st.leo else (alookup node st.prog).getD 0

/-- what a physical trim through `t` must be covered by -/
def gateOK (st : RState) (t : Nat) : Bool :=
  t ≤ st.hw ∧ t ≤ st.ckhw ∧ t ≤ st.leo ∧ (st.role ≠ 2 ∨ st.isr.all (fun n => t ≤ strictMatch st n))

/-- as `gateOK`, but an ISR member without a progress entry is given the
    benefit the code gives it (its match is taken to be the retention boundary) -/
def gateOKRecorded (st : RState) (t : Nat) : Bool :=
  t ≤ st.hw ∧ t ≤ st.ckhw ∧ t ≤ st.leo ∧
    (st.role ≠ 2 ∨ st.isr.all (fun n => n ≠ st.localNode ∧ (alookup n st.prog).isNone ∨ t ≤ strictMatch st n))

end WK.C10

/-
  C41 — Stopping the send pipeline never drops accepted sends.

  Spec side: event alphabet of the stop/traffic log, the property clauses as executable
  predicates, and the judge run on every implementation log.  Core Lean only.
-/
namespace WK.C41

inductive Ev where
  | subBeg (t : Nat)          -- SubmitLocal call t begins
  | adm (t : Nat)             -- it was admitted (a Future was returned)
  | rej (t : Nat)             -- it was refused (ErrRouteNotReady / backpressure / …)
  | term (t : Nat) (k : Nat)  -- its future completed; k = 0 every item terminal and none cancelled,
                              -- 1 some item carries a cancellation, 2 wrong number of results
  | pending (t : Nat)         -- observed NOT terminal right after a Stop returned nil
  | lost (t : Nat)            -- never became terminal (20 s)
  | stopBeg (k : Nat)         -- Stop call k begins
  | stopSet                   -- MODEL ONLY: `stopping = true` under the write lock
  | stopRet (k : Nat) (r : Nat) -- Stop call k returned: 0 nil, 1 caller deadline, 2 did not return
  | gfeed (sid seq : Nat)     -- gateway: a SEND of session sid was fed (and admitted) before Server.Stop
  | ghandled (sid seq : Nat)  -- gateway: it reached the message usecase
  | gabandoned (sid seq : Nat) -- gateway: it never did (3 s after the handlers were released)
  | quiesceRet (n : Nat)      -- delivery: Quiesce returned nil while the ACK tracker held n pending RECVACKs (999 = error)
  | quiesceHung               -- delivery: Quiesce did not return (20 s after the RECVACK)
  | note                      -- verdict-neutral
  deriving DecidableEq, Repr, Inhabited

/-- after the stop began (model: the flag is set; log: some Stop call returned) nothing is admitted -/
def noAdmAfter (isStop : Ev → Bool) : Bool → List Ev → Bool
  | _, [] => true
  | seen, e :: r =>
    match e with
    | .adm _ => !seen && noAdmAfter isStop (seen || isStop e) r
    | _ => noAdmAfter isStop (seen || isStop e) r

/-- model form: no admission after `stopping` was set -/
def noAdmissionAfterStopSet (l : List Ev) : Bool :=
  noAdmAfter (fun e => e == .stopSet) false l

def isStopRet : Ev → Bool
  | .stopRet _ _ => true
  | _ => false

/-- observable form: a SubmitLocal that BEGAN after some Stop call returned is never admitted -/
def noAdmissionOfLateCalls (l : List Ev) : Bool :=
  let rec go : Bool → List Nat → List Ev → Bool
    | _, _, [] => true
    | seen, late, e :: r =>
      match e with
      | .subBeg t => go seen (if seen then t :: late else late) r
      | .adm t => !late.contains t && go seen late r
      | _ => go (seen || isStopRet e) late r
  go false [] l

def adms (l : List Ev) : List Nat := l.filterMap fun | .adm t => some t | _ => none
def terms (l : List Ev) : List Nat := l.filterMap fun | .term t _ => some t | _ => none

def isStopOk : Ev → Bool
  | .stopRet _ 0 => true
  | _ => false

/-- once a Stop call returned nil every admitted send had reached its terminal result -/
def allTerminalAtStop (l : List Ev) : Bool :=
  let pre := l.takeWhile fun e => !isStopOk e
  !l.any isStopOk || (adms l).all fun t => (terms pre).contains t

/-- no terminal result is a cancellation -/
def noCancellation (l : List Ev) : Bool :=
  l.all fun | .term _ 1 => false | _ => true

def judge (l : List Ev) : String :=
  if l.any (fun | .stopRet _ 2 => true | _ => false) then "viol:stop-hung"
  else if l.any (fun | .quiesceHung => true | _ => false) then "viol:quiesce-hung"
  else if l.any (fun | .quiesceRet n => n != 0 | _ => false) then "viol:quiesce-returned-with-pending-recvack"
  else if l.any (fun | .gabandoned _ _ => true | _ => false) then "viol:gateway-admitted-send-abandoned"
  else if !((l.filterMap fun | .gfeed a b => some (a, b) | _ => none).all fun x =>
      (l.filterMap fun | .ghandled a b => some (a, b) | _ => none).contains x) then "viol:gateway-admitted-send-abandoned"
  else if l.any (fun | .lost _ => true | _ => false) then "viol:accepted-send-without-terminal-result"
  else if l.any (fun | .term _ 2 => true | _ => false) then "viol:results-misaligned"
  else if !noCancellation l then "viol:accepted-send-cancelled-by-stop"
  else if !noAdmissionOfLateCalls l then "viol:admitted-after-stop"
  else if l.any (fun | .pending _ => true | _ => false) then "viol:stop-returned-before-terminal"
  else if !(decide (terms l).Nodup) then "viol:terminal-twice"
  else if !((adms l).all fun t => (terms l).contains t) then "viol:accepted-send-without-terminal-result"
  else "ok"

end WK.C41

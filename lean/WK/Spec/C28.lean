/-
  C28 — Every SEND gets exactly one SENDACK, in order.   Spec + judge (core only).

  The observable of one gateway run is a *trace* of linearisation-point events
  (harness/C28/c28.go logs them under one mutex; the Lean LTS in
  `WK/Model/C28.lean` emits the same alphabet):

    sub s n        the transport hands SEND with client seq n of session s to the gateway
    hand s n k     the message usecase receives that SEND (k = outcome the fake usecase will report)
    ack s n r m    a SENDACK (client seq n, reason code r, message id m) reaches the transport of s
    push s k       another outbound frame (k-th frame of a sequential writer) reaches the transport of s
    pushRet s k ok that writer's WriteFrame call returned
    closed s       the gateway closed the transport connection of s
    drainRet r     DrainSends returned (0 = nil, 1 = caller context expired, 2 = gateway already stopped)
    stopRet        Server.Stop returned
    snap s o       final snapshot: session s is still open (o) / closed

  `stepS s` is the per-session trace acceptor; `verdict` runs it for every
  session of the trace.  The properties themselves are the `Prop`s at the end;
  `WK/Theorems/C28.lean` proves acceptor ⇒ properties and LTS ⇒ properties.
-/
namespace WK.C28

inductive Ev where
  | opened (s : Nat)
  | sub (s n : Nat)
  | hand (s n k : Nat)
  | ack (s n r m : Nat) (noOk : Bool)
  | push (s k : Nat)
  | pushRet (s k : Nat) (ok : Bool)
  | pong (s : Nat)
  | other (s : Nat)
  | closed (s : Nat)
  | drainCall
  | drainRet (r : Nat)
  | stopCall
  | stopRet
  | snap (s : Nat) (isOpen : Bool)
  deriving Repr, DecidableEq

/-- SENDACK reason code (pkg/protocol/frame.ReasonCode) the access handler must
    produce for the fake usecase's outcome kind: `mapReason ∘ reasonForError`. -/
def expectedReason : Nat → Nat
  | 0 => 1    -- success
  | 1 => 5    -- ErrChannelNotFound      → ReasonChannelNotExist
  | 2 => 18   -- ErrNotLeader (wrapped)  → ReasonNodeNotMatch
  | 3 => 18   -- context.DeadlineExceeded→ ReasonNodeNotMatch
  | 4 => 15   -- other error             → ReasonSystemError
  | 5 => 11   -- Result.Reason NotAllowSend
  | 6 => 4    -- Result.Reason InBlacklist
  | 7 => 9    -- ErrInvalidCommand       → ReasonPayloadDecodeError
  | 8 => 15   -- context.Canceled        → ReasonSystemError
  | _ => 0

/-- message id the fake usecase assigns to (session, client seq) -/
def expectedMsgId (s n : Nat) : Nat := s * 100000 + n

structure Acc where
  sent : List Nat := []       -- client seqs handed to the gateway, in order
  kinds : List Nat := []      -- outcome kinds of the dispatched prefix
  hcnt : Nat := 0             -- how many of `sent` reached the usecase
  acnt : Nat := 0             -- how many of `sent` were acknowledged
  closed : Bool := false
  fence : Bool := false       -- some DrainSends / Stop call has returned
  lateFrom : Option Nat := none  -- index in `sent` of the first SEND handed over after the fence
  drainOk : Bool := false     -- DrainSends returned nil
  lastPush : Nat := 0
  deriving Repr

/-- the next SEND to be dispatched was handed over after the fence -/
def Acc.nextIsLate (a : Acc) : Bool :=
  match a.lateFrom with
  | some i => decide (i ≤ a.hcnt)
  | none => false

/-- one step of the per-session acceptor; `.error sig` = the property is violated -/
def stepS (s : Nat) (a : Acc) : Ev → Except String Acc
  | .sub s' n =>
    if s' ≠ s then .ok a else
    if a.sent.contains n then .error "bad-trace-duplicate-client-seq" else
    .ok { a with sent := a.sent ++ [n],
                 lateFrom := if a.fence ∧ a.lateFrom.isNone then some a.sent.length else a.lateFrom }
  | .hand s' n k =>
    if s' ≠ s then .ok a else
    if a.drainOk then .error "dispatch-after-drain-returned" else
    if a.sent[a.hcnt]? ≠ some n then .error "dispatch-out-of-order" else
    if a.nextIsLate then .error "dispatch-after-fence" else
    .ok { a with hcnt := a.hcnt + 1, kinds := a.kinds ++ [k] }
  | .ack s' n r m noOk =>
    if s' ≠ s then .ok a else
    if a.closed then .error "ack-after-close" else
    if a.drainOk then .error "ack-after-drain-returned" else
    if a.sent[a.acnt]? ≠ some n then
      (if (a.sent.take a.acnt).contains n then .error "ack-duplicate"
       else if a.sent.contains n then .error "ack-out-of-order" else .error "ack-unknown-seq") else
    if a.hcnt ≤ a.acnt then .error "ack-before-dispatch" else
    if a.kinds[a.acnt]?.map expectedReason ≠ some r ∨ m ≠ expectedMsgId s n ∨ noOk = false then .error "ack-mismatch" else
    .ok { a with acnt := a.acnt + 1 }
  | .push s' k =>
    if s' ≠ s then .ok a else
    if a.closed then .error "write-after-close" else
    if k ≤ a.lastPush then .error "outbound-order" else
    .ok { a with lastPush := k }
  | .pushRet s' k ok =>
    if s' ≠ s then .ok a else
    if ok ∧ a.lastPush ≠ k then .error "outbound-lost" else
    if ok = false ∧ k ≤ a.lastPush then .error "outbound-phantom" else
    .ok a
  | .pong s' => if s' = s ∧ a.closed then .error "write-after-close" else .ok a
  | .other s' => if s' = s ∧ a.closed then .error "write-after-close" else .ok a
  | .closed s' => if s' = s then .ok { a with closed := true } else .ok a
  | .drainRet r =>
    if r = 0 then .ok { a with fence := true, drainOk := true }
    else if r = 1 then .ok { a with fence := true }
    else .ok a
  | .stopRet => .ok { a with fence := true }
  | .snap s' o =>
    if s' ≠ s then .ok a else
    if o ∧ a.drainOk ∧ (a.acnt ≠ a.sent.length) then .error "ack-missing" else .ok a
  | .opened _ => .ok a
  | .drainCall => .ok a
  | .stopCall => .ok a

def runFrom (s : Nat) : Acc → List Ev → Except String Acc
  | a, [] => .ok a
  | a, e :: es => match stepS s a e with
    | .ok a' => runFrom s a' es
    | .error m => .error m

def runS (s : Nat) (tr : List Ev) : Except String Acc := runFrom s {} tr

def evSession : Ev → Option Nat
  | .opened s | .sub s _ | .hand s _ _ | .ack s _ _ _ _ | .push s _ | .pushRet s _ _
  | .pong s | .other s | .closed s | .snap s _ => some s
  | _ => none

def sessionsOf (tr : List Ev) : List Nat := (tr.filterMap evSession).eraseDups

/-- the judge: first violated session (smallest position in `sessionsOf`) or `ok` -/
def verdict (tr : List Ev) : String :=
  match (sessionsOf tr).findSome? (fun s => match runS s tr with | .error m => some m | .ok _ => none) with
  | some m => "viol:" ++ m
  | none => "ok"

def accepts (tr : List Ev) : Bool := (sessionsOf tr).all (fun s => (runS s tr).toBool)

/-! ### the property, as predicates on a trace -/

def sentOf (s : Nat) (tr : List Ev) : List Nat :=
  tr.filterMap (fun | .sub s' n => if s' = s then some n else none | _ => none)
def acksOf (s : Nat) (tr : List Ev) : List Nat :=
  tr.filterMap (fun | .ack s' n _ _ _ => if s' = s then some n else none | _ => none)
def handsOf (s : Nat) (tr : List Ev) : List Nat :=
  tr.filterMap (fun | .hand s' n _ => if s' = s then some n else none | _ => none)
def pushesOf (s : Nat) (tr : List Ev) : List Nat :=
  tr.filterMap (fun | .push s' k => if s' = s then some k else none | _ => none)

/-- every SENDACK sequence is a prefix of the SEND sequence (⇒ in order, none twice, none invented) -/
def AckOnceInOrder (s : Nat) (tr : List Ev) : Prop :=
  acksOf s tr <+: sentOf s tr ∧ (acksOf s tr).Nodup
/-- the frames of a sequential writer reach the transport in issue order -/
def OutboundOrder (s : Nat) (tr : List Ev) : Prop := (pushesOf s tr).Pairwise (· < ·)
/-- nothing is dispatched or acknowledged after `DrainSends` returned nil -/
def QuietAfterDrain (s : Nat) (tr : List Ev) : Prop :=
  ∀ pre post, tr = pre ++ Ev.drainRet 0 :: post → acksOf s post = [] ∧ handsOf s post = []
/-- a session that is still open after a completed drain got an ack for every SEND -/
def CompleteAfterDrain (s : Nat) (tr : List Ev) : Prop :=
  ∀ pre post, tr = pre ++ [Ev.snap s true] ++ post → Ev.drainRet 0 ∈ pre → acksOf s pre = sentOf s pre

/-! ### token parser (the harness' event syntax) -/

def natOf (s : String) : Option Nat := if s.isEmpty then none else s.toNat?

def parseEv (tok : String) : Option Ev :=
  if tok == "D0" then some .drainCall else
  if tok == "T0" then some .stopCall else
  if tok == "T1" then some .stopRet else
  if tok == "D1:ok" then some (.drainRet 0) else
  if tok == "D1:to" then some (.drainRet 1) else
  if tok == "D1:gone" then some (.drainRet 2) else
  let k := (tok.take 1).toString
  let parts := ((tok.drop 1).toString.splitOn ":")
  match k, parts with
  | "O", [s] => (natOf s).map .opened
  | "X", [s] => (natOf s).map .opened   -- the peer starts closing: informational
  | "S", [s, n] => do pure (.sub (← natOf s) (← natOf n))
  | "H", [s, n, k] => do pure (.hand (← natOf s) (← natOf n) (← natOf k))
  | "A", [s, n, r, m, no] => do
      let n' ← natOf n
      pure (.ack (← natOf s) n' (← natOf r) (← natOf m) (no == "m" ++ toString n'))
  | "V", [s, k] => do pure (.push (← natOf s) (← natOf k))
  | "J", [s, k, ok] => do pure (.pushRet (← natOf s) (← natOf k) ((← natOf ok) == 1))
  | "G", [s] => (natOf s).map .pong
  | "U", [s] => (natOf s).map .other
  | "C", [s] => (natOf s).map .closed
  | "Z", [s, o] => do pure (.snap (← natOf s) ((← natOf o) == 1))
  | _, _ => none

def parseTrace (line : String) : Option (List Ev) :=
  if line == "-" ∨ line == "" then some [] else
  ((line.splitOn " ").filter (· ≠ "")).mapM parseEv

end WK.C28

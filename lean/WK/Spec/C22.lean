import WK.Model.C22
/-
  C22 — spec: what "a frame whose fields are within protocol limits" means, which
  fields the wire format does not carry (`norm`), and the round-trip judge that
  the driver evaluates on the IMPLEMENTATION's output.  Core only.
-/
namespace WK.C22

def strOk (s : Bytes) : Prop := s.length ≤ maxInt16

instance (s : Bytes) : Decidable (strOk s) := by unfold strOk; infer_instance

def u8 (n : Nat) : Prop := n < 256
def u32 (n : Nat) : Prop := n < 4294967296
def u64 (n : Nat) : Prop := n < 18446744073709551616
/-- message sequence: u32 on the wire up to version 5, u64 afterwards -/
def seqOk (v n : Nat) : Prop := if v ≤ legacyMessageSeqVersion then u32 n else u64 n

instance (n : Nat) : Decidable (u8 n) := by unfold u8; infer_instance
instance (n : Nat) : Decidable (u32 n) := by unfold u32; infer_instance
instance (n : Nat) : Decidable (u64 n) := by unfold u64; infer_instance
instance (v n : Nat) : Decidable (seqOk v n) := by unfold seqOk; infer_instance

/-- Field-level protocol limits: every integer fits its Go type, `ClientSeq`
    (a uint64 in Go) fits the uint32 the wire carries, every string is at most
    math.MaxInt16 bytes, a SEND payload at most PayloadMaxSize, a legacy-version
    message sequence fits uint32. -/
def FieldsOk (v : Nat) : Frame → Prop
  | .connect _ p => u8 p.version ∧ u8 p.deviceFlag ∧ strOk p.deviceID ∧ strOk p.uid ∧ strOk p.token ∧
      u64 p.clientTimestamp ∧ strOk p.clientKey
  | .connack _ p => u8 p.serverVersion ∧ u64 p.timeDiff ∧ u8 p.reasonCode ∧ strOk p.serverKey ∧ strOk p.salt ∧
      u64 p.nodeId
  | .send _ p => u8 p.setting ∧ u32 p.clientSeq ∧ strOk p.clientMsgNo ∧ strOk p.streamNo ∧ strOk p.channelID ∧
      u8 p.channelType ∧ u32 p.expire ∧ strOk p.msgKey ∧ strOk p.topic ∧ p.payload.length ≤ payloadMaxSize
  | .sendack _ p => u64 p.messageID ∧ u32 p.clientSeq ∧ seqOk v p.messageSeq ∧ u8 p.reasonCode ∧ strOk p.clientMsgNo
  | .recv _ p => u8 p.setting ∧ strOk p.msgKey ∧ strOk p.fromUID ∧ strOk p.channelID ∧ u8 p.channelType ∧
      u32 p.expire ∧ strOk p.clientMsgNo ∧ u8 p.streamFlag ∧ strOk p.streamNo ∧ u64 p.streamId ∧
      u64 p.messageID ∧ seqOk v p.messageSeq ∧ u32 p.timestamp ∧ strOk p.topic
  | .recvack _ p => u64 p.messageID ∧ seqOk v p.messageSeq
  | .disconnect _ p => u8 p.reasonCode ∧ strOk p.reason
  | .sub _ p => u8 p.setting ∧ strOk p.subNo ∧ strOk p.channelID ∧ u8 p.channelType ∧ u8 p.action ∧ strOk p.param
  | .suback _ p => strOk p.subNo ∧ strOk p.channelID ∧ u8 p.channelType ∧ u8 p.action ∧ u8 p.reasonCode
  | .event _ p => strOk p.id ∧ strOk p.type ∧ u64 p.timestamp
  | .ping _ | .pong _ => True

instance (v : Nat) (f : Frame) : Decidable (FieldsOk v f) := by
  cases f <;> unfold FieldsOk <;> infer_instance

/-- "within protocol limits": field limits, and the whole body fits MaxRemaingLength
    (the decoder refuses longer frames). -/
def WithinLimits (v : Nat) (f : Frame) : Prop :=
  FieldsOk v f ∧ bodySize v f ≤ maxRemainingLength

instance (v : Nat) (f : Frame) : Decidable (WithinLimits v f) := by
  unfold WithinLimits; infer_instance

/-- header flags that survive the wire for ordinary frames: the four low bits;
    `HasServerVersion` and `End` are not encoded. -/
def normFlags (h : Flags) : Flags := { h with hsv := false, fin := false }

/-- CONNACK overloads the low nibble: only `HasServerVersion` is encoded, and the
    decoder sets BOTH `NoPersist` and `HasServerVersion` from bit 0. -/
def normConnackFlags (h : Flags) : Flags :=
  { noPersist := h.hsv, redDot := false, syncOnce := false, dup := false, hsv := h.hsv, fin := false }

/-- What decode∘encode yields: the identity except for fields the wire format of
    this version does not carry. -/
def norm (v : Nat) : Frame → Frame
  | .connect h p => .connect (normFlags h) p
  | .connack h p => .connack (normConnackFlags h)
      { p with serverVersion := if h.hsv then p.serverVersion else 0
               nodeId := if v ≥ 4 then p.nodeId else 0 }
  | .send h p => .send (normFlags h)
      { p with streamNo := if streamOn v p.setting then p.streamNo else []
               expire := if v ≥ 3 then p.expire else 0
               topic := if topicOn p.setting then p.topic else [] }
  | .sendack h p => .sendack (normFlags h) p
  | .recv h p => .recv (normFlags h)
      { p with expire := if v ≥ 3 then p.expire else 0
               streamFlag := if streamOn v p.setting then p.streamFlag else 0
               streamNo := if streamOn v p.setting then p.streamNo else []
               streamId := if streamOn v p.setting then p.streamId else 0
               topic := if topicOn p.setting then p.topic else [] }
  | .recvack h p => .recvack (normFlags h) p
  | .ping _ => .ping {}
  | .pong _ => .pong {}
  | .disconnect h p => .disconnect (normFlags h) p
  | .sub h p => .sub (normFlags h) p
  | .suback h p => .suback (normFlags h) p
  | .event h p => .event (normFlags h) p

/-- A frame that uses only what its version's wire format carries; for such a
    frame `norm` is the identity (`c22_norm_id`). -/
def Canonical (v : Nat) (f : Frame) : Prop := norm v f = f

instance (v : Nat) (f : Frame) : Decidable (Canonical v f) := by unfold Canonical; infer_instance

end WK.C22

import WK.Model.C26
import WK.Gen.C26
/-
  C26 — spec and judges.  Core only.

  Part 1 (header).  `Valid` is the documented contract of a transport header:
  Go field widths, kind ∈ 1..5 (Data, Notify, RPCRequest, RPCResponse, Control),
  priority ∈ 1..4 (Raft, Control, RPC, Bulk), declared body length within the
  receiver's non-negative limit.  The ranges are written out here by hand; the
  theorem `c26_valid_ranges` ties the regenerated `kindValid/priorityValid` to
  them, so a weakened or tightened guard in the code breaks a proof.
-/
namespace WK.C26
open WK.Gen.C26

def kindOK (k : Nat) : Bool := decide (1 ≤ k) && decide (k ≤ 5)
def priorityOK (p : Nat) : Bool := decide (1 ≤ p) && decide (p ≤ 4)

/-- a header every receiver with limit `max` must accept -/
def Valid (h : Header) (max : Int) : Prop :=
  h.WF ∧ kindOK h.kind = true ∧ priorityOK h.priority = true ∧ 0 ≤ max ∧ (h.bodyLen : Int) ≤ max

instance (h : Header) (max : Int) : Decidable (Valid h max) := by unfold Valid; exact inferInstance

/-- canonical form: `bs` starts with the encoding of the valid header `h` -/
def acceptable (bs : Bytes) (h : Header) (max : Int) : Bool :=
  decide (Valid h max) && decide (HeaderSize ≤ bs.length) && (bs.take HeaderSize == encodeHeader h)

/-! ### frame level (reader.go / writer.go), hand model, D-tied -/

inductive RErr
  | eof            -- io.EOF: stream ended before the first byte of a read
  | short          -- io.ErrUnexpectedEOF
  | hdr (e : Err)  -- DecodeHeader's error
  deriving DecidableEq, Repr

def RErr.str : RErr → String
  | .eof => "err:eof"
  | .short => "err:short"
  | .hdr e => e.str

/-- result of ReadFrame, bytes taken from the stream, size of the body buffer requested -/
structure RFOut where
  res : Except RErr (Header × Bytes)
  consumed : Nat
  alloc : Nat

/-- `wire.ReadFrame` over a stream that ends after `s` (io.ReadFull semantics). -/
def readFrame (s : Bytes) (max : Int) : RFOut :=
  if s.length = 0 then ⟨.error .eof, 0, 0⟩ else
  if s.length < HeaderSize then ⟨.error .short, s.length, 0⟩ else
  match decodeHeader (s.take HeaderSize) max with
  | .error e => ⟨.error (.hdr e), HeaderSize, 0⟩
  | .ok h =>
    let rest := s.drop HeaderSize
    if h.bodyLen = 0 then ⟨.ok (h, []), HeaderSize, 0⟩ else
    if rest.length = 0 then ⟨.error .eof, HeaderSize, h.bodyLen⟩ else
    if rest.length < h.bodyLen then ⟨.error .short, s.length, h.bodyLen⟩ else
    ⟨.ok (h, rest.take h.bodyLen), HeaderSize + h.bodyLen, h.bodyLen⟩

/-- `wire.AppendFrame` (+ the single write of WriteFrame): the bytes put on the wire -/
def writeFrame (h : Header) (body : Bytes) (max : Int) : Except Err Bytes :=
  if (body.length : Int) > max then .error .msgTooLarge else
  if body.length > 4294967295 then .error .msgTooLarge else
  let h' : Header := { h with bodyLen := body.length }
  if !(kindValid h'.kind) then .error .invalidFrame else
  if !(priorityValid h'.priority) then .error .invalidPriority else
  if bodyExceedsMax h'.bodyLen max then .error .msgTooLarge else
  .ok (encodeHeader h' ++ body)

end WK.C26

import WK.Model.C26
import WK.Gen.C26
/-
  C26 — spec and judges.  Core only.

  Part 1 (header).  `Valid` is the documented contract of a transport header:
  Go field widths, kind ∈ 1..5 (Data, Notify, RPCRequest, RPCResponse, Control),
  priority ∈ 1..4 (Raft, Control, RPC, Bulk), declared body length within the
  receiver's non-negative limit.  The ranges are written out here by hand; the
  theorem `c26_valid_ranges` ties the regenerated `kindValid/priorityValid` to
  them, so a weakened or tightened guard in the code breaks a proof.
-/
namespace WK.C26
open WK.Gen.C26

def kindOK (k : Nat) : Bool := decide (1 ≤ k) && decide (k ≤ 5)
def priorityOK (p : Nat) : Bool := decide (1 ≤ p) && decide (p ≤ 4)

/-- a header every receiver with limit `max` must accept -/
def Valid (h : Header) (max : Int) : Prop :=
  h.WF ∧ kindOK h.kind = true ∧ priorityOK h.priority = true ∧ 0 ≤ max ∧ (h.bodyLen : Int) ≤ max

instance (h : Header) (max : Int) : Decidable (Valid h max) := by unfold Valid; exact inferInstance

/-- canonical form: `bs` starts with the encoding of the valid header `h` -/
def acceptable (bs : Bytes) (h : Header) (max : Int) : Bool :=
  decide (Valid h max) && decide (HeaderSize ≤ bs.length) && (bs.take HeaderSize == encodeHeader h)

def kvNat (key tok : String) : Option Nat :=
  if tok.startsWith (key ++ "=") then (tok.drop (key.length + 1)).toString.toNat? else none

/-! ### frame level (reader.go / writer.go), hand model, D-tied -/

inductive RErr
  | eof            -- io.EOF: stream ended before the first byte of a read
  | short          -- io.ErrUnexpectedEOF
  | hdr (e : Err)  -- DecodeHeader's error
  deriving DecidableEq, Repr

def RErr.str : RErr → String
  | .eof => "err:eof"
  | .short => "err:short"
  | .hdr e => e.str

/-- result of ReadFrame, bytes taken from the stream, size of the body buffer requested -/
structure RFOut where
  res : Except RErr (Header × Bytes)
  consumed : Nat
  alloc : Nat

/-- `wire.ReadFrame` over a stream that ends after `s` (io.ReadFull semantics). -/
def readFrame (s : Bytes) (max : Int) : RFOut :=
  if s.length = 0 then ⟨.error .eof, 0, 0⟩ else
  if s.length < HeaderSize then ⟨.error .short, s.length, 0⟩ else
  match decodeHeader (s.take HeaderSize) max with
  | .error e => ⟨.error (.hdr e), HeaderSize, 0⟩
  | .ok h =>
    let rest := s.drop HeaderSize
    if h.bodyLen = 0 then ⟨.ok (h, []), HeaderSize, 0⟩ else
    if rest.length = 0 then ⟨.error .eof, HeaderSize, h.bodyLen⟩ else
    if rest.length < h.bodyLen then ⟨.error .short, s.length, h.bodyLen⟩ else
    ⟨.ok (h, rest.take h.bodyLen), HeaderSize + h.bodyLen, h.bodyLen⟩

/-- `wire.AppendFrame` (+ the single write of WriteFrame): the bytes put on the wire -/
def writeFrame (h : Header) (body : Bytes) (max : Int) : Except Err Bytes :=
  if (body.length : Int) > max then .error .msgTooLarge else
  if body.length > 4294967295 then .error .msgTooLarge else
  let h' : Header := { h with bodyLen := body.length }
  if !(kindValid h'.kind) then .error .invalidFrame else
  if !(priorityValid h'.priority) then .error .invalidPriority else
  if bodyExceedsMax h'.bodyLen max then .error .msgTooLarge else
  .ok (encodeHeader h' ++ body)

/-! ### Part 2 — trace acceptor for one concurrent PendingTable scenario

  The harness reports, for every caller, what it finally observed (facts established after all
  completer / canceller / FailAll goroutines have returned — nothing depends on timing):
    c<id>=<outcome>/<number of Complete(id) calls that returned true>/<their nonces>/<phase>
  The acceptor is the property itself on those observations:
    own_response       a delivered response carries the caller's own id and the nonce of THE
                       Complete(id) call that reported success
    at_most_one        no second message ever shows up in a caller's channel; at most one
                       Complete(id) reports success
    fail_all_terminal  after FailAll every caller that was not served and did not give up holds
                       one of the FailAll errors, callers that stored after a FailAll returned all
                       hold the same (first) error, and the table is empty
    no loss            a successful Complete(id) is observed by the caller unless it gave up
-/

structure CallerObs where
  id : Nat
  outcome : String      -- r<tag>.<nonce> | e1 | e2 | 0 | x | x+<late>
  trueCompletes : Nat
  nonces : List Nat
  phase : String
  deriving Repr

def parseResp (s : String) : Option (Nat × Nat) :=
  if s.startsWith "r" then
    match ((s.drop 1).toString.splitOn ".").map String.toNat? with
    | [some t, some n] => some (t, n)
    | _ => none
  else none

def parseCaller (tok : String) : Option CallerObs :=
  match tok.splitOn "=" with
  | [cid, rest] =>
    if !cid.startsWith "c" then none else
    match (cid.drop 1).toString.toNat?, rest.splitOn "/" with
    | some id, [out, k, ns, ph] =>
      match k.toNat? with
      | some k =>
        let nonces := if ns == "-" then some [] else (ns.splitOn ",").mapM String.toNat?
        nonces.map (fun ns => ⟨id, out, k, ns, ph⟩)
      | none => none
    | _, _ => none
  | _ => none

def isErr (s : String) : Bool := s == "e1" || s == "e2"

/-- verdict for one caller given whether any FailAll ran -/
def judgeCaller (fa : Nat) (o : CallerObs) : String :=
  if (o.outcome.splitOn "+dup").length > 1 then "viol:second-response-delivered" else
  if o.trueCompletes > 1 || o.nonces.length != o.trueCompletes then "viol:complete-succeeded-twice" else
  let gaveUp := o.outcome.startsWith "x"
  let late := if o.outcome.startsWith "x+" then (o.outcome.drop 2).toString else ""
  let seen := if gaveUp then late else o.outcome      -- what was delivered to the channel ("" / "0" = nothing)
  -- own_response
  match parseResp seen with
  | some (tag, nonce) =>
    if tag != o.id then "viol:foreign-response" else
    if o.nonces != [nonce] then "viol:response-without-successful-complete" else "ok"
  | none =>
    if seen.startsWith "r" then "viol:unparseable-output" else
    if isErr seen then
      (if fa == 0 then "viol:error-without-failall" else
       if o.trueCompletes != 0 then "viol:completed-response-lost" else "ok")
    else if seen == "e?" then "viol:unknown-error-delivered"
    else if seen == "" || seen == "0" then
      -- nothing was delivered
      if o.trueCompletes != 0 then "viol:completed-response-lost"
      else if gaveUp then "ok"
      else if fa != 0 then "viol:failall-left-caller-without-error"
      else "ok"
    else "viol:unparseable-output"

def judgePend (impl : String) : String :=
  match fields impl with
  | lenTok :: faTok :: callers =>
    match kvNat "len" lenTok, kvNat "fa" faTok, callers.mapM parseCaller with
    | some len, some fa, some obs =>
      match (obs.map (judgeCaller fa)).find? (· != "ok") with
      | some v => v
      | none =>
        -- callers that stored after a FailAll had returned all see the same closeErr
        let after := (obs.filter (fun o => o.phase == "a" && isErr o.outcome)).map (·.outcome)
        if after.any (fun e => some e != after.head?) then "viol:close-error-not-stable" else
        -- table size at the end: 0 after FailAll, otherwise the callers still waiting with an entry
        let waiting := (obs.filter (fun o => o.outcome == "0")).length
        if fa != 0 && len != 0 then "viol:failall-left-entries"
        else if fa == 0 && len != waiting then "viol:table-size-mismatch"
        else "ok"
    | _, _, _ => "viol:unparseable-output"
  | _ => "viol:unparseable-output"

/-- end-to-end scenario over the real client/server: every call returned exactly once, and no call
    saw a payload or a remote failure that belongs to another call -/
def judgeE2E (impl : String) : String :=
  let toks := fields impl
  let get (k : String) : Option Nat := toks.findSome? (kvNat k)
  match get "calls", get "returned", get "foreign" with
  | some c, some r, some f =>
    if f != 0 then "viol:foreign-response"
    else if r != c then "viol:call-returned-not-exactly-once"
    else "ok"
  | _, _, _ => if impl == "setup-failed" then "ok" else "viol:unparseable-output"

end WK.C26

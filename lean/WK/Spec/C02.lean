import WK.Model.ReplJudge
/-
  C02 — replica logs agree on every committed offset.

  Judge, after every op, on every voter's store as the implementation reports it:
   * the log is an unbroken predecessor chain and LEO = number of entries
     (`viol:chain-broken`, `viol:leo-mismatch`, `viol:store-unreadable`);
   * committed ≤ LEO and committed never moves backwards
     (`viol:committed-gt-leo`, `viol:committed-regressed`);
   * a committed watermark only ever moves over entries an owner already declared quorum-durable
     (receipt / successful install / earlier watermark), or — during an install — over entries
     ≥ q voters hold (`viol:committed-covers-unacknowledged-entry`, `…-entry-without-quorum`);
   * any two voters hold the same identity at every offset ≤ both committed
     watermarks (`viol:committed-disagree`, with the suffix
     `:responder-holders-lt-quorum` when one of the two entries was dropped by a
     DESIGN §8.1 install earlier in the history).
-/
namespace WK.C02
open WK WK.Repl

def chainFrom : Nat → Nat → List EObs → Bool
  | _, _, [] => true
  | pt, pd, e :: es => e.prevTerm == pt && e.prevDig == pd && e.dig != 0 && e.dig != pd && chainFrom e.a.term e.dig es

def storeVerdict (prev cur : SObs) : String :=
  if !cur.ok then "viol:store-unreadable"
  else if cur.entries.length ≠ cur.leo then "viol:leo-mismatch"
  else if cur.hw > cur.leo then "viol:committed-gt-leo"
  else if prev.ok ∧ cur.hw < prev.hw then "viol:committed-regressed"
  else if !chainFrom 0 0 cur.entries then "viol:chain-broken"
  else "ok"

def firstBad : List String → String
  | [] => "ok"
  | v :: vs => if v == "ok" then firstBad vs else v

/-- first offset ≤ both committed watermarks with different identities -/
def disagreeAt (a b : SObs) : Nat → Nat → Option (Nat × Nat × Nat)
  | _, 0 => none
  | i, k + 1 =>
    match a.entry i, b.entry i with
    | some x, some y => if x.dig == y.dig then disagreeAt a b (i + 1) k else some (i, x.dig, y.dig)
    | _, _ => some (i, 0, 0)

def pairVerdict (j : JState) (cur : Obs) (v w : Nat) : String :=
  let a := cur.store v
  let b := cur.store w
  match disagreeAt a b 1 (min a.hw b.hw) with
  | none => "ok"
  | some (i, x, y) =>
    if j.taintedAt i x ∨ j.taintedAt i y then "viol:committed-disagree:" ++ knownSuffix else "viol:committed-disagree"

/-- entries of voter `v` that its committed watermark covers now and did not cover (with this
    identity) before the op -/
def newlyCovered (prev cur : SObs) : List (Nat × Nat) :=
  ((List.range cur.hw).map (· + 1)).filterMap (fun idx =>
    match cur.entry idx with
    | some e => if idx ≤ prev.hw && prev.holds idx e.dig then none else some (idx, e.dig)
    | none => none)

/-- a committed watermark may only move over entries some owner already declared quorum-durable
    (a receipt, a successful install, an earlier watermark); during an install — whose repair and
    barrier commit the selected prefix — over entries that ≥ q voters hold -/
def coverVerdict (j : JState) (op : Op) (cur : Obs) (v : Nat) : String :=
  let fresh := newlyCovered (j.prev.store v) (cur.store v)
  match op with
  | .cfg .. => "ok"
  | .install _ a _ _ =>
    if fresh.all (fun x => decide ((cur.holders j.n x.1 x.2).length ≥ a.q)) then "ok"
    else "viol:committed-covers-entry-without-quorum"
  | _ =>
    if fresh.all (fun x => j.committed.any (fun r => r.idx == x.1 && r.dig == x.2)) then "ok"
    else "viol:committed-covers-unacknowledged-entry"

def allPairs : List Nat → List (Nat × Nat)
  | [] => []
  | v :: vs => vs.map (fun w => (v, w)) ++ allPairs vs

def judge (j : JState) (op : Op) (cur : Obs) : String :=
  let fresh := match op with
    | .cfg .. => true
    | _ => false
  let sv := (votersUpTo cur.stores.length).map (fun v =>
    storeVerdict (if fresh then {} else j.prev.store v) (cur.store v))
  let cv := (votersUpTo cur.stores.length).map (coverVerdict j op cur)
  match firstBad (sv ++ cv) with
  | "ok" =>
    -- taint of this very op counts (the dropping install may be the one that exposes nothing yet)
    let j' := j.update op cur
    let pv := (allPairs (votersUpTo cur.stores.length)).map (fun p => pairVerdict j' cur p.1 p.2)
    -- unknown-class disagreements are reported before known-class ones
    if pv.any (· == "viol:committed-disagree") then "viol:committed-disagree" else firstBad pv
  | v => v

end WK.C02

/-
  C39 — Hash-slot migration neither loses nor duplicates metadata writes.
  Spec: key/value view of the metadata of the migrating hash slot, deltas, and
  the judge predicates.  `applyOne` is abstracted to "put key value" (class PA):
  the harness drives UpsertUser commands, whose effect on the store is exactly
  that; the properties below do not depend on what a put means beyond
  last-writer-wins per key.  Core only.
-/
namespace WK.C39

abbrev KV := List (Nat × Nat)

def put (k v : Nat) (m : KV) : KV := (k, v) :: m.filter (fun p => p.1 != k)

def get (m : KV) (k : Nat) : Option Nat := (m.find? (fun p => p.1 == k)).map (·.2)

def putAll (ws : List (Nat × Nat)) (m : KV) : KV := ws.foldl (fun acc w => put w.1 w.2 acc) m

/-- a forwarded source command: the source log index and the write (`none` = the fence marker) -/
structure Delta where
  idx : Nat
  cmd : Option (Nat × Nat)
deriving DecidableEq, Repr

/-- two stores agree on every key in `keys` -/
def sameOn (keys : List Nat) (a b : KV) : Bool := keys.all (fun k => get a k == get b k)

end WK.C39

import WK.Model.C30
/-
  C30 — judge predicates on what the real allocator returned, and the
  sequential trace acceptor that runs the generated instruction lists.  Core only.
-/
namespace WK.C30
open WK.Gen.C30

/-- one observed call of a concurrent burst; start/end are ticks of one global atomic counter -/
structure Ev where
  isNext : Bool
  g : Nat
  start : Nat
  stop : Nat
  val : Nat
  ok : Bool
  deriving Repr

/-- the property on one concurrent burst, given the largest id and acknowledged floor before it:
    ids distinct; per goroutine increasing; an id returned before another call started is smaller;
    an id is above every floor acknowledged before its call started. -/
def judgeBurst (maxId maxAck : Nat) (evs : List Ev) : String :=
  let ns := evs.filter (·.isNext)
  let fs := evs.filter (fun e => !e.isNext && e.ok)
  if ns.any (fun b => decide (b.val ≤ maxId)) then "viol:id-not-above-earlier-id"
  else if ns.any (fun b => decide (b.val ≤ maxAck)) then "viol:id-at-or-below-floor"
  else if ns.any (fun b => ns.any (fun a => (a.start != b.start) && a.val == b.val)) then "viol:duplicate-id"
  else if ns.any (fun b => ns.any (fun a => a.g == b.g && decide (a.start < b.start) && decide (b.val ≤ a.val))) then
    "viol:not-increasing-per-caller"
  else if ns.any (fun b => ns.any (fun a => decide (a.stop < b.start) && decide (b.val ≤ a.val))) then
    "viol:not-increasing-in-real-time"
  else if ns.any (fun b => fs.any (fun f => decide (f.stop < b.start) && decide (b.val ≤ f.val))) then
    "viol:id-at-or-below-floor"
  else "ok"

/-- run ONE thread of the generated program to completion against a private floor; `gens` is the
    generator stream (the acceptor derives it from the observed result).  `none` = the program
    asked for more generator values than the observation explains, or ran out of fuel. -/
def runSeq (prog : List Instr) : Nat → Nat → Thread → List Nat → Option (Ret × Nat)
  | 0, _, _, _ => none
  | fuel + 1, floor, t, gens =>
    let needsGen := match prog[t.pc]? with
      | some (.gen _) => true
      | _ => false
    match needsGen, gens with
    | true, [] => none
    | _, _ =>
      let g := gens.headD 0
      let gens' := if needsGen then gens.tail else gens
      match exec prog floor t g with
      | none => none
      | some (fl', t', .ret r) => let _ := t'; some (r, fl')
      | some (fl', t', _) => runSeq prog fuel fl' t' gens'

end WK.C30

import WK.Prelude.Hex
/-
  C14 — spec.  Core only.

  * the data the Raft storage API talks about (hard state, entries, snapshot,
    derived membership) and the entry-size function `Entries(maxSize)` uses;
  * `RaftStore` = the REFERENCE Raft storage (it mirrors `pkg/raftlog/memory.go`
    statement for statement) with `save` (append overwriting a conflicting
    suffix, snapshot install = compaction), `replaceSnapshot`, `markApplied`,
    and the read API both with the Go return conventions (`termGo` = 0 for an
    index it does not hold) and with raft's error conventions
    (`term? : Except RaftErr Nat`, `ErrCompacted` / `ErrUnavailable`);
  * `Valid…` : what a Raft-valid mutation is (the quantifier of the property);
  * the judge predicates evaluated on a read-API dump of the implementation.
-/
namespace WK.C14

def maxU64 : Nat := 18446744073709551615

structure Hard where
  term : Nat
  vote : Nat
  commit : Nat
deriving DecidableEq, Repr, Inhabited

/-- entry payload: a normal command (opaque bytes) or a V1 ConfChange (type, node) -/
inductive Payload where
  | normal (b : Bytes)
  | cc (ty node : Nat)
deriving DecidableEq, Repr, Inhabited

structure Entry where
  index : Nat
  term : Nat
  pl : Payload
deriving DecidableEq, Repr, Inhabited

/-- raftpb.ConfState restricted to voters/learners (no joint configs are generated) -/
structure Conf where
  voters : List Nat
  learners : List Nat
deriving DecidableEq, Repr, Inhabited

def Conf.zero : Conf := ⟨[], []⟩
def Conf.isZero (c : Conf) : Bool := c.voters.isEmpty && c.learners.isEmpty

structure Snap where
  index : Nat
  term : Nat
  conf : Conf
  data : Bytes
deriving DecidableEq, Repr, Inhabited

def Snap.none : Snap := ⟨0, 0, Conf.zero, []⟩

/-! ### protobuf sizes (`raftpb.Entry.Size`) -/

/-- number of base-128 digits, `sovRaft` -/
def sov (x : Nat) : Nat := (Nat.log2 (x ||| 1) + 7) / 7

def Payload.dataLen : Payload → Nat
  | .normal b => b.length
  | .cc ty node => 2 + (1 + sov ty) + (1 + sov node)

def Payload.tyNum : Payload → Nat
  | .normal _ => 0
  | .cc _ _ => 1

def Entry.size (e : Entry) : Nat :=
  let l := e.pl.dataLen
  (1 + sov e.pl.tyNum) + (1 + sov e.term) + (1 + sov e.index) + (if l = 0 then 0 else 1 + l + sov l)

/-- the `maxSize` loop shared by both stores' `Entries` -/
def limitGo (max : Nat) : Nat → Bool → List Entry → List Entry
  | _, _, [] => []
  | size, nonEmpty, e :: es =>
    if max > 0 ∧ nonEmpty ∧ size + e.size > max then []
    else e :: limitGo max (size + e.size) true es

def limitSize (max : Nat) (es : List Entry) : List Entry := limitGo max 0 false es

/-! ### membership derivation (`deriveConfState`, etcd confchange for simple changes) -/

def sins (x : Nat) : List Nat → List Nat
  | [] => [x]
  | y :: ys => if x < y then x :: y :: ys else if x = y then y :: ys else y :: sins x ys

/-- `confchange.Changer.Simple` for one `ConfChangeSingle` on a non-joint config;
    `none` = error ("removed all voters" / "unexpected conf type") -/
def applyCC (c : Conf) (ty node : Nat) : Option Conf :=
  let c' : Option Conf :=
    if node = 0 then some c else
    match ty with
    | 0 => some ⟨sins node c.voters, c.learners.erase node⟩
    | 1 => some ⟨c.voters.erase node, c.learners.erase node⟩
    | 2 => some c
    | 3 => if c.learners.contains node then some c
           else some ⟨c.voters.erase node, sins node c.learners⟩
    | _ => none
  match c' with
  | some c' => if c'.voters.isEmpty then none else some c'
  | none => none

/-- `confchange.Restore` of a non-joint ConfState: AddNode each voter, then AddLearnerNode each learner -/
def restoreConf (raw : Conf) : Option Conf :=
  (raw.voters.map (fun v => ((0 : Nat), v)) ++ raw.learners.map (fun l => ((3 : Nat), l))).foldl
    (fun (acc : Option Conf) (p : Nat × Nat) => acc.bind (fun c => applyCC c p.1 p.2)) (some Conf.zero)

def deriveFold (lastIndex committed : Nat) : Option Conf → List Entry → Option Conf
  | acc, [] => acc
  | acc, e :: es =>
    if e.index ≤ lastIndex ∨ e.index > committed then deriveFold lastIndex committed acc es
    else match e.pl with
      | .cc ty node => deriveFold lastIndex committed (acc.bind (fun c => applyCC c ty node)) es
      | .normal _ => deriveFold lastIndex committed acc es

/-- `deriveConfState(snapshot, entries, committed)`; only `snapIndex`/`snapConf` of the snapshot matter -/
def deriveConf (snapIndex : Nat) (snapConf : Conf) (entries : List Entry) (committed : Nat) : Option Conf :=
  let base := if snapIndex ≠ 0 then snapConf else Conf.zero
  let lastIndex := if snapIndex ≠ 0 then snapIndex else 0
  let c0 := if base.isZero then some Conf.zero else restoreConf base
  let committed := if committed < lastIndex then lastIndex else committed
  deriveFold lastIndex committed c0 entries

/-! ### the reference store (mirrors memory.go) -/

structure RaftStore where
  hard : Hard := ⟨0, 0, 0⟩
  entries : List Entry := []
  snapshot : Snap := Snap.none
  applied : Nat := 0
  confApplied : Nat := 0
deriving Repr, Inhabited

/-- `replaceEntriesFromIndex` -/
def replaceFrom (existing : List Entry) (first : Nat) (incoming : List Entry) : List Entry :=
  existing.takeWhile (fun e => e.index < first) ++ incoming

/-- `trimEntriesAfterSnapshot` -/
def trimAfter (existing : List Entry) (snapIndex : Nat) : List Entry :=
  existing.filter (fun e => ¬ e.index ≤ snapIndex)

def RaftStore.save (m : RaftStore) (hs : Option Hard) (snap : Option Snap) (ents : List Entry) : RaftStore :=
  let m := match hs with
    | some h => { m with hard := h }
    | none => m
  let m := match snap with
    | some s =>
      let m := { m with snapshot := s, entries := trimAfter m.entries s.index }
      if m.hard.commit < s.index then { m with hard := { m.hard with commit := s.index } } else m
    | none => m
  match ents with
  | [] => m
  | e :: _ => { m with entries := replaceFrom m.entries e.index ents }

def RaftStore.markApplied (m : RaftStore) (i : Nat) : RaftStore := { m with applied := i }
def RaftStore.markConfApplied (m : RaftStore) (i : Nat) : RaftStore := { m with confApplied := i }

/-- the reference meaning of `ReplaceSnapshot` (memory.go has none): the guard
    of pebble_store.go, then an ordinary snapshot install. `none` = refused. -/
def RaftStore.replaceSnapshot (m : RaftStore) (s : Snap) : Option RaftStore :=
  if s.index = 0 ∨ s.index ≠ m.applied then none
  else if s.term = 0 then none
  else if s.index < m.snapshot.index then none
  else some (m.save none (some s) [])

def RaftStore.firstIndex (m : RaftStore) : Nat :=
  match m.entries with
  | e :: _ => e.index
  | [] => if m.snapshot.index ≠ 0 then (m.snapshot.index + 1) % (maxU64 + 1) else 1

def RaftStore.lastIndex (m : RaftStore) : Nat :=
  match m.entries.getLast? with
  | some e => e.index
  | none => m.snapshot.index

def RaftStore.termGo (m : RaftStore) (i : Nat) : Nat :=
  match m.entries.find? (fun e => e.index = i) with
  | some e => e.term
  | none => if m.snapshot.index = i then m.snapshot.term else 0

def RaftStore.entriesGo (m : RaftStore) (lo hi max : Nat) : List Entry :=
  limitSize max (m.entries.filter (fun e => ¬ (e.index < lo ∨ e.index ≥ hi)))

def RaftStore.conf (m : RaftStore) : Option Conf :=
  deriveConf m.snapshot.index m.snapshot.conf m.entries m.hard.commit

/-! ### raft's error conventions on top of the reference store -/

inductive RaftErr where
  | compacted
  | unavailable
deriving DecidableEq, Repr

/-- raft `Storage.Term`: defined exactly on `[firstIndex-1, lastIndex]` -/
def RaftStore.term? (m : RaftStore) (i : Nat) : Except RaftErr Nat :=
  if i + 1 < m.firstIndex then .error .compacted
  else if i > m.lastIndex then .error .unavailable
  else .ok (m.termGo i)

/-- raft `Storage.Entries(lo,hi)` -/
def RaftStore.entries? (m : RaftStore) (lo hi : Nat) : Except RaftErr (List Entry) :=
  if lo < m.firstIndex then .error .compacted
  else if hi > m.lastIndex + 1 then .error .unavailable
  else .ok (m.entriesGo lo hi 0)

/-! ### Raft-valid mutations -/

def sortedStrict : List Nat → Bool
  | [] => true
  | [_] => true
  | a :: b :: r => a < b && sortedStrict (b :: r)

/-- ConfState as etcd/raft produces it: sorted, duplicate free, voters/learners
    disjoint, no learner-only config, no node 0 -/
def Conf.canonical (c : Conf) : Bool :=
  sortedStrict c.voters && sortedStrict c.learners &&
  c.learners.all (fun l => !c.voters.contains l) &&
  (!c.voters.isEmpty || c.learners.isEmpty) &&
  !c.voters.contains 0 && !c.learners.contains 0

def consecutiveFrom : Nat → List Entry → Bool
  | _, [] => true
  | i, e :: es => e.index == i && consecutiveFrom (i + 1) es

def validSnap (m : RaftStore) (s : Snap) : Bool :=
  (m.snapshot.index < s.index || (s.index ≠ 0 && s == m.snapshot)) &&
  s.index < maxU64 && 1 ≤ s.term && s.conf.canonical

/-- entries of one Save: consecutive indices, terms ≥ 1, start in
    `(snapshotIndex, lastIndex+1]` of the store they are applied to -/
def validEnts (m : RaftStore) (ents : List Entry) : Bool :=
  match ents with
  | [] => true
  | e :: _ =>
    consecutiveFrom e.index ents && ents.all (fun x => 1 ≤ x.term) &&
    m.snapshot.index < e.index && e.index ≤ m.lastIndex + 1 &&
    e.index + ents.length < maxU64

/-- a Raft-valid `Save` -/
def validSave (m : RaftStore) (hs : Option Hard) (snap : Option Snap) (ents : List Entry) : Bool :=
  (match snap with
   | some s => validSnap m s
   | none => true) &&
  validEnts (m.save hs snap []) ents &&
  (m.save hs snap ents).conf.isSome

def validReplace (m : RaftStore) (s : Snap) : Bool :=
  s.index ≠ 0 && s.index == m.applied && m.snapshot.index ≤ s.index && s.index < maxU64 &&
  1 ≤ s.term && s.conf.canonical && (m.save none (some s) []).conf.isSome

/-! ### the read-API dump both sides print, and the judge predicates on it -/

structure Reads where
  init : Option (Hard × Conf × Nat × Nat)     -- none = error
  first : Option Nat
  last : Option Nat
  snap : Option Snap
  ents : Option (List Entry)                  -- Entries(0, 2^64-1, 0)
  termLo : Nat
  terms : Option (List Nat)                   -- Term(termLo), Term(termLo+1), …
deriving Repr, Inhabited

def termWindow (first last : Nat) : Nat × Nat :=
  let lo := first - 2
  let hi := Nat.min (Nat.min (last + 2) maxU64) (lo + 24)
  (lo, hi)

def RaftStore.reads (m : RaftStore) : Reads :=
  let f := m.firstIndex
  let l := m.lastIndex
  let (lo, hi) := termWindow f l
  { init := m.conf.map (fun c => (m.hard, c, m.applied, m.confApplied))
    first := some f, last := some l, snap := some m.snapshot
    ents := some (m.entriesGo 0 maxU64 0)
    termLo := lo
    terms := some ((List.range (hi + 1 - lo)).map (fun k => m.termGo (lo + k))) }

/-- contiguity as seen through the read API -/
def Reads.contiguous (r : Reads) : Bool :=
  match r.first, r.last, r.ents, r.snap with
  | some f, some l, some es, some s =>
    consecutiveFrom f es && (f + es.length == l + 1) && (f == s.index + 1)
  | _, _, _, _ => false

/-- "never returns an entry at or below the compaction point" -/
def Reads.noneBelow (r : Reads) : Bool :=
  match r.first, r.ents, r.snap with
  | some f, some es, some s => es.all (fun e => f ≤ e.index && s.index < e.index)
  | _, _, _ => false

/-- `Term(i)` answers (non-zero) exactly on `[max 1 (first-1), last]` -/
def Reads.termsDefinedIff (r : Reads) : Bool :=
  match r.first, r.last, r.terms with
  | some f, some l, some ts =>
    (List.range ts.length).all (fun k =>
      let i := r.termLo + k
      (ts.getD k 0 ≠ 0) == (1 ≤ i && f ≤ i + 1 && i ≤ l))
  | _, _, _ => false

end WK.C14

import WK.Model.C25
/-
  C25 — spec: contracts of the primitives (hypotheses of the theorems), the
  perturbation relation of the property's quantifier, and the Bool judges the
  driver evaluates on the implementation's output.  Core only.
-/
namespace WK.C25
open WK WK.Gen.C25

/-! ## contracts of the abstract primitives (never axioms: hypotheses of the theorems) -/

/-- AES as a keyed permutation of 16-byte blocks -/
structure BlockCipherOK (P : Prims) : Prop where
  elen : ∀ k b, b.length = blockSize → (P.E k b).length = blockSize
  de : ∀ k b, b.length = blockSize → P.D k (P.E k b) = b

/-- base64 is a codec: decoding an encoding returns the input (hence `b64enc` is injective) -/
def B64OK (P : Prims) : Prop := ∀ x, P.b64dec (P.b64enc x) = some x

/-- the Diffie–Hellman law of X25519 for two key pairs -/
def DHLaw (P : Prims) (a b : Bytes) : Prop :=
  ∀ pa pb, P.dh a P.basepoint = some pa → P.dh b P.basepoint = some pb → P.dh a pb = P.dh b pa

/-- an MD5 collision -/
def Md5Collision (P : Prims) : Prop := ∃ x y, x ≠ y ∧ P.md5 x = P.md5 y

/-! ## the property's perturbations -/

/-- `q` differs from `p` in exactly the covered field `f` (all other fields, and the msg key, equal) -/
def DiffersOnlyIn (f : Field) (p q : SendPacket) : Prop :=
  (∀ g : Field × Kind, g.1 ≠ f → fieldEnc p g = fieldEnc q g) ∧ (∀ k, fieldEnc p (f, k) ≠ fieldEnc q (f, k)) ∧ p.msgKey = q.msgKey

def coveredFields : List Field := [.clientSeq, .clientMsgNo, .channelID, .channelType, .payload]

/-! ## judges (evaluated on the implementation's output by the driver) -/

/-- padding size is in 1..bs and completes a block -/
def judgePad (n bs r : Nat) : Bool := 1 ≤ r && r ≤ bs && (n + r) % bs == 0

/-- an accepted unpad returned exactly the input minus a well-formed padding -/
def judgeUnpad (input : Bytes) (bs : Nat) (out : Bytes) : Bool :=
  let k := input.length - out.length
  1 ≤ k && k ≤ bs && input.length % bs == 0 && input == out ++ List.replicate k (UInt8.ofNat k)

def isLowerHex (b : UInt8) : Bool := (48 ≤ b.toNat && b.toNat ≤ 57) || (97 ≤ b.toNat && b.toNat ≤ 102)

end WK.C25

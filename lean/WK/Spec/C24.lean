import WK.Model.C24
/-
  C24 — spec: which fields the bridge carries, in both directions, stated as the
  peer (client-side) conversions and the normal forms `normIn` / `normOut`;
  the canonical renderings shared with the harness.  Core only.
-/
namespace WK.C24
open WK

/-! ## the peer's half of the bridge (what a JSON-RPC client does; not in the repository) -/

def flagsOfSetting (n : Nat) : SettingFlags := { receipt := bit n 7, signal := bit n 5, stream := bit n 1, topic := bit n 3 }

/-- client → server: the message a client builds for a frame it wants delivered -/
def peerFromFrame (rid : Str) : Frame → Option Msg
  | .connect c => some (.connectReq rid { header := c.fl, version := c.version, clientKey := c.clientKey, deviceID := c.deviceID, deviceFlag := c.deviceFlag, clientTimestamp := c.clientTimestamp, uid := c.uid, token := c.token })
  | .send s => some (.sendReq rid { header := s.fl, setting := flagsOfSetting s.setting, msgKey := s.msgKey, expire := s.expire, clientMsgNo := s.clientMsgNo, streamNo := s.streamNo, channelID := s.channelID, channelType := s.channelType, topic := s.topic, payload := s.payload })
  | .recvack r => some (.recvAckNotif { header := r.fl, messageID := fmtInt r.messageID, messageSeq := r.messageSeq })
  | .disconnect d => some (.disconnectReq rid { reasonCode := d.reasonCode, reason := d.reason })
  | .ping _ => some (.pingReq rid)
  | _ => none

/-- server → client: the frame a client reconstructs from a message -/
def peerToFrame : Msg → Option (Frame × Str)
  | .connectResp id r => some (.connack { fl := r.header.getD Flags.none, hasServerVersion := false, serverVersion := r.serverVersion.toNat, serverKey := r.serverKey, salt := r.salt, timeDiff := r.timeDiff, reasonCode := r.reasonCode.toNat, nodeId := r.nodeID }, id)
  | .sendResp id r => some (.sendack { fl := r.header.getD Flags.none, messageID := parseInt64 r.messageID, messageSeq := r.messageSeq, clientSeq := 0, clientMsgNo := [], reasonCode := r.reasonCode.toNat }, id)
  | .recvNotif p => some (.recv { fl := p.header.getD Flags.none, setting := settingToProto (p.setting.getD {}), msgKey := p.msgKey, expire := p.expire, messageID := parseInt64 p.messageID, messageSeq := p.messageSeq, clientMsgNo := p.clientMsgNo, streamNo := p.streamNo, streamId := decVal p.streamID, streamFlag := p.streamFlag.toNat, timestamp := p.timestamp, channelID := p.channelID, channelType := p.channelType.toNat, topic := p.topic, fromUID := p.fromUID, payload := p.payload, clientSeq := 0 }, [])
  | .eventNotif p => some (.event { fl := p.header.getD Flags.none, id := p.id, type := p.type, timestamp := p.timestamp, data := p.data }, [])
  | .disconnectNotif p => some (.disconnect { fl := Flags.none, reasonCode := p.reasonCode.toNat, reason := p.reason }, [])
  | .pongResp id => some (.pong Flags.none, id)
  | _ => none

/-- the four Setting bits the bridge carries: Receipt 128, Signal 32, Topic 8, Stream 2 -/
def maskSetting (n : Nat) : Nat :=
  (if bit n 7 then 128 else 0) + (if bit n 5 then 32 else 0) + (if bit n 1 then 2 else 0) + (if bit n 3 then 8 else 0)

/-- inbound frames: exactly what survives client → JSON-RPC → server -/
def normIn : Frame → Frame
  | .connect c => .connect { c with version := if c.version = 0 then latestVersion else c.version }
  | .send s => .send { s with clientSeq := 0, setting := maskSetting s.setting }
  | .disconnect d => .disconnect { d with fl := Flags.none }
  | .ping _ => .ping Flags.none
  | f => f

/-- outbound frames: exactly what survives server → JSON-RPC → client -/
def normOut : Frame → Frame
  | .connack a => .connack { a with hasServerVersion := false }
  | .sendack a => .sendack { a with clientSeq := 0, clientMsgNo := [] }
  | .recv r => .recv { r with clientSeq := 0, setting := maskSetting r.setting }
  | .disconnect d => .disconnect { d with fl := Flags.none }
  | .pong _ => .pong Flags.none
  | f => f

/-- the request id travels with requests and responses only -/
def ridIn (rid : Str) : Frame → Str
  | .recvack _ => []
  | _ => rid

def ridOut (rid : Str) : Frame → Str
  | .connack _ | .sendack _ | .pong _ => rid
  | _ => []

def int64 (i : Int) : Prop := -(2 ^ 63 : Int) ≤ i ∧ i < 2 ^ 63

instance (i : Int) : Decidable (int64 i) := by unfold int64; infer_instance

/-- field widths of the Go structs (uint8 / int64 / int32 / uint32 / uint64 fields) -/
def InRange : Frame → Prop
  | .connect c => c.version < 256 ∧ c.deviceFlag < 256
  | .send s => s.setting < 256 ∧ s.channelType < 256
  | .recvack r => int64 r.messageID
  | .disconnect d => d.reasonCode < 256
  | .connack _ => True
  | .sendack a => int64 a.messageID
  | .recv r => r.setting < 256 ∧ int64 r.messageID
  | _ => True

/-! ## canonical renderings (shared with harness/C24/c24.go) -/

def b01 (b : Bool) : Char := if b then '1' else '0'

def flagsStr (f : Flags) : String := String.ofList [b01 f.noPersist, b01 f.redDot, b01 f.syncOnce, b01 f.dup, b01 f.end_]

def hdrStr : Option Flags → String
  | none => "nil"
  | some f => flagsStr f

def setStr : Option SettingFlags → String
  | none => "nil"
  | some s => String.ofList [b01 s.receipt, b01 s.signal, b01 s.stream, b01 s.topic]

def hx (s : Bytes) : String := hexEncode s

def frameStr : Frame → String
  | .connect p => s!"connect fl={flagsStr p.fl} ver={p.version} ckey={hx p.clientKey} dev={hx p.deviceID} dflag={p.deviceFlag} ts={p.clientTimestamp} uid={hx p.uid} tok={hx p.token}"
  | .send p => s!"send fl={flagsStr p.fl} set={p.setting} mk={hx p.msgKey} exp={p.expire} seq={p.clientSeq} no={hx p.clientMsgNo} sno={hx p.streamNo} ch={hx p.channelID} ct={p.channelType} top={hx p.topic} pl={hx p.payload}"
  | .recvack p => s!"recvack fl={flagsStr p.fl} mid={p.messageID} mseq={p.messageSeq}"
  | .disconnect p => s!"disconnect fl={flagsStr p.fl} rc={p.reasonCode} reason={hx p.reason}"
  | .ping fl => s!"ping fl={flagsStr fl}"
  | _ => "other-frame"

/-- a decoded outbound message as the harness prints it -/
def msgStr : Msg → String
  | .connectResp id r => s!"connack-resp id={hx id} hdr={hdrStr r.header} sv={r.serverVersion} skey={hx r.serverKey} salt={hx r.salt} td={r.timeDiff} rc={r.reasonCode} node={r.nodeID}"
  | .sendResp id r => s!"sendack-resp id={hx id} hdr={hdrStr r.header} mid={hx r.messageID} mseq={r.messageSeq} rc={r.reasonCode}"
  | .recvNotif p => s!"recv-notif hdr={hdrStr p.header} set={setStr p.setting} mk={hx p.msgKey} exp={p.expire} mid={hx p.messageID} mseq={p.messageSeq} no={hx p.clientMsgNo} sno={hx p.streamNo} sid={hx p.streamID} sflag={p.streamFlag} ts={p.timestamp} ch={hx p.channelID} ct={p.channelType} top={hx p.topic} from={hx p.fromUID} pl={hx p.payload}"
  | .eventNotif p => s!"event-notif hdr={hdrStr p.header} id={hx p.id} type={hx p.type} ts={p.timestamp} data={hx p.data}"
  | .disconnectNotif p => s!"disconnect-notif rc={p.reasonCode} reason={hx p.reason}"
  | .pongResp id => s!"generic-resp id={hx id} result=7b7d"   -- `{}`
  | _ => "unexpected"

def Kind.str : Kind → String
  | .ConnectRequest => "ConnectRequest" | .SendRequest => "SendRequest" | .SubscribeRequest => "SubscribeRequest"
  | .UnsubscribeRequest => "UnsubscribeRequest" | .PingRequest => "PingRequest" | .DisconnectRequest => "DisconnectRequest"
  | .GenericResponse => "GenericResponse" | .RecvNotification => "RecvNotification" | .RecvAckNotification => "RecvAckNotification"
  | .DisconnectNotification => "DisconnectNotification" | .EventNotification => "EventNotification"

end WK.C24

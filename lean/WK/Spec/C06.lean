import WK.Model.C06
/-
  C06 — the property itself.

  * `Inv`      : the state invariant of the statement (watermark order, match ≤ LEO,
                 pending / order / in-flight consistency) as a Prop over model states;
  * `Obs`      : what the harness prints about the IMPLEMENTATION after each event;
  * `judge…`   : the executable predicates the driver evaluates on implementation
                 output (never on model output).
  Core only.
-/
namespace WK.C06

/-- checkpointHW ≤ hw ≤ leo, every replica's match ≤ leo, the pending map has unique
    keys, the order list has no duplicates and holds exactly the pending keys, and an
    in-flight batch is well formed. -/
structure Inv (s : State) : Prop where
  ckpt_le : s.ckpt ≤ s.hw
  hw_le : s.hw ≤ s.leo
  match_le : ∀ e ∈ s.progress, e.2 ≤ s.leo
  pend_nodup : (keysW s.pending).Nodup
  order_nodup : s.order.Nodup
  order_iff : ∀ op, op ∈ s.order ↔ op ∈ keysW s.pending
  infl_wf : ∀ i, s.inflight = some i → i.ops.length = i.counts.length

/-- lexicographic (epoch, leaderEpoch) order of the metadata fence -/
def fenceLe (a b : State) : Prop :=
  a.epoch < b.epoch ∨ (a.epoch = b.epoch ∧ a.lepoch ≤ b.lepoch)

/-- total number of replies addressed to `op` in a list of decisions -/
def repliesTo (op : Nat) (ds : List Decision) : Nat :=
  (ds.map (fun d => (d.replies.filter (fun r => r.op == op)).length)).sum

/-- number of proposals in a history that name `op` as one of their waiters -/
def proposalsOf (op : Nat) (evs : List Event) : Nat :=
  (evs.filter (fun ev => match ev with
    | .propose _ ws => (ws.map (·.op)).contains op
    | _ => false)).length

def pendInd (s : State) (op : Nat) : Nat := if op ∈ keysW s.pending then 1 else 0

-- ------------------------------------------------ implementation observations

structure ObsReply where
  op : Nat
  err : String
  seqs : List Nat
  deriving Repr, Inhabited

structure ObsWaiter where
  op : Nat
  target : Nat
  mode : Nat
  nrec : Nat
  deriving Repr, Inhabited

/-- one printed line of the harness -/
structure Obs where
  err : String := "ok"
  replies : List ObsReply := []
  leo : Nat := 0
  hw : Nat := 0
  ckpt : Nat := 0
  epoch : Nat := 0
  lepoch : Nat := 0
  leader : Nat := 0
  role : Nat := 0
  progress : List (Nat × Nat) := []
  pending : List ObsWaiter := []
  order : List Nat := []
  inflightOp : Option Nat := none
  inflightOps : List Nat := []
  inflightN : Nat := 0
  isr : List Nat := []
  minISR : Int := 0
  /-- the state part of the line, verbatim (for "nothing changed" checks) -/
  stateText : String := ""
  deriving Repr, Inhabited

def nodupB : List Nat → Bool
  | [] => true
  | x :: xs => !xs.contains x && nodupB xs

/-- statement part 1 on an observation: checkpointHW ≤ hw ≤ leo -/
def judgeWatermarks (o : Obs) : Bool := o.ckpt ≤ o.hw && o.hw ≤ o.leo

def judgeMatches (o : Obs) : Bool := o.progress.all (fun e => e.2 ≤ o.leo)

/-- pending / order consistency -/
def judgeConsistent (o : Obs) : Bool :=
  let keys := o.pending.map (·.op)
  nodupB keys && nodupB o.order && o.order.all keys.contains && keys.all o.order.contains &&
  nodupB o.inflightOps

/-- the committed watermark never decreases within one metadata fence -/
def judgeHWMono (prev cur : Obs) : Bool :=
  !(prev.epoch == cur.epoch && prev.lepoch == cur.lepoch && cur.hw < prev.hw)

/-- the MinISR-th highest match among the ISR members, recomputed from the printed
    progress table (none when MinISR is not in 1..|ISR|) -/
def quorumMatch (o : Obs) : Option Nat :=
  if o.minISR ≤ 0 ∨ (o.isr.length : Int) < o.minISR then none else
  (sortDesc (o.isr.map (getP o.progress)))[(o.minISR - 1).toNat]?

/-- outside a quorum receipt, HW moves only to the MinISR-th highest ISR match -/
def judgeHWQuorum (isQuorumReceipt : Bool) (prev cur : Obs) : Bool :=
  isQuorumReceipt || cur.hw ≤ prev.hw || quorumMatch cur == some cur.hw

def consecutive : List Nat → Bool
  | [] => true
  | [_] => true
  | a :: b :: rest => b == a + 1 && consecutive (b :: rest)

/-- every reply answers a waiter that was pending before the event and is not pending
    after it, no op is answered twice by one decision (⇒ at most one answer per admission
    over any history), and a successful answer to a quorum-mode waiter is covered by HW. -/
def judgeReplies (prev cur : Obs) : String :=
  let ops := cur.replies.map (·.op)
  if !nodupB ops then "viol:reply-twice-in-one-decision" else
  let prevKeys := prev.pending.map (·.op)
  let curKeys := cur.pending.map (·.op)
  if !(ops.all prevKeys.contains) then "viol:reply-to-non-pending-op" else
  if ops.any curKeys.contains then "viol:replied-op-still-pending" else
  let bad := cur.replies.any (fun r =>
    r.err == "ok" &&
    (match prev.pending.find? (fun w => w.op == r.op) with
     | some w => w.mode == 1 &&
        (match r.seqs.getLast? with
         | some t => cur.hw < t
         | none => true)
     | none => true))
  if bad then "viol:quorum-reply-not-covered-by-hw" else
  -- a successful reply carries exactly the waiter's records, at consecutive sequences
  let shape := cur.replies.any (fun r =>
    r.err == "ok" &&
    (match prev.pending.find? (fun w => w.op == r.op) with
     | some w => r.seqs.length != w.nrec || !consecutive r.seqs
     | none => true))
  if shape then "viol:reply-items-do-not-match-waiter-records" else "ok"

end WK.C06

import WK.Model.C07
/-
  C07 — the reference: "a simple sequential log" per channel.  No indexes, no
  caches: a row list, the log end, the retention triple, the checkpoint.
  Every lookup is DERIVED from the rows.  The judge compares what the
  implementation returned with what this log returns.

  Caller contracts under which the reference is defined (the store documents
  them; outside them a channel is `unspecified` and no longer judged):
    * AppendServerAllocatedMessageID / AppendTrustedContiguous / ApplyFetch:
      the caller guarantees fresh message ids (allocator uniqueness);
    * AppendTrustedContiguous / ApplyFetch: the caller validated the
      (sender, clientMsgNo) keys (rows come from a leader that did).
-/
namespace WK.C07

structure SChan where
  rows : List Row := []
  leo : Nat := 0
  ret : Option Ret := none
  ck : Option Ckpt := none
deriving Repr, Inhabited

structure SStore where
  chans : List SChan
deriving Repr, Inhabited

def SStore.init : SStore := { chans := List.replicate numChan {} }
def SStore.chan (st : SStore) (c : Nat) : SChan := st.chans.getD c {}
def SStore.setChan (st : SStore) (c : Nat) (ch : SChan) : SStore := { st with chans := st.chans.set c ch }

/-- a stored row carries the hash of its payload, always -/
def specRow (seq : Nat) (r : Rec) : Row :=
  { seq := seq, id := r.id, frm := r.frm, cmn := r.cmn, payload := r.payload, ts := r.ts,
    hash := (fnv64 r.payload).toNat }

def idLive (st : SStore) (id : Nat) : Bool :=
  st.chans.any (fun ch => ch.rows.any (fun r => r.id = id))

def keyLive (ch : SChan) (frm cmn : B) : Bool :=
  ch.rows.any (fun r => r.frm = frm ∧ r.cmn = cmn)

/-- duplicate rules of an append, on the reference log -/
def specValidate (st : SStore) (c mode : Nat) (seen : Seen) (r : Rec) : Except Err Seen :=
  if r.id = 0 then .error .invalid
  else if seen.ids.contains r.id then .error .conflict
  else
    let seen := { seen with ids := r.id :: seen.ids }
    if mode = 0 ∧ idLive st r.id then .error .conflict
    else if r.frm = [] ∨ r.cmn = [] then .ok seen
    else if seen.keys.contains (r.frm, r.cmn) then .error .conflict
    else
      let seen := { seen with keys := (r.frm, r.cmn) :: seen.keys }
      if mode = 2 then .ok seen
      else if keyLive (st.chan c) r.frm r.cmn then .error .conflict
      else .ok seen

def specWalk (st : SStore) (c mode : Nat) : List Rec → Seen → Except Err Unit
  | [], _ => .ok ()
  | r :: rest, seen =>
    match specValidate st c mode seen r with
    | .error e => .error e
    | .ok seen' => specWalk st c mode rest seen'

def specRows (base : Nat) : List Rec → List Row
  | [] => []
  | r :: rest => specRow base r :: specRows (base + 1) rest

def specPrepare (st : SStore) (c mode base : Nat) (recs : List Rec) : Except Err Unit :=
  if mode > 2 then .error .invalid
  else if base ≠ 0 ∧ base ≠ (st.chan c).leo + 1 then .error .conflict
  else specWalk st c mode recs {}

def specAppend (st : SStore) (c mode base : Nat) (recs : List Rec) : SStore × Out :=
  match specPrepare st c mode base recs with
  | .error e => (st, .err e)
  | .ok () =>
    if recs.isEmpty then (st, .app 0 0 0)
    else
      let ch := st.chan c
      let ch' := { ch with rows := ch.rows ++ specRows (ch.leo + 1) recs, leo := ch.leo + recs.length }
      (st.setChan c ch', .app (ch.leo + 1) (ch.leo + recs.length) recs.length)

def specCkOk (ch : SChan) (k : Ckpt) (vis leo : Nat) : Bool :=
  if k.lso > k.hw then false
  else if k.hw > vis then false
  else if k.hw > leo then false
  else match ch.ck with
    | none => true
    | some cur => !(k.hw < cur.hw ∨ k.lso < cur.lso ∨ k.epoch < cur.epoch)

def specFetch (st : SStore) (c base : Nat) (ck : Option Ckpt) (recs : List Rec) : SStore × Out :=
  match specPrepare st c 2 base recs with
  | .error e => (st, .err e)
  | .ok () =>
    let ch := st.chan c
    let vis := ch.leo + recs.length
    let ckOk := match ck with | some k => specCkOk ch k vis vis | none => true
    if !ckOk then (st, .err .corruptstate)
    else
      let ch' := { ch with rows := ch.rows ++ specRows (ch.leo + 1) recs, leo := ch.leo + recs.length,
                           ck := match ck with | some k => some k | none => ch.ck }
      if recs.isEmpty then (st.setChan c ch', .app 0 0 0)
      else (st.setChan c ch', .app (ch.leo + 1) (ch.leo + recs.length) recs.length)

def specTrunc (st : SStore) (c from_ : Nat) : SStore × Out :=
  let from_ := if from_ = 0 then 1 else from_
  let ch := st.chan c
  if from_ > ch.leo then (st, .ok)
  else (st.setChan c { ch with rows := ch.rows.filter (fun r => r.seq < from_), leo := from_ - 1 }, .ok)

def specTrim (st : SStore) (c through maxMsgs maxBytes : Nat) : SStore × Out :=
  if through = 0 then (st, .trim 0 0 false)
  else
    let ch := st.chan c
    let state : Ret := match ch.ret with | some r => r | none => ⟨0, 0, 0⟩
    let limit := if maxMsgs > 0 then maxMsgs + 1 else 0
    match readForward ch.rows (state.phys + 1) through limit maxBytes with
    | .error e => (st, .err e)
    | .ok rows =>
      let more1 : Bool := decide (maxMsgs > 0 ∧ rows.length > maxMsgs)
      let del := if more1 then rows.take maxMsgs else rows
      let lastBelow : Bool := match del.getLast? with | some r => decide (r.seq < through) | none => false
      let more : Bool := more1 || (decide (maxBytes > 0) && lastBelow)
      let delThrough := match del.getLast? with | some r => r.seq | none => 0
      let next : Ret :=
        { loc := Nat.max through state.loc,
          phys := if more = false ∧ through > state.phys then through else Nat.max delThrough state.phys,
          max := Nat.max ch.leo (Nat.max through state.max) }
      let ch' := { ch with rows := ch.rows.filter (fun r => !(del.any (fun d => d.seq = r.seq))),
                           ret := some next, leo := Nat.max ch.leo next.max }
      (st.setChan c ch', .trim delThrough del.length more)

/-! derived lookups -/
def specByid (st : SStore) (c id : Nat) : Out :=
  if id = 0 then .err .invalid
  else match (st.chan c).rows.find? (fun r => r.id = id) with
    | some r => .msg r
    | none => .none

def specBycmn (st : SStore) (c : Nat) (cmn : B) (before limit : Nat) : Out :=
  if cmn = [] ∨ limit = 0 then .err .invalid
  else
    let hits := ((st.chan c).rows.filter (fun r => r.cmn = cmn ∧ (before = 0 ∨ r.seq < before))).reverse
    if hits.length > limit then
      let pg := hits.take limit
      .page true (match pg.getLast? with | some r => r.seq | none => 0) pg
    else .page false 0 hits

def specIdem (st : SStore) (c : Nat) (frm cmn : B) : Out :=
  if frm = [] ∨ cmn = [] then .err .invalid
  else match (st.chan c).rows.find? (fun r => r.frm = frm ∧ r.cmn = cmn) with
    | some r => .hit r.seq r.id (r.seq - 1) r.hash
    | none => .none

def specLss (st : SStore) (c : Nat) (frm : B) (through : Nat) : Out :=
  if frm = [] ∨ through = 0 then .err .invalid
  else match ((st.chan c).rows.filter (fun r => r.frm = frm ∧ r.seq ≤ through)).getLast? with
    | some r => .num r.seq
    | none => .none

def specStep (st : SStore) : Op → SStore × Out
  | .app c mode base recs => specAppend st c mode base recs
  | .fetch c base ck recs => specFetch st c base ck recs
  | .trunc c f => specTrunc st c f
  | .trim c t mm mb => specTrim st c t mm mb
  | .ckpt c k =>
    if k.lso > k.hw then (st, .err .corruptstate)
    else (st.setChan c { st.chan c with ck := some k }, .ok)
  | .ckptm c k v l =>
    if !specCkOk (st.chan c) k v l then (st, .err .corruptstate)
    else (st.setChan c { st.chan c with ck := some k }, .ok)
  | .close _ => (st, .ok)
  | .reopen => (st, .ok)
  | .leo c => (st, .num (st.chan c).leo)
  | .lret c => (st, match (st.chan c).ret with | some r => .ret r | none => .none)
  | .lckpt c => (st, match (st.chan c).ck with | some k => .ck k | none => .none)
  | .read c f l b =>
    (st, match readForward (st.chan c).rows (if f = 0 then 1 else f) 0 l b with
         | .error e => .err e | .ok r => .msgs r)
  | .rread c f l b =>
    (st, match readForward (st.chan c).rows 1 (if f = 0 then (st.chan c).leo else f) 0 0 with
         | .error e => .err e | .ok all => .msgs (revGo l b all.reverse [] 0))
  | .get c s => (st, outOfGet (getRow (st.chan c).rows s))
  | .byid c id => (st, specByid st c id)
  | .lastvis c a =>
    (st, match (st.chan c).rows.getLast? with
         | none => .none
         | some r => if r.seq ≤ a then .none else .msg r)
  | .bycmn c cmn b l => (st, specBycmn st c cmn b l)
  | .idem c f m => (st, specIdem st c f m)
  | .lss c f t => (st, specLss st c f t)

/-! caller-contract breaches and the two conditions under which the unchanged
    code is known to leave the reference (see the driver's verdict classes) -/
def breachOf (st : SStore) : Op → Bool
  | .app c mode _ recs =>
    (mode = 1 ∨ mode = 2) ∧ recs.any (fun r => idLive st r.id) ∨
    mode = 2 ∧ recs.any (fun r => r.frm ≠ [] ∧ r.cmn ≠ [] ∧ keyLive (st.chan c) r.frm r.cmn)
  | .fetch c _ _ recs =>
    recs.any (fun r => idLive st r.id) ∨
    recs.any (fun r => r.frm ≠ [] ∧ r.cmn ≠ [] ∧ keyLive (st.chan c) r.frm r.cmn)
  | _ => false

/-- an accepted append stores an empty payload (its hash column stays 0) -/
def emptyPayloadOf : Op → Bool
  | .app _ _ _ recs => recs.any (fun r => r.payload.isEmpty)
  | .fetch _ _ _ recs => recs.any (fun r => r.payload.isEmpty)
  | _ => false

/-- a raw TruncateFrom that cuts below the durable RetainedMaxSeq -/
def truncBelowRetained (st : SStore) : Op → Bool
  | .trunc c f =>
    let f := if f = 0 then 1 else f
    let ch := st.chan c
    match ch.ret with
    | some r => f ≤ ch.leo ∧ f - 1 < r.max
    | none => false
  | _ => false

end WK.C07

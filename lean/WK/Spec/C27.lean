import WK.Model.C27
/-
  C27 — judges.  Core only.

  For codecs that are not modelled in Lean the harness reports, per random valid
  value, what the REAL encoder/decoder did; the judge evaluates the property on
  those flags:
    rt=eq                      decode(encode v) == v
    ext=<n>:<acc>              encodings followed by extra bytes that were accepted (self-delimiting codecs: must be 0)
    trunc=<n>:<acc>:<noncanon> strict prefixes accepted / accepted-but-not-the-canonical-encoding-of-what-they-decode-to
    flip=<n>:<acc>:<unstable>  mutants accepted / accepted values that do not survive encode→decode
    alloc=ok                   no single decode allocated more than 512·len(input)+256 KiB
-/
namespace WK.C27

def splitColon (s : String) : List String := s.splitOn ":"

def kv (key : String) (toks : List String) : Option String :=
  (toks.find? (fun t => t.startsWith (key ++ "="))).map (fun t => (t.drop (key.length + 1)).toString)

/-- verdict for an `rt` op: `selfDelim` says every strict prefix must be rejected; `canon` says
    whatever the decoder accepts must be the canonical encoding of a value that survives
    encode→decode (false for the forward-compatible TLV / multi-version / text codecs, which
    accept non-canonical input by design) -/
def judgeRT (codec : String) (selfDelim canon : Bool) (impl : String) : String :=
  let toks := fields impl
  if toks == ["enc=err"] then "ok" else
  match kv "rt" toks, kv "trunc" toks, kv "flip" toks, kv "alloc" toks, kv "ext" toks with
  | some rt, some tr, some fl, some al, some ex =>
    if rt != "eq" then s!"viol:roundtrip-{rt}:{codec}" else
    match (splitColon tr).map String.toNat?, (splitColon fl).map String.toNat?, (splitColon ex).map String.toNat? with
    | [some _, some acc, some nonc], [some _, some _, some unst], [some _, some extAcc] =>
      if selfDelim && acc != 0 then s!"viol:truncation-accepted:{codec}"
      else if selfDelim && extAcc != 0 then s!"viol:trailing-garbage-accepted:{codec}"
      else if canon && nonc != 0 then s!"viol:truncation-noncanonical:{codec}"
      else if canon && unst != 0 then s!"viol:garbage-decodes-to-unstable-value:{codec}"
      else if al != "ok" then s!"viol:alloc-unbounded:{codec}"
      else "ok"
    | _, _, _ => "viol:unparseable-output"
  | _, _, _, _, _ => "viol:unparseable-output"

/-- verdict for a `bd` op (a value whose bounded field has exactly `n` elements, declared maximum `max`):
    within the bound the value must round-trip like any other; beyond it the encoder or the decoder
    may refuse, but nothing else may go wrong -/
def judgeBD (codec bound : String) (selfDelim canon : Bool) (n max : Nat) (impl : String) : String :=
  let toks := fields impl
  if n ≤ max then
    (if toks == ["enc=err"] then s!"viol:encoder-rejects-value-within-bound:{bound}={n}:{codec}"
     else match judgeRT codec selfDelim canon impl with
       | "ok" => "ok"
       | v => if v.startsWith "viol:roundtrip-" then s!"viol:roundtrip-at-bound:{bound}={n}:{codec}" else v)
  else if toks == ["enc=err"] then "ok"
  else if kv "rt" toks == some "err" then
    (if kv "alloc" toks == some "ok" then "ok" else s!"viol:alloc-unbounded:{codec}")
  else judgeRT codec selfDelim canon impl

/-- verdict for a `gb` (arbitrary bytes) op -/
def judgeGB (codec : String) (canon : Bool) (impl : String) : String :=
  let toks := fields impl
  match kv "dec" toks, kv "stable" toks, kv "alloc" toks with
  | some d, some st, some al =>
    if al != "ok" then s!"viol:alloc-unbounded:{codec}"
    else if d == "err" then "ok"
    else if d == "ok" then (if st == "1" || !canon then "ok" else s!"viol:garbage-decodes-to-unstable-value:{codec}")
    else "viol:unparseable-output"
  | _, _, _ => "viol:unparseable-output"

end WK.C27

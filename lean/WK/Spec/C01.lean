import WK.Model.ReplJudge
/-
  C01 — acknowledged channel appends survive failover and crashes.

  Judge (on the implementation's observations only):
   * a NEW acknowledgement (a range no earlier receipt covered) is given only when the
     leader and ≥ q voters hold the range (`viol:ack-without-quorum`);
   * an authority whose write quorum is not a majority of the voters is never installed
     (`viol:non-majority-quorum-installed`);
   * after every op, every client-acknowledged entry is still on every voter
     that held it, and a leader that just became writable holds it with the
     same identity.  A loss is classified by the install that caused it:
       `viol:acked-entry-lost:responder-holders-lt-quorum`   the install's full probe
            responders held fewer than q copies (DESIGN §8.1, known finding);
       `viol:acked-entry-lost:holders-responded`             ≥ q holders answered, entry gone;
       `viol:acked-entry-replaced:holders-responded`         ≥ q holders answered, different content;
       `viol:acked-entry-lost:no-install`                    dropped by an op that is not an install.
-/
namespace WK.C01
open WK WK.Repl

def rangeHeld (cur : Obs) (n node q : Nat) : Nat → Nat → Bool
  | _, 0 => true
  | idx, k + 1 =>
    (match (cur.store node).entry idx with
     | some e => decide ((cur.holders n idx e.dig).length ≥ q)
     | none => false) && rangeHeld cur n node q (idx + 1) k

def alreadyAcked (j : JState) (s : SObs) : Nat → Nat → Bool
  | _, 0 => true
  | idx, k + 1 =>
    (match s.entry idx with
     | some e => j.committed.any (fun r => r.client && r.idx == idx && r.dig == e.dig)
     | none => false) && alreadyAcked j s (idx + 1) k

def judge (j : JState) (op : Op) (cur : Obs) : String :=
  let fates := (j.committed.filter (·.client)).map (fun r => fateOf j.prev cur j.n op r)
  if fates.any (· == .replacedOther) then "viol:acked-entry-replaced:holders-responded"
  else if fates.any (· == .lostOther) then
    (match op with
     | .install .. => "viol:acked-entry-lost:holders-responded"
     | _ => "viol:acked-entry-lost:no-install")
  else if fates.any (· == .lostKnown) then "viol:acked-entry-lost:" ++ knownSuffix
  else match op, cur.res with
    | .install _ a _ _, "ok" :: _ =>
      -- an even split (2q ≤ N) is not a quorum: two disjoint "quorums" could both acknowledge
      if a.q * 2 ≤ j.n then "viol:non-majority-quorum-installed" else "ok"
    | .commit i _ _ _ _ _, ["ok", _, _, f, l, _] =>
      (match f.toNat?, l.toNat? with
       | some f, some l =>
         if l < f then "viol:ack-without-quorum"
         -- a cached receipt for a range acknowledged earlier is not a new acknowledgement
         else if alreadyAcked j (cur.store i) f (l + 1 - f) then "ok"
         else if !rangeHeld cur j.n i (cur.leader i).q f (l + 1 - f) then "viol:ack-without-quorum" else "ok"
       | _, _ => "viol:unparseable-output")
    | _, _ => "ok"

end WK.C01

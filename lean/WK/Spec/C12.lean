import WK.Prelude.Hex
/-
  C12 — spec: the trace acceptor.  Core only.

  A schedule's trace is, per replica (node, slot), the sequence of
    apply  [(index, proposal id)…] chain      one StateMachine.ApplyBatch call
    snap   applied chain                      StateMachine.Snapshot (compaction)
    restore index chain                       StateMachine.Restore (snapshot install / restart from a snapshot)
    restart                                   a new process incarnation on the same durable state
  plus the proposal futures.  `chain` is a running checksum of everything the
  state machine applied, so a restore that does not carry exactly the applied
  prefix, a skipped or a doubled command shows up.
-/
namespace WK.C12

inductive Ev where
  | apply (cmds : List (Nat × Nat)) (chain : Nat)
  | snap (applied chain : Nat)
  | restore (index chain : Nat)
  | restart
deriving Repr, Inhabited

def chainMod : Nat := 4294967291
def chainStep (c idx id : Nat) : Nat := (c * 1000003 + id * 7 + idx) % chainMod
def chainOf (c : Nat) (cmds : List (Nat × Nat)) : Nat := cmds.foldl (fun acc p => chainStep acc p.1 p.2) c

/-- what the acceptor remembers of one replica -/
structure Rep where
  pos : Nat := 0                      -- index of the last applied command, or of the last restore
  chain : Nat := 0
  segs : List (Nat × List Nat) := []  -- closed segments (base, applied indices) since each restore, newest first
  base : Nat := 0
  cur : List Nat := []                -- applied indices of the current segment, newest first
deriving Repr, Inhabited

def increasing : Nat → List (Nat × Nat) → Bool
  | _, [] => true
  | p, (i, _) :: r => p < i && increasing i r

/-- one event of one replica; `none` = accepted, `some why` = rejected -/
def Rep.step (r : Rep) : Ev → Rep × Option String
  | .apply cmds chain =>
    if !increasing r.pos cmds then (r, some "reapplied-or-out-of-order")
    else if chainOf r.chain cmds ≠ chain then (r, some "chain-mismatch")
    else ({ r with pos := (cmds.getLast?.map (·.1)).getD r.pos, chain := chain,
                   cur := (cmds.map (·.1)).reverse ++ r.cur }, none)
  | .snap _ chain => if chain ≠ r.chain then (r, some "snapshot-of-wrong-state") else (r, none)
  | .restore index chain =>
    ({ r with pos := index, chain := chain, segs := (r.base, r.cur) :: r.segs, base := index, cur := [] }, none)
  | .restart => (r, none)

/-- gap check of one segment against the union of everything any replica applied:
    between the base and every applied index nothing the others applied is missing -/
def segGaps (union : List Nat) (base : Nat) (asc : List Nat) : Bool :=
  match asc.getLast? with
  | none => false
  | some hi => union.any (fun i => base < i && i ≤ hi && !asc.contains i)

end WK.C12

import WK.Prelude.Hex
/-
  C12 — spec: the trace acceptor.  Core only.

  A schedule's trace is, per replica (node, slot), the sequence of
    apply  [(index, proposal id)…] chain      one StateMachine.ApplyBatch call
    snap   applied chain                      StateMachine.Snapshot (compaction)
    restore index chain                       StateMachine.Restore (snapshot install / restart from a snapshot)
    restart                                   a new process incarnation on the same durable state
  plus the proposal futures.  `chain` is a running checksum of everything the
  state machine applied, so a restore that does not carry exactly the applied
  prefix, a skipped or a doubled command shows up.
-/
namespace WK.C12

inductive Ev where
  | apply (cmds : List (Nat × Nat)) (chain : Nat)
  | snap (applied chain : Nat)
  | restore (index chain : Nat)
  | restart
deriving Repr, Inhabited

def chainMod : Nat := 4294967291
def chainStep (c idx id : Nat) : Nat := (c * 1000003 + id * 7 + idx) % chainMod
def chainOf (c : Nat) (cmds : List (Nat × Nat)) : Nat := cmds.foldl (fun acc p => chainStep acc p.1 p.2) c

/-- what the acceptor remembers of one replica -/
structure Rep where
  pos : Nat := 0                      -- index of the last applied command, or of the last restore
  chain : Nat := 0
  segs : List (Nat × List Nat) := []  -- closed segments (base, applied indices) since each restore, newest first
  base : Nat := 0
  cur : List Nat := []                -- applied indices of the current segment, newest first
deriving Repr, Inhabited

def increasing : Nat → List (Nat × Nat) → Bool
  | _, [] => true
  | p, (i, _) :: r => p < i && increasing i r

/-- one event of one replica; `none` = accepted, `some why` = rejected -/
def Rep.step (r : Rep) : Ev → Rep × Option String
  | .apply cmds chain =>
    if !increasing r.pos cmds then (r, some "reapplied-or-out-of-order")
    else if chainOf r.chain cmds ≠ chain then (r, some "chain-mismatch")
    else ({ r with pos := (cmds.getLast?.map (·.1)).getD r.pos, chain := chain,
                   cur := (cmds.map (·.1)).reverse ++ r.cur }, none)
  | .snap _ chain => if chain ≠ r.chain then (r, some "snapshot-of-wrong-state") else (r, none)
  | .restore index chain =>
    ({ r with pos := index, chain := chain, segs := (r.base, r.cur) :: r.segs, base := index, cur := [] }, none)
  | .restart => (r, none)

/-- gap check of one segment against the union of everything any replica applied:
    between the base and every applied index nothing the others applied is missing -/
def segGaps (union : List Nat) (base : Nat) (asc : List Nat) : Bool :=
  match asc.getLast? with
  | none => false
  | some hi => union.any (fun i => base < i && i ≤ hi && !asc.contains i)

/-- the acceptor on one replica's event list: every event accepted, from state `r` -/
def acceptFrom (r : Rep) : List Ev → Bool
  | [] => true
  | ev :: evs =>
    match r.step ev with
    | (r', none) => acceptFrom r' evs
    | (_, some _) => false

def acceptRep (evs : List Ev) : Bool := acceptFrom {} evs

/-- the property's own reading of a replica trace, independent of the acceptor's
    bookkeeping: the runs of applied indices between restores, oldest first, each with the
    index it started from (0, or the restore index) -/
def segmentsFrom : Nat → List Nat → List Ev → List (Nat × List Nat)
  | base, cur, [] => [(base, cur)]
  | base, cur, .apply cmds _ :: r => segmentsFrom base (cur ++ cmds.map (·.1)) r
  | base, cur, .restore k _ :: r => (base, cur) :: segmentsFrom k [] r
  | base, cur, _ :: r => segmentsFrom base cur r

def segments (evs : List Ev) : List (Nat × List Nat) := segmentsFrom 0 [] evs

/-- cross-replica agreement bookkeeping for one slot: index ↦ proposal id -/
def unionAdd (u : List (Nat × Nat)) (p : Nat × Nat) : Option (List (Nat × Nat)) :=
  match u.find? (fun q => q.1 == p.1) with
  | some q => if q.2 = p.2 then some u else none
  | none => some (p :: u)

def unionAll (u : List (Nat × Nat)) : List (Nat × Nat) → Option (List (Nat × Nat))
  | [] => some u
  | p :: ps => (unionAdd u p).bind (fun u' => unionAll u' ps)

end WK.C12

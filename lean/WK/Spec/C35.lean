import WK.Model.C35
/-
  C35 — spec: what "canonical" means, as executable judges over the
  IMPLEMENTATION's outputs.  Core only.  The judges never call the model's
  encode/normalize; they state the property directly on what came back
  (`Theorems/C35.lean` proves the model's outputs always satisfy them).
-/
namespace WK.C35

/-- the UIDs `internal/usecase/user` admits as far as this package cares:
    non-empty and without the separator -/
def validUID (a : Bytes) : Bool := !a.isEmpty && !a.contains sep

/-- a decode result as observed: `none` = error, `some (l, r)` -/
abbrev Dec := Option (Bytes × Bytes)

/-- `{x,y} = {a,b}` as ordered-pair alternatives -/
def samePair (x y a b : Bytes) : Bool := (x == a && y == b) || (x == b && y == a)

/-- judge of one `enc a b` observation: `e1 = Encode(a,b)`, `e2 = Encode(b,a)`,
    `d = Decode(e1)`. -/
def judgeEnc (a b e1 e2 : Bytes) (d : Dec) : String :=
  if e1 != e2 then "viol:enc-not-symmetric"
  else if e1 != join a b && e1 != join b a then "viol:enc-not-a-join"
  else match d with
    | some (x, y) =>
      if !samePair x y a b then "viol:decode-wrong-pair"
      else if !(validUID a && validUID b) then "viol:decode-accepts-invalid-uid"
      else "ok"
    | none => if validUID a && validUID b then "viol:decode-rejects-canonical" else "ok"

/-- judge of `dec c`: an accepted id is exactly `l@r` with two valid parts; a
    rejected id is not of that shape (one separator, non-empty sides). -/
def judgeDec (c : Bytes) (d : Dec) : String :=
  match d with
  | some (l, r) =>
    if c != join l r then "viol:decode-not-a-split"
    else if !(validUID l && validUID r) then "viol:decode-invalid-part"
    else "ok"
  | none =>
    if c.count sep == 1 && c.head? != some sep && c.getLast? != some sep then "viol:decode-rejects-wellformed"
    else "ok"

/-- `c'` names `s` as one of its two sides -/
def hasMember (s c' : Bytes) : Bool :=
  (s ++ [sep]).isPrefixOf c' || (sep :: s).isSuffixOf c'

/-- judge of `norm s c`: `n1 = Normalize(s,c)`, `n2 = Normalize(s, n1)` when n1 succeeded.
    `dc` is the *specification's* view of `c` as a pair (computed by the judge
    from the shape of `c`, see `specPair`). -/
def specPair (c : Bytes) : Dec :=
  if c.count sep == 1 then
    let l := c.takeWhile (· != sep)
    let r := (c.dropWhile (· != sep)).drop 1
    if l.isEmpty || r.isEmpty then none else some (l, r)
  else none

def judgeNorm (s c : Bytes) (n1 : Option Bytes) (n2 : Option (Option Bytes)) : String :=
  match n1 with
  | some c' =>
    if s.isEmpty || c.isEmpty then "viol:norm-accepts-empty"
    else if !hasMember s c' then "viol:norm-sender-not-member"
    else if c.contains sep && (match specPair c with
        | none => true
        | some (l, r) => (l != s && r != s) || (c' != join l r && c' != join r l)) then "viol:norm-accepts-foreign-channel"
    else if !c.contains sep && c' != join s c && c' != join c s then "viol:norm-wrong-peer"
    else match n2 with
      | some (some c'') => if c'' != c' then "viol:norm-not-idempotent" else "ok"
      | some none => if validUID s then "viol:norm-not-idempotent" else "ok"
      | none => "viol:norm-missing-renorm"
  | none =>
    if s.isEmpty || c.isEmpty then "ok"
    else if !c.contains sep then "viol:norm-rejects-peer"
    else match specPair c with
      | none => "ok"
      | some (l, r) => if l == s || r == s then "viol:norm-rejects-member" else "ok"

/-- judge of `cmd x`: `i = Is(x)`, `t = To(x)`, `tt = To(t)`, `f1 = From(t)`, `f0 = From(x)` -/
def judgeCmd (x : Bytes) (i : Bool) (t tt : Bytes) (f1 f0 : Bytes × Bool) : String :=
  if tt != t then "viol:cmd-not-idempotent"
  else if i != cmdSuffix.isSuffixOf x then "viol:cmd-is-wrong"
  else if !f1.2 then "viol:cmd-to-not-command"
  else if !i && f1.1 != x then "viol:cmd-not-reversible"
  else if i && t != x then "viol:cmd-resuffixed"
  else if !i && t != x ++ cmdSuffix then "viol:cmd-to-wrong"
  else if f0.2 != i then "viol:cmd-from-flag"
  else if f0.2 && f0.1 ++ cmdSuffix != x then "viol:cmd-from-wrong"
  else if !f0.2 && f0.1 != x then "viol:cmd-from-wrong"
  else "ok"

/-- judge of `agent u a`: `e = EncodeAgent(u,a)`, `d = DecodeAgent(e)` -/
def judgeAgent (u a e : Bytes) (d : Dec) : String :=
  if e != join u a then "viol:agent-enc"
  else match d with
    | some (x, y) =>
      if !(x == u && y == a) then "viol:agent-decode-wrong-pair"
      else if !(validUID u && validUID a) then "viol:agent-decode-accepts-invalid"
      else "ok"
    | none => if validUID u && validUID a then "viol:agent-decode-rejects" else "ok"

end WK.C35

import WK.Model.ReplJudge
/-
  C03 — append receipts are exact, contiguous and retry-stable.

  Judge at every receipt the implementation returns for `commit n … c k p`:
   * shape: Last-First+1 = k, HW = Last, receipt command = c
     (`viol:receipt-wrong-length`, `viol:receipt-hw`, `viol:receipt-wrong-command`);
   * exactness: the leader's log holds command c at exactly [First, Last] and
     nowhere else (`viol:receipt-not-in-log`);
   * a command the leader's log did not contain before starts right after the
     previous log end (`viol:range-not-at-log-end`);
   * a command the leader's log already contained gets the stored range and the
     leader's log does not grow (`viol:retry-different-range`, `viol:retry-stored-again`);
   * `backpressure` is only ever answered while the owner has a pending command
     (`viol:backpressure-without-pending`);
   * against every earlier receipt of the history: same command and content ⇒ same
     range (`viol:retry-different-range`), same command with other content ⇒ no receipt
     (`viol:conflicting-retry-acked`), other command ⇒ disjoint ranges
     (`viol:overlapping-receipts`).  When the earlier receipt's entries were dropped
     by a DESIGN §8.1 install the verdict carries `:responder-holders-lt-quorum`.
-/
namespace WK.C03
open WK WK.Repl

def cmdRange (s : SObs) (c : String) : Option (Nat × Nat) :=
  let idxs := (List.range s.entries.length).filter (fun i => (s.entries[i]?).any (·.cmd == c))
  match idxs.head?, idxs.getLast? with
  | some a, some b => if b + 1 - a == idxs.length then some (a + 1, b + 1) else some (0, 0)
  | _, _ => none

/-- was some entry of the earlier receipt's range dropped through the known class? -/
def rcptTainted (j : JState) (r : RcptRec) : Bool :=
  j.committed.any (fun x => x.tainted && x.client && x.idx ≥ r.first && x.idx ≤ r.last && x.cmd == toString r.c)

/-- the suffix applies when either of the two receipts in conflict covers an entry that a
    DESIGN §8.1 install dropped (`nt` = the new receipt's range is such) -/
def withSuffix (j : JState) (nt : Bool) (r : RcptRec) (v : String) : String :=
  if nt || rcptTainted j r then v ++ ":" ++ knownSuffix else v

def againstEarlier (j : JState) (nt : Bool) (c k p f l : Nat) : List RcptRec → List String
  | [] => []
  | r :: rs =>
    (if r.c == c then
       if r.k == k ∧ r.p == p then
         (if r.first == f ∧ r.last == l then "ok" else withSuffix j nt r "viol:retry-different-range")
       else withSuffix j nt r "viol:conflicting-retry-acked"
     else if f ≤ r.last ∧ r.first ≤ l then withSuffix j nt r "viol:overlapping-receipts"
     else "ok") :: againstEarlier j nt c k p f l rs

def firstBad : List String → String
  | [] => "ok"
  | v :: vs => if v == "ok" then firstBad vs else v

/-- every entry of the receipted range first appeared during a commit op with exactly this (c,k,p) -/
def contentBound (j : JState) (s : SObs) (c k p : Nat) : Nat → Nat → Bool
  | _, 0 => true
  | idx, n + 1 =>
    (match s.entry idx with
     | some e => j.bindingOf e.dig == some (c, p)
     | none => false) && contentBound j s c k p (idx + 1) n

def unkeyedSuffix : String := "server-allocated-unkeyed-evicted"

/-- entries [idx, idx+n) of the log all belong to command `c` -/
def rangeIsCmd (s : SObs) (c : String) : Nat → Nat → Bool
  | _, 0 => true
  | idx, n + 1 => (match s.entry idx with
                   | some e => e.cmd == c
                   | none => false) && rangeIsCmd s c (idx + 1) n

def judgeCore (j : JState) (op : Op) (cur : Obs) : String :=
  match op, cur.res with
  | .commit i _ c k p _, ["ok", _, rc, f, l, hw] =>
    (match f.toNat?, l.toNat?, hw.toNat? with
     | some f, some l, some hw =>
       let cs := toString c
       let before := j.prev.store i
       let after := cur.store i
       if rc != cs then "viol:receipt-wrong-command"
       else if f = 0 ∨ l < f ∨ l + 1 - f ≠ k then "viol:receipt-wrong-length"
       else if hw ≠ l then "viol:receipt-hw"
       else if (if j.fresh then !rangeIsCmd after cs f (l + 1 - f) else cmdRange after cs ≠ some (f, l)) then
         "viol:receipt-not-in-log"
       else if !contentBound (j.update op cur) after c k p f (l + 1 - f) then "viol:receipt-for-other-content"
       else
         let own :=
           match cmdRange before cs with
           | none => if f ≠ before.leo + 1 then "viol:range-not-at-log-end" else "ok"
           | some (a, b) =>
             if (a, b) ≠ (f, l) then "viol:retry-different-range"
             else if after.leo ≠ before.leo then "viol:retry-stored-again" else "ok"
         if own != "ok" then own else
         let nt := rcptTainted j ⟨c, k, p, f, l, AuthId.zero, i⟩
         let vs := againstEarlier j nt c k p f l j.receipts
         -- unknown-class verdicts first
         match vs.find? (fun v => v != "ok" && !v.endsWith knownSuffix) with
         | some v => v
         | none => firstBad vs
     | _, _, _ => "viol:unparseable-output")
  | .commit i _ _ _ _ _, ["err", "backpressure"] =>
    -- Commit refuses with backpressure only while another command is pending; any other source (a
    -- command-index read that cannot return a stored full-size proposal) makes retries unanswerable
    let pl := j.prev.leader i
    if pl.status == "present" && pl.ready && pl.pending == "-" then "viol:backpressure-without-pending" else "ok"
  | _, _ => "ok"

/-- MessageDB stores fed with server-allocated, unkeyed records store the exact retry of an evicted
    command again (prepareExactAppendRecordsLocked, sequencedFresh): in such a case a changed retry
    range is the known class `viol:retry-different-range:server-allocated-unkeyed-evicted`. -/
def judge (j : JState) (op : Op) (cur : Obs) : String :=
  let v := judgeCore j op cur
  if j.fresh ∧ (v == "viol:retry-different-range" ∨ v == "viol:conflicting-retry-acked") then v ++ ":" ++ unkeyedSuffix else v

end WK.C03

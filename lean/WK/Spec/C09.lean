/-
  C09 — storage mutations are crash-atomic.  Spec: the typed key/value store,
  write batches, the crash semantics (the ASSUMPTION about Pebble: a committed
  batch is applied atomically; a batch committed with sync is durable when
  Commit returns) and the store invariant `StoreInv` that every crash state must
  satisfy.  Core only.

  Keys/values are the typed image of pkg/db/message's key space (keys.go):
    row   (ch,seq)        ↦ row id from cno flags payload     primary row (family 0)
    gid   id              ↦ (ch,seq)                           global message-id index
    cno   (ch,cno,seq)    ↦ seq                                sender-less client-msg-no index
    idem  (ch,from,cno)   ↦ (seq,id)                           idempotency index
    sseq  (ch,from,seq)   ↦ id                                 sender sequence index
    ret ch ↦ (local,physical,retainedMax)   ckpt ch ↦ (epoch,logStart,hw)
    cur ch ↦ seq (committed dispatch cursor "c")   cat ch ↦ 1 (catalog row)
    pl (ch,last) / pc (ch,cmd) ↦ proposal manifest (stored twice)   ent (ch,idx) ↦ entry identity
-/
namespace WK.C09

inductive Key where
  | row (ch seq : Nat)
  | gid (id : Nat)
  | cno (ch c seq : Nat)
  | idem (ch f c : Nat)
  | sseq (ch f seq : Nat)
  | ret (ch : Nat)
  | ckpt (ch : Nat)
  | cur (ch : Nat)
  | cat (ch : Nat)
  | pl (ch last : Nat)
  | pc (ch cmd : Nat)
  | ent (ch idx : Nat)
  deriving DecidableEq, Repr, Inhabited

inductive Val where
  | row (id f c flags pay : Nat)
  | gid (ch seq : Nat)
  | nat (n : Nat)
  | idem (seq id : Nat)
  | ret (l p m : Nat)
  | ckpt (ep st hw : Nat)
  | prop (base last cmd term pterm : Nat)
  | ent (idx cmd term pterm : Nat)
  deriving DecidableEq, Repr, Inhabited

abbrev Store := List (Key × Val)

def get (s : Store) (k : Key) : Option Val := s.lookup k

def del (s : Store) (k : Key) : Store := s.filter (fun e => e.1 ≠ k)

def put (s : Store) (k : Key) (v : Val) : Store := (k, v) :: del s k

/-- one write of a Pebble batch -/
inductive W where
  | put (k : Key) (v : Val)
  | del (k : Key)
  /-- `DeleteRange [ent(ch,from), end of the entry-identity prefix)` -/
  | delEntFrom (ch frm : Nat)
  deriving DecidableEq, Repr

def isEntFrom (ch frm : Nat) : Key → Bool
  | .ent c i => c == ch && frm ≤ i
  | _ => false

def applyW (s : Store) : W → Store
  | .put k v => put s k v
  | .del k => del s k
  | .delEntFrom ch frm => s.filter (fun e => !isEntFrom ch frm e.1)

/-- a batch is applied as a whole (this function IS the atomicity assumption) -/
def applyBatch (s : Store) (b : List W) : Store := b.foldl applyW s

/-- a committed batch with its sync flag (`engine.Batch.Commit(sync)`) -/
structure Commit where
  writes : List W
  sync : Bool

def applyCommits (s : Store) (cs : List Commit) : Store := cs.foldl (fun s c => applyBatch s c.writes) s

/-- Crash semantics.  `cs` = the commits whose `Commit` call RETURNED before the
    crash, in order, `inflight` = at most one commit that was executing.
    A post-crash store is the image of a prefix of `cs ++ inflight` that contains
    at least everything up to and including the last SYNCED returned commit
    (`lastSynced cs` = its 1-based position, 0 if none)
    (unsynced returned commits may be lost, together with everything after them
    — Pebble's WAL is a log). -/
def lastSynced : List Commit → Nat
  | [] => 0
  | c :: cs => if lastSynced cs > 0 then lastSynced cs + 1 else if c.sync then 1 else 0

def CrashState (s0 : Store) (cs inflight : List Commit) (s : Store) : Prop :=
  ∃ k, lastSynced cs ≤ k ∧ k ≤ (cs ++ inflight).length ∧ s = applyCommits s0 ((cs ++ inflight).take k)

/-! ### the store invariant -/

def rowSeqs (s : Store) (ch : Nat) : List Nat :=
  s.filterMap (fun e => match e.1 with | .row c q => if c = ch then some q else none | _ => none)

def maxList (xs : List Nat) : Nat := xs.foldl max 0

def retMax (s : Store) (ch : Nat) : Nat :=
  match get s (.ret ch) with
  | some (.ret _ _ m) => m
  | _ => 0

/-- `recoverLEO`: the highest stored row sequence ⊔ RetainedMaxSeq -/
def leo (s : Store) (ch : Nat) : Nat := max (maxList (rowSeqs s ch)) (retMax s ch)

def hwOf (s : Store) (ch : Nat) : Nat :=
  match get s (.ckpt ch) with
  | some (.ckpt _ _ hw) => hw
  | _ => 0

def flagSyncOnce (flags : Nat) : Bool := (flags / 4) % 2 == 1

/-- every index / system entry is backed by the row (or pair) it names -/
def entrySound (s : Store) : Key × Val → Bool
  | (.row _ _, .row id _ _ _ _) => id != 0
  | (.gid id, .gid ch seq) =>
      (match get s (.row ch seq) with | some (.row id' _ _ _ _) => id' == id | _ => false)
  | (.cno ch c seq, .nat n) =>
      n == seq && c != 0 &&
      (match get s (.row ch seq) with | some (.row _ f c' _ _) => f == 0 && c' == c | _ => false)
  | (.idem ch f c, .idem seq id) =>
      f != 0 && c != 0 &&
      (match get s (.row ch seq) with | some (.row id' f' c' _ _) => id' == id && f' == f && c' == c | _ => false)
  | (.sseq ch f seq, .nat id) =>
      f != 0 &&
      (match get s (.row ch seq) with | some (.row id' f' _ fl _) => id' == id && f' == f && !flagSyncOnce fl | _ => false)
  | (.ret ch, .ret l p m) =>
      !(l == 0 && m > 0) && p ≤ l && (l == 0 || l ≤ m) && (rowSeqs s ch).all (fun q => p < q)
  | (.ckpt ch, .ckpt _ st hw) => st ≤ hw && hw ≤ leo s ch
  | (.cur _, .nat _) => true
  | (.cat _, .nat n) => n == 1
  | (.pl ch last, .prop b l cmd t pt) =>
      l == last && b < l && t != 0 && get s (.pc ch cmd) == some (.prop b l cmd t pt) &&
      (List.range (l - b)).all (fun i =>
        match get s (.ent ch (b + 1 + i)) with
        | some (.ent _ cmd' t' _) => cmd' == cmd && t' == t
        | _ => false)
  | (.pc ch cmd, .prop b l c t pt) => c == cmd && get s (.pl ch l) == some (.prop b l c t pt)
  | (.ent ch idx, .ent i cmd _ _) =>
      i == idx &&
      (match get s (.pc ch cmd) with | some (.prop b l _ _ _) => b < idx && idx ≤ l | _ => false)
  | _ => false

/-- every row carries all of its index entries -/
def rowComplete (s : Store) : Key × Val → Bool
  | (.row ch seq, .row id f c fl _) =>
      get s (.gid id) == some (.gid ch seq) &&
      (!(c != 0 && f == 0) || get s (.cno ch c seq) == some (.nat seq)) &&
      (!(f != 0 && c != 0) || get s (.idem ch f c) == some (.idem seq id)) &&
      (!(f != 0 && !flagSyncOnce fl) || get s (.sseq ch f seq) == some (.nat id))
  | _ => true

def noDupKeys (s : Store) : Bool := (s.map (·.1)).Nodup

/-- the exact-proposal channel (3): the durable tail has its proposal and entry identity,
    so `LoadDurableFrontier` does not fail closed -/
def frontierOk (s : Store) (ch : Nat) : Bool :=
  leo s ch == 0 ||
  ((match get s (.pl ch (leo s ch)) with | some (.prop _ _ _ _ _) => true | _ => false) &&
   (match get s (.ent ch (leo s ch)) with | some (.ent _ _ _ _) => true | _ => false))

def exactCh : Nat := 3

/-- the Bool judge (run on every dump the implementation produces) -/
def storeInvB (s : Store) : Bool :=
  noDupKeys s && s.all (entrySound s) && s.all (rowComplete s) && frontierOk s exactCh

/-- name of the first violated clause (for the verdict), `none` = invariant holds -/
def storeInvWhy (s : Store) : Option String :=
  if !noDupKeys s then some "dup-key"
  else if !s.all (entrySound s) then
    match s.find? (fun e => !entrySound s e) with
    | some (.gid _, _) => some "index-orphan-gid"
    | some (.cno _ _ _, _) => some "index-orphan-cno"
    | some (.idem _ _ _, _) => some "index-orphan-idem"
    | some (.sseq _ _ _, _) => some "index-orphan-sseq"
    | some (.ret _, _) => some "retention"
    | some (.ckpt _, _) => some "hw-above-leo"
    | some (.pl _ _, _) => some "proposal-unpaired"
    | some (.pc _ _, _) => some "proposal-unpaired"
    | some (.ent _ _, _) => some "entry-orphan"
    | _ => some "entry-malformed"
  else if !s.all (rowComplete s) then some "row-missing-index"
  else if !frontierOk s exactCh then some "frontier-fails-closed"
  else none

def StoreInv (s : Store) : Prop := storeInvB s = true

theorem storeInvWhy_none_iff (s : Store) : storeInvWhy s = none ↔ StoreInv s := by
  unfold storeInvWhy StoreInv storeInvB
  by_cases h1 : noDupKeys s <;> by_cases h2 : s.all (entrySound s) <;>
    by_cases h3 : s.all (rowComplete s) <;> by_cases h4 : frontierOk s exactCh <;>
    simp [h1, h2, h3, h4] <;> (split <;> simp)

end WK.C09

/-
  C31 — Online delivery preserves per-channel order and recipient coverage.
  Spec + judge (core only).

  Trace alphabet (harness/C31/c31.go logs it under one mutex):
    msg m ch seq mode from snode ssess recips   message m = (channel ch, sequence seq) is about to be dispatched to recips
    enq m ok batches                     a plan of m was handed to EnqueueRecipientDeliveryPlan (ok = accepted)
    pres m g ok uids                     presence answered one target batch (ok=false: target-scoped error)
    write m uid node sess disp           owner-local session write attempt (1 accepted 2 retryable 3 dropped)
    remote m owner ok routes             one remote owner push (ok=false: transport error, outcome unknown)
    offline m uids                       durable-only offline recipients report
    stopRet ok                           Runtime.Stop returned

  The judge `stepJ`/`finalJ` evaluates the three properties on the trace:
    channel-order       per (owner node, session, channel) push attempts never go back in sequence
    cover-once          (after a clean Stop) every recipient of a presence-resolved target batch was
                        pushed on every unsuppressed online route, xor reported offline exactly once
    retry-exact-target  every attempt addresses a route the plan's presence answer contains; a route with a
                        terminal disposition is never addressed again; at most RetryMaxAttempts attempts
-/
namespace WK.C31

abbrev RouteAtt := Nat × Nat × Nat × Nat     -- uid, node, sess, disposition

inductive Ev where
  | msg (m ch seq mode frm snode ssess : Nat) (recips : List Nat)
  | enq (m : Nat) (ok : Bool) (batches : List (Nat × List Nat))
  | pres (m g : Nat) (ok : Bool) (uids : List Nat)
  | write (m uid node sess disp : Nat)
  | remote (m owner : Nat) (ok : Bool) (rs : List RouteAtt)
  | offline (m : Nat) (uids : List Nat)
  | stopCall
  | stopRet (ok : Bool)
  deriving Repr

abbrev World := List (Nat × List (Nat × Nat))   -- uid ↦ [(node, sess)]

def World.routes (w : World) (uid : Nat) : List (Nat × Nat) :=
  match w.find? (·.1 == uid) with
  | some (_, rs) => rs
  | none => []

structure MsgInfo where
  ch : Nat
  seq : Nat
  mode : Nat
  frm : Nat
  snode : Nat
  ssess : Nat
  recips : List Nat := []
  deriving Repr

/-- runtime.go suppressSenderRoute -/
def suppressed (i : MsgInfo) (uid node sess : Nat) : Bool :=
  i.frm != 0 && i.snode != 0 && i.ssess != 0 && uid == i.frm && node == i.snode && sess == i.ssess

/-- the routes of `uid` a plan of message `i` must push to -/
def pushRoutes (w : World) (i : MsgInfo) (uid : Nat) : List (Nat × Nat) :=
  (w.routes uid).filter (fun r => r.1 != 0 && !(suppressed i uid r.1 r.2))

structure J where
  world : World := []
  retryMax : Nat := 1
  msgs : List (Nat × MsgInfo) := []
  expected : List (Nat × Nat × Nat × Nat) := []        -- (m, uid, node, sess) announced by presence
  att : List ((Nat × Nat × Nat) × (Nat × Bool)) := []  -- (m, node, sess) ↦ (attempts, terminal)
  last : List ((Nat × Nat × Nat) × Nat) := []          -- (node, sess, ch) ↦ last sequence attempted
  offl : List (Nat × Nat) := []                        -- (m, uid) reported offline
  presOk : List (Nat × Nat) := []                      -- (m, uid) of presence-resolved batches
  presCnt : List Nat := []                             -- one entry m per presence answer
  enqCnt : List Nat := []                              -- one entry m per accepted target batch
  packed : List (Nat × Nat) := []                      -- (m, uid) of every plan handed to Online Delivery
  rejected : List Nat := []                            -- messages with a rejected plan
  stopOk : Bool := false
  deriving Repr

def lookup {κ α : Type} [BEq κ] (l : List (κ × α)) (k : κ) : Option α := (l.find? (·.1 == k)).map (·.2)
def update {κ α : Type} [BEq κ] (l : List (κ × α)) (k : κ) (v : α) : List (κ × α) :=
  (k, v) :: l.filter (fun p => !(p.1 == k))

/-- one push attempt on route (uid, node, sess) for message m; `term` = a terminal disposition is known -/
def attempt (j : J) (m uid node sess : Nat) (term : Bool) : Except String J :=
  match lookup j.msgs m with
  | none => .error "bad-trace-unknown-message"
  | some i =>
    if !(j.expected.contains (m, uid, node, sess)) then .error "push-to-unknown-route" else
    let (cnt, wasTerm) := (lookup j.att (m, node, sess)).getD (0, false)
    if wasTerm then .error "retry-after-terminal" else
    if cnt + 1 > j.retryMax then .error "retry-exceeds-max" else
    let lastSeq := (lookup j.last (node, sess, i.ch)).getD 0
    if i.seq < lastSeq then .error "channel-order" else
    .ok { j with att := update j.att (m, node, sess) (cnt + 1, term),
                 last := update j.last (node, sess, i.ch) i.seq }

def attemptAll (j : J) (m : Nat) (ok : Bool) : List RouteAtt → Except String J
  | [] => .ok j
  | (uid, node, sess, d) :: rs =>
    match attempt j m uid node sess (ok && (d == 1 || d == 3)) with
    | .ok j' => attemptAll j' m ok rs
    | .error e => .error e

def stepJ (j : J) : Ev → Except String J
  | .msg m ch seq mode frm snode ssess recips =>
    if (lookup j.msgs m).isSome then .error "bad-trace-duplicate-message" else
    .ok { j with msgs := (m, { ch, seq, mode, frm, snode, ssess, recips }) :: j.msgs }
  | .enq m ok batches =>
    match lookup j.msgs m with
    | none => .error "bad-trace-unknown-message"
    | some i =>
      let us := batches.flatMap (·.2)
      -- plan packing (dispatchRecipientPlans): only intended recipients, none twice
      if us.any (fun u => j.packed.count (m, u) + us.count u > i.recips.count u) then .error "plan-packing-wrong-recipient" else
      let j := { j with packed := us.map (fun u => (m, u)) ++ j.packed }
      if ok then .ok { j with enqCnt := batches.map (fun _ => m) ++ j.enqCnt }
      else .ok { j with rejected := m :: j.rejected }
  | .pres m _ ok uids =>
    match lookup j.msgs m with
    | none => .error "bad-trace-unknown-message"
    | some i =>
      if !ok then .ok { j with presCnt := m :: j.presCnt } else
      .ok { j with presCnt := m :: j.presCnt,
                   presOk := uids.map (fun u => (m, u)) ++ j.presOk,
                   expected := (uids.flatMap (fun u => (pushRoutes j.world i u).map (fun r => (m, u, r.1, r.2)))) ++ j.expected }
  | .write m uid node sess d => attempt j m uid node sess (d == 1 || d == 3)
  | .remote m _ ok rs => attemptAll j m ok rs
  | .offline m uids =>
    match lookup j.msgs m with
    | none => .error "bad-trace-unknown-message"
    | some i =>
      if i.mode != 1 then .error "offline-report-for-transient" else
      if uids.any (fun u => !(j.presOk.contains (m, u)) || !(j.world.routes u).isEmpty) then .error "offline-wrong-recipient" else
      if uids.any (fun u => j.offl.count (m, u) + uids.count u > j.presOk.count (m, u)) then .error "offline-duplicate" else
      .ok { j with offl := uids.map (fun u => (m, u)) ++ j.offl }
  | .stopCall => .ok j
  | .stopRet ok =>
    -- a plan whose admission had returned before Stop returned nil has been processed (Stop drains)
    if ok && j.msgs.any (fun p => j.presCnt.count p.1 < j.enqCnt.count p.1) then .error "plan-not-processed-at-stop" else
    .ok { j with stopOk := ok }

/-- end-of-case check (only meaningful after a clean Stop: every accepted plan has completed) -/
def finalJ (j : J) : Except String Unit :=
  if !j.stopOk then .ok () else
  if j.msgs.any (fun p => !(j.rejected.contains p.1) && p.2.recips.any (fun u => j.packed.count (p.1, u) != p.2.recips.count u))
    then .error "plan-packing-lost-recipient" else
  if j.msgs.any (fun p => j.presCnt.count p.1 != j.enqCnt.count p.1) then .error "plan-not-processed" else
  match j.presOk.findSome? (fun (m, u) =>
      match lookup j.msgs m with
      | none => some "bad-trace-unknown-message"
      | some i =>
        if (j.world.routes u).isEmpty then
          (if i.mode == 1 ∧ j.offl.count (m, u) != j.presOk.count (m, u) then some "offline-missing" else none)
        else
          (if (pushRoutes j.world i u).any (fun r => (lookup j.att (m, r.1, r.2)).isNone) then some "route-not-pushed" else none)) with
  | some e => .error e
  | none => .ok ()

def runJ : J → List Ev → Except String J
  | j, [] => .ok j
  | j, e :: es => match stepJ j e with
    | .ok j' => runJ j' es
    | .error m => .error m

/-! ### parser -/

def natOf (s : String) : Option Nat := if s.isEmpty then none else s.toNat?
def natsDot (s : String) : Option (List Nat) := if s.isEmpty then some [] else (s.splitOn ".").mapM natOf

def parseEv (tok : String) : Option Ev :=
  if tok == "T0" then some .stopCall else
  match tok.splitOn ":" with
  | ["T1", r] => (natOf r).map (fun x => .stopRet (x == 1))
  | ["N", m, ch, seq, mode, frm, sn, ss, us] => do
      pure (.msg (← natOf m) (← natOf ch) (← natOf seq) (← natOf mode) (← natOf frm) (← natOf sn) (← natOf ss) (← natsDot us))
  | ["E", m, ok, bs] => do
      let batches ← (bs.splitOn ";").mapM (fun b => match b.splitOn "/" with
        | [g, us] => do pure ((← natOf g), (← natsDot us))
        | _ => none)
      pure (.enq (← natOf m) ((← natOf ok) == 1) batches)
  | ["Q", m, g, ok, us] => do pure (.pres (← natOf m) (← natOf g) ((← natOf ok) == 1) (← natsDot us))
  | ["W", m, u, n, s, d] => do pure (.write (← natOf m) (← natOf u) (← natOf n) (← natOf s) (← natOf d))
  | ["R", m, o, ok, rs] => do
      let routes ← (rs.splitOn ",").mapM (fun r => match r.splitOn "." with
        | [u, n, s, d] => do pure ((← natOf u), (← natOf n), (← natOf s), (← natOf d))
        | _ => none)
      pure (.remote (← natOf m) (← natOf o) ((← natOf ok) == 1) routes)
  | ["F", m, us] => do pure (.offline (← natOf m) (← natsDot us))
  | _ => none

def parseTrace (line : String) : Option (List Ev) :=
  if line == "-" ∨ line == "" then some [] else
  ((line.splitOn " ").filter (· ≠ "")).mapM parseEv

/-- `1=1.11+1.12,2=,3=2.31` -/
def parseWorld (s : String) : Option World :=
  (s.splitOn ",").mapM (fun e => match e.splitOn "=" with
    | [u, rs] => do
        let routes ← if rs.isEmpty then some [] else (rs.splitOn "+").mapM (fun r => match r.splitOn "." with
          | [n, x] => do pure ((← natOf n), (← natOf x))
          | _ => none)
        pure ((← natOf u), routes)
    | _ => none)

end WK.C31

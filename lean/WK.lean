import WK.Prelude.Hex
import WK.Prelude.Drv

//go:build verif

package main

// C27 — pkg/cluster/channels/codec.go: versioned binary RPC codecs (D only),
// reached through the table exported by hooks/C27/pkg__cluster__channels.

import (
	"fmt"
	"os"
	"reflect"

	"github.com/WuKongIM/WuKongIM/pkg/cluster/channels"
)

func init() {
	for _, vc := range channels.VerifCodecs() {
		vc := vc
		c27Reg(&c27Codec{name: "channels." + vc.Name, selfDelim: true, canon: false,
			gen: func(f *c27Filler) any {
				c27ReplFiller(f)
				v := reflect.New(vc.Type).Elem()
				f.Fill(v)
				return v.Interface()
			},
			enc: vc.Encode, dec: vc.Decode,
			eq: func(a, b any) bool {
				ok := c27Equal(a, b)
				if !ok && c27Debug {
					fmt.Fprintf(os.Stderr, "NEQ %s %s\n", vc.Name, c27Diff(reflect.ValueOf(a), reflect.ValueOf(b), ""))
				}
				return ok
			}})
	}
}

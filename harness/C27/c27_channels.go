//go:build verif

package main

// C27 — pkg/cluster/channels/codec.go: versioned binary RPC codecs (D only),
// reached through the table exported by hooks/C27/pkg__cluster__channels.

import (
	"errors"
	"fmt"
	"os"
	"reflect"

	ch "github.com/WuKongIM/WuKongIM/pkg/channel"
	"github.com/WuKongIM/WuKongIM/pkg/cluster/channels"
)

var c27ErrType = reflect.TypeOf((*error)(nil)).Elem()

var c27ChanErrs = []error{ch.ErrInvalidConfig, ch.ErrBackpressured, ch.ErrNotLeader, ch.ErrNotReady, ch.ErrStaleMeta,
	ch.ErrChannelNotFound, ch.ErrNotReplica, ch.ErrClosed, ch.ErrTooManyChannels}

// c27ChanFix repairs a reflection-filled value into what the codec is specified to carry:
//   - batch containers encode a plain count: a nil Items slice comes back empty;
//   - a "not found" head carries no message;
//   - error fields are one of the sentinel classes the RPC error form can name (or a plain message);
//   - known lossy fields (reported as findings) are exercised on a minority of the values only, so
//     that every other field is compared strictly on the rest.
func c27ChanFix(f *c27Filler, v reflect.Value) {
	switch v.Kind() {
	case reflect.Ptr:
		if !v.IsNil() {
			c27ChanFix(f, v.Elem())
		}
	case reflect.Slice, reflect.Array:
		if v.Type().Elem().Kind() == reflect.Uint8 {
			return
		}
		for i := 0; i < v.Len(); i++ {
			c27ChanFix(f, v.Index(i))
		}
	case reflect.Interface:
		if v.Type() == c27ErrType && v.CanSet() && f.R.Chance(35) {
			switch f.R.Intn(3) {
			case 0:
				v.Set(reflect.ValueOf(c27ChanErrs[f.R.Intn(len(c27ChanErrs))]))
			case 1:
				v.Set(reflect.ValueOf(fmt.Errorf("%w: %s", c27ChanErrs[f.R.Intn(len(c27ChanErrs))], f.ID())))
			default:
				v.Set(reflect.ValueOf(errors.New("boom " + f.ID())))
			}
		}
	case reflect.Struct:
		if v.Type() == c27TimeType {
			return
		}
		t := v.Type()
		for i := 0; i < v.NumField(); i++ {
			if t.Field(i).PkgPath == "" {
				c27ChanFix(f, v.Field(i))
			}
		}
		switch t.Name() {
		case "PullBatchRequest", "PullBatchResponse", "PullHintBatchRequest", "PullHintBatchResponse":
			if it := v.FieldByName("Items"); it.IsValid() && it.Kind() == reflect.Slice && it.IsNil() {
				it.Set(reflect.MakeSlice(it.Type(), 0, 0))
			}
		}
		if fd, msg := v.FieldByName("Found"), v.FieldByName("Message"); fd.IsValid() && msg.IsValid() && fd.Kind() == reflect.Bool && !fd.Bool() {
			msg.Set(reflect.Zero(msg.Type()))
		}
		// a failed batch item carries only its error
		if er, rs := v.FieldByName("Err"), v.FieldByName("Response"); t.Name() == "PullBatchItemResult" && er.IsValid() && rs.IsValid() && !er.IsNil() {
			rs.Set(reflect.Zero(rs.Type()))
		}
		if so := v.FieldByName("SyncOnce"); so.IsValid() && so.Kind() == reflect.Bool && (t.Name() == "Message" || t.Name() == "Record") && !f.R.Chance(4) {
			so.SetBool(false)
		}
		if rg := v.FieldByName("RouteGeneration"); rg.IsValid() && t.Name() == "Meta" && !f.R.Chance(4) {
			rg.SetUint(0)
		}
	}
}

func init() {
	for _, vc := range channels.VerifCodecs() {
		vc := vc
		c27Reg(&c27Codec{name: "channels." + vc.Name, selfDelim: true, canon: false,
			gen: func(f *c27Filler) any {
				c27ReplFiller(f)
				v := reflect.New(vc.Type).Elem()
				f.Fill(v)
				c27ChanFix(f, v)
				return v.Interface()
			},
			enc: vc.Encode, dec: vc.Decode,
			eq: func(a, b any) bool {
				ok := c27Equal(a, b)
				if !ok && c27Debug {
					fmt.Fprintf(os.Stderr, "NEQ %s %s\n", vc.Name, c27Diff(reflect.ValueOf(a), reflect.ValueOf(b), ""))
				}
				return ok
			}})
	}
}

//go:build verif

package main

// C27 — pkg/channel/replication/codec.go (exchange batches and results) and
// pkg/controller/command/codec.go (JSON envelope): D only.

import (
	"reflect"

	ch "github.com/WuKongIM/WuKongIM/pkg/channel"
	"github.com/WuKongIM/WuKongIM/pkg/channel/replication"
	"github.com/WuKongIM/WuKongIM/pkg/controller/command"
)

var c27IntType = reflect.TypeOf(int(0))

func c27NonNegInt(f *c27Filler, v reflect.Value) {
	v.SetInt(int64(f.R.BoundaryU64() >> 1 >> uint(f.R.Intn(40))))
}

func c27ReplFiller(f *c27Filler) *c27Filler {
	f.Hooks = map[reflect.Type]func(*c27Filler, reflect.Value){c27IntType: c27NonNegInt}
	return f
}

// c27Sealed builds a proposal (manifest + records) the way the leader does.
func c27Sealed(f *c27Filler) (ch.ProposalManifest, []ch.Record, []ch.EntryIdentity, bool) {
	n := f.R.Range(1, 3)
	epoch := uint64(f.R.Range(1, 9))
	base := uint64(0)
	if f.R.Chance(50) {
		base = uint64(f.R.Range(1, 1000))
	}
	records := make([]ch.Record, n)
	for i := range records {
		p := f.R.Bytes(f.R.Range(1, 40))
		records[i] = ch.Record{ID: f.R.BoundaryU64() | 1, Epoch: epoch, Setting: uint8(f.R.U64()), FromUID: f.NonEmpty(), ClientMsgNo: f.Str(),
			ServerTimestampMS: 1 + int64(f.R.BoundaryU64()>>2), SyncOnce: f.R.Bool(), Payload: p, SizeBytes: len(p)}
	}
	m := ch.ProposalManifest{Version: ch.ProposalManifestVersion, ChannelEpoch: epoch, LeaderTerm: uint64(f.R.Range(1, 50)), FenceVersion: uint64(f.R.Range(1, 50)),
		BaseOffset: base, LastOffset: base + uint64(n)}
	copy(m.CommandID[:], f.R.Bytes(len(m.CommandID)))
	m.CommandID[0] |= 1
	if base > 0 {
		m.PreviousTerm = uint64(f.R.Range(1, 50))
		m.PreviousIndex = base
		copy(m.PreviousDigest[:], f.R.Bytes(len(m.PreviousDigest)))
		m.PreviousDigest[0] |= 1
	}
	sealed, entries, ok := ch.SealProposalManifest(m, records)
	return sealed, records, entries, ok
}

func c27Ident(f *c27Filler) (ch.ChannelKey, ch.ChannelID, ch.NodeID, ch.NodeID) {
	l := ch.NodeID(f.R.Range(1, 1000))
	return ch.ChannelKey(f.NonEmpty()), ch.ChannelID{ID: f.NonEmpty(), Type: uint8(f.R.U64())}, l, l + ch.NodeID(f.R.Range(1, 9))
}

func c27GenBatch(f *c27Filler) any {
	c27ReplFiller(f)
	b := replication.ExchangeBatch{Version: replication.ExchangeVersion, Priority: replication.ExchangePriorityForeground}
	onlyReplicate := f.R.Chance(20)
	if onlyReplicate {
		b.Priority = replication.ExchangePriorityBackground
	}
	n := f.R.Range(1, 4)
	for i := 0; i < n; i++ {
		it := replication.ExchangeItem{RequestID: f.R.BoundaryU64() | 1}
		key, id, l, fo := c27Ident(f)
		kind := f.R.Intn(3)
		if onlyReplicate {
			kind = 0
		}
		m, recs, entries, ok := c27Sealed(f)
		switch kind {
		case 0:
			it.Kind = replication.ExchangeReplicate
			r := replication.ReplicateRequest{ChannelKey: key, ChannelID: id, Leader: l, Follower: fo, Manifest: m, Records: recs,
				ServerAllocatedMessageIDs: f.R.Bool()}
			if ok && f.R.Bool() {
				r.Committed = m.BaseOffset + uint64(f.R.Intn(len(recs)+1))
			}
			it.Replicate = &r
		case 1:
			it.Kind = replication.ExchangeProbe
			p := replication.ProbeRequest{ChannelKey: key, ChannelID: id, Leader: l, Follower: fo}
			if f.R.Chance(70) {
				base := uint64(f.R.Range(1, 100))
				for j, k := 0, f.R.Range(1, 5); j < k; j++ {
					p.Indexes = append(p.Indexes, base+uint64(j)*uint64(f.R.Range(1, 3)+j))
				}
			}
			it.Probe = &p
		default:
			it.Kind = replication.ExchangeFetch
			q := replication.FetchRequest{ChannelKey: key, ChannelID: id, Leader: l, Follower: fo, MaxBytes: f.R.Range(1, 1<<20)}
			if ok {
				tail := entries[len(entries)-1]
				q.Expected = replication.ReplicaState{LEO: m.LastOffset, Committed: uint64(f.R.Intn(int(m.LastOffset) + 1)), Manifest: m, TailIdentity: tail}
				q.From = 1
				q.Through = uint64(f.R.Range(1, int(min(m.LastOffset, 60))))
				if m.LastOffset == uint64(len(entries)) && len(entries) > 1 && f.R.Bool() {
					// continue after the first entry of this proposal
					q.From = 2
					q.Through = uint64(f.R.Range(2, len(entries)))
					q.Previous = entries[0]
				}
			}
			it.Fetch = &q
		}
		b.Items = append(b.Items, it)
	}
	return b
}

func c27GenResult(f *c27Filler) any {
	c27ReplFiller(f)
	r := c27New[replication.ExchangeBatchResult](f)
	r.Version = replication.ExchangeVersion
	if len(r.Items) == 0 {
		r.Items = []replication.ExchangeItemResult{c27New[replication.ExchangeItemResult](f)}
	}
	for i := range r.Items {
		r.Items[i].RequestID |= 1
	}
	return r
}

// ---- declared maxima of the exchange codec (MaxExchangeBatchItems, maxRecoveryProbeIndexes,
// maxRecoveryReplacementProposals = 256; MaxExchangeBatchBytes = 4 MiB) ----

func c27ProbeItem(f *c27Filler, id uint64, indexes int) replication.ExchangeItem {
	key, cid, l, fo := c27Ident(f)
	p := replication.ProbeRequest{ChannelKey: key, ChannelID: cid, Leader: l, Follower: fo}
	for j := 0; j < indexes; j++ {
		p.Indexes = append(p.Indexes, uint64(j)+1)
	}
	return replication.ExchangeItem{RequestID: id, Kind: replication.ExchangeProbe, Probe: &p}
}

// c27SealedN: a proposal of exactly n records at base offset `base`.
func c27SealedN(f *c27Filler, base uint64, n int) (ch.ProposalManifest, []ch.Record, []ch.EntryIdentity, bool) {
	records := make([]ch.Record, n)
	for i := range records {
		records[i] = ch.Record{ID: uint64(i) + 1, Epoch: 3, FromUID: "u", ServerTimestampMS: 1, Payload: []byte{byte(i)}, SizeBytes: 1}
	}
	m := ch.ProposalManifest{Version: ch.ProposalManifestVersion, ChannelEpoch: 3, LeaderTerm: 5, FenceVersion: 7, BaseOffset: base, LastOffset: base + uint64(n)}
	m.CommandID[0] = 9
	if base > 0 {
		m.PreviousTerm, m.PreviousIndex = 4, base
		m.PreviousDigest[0] = 1
	}
	sealed, entries, ok := ch.SealProposalManifest(m, records)
	return sealed, records, entries, ok
}

func c27BatchOf(items ...replication.ExchangeItem) replication.ExchangeBatch {
	return replication.ExchangeBatch{Version: replication.ExchangeVersion, Priority: replication.ExchangePriorityForeground, Items: items}
}

var c27BatchBounds = []c27Bound{
	{name: "items", max: 256, build: func(f *c27Filler, n int) any {
		var items []replication.ExchangeItem
		for i := 0; i < n; i++ {
			items = append(items, c27ProbeItem(f, uint64(i)+1, 1))
		}
		return c27BatchOf(items...)
	}},
	{name: "probe.indexes", max: 256, build: func(f *c27Filler, n int) any { return c27BatchOf(c27ProbeItem(f, 1, n)) }},
	{name: "replicate.records", max: 256, build: func(f *c27Filler, n int) any {
		key, cid, l, fo := c27Ident(f)
		m, recs, _, _ := c27SealedN(f, uint64(f.R.Intn(2))*50, n)
		return c27BatchOf(replication.ExchangeItem{RequestID: 1, Kind: replication.ExchangeReplicate,
			Replicate: &replication.ReplicateRequest{ChannelKey: key, ChannelID: cid, Leader: l, Follower: fo, Manifest: m, Records: recs}})
	}},
	{name: "fetch.span", max: 256, build: func(f *c27Filler, n int) any { // Through-From+1 = n
		key, cid, l, fo := c27Ident(f)
		m, _, entries, _ := c27SealedN(f, 1000, 1)
		st := replication.ReplicaState{LEO: m.LastOffset, Manifest: m, TailIdentity: entries[0]}
		return c27BatchOf(replication.ExchangeItem{RequestID: 1, Kind: replication.ExchangeFetch,
			Fetch: &replication.FetchRequest{ChannelKey: key, ChannelID: cid, Leader: l, Follower: fo, Expected: st, From: 1, Through: uint64(n), MaxBytes: 1 << 20}})
	}},
	{name: "frame.bytes", max: replication.MaxExchangeBatchBytes, build: func(f *c27Filler, n int) any {
		// one probe item whose channel key is sized so that the whole frame is exactly n bytes
		it := c27ProbeItem(f, 1, 0)
		size := func(k int) int {
			it.Probe.ChannelKey = ch.ChannelKey(make([]byte, k))
			b, err := replication.EncodeExchangeBatch(c27BatchOf(it))
			if err != nil {
				return -1
			}
			return len(b)
		}
		overhead := size(1<<20) - (1 << 20) - 3 // the key's length prefix is a 3-byte uvarint at 1 MiB
		k := n - overhead - 4                   // and a 4-byte uvarint from 2 MiB up
		if k < 1<<21 {
			k = n - overhead - 3
		}
		key := make([]byte, k)
		for i := range key {
			key[i] = 'k'
		}
		it.Probe.ChannelKey = ch.ChannelKey(key)
		return c27BatchOf(it)
	}},
}

var c27ResultBounds = []c27Bound{
	{name: "items", max: 256, build: func(f *c27Filler, n int) any {
		r := replication.ExchangeBatchResult{Version: replication.ExchangeVersion}
		for i := 0; i < n; i++ {
			r.Items = append(r.Items, replication.ExchangeItemResult{RequestID: uint64(i) + 1})
		}
		return r
	}},
	{name: "probe.entries", max: 256, build: func(f *c27Filler, n int) any {
		it := replication.ExchangeItemResult{RequestID: 1}
		for i := 0; i < n; i++ {
			it.Probe.Entries = append(it.Probe.Entries, replication.EntryProbe{Index: uint64(i) + 1, Present: i%2 == 0})
		}
		return replication.ExchangeBatchResult{Version: replication.ExchangeVersion, Items: []replication.ExchangeItemResult{it}}
	}},
	{name: "probe.proof.indexes", max: 256, build: func(f *c27Filler, n int) any {
		it := replication.ExchangeItemResult{RequestID: 1}
		for i := 0; i < n; i++ {
			it.Probe.Proof.Indexes = append(it.Probe.Proof.Indexes, uint64(i)+1)
		}
		return replication.ExchangeBatchResult{Version: replication.ExchangeVersion, Items: []replication.ExchangeItemResult{it}}
	}},
	{name: "fetch.proposals", max: 256, build: func(f *c27Filler, n int) any {
		it := replication.ExchangeItemResult{RequestID: 1}
		for i := 0; i < n; i++ {
			it.Fetch.Proposals = append(it.Fetch.Proposals, replication.RecoveryProposal{Manifest: ch.ProposalManifest{ChannelEpoch: uint64(i)}})
		}
		return replication.ExchangeBatchResult{Version: replication.ExchangeVersion, Items: []replication.ExchangeItemResult{it}}
	}},
	{name: "fetch.proposal.records", max: 256, build: func(f *c27Filler, n int) any {
		it := replication.ExchangeItemResult{RequestID: 1}
		m, recs, _, _ := c27SealedN(f, 0, n)
		it.Fetch.Proposals = []replication.RecoveryProposal{{Manifest: m, Records: recs}}
		return replication.ExchangeBatchResult{Version: replication.ExchangeVersion, Items: []replication.ExchangeItemResult{it}}
	}},
}

func init() {
	c27Reg(&c27Codec{name: "repl.batch", selfDelim: true, canon: true, gen: c27GenBatch, bounds: c27BatchBounds,
		enc: func(v any) ([]byte, error) { return replication.EncodeExchangeBatch(v.(replication.ExchangeBatch)) },
		dec: func(b []byte) (any, error) { return replication.DecodeExchangeBatch(b) }})
	c27Reg(&c27Codec{name: "repl.result", selfDelim: true, canon: true, gen: c27GenResult, bounds: c27ResultBounds,
		enc: func(v any) ([]byte, error) {
			return replication.EncodeExchangeBatchResult(v.(replication.ExchangeBatchResult))
		},
		dec: func(b []byte) (any, error) { return replication.DecodeExchangeBatchResult(b) }})
	c27Reg(&c27Codec{name: "controller.command", selfDelim: true, canon: false,
		gen: func(f *c27Filler) any {
			f.ASCII = true
			return c27New[command.Command](f)
		},
		enc: func(v any) ([]byte, error) { return command.Encode(v.(command.Command)) },
		dec: func(b []byte) (any, error) { return command.Decode(b) }})
}

//go:build verif

package main

// C27 — pkg/channel/replication/codec.go (exchange batches and results) and
// pkg/controller/command/codec.go (JSON envelope): D only.

import (
	"reflect"

	ch "github.com/WuKongIM/WuKongIM/pkg/channel"
	"github.com/WuKongIM/WuKongIM/pkg/channel/replication"
	"github.com/WuKongIM/WuKongIM/pkg/controller/command"
)

var c27IntType = reflect.TypeOf(int(0))

func c27NonNegInt(f *c27Filler, v reflect.Value) {
	v.SetInt(int64(f.R.BoundaryU64() >> 1 >> uint(f.R.Intn(40))))
}

func c27ReplFiller(f *c27Filler) *c27Filler {
	f.Hooks = map[reflect.Type]func(*c27Filler, reflect.Value){c27IntType: c27NonNegInt}
	return f
}

// c27Sealed builds a proposal (manifest + records) the way the leader does.
func c27Sealed(f *c27Filler) (ch.ProposalManifest, []ch.Record, []ch.EntryIdentity, bool) {
	n := f.R.Range(1, 3)
	epoch := uint64(f.R.Range(1, 9))
	base := uint64(0)
	if f.R.Chance(50) {
		base = uint64(f.R.Range(1, 1000))
	}
	records := make([]ch.Record, n)
	for i := range records {
		p := f.R.Bytes(f.R.Range(1, 40))
		records[i] = ch.Record{ID: f.R.BoundaryU64() | 1, Epoch: epoch, Setting: uint8(f.R.U64()), FromUID: f.NonEmpty(), ClientMsgNo: f.Str(),
			ServerTimestampMS: 1 + int64(f.R.BoundaryU64()>>2), SyncOnce: f.R.Bool(), Payload: p, SizeBytes: len(p)}
	}
	m := ch.ProposalManifest{Version: ch.ProposalManifestVersion, ChannelEpoch: epoch, LeaderTerm: uint64(f.R.Range(1, 50)), FenceVersion: uint64(f.R.Range(1, 50)),
		BaseOffset: base, LastOffset: base + uint64(n)}
	copy(m.CommandID[:], f.R.Bytes(len(m.CommandID)))
	m.CommandID[0] |= 1
	if base > 0 {
		m.PreviousTerm = uint64(f.R.Range(1, 50))
		m.PreviousIndex = base
		copy(m.PreviousDigest[:], f.R.Bytes(len(m.PreviousDigest)))
		m.PreviousDigest[0] |= 1
	}
	sealed, entries, ok := ch.SealProposalManifest(m, records)
	return sealed, records, entries, ok
}

func c27Ident(f *c27Filler) (ch.ChannelKey, ch.ChannelID, ch.NodeID, ch.NodeID) {
	l := ch.NodeID(f.R.Range(1, 1000))
	return ch.ChannelKey(f.NonEmpty()), ch.ChannelID{ID: f.NonEmpty(), Type: uint8(f.R.U64())}, l, l + ch.NodeID(f.R.Range(1, 9))
}

func c27GenBatch(f *c27Filler) any {
	c27ReplFiller(f)
	b := replication.ExchangeBatch{Version: replication.ExchangeVersion, Priority: replication.ExchangePriorityForeground}
	onlyReplicate := f.R.Chance(20)
	if onlyReplicate {
		b.Priority = replication.ExchangePriorityBackground
	}
	n := f.R.Range(1, 4)
	for i := 0; i < n; i++ {
		it := replication.ExchangeItem{RequestID: f.R.BoundaryU64() | 1}
		key, id, l, fo := c27Ident(f)
		kind := f.R.Intn(3)
		if onlyReplicate {
			kind = 0
		}
		m, recs, entries, ok := c27Sealed(f)
		switch kind {
		case 0:
			it.Kind = replication.ExchangeReplicate
			r := replication.ReplicateRequest{ChannelKey: key, ChannelID: id, Leader: l, Follower: fo, Manifest: m, Records: recs,
				ServerAllocatedMessageIDs: f.R.Bool()}
			if ok && f.R.Bool() {
				r.Committed = m.BaseOffset + uint64(f.R.Intn(len(recs)+1))
			}
			it.Replicate = &r
		case 1:
			it.Kind = replication.ExchangeProbe
			p := replication.ProbeRequest{ChannelKey: key, ChannelID: id, Leader: l, Follower: fo}
			if f.R.Chance(70) {
				base := uint64(f.R.Range(1, 100))
				for j, k := 0, f.R.Range(1, 5); j < k; j++ {
					p.Indexes = append(p.Indexes, base+uint64(j)*uint64(f.R.Range(1, 3)+j))
				}
			}
			it.Probe = &p
		default:
			it.Kind = replication.ExchangeFetch
			q := replication.FetchRequest{ChannelKey: key, ChannelID: id, Leader: l, Follower: fo, MaxBytes: f.R.Range(1, 1<<20)}
			if ok {
				tail := entries[len(entries)-1]
				q.Expected = replication.ReplicaState{LEO: m.LastOffset, Committed: uint64(f.R.Intn(int(m.LastOffset) + 1)), Manifest: m, TailIdentity: tail}
				q.From = 1
				q.Through = uint64(f.R.Range(1, int(min(m.LastOffset, 60))))
				if m.LastOffset == uint64(len(entries)) && len(entries) > 1 && f.R.Bool() {
					// continue after the first entry of this proposal
					q.From = 2
					q.Through = uint64(f.R.Range(2, len(entries)))
					q.Previous = entries[0]
				}
			}
			it.Fetch = &q
		}
		b.Items = append(b.Items, it)
	}
	return b
}

func c27GenResult(f *c27Filler) any {
	c27ReplFiller(f)
	r := c27New[replication.ExchangeBatchResult](f)
	r.Version = replication.ExchangeVersion
	if len(r.Items) == 0 {
		r.Items = []replication.ExchangeItemResult{c27New[replication.ExchangeItemResult](f)}
	}
	for i := range r.Items {
		r.Items[i].RequestID |= 1
	}
	return r
}

func init() {
	c27Reg(&c27Codec{name: "repl.batch", selfDelim: true, canon: true, gen: c27GenBatch,
		enc: func(v any) ([]byte, error) { return replication.EncodeExchangeBatch(v.(replication.ExchangeBatch)) },
		dec: func(b []byte) (any, error) { return replication.DecodeExchangeBatch(b) }})
	c27Reg(&c27Codec{name: "repl.result", selfDelim: true, canon: true, gen: c27GenResult,
		enc: func(v any) ([]byte, error) {
			return replication.EncodeExchangeBatchResult(v.(replication.ExchangeBatchResult))
		},
		dec: func(b []byte) (any, error) { return replication.DecodeExchangeBatchResult(b) }})
	c27Reg(&c27Codec{name: "controller.command", selfDelim: true, canon: false,
		gen: func(f *c27Filler) any {
			f.ASCII = true
			return c27New[command.Command](f)
		},
		enc: func(v any) ([]byte, error) { return command.Encode(v.(command.Command)) },
		dec: func(b []byte) (any, error) { return command.Decode(b) }})
}

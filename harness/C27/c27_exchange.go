//go:build verif

package main

// C27 — the replication exchange batch envelope with probe items, modelled in Lean
// (WK/Model/C27_Exchange.lean):
//   xb <hex>     replication.DecodeExchangeBatch; for an accepted batch also EncodeExchangeBatch of the result
//     err | ok p=<priority> [<id> k=<kind> <keyhex> <cidhex> <type> <leader> <follower> <nil|-|i1,i2,..>]... re=<same|diff|err>
//     (items of another kind print as [<id> k=<kind>]; the driver does not compare those lines with the model)

import (
	"bytes"
	"fmt"
	"strings"

	"github.com/WuKongIM/WuKongIM/pkg/channel/replication"
)

func c27XB(data []byte) string {
	b, err := replication.DecodeExchangeBatch(data)
	if err != nil {
		return "err"
	}
	var sb strings.Builder
	fmt.Fprintf(&sb, "ok p=%d", uint8(b.Priority))
	for _, it := range b.Items {
		if it.Kind != replication.ExchangeProbe || it.Probe == nil {
			fmt.Fprintf(&sb, " [%d k=%d]", it.RequestID, uint8(it.Kind))
			continue
		}
		p := it.Probe
		idx := "nil"
		if p.Indexes != nil {
			idx = "-"
			if len(p.Indexes) > 0 {
				var s []string
				for _, x := range p.Indexes {
					s = append(s, fmt.Sprint(x))
				}
				idx = strings.Join(s, ",")
			}
		}
		fmt.Fprintf(&sb, " [%d k=%d %s %s %d %d %d %s]", it.RequestID, uint8(it.Kind), Hex([]byte(p.ChannelKey)), Hex([]byte(p.ChannelID.ID)),
			p.ChannelID.Type, uint64(p.Leader), uint64(p.Follower), idx)
	}
	re, err := replication.EncodeExchangeBatch(b)
	switch {
	case err != nil:
		sb.WriteString(" re=err")
	case bytes.Equal(re, data):
		sb.WriteString(" re=same")
	default:
		sb.WriteString(" re=diff")
	}
	return sb.String()
}

// hand-written encoder of a foreground batch of probe items (generator side)
type c27XProbe struct {
	id, leader, follower uint64
	key, cid             []byte
	typ                  byte
	idx                  []uint64
	nilIdx               bool
}

func c27XEncode(version uint64, prio byte, items []c27XProbe) []byte {
	out := c27Uvarint(version)
	out = append(out, prio)
	out = append(out, c27Uvarint(uint64(len(items)))...)
	for _, it := range items {
		out = append(out, c27Uvarint(it.id)...)
		out = append(out, 2)
		out = append(append(out, c27Uvarint(uint64(len(it.key)))...), it.key...)
		out = append(append(out, c27Uvarint(uint64(len(it.cid)))...), it.cid...)
		out = append(out, it.typ)
		out = append(out, c27Uvarint(it.leader)...)
		out = append(out, c27Uvarint(it.follower)...)
		if it.nilIdx {
			out = append(out, 0)
		} else {
			out = append(out, c27Uvarint(uint64(len(it.idx))+1)...)
			for _, x := range it.idx {
				out = append(out, c27Uvarint(x)...)
			}
		}
	}
	return out
}

func genC27Exchange(g *Gen) {
	n := g.N / 3
	if n < 150 {
		n = 150
	}
	probe := func(nidx int) c27XProbe {
		p := c27XProbe{id: g.R.BoundaryU64() | 1, leader: uint64(g.R.Range(1, 1000)), key: g.R.Bytes(g.R.Range(1, 12)), cid: g.R.Bytes(g.R.Range(1, 12)), typ: byte(g.R.U64())}
		p.follower = p.leader + uint64(g.R.Range(1, 5))
		if nidx < 0 {
			p.nilIdx = true
		} else {
			base := uint64(g.R.Range(1, 1<<20))
			for j := 0; j < nidx; j++ {
				p.idx = append(p.idx, base+uint64(j))
			}
		}
		return p
	}
	// the declared maxima exactly
	for _, k := range []int{255, 256, 257} {
		g.Count("xb:boundary")
		g.Op("xb", "%s", Hex(c27XEncode(3, 0, []c27XProbe{probe(k)})))
		var items []c27XProbe
		for i := 0; i < k; i++ {
			items = append(items, probe(-1))
		}
		g.Op("xb", "%s", Hex(c27XEncode(3, 0, items)))
	}
	for i := 0; i < n; i++ {
		var items []c27XProbe
		for j, m := 0, g.R.Range(1, 4); j < m; j++ {
			items = append(items, probe([]int{-1, 0, 1, 2, g.R.Range(3, 9)}[g.R.Intn(5)]))
		}
		version, prio := uint64(3), byte(0)
		what := "valid"
		switch g.R.Pick(10, 1, 1, 1, 1, 1, 1, 1, 1) {
		case 1:
			version = []uint64{0, 1, 2, 4, g.R.U64()}[g.R.Intn(5)]
			what = "version"
		case 2:
			prio = byte(g.R.Range(1, 3))
			what = "priority"
		case 3:
			items[0].id = 0
			what = "zero-id"
		case 4:
			items[0].follower = items[0].leader
			what = "leader=follower"
		case 5:
			if len(items[0].idx) > 0 {
				items[0].idx[g.R.Intn(len(items[0].idx))] = 0
			}
			what = "zero-index"
		case 6:
			if len(items[0].idx) > 1 {
				items[0].idx[0] = items[0].idx[len(items[0].idx)-1]
			}
			what = "dup-index"
		case 7:
			items[0].key = nil
			what = "empty-key"
		case 8:
			items = nil
			what = "no-items"
		}
		b := c27XEncode(version, prio, items)
		switch g.R.Pick(10, 3, 4, 2) {
		case 1:
			b = b[:g.R.Intn(len(b)+1)]
			what += "+trunc"
		case 2:
			b, _ = c27Mutate(g.R, b)
			what += "+mut"
		case 3:
			b = append(b, g.R.Bytes(g.R.Range(1, 3))...)
			what += "+trailing"
		}
		g.Count("xb:" + what)
		g.Op("xb", "%s", Hex(b))
	}
}

//go:build verif

package main

// C27 — pkg/slot/fsm/command.go: TLV slot-FSM commands (D only).  Encoders are
// the package's exported Encode*Command functions; the decoder is the private
// decodeCommand reached through hooks/C27/pkg__slot__fsm (field values of the
// decoded command struct).

import (
	"fmt"
	"os"
	"reflect"
	"sort"

	metadb "github.com/WuKongIM/WuKongIM/pkg/db/meta"
	"github.com/WuKongIM/WuKongIM/pkg/slot/fsm"
)

var c27Debug = os.Getenv("C27_DEBUG") != ""

// fsmEntry registers a command codec whose decoded struct carries the payload
// value(s); from rebuilds the harness-side value from the decoded fields.
func fsmEntry[T any](name string, gen func(f *c27Filler) T, enc func(T) ([]byte, error), from func(fields []any) (T, bool)) {
	c27Reg(&c27Codec{name: "fsm." + name, selfDelim: false,
		gen: func(f *c27Filler) any { return gen(f) },
		enc: func(v any) ([]byte, error) { return enc(v.(T)) },
		dec: func(b []byte) (any, error) {
			tn, fields, err := fsm.VerifDecodeCommand(b)
			if err != nil {
				return nil, err
			}
			v, ok := from(fields)
			if !ok {
				return nil, fmt.Errorf("harness: unexpected decoded shape %s %d fields", tn, len(fields))
			}
			return v, nil
		},
		eq: func(a, b any) bool {
			ok := c27Equal(a, b)
			if !ok && c27Debug {
				fmt.Fprintf(os.Stderr, "NEQ %s\n want %+v\n got  %+v\n", name, a, b)
			}
			return ok
		}})
}

func fsmOne[T any](fields []any) (T, bool) {
	var zero T
	for _, f := range fields {
		if v, ok := f.(T); ok {
			return v, true
		}
	}
	return zero, false
}

type fsmIDType struct {
	ID   string
	Type int64
}

type fsmSubs struct {
	ID      string
	Type    int64
	UIDs    []string
	Version uint64
}

func fsmSortedUniqueU64(f *c27Filler, allowNil bool) []uint64 {
	if allowNil && f.R.Chance(25) {
		return nil
	}
	m := map[uint64]bool{}
	for i, n := 0, f.R.Range(1, 5); i < n; i++ {
		m[uint64(f.R.Range(1, 50))] = true
	}
	var out []uint64
	for k := range m {
		out = append(out, k)
	}
	sort.Slice(out, func(i, j int) bool { return out[i] < out[j] })
	return out
}

func fsmSortedUniqueStr(f *c27Filler) []string {
	m := map[string]bool{}
	for i, n := 0, f.R.Range(1, 5); i < n; i++ {
		m[f.ID()] = true // no NUL: the string-set wire form joins members with "\x00"
	}
	var out []string
	for k := range m {
		out = append(out, k)
	}
	sort.Strings(out)
	return out
}

func fsmNoErr[T any](enc func(T) []byte) func(T) ([]byte, error) {
	return func(v T) ([]byte, error) { return enc(v), nil }
}

func init() {
	user := func(f *c27Filler) metadb.User { return c27New[metadb.User](f) }
	fsmEntry("upsert_user", user, fsmNoErr(fsm.EncodeUpsertUserCommand), fsmOne[metadb.User])
	fsmEntry("create_user", user, fsmNoErr(fsm.EncodeCreateUserCommand), fsmOne[metadb.User])
	fsmEntry("upsert_device", func(f *c27Filler) metadb.Device { return c27New[metadb.Device](f) },
		fsmNoErr(fsm.EncodeUpsertDeviceCommand), fsmOne[metadb.Device])
	channel := func(f *c27Filler) metadb.Channel {
		c := c27New[metadb.Channel](f)
		// store-maintained columns are not part of the command
		c.SubscriberMutationVersion, c.SubscriberCount, c.DirectoryProjectionState, c.DirectoryProjectionGeneration = 0, 0, 0, 0
		return c
	}
	fsmEntry("upsert_channel", channel, fsmNoErr(fsm.EncodeUpsertChannelCommand), fsmOne[metadb.Channel])
	fsmEntry("create_channel", channel, fsmNoErr(fsm.EncodeCreateChannelCommand), fsmOne[metadb.Channel])
	idType := func(f *c27Filler) fsmIDType { return fsmIDType{f.Str(), f.Int64()} }
	fromIDType := func(fields []any) (fsmIDType, bool) {
		if len(fields) != 2 {
			return fsmIDType{}, false
		}
		id, ok1 := fields[0].(string)
		t, ok2 := fields[1].(int64)
		return fsmIDType{id, t}, ok1 && ok2
	}
	fsmEntry("delete_channel", idType, func(v fsmIDType) ([]byte, error) { return fsm.EncodeDeleteChannelCommand(v.ID, v.Type), nil }, fromIDType)
	fsmEntry("delete_channel_runtime_meta", idType, func(v fsmIDType) ([]byte, error) {
		return fsm.EncodeDeleteChannelRuntimeMetaCommand(v.ID, v.Type), nil
	}, fromIDType)
	fsmEntry("upsert_channel_runtime_meta", func(f *c27Filler) metadb.ChannelRuntimeMeta {
		m := c27New[metadb.ChannelRuntimeMeta](f)
		m.Replicas = fsmSortedUniqueU64(f, true)
		m.ISR = fsmSortedUniqueU64(f, true)
		m.DirectoryGeneration = 0 // store-maintained, not carried by the command
		return metadb.NormalizeChannelRuntimeMeta(m)
	}, fsmNoErr(fsm.EncodeUpsertChannelRuntimeMetaCommand), fsmOne[metadb.ChannelRuntimeMeta])
	fsmEntry("advance_channel_retention", func(f *c27Filler) metadb.ChannelRetentionAdvance {
		return c27New[metadb.ChannelRetentionAdvance](f)
	}, fsmNoErr(fsm.EncodeAdvanceChannelRetentionThroughSeqCommand), fsmOne[metadb.ChannelRetentionAdvance])
	subs := func(f *c27Filler) fsmSubs {
		return fsmSubs{f.Str(), f.Int64(), fsmSortedUniqueStr(f), []uint64{0, 1, f.R.BoundaryU64()}[f.R.Intn(3)]}
	}
	fromSubs := func(fields []any) (fsmSubs, bool) {
		if len(fields) < 4 {
			return fsmSubs{}, false
		}
		id, ok1 := fields[0].(string)
		t, ok2 := fields[1].(int64)
		u, ok3 := fields[2].([]string)
		ver, ok4 := fields[3].(uint64)
		return fsmSubs{id, t, u, ver}, ok1 && ok2 && ok3 && ok4
	}
	fsmEntry("add_subscribers", subs, func(v fsmSubs) ([]byte, error) {
		return fsm.EncodeAddSubscribersCommandChecked(v.ID, v.Type, v.UIDs, v.Version)
	}, fromSubs)
	fsmEntry("remove_subscribers", subs, func(v fsmSubs) ([]byte, error) {
		return fsm.EncodeRemoveSubscribersCommandChecked(v.ID, v.Type, v.UIDs, v.Version)
	}, fromSubs)
	members := func(f *c27Filler) []metadb.UserChannelMembership {
		n := f.R.Range(1, 4)
		out := make([]metadb.UserChannelMembership, n)
		for i := range out {
			out[i] = c27New[metadb.UserChannelMembership](f)
		}
		return out
	}
	type mEnc = func([]metadb.UserChannelMembership) []byte
	for name, e := range map[string]mEnc{
		"upsert_user_channel_memberships":          fsm.EncodeUpsertUserChannelMembershipsCommand,
		"delete_user_channel_memberships":          fsm.EncodeDeleteUserChannelMembershipsCommand,
		"advance_user_channel_membership_read_seq": fsm.EncodeAdvanceUserChannelMembershipReadSeqCommand,
		"hide_user_channel_membership":             fsm.EncodeHideUserChannelMembershipCommand,
		"activate_user_channel_membership":         fsm.EncodeActivateUserChannelMembershipCommand,
	} {
		fsmEntry(name, members, fsmNoErr(e), fsmOne[[]metadb.UserChannelMembership])
	}
	cmdMembers := func(f *c27Filler) []metadb.UserCMDChannelMembership {
		n := f.R.Range(1, 4)
		out := make([]metadb.UserCMDChannelMembership, n)
		for i := range out {
			out[i] = c27New[metadb.UserCMDChannelMembership](f)
		}
		return out
	}
	type cEnc = func([]metadb.UserCMDChannelMembership) []byte
	for name, e := range map[string]cEnc{
		"upsert_user_cmd_channel_memberships":       fsm.EncodeUpsertUserCMDChannelMembershipsCommand,
		"advance_user_cmd_channel_membership_acks":  fsm.EncodeAdvanceUserCMDChannelMembershipAcksCommand,
		"tombstone_user_cmd_channel_memberships":    fsm.EncodeTombstoneUserCMDChannelMembershipsCommand,
	} {
		fsmEntry(name, cmdMembers, fsmNoErr(e), fsmOne[[]metadb.UserCMDChannelMembership])
	}
	latest := func(f *c27Filler) metadb.ChannelLatest {
		l := c27New[metadb.ChannelLatest](f)
		if l.ChannelID == "" {
			l.ChannelID = f.NonEmpty()
		}
		if l.ChannelType == 0 {
			l.ChannelType = 1
		}
		return l
	}
	fsmEntry("upsert_channel_latest", latest, fsm.EncodeUpsertChannelLatestCommandChecked, fsmOne[metadb.ChannelLatest])
	fsmEntry("upsert_channel_latest_batch", func(f *c27Filler) []fsm.ChannelLatestBatchItem {
		n := f.R.Range(1, 3)
		out := make([]fsm.ChannelLatestBatchItem, n)
		for i := range out {
			out[i] = fsm.ChannelLatestBatchItem{HashSlot: uint16(f.R.BoundaryU64()), Latest: latest(f)}
		}
		return out
	}, fsm.EncodeUpsertChannelLatestBatchCommandChecked, fsmOne[[]fsm.ChannelLatestBatchItem])

	// declared maxima of subscriber commands: MaxSubscriberCommandUIDs = 1000 uids, MaxSubscriberCommandUIDBytes = 64 KiB
	uidsN := func(n int) []string {
		out := make([]string, n)
		for i := range out {
			out[i] = fmt.Sprintf("u%06d", i)
		}
		return out
	}
	subBounds := []c27Bound{
		{name: "uids", max: fsm.MaxSubscriberCommandUIDs, build: func(f *c27Filler, n int) any { return fsmSubs{"c", 2, uidsN(n), 1} }},
		{name: "uid.bytes", max: fsm.MaxSubscriberCommandUIDBytes, build: func(f *c27Filler, n int) any {
			// two uids joined by one separator: total encoded size exactly n
			a := make([]byte, n/2)
			b := make([]byte, n-n/2-1)
			for i := range a {
				a[i] = 'a'
			}
			for i := range b {
				b[i] = 'b'
			}
			return fsmSubs{"c", 2, []string{string(a), string(b)}, 0}
		}},
	}
	c27Codecs["fsm.add_subscribers"].bounds = subBounds
	c27Codecs["fsm.remove_subscribers"].bounds = subBounds

	// apply-result codecs
	c27Reg(&c27Codec{name: "fsm.subscriber_mutation_result", selfDelim: true, canon: true,
		gen: func(f *c27Filler) any {
			return metadb.SubscriberMutationResult{RequestedCount: int(f.R.BoundaryU64() >> 1), ChangedCount: int(f.R.BoundaryU64() >> 1)}
		},
		enc: func(v any) ([]byte, error) {
			r := v.(metadb.SubscriberMutationResult)
			return fsm.EncodeSubscriberMutationResult(&r), nil
		},
		dec: func(b []byte) (any, error) { return fsm.DecodeSubscriberMutationResult(b) }})
	c27Reg(&c27Codec{name: "fsm.channel_conditional_result", selfDelim: true, canon: true,
		gen: func(f *c27Filler) any { return f.R.Bool() },
		enc: func(v any) ([]byte, error) {
			return fsm.EncodeChannelConditionalMutationResult(&metadb.ChannelConditionalMutationResult{Applied: v.(bool)}), nil
		},
		dec: func(b []byte) (any, error) { return fsm.DecodeChannelConditionalMutationResult(b) }})
	_ = reflect.TypeOf
}

//go:build verif

package main

// C27 — the codecs and primitives that are fully modelled in Lean:
//   pp <hashSlot> <hexcmd>                         propose.EncodePayload then DecodePayload
//   pd <hex>                                       propose.DecodePayload
//   fe <slot> <hashSlot> <class> <want> <hexpl>    propose.EncodeForwardRequest then DecodeForwardRequest
//   fd <hex>                                       propose.DecodeForwardRequest
//   nh <hexbuf> <version> <kind>                   clusternet.PutHeader
//   nc <hex> <version> <kind>                      clusternet.CheckHeader
//   au <u64>                                       replication appendCodecUvarint
//   cu <kind> <hex> <max>                          replication exchangeCursor primitive at offset 0
//   ab <hex>                                       appendCodecBytes then cursor.bytes (+ trailing garbage untouched)

import (
	"errors"
	"fmt"
	"strconv"

	clusternet "github.com/WuKongIM/WuKongIM/pkg/cluster/net"
	"github.com/WuKongIM/WuKongIM/pkg/cluster/propose"
	"github.com/WuKongIM/WuKongIM/pkg/channel/replication"
)

func c27FwdStr(r propose.ForwardRequest) string {
	return fmt.Sprintf("%d %d %d %d %s", r.SlotID, r.HashSlot, uint8(r.Class), c27B(r.WantResult), Hex(r.Payload))
}

func c27SmallStep(f []string) string {
	u := func(s string, bits int) (uint64, bool) {
		v, err := strconv.ParseUint(s, 10, bits)
		return v, err == nil
	}
	switch f[0] {
	case "pp":
		if len(f) != 3 {
			return "bad-op"
		}
		hs, ok := u(f[1], 16)
		if !ok {
			return "bad-op"
		}
		enc := propose.EncodePayload(uint16(hs), UnHex(f[2]))
		h2, cmd, err := propose.DecodePayload(enc)
		if err != nil {
			return Hex(enc) + " err"
		}
		return fmt.Sprintf("%s ok %d %s", Hex(enc), h2, Hex(cmd))
	case "pd":
		if len(f) != 2 {
			return "bad-op"
		}
		hs, cmd, err := propose.DecodePayload(UnHex(f[1]))
		if err != nil {
			if !errors.Is(err, propose.ErrInvalidPayload) {
				return "err:other"
			}
			return "err"
		}
		return fmt.Sprintf("ok %d %s", hs, Hex(cmd))
	case "fe":
		if len(f) != 6 {
			return "bad-op"
		}
		slot, ok1 := u(f[1], 32)
		hs, ok2 := u(f[2], 16)
		cl, ok3 := u(f[3], 8)
		w, ok4 := u(f[4], 1)
		if !ok1 || !ok2 || !ok3 || !ok4 {
			return "bad-op"
		}
		req := propose.ForwardRequest{SlotID: uint32(slot), HashSlot: uint16(hs), Class: propose.ProposalClass(cl), WantResult: w == 1, Payload: UnHex(f[5])}
		enc, err := propose.EncodeForwardRequest(req)
		if err != nil {
			if !errors.Is(err, propose.ErrInvalidRequest) {
				return "err:other"
			}
			return "err"
		}
		d, err := propose.DecodeForwardRequest(enc)
		if err != nil {
			return Hex(enc) + " err"
		}
		return Hex(enc) + " ok " + c27FwdStr(d)
	case "fd":
		if len(f) != 2 {
			return "bad-op"
		}
		d, err := propose.DecodeForwardRequest(UnHex(f[1]))
		if err != nil {
			if !errors.Is(err, propose.ErrInvalidPayload) {
				return "err:other"
			}
			return "err"
		}
		return "ok " + c27FwdStr(d)
	case "nh":
		if len(f) != 4 {
			return "bad-op"
		}
		v, ok1 := u(f[2], 8)
		k, ok2 := u(f[3], 8)
		if !ok1 || !ok2 {
			return "bad-op"
		}
		return Hex(clusternet.PutHeader(UnHex(f[1]), uint8(v), uint8(k)))
	case "nc":
		if len(f) != 4 {
			return "bad-op"
		}
		v, ok1 := u(f[2], 8)
		k, ok2 := u(f[3], 8)
		if !ok1 || !ok2 {
			return "bad-op"
		}
		p, err := clusternet.CheckHeader(UnHex(f[1]), uint8(v), uint8(k))
		if err != nil {
			if !errors.Is(err, clusternet.ErrInvalidFrame) {
				return "err:other"
			}
			return "err"
		}
		return "ok " + Hex(p)
	case "au":
		if len(f) != 2 {
			return "bad-op"
		}
		v, ok := u(f[1], 64)
		if !ok {
			return "bad-op"
		}
		return Hex(replication.VerifAppendUvarint(nil, v))
	case "cu":
		if len(f) != 4 {
			return "bad-op"
		}
		max, err := strconv.Atoi(f[3])
		if err != nil {
			return "bad-op"
		}
		uv, iv, bv, flag, off, ok := replication.VerifCursor(f[1], UnHex(f[2]), max)
		if !ok {
			return "err"
		}
		switch f[1] {
		case "uvarint", "byte", "count":
			return fmt.Sprintf("ok %d off=%d", uv, off)
		case "varint":
			return fmt.Sprintf("ok %d off=%d", iv, off)
		case "bytes", "fixed32":
			return fmt.Sprintf("ok %s off=%d", Hex(bv), off)
		case "bool":
			return fmt.Sprintf("ok %d off=%d", c27B(flag), off)
		case "slicecount":
			return fmt.Sprintf("ok %d nil=%d off=%d", uv, c27B(flag), off)
		}
		return "bad-op"
	case "ab":
		if len(f) != 2 {
			return "bad-op"
		}
		return Hex(replication.VerifAppendBytes(nil, UnHex(f[1])))
	case "xb":
		if len(f) != 2 {
			return "bad-op"
		}
		return c27XB(UnHex(f[1]))
	}
	return "bad-op"
}

func genC27Small(g *Gen) {
	genC27Exchange(g)
	n := g.N / 2
	if n < 200 {
		n = 200
	}
	pay := func() []byte {
		switch g.R.Intn(5) {
		case 0:
			return nil
		case 1:
			return g.R.Bytes(1)
		default:
			return g.R.Bytes(g.R.Range(1, 60))
		}
	}
	// directed
	for _, v := range []uint64{0, 1, 127, 128, 255, 16383, 16384, 1<<32 - 1, 1 << 32, 1<<63 - 1, 1 << 63, 1<<64 - 1} {
		g.Op("au", "%d", v)
		enc := c27Uvarint(v)
		g.Op("cu", "uvarint %s 0", Hex(enc))
		for k := 0; k < len(enc); k++ {
			g.Op("cu", "uvarint %s 0", Hex(enc[:k]))
		}
		g.Op("cu", "slicecount %s 1024", Hex(enc))
		g.Op("cu", "count %s 256", Hex(enc))
		g.Op("cu", "bytes %s 0", Hex(append(enc, g.R.Bytes(40)...)))
	}
	for _, b := range [][]byte{{0xff, 0xff, 0xff, 0xff, 0xff, 0xff, 0xff, 0xff, 0xff, 0x01}, {0xff, 0xff, 0xff, 0xff, 0xff, 0xff, 0xff, 0xff, 0xff, 0x02},
		{0x80, 0x80, 0x80, 0x80, 0x80, 0x80, 0x80, 0x80, 0x80, 0x80, 0x01}, {0x80, 0x00}, {0x80, 0x80, 0x00}} {
		g.Op("cu", "uvarint %s 0", Hex(b))
		g.Op("cu", "varint %s 0", Hex(b))
		g.Op("cu", "bytes %s 0", Hex(b))
	}
	// counts exactly at their declared maximum (wire value = count for `count`, count+1 for `slicecount`)
	for _, mx := range []int{0, 1, 16, 256, 4 << 20} {
		for d := -1; d <= 2; d++ {
			if v := mx + d; v >= 0 {
				g.Count("cu:boundary")
				g.Op("cu", "count %s %d", Hex(c27Uvarint(uint64(v))), mx)
				g.Op("cu", "slicecount %s %d", Hex(c27Uvarint(uint64(v))), mx)
			}
		}
	}
	for i := 0; i < n; i++ {
		switch g.R.Pick(2, 2, 3, 4, 1, 2, 2, 5, 1) {
		case 0:
			g.Op("pp", "%d %s", g.R.BoundaryU64()&0xffff, Hex(pay()))
		case 1:
			var b []byte
			switch g.R.Intn(4) {
			case 0:
				b = g.R.Bytes(g.R.Intn(4))
			case 1:
				b = append([]byte{1}, g.R.Bytes(g.R.Intn(10))...)
			default:
				b = g.R.Bytes(g.R.Range(3, 30))
				b[0] = byte(g.R.Intn(3))
			}
			g.Count("pd")
			g.Op("pd", "%s", Hex(b))
		case 2:
			slot := g.R.BoundaryU64() & 0xffffffff
			if g.R.Chance(10) {
				slot = 0
			}
			g.Op("fe", "%d %d %d %d %s", slot, g.R.BoundaryU64()&0xffff, []uint64{0, 1, 2, 255, g.R.U64() & 0xff}[g.R.Intn(5)], g.R.Intn(2), Hex(pay()))
		case 3: // a forward frame of one of the three versions, then damaged
			ver := byte(g.R.Range(1, 3))
			p := pay()
			hdr := map[byte]int{1: 11, 2: 12, 3: 13}[ver]
			b := make([]byte, hdr, hdr+len(p))
			b[0] = ver
			copy(b[1:], g.R.Bytes(hdr-5))
			plen := uint32(len(p))
			what := "fd:exact"
			switch g.R.Pick(6, 1, 1, 1, 1) {
			case 1:
				plen++
				what = "fd:len+1"
			case 2:
				if plen > 0 {
					plen--
				}
				what = "fd:len-1"
			case 3:
				plen = uint32(g.R.U64())
				what = "fd:len-random"
			case 4:
				b[0] = byte(g.R.U64())
				what = "fd:version-random"
			}
			b[hdr-4], b[hdr-3], b[hdr-2], b[hdr-1] = byte(plen>>24), byte(plen>>16), byte(plen>>8), byte(plen)
			b = append(b, p...)
			if g.R.Chance(15) {
				b = b[:g.R.Intn(len(b)+1)]
				what = "fd:truncated"
			}
			g.Count(what)
			g.Op("fd", "%s", Hex(b))
		case 4:
			g.Op("nh", "%s %d %d", Hex(g.R.Bytes(g.R.Intn(6))), g.R.Intn(256), g.R.Intn(256))
		case 5:
			v, k := g.R.Intn(4), g.R.Intn(4)
			b := append([]byte{byte(v), byte(k)}, g.R.Bytes(g.R.Intn(12))...)
			switch g.R.Intn(5) {
			case 0:
				b = b[:g.R.Intn(2)]
			case 1:
				v = g.R.Intn(4)
			case 2:
				k = g.R.Intn(4)
			}
			g.Op("nc", "%s %d %d", Hex(b), v, k)
		case 6:
			g.Op("au", "%d", g.R.BoundaryU64())
		case 7:
			kind := []string{"uvarint", "varint", "bytes", "bool", "byte", "count", "slicecount", "fixed32"}[g.R.Intn(8)]
			var b []byte
			switch g.R.Intn(4) {
			case 0:
				b = g.R.Bytes(g.R.Intn(12))
			case 1: // valid uvarint followed by data
				b = append(c27Uvarint(g.R.BoundaryU64()), g.R.Bytes(g.R.Intn(40))...)
			case 2: // small declared length with enough / not enough data
				l := g.R.Intn(40)
				b = append(c27Uvarint(uint64(l)), g.R.Bytes(max(0, l+g.R.Intn(5)-2+2*g.R.Intn(2)))...)
			default:
				b = g.R.Bytes(g.R.Range(30, 50))
			}
			if kind == "bool" && len(b) > 0 && g.R.Chance(70) {
				b[0] = byte(g.R.Intn(3))
			}
			g.Count("cu:" + kind)
			g.Op("cu", "%s %s %d", kind, Hex(b), []int{0, 1, 16, 256, 4 << 20}[g.R.Intn(5)])
		default:
			g.Op("ab", "%s", Hex(pay()))
		}
	}
}

// c27Uvarint: LEB128 written by hand (generator side, independent of the code under test).
func c27Uvarint(v uint64) []byte {
	var b []byte
	for v >= 0x80 {
		b = append(b, byte(v)|0x80)
		v >>= 7
	}
	return append(b, byte(v))
}

// the modelled codecs also go through the generic round-trip/garbage ops
func init() {
	c27Reg(&c27Codec{name: "propose.payload", selfDelim: false, canon: true,
		gen: func(f *c27Filler) any {
			type pv struct {
				HS  uint16
				Cmd []byte
			}
			p := c27New[pv](f)
			return [2]any{p.HS, p.Cmd}
		},
		enc: func(v any) ([]byte, error) {
			p := v.([2]any)
			return propose.EncodePayload(p[0].(uint16), p[1].([]byte)), nil
		},
		dec: func(b []byte) (any, error) {
			hs, cmd, err := propose.DecodePayload(b)
			return [2]any{hs, cmd}, err
		}})
	c27Reg(&c27Codec{name: "propose.forward", selfDelim: true, canon: false,
		gen: func(f *c27Filler) any {
			r := c27New[propose.ForwardRequest](f)
			if r.SlotID == 0 {
				r.SlotID = 1
			}
			if len(r.Payload) == 0 {
				r.Payload = []byte{7}
			}
			r.Class &= 1
			return r
		},
		enc: func(v any) ([]byte, error) { return propose.EncodeForwardRequest(v.(propose.ForwardRequest)) },
		dec: func(b []byte) (any, error) { return propose.DecodeForwardRequest(b) }})
	c27Reg(&c27Codec{name: "clusternet.header", selfDelim: false, canon: true,
		gen: func(f *c27Filler) any { return c27New[[]byte](f) },
		enc: func(v any) ([]byte, error) {
			return append(clusternet.PutHeader(nil, 3, 9), v.([]byte)...), nil
		},
		dec: func(b []byte) (any, error) {
			p, err := clusternet.CheckHeader(b, 3, 9)
			if err == nil && len(p) == 0 {
				p = nil
			}
			return p, err
		}})
}

//go:build verif

package main

// C27 — internal cluster codecs round-trip and reject garbage.
//
// Generic ops (every codec of the table, D only; the Lean driver judges the flags):
//   rt <codec> <flags> <seed>   flags = <selfdelim:0|1><canonical:0|1>; random valid value v (built from the Go types from <seed>):
//        enc=err                                   the encoder refused the value (counted, not judged)
//        len=<n> rt=<eq|neq|err> trunc=<n>:<accepted>:<noncanonical> ext=<n>:<accepted> flip=<n>:<accepted>:<unstable> alloc=<ok|big:<bytes>:<what>>
//   bd <codec> <flags> <bound> <n> <max> <seed>   like rt, for a value whose bounded field <bound> has exactly n elements
//        (n <= max: must round-trip; n > max: either side may refuse, but never a wrong value / panic / big allocation)
//   gb <codec> <flags> <hex>    arbitrary bytes: dec=<err|ok> stable=<1|0|-> alloc=<ok|big:..>
// Modelled ops (propose / clusternet / shared primitives) are in c27_small.go.

import (
	"bytes"
	"fmt"
	"reflect"
	"runtime"
	"sort"
	"strconv"
	"strings"
	"time"
)

type c27Codec struct {
	name      string
	selfDelim bool // every strict prefix of an encoding must be rejected
	canon     bool // whatever the decoder accepts is the canonical encoding of a value that survives encode→decode
	gen       func(f *c27Filler) any
	enc       func(v any) ([]byte, error)
	dec       func(b []byte) (any, error)
	eq        func(want, got any) bool // nil => c27Equal
	seeds     func() [][]byte          // optional directed garbage inputs
	bounds    []c27Bound               // declared maxima of counts / lengths inside the value
}

// c27Bound names one declared maximum of a codec and builds a valid value whose
// bounded field has exactly n elements (bytes); the generator asks for max-1, max, max+1.
type c27Bound struct {
	name  string
	max   int
	build func(f *c27Filler, n int) any
}

var c27Codecs = map[string]*c27Codec{}

func c27Reg(c *c27Codec) {
	if _, dup := c27Codecs[c.name]; dup {
		panic("duplicate codec " + c.name)
	}
	c27Codecs[c.name] = c
}

func c27Names() []string {
	var ns []string
	for n := range c27Codecs {
		ns = append(ns, n)
	}
	sort.Strings(ns)
	return ns
}

func init() {
	Register(&Prop{Gen: genC27, NewRunner: func() Runner { return &c27Runner{} }})
}

// allocation bound per decode: generous, proportional to the input.
func c27AllocBound(n int) uint64 { return 512*uint64(n) + 256<<10 }

func c27Measure(f func()) uint64 {
	var a, b runtime.MemStats
	runtime.ReadMemStats(&a)
	f()
	runtime.ReadMemStats(&b)
	return b.TotalAlloc - a.TotalAlloc
}

// ------------------------------------------------------------ value filler

type c27Filler struct {
	R     *Rand
	ASCII bool // strings are printable ASCII (text codecs)
	depth int
	Hooks map[reflect.Type]func(f *c27Filler, v reflect.Value)
}

func (f *c27Filler) Str() string {
	var n int
	switch f.R.Pick(2, 6, 2, 1) {
	case 0:
		n = 0
	case 1:
		n = f.R.Range(1, 12)
	case 2:
		n = f.R.Range(13, 80)
	default:
		n = f.R.Range(81, 400)
	}
	return f.StrN(n)
}

func (f *c27Filler) StrN(n int) string {
	b := make([]byte, n)
	mode := f.R.Intn(3)
	for i := range b {
		if f.ASCII || mode == 0 {
			b[i] = "abcdefghijklmnopqrstuvwxyz0123456789_@-:/ ."[f.R.Intn(43)]
		} else {
			b[i] = byte(f.R.U64())
		}
	}
	return string(b)
}

// ID returns a short non-empty printable identifier (uid / channel id).
func (f *c27Filler) ID() string {
	n := f.R.Range(1, 12)
	b := make([]byte, n)
	for i := range b {
		b[i] = "abcdefghijklmnopqrstuvwxyz0123456789_@-"[f.R.Intn(39)]
	}
	return string(b)
}

// NonEmpty returns a short non-empty identifier.
func (f *c27Filler) NonEmpty() string { return f.StrN(f.R.Range(1, 10)) }

func (f *c27Filler) Int64() int64 {
	switch f.R.Intn(8) {
	case 0:
		return 0
	case 1:
		return -1
	case 2:
		return 1<<63 - 1
	case 3:
		return -1 << 63
	case 4:
		return int64(f.R.Intn(1000))
	default:
		return int64(f.R.BoundaryU64())
	}
}

var c27TimeType = reflect.TypeOf(time.Time{})

func (f *c27Filler) Fill(v reflect.Value) {
	if h, ok := f.Hooks[v.Type()]; ok {
		h(f, v)
		return
	}
	switch v.Kind() {
	case reflect.Bool:
		v.SetBool(f.R.Bool())
	case reflect.Int, reflect.Int8, reflect.Int16, reflect.Int32, reflect.Int64:
		x := f.Int64()
		bits := v.Type().Bits()
		if bits < 64 {
			x = x << (64 - bits) >> (64 - bits)
		}
		v.SetInt(x)
	case reflect.Uint, reflect.Uint8, reflect.Uint16, reflect.Uint32, reflect.Uint64, reflect.Uintptr:
		x := f.R.BoundaryU64()
		bits := v.Type().Bits()
		if bits < 64 {
			x &= 1<<uint(bits) - 1
		}
		v.SetUint(x)
	case reflect.Float32, reflect.Float64:
		v.SetFloat(float64(f.R.Intn(1000)) / 8)
	case reflect.String:
		v.SetString(f.Str())
	case reflect.Slice:
		if f.R.Chance(25) || f.depth > 5 {
			return // nil
		}
		n := f.R.Range(1, 4)
		if v.Type().Elem().Kind() == reflect.Uint8 {
			n = []int{1, 2, f.R.Range(1, 40), f.R.Range(1, 40), f.R.Range(41, 600)}[f.R.Intn(5)]
			v.SetBytes(f.R.Bytes(n))
			return
		}
		s := reflect.MakeSlice(v.Type(), n, n)
		f.depth++
		for i := 0; i < n; i++ {
			f.Fill(s.Index(i))
		}
		f.depth--
		v.Set(s)
	case reflect.Array:
		for i := 0; i < v.Len(); i++ {
			f.Fill(v.Index(i))
		}
	case reflect.Ptr:
		if f.R.Chance(30) || f.depth > 4 {
			return
		}
		p := reflect.New(v.Type().Elem())
		f.depth++
		f.Fill(p.Elem())
		f.depth--
		v.Set(p)
	case reflect.Struct:
		if v.Type() == c27TimeType {
			if f.R.Chance(15) {
				return
			}
			v.Set(reflect.ValueOf(time.Unix(int64(f.R.Intn(4_000_000_000)), int64(f.R.Intn(1_000_000_000))).UTC()))
			return
		}
		for i := 0; i < v.NumField(); i++ {
			if v.Type().Field(i).PkgPath != "" {
				continue // unexported
			}
			f.Fill(v.Field(i))
		}
	case reflect.Map:
		if f.R.Chance(30) || f.depth > 4 {
			return
		}
		m := reflect.MakeMap(v.Type())
		f.depth++
		for i, n := 0, f.R.Range(1, 3); i < n; i++ {
			k := reflect.New(v.Type().Key()).Elem()
			f.Fill(k)
			e := reflect.New(v.Type().Elem()).Elem()
			f.Fill(e)
			m.SetMapIndex(k, e)
		}
		f.depth--
		v.Set(m)
	case reflect.Interface:
		// left nil
	}
}

// c27New fills a fresh value of T.
func c27New[T any](f *c27Filler) T {
	var x T
	f.Fill(reflect.ValueOf(&x).Elem())
	return x
}

// c27Equal is reflect.DeepEqual except that time.Time values are compared as
// instants and errors by message; nil and empty slices stay different.
func c27Equal(a, b any) bool { return c27EqV(reflect.ValueOf(a), reflect.ValueOf(b), 0) }

// c27DiffPath: where the first difference is, with indices erased (`.Items[i].Message.SyncOnce`).
func c27DiffPath(a, b any) string {
	d := c27Diff(reflect.ValueOf(a), reflect.ValueOf(b), "")
	if i := strings.Index(d, ": "); i >= 0 {
		d = d[:i]
	}
	var out []byte
	skip := false
	for i := 0; i < len(d); i++ {
		switch {
		case d[i] == '[':
			skip = true
			out = append(out, '[', 'i', ']')
		case d[i] == ']':
			skip = false
		case !skip && d[i] != ' ':
			out = append(out, d[i])
		}
	}
	if len(out) == 0 {
		return "?"
	}
	return string(out)
}

// c27Diff describes the first difference (debugging aid: C27_DEBUG=1).
func c27Diff(a, b reflect.Value, path string) string {
	if !a.IsValid() || !b.IsValid() || a.Type() != b.Type() {
		return path + ": type/validity"
	}
	switch a.Kind() {
	case reflect.Struct:
		if a.Type() == c27TimeType {
			if !c27EqV(a, b, 0) {
				return fmt.Sprintf("%s: time %v vs %v", path, a, b)
			}
			return ""
		}
		for i := 0; i < a.NumField(); i++ {
			if d := c27Diff(a.Field(i), b.Field(i), path+"."+a.Type().Field(i).Name); d != "" {
				return d
			}
		}
		return ""
	case reflect.Slice, reflect.Array:
		if a.Kind() == reflect.Slice && (a.IsNil() != b.IsNil() || a.Len() != b.Len()) {
			return fmt.Sprintf("%s: slice nil=%v/%v len=%d/%d", path, a.IsNil(), b.IsNil(), a.Len(), b.Len())
		}
		for i := 0; i < a.Len(); i++ {
			if d := c27Diff(a.Index(i), b.Index(i), fmt.Sprintf("%s[%d]", path, i)); d != "" {
				return d
			}
		}
		return ""
	case reflect.Ptr, reflect.Interface:
		if a.IsNil() || b.IsNil() {
			if a.IsNil() != b.IsNil() {
				return fmt.Sprintf("%s: nil=%v/%v", path, a.IsNil(), b.IsNil())
			}
			return ""
		}
		if a.Kind() == reflect.Interface && !c27EqV(a, b, 0) {
			return fmt.Sprintf("%s: iface %v vs %v", path, a, b)
		}
		return c27Diff(a.Elem(), b.Elem(), path+"*")
	}
	if !c27EqV(a, b, 0) {
		return fmt.Sprintf("%s: %v vs %v", path, a, b)
	}
	return ""
}

func c27EqV(a, b reflect.Value, d int) bool {
	if !a.IsValid() || !b.IsValid() {
		return a.IsValid() == b.IsValid()
	}
	if a.Type() != b.Type() {
		return false
	}
	if d > 64 {
		return true
	}
	switch a.Kind() {
	case reflect.Bool:
		return a.Bool() == b.Bool()
	case reflect.Int, reflect.Int8, reflect.Int16, reflect.Int32, reflect.Int64:
		return a.Int() == b.Int()
	case reflect.Uint, reflect.Uint8, reflect.Uint16, reflect.Uint32, reflect.Uint64, reflect.Uintptr:
		return a.Uint() == b.Uint()
	case reflect.Float32, reflect.Float64:
		return a.Float() == b.Float()
	case reflect.String:
		return a.String() == b.String()
	case reflect.Slice:
		if a.IsNil() != b.IsNil() || a.Len() != b.Len() {
			return false
		}
		for i := 0; i < a.Len(); i++ {
			if !c27EqV(a.Index(i), b.Index(i), d+1) {
				return false
			}
		}
		return true
	case reflect.Array:
		for i := 0; i < a.Len(); i++ {
			if !c27EqV(a.Index(i), b.Index(i), d+1) {
				return false
			}
		}
		return true
	case reflect.Ptr:
		if a.IsNil() || b.IsNil() {
			return a.IsNil() == b.IsNil()
		}
		return c27EqV(a.Elem(), b.Elem(), d+1)
	case reflect.Interface:
		if a.IsNil() || b.IsNil() {
			return a.IsNil() == b.IsNil()
		}
		if a.CanInterface() && b.CanInterface() {
			if ea, ok := a.Interface().(error); ok {
				if eb, ok := b.Interface().(error); ok {
					return ea.Error() == eb.Error()
				}
			}
		}
		return c27EqV(a.Elem(), b.Elem(), d+1)
	case reflect.Struct:
		if a.Type() == c27TimeType && a.CanInterface() && b.CanInterface() {
			return a.Interface().(time.Time).Equal(b.Interface().(time.Time))
		}
		for i := 0; i < a.NumField(); i++ {
			if !c27EqV(a.Field(i), b.Field(i), d+1) {
				return false
			}
		}
		return true
	case reflect.Map:
		if a.IsNil() != b.IsNil() || a.Len() != b.Len() {
			return false
		}
		it := a.MapRange()
		for it.Next() {
			bv := b.MapIndex(it.Key())
			if !bv.IsValid() || !c27EqV(it.Value(), bv, d+1) {
				return false
			}
		}
		return true
	case reflect.Func, reflect.Chan, reflect.UnsafePointer:
		return a.IsNil() == b.IsNil()
	}
	return false
}

// ---------------------------------------------------------------- mutation

func c27Mutate(r *Rand, in []byte) ([]byte, string) {
	b := append([]byte(nil), in...)
	if len(b) == 0 {
		return []byte{byte(r.U64())}, "insert"
	}
	pos := r.Intn(len(b))
	over := func(p []byte) {
		for i, x := range p {
			if pos+i < len(b) {
				b[pos+i] = x
			}
		}
	}
	switch r.Pick(6, 4, 3, 3, 3, 2, 2, 2) {
	case 0:
		b[pos] ^= 1 << uint(r.Intn(8))
		return b, "bit"
	case 1:
		b[pos] = []byte{0xff, 0x80, 0x00, 0x7f, 0x01, 0xfe}[r.Intn(6)]
		return b, "byte"
	case 2: // a huge uvarint (~2^32 .. 2^63) where a length or count may be
		over([][]byte{{0xff, 0xff, 0xff, 0xff, 0x0f}, {0xff, 0xff, 0xff, 0xff, 0xff, 0xff, 0xff, 0xff, 0x7f},
			{0xff, 0xff, 0xff, 0xff, 0xff, 0xff, 0xff, 0xff, 0xff, 0x01}, {0x80, 0x80, 0x80, 0x80, 0x80, 0x80, 0x80, 0x80, 0x80, 0x80, 0x80}}[r.Intn(4)])
		return b, "big-varint"
	case 3: // a huge fixed-width length
		over([][]byte{{0xff, 0xff, 0xff, 0xff}, {0x7f, 0xff, 0xff, 0xff}, {0x00, 0xff, 0xff, 0xff}, {0x00, 0x10, 0x00, 0x00},
			{0xff, 0xff, 0xff, 0xff, 0xff, 0xff, 0xff, 0xff}}[r.Intn(5)])
		return b, "big-fixed"
	case 4: // a moderately large count (2^14..2^21)
		over([][]byte{{0x80, 0x80, 0x01}, {0xff, 0xff, 0x7f}, {0x80, 0x80, 0x40}}[r.Intn(3)])
		return b, "mid-varint"
	case 5:
		return append(b[:pos:pos], b[pos+1:]...), "delete"
	case 6:
		out := append(append(append([]byte(nil), b[:pos]...), byte(r.U64())), b[pos:]...)
		return out, "insert"
	default:
		n := r.Range(1, 8)
		if pos+n > len(b) {
			n = len(b) - pos
		}
		out := append(append(append([]byte(nil), b[:pos+n]...), b[pos:pos+n]...), b[pos+n:]...)
		return out, "dup"
	}
}

// ------------------------------------------------------------------ runner

type c27Runner struct{}

func (c27Runner) Close() {}

type c27Alloc struct {
	worst uint64
	what  string
}

func (a *c27Alloc) see(n uint64, inLen int, what string) {
	if n > c27AllocBound(inLen) && n > a.worst {
		a.worst, a.what = n, what
	}
}

func (a *c27Alloc) String() string {
	if a.worst == 0 {
		return "alloc=ok"
	}
	return fmt.Sprintf("alloc=big:%d:%s", a.worst, a.what)
}

// c27Stable: a value the decoder produced must survive encode→decode unchanged
// (encoders may refuse it: reported as stable, counted separately by the caller).
func c27Stable(c *c27Codec, v any) (stable bool, reenc []byte, encErr bool) {
	b, err := c.enc(v)
	if err != nil {
		return true, nil, true
	}
	v2, err := c.dec(b)
	if err != nil {
		return false, b, false
	}
	return c.equal(v, v2), b, false
}

func (c *c27Codec) flags() string { return fmt.Sprintf("%d%d", c27B(c.selfDelim), c27B(c.canon)) }

func (c *c27Codec) equal(a, b any) bool {
	if c.eq != nil {
		return c.eq(a, b)
	}
	return c27Equal(a, b)
}

func (r *c27Runner) Step(op string) string {
	f := strings.Fields(op)
	if len(f) == 0 {
		return "bad-op"
	}
	switch f[0] {
	case "rt":
		if len(f) != 4 {
			return "bad-op"
		}
		c, ok := c27Codecs[f[1]]
		seed, err := strconv.ParseUint(f[3], 10, 64)
		if !ok || err != nil {
			return "bad-op"
		}
		return c27RoundTrip(c, seed)
	case "bd":
		if len(f) != 7 {
			return "bad-op"
		}
		c, ok := c27Codecs[f[1]]
		n, err1 := strconv.Atoi(f[4])
		seed, err2 := strconv.ParseUint(f[6], 10, 64)
		if !ok || err1 != nil || err2 != nil || n < 0 || n > 8<<20 {
			return "bad-op"
		}
		for _, b := range c.bounds {
			if b.name == f[3] {
				rnd := NewRand(seed)
				return c27RoundTripValue(c, b.build(&c27Filler{R: rnd}, n), rnd)
			}
		}
		return "bad-op"
	case "gb":
		if len(f) != 4 {
			return "bad-op"
		}
		c, ok := c27Codecs[f[1]]
		if !ok {
			return "bad-op"
		}
		data := UnHex(f[3])
		var al c27Alloc
		var v any
		var err error
		al.see(c27Measure(func() { v, err = c.dec(data) }), len(data), "garbage")
		if err != nil {
			return "dec=err stable=- " + al.String()
		}
		st, _, _ := c27Stable(c, v)
		return fmt.Sprintf("dec=ok stable=%d %s", c27B(st), al.String())
	}
	return c27SmallStep(f)
}

func c27B(b bool) int {
	if b {
		return 1
	}
	return 0
}

func c27RoundTrip(c *c27Codec, seed uint64) string {
	rnd := NewRand(seed)
	return c27RoundTripValue(c, c.gen(&c27Filler{R: rnd}), rnd)
}

func c27RoundTripValue(c *c27Codec, v any, rnd *Rand) string {
	enc, err := c.enc(v)
	if err != nil {
		return "enc=err"
	}
	var al c27Alloc
	var got any
	al.see(c27Measure(func() { got, err = c.dec(enc) }), len(enc), "valid")
	rt := "eq"
	if err != nil {
		rt = "err"
	} else if !c.equal(v, got) {
		rt = "neq:" + c27DiffPath(v, got)
	}
	// every truncation
	accepted, noncanon := 0, 0
	measureEvery := 1
	if len(enc) > 48 {
		measureEvery = len(enc) / 48
	}
	step := 1
	if len(enc) > 16<<10 {
		step = len(enc) / 512 // large boundary values: a sample of the prefixes (always the last 8)
	}
	if len(enc) > 1<<20 {
		step = len(enc) / 48
	}
	for k := 0; k < len(enc); k++ {
		if step > 1 && k%step != 0 && k < len(enc)-8 {
			continue
		}
		var tv any
		var terr error
		pre := enc[:k:k]
		if k%measureEvery == 0 || k >= len(enc)-4 {
			al.see(c27Measure(func() { tv, terr = c.dec(pre) }), k, "trunc")
		} else {
			tv, terr = c.dec(pre)
		}
		if terr == nil {
			accepted++
			st, re, encErr := c27Stable(c, tv)
			if !st || encErr || !bytes.Equal(re, pre) {
				noncanon++
			}
		}
	}
	// extensions: a self-delimiting codec must reject anything after a complete encoding
	extAcc := 0
	exts := [][]byte{append(append([]byte(nil), enc...), enc...), append(append([]byte(nil), enc...), '1'),
		append(append([]byte(nil), enc...), byte(0x21+rnd.Intn(0x5e))), append(append([]byte(nil), enc...), rnd.Bytes(rnd.Range(1, 4))...)}
	if last := exts[3][len(exts[3])-1]; last == ' ' || last == '\n' || last == '\t' || last == '\r' {
		exts[3][len(exts[3])-1] = 'x' // trailing white space is legal for the text codec
	}
	// structural closers / separators of the text codecs (a streaming JSON decoder's More() answers
	// false before '}' and ']'), alone and after legal white space
	for _, tail := range []string{"}", "]", " }", "\n]", "}{", "]x", ",", ":", "\"", "{", "[", "null"} {
		exts = append(exts, append(append([]byte(nil), enc...), tail...))
	}
	for _, x := range exts {
		var xerr error
		al.see(c27Measure(func() { _, xerr = c.dec(x) }), len(x), "ext")
		if xerr == nil {
			extAcc++
		}
	}
	// mutations
	nmut := 40
	if len(enc) > 256<<10 {
		nmut = 6
	}
	macc, unstable := 0, 0
	for i := 0; i < nmut; i++ {
		m, what := c27Mutate(rnd, enc)
		if rnd.Chance(25) {
			m, _ = c27Mutate(rnd, m)
			what += "+"
		}
		var mv any
		var merr error
		al.see(c27Measure(func() { mv, merr = c.dec(m) }), len(m), what)
		if merr == nil {
			macc++
			if st, _, _ := c27Stable(c, mv); !st {
				unstable++
			}
		}
	}
	return fmt.Sprintf("len=%d rt=%s trunc=%d:%d:%d ext=%d:%d flip=%d:%d:%d %s", len(enc), rt, len(enc), accepted, noncanon, len(exts), extAcc, nmut, macc, unstable, al.String())
}

// --------------------------------------------------------------- generator

func genC27(g *Gen) {
	g.Case()
	genC27Small(g)
	names := c27Names()
	for _, n := range names {
		c := c27Codecs[n]
		if c.seeds != nil {
			for _, s := range c.seeds() {
				g.Op("gb", "%s %s %s", n, c.flags(), Hex(s))
			}
		}
		for _, s := range [][]byte{nil, {0}, {1}, {0xff}, {1, 0}, {0xff, 0xff, 0xff, 0xff, 0xff, 0xff, 0xff, 0xff, 0xff, 0xff, 0xff}} {
			g.Op("gb", "%s %s %s", n, c.flags(), Hex(s))
		}
	}
	// every declared maximum exactly: max-1, max, max+1 elements / bytes
	reps := 1
	if g.Tier == "thorough" {
		reps = 3
	}
	for _, n := range names {
		c := c27Codecs[n]
		for _, b := range c.bounds {
			for _, k := range []int{b.max - 1, b.max, b.max + 1} {
				for r := 0; r < reps; r++ {
					g.Count("bd:" + n + ":" + b.name)
					g.Op("bd", "%s %s %s %d %d %d", n, c.flags(), b.name, k, b.max, g.R.U64()>>1)
				}
			}
		}
	}
	for i := 0; i < g.N; i++ {
		n := names[g.R.Intn(len(names))]
		c := c27Codecs[n]
		if g.R.Chance(80) {
			g.Count("rt:" + n)
			g.Op("rt", "%s %s %d", n, c.flags(), g.R.U64()>>1)
		} else {
			g.Count("gb:" + n)
			var b []byte
			switch g.R.Intn(3) {
			case 0:
				b = g.R.Bytes(g.R.Range(1, 8))
			case 1:
				b = g.R.Bytes(g.R.Range(9, 200))
			default: // plausible start, random tail
				b = append([]byte{byte(g.R.Intn(4)), byte(g.R.Intn(70))}, g.R.Bytes(g.R.Range(0, 60))...)
			}
			g.Op("gb", "%s %s %s", n, c.flags(), Hex(b))
		}
	}
}

//go:build verif

package main

// C22 — WKProto frames round-trip exactly.
//
// ops (model: lean/Driver/C22.lean):
//   enc <v> rest=<bytes> <frame…>   EncodeFrame(frame, v); encodedFrameSize; DecodeFrame(bytes++rest, v)
//        -> "ok len=<n> size=<s> bytes=<shown> ; dec <frame…> n=<consumed> rl=<RemainingLength> fs=<FrameSize>"
//           (decode part may be "need" | "err"), or "encerr size=<s>", or "encpanic" (WriteString length panic)
//   dec <v> <bytes>                 DecodeFrame(bytes, v) -> "dec … n= rl= fs= ; re=<ok len=<m> | encerr | encpanic> ; <decode of the re-encoding>"
//                                   | "need" | "err"   (the decoded frame is re-encoded with the real encoder and decoded again)
//   var <n> rest=<bytes>            encodeVariable2 / encodedVariableSize / decodeLength(bytes++rest)
//   dlen <bytes>                    decodeLength(bytes) -> "<rl>,<consumed>" | "errlen"
//   hdr <ft> <fl>                   ToFixHeaderUint8(Framer{ft, flags}) then FramerFromUint8
//   fhdr <byte>                     FramerFromUint8(byte)

import (
	"fmt"
	"strconv"
	"strings"

	codec "github.com/WuKongIM/WuKongIM/pkg/protocol/codec"
	"github.com/WuKongIM/WuKongIM/pkg/protocol/frame"
)

func init() {
	Register(&Prop{Gen: genC22, NewRunner: func() Runner { return &c22Runner{p: codec.New()} }})
}

func genC22(g *Gen) {
	// harness/common NewRand(seed+1) is NewRand(seed) shifted by one draw: decorrelate the seeds
	g.R = NewRand(g.R.U64() ^ 0xC22C22)
	g.Case()
	// ---- directed: header byte, both directions, complete ----
	for b := 0; b < 256; b++ {
		g.Op("fhdr", "%d", b)
	}
	for ft := 0; ft < 16; ft++ {
		for fl := 0; fl < 64; fl++ {
			g.Op("hdr", "%d %d", ft, fl)
		}
	}
	// ---- directed: remaining-length varint at every size boundary ----
	for _, n := range []uint64{0, 1, 2, 127, 128, 129, 16383, 16384, 16385, 2097151, 2097152, 1048575, 1048576, 1048577,
		268435455, 268435456, 268435457, 4294967295} {
		g.Count("var:boundary")
		g.Op("var", "%d rest=-", n)
		g.Op("var", "%d rest=%s", n, Hex(g.R.Bytes(3)))
	}
	for _, h := range []string{"-", "00", "7f", "80", "8000", "ff7f", "ffff", "ffffff", "ffffff7f", "ffffffff", "ffffffff00", "ffffffffff", "80808080", "8080808001", "818000"} {
		g.Count("dlen:directed")
		g.Op("dlen", "%s", h)
	}
	// ---- directed: every type at every version, a mid-size frame, both settings ----
	x := &fgen{g: g, wide: false}
	for v := 0; v <= 8; v++ {
		for _, ty := range c22Types {
			g.Op("enc", "%d rest=- %s", v, x.frame(v, ty))
		}
	}
	// body size exactly at the varint boundaries and at MaxRemaingLength (EVENT body = 12 + len(data))
	for _, bs := range []int{127, 128, 16383, 16384, 1048576, 1048577} {
		g.Count("enc:body-size-boundary")
		g.Op("enc", "6 rest=0102 EVENT fl=0 id=- type=- timestamp=7 data=%s", rep(bs-12, 0x5a))
	}
	// RECV body = 34 + len(payload) at version 6, 30 at version 5 (legacy seq), 26 below version 3
	g.Op("enc", "6 rest=- RECV fl=1 setting=0 msgKey=- fromUID=- channelID=- channelType=1 expire=0 clientMsgNo=- streamFlag=0 streamNo=- streamId=0 messageID=1 messageSeq=1 timestamp=1 topic=- payload=%s", rep(1048576-34, 1))
	g.Op("enc", "6 rest=- RECV fl=1 setting=0 msgKey=- fromUID=- channelID=- channelType=1 expire=0 clientMsgNo=- streamFlag=0 streamNo=- streamId=0 messageID=1 messageSeq=1 timestamp=1 topic=- payload=%s", rep(1048576-33, 1))
	g.Op("enc", "5 rest=- RECV fl=1 setting=0 msgKey=- fromUID=- channelID=- channelType=1 expire=0 clientMsgNo=- streamFlag=0 streamNo=- streamId=0 messageID=1 messageSeq=1 timestamp=1 topic=- payload=%s", rep(1048576-30, 1))
	g.Op("enc", "2 rest=- RECV fl=1 setting=0 msgKey=- fromUID=- channelID=- channelType=1 expire=0 clientMsgNo=- streamFlag=0 streamNo=- streamId=0 messageID=1 messageSeq=1 timestamp=1 topic=- payload=%s", rep(1048576-26, 1))
	// SEND payload limit
	for _, n := range []int{32767, 32768} {
		g.Op("enc", "6 rest=- SEND fl=0 setting=0 clientSeq=1 clientMsgNo=61 streamNo=- channelID=62 channelType=1 expire=0 msgKey=- topic=- payload=%s", rep(n, 7))
	}
	// legacy message-seq limit on the three frames that carry it, versions 5 and 6
	for _, v := range []int{5, 6} {
		for _, s := range []uint64{4294967295, 4294967296} {
			g.Op("enc", "%d rest=- RECVACK fl=0 messageID=9 messageSeq=%d", v, s)
			g.Op("enc", "%d rest=- SENDACK fl=0 messageID=9 clientSeq=1 messageSeq=%d reasonCode=1 clientMsgNo=-", v, s)
			g.Op("enc", "%d rest=- SENDACK fl=0 messageID=9 clientSeq=1 messageSeq=%d reasonCode=1 clientMsgNo=6162", v, s)
		}
	}
	// ---- random ----
	wide := &fgen{g: g, wide: true}
	valid := &fgen{g: g, wide: false}
	for i := 0; i < g.N; i++ {
		v := genVersion(g)
		switch g.R.Pick(45, 20, 30, 3, 2) {
		case 0:
			g.Count("enc:within-limits-generator")
			rest := "-"
			if g.R.Bool() {
				rest = Hex(g.R.Bytes(g.R.Range(1, 8)))
			}
			g.Op("enc", "%d rest=%s %s", v, rest, valid.frame(v, ""))
		case 1:
			g.Count("enc:wide-generator")
			g.Op("enc", "%d rest=%s %s", v, Hex(g.R.Bytes(g.R.Intn(4))), wide.frame(v, ""))
		case 2:
			g.Op("dec", "%d %s", v, Hex(genWire(g, v)))
		case 3:
			g.Op("var", "%d rest=%s", g.R.BoundaryU64()&0xFFFFFFFF, Hex(g.R.Bytes(g.R.Intn(3))))
		default:
			g.Op("dlen", "%s", Hex(g.R.Bytes(g.R.Intn(7))))
		}
	}
}

type c22Runner struct{ p *codec.WKProto }

func (r *c22Runner) Close() {}

// exact returns a copy whose capacity equals its length, so that any read past
// the end is an out-of-range panic rather than a silent read of spare capacity.
func exact(b []byte) []byte {
	out := make([]byte, len(b))
	copy(out, b)
	return out[:len(b):len(b)]
}

func showDecode(p *codec.WKProto, data []byte, v uint8) string {
	f, n, err := p.DecodeFrame(exact(data), v)
	if err != nil {
		return "err"
	}
	if f == nil {
		if n != 0 {
			return fmt.Sprintf("nilframe n=%d", n)
		}
		return "need"
	}
	fr, _ := framerOfFrame(f)
	return fmt.Sprintf("dec %s n=%d rl=%d fs=%d", showFrame(f), n, fr.RemainingLength, fr.FrameSize)
}

// encodeCatch runs EncodeFrame and maps the documented WriteString length panic to "encpanic".
func encodeCatch(p *codec.WKProto, f frame.Frame, v uint8) (out []byte, status string) {
	defer func() {
		if e := recover(); e != nil {
			msg := fmt.Sprint(e)
			if strings.Contains(msg, "len(str) > math.MaxInt16") || strings.Contains(msg, "len(b) > math.MaxInt16") {
				out, status = nil, "encpanic"
				return
			}
			panic(e)
		}
	}()
	b, err := p.EncodeFrame(f, v)
	if err != nil {
		return nil, "encerr"
	}
	return b, "ok"
}

func (r *c22Runner) Step(op string) string {
	f := strings.Fields(op)
	if len(f) < 2 {
		return "bad-op"
	}
	switch f[0] {
	case "enc":
		if len(f) < 5 {
			return "bad-op"
		}
		vv, err := strconv.ParseUint(f[1], 10, 8)
		rest, ok := parseBytes(valOf(f[2]))
		fr, ok2 := parseFrame(f[3:])
		if err != nil || !ok || !ok2 || !strings.HasPrefix(f[2], "rest=") {
			return "bad-op"
		}
		v := uint8(vv)
		size := codec.VerifEncodedFrameSize(fr, v)
		bs, st := encodeCatch(r.p, fr, v)
		switch st {
		case "encpanic":
			return "encpanic"
		case "encerr":
			return fmt.Sprintf("encerr size=%d", size)
		}
		data := append(append([]byte(nil), bs...), rest...)
		return fmt.Sprintf("ok len=%d size=%d bytes=%s ; %s", len(bs), size, showBytes(bs), showDecode(r.p, data, v))
	case "dec":
		if len(f) != 3 {
			return "bad-op"
		}
		vv, err := strconv.ParseUint(f[1], 10, 8)
		data, ok := parseBytes(f[2])
		if err != nil || !ok || len(data) == 0 {
			return "bad-op" // DecodeFrame on empty input is the caller's guard (C23)
		}
		out := showDecode(r.p, data, uint8(vv))
		if !strings.HasPrefix(out, "dec ") {
			return out
		}
		// re-encode what the decoder produced and decode that again
		fr, _, _ := r.p.DecodeFrame(exact(data), uint8(vv))
		bs, st := encodeCatch(r.p, fr, uint8(vv))
		if st != "ok" {
			return out + " ; re=" + st
		}
		return fmt.Sprintf("%s ; re=ok len=%d ; %s", out, len(bs), showDecode(r.p, bs, uint8(vv)))
	case "var":
		if len(f) != 3 || !strings.HasPrefix(f[2], "rest=") {
			return "bad-op"
		}
		n, err := strconv.ParseUint(f[1], 10, 32)
		rest, ok := parseBytes(valOf(f[2]))
		if err != nil || !ok {
			return "bad-op"
		}
		bs := codec.VerifEncodeVariable2(uint32(n))
		rl, c, ok := codec.VerifDecodeLength(exact(append(append([]byte(nil), bs...), rest...)))
		d := "errlen"
		if ok {
			d = fmt.Sprintf("%d,%d", rl, c)
		}
		return fmt.Sprintf("bytes=%s size=%d dec=%s", showBytes(bs), codec.VerifEncodedVariableSize(uint32(n)), d)
	case "dlen":
		if len(f) != 2 {
			return "bad-op"
		}
		data, ok := parseBytes(f[1])
		if !ok {
			return "bad-op"
		}
		rl, c, ok := codec.VerifDecodeLength(exact(data))
		if !ok {
			return "errlen"
		}
		return fmt.Sprintf("%d,%d", rl, c)
	case "hdr":
		if len(f) != 3 {
			return "bad-op"
		}
		ft, err := strconv.ParseUint(f[1], 10, 8)
		fl, err2 := strconv.ParseUint(f[2], 10, 8)
		if err != nil || err2 != nil || ft > 15 || fl > 63 {
			return "bad-op"
		}
		fr := framerOf(int(fl))
		fr.FrameType = frame.FrameType(ft)
		b := codec.ToFixHeaderUint8(fr)
		back := codec.FramerFromUint8(b)
		return fmt.Sprintf("byte=%d ft=%d fl=%d", b, uint8(back.FrameType), flagsOf(back))
	case "fhdr":
		if len(f) != 2 {
			return "bad-op"
		}
		b, err := strconv.ParseUint(f[1], 10, 8)
		if err != nil {
			return "bad-op"
		}
		back := codec.FramerFromUint8(uint8(b))
		return fmt.Sprintf("ft=%d fl=%d", uint8(back.FrameType), flagsOf(back))
	}
	return "bad-op"
}

//go:build verif

package main

// Shared by the C22 and C23 harnesses (harness/C23/c22_frames.go is a symlink to
// this file): the text form of WKProto frames and byte strings on the line
// protocol (Lean side: lean/WK/Model/C22_Text.lean) and the frame / wire-bytes
// generators.
//
//  byte string : "-" | hex | "~<n>:<hh>" (n copies of byte hh)
//  shown       : hex when <= 200 bytes, else "L<len>.<hex of first 16>.<hash32>"
//  frame       : "TYPE fl=<bits> k=v ..." fixed field order per type, parsed positionally
//  flag bits   : 1 NoPersist, 2 RedDot, 4 SyncOnce, 8 DUP, 16 HasServerVersion, 32 End

import (
	"encoding/hex"
	"fmt"
	"strconv"
	"strings"

	"github.com/WuKongIM/WuKongIM/pkg/protocol/frame"
)

func hash32(b []byte) uint32 {
	var h uint32
	for _, x := range b {
		h = h*31 + uint32(x)
	}
	return h
}

func showBytes(b []byte) string {
	if len(b) == 0 {
		return "-"
	}
	if len(b) <= 200 {
		return hex.EncodeToString(b)
	}
	return fmt.Sprintf("L%d.%s.%d", len(b), hex.EncodeToString(b[:16]), hash32(b))
}

func parseBytes(s string) ([]byte, bool) {
	if strings.HasPrefix(s, "~") {
		p := strings.Split(s[1:], ":")
		if len(p) != 2 {
			return nil, false
		}
		n, err := strconv.Atoi(p[0])
		bb, err2 := hex.DecodeString(p[1])
		if err != nil || err2 != nil || len(bb) != 1 || n < 0 || n > 4000000 {
			return nil, false
		}
		out := make([]byte, n)
		for i := range out {
			out[i] = bb[0]
		}
		return out, true
	}
	if s == "-" {
		return nil, true
	}
	b, err := hex.DecodeString(s)
	if err != nil {
		return nil, false
	}
	return b, true
}

func valOf(tok string) string {
	if i := strings.IndexByte(tok, '='); i >= 0 {
		return tok[i+1:]
	}
	return tok
}

func b2i(b bool) int {
	if b {
		return 1
	}
	return 0
}

func flagsOf(fr frame.Framer) int {
	return b2i(fr.NoPersist) + 2*b2i(fr.RedDot) + 4*b2i(fr.SyncOnce) + 8*b2i(fr.DUP) + 16*b2i(fr.HasServerVersion) + 32*b2i(fr.End)
}

func framerOf(fl int) frame.Framer {
	return frame.Framer{NoPersist: fl&1 != 0, RedDot: fl&2 != 0, SyncOnce: fl&4 != 0, DUP: fl&8 != 0,
		HasServerVersion: fl&16 != 0, End: fl&32 != 0}
}

// framerOfFrame returns the embedded Framer of a decoded frame (nil-safe).
func framerOfFrame(f frame.Frame) (frame.Framer, bool) {
	switch p := f.(type) {
	case *frame.ConnectPacket:
		return p.Framer, true
	case *frame.ConnackPacket:
		return p.Framer, true
	case *frame.SendPacket:
		return p.Framer, true
	case *frame.SendackPacket:
		return p.Framer, true
	case *frame.RecvPacket:
		return p.Framer, true
	case *frame.RecvackPacket:
		return p.Framer, true
	case *frame.PingPacket:
		return p.Framer, true
	case *frame.PongPacket:
		return p.Framer, true
	case *frame.DisconnectPacket:
		return p.Framer, true
	case *frame.SubPacket:
		return p.Framer, true
	case *frame.SubackPacket:
		return p.Framer, true
	case *frame.EventPacket:
		return p.Framer, true
	}
	return frame.Framer{}, false
}

func showFrame(f frame.Frame) string {
	s := func(x string) string { return showBytes([]byte(x)) }
	switch p := f.(type) {
	case *frame.ConnectPacket:
		return fmt.Sprintf("CONNECT fl=%d version=%d deviceFlag=%d deviceID=%s uid=%s token=%s clientTimestamp=%d clientKey=%s",
			flagsOf(p.Framer), p.Version, uint8(p.DeviceFlag), s(p.DeviceID), s(p.UID), s(p.Token), uint64(p.ClientTimestamp), s(p.ClientKey))
	case *frame.ConnackPacket:
		return fmt.Sprintf("CONNACK fl=%d serverVersion=%d timeDiff=%d reasonCode=%d serverKey=%s salt=%s nodeId=%d",
			flagsOf(p.Framer), p.ServerVersion, uint64(p.TimeDiff), uint8(p.ReasonCode), s(p.ServerKey), s(p.Salt), p.NodeId)
	case *frame.SendPacket:
		return fmt.Sprintf("SEND fl=%d setting=%d clientSeq=%d clientMsgNo=%s streamNo=%s channelID=%s channelType=%d expire=%d msgKey=%s topic=%s payload=%s",
			flagsOf(p.Framer), uint8(p.Setting), p.ClientSeq, s(p.ClientMsgNo), s(p.StreamNo), s(p.ChannelID), p.ChannelType, p.Expire, s(p.MsgKey), s(p.Topic), showBytes(p.Payload))
	case *frame.SendackPacket:
		return fmt.Sprintf("SENDACK fl=%d messageID=%d clientSeq=%d messageSeq=%d reasonCode=%d clientMsgNo=%s",
			flagsOf(p.Framer), uint64(p.MessageID), p.ClientSeq, p.MessageSeq, uint8(p.ReasonCode), s(p.ClientMsgNo))
	case *frame.RecvPacket:
		return fmt.Sprintf("RECV fl=%d setting=%d msgKey=%s fromUID=%s channelID=%s channelType=%d expire=%d clientMsgNo=%s streamFlag=%d streamNo=%s streamId=%d messageID=%d messageSeq=%d timestamp=%d topic=%s payload=%s",
			flagsOf(p.Framer), uint8(p.Setting), s(p.MsgKey), s(p.FromUID), s(p.ChannelID), p.ChannelType, p.Expire, s(p.ClientMsgNo), uint8(p.StreamFlag), s(p.StreamNo), p.StreamId, uint64(p.MessageID), p.MessageSeq, uint32(p.Timestamp), s(p.Topic), showBytes(p.Payload))
	case *frame.RecvackPacket:
		return fmt.Sprintf("RECVACK fl=%d messageID=%d messageSeq=%d", flagsOf(p.Framer), uint64(p.MessageID), p.MessageSeq)
	case *frame.PingPacket:
		return fmt.Sprintf("PING fl=%d", flagsOf(p.Framer))
	case *frame.PongPacket:
		return fmt.Sprintf("PONG fl=%d", flagsOf(p.Framer))
	case *frame.DisconnectPacket:
		return fmt.Sprintf("DISCONNECT fl=%d reasonCode=%d reason=%s", flagsOf(p.Framer), uint8(p.ReasonCode), s(p.Reason))
	case *frame.SubPacket:
		return fmt.Sprintf("SUB fl=%d setting=%d subNo=%s channelID=%s channelType=%d action=%d param=%s",
			flagsOf(p.Framer), uint8(p.Setting), s(p.SubNo), s(p.ChannelID), p.ChannelType, uint8(p.Action), s(p.Param))
	case *frame.SubackPacket:
		return fmt.Sprintf("SUBACK fl=%d subNo=%s channelID=%s channelType=%d action=%d reasonCode=%d",
			flagsOf(p.Framer), s(p.SubNo), s(p.ChannelID), p.ChannelType, uint8(p.Action), uint8(p.ReasonCode))
	case *frame.EventPacket:
		return fmt.Sprintf("EVENT fl=%d id=%s type=%s timestamp=%d data=%s", flagsOf(p.Framer), s(p.Id), s(p.Type), uint64(p.Timestamp), showBytes(p.Data))
	}
	return fmt.Sprintf("UNKNOWNFRAME(%T)", f)
}

type tokParser struct {
	toks []string
	i    int
	bad  bool
}

func (t *tokParser) next() string {
	if t.i >= len(t.toks) {
		t.bad = true
		return "0"
	}
	s := valOf(t.toks[t.i])
	t.i++
	return s
}
func (t *tokParser) u(bits int) uint64 {
	v, err := strconv.ParseUint(t.next(), 10, bits)
	if err != nil {
		t.bad = true
	}
	return v
}
func (t *tokParser) b() []byte {
	v, ok := parseBytes(t.next())
	if !ok {
		t.bad = true
	}
	return v
}
func (t *tokParser) s() string { return string(t.b()) }

// parseFrame: positional parser, mirrors WK.C22.parseFrame (rejects what it rejects).
func parseFrame(toks []string) (frame.Frame, bool) {
	if len(toks) < 2 {
		return nil, false
	}
	t := &tokParser{toks: toks, i: 1}
	fl := int(t.u(8))
	if t.bad || fl >= 64 {
		return nil, false
	}
	fr := framerOf(fl)
	var f frame.Frame
	want := 0
	switch toks[0] {
	case "CONNECT":
		want = 7
		p := &frame.ConnectPacket{Framer: fr}
		p.Version = uint8(t.u(8))
		p.DeviceFlag = frame.DeviceFlag(t.u(8))
		p.DeviceID = t.s()
		p.UID = t.s()
		p.Token = t.s()
		p.ClientTimestamp = int64(t.u(64))
		p.ClientKey = t.s()
		f = p
	case "CONNACK":
		want = 6
		p := &frame.ConnackPacket{Framer: fr}
		p.ServerVersion = uint8(t.u(8))
		p.TimeDiff = int64(t.u(64))
		p.ReasonCode = frame.ReasonCode(t.u(8))
		p.ServerKey = t.s()
		p.Salt = t.s()
		p.NodeId = t.u(64)
		f = p
	case "SEND":
		want = 10
		p := &frame.SendPacket{Framer: fr}
		p.Setting = frame.Setting(t.u(8))
		p.ClientSeq = t.u(64)
		p.ClientMsgNo = t.s()
		p.StreamNo = t.s()
		p.ChannelID = t.s()
		p.ChannelType = uint8(t.u(8))
		p.Expire = uint32(t.u(32))
		p.MsgKey = t.s()
		p.Topic = t.s()
		p.Payload = t.b()
		f = p
	case "SENDACK":
		want = 5
		p := &frame.SendackPacket{Framer: fr}
		p.MessageID = int64(t.u(64))
		p.ClientSeq = t.u(64)
		p.MessageSeq = t.u(64)
		p.ReasonCode = frame.ReasonCode(t.u(8))
		p.ClientMsgNo = t.s()
		f = p
	case "RECV":
		want = 15
		p := &frame.RecvPacket{Framer: fr}
		p.Setting = frame.Setting(t.u(8))
		p.MsgKey = t.s()
		p.FromUID = t.s()
		p.ChannelID = t.s()
		p.ChannelType = uint8(t.u(8))
		p.Expire = uint32(t.u(32))
		p.ClientMsgNo = t.s()
		p.StreamFlag = frame.StreamFlag(t.u(8))
		p.StreamNo = t.s()
		p.StreamId = t.u(64)
		p.MessageID = int64(t.u(64))
		p.MessageSeq = t.u(64)
		p.Timestamp = int32(uint32(t.u(32)))
		p.Topic = t.s()
		p.Payload = t.b()
		f = p
	case "RECVACK":
		want = 2
		p := &frame.RecvackPacket{Framer: fr}
		p.MessageID = int64(t.u(64))
		p.MessageSeq = t.u(64)
		f = p
	case "PING":
		f = &frame.PingPacket{Framer: fr}
	case "PONG":
		f = &frame.PongPacket{Framer: fr}
	case "DISCONNECT":
		want = 2
		p := &frame.DisconnectPacket{Framer: fr}
		p.ReasonCode = frame.ReasonCode(t.u(8))
		p.Reason = t.s()
		f = p
	case "SUB":
		want = 6
		p := &frame.SubPacket{Framer: fr}
		p.Setting = frame.Setting(t.u(8))
		p.SubNo = t.s()
		p.ChannelID = t.s()
		p.ChannelType = uint8(t.u(8))
		p.Action = frame.Action(t.u(8))
		p.Param = t.s()
		f = p
	case "SUBACK":
		want = 5
		p := &frame.SubackPacket{Framer: fr}
		p.SubNo = t.s()
		p.ChannelID = t.s()
		p.ChannelType = uint8(t.u(8))
		p.Action = frame.Action(t.u(8))
		p.ReasonCode = frame.ReasonCode(t.u(8))
		f = p
	case "EVENT":
		want = 4
		p := &frame.EventPacket{Framer: fr}
		p.Id = t.s()
		p.Type = t.s()
		p.Timestamp = int64(t.u(64))
		p.Data = t.b()
		f = p
	default:
		return nil, false
	}
	if t.bad || len(toks) != 2+want {
		return nil, false
	}
	return f, true
}

// ------------------------------------------------------------ generators ---

var c22Types = []string{"CONNECT", "CONNACK", "SEND", "SENDACK", "RECV", "RECVACK", "PING", "PONG", "DISCONNECT", "SUB", "SUBACK", "EVENT"}

// fgen generates frame text. wide=false keeps every frame within the protocol
// limits (strings <= 32767, SEND payload <= 32767, ClientSeq < 2^32, legacy
// message seq < 2^32); wide=true also leaves them.
type fgen struct {
	g    *Gen
	wide bool
	lite bool // keep frames small (C23 split sweeps are quadratic in the stream length)
}

func rep(n int, b byte) string {
	if n == 0 {
		return "-"
	}
	return fmt.Sprintf("~%d:%02x", n, b)
}

const c22Ascii = "abcdefghijklmnopqrstuvwxyz0123456789_@-:"

func (x *fgen) str() string {
	g := x.g
	if x.lite {
		switch g.R.Pick(4, 6, 2) {
		case 0:
			return "-"
		case 1:
			n := g.R.Range(1, 6)
			b := make([]byte, n)
			for i := range b {
				b[i] = c22Ascii[g.R.Intn(len(c22Ascii))]
			}
			return Hex(b)
		default:
			return Hex(g.R.Bytes(g.R.Range(1, 9)))
		}
	}
	w := []int{25, 40, 15, 8, 5, 1, 0}
	if x.wide {
		w = []int{25, 40, 15, 8, 5, 3, 3}
	}
	switch g.R.Pick(w...) {
	case 0:
		g.Count("str:empty")
		return "-"
	case 1:
		g.Count("str:ascii")
		n := g.R.Range(1, 12)
		b := make([]byte, n)
		for i := range b {
			b[i] = c22Ascii[g.R.Intn(len(c22Ascii))]
		}
		return Hex(b)
	case 2:
		g.Count("str:binary")
		return Hex(g.R.Bytes(g.R.Range(1, 40)))
	case 3:
		g.Count("str:len127-256")
		return rep([]int{127, 128, 255, 256}[g.R.Intn(4)], byte(g.R.U64()))
	case 4:
		g.Count("str:1k-3k")
		return rep(g.R.Range(1000, 3000), byte(g.R.U64()))
	case 5:
		g.Count("str:len32767(max)")
		return rep(32767, byte(g.R.U64()))
	default:
		g.Count("str:over-max(panic)")
		return rep([]int{32768, 40000, 65535, 65536}[g.R.Intn(4)], byte(g.R.U64()))
	}
}

func (x *fgen) payload(send bool) string {
	g := x.g
	if x.lite {
		if g.R.Chance(30) {
			return "-"
		}
		return Hex(g.R.Bytes(g.R.Range(1, 12)))
	}
	w := []int{15, 45, 15, 8, 5, 2, 0}
	if x.wide || !send {
		w = []int{15, 45, 15, 8, 5, 3, 3}
	}
	switch g.R.Pick(w...) {
	case 0:
		g.Count("payload:empty")
		return "-"
	case 1:
		g.Count("payload:small")
		return Hex(g.R.Bytes(g.R.Range(1, 64)))
	case 2:
		g.Count("payload:near-1byte-varint-boundary")
		return Hex(g.R.Bytes(g.R.Range(60, 140)))
	case 3:
		g.Count("payload:near-2byte-varint-boundary")
		return rep(g.R.Range(16300, 16400), byte(g.R.U64()))
	case 4:
		g.Count("payload:300-2000")
		return rep(g.R.Range(300, 2000), byte(g.R.U64()))
	case 5:
		g.Count("payload:32767(max)")
		return rep(32767, byte(g.R.U64()))
	default:
		g.Count("payload:over-32767")
		return rep([]int{32768, 32769, 50000}[g.R.Intn(3)], byte(g.R.U64()))
	}
}

func (x *fgen) u8() uint64 {
	g := x.g
	if g.R.Chance(40) {
		return []uint64{0, 1, 2, 127, 128, 254, 255}[g.R.Intn(7)]
	}
	return uint64(g.R.Intn(256))
}

func (x *fgen) u32() uint64 {
	g := x.g
	switch g.R.Intn(6) {
	case 0:
		return 0
	case 1:
		return 1
	case 2:
		return 0xFFFFFFFF
	case 3:
		return 0x80000000
	case 4:
		return uint64(g.R.Intn(70000))
	default:
		return g.R.U64() & 0xFFFFFFFF
	}
}

func (x *fgen) clientSeq() uint64 {
	if x.wide && x.g.R.Chance(15) {
		x.g.Count("clientSeq:maybe-over-u32(lossy)")
		return x.g.R.BoundaryU64()
	}
	return x.u32()
}

func (x *fgen) msgSeq(v int) uint64 {
	if v > 5 {
		return x.g.R.BoundaryU64()
	}
	if x.wide && x.g.R.Chance(20) {
		x.g.Count("msgSeq:legacy-maybe-over-u32(encerr)")
		return x.g.R.BoundaryU64()
	}
	return x.u32()
}

func (x *fgen) setting() uint64 {
	g := x.g
	switch g.R.Pick(3, 2, 2, 2, 3) {
	case 0:
		return 0
	case 1:
		g.Count("setting:stream")
		return 2 | uint64(g.R.Intn(2))<<7
	case 2:
		g.Count("setting:topic")
		return 8 | uint64(g.R.Intn(2))<<4
	case 3:
		g.Count("setting:stream+topic")
		return 10
	default:
		return uint64(g.R.Intn(256))
	}
}

// frame returns the text of one random frame of the given type (""= random type).
func (x *fgen) frame(v int, ty string) string {
	g := x.g
	if ty == "" {
		ty = c22Types[g.R.Intn(len(c22Types))]
	}
	fl := g.R.Intn(64)
	if g.R.Chance(30) {
		fl &= 15 // no HasServerVersion/End
	}
	g.Count("type:" + ty)
	switch ty {
	case "CONNECT":
		return fmt.Sprintf("CONNECT fl=%d version=%d deviceFlag=%d deviceID=%s uid=%s token=%s clientTimestamp=%d clientKey=%s",
			fl, x.u8(), x.u8(), x.str(), x.str(), x.str(), g.R.BoundaryU64(), x.str())
	case "CONNACK":
		if fl&16 != 0 {
			g.Count("connack:hasServerVersion")
		}
		return fmt.Sprintf("CONNACK fl=%d serverVersion=%d timeDiff=%d reasonCode=%d serverKey=%s salt=%s nodeId=%d",
			fl, x.u8(), g.R.BoundaryU64(), x.u8(), x.str(), x.str(), g.R.BoundaryU64())
	case "SEND":
		return fmt.Sprintf("SEND fl=%d setting=%d clientSeq=%d clientMsgNo=%s streamNo=%s channelID=%s channelType=%d expire=%d msgKey=%s topic=%s payload=%s",
			fl, x.setting(), x.clientSeq(), x.str(), x.str(), x.str(), x.u8(), x.u32(), x.str(), x.str(), x.payload(true))
	case "SENDACK":
		return fmt.Sprintf("SENDACK fl=%d messageID=%d clientSeq=%d messageSeq=%d reasonCode=%d clientMsgNo=%s",
			fl, g.R.BoundaryU64(), x.clientSeq(), x.msgSeq(v), x.u8(), x.str())
	case "RECV":
		return fmt.Sprintf("RECV fl=%d setting=%d msgKey=%s fromUID=%s channelID=%s channelType=%d expire=%d clientMsgNo=%s streamFlag=%d streamNo=%s streamId=%d messageID=%d messageSeq=%d timestamp=%d topic=%s payload=%s",
			fl, x.setting(), x.str(), x.str(), x.str(), x.u8(), x.u32(), x.str(), x.u8(), x.str(), g.R.BoundaryU64(), g.R.BoundaryU64(), x.msgSeq(v), x.u32(), x.str(), x.payload(false))
	case "RECVACK":
		return fmt.Sprintf("RECVACK fl=%d messageID=%d messageSeq=%d", fl, g.R.BoundaryU64(), x.msgSeq(v))
	case "PING":
		return fmt.Sprintf("PING fl=%d", fl)
	case "PONG":
		return fmt.Sprintf("PONG fl=%d", fl)
	case "DISCONNECT":
		return fmt.Sprintf("DISCONNECT fl=%d reasonCode=%d reason=%s", fl, x.u8(), x.str())
	case "SUB":
		return fmt.Sprintf("SUB fl=%d setting=%d subNo=%s channelID=%s channelType=%d action=%d param=%s",
			fl, x.setting(), x.str(), x.str(), x.u8(), x.u8(), x.str())
	case "SUBACK":
		return fmt.Sprintf("SUBACK fl=%d subNo=%s channelID=%s channelType=%d action=%d reasonCode=%d",
			fl, x.str(), x.str(), x.u8(), x.u8(), x.u8())
	default:
		return fmt.Sprintf("EVENT fl=%d id=%s type=%s timestamp=%d data=%s", fl, x.str(), x.str(), g.R.BoundaryU64(), x.payload(false))
	}
}

func genVersion(g *Gen) int {
	if g.R.Chance(8) {
		return []int{7, 8, 100, 255}[g.R.Intn(4)]
	}
	return g.R.Intn(7)
}

// ---- structure-aware wire bytes (generator only: a rough third description of
// the layout, good enough to reach the body decoders; NOT used for judging) ----

type wireB struct {
	g *Gen
	b []byte
}

func (w *wireB) u8()  { w.b = append(w.b, byte(w.g.R.U64())) }
func (w *wireB) un(n int) { w.b = append(w.b, w.g.R.Bytes(n)...) }
func (w *wireB) str() {
	g := w.g
	n := []int{0, 0, 1, 2, 5, 9}[g.R.Intn(6)]
	ln := n
	if g.R.Chance(6) { // lying length prefix
		g.Count("wire:bad-string-length")
		ln = []int{n + 1, n + 200, 0x7FFF, 0x8000, 0xFFFF}[g.R.Intn(5)]
	}
	w.b = append(w.b, byte(ln>>8), byte(ln))
	w.un(n)
}

func wireVarint(g *Gen, n int) []byte {
	var out []byte
	for n > 0 {
		d := byte(n % 128)
		n /= 128
		if n > 0 {
			d |= 0x80
		}
		out = append(out, d)
	}
	return out
}

// genWire builds one mostly-well-formed encoded frame for version v, then maybe mutates it.
func genWire(g *Gen, v int) []byte {
	w := &wireB{g: g}
	ft := g.R.Pick(1, 6, 6, 8, 8, 8, 5, 3, 3, 5, 6, 6, 6, 1, 1, 1) // index = frame type nibble 0..15
	g.Count(fmt.Sprintf("wire:type%d", ft))
	setting := byte(0)
	switch g.R.Intn(5) {
	case 0:
		setting = 2
	case 1:
		setting = 8
	case 2:
		setting = 10
	case 3:
		setting = byte(g.R.U64())
	}
	legacy := v <= 5
	seq := func() {
		if legacy {
			w.un(4)
		} else {
			w.un(8)
		}
	}
	stream := v >= 2 && v < 5 && setting&2 != 0
	hdr := byte(ft<<4) | byte(g.R.Intn(16))
	switch ft {
	case 1:
		w.u8(); w.u8(); w.str(); w.str(); w.str(); w.un(8); w.str()
	case 2:
		if hdr&1 != 0 {
			w.u8()
		}
		w.un(8); w.u8(); w.str(); w.str()
		if v >= 4 {
			w.un(8)
		}
	case 3:
		w.b = append(w.b, setting); w.un(4); w.str()
		if stream {
			w.str()
		}
		w.str(); w.u8()
		if v >= 3 {
			w.un(4)
		}
		w.str()
		if setting&8 != 0 {
			w.str()
		}
		w.un(g.R.Intn(12))
	case 4:
		w.un(8); w.un(4)
		switch g.R.Intn(3) {
		case 0:
			g.Count("wire:sendack-core-only")
			seq(); w.u8()
		case 1:
			g.Count("wire:sendack-core-first")
			seq(); w.u8(); w.str()
		default:
			g.Count("wire:sendack-msgno-first")
			w.str(); seq(); w.u8()
		}
	case 5:
		w.b = append(w.b, setting); w.str(); w.str(); w.str(); w.u8()
		if v >= 3 {
			w.un(4)
		}
		w.str()
		if stream {
			w.u8(); w.str(); w.un(8)
		}
		w.un(8); seq(); w.un(4)
		if setting&8 != 0 {
			w.str()
		}
		w.un(g.R.Intn(12))
	case 6:
		w.un(8); seq()
	case 9:
		w.u8(); w.str()
	case 10:
		w.b = append(w.b, setting); w.str(); w.str(); w.u8(); w.u8(); w.str()
	case 11:
		w.str(); w.str(); w.u8(); w.u8(); w.u8()
	case 12:
		w.str(); w.str(); w.un(8); w.un(g.R.Intn(12))
	default:
		w.un(g.R.Intn(10))
	}
	body := w.b
	var out []byte
	out = append(out, hdr)
	if ft != 7 && ft != 8 {
		n := len(body)
		switch g.R.Pick(80, 5, 4, 4, 4, 3) {
		case 0:
			out = append(out, wireVarint(g, n)...)
		case 1:
			g.Count("wire:len-off-by-one")
			out = append(out, wireVarint(g, n+1-2*g.R.Intn(2))...)
		case 2: // non-canonical: padded with a continuation byte
			g.Count("wire:len-noncanonical")
			vv := wireVarint(g, n)
			if len(vv) > 0 {
				vv[len(vv)-1] |= 0x80
			}
			out = append(out, vv...)
			out = append(out, 0)
		case 3: // four continuation bytes (decoder reports 5 without reading the 5th)
			g.Count("wire:len-5-bytes")
			out = append(out, 0x80|byte(n), 0x80, 0x80, 0x80)
			if g.R.Bool() {
				out = append(out, byte(g.R.U64()))
			}
		case 4: // above MaxRemaingLength
			g.Count("wire:len-oversize")
			out = append(out, wireVarint(g, 1024*1024+g.R.Intn(3))...)
		default:
			g.Count("wire:len-zero")
			out = append(out, 0)
		}
		out = append(out, body...)
	}
	if g.R.Chance(45) && len(out) > 0 {
		switch g.R.Intn(6) {
		case 0:
			g.Count("wire:mut-truncate")
			out = out[:g.R.Intn(len(out))+0]
			if len(out) == 0 {
				out = []byte{hdr}
			}
		case 1:
			g.Count("wire:mut-flip")
			out[g.R.Intn(len(out))] ^= 1 << uint(g.R.Intn(8))
		case 2:
			g.Count("wire:mut-delete")
			if len(out) > 1 {
				i := g.R.Intn(len(out))
				out = append(out[:i:i], out[i+1:]...)
			}
		case 3:
			g.Count("wire:mut-insert")
			i := g.R.Intn(len(out) + 1)
			out = append(out[:i:i], append([]byte{byte(g.R.U64())}, out[i:]...)...)
		case 4:
			g.Count("wire:mut-append")
			out = append(out, g.R.Bytes(g.R.Range(1, 6))...)
		default:
			g.Count("wire:mut-overwrite")
			out[g.R.Intn(len(out))] = []byte{0, 0x7f, 0x80, 0xff}[g.R.Intn(4)]
		}
	}
	return out
}

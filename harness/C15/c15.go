//go:build verif

package main

// C15 — channel runtime metadata never regresses: random upsert / create-batch /
// retention-advance / delete histories on the REAL meta store.
// Line protocol: see lean/Driver/C15.lean.

import (
	"context"
	"errors"
	"fmt"
	"os"
	"path/filepath"
	"strconv"
	"strings"
	"sync"
	"sync/atomic"
	"time"

	"github.com/WuKongIM/WuKongIM/pkg/db"
	metadb "github.com/WuKongIM/WuKongIM/pkg/db/meta"
	"github.com/WuKongIM/WuKongIM/pkg/slot/fsm"
	"github.com/WuKongIM/WuKongIM/pkg/slot/multiraft"
)

func init() {
	Register(&Prop{Gen: genC15, NewRunner: func() Runner { return newC15Runner() }})
}

// ---------------------------------------------------------------- generator ---

type c15Cand struct {
	ce, le, rg   uint64
	r, i         []uint64
	ld           uint64
	mi           int64
	st           uint8
	ft           uint64
	ls           int64
	rs           uint64
	ra           int64
	tk           string
	fv           uint64
	fr           uint8
	fu           int64
	dg           uint64
}

func c15List(l []uint64) string {
	if len(l) == 0 {
		return "-"
	}
	s := make([]string, len(l))
	for i, v := range l {
		s[i] = strconv.FormatUint(v, 10)
	}
	return strings.Join(s, "+")
}

func c15Tok(s string) string {
	if s == "" {
		return "-"
	}
	return s
}

func (c c15Cand) fields(sep string) string {
	return strings.Join([]string{
		strconv.FormatUint(c.ce, 10), strconv.FormatUint(c.le, 10), strconv.FormatUint(c.rg, 10),
		c15List(c.r), c15List(c.i), strconv.FormatUint(c.ld, 10), strconv.FormatInt(c.mi, 10),
		strconv.Itoa(int(c.st)), strconv.FormatUint(c.ft, 10), strconv.FormatInt(c.ls, 10),
		strconv.FormatUint(c.rs, 10), strconv.FormatInt(c.ra, 10), c15Tok(c.tk), strconv.FormatUint(c.fv, 10),
		strconv.Itoa(int(c.fr)), strconv.FormatInt(c.fu, 10), strconv.FormatUint(c.dg, 10)}, sep)
}

// near returns a value around v (mostly v-1..v+2), sometimes a boundary value.
func c15Near(g *Gen, v uint64) uint64 {
	switch g.R.Pick(40, 22, 18, 8, 6, 6) {
	case 0:
		return v
	case 1:
		if v == ^uint64(0) {
			return v
		}
		return v + 1
	case 2:
		if v == 0 {
			return 0
		}
		return v - 1
	case 3:
		if v > ^uint64(0)-2 {
			return v
		}
		return v + 2
	case 4:
		return uint64(g.R.Intn(6))
	default:
		return []uint64{0, 1, ^uint64(0), ^uint64(0) - 1, 1 << 63}[g.R.Intn(5)]
	}
}

func c15NearI(g *Gen, v int64) int64 {
	switch g.R.Pick(40, 22, 22, 10, 6) {
	case 0:
		return v
	case 1:
		return v + int64(g.R.Range(1, 50))
	case 2:
		return v - int64(g.R.Range(1, 50))
	case 3:
		return int64(g.R.Range(0, 2000))
	default:
		return []int64{0, -1, 1 << 62, -(1 << 62)}[g.R.Intn(4)]
	}
}

func c15Replicas(g *Gen) []uint64 {
	pool := []uint64{1, 2, 3, 4, 5}
	for i := len(pool) - 1; i > 0; i-- {
		j := g.R.Intn(i + 1)
		pool[i], pool[j] = pool[j], pool[i]
	}
	r := append([]uint64(nil), pool[:g.R.Range(1, 4)]...)
	if g.R.Chance(15) { // a duplicate: normalisation removes it
		r = append(r, r[0])
	}
	return r
}

func c15Distinct(l []uint64) int {
	m := map[uint64]bool{}
	for _, v := range l {
		m[v] = true
	}
	return len(m)
}

// guess of what the store keeps after candidate c met guess g (steering only)
func c15Guess(g *c15Cand, c c15Cand) *c15Cand {
	if g == nil {
		return &c
	}
	switch {
	case c.ce < g.ce || (c.ce == g.ce && c.le < g.le):
		return g
	case c.ce == g.ce && c.le == g.le && c.ld != g.ld:
		return g
	}
	if c.ce == g.ce && c.le == g.le && c.ls < g.ls {
		c.ls = g.ls
	}
	if c.rs < g.rs {
		c.rs, c.ra = g.rs, g.ra
	}
	if c.fv <= g.fv {
		c.tk, c.fv, c.fr, c.fu = g.tk, g.fv, g.fr, g.fu
	}
	if c.rg <= g.rg {
		c.rg = g.rg + 1
	}
	return &c
}

// candidate derived from the generator's last candidate for this key (prev), so that
// epochs/leader/lease land on both sides of the stored values.
func c15Gen(g *Gen, prev *c15Cand) c15Cand {
	var c c15Cand
	if prev == nil {
		c.ce, c.le = uint64(g.R.Range(0, 4)), uint64(g.R.Range(0, 4))
		if g.R.Chance(5) {
			c.ce = ^uint64(0) - uint64(g.R.Intn(2))
		}
		c.r = c15Replicas(g)
		c.i = append(c.i, c.r[:g.R.Range(1, len(c.r))]...)
		c.ld = c.i[g.R.Intn(len(c.i))]
		if g.R.Chance(8) {
			c.ld = 0
		}
		c.mi = 1
		c.ls = int64(g.R.Range(0, 1000))
		c.rs = uint64(g.R.Range(0, 20))
		c.ra = int64(g.R.Range(0, 100))
		c.dg = uint64(g.R.Range(0, 3))
		if g.R.Chance(35) {
			c.tk, c.fv, c.fr, c.fu = "t"+strconv.Itoa(g.R.Intn(3)), uint64(g.R.Range(1, 4)), uint8(g.R.Range(1, 3)), int64(g.R.Range(1, 500))
		}
	} else if g.R.Chance(16) {
		// same epochs as the (guessed) stored row, leader 0 / stored / another member; ISR and replicas
		// shaped so that validateChannelRuntimeMeta accepts the candidate
		c = *prev
		c.r = append([]uint64(nil), prev.r...)
		c.i = append([]uint64(nil), prev.i...)
		switch g.R.Pick(40, 20, 40) {
		case 0:
			c.ld = 0
			g.Count("cand:same-epochs-leader-zero")
		case 1:
			g.Count("cand:same-epochs-leader-stored")
		default:
			if c15Distinct(c.r) < 2 {
				c.r = []uint64{1, 2, 3}
			}
			c.i = nil
			seen := map[uint64]bool{}
			for _, v := range c.r {
				if !seen[v] {
					seen[v] = true
					c.i = append(c.i, v)
				}
			}
			c.ld = c.i[g.R.Intn(len(c.i))]
			if c.ld == prev.ld {
				c.ld = c.i[(g.R.Intn(len(c.i)-1)+1)%len(c.i)]
				for _, v := range c.i {
					if v != prev.ld {
						c.ld = v
					}
				}
			}
			g.Count("cand:same-epochs-leader-other-member")
		}
		if g.R.Chance(50) {
			c.ls = c15NearI(g, prev.ls)
		}
		c.mi = int64(g.R.Range(1, c15Distinct(c.r)))
		c.rg = 0
		if g.R.Chance(35) {
			c.rg = prev.rg + uint64(g.R.Intn(2))
		}
		return c
	} else if g.R.Chance(22) {
		// exactly one field differs from the (guessed) stored row, same epochs
		c = *prev
		c.r = append([]uint64(nil), prev.r...)
		c.i = append([]uint64(nil), prev.i...)
		switch g.R.Intn(9) {
		case 0:
			c.st = prev.st + 1
		case 1:
			c.ls = prev.ls + int64(g.R.Range(1, 9))
		case 2:
			c.rs = prev.rs + 1
		case 3:
			c.ra = prev.ra + 1
		case 4:
			c.ft = prev.ft + 1
		case 5:
			c.dg = prev.dg + 1
		case 6:
			if len(c.i) < c15Distinct(c.r) {
				c.i = append([]uint64(nil), c.r...)
			} else if len(c.i) > 1 {
				keep := []uint64{c.ld}
				c.i = keep
			}
		case 7:
			if c.tk != "" {
				c.fu = prev.fu + 1
				c.fv = prev.fv + 1
			} else {
				c.tk, c.fv, c.fr, c.fu = "t9", prev.fv+1, 1, 10
			}
		default:
			// identical re-submission
		}
		c.rg = 0
		if g.R.Chance(40) {
			c.rg = prev.rg
		}
		if g.R.Chance(50) {
			c.mi = prev.mi
		}
		g.Count("cand:single-field")
		return c
	} else {
		c = *prev
		c.r = append([]uint64(nil), prev.r...)
		c.i = append([]uint64(nil), prev.i...)
		c.ce = c15Near(g, prev.ce)
		if c.ce == prev.ce || g.R.Chance(30) {
			c.le = c15Near(g, prev.le)
		}
		if g.R.Chance(25) { // membership change
			c.r = c15Replicas(g)
			c.i = append([]uint64(nil), c.r[:g.R.Range(1, len(c.r))]...)
			c.ld = c.i[g.R.Intn(len(c.i))]
		} else if g.R.Chance(20) { // leader switch within the ISR
			c.ld = c.i[g.R.Intn(len(c.i))]
		} else if g.R.Chance(5) {
			c.ld = 0
		}
		c.ls = c15NearI(g, prev.ls)
		if g.R.Chance(40) {
			c.rs = c15Near(g, prev.rs)
			c.ra = c15NearI(g, prev.ra)
		}
		if g.R.Chance(35) {
			c.fv = c15Near(g, prev.fv)
			if g.R.Chance(70) {
				c.tk, c.fr, c.fu = "t"+strconv.Itoa(g.R.Intn(3)), uint8(g.R.Range(1, 3)), int64(g.R.Range(1, 500))
				if c.fv == 0 {
					c.fv = 1
				}
			} else {
				c.tk, c.fr, c.fu = "", 0, 0
			}
		}
		if g.R.Chance(15) {
			c.dg = c15Near(g, prev.dg)
		}
		if g.R.Chance(15) {
			c.st = uint8(g.R.Intn(4))
		}
		if g.R.Chance(10) {
			c.ft = uint64(g.R.Intn(8))
		}
	}
	c.mi = int64(g.R.Range(1, c15Distinct(c.r)))
	if g.R.Chance(4) {
		c.mi = int64(g.R.Range(-1, 6))
	}
	// explicit route generation or 0 (= derive)
	switch g.R.Pick(50, 30, 12, 8) {
	case 0:
		c.rg = 0
	case 1:
		base := uint64(1)
		if prev != nil {
			base = prev.rg
		}
		c.rg = c15Near(g, base+uint64(g.R.Intn(4)))
	case 2:
		c.rg = uint64(g.R.Range(1, 12))
	default:
		c.rg = ^uint64(0) - uint64(g.R.Intn(2))
	}
	return c
}

// c15Spoil turns a candidate into one validateChannelRuntimeMeta rejects (sometimes)
func c15Spoil(g *Gen, c c15Cand) c15Cand {
	c.r = append([]uint64(nil), c.r...)
	c.i = append([]uint64(nil), c.i...)
	switch g.R.Pick(91, 2, 2, 2, 1, 2) {
	case 1:
		c.r = nil
	case 2:
		c.i = append(c.i, 99)
	case 3:
		c.ld = 77
	case 4:
		c.tk, c.fr = "", 2
	case 5:
		c.tk, c.fv = "tx", 0
	}
	return c
}

// one staged sub-op for a WriteBatch / FSM command; `update` receives the generator's new guess
func c15Sub(g *Gen, mode string, id string, ty int64, prev *c15Cand, update func(c *c15Cand, deleted bool)) string {
	kind := 0
	switch mode {
	case "wbt":
		kind = g.R.Pick(40, 20, 20, 20)
	case "fsm:u":
		kind = 0
	case "fsm:d":
		kind = 2
	case "fsm:a":
		kind = 3
	}
	switch kind {
	case 0:
		c := c15Spoil(g, c15Gen(g, prev))
		g.Count(mode + ":upsert")
		update(c15Guess(prev, c), false)
		return fmt.Sprintf("u,%s,%d,%s", id, ty, c.fields(","))
	case 1:
		c := c15Gen(g, prev)
		g.Count(mode + ":create")
		if prev == nil {
			cc := c
			update(&cc, false)
		}
		return fmt.Sprintf("c,%s,%d,%s", id, ty, c.fields(","))
	case 2:
		g.Count(mode + ":delete")
		update(nil, true)
		return fmt.Sprintf("d,%s,%d", id, ty)
	default:
		var ece, ele, eld uint64
		var els int64
		var rs uint64
		if prev != nil {
			ece, ele, eld, els = prev.ce, prev.le, prev.ld, prev.ls
			rs = c15Near(g, prev.rs+uint64(g.R.Intn(3)))
			if g.R.Chance(12) {
				eld++
			}
			if rs > prev.rs {
				cc := *prev
				cc.rs = rs
				update(&cc, false)
			}
		}
		g.Count(mode + ":advance")
		return fmt.Sprintf("a,%s,%d,%d,%d,%d,%d,%d,%d", id, ty, ece, ele, eld, els, rs, int64(g.R.Range(0, 500)))
	}
}

func genC15(g *Gen) {
	ids := []string{"a", "chan-b", "c"}
	types := []int64{1, 2, -5}
	for n := 0; n < g.N; n++ {
		g.Case()
		nk := g.R.Range(1, 2)
		type key struct {
			id string
			ty int64
		}
		keys := make([]key, nk)
		for k := range keys {
			keys[k] = key{ids[g.R.Intn(len(ids))], types[g.R.Intn(len(types))]}
		}
		last := map[key]*c15Cand{}
		nops := g.R.Range(6, 40)
		for o := 0; o < nops; o++ {
			k := keys[g.R.Intn(nk)]
			id := k.id
			if g.R.Chance(2) {
				id = "-" // empty channel id: invalid argument
				g.Count("invalid-id")
			}
			prev := last[k]
			classify := func(c c15Cand) {
				if prev == nil {
					g.Count("cand:first")
					return
				}
				switch {
				case c.ce > prev.ce:
					g.Count("cand:channel-epoch-higher")
				case c.ce < prev.ce:
					g.Count("cand:channel-epoch-lower")
				case c.le > prev.le:
					g.Count("cand:leader-epoch-higher")
				case c.le < prev.le:
					g.Count("cand:leader-epoch-lower")
				case c.ld != prev.ld:
					g.Count("cand:same-epochs-leader-differs")
				case c.ls < prev.ls:
					g.Count("cand:same-epochs-lease-shorter")
				default:
					g.Count("cand:same-epochs-same-leader")
				}
				if c.rg == 0 {
					g.Count("cand:route-gen-derived")
				} else if c.rg == ^uint64(0) || c.rg == ^uint64(0)-1 {
					g.Count("cand:route-gen-near-max")
				} else {
					g.Count("cand:route-gen-explicit")
				}
			}
			if g.R.Chance(4) {
				g.Count("conc")
				g.Op("conc", "%s %d %d", k.id, k.ty, g.R.Range(2, 6))
				delete(last, k)
				continue
			}
			switch g.R.Pick(40, 12, 10, 6, 8, 12, 12) {
			case 0:
				c := c15Gen(g, prev)
				classify(c)
				sp := c15Spoil(g, c)
				g.Op("up", "%s %d %s", id, k.ty, sp.fields(" "))
				if sp.fields(" ") == c.fields(" ") && id != "-" {
					last[k] = c15Guess(prev, c)
				} else {
					g.Count("cand:spoiled")
				}
			case 1: // one batch: 1-3 staged ops (upsert / create), possibly on the same row
				ns := g.R.Range(1, 3)
				var subs []string
				for s := 0; s < ns; s++ {
					kk := keys[g.R.Intn(nk)]
					c := c15Gen(g, last[kk])
					kind := "u"
					if g.R.Chance(45) {
						kind = "c"
						g.Count("batch:create")
					} else {
						g.Count("batch:upsert")
					}
					subs = append(subs, fmt.Sprintf("%s,%s,%d,%s", kind, kk.id, kk.ty, c.fields(",")))
					if kind == "u" {
						last[kk] = c15Guess(last[kk], c)
					} else if last[kk] == nil {
						cc := c
						last[kk] = &cc
					}
				}
				g.Op("bt", "%s", strings.Join(subs, ";"))
			case 2: // retention advance, expectations taken from the last candidate
				var ece, ele, eld uint64
				var els int64
				var rs uint64
				if prev != nil {
					ece, ele, eld, els = prev.ce, prev.le, prev.ld, prev.ls
					rs = c15Near(g, prev.rs+uint64(g.R.Intn(3)))
					if g.R.Chance(12) {
						eld++
						g.Count("adv:wrong-leader")
					}
					if g.R.Chance(8) {
						els--
					}
				} else {
					g.Count("adv:no-prior-write")
				}
				g.Op("adv", "%s %d %d %d %d %d %d %d", id, k.ty, ece, ele, eld, els, rs, int64(g.R.Range(0, 500)))
				if prev != nil && rs > prev.rs {
					prev.rs = rs
				}
			case 3:
				g.Op("del", "%s %d", id, k.ty)
				if g.R.Chance(70) {
					delete(last, k)
				}
			case 4:
				g.Op("get", "%s %d", id, k.ty)
			case 5: // compat WriteBatch: 1-3 staged upsert / create / delete / advance, one commit
				ns := g.R.Range(1, 3)
				var subs []string
				for s := 0; s < ns; s++ {
					kk := keys[g.R.Intn(nk)]
					subs = append(subs, c15Sub(g, "wbt", kk.id, kk.ty, last[kk], func(c *c15Cand, deleted bool) {
						if deleted {
							delete(last, kk)
						} else if c != nil {
							last[kk] = c
						}
					}))
				}
				g.Op("wbt", "%s", strings.Join(subs, ";"))
			default: // one slot-FSM command (ApplyBatch of one multiraft.Command)
				kind := g.R.Pick(45, 15, 20, 20)
				switch kind {
				case 3: // create batch with 1-2 items
					n := g.R.Range(1, 2)
					var items []string
					for s := 0; s < n; s++ {
						kk := keys[g.R.Intn(nk)]
						if kk.ty == 1 {
							// person channels: command 59 also stages EnsurePersonDirectoryTask (person-directory
							// tables, outside this property's model) - not driven through the FSM create path
							g.Count("fsm:create-person-channel-skipped")
							continue
						}
						c := c15Gen(g, last[kk])
						items = append(items, fmt.Sprintf("c,%s,%d,%s", kk.id, kk.ty, c.fields(",")))
						if last[kk] == nil {
							cc := c
							last[kk] = &cc
						}
					}
					if len(items) == 0 {
						g.Op("get", "%s %d", id, k.ty)
						break
					}
					g.Count("fsm:create-batch")
					g.Op("fsm", "%s", strings.Join(items, "|"))
				default:
					g.Op("fsm", "%s", c15Sub(g, []string{"fsm:u", "fsm:d", "fsm:a"}[kind], k.id, k.ty, prev, func(c *c15Cand, deleted bool) {
						if deleted {
							delete(last, k)
						} else if c != nil {
							last[k] = c
						}
					}))
				}
			}
		}
	}
}

// ------------------------------------------------------------------- runner ---

var (
	c15Once  sync.Once
	c15Store *db.NodeStore
	c15Err   error
	c15Case  int
)

type c15Runner struct {
	hs  metadb.HashSlot
	cdb *metadb.DB
	sm  multiraft.StateMachine
	idx uint64
}

func newC15Runner() *c15Runner {
	c15Once.Do(func() {
		dir := os.Getenv("VERIF_SCRATCH")
		if dir == "" {
			dir, _ = os.MkdirTemp("", "c15")
		}
		c15Store, c15Err = db.OpenNodeStore(db.DefaultNodeStoreOptions(filepath.Join(dir, "c15store")))
	})
	if c15Err != nil {
		panic(c15Err)
	}
	c15Case++
	// every case gets its own hash slot: rows of different cases never meet
	r := &c15Runner{hs: metadb.HashSlot(c15Case % 60000)}
	r.cdb = metadb.VerifCompatDB(c15Store.Meta())
	sm, err := fsm.NewStateMachineWithHashSlots(r.cdb, 1, []uint16{uint16(r.hs)})
	if err != nil {
		panic(err)
	}
	r.sm = sm
	r.idx = uint64(c15Case) * 1000
	return r
}

func (r *c15Runner) Close() {}

func c15ParseList(s string) ([]uint64, bool) {
	if s == "-" {
		return nil, true
	}
	var out []uint64
	for _, p := range strings.Split(s, "+") {
		v, err := strconv.ParseUint(p, 10, 64)
		if err != nil {
			return nil, false
		}
		out = append(out, v)
	}
	return out, true
}

func c15ParseCand(id string, ty int64, f []string) (metadb.ChannelRuntimeMeta, bool) {
	var m metadb.ChannelRuntimeMeta
	if len(f) != 17 {
		return m, false
	}
	ok := true
	u := func(s string) uint64 {
		v, err := strconv.ParseUint(s, 10, 64)
		if err != nil {
			ok = false
		}
		return v
	}
	i := func(s string) int64 {
		v, err := strconv.ParseInt(s, 10, 64)
		if err != nil {
			ok = false
		}
		return v
	}
	b := func(s string) uint8 {
		v, err := strconv.ParseUint(s, 10, 8)
		if err != nil {
			ok = false
		}
		return uint8(v)
	}
	if id != "-" {
		m.ChannelID = id
	}
	m.ChannelType = ty
	m.ChannelEpoch, m.LeaderEpoch, m.RouteGeneration = u(f[0]), u(f[1]), u(f[2])
	var ok1, ok2 bool
	m.Replicas, ok1 = c15ParseList(f[3])
	m.ISR, ok2 = c15ParseList(f[4])
	m.Leader, m.MinISR, m.Status, m.Features, m.LeaseUntilMS = u(f[5]), i(f[6]), b(f[7]), u(f[8]), i(f[9])
	m.RetentionThroughSeq, m.RetentionUpdatedAtMS = u(f[10]), i(f[11])
	if f[12] != "-" {
		m.WriteFenceToken = f[12]
	}
	m.WriteFenceVersion, m.WriteFenceReason, m.WriteFenceUntilMS, m.DirectoryGeneration = u(f[13]), b(f[14]), i(f[15]), u(f[16])
	return m, ok && ok1 && ok2
}

type c15Key struct {
	id string
	ty int64
}

func c15AddKey(keys []c15Key, id string, ty int64) []c15Key {
	for _, k := range keys {
		if k.id == id && k.ty == ty {
			return keys
		}
	}
	return append(keys, c15Key{id, ty})
}

func c15ParseAdv(id string, ty int64, f []string) (metadb.ChannelRetentionAdvance, bool) {
	var req metadb.ChannelRetentionAdvance
	if len(f) != 6 {
		return req, false
	}
	ece, e1 := strconv.ParseUint(f[0], 10, 64)
	ele, e2 := strconv.ParseUint(f[1], 10, 64)
	eld, e3 := strconv.ParseUint(f[2], 10, 64)
	els, e4 := strconv.ParseInt(f[3], 10, 64)
	rs, e5 := strconv.ParseUint(f[4], 10, 64)
	ra, e6 := strconv.ParseInt(f[5], 10, 64)
	if e1 != nil || e2 != nil || e3 != nil || e4 != nil || e5 != nil || e6 != nil {
		return req, false
	}
	return metadb.ChannelRetentionAdvance{ChannelID: id, ChannelType: ty, ExpectedChannelEpoch: ece, ExpectedLeaderEpoch: ele,
		ExpectedLeader: eld, ExpectedLeaseUntilMS: els, RetentionThroughSeq: rs, RetentionUpdatedAtMS: ra}, true
}

func c15Row(m metadb.ChannelRuntimeMeta, ok bool) string {
	if !ok {
		return "-"
	}
	return fmt.Sprintf("ce=%d,le=%d,rg=%d,R=%s,I=%s,ld=%d,mi=%d,st=%d,ft=%d,ls=%d,rs=%d,ra=%d,tk=%s,fv=%d,fr=%d,fu=%d,dg=%d",
		m.ChannelEpoch, m.LeaderEpoch, m.RouteGeneration, c15List(m.Replicas), c15List(m.ISR), m.Leader, m.MinISR,
		m.Status, m.Features, m.LeaseUntilMS, m.RetentionThroughSeq, m.RetentionUpdatedAtMS, c15Tok(m.WriteFenceToken),
		m.WriteFenceVersion, m.WriteFenceReason, m.WriteFenceUntilMS, m.DirectoryGeneration)
}

func c15Err2(err error) string {
	switch {
	case err == nil:
		return "ok"
	case errors.Is(err, db.ErrInvalidArgument):
		return "invalid"
	case errors.Is(err, db.ErrConflict):
		return "conflict"
	case errors.Is(err, db.ErrNotFound):
		return "notfound"
	}
	return "err:" + strings.ReplaceAll(err.Error(), " ", "_")
}

func (r *c15Runner) get(id string, ty int64) string {
	if id == "-" {
		id = ""
	}
	m, ok, err := c15Store.Meta().HashSlot(r.hs).GetChannelRuntimeMeta(context.Background(), id, ty)
	if err != nil {
		if id == "" && errors.Is(err, db.ErrInvalidArgument) {
			return "-" // nothing can be stored under the empty id
		}
		return "err:" + strings.ReplaceAll(err.Error(), " ", "_")
	}
	return c15Row(m, ok)
}

func (r *c15Runner) Step(op string) string {
	f := strings.Fields(op)
	if len(f) == 0 {
		return "bad-op"
	}
	ctx := context.Background()
	shard := c15Store.Meta().HashSlot(r.hs)
	switch f[0] {
	case "up":
		if len(f) != 20 {
			return "bad-op"
		}
		ty, err := strconv.ParseInt(f[2], 10, 64)
		if err != nil {
			return "bad-op"
		}
		m, ok := c15ParseCand(f[1], ty, f[3:])
		if !ok {
			return "bad-op"
		}
		res, err := shard.UpsertChannelRuntimeMeta(ctx, m)
		var out string
		switch {
		case err == nil && res == metadb.MonotonicApplied:
			out = "applied"
		case err == nil && res == metadb.MonotonicIgnoredStale:
			out = "stale"
		case res == metadb.MonotonicConflict && errors.Is(err, db.ErrConflict):
			out = "conflict"
		case err != nil:
			out = c15Err2(err)
		default:
			out = fmt.Sprintf("res%d", res)
		}
		return out + " " + r.get(f[1], ty)
	case "bt":
		if len(f) != 2 {
			return "bad-op"
		}
		batch := c15Store.Meta().NewBatch()
		defer batch.Close()
		var flags, created strings.Builder
		var results []*metadb.ChannelRuntimeMetaCreateResult
		type key struct {
			id string
			ty int64
		}
		var keys []key
		for _, sub := range strings.Split(f[1], ";") {
			p := strings.Split(sub, ",")
			if len(p) != 20 {
				return "bad-op"
			}
			ty, err := strconv.ParseInt(p[2], 10, 64)
			if err != nil {
				return "bad-op"
			}
			m, ok := c15ParseCand(p[1], ty, p[3:])
			if !ok {
				return "bad-op"
			}
			seen := false
			for _, k := range keys {
				if k.id == p[1] && k.ty == ty {
					seen = true
				}
			}
			if !seen {
				keys = append(keys, key{p[1], ty})
			}
			switch p[0] {
			case "u":
				if _, err := batch.UpsertChannelRuntimeMeta(r.hs, m); err != nil {
					flags.WriteByte('i')
				} else {
					flags.WriteByte('s')
				}
			case "c":
				res, err := batch.CreateChannelRuntimeMeta(r.hs, m)
				if err != nil {
					flags.WriteByte('i')
				} else {
					flags.WriteByte('s')
					results = append(results, res)
				}
			default:
				return "bad-op"
			}
		}
		err := batch.Commit(ctx)
		commit := c15Err2(err)
		if err == nil {
			for _, res := range results {
				if res.Created {
					created.WriteByte('1')
				} else {
					created.WriteByte('0')
				}
			}
		}
		cs := created.String()
		if cs == "" {
			cs = "-"
		}
		out := flags.String() + " " + commit + " " + cs
		for _, k := range keys {
			out += " " + k.id + "/" + strconv.FormatInt(k.ty, 10) + "=" + r.get(k.id, k.ty)
		}
		return out
	case "wbt":
		if len(f) != 2 {
			return "bad-op"
		}
		wb := r.cdb.NewWriteBatch()
		defer wb.Close()
		var flags, created strings.Builder
		var results []*metadb.ChannelRuntimeMetaCreateResult
		var keys []c15Key
		for _, sub := range strings.Split(f[1], ";") {
			p := strings.Split(sub, ",")
			if len(p) < 3 {
				return "bad-op"
			}
			ty, err := strconv.ParseInt(p[2], 10, 64)
			if err != nil {
				return "bad-op"
			}
			keys = c15AddKey(keys, p[1], ty)
			id := p[1]
			if id == "-" {
				id = ""
			}
			var serr error
			switch p[0] {
			case "u", "c":
				m, ok := c15ParseCand(p[1], ty, p[3:])
				if !ok {
					return "bad-op"
				}
				if p[0] == "u" {
					serr = wb.UpsertChannelRuntimeMeta(uint16(r.hs), m)
				} else {
					var res *metadb.ChannelRuntimeMetaCreateResult
					res, serr = wb.CreateChannelRuntimeMeta(uint16(r.hs), m)
					if serr == nil {
						results = append(results, res)
					}
				}
			case "d":
				if len(p) != 3 {
					return "bad-op"
				}
				serr = wb.DeleteChannelRuntimeMeta(uint16(r.hs), id, ty)
			case "a":
				req, ok := c15ParseAdv(id, ty, p[3:])
				if !ok {
					return "bad-op"
				}
				serr = wb.AdvanceChannelRetentionThroughSeq(uint16(r.hs), req)
			default:
				return "bad-op"
			}
			if serr != nil {
				flags.WriteByte('i')
			} else {
				flags.WriteByte('s')
			}
		}
		err := wb.Commit()
		if err == nil {
			for _, res := range results {
				if res.Created {
					created.WriteByte('1')
				} else {
					created.WriteByte('0')
				}
			}
		}
		cs := created.String()
		if cs == "" {
			cs = "-"
		}
		out := flags.String() + " " + c15Err2(err) + " " + cs
		for _, k := range keys {
			out += " " + k.id + "/" + strconv.FormatInt(k.ty, 10) + "=" + r.get(k.id, k.ty)
		}
		return out
	case "fsm":
		if len(f) != 2 {
			return "bad-op"
		}
		var keys []c15Key
		var data []byte
		isCreate := false
		subs := strings.Split(f[1], "|")
		p0 := strings.Split(subs[0], ",")
		if len(p0) < 3 {
			return "bad-op"
		}
		switch p0[0] {
		case "c":
			isCreate = true
			var items []fsm.CreateChannelRuntimeMetaBatchItem
			for _, sub := range subs {
				p := strings.Split(sub, ",")
				if len(p) != 20 || p[0] != "c" {
					return "bad-op"
				}
				ty, err := strconv.ParseInt(p[2], 10, 64)
				if err != nil {
					return "bad-op"
				}
				m, ok := c15ParseCand(p[1], ty, p[3:])
				if !ok {
					return "bad-op"
				}
				keys = c15AddKey(keys, p[1], ty)
				items = append(items, fsm.CreateChannelRuntimeMetaBatchItem{HashSlot: uint16(r.hs), Meta: m})
			}
			var err error
			data, err = fsm.EncodeCreateChannelRuntimeMetaBatchCommandChecked(items)
			if err != nil {
				out := "encerr -"
				for _, k := range keys {
					out += " " + k.id + "/" + strconv.FormatInt(k.ty, 10) + "=" + r.get(k.id, k.ty)
				}
				return out
			}
		default:
			if len(subs) != 1 {
				return "bad-op"
			}
			ty, err := strconv.ParseInt(p0[2], 10, 64)
			if err != nil {
				return "bad-op"
			}
			keys = c15AddKey(keys, p0[1], ty)
			id := p0[1]
			if id == "-" {
				id = ""
			}
			switch p0[0] {
			case "u":
				m, ok := c15ParseCand(p0[1], ty, p0[3:])
				if !ok {
					return "bad-op"
				}
				data = fsm.EncodeUpsertChannelRuntimeMetaCommand(m)
			case "d":
				if len(p0) != 3 {
					return "bad-op"
				}
				data = fsm.EncodeDeleteChannelRuntimeMetaCommand(id, ty)
			case "a":
				req, ok := c15ParseAdv(id, ty, p0[3:])
				if !ok {
					return "bad-op"
				}
				data = fsm.EncodeAdvanceChannelRetentionThroughSeqCommand(req)
			default:
				return "bad-op"
			}
		}
		r.idx++
		result, err := r.sm.Apply(ctx, multiraft.Command{SlotID: 1, HashSlot: uint16(r.hs), Index: r.idx, Term: 1, Data: data})
		results := [][]byte{result}
		res, cs := c15Err2(err), "-"
		if err == nil {
			res = string(results[0])
			if isCreate {
				res = "ok"
				decoded, derr := fsm.DecodeCreateChannelRuntimeMetaBatchResult(results[0])
				if derr != nil {
					res = "raw:" + strings.ReplaceAll(string(results[0]), " ", "_")
				} else {
					var sb strings.Builder
					for _, d := range decoded {
						if d.Created {
							sb.WriteByte('1')
						} else {
							sb.WriteByte('0')
						}
					}
					cs = sb.String()
				}
			}
		}
		out := res + " " + cs
		for _, k := range keys {
			out += " " + k.id + "/" + strconv.FormatInt(k.ty, 10) + "=" + r.get(k.id, k.ty)
		}
		return out
	case "conc":
		// concurrent upserts (rising leader epochs) and retention advances on ONE channel; the output is a
		// trace with logical stamps (one atomic counter): U:<ack>:<result>:<ce>:<le>, A:<ack>:<result>:<rs>,
		// R:<start>:<row>.  Not compared with the model (schedule dependent); judged for linearizable
		// monotonicity: a read that starts after a write was acknowledged must not be behind that write.
		if len(f) != 4 {
			return "bad-op"
		}
		ty, err := strconv.ParseInt(f[2], 10, 64)
		rounds, err2 := strconv.Atoi(f[3])
		if err != nil || err2 != nil || rounds < 0 || rounds > 16 || f[1] == "-" {
			return "bad-op"
		}
		id := f[1]
		var clock atomic.Int64
		var mu sync.Mutex
		var events []string
		rec := func(e string) {
			mu.Lock()
			events = append(events, e)
			mu.Unlock()
		}
		pre := r.get(id, ty)
		for round := 0; round < rounds; round++ {
			row, ok, gerr := shard.GetChannelRuntimeMeta(ctx, id, ty)
			if gerr != nil {
				return "err:" + strings.ReplaceAll(gerr.Error(), " ", "_")
			}
			if !ok {
				_, _ = shard.UpsertChannelRuntimeMeta(ctx, metadb.ChannelRuntimeMeta{ChannelID: id, ChannelType: ty, ChannelEpoch: 1,
					LeaderEpoch: 1, Replicas: []uint64{1, 2}, ISR: []uint64{1, 2}, Leader: 1, MinISR: 1, LeaseUntilMS: 10})
				continue
			}
			if row.LeaderEpoch > ^uint64(0)-8 || row.RetentionThroughSeq > ^uint64(0)-8 {
				break
			}
			const k = 2
			steered := round%2 == 0
			var unlock func()
			if steered {
				unlock = metadb.VerifLockHashSlot(c15Store.Meta(), r.hs)
			}
			var wg sync.WaitGroup
			for j := 1; j <= k; j++ {
				wg.Add(1)
				go func(j int) {
					defer wg.Done()
					c := row
					c.Replicas = append([]uint64(nil), row.Replicas...)
					c.ISR = append([]uint64(nil), row.ISR...)
					c.LeaderEpoch = row.LeaderEpoch + uint64(j)
					c.LeaseUntilMS = row.LeaseUntilMS + 1
					c.RouteGeneration = 0
					res, uerr := shard.UpsertChannelRuntimeMeta(ctx, c)
					ack := clock.Add(1)
					out := "other"
					switch {
					case uerr == nil && res == metadb.MonotonicApplied:
						out = "applied"
					case uerr == nil && res == metadb.MonotonicIgnoredStale:
						out = "stale"
					case errors.Is(uerr, db.ErrConflict):
						out = "conflict"
					}
					rec(fmt.Sprintf("U:%d:%s:%d:%d", ack, out, c.ChannelEpoch, c.LeaderEpoch))
				}(j)
			}
			if steered {
				time.Sleep(300 * time.Microsecond)
			}
			for j := 1; j <= k; j++ {
				wg.Add(1)
				go func(j int) {
					defer wg.Done()
					rs := row.RetentionThroughSeq + uint64(j)
					aerr := shard.AdvanceChannelRetentionThroughSeq(ctx, metadb.ChannelRetentionAdvance{ChannelID: id, ChannelType: ty,
						ExpectedChannelEpoch: row.ChannelEpoch, ExpectedLeaderEpoch: row.LeaderEpoch, ExpectedLeader: row.Leader,
						ExpectedLeaseUntilMS: row.LeaseUntilMS, RetentionThroughSeq: rs, RetentionUpdatedAtMS: row.RetentionUpdatedAtMS + 1})
					ack := clock.Add(1)
					rec(fmt.Sprintf("A:%d:%s:%d", ack, c15Err2(aerr), rs))
				}(j)
			}
			wg.Add(1)
			go func() {
				defer wg.Done()
				for i := 0; i < 3; i++ {
					start := clock.Add(1)
					rec(fmt.Sprintf("R:%d:%s", start, r.get(id, ty)))
				}
			}()
			if steered {
				time.Sleep(300 * time.Microsecond)
				unlock()
			}
			wg.Wait()
			start := clock.Add(1)
			rec(fmt.Sprintf("R:%d:%s", start, r.get(id, ty)))
		}
		ev := "-"
		if len(events) > 0 {
			ev = strings.Join(events, ";")
		}
		return "pre=" + pre + " post=" + r.get(id, ty) + " E=" + ev
	case "adv":
		if len(f) != 9 {
			return "bad-op"
		}
		ty, e0 := strconv.ParseInt(f[2], 10, 64)
		ece, e1 := strconv.ParseUint(f[3], 10, 64)
		ele, e2 := strconv.ParseUint(f[4], 10, 64)
		eld, e3 := strconv.ParseUint(f[5], 10, 64)
		els, e4 := strconv.ParseInt(f[6], 10, 64)
		rs, e5 := strconv.ParseUint(f[7], 10, 64)
		ra, e6 := strconv.ParseInt(f[8], 10, 64)
		if e0 != nil || e1 != nil || e2 != nil || e3 != nil || e4 != nil || e5 != nil || e6 != nil {
			return "bad-op"
		}
		id := f[1]
		if id == "-" {
			id = ""
		}
		err := shard.AdvanceChannelRetentionThroughSeq(ctx, metadb.ChannelRetentionAdvance{
			ChannelID: id, ChannelType: ty, ExpectedChannelEpoch: ece, ExpectedLeaderEpoch: ele, ExpectedLeader: eld,
			ExpectedLeaseUntilMS: els, RetentionThroughSeq: rs, RetentionUpdatedAtMS: ra})
		return c15Err2(err) + " " + r.get(f[1], ty)
	case "del":
		if len(f) != 3 {
			return "bad-op"
		}
		ty, err := strconv.ParseInt(f[2], 10, 64)
		if err != nil {
			return "bad-op"
		}
		id := f[1]
		if id == "-" {
			id = ""
		}
		return c15Err2(shard.DeleteChannelRuntimeMeta(ctx, id, ty)) + " " + r.get(f[1], ty)
	case "get":
		if len(f) != 3 {
			return "bad-op"
		}
		ty, err := strconv.ParseInt(f[2], 10, 64)
		if err != nil {
			return "bad-op"
		}
		return r.get(f[1], ty)
	}
	return "bad-op"
}

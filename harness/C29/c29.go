//go:build verif

// C29 — send results are aligned, ordered and idempotent (internal/runtime/channelappend).
//
// ops
//   coal <u.m.p>...                                   pure: real newIdempotentAppendBatch + expandCompletions (hook)
//        out: k=<n> u=<orig idx of each storage append> o=<owner per caller> s=<seq per caller> c=<committed bits>
//   rec <errKind> <hasStore> <retryMode> <u.m.p.l1.l2.x>...
//        pure: real appendBatchErrorCompletionsOrRecoveriesAndRetry with scripted lookups/retry appender (hook)
//        out: cl=<class per item> sq=<seq per item> cm=<committed bits> rs=<retry request sizes>
//   drain <seq>...                                    pure: real recordAppendCompletion + popNextAppendCompletion loop (hook)
//        out: per arrival the batch sequences drained, `|`-separated (`-` = none)
//   expired <x|l per item>                            one SubmitLocal whose 'x' items carry a past Deadline (public API)
//        out: sent=<idx…> res=<kind…> stored=<idx…>
//   routerdl <variant> <seed> / idlewriter <retentionMs> <seed>   steered (see the functions); out: ev=<tokens>, extra token
//        X.ch = a second AppendBatch for channel ch arrived while one was in flight
//   traffic <nch> <senders> <calls> <maxItems> <dupPct> <failPct> <latUs> <admCap> <backlog> <fenced> <router> <coalesce> <seed>
//        concurrent SendBatch / SubmitLocal callers over several channels against a REAL Group (+Router) with a
//        fake Appender / IdempotencyStore port (per-channel serialiser = the reference map; random latencies,
//        failures before / after / in the middle of a commit, item errors, short result vectors, lookup errors,
//        admission and channel backpressure).  out: ev=<tokens> — linearised log judged by the Lean driver:
//          I.call.idx.ch.u.m.p   item idx of call        B.call   call begins      L.call.n   results returned
//          R.call.idx.kind.id.seq  result (kind 0 ok,1 reason,2 error,3 backpressured,4 channel busy,5 deadline = never answered)   E.call   call returned
//          Q.req.ch.attempt  append request   M.req.u.m.p.id  its messages
//          P.ch.u.m.p.id.seq  record persisted by the fake store     K.u.m  a lookup answered with an error
package main

import (
	"context"
	"errors"
	"fmt"
	"strconv"
	"strings"
	"sync"
	"sync/atomic"
	"time"

	"github.com/WuKongIM/WuKongIM/internal/runtime/channelappend"
)

func init() {
	Register(&Prop{Gen: genC29, NewRunner: func() Runner { return &c29Runner{} }})
}

// ---------------------------------------------------------------- generator ---

func c29GenItem(g *Gen, hist [][3]int) [3]int {
	if len(hist) > 0 && g.R.Chance(45) {
		h := hist[g.R.Intn(len(hist))]
		switch g.R.Pick(6, 2, 1) {
		case 0:
			g.Count("coal:exact-duplicate")
			return h
		case 1:
			g.Count("coal:same-key-other-payload")
			return [3]int{h[0], h[1], h[2] + 1 + g.R.Intn(2)}
		default:
			g.Count("coal:same-payload-other-key")
			return [3]int{h[0], h[1] + 1, h[2]}
		}
	}
	it := [3]int{g.R.Range(1, 3), g.R.Range(1, 4), g.R.Range(0, 3)}
	switch g.R.Pick(10, 1, 1) {
	case 1:
		it[0] = 0
		g.Count("coal:empty-from")
	case 2:
		it[1] = 0
		g.Count("coal:empty-clientmsgno")
	}
	return it
}

func genC29(g *Gen) {
	g.Case()
	// pure coalescing: short batches exhaustively-ish, then random, a few beyond the 128-item stack table
	for i := 0; i < g.N*6; i++ {
		n := g.R.Range(0, 7)
		if g.R.Chance(3) {
			n = g.R.Range(120, 140)
			g.Count("coal:len>=120")
		}
		var hist [][3]int
		var sb strings.Builder
		for k := 0; k < n; k++ {
			it := c29GenItem(g, hist)
			hist = append(hist, it)
			fmt.Fprintf(&sb, " %d.%d.%d", it[0], it[1], it[2])
		}
		g.Op("coal", "%s", strings.TrimSpace(sb.String()+" "))
	}
	for i := 0; i < g.N*4; i++ {
		errKind := g.R.Pick(8, 1)
		hasStore := 1
		if g.R.Chance(8) {
			hasStore = 0
		}
		retry := g.R.Pick(4, 3, 1, 1, 1)
		n := g.R.Range(1, 5)
		var sb strings.Builder
		hits := 0
		for k := 0; k < n; k++ {
			l1 := g.R.Pick(5, 4, 1)
			if l1 == 1 {
				hits++
			}
			x := 0
			if g.R.Chance(10) {
				x = 1
			}
			fmt.Fprintf(&sb, " %d.%d.%d.%d.%d.%d", 1+k%2, k+1, g.R.Intn(3), l1, g.R.Pick(4, 4, 1), x)
		}
		switch {
		case errKind != 0 || hasStore == 0:
			g.Count("rec:no-recovery-path")
		case hits == 0:
			g.Count("rec:no-sibling-hit")
		case hits == n:
			g.Count("rec:all-recovered")
		default:
			g.Count(fmt.Sprintf("rec:mixed-retry-mode-%d", retry))
		}
		g.Op("rec", "%d %d %d%s", errKind, hasStore, retry, sb.String())
	}
	// steered: terminal-signal merging in the Router, idle-writer reclamation while an append is in flight
	for v := 0; v < 3; v++ {
		g.Count("steer:routerdl")
		g.Op("routerdl", "%d %d", v, g.R.U64()>>1)
	}
	for i := 0; i < 2; i++ {
		g.Count("steer:twopass")
		g.Op("twopass", "%d %d", i, g.R.U64()>>1)
	}
	for _, ms := range []int{1, 2} {
		g.Count("steer:idlewriter")
		g.Op("idlewriter", "%d %d", ms, g.R.U64()>>1)
	}
	// expired items at append time: every flag pattern up to length 4, then random longer ones
	for n := 1; n <= 4; n++ {
		for bits := 0; bits < 1<<n; bits++ {
			b := make([]byte, n)
			for k := range b {
				b[k] = 'l'
				if bits>>k&1 == 1 {
					b[k] = 'x'
				}
			}
			if n >= 2 && b[0] == 'x' && b[1] == 'x' {
				g.Count("expired:two-leading-inactive")
			}
			g.Op("expired", "%s", string(b))
		}
	}
	for i := 0; i < g.N/2; i++ {
		n := g.R.Range(5, 10)
		b := make([]byte, n)
		for k := range b {
			b[k] = 'l'
			if g.R.Chance(45) {
				b[k] = 'x'
			}
		}
		if b[0] == 'x' && b[1] == 'x' {
			g.Count("expired:two-leading-inactive")
		}
		g.Op("expired", "%s", string(b))
	}
	// ordered completion drain: completions of append batches 0..n-1 arriving in any order, with
	// duplicates and stale arrivals
	for i := 0; i < g.N*3; i++ {
		n := g.R.Range(1, 7)
		perm := make([]int, n)
		for k := range perm {
			perm[k] = k
		}
		for k := n - 1; k > 0; k-- {
			j := g.R.Intn(k + 1)
			perm[k], perm[j] = perm[j], perm[k]
		}
		if g.R.Chance(30) {
			perm = append(perm, perm[g.R.Intn(n)])
			g.Count("drain:duplicate-arrival")
		}
		if g.R.Chance(20) {
			perm = perm[:len(perm)-1]
			g.Count("drain:missing-completion")
		}
		inOrder := true
		for k := 1; k < len(perm); k++ {
			inOrder = inOrder && perm[k-1] < perm[k]
		}
		if !inOrder {
			g.Count("drain:out-of-order-arrival")
		}
		g.Op("drain", "%s", strings.ReplaceAll(c29Ints(perm), ",", " "))
	}
	for i := 0; i < g.N; i++ {
		if i%6 == 0 {
			g.Case()
		}
		nch := g.R.Range(1, 4)
		senders := g.R.Range(1, 6)
		calls := g.R.Range(1, 5)
		maxItems := g.R.Range(1, 5)
		dup := []int{0, 20, 50}[g.R.Intn(3)]
		fail := []int{0, 15, 40}[g.R.Intn(3)]
		lat := []int{0, 20, 300}[g.R.Intn(3)]
		adm := []int{0, 0, 2, 4}[g.R.Intn(4)]
		backlog := []int{0, 0, 3, 6}[g.R.Intn(4)]
		fenced := g.R.Intn(2)
		router := g.R.Pick(3, 1)
		coalesce := g.R.Intn(2)
		if router == 0 {
			g.Count("traffic:router")
		} else {
			g.Count("traffic:submitlocal")
		}
		if adm > 0 {
			g.Count("traffic:admission-backpressure")
		}
		if backlog > 0 {
			g.Count("traffic:channel-backpressure")
		}
		if fail > 0 {
			g.Count("traffic:append-failures")
		}
		if dup > 0 {
			g.Count("traffic:duplicates")
		}
		if fenced == 1 {
			g.Count("traffic:write-fenced-lookup")
		}
		g.Op("traffic", "%d %d %d %d %d %d %d %d %d %d %d %d %d", nch, senders, calls, maxItems, dup, fail, lat, adm, backlog, fenced, 1-router, coalesce, g.R.U64()>>1)
	}
}

// ------------------------------------------------------------------ helpers ---

func c29Payload(p int) []byte { return []byte("pl" + strconv.Itoa(p)) }
func c29UID(u int) string {
	if u == 0 {
		return ""
	}
	return "u" + strconv.Itoa(u)
}
func c29Msg(m int) string {
	if m == 0 {
		return ""
	}
	return "m" + strconv.Itoa(m)
}
func c29Num(s string) int {
	if s == "" {
		return 0
	}
	n, _ := strconv.Atoi(s[1:])
	return n
}
func c29PayloadNum(b []byte) int {
	n, err := strconv.Atoi(strings.TrimPrefix(string(b), "pl"))
	if err != nil {
		return -1
	}
	return n
}

func c29mix(a, b uint64) uint64 {
	z := a + 0x9E3779B97F4A7C15*(b+1)
	z = (z ^ (z >> 30)) * 0xBF58476D1CE4E5B9
	z = (z ^ (z >> 27)) * 0x94D049BB133111EB
	return z ^ (z >> 31)
}

func c29Ints(xs []int) string {
	if len(xs) == 0 {
		return "-"
	}
	s := make([]string, len(xs))
	for i, x := range xs {
		s[i] = strconv.Itoa(x)
	}
	return strings.Join(s, ",")
}

// ---------------------------------------------------------------- event log ---

type c29Log struct {
	mu  sync.Mutex
	tok []string
}

func (l *c29Log) add(format string, a ...any) {
	s := fmt.Sprintf(format, a...)
	l.mu.Lock()
	l.tok = append(l.tok, s)
	l.mu.Unlock()
}

// addAll appends several tokens contiguously.
func (l *c29Log) addAll(ts []string) {
	l.mu.Lock()
	l.tok = append(l.tok, ts...)
	l.mu.Unlock()
}

// ------------------------------------------------- fake durable channel port ---

type c29Rec struct {
	id, seq uint64
	p       int
}

type c29Chan struct {
	mu      sync.Mutex
	nextSeq uint64
	recs    map[[2]int]c29Rec
}

type c29Port struct {
	log     *c29Log
	seed    uint64
	failPct int
	latUs   int
	req     atomic.Int64
	lk      atomic.Int64
	chans   sync.Map // int -> *c29Chan
	// per-channel appends in flight (the runtime promises at most one: AppendInflightBatchesPerChannel = 1)
	inflight sync.Map // int -> *atomic.Int64
	// steering: the first append of channel gateCh announces itself and waits for the gate
	gateCh   int
	gateOnce sync.Once
	entered  chan struct{}
	gate     chan struct{}
}

func (p *c29Port) ch(c int) *c29Chan {
	v, _ := p.chans.LoadOrStore(c, &c29Chan{nextSeq: 1, recs: map[[2]int]c29Rec{}})
	return v.(*c29Chan)
}

var errC29Conflict = fmt.Errorf("conflicting client message number: %w", channelappend.ErrAppendFailed)

// commit persists one message under the channel lock; duplicates of a stored key return the
// original record (same payload) or a conflict (different payload) — the C08 store contract.
func (p *c29Port) commit(c int, st *c29Chan, m channelappend.Message) channelappend.AppendBatchItemResult {
	u, mm, pl := c29Num(m.FromUID), c29Num(m.ClientMsgNo), c29PayloadNum(m.Payload)
	if u != 0 && mm != 0 {
		if r, ok := st.recs[[2]int{u, mm}]; ok {
			if r.p == pl {
				return channelappend.AppendBatchItemResult{MessageID: r.id, MessageSeq: r.seq}
			}
			return channelappend.AppendBatchItemResult{Err: errC29Conflict}
		}
	}
	r := c29Rec{id: m.MessageID, seq: st.nextSeq, p: pl}
	st.nextSeq++
	if u != 0 && mm != 0 {
		st.recs[[2]int{u, mm}] = r
	}
	p.log.add("P.%d.%d.%d.%d.%d.%d", c, u, mm, pl, r.id, r.seq)
	return channelappend.AppendBatchItemResult{MessageID: r.id, MessageSeq: r.seq}
}

func (p *c29Port) AppendBatch(_ context.Context, req channelappend.AppendBatchRequest) (channelappend.AppendBatchResult, error) {
	n := p.req.Add(1)
	c := c29Num(req.ChannelID.ID)
	toks := []string{fmt.Sprintf("Q.%d.%d.%d", n, c, req.Attempt)}
	for _, m := range req.Messages {
		toks = append(toks, fmt.Sprintf("M.%d.%d.%d.%d.%d", n, c29Num(m.FromUID), c29Num(m.ClientMsgNo), c29PayloadNum(m.Payload), m.MessageID))
	}
	p.log.addAll(toks)
	cnt, _ := p.inflight.LoadOrStore(c, &atomic.Int64{})
	if cnt.(*atomic.Int64).Add(1) > 1 {
		p.log.add("X.%d", c)
	}
	defer cnt.(*atomic.Int64).Add(-1)
	if p.gate != nil && c == p.gateCh {
		first := false
		p.gateOnce.Do(func() { first = true })
		if first {
			close(p.entered)
			select {
			case <-p.gate:
			case <-time.After(10 * time.Second):
			}
		}
	}
	h := c29mix(p.seed, uint64(n))
	if p.latUs > 0 {
		time.Sleep(time.Duration(h%uint64(p.latUs+1)) * time.Microsecond)
	}
	mode := 0
	if int(h>>8%100) < p.failPct {
		mode = 1 + int(h>>20%6)
	}
	switch mode {
	case 1: // fails before anything is durable
		return channelappend.AppendBatchResult{}, channelappend.ErrAppendFailed
	case 5:
		return channelappend.AppendBatchResult{}, channelappend.ErrNotLeader
	}
	st := p.ch(c)
	st.mu.Lock()
	defer st.mu.Unlock()
	res := channelappend.AppendBatchResult{}
	limit := len(req.Messages)
	if mode == 3 { // a prefix is durable, then the call fails
		limit = int(h>>30) % (len(req.Messages) + 1)
	}
	for i, m := range req.Messages {
		if i >= limit {
			break
		}
		if mode == 4 && i == int(h>>30)%len(req.Messages) {
			res.Items = append(res.Items, channelappend.AppendBatchItemResult{Err: channelappend.ErrChannelNotFound})
			continue
		}
		res.Items = append(res.Items, p.commit(c, st, m))
	}
	switch mode {
	case 2, 3: // durable (fully / partly) but the caller sees a generic failure
		return channelappend.AppendBatchResult{}, channelappend.ErrAppendFailed
	case 6: // short result vector
		if len(res.Items) > 0 {
			res.Items = res.Items[:len(res.Items)-1]
		}
	}
	return res, nil
}

func (p *c29Port) LookupSend(_ context.Context, q channelappend.IdempotencyQuery) (channelappend.SendResult, bool, error) {
	n := p.lk.Add(1)
	if p.failPct > 0 && c29mix(p.seed^0x1f, uint64(n))%37 == 0 {
		p.log.add("K.%d.%d", c29Num(q.FromUID), c29Num(q.ClientMsgNo))
		return channelappend.SendResult{}, false, channelappend.ErrRouteNotReady
	}
	if q.FromUID == "" || q.ClientMsgNo == "" {
		return channelappend.SendResult{}, false, nil
	}
	st := p.ch(c29Num(q.ChannelID))
	st.mu.Lock()
	defer st.mu.Unlock()
	r, ok := st.recs[[2]int{c29Num(q.FromUID), c29Num(q.ClientMsgNo)}]
	if !ok {
		return channelappend.SendResult{}, false, nil
	}
	if q.PayloadHash != 0 && q.PayloadHash != c29fnv(c29Payload(r.p)) {
		return channelappend.SendResult{}, false, nil
	}
	return channelappend.SendResult{MessageID: r.id, MessageSeq: r.seq, Reason: channelappend.ReasonSuccess}, true, nil
}

func c29fnv(b []byte) uint64 {
	h := uint64(14695981039346656037)
	for _, x := range b {
		h ^= uint64(x)
		h *= 1099511628211
	}
	return h
}

// c29Auth is the Authorizer port: it runs during prepare (outside the writer lock), so its latency
// opens the window in which new submissions meet a busy writer; it also refuses some sends.
type c29Auth struct {
	seed uint64
	n    atomic.Int64
}

func (a *c29Auth) AuthorizeSend(_ context.Context, cmd channelappend.SendCommand) (channelappend.Decision, error) {
	h := c29mix(a.seed^0xa57, uint64(a.n.Add(1)))
	if h%3 == 0 {
		time.Sleep(time.Duration(50+h>>8%200) * time.Microsecond)
	}
	if c29PayloadNum(cmd.Payload) == 4 && h>>20%2 == 0 {
		return channelappend.Decision{Allowed: false, Reason: channelappend.ReasonNotAllowSend}, nil
	}
	return channelappend.Decision{Allowed: true, Reason: channelappend.ReasonSuccess}, nil
}

type c29IDs struct{ n atomic.Uint64 }

func (a *c29IDs) Next() uint64 { return a.n.Add(1) + 1000 }

type c29Resolver struct{ fenced bool }

func (r c29Resolver) ResolveAppendAuthority(_ context.Context, id channelappend.ChannelID) (channelappend.AuthorityTarget, error) {
	return channelappend.AuthorityTarget{ChannelID: id, LeaderNodeID: 1, Epoch: 1, LeaderEpoch: 1, WriteFenced: r.fenced}, nil
}

// ------------------------------------------------------------------ runner ---

type c29Runner struct{}

func (*c29Runner) Close() {}

func (r *c29Runner) Step(op string) string {
	f := strings.Fields(op)
	if len(f) == 0 {
		return "bad-op"
	}
	switch f[0] {
	case "coal":
		return c29Coal(f[1:])
	case "rec":
		return c29Rec_(f[1:])
	case "traffic":
		return c29Traffic(f[1:])
	case "drain":
		return c29Drain(f[1:])
	case "expired":
		return c29Expired(f[1:])
	case "routerdl":
		return c29RouterDeadline(f[1:])
	case "idlewriter":
		return c29IdleWriter(f[1:])
	case "twopass":
		return c29TwoPass(f[1:])
	}
	return "bad-op"
}

func c29ParseDots(s string, n int) ([]int, bool) {
	parts := strings.Split(s, ".")
	if len(parts) != n {
		return nil, false
	}
	out := make([]int, n)
	for i, p := range parts {
		v, err := strconv.Atoi(p)
		if err != nil || v < 0 || v > 1<<20 {
			return nil, false
		}
		out[i] = v
	}
	return out, true
}

func c29Coal(f []string) string {
	cmds := make([]channelappend.SendCommand, 0, len(f))
	for _, s := range f {
		v, ok := c29ParseDots(s, 3)
		if !ok {
			return "bad-op"
		}
		cmds = append(cmds, channelappend.SendCommand{FromUID: c29UID(v[0]), ClientMsgNo: c29Msg(v[1]), Payload: c29Payload(v[2])})
	}
	unique, owner, seqs, committed := channelappend.VerifCoalesce(cmds)
	sq := make([]int, len(seqs))
	cm := make([]int, len(seqs))
	for i := range seqs {
		sq[i] = int(seqs[i])
		if committed[i] {
			cm[i] = 1
		}
	}
	return fmt.Sprintf("k=%d u=%s o=%s s=%s c=%s", len(unique), c29Ints(unique), c29Ints(owner), c29Ints(sq), c29Ints(cm))
}

func c29Rec_(f []string) string {
	if len(f) < 4 {
		return "bad-op"
	}
	hdr := make([]int, 3)
	for i := 0; i < 3; i++ {
		v, err := strconv.Atoi(f[i])
		if err != nil || v < 0 || v > 9 {
			return "bad-op"
		}
		hdr[i] = v
	}
	if hdr[0] > 1 || hdr[1] > 1 || hdr[2] > 4 {
		return "bad-op"
	}
	items := make([]channelappend.VerifRecoverItem, 0, len(f)-3)
	seen := map[[2]int]bool{}
	for _, s := range f[3:] {
		v, ok := c29ParseDots(s, 6)
		if !ok || v[0] == 0 || v[1] == 0 || v[3] > 2 || v[4] > 2 || v[5] > 1 || seen[[2]int{v[0], v[1]}] {
			return "bad-op"
		}
		seen[[2]int{v[0], v[1]}] = true
		items = append(items, channelappend.VerifRecoverItem{
			Cmd:     channelappend.SendCommand{FromUID: c29UID(v[0]), ClientMsgNo: c29Msg(v[1]), Payload: c29Payload(v[2]), MessageID: uint64(500 + len(items))},
			Lookup1: v[3], Lookup2: v[4], Expired: v[5] == 1})
	}
	class, seqs, committed, sizes := channelappend.VerifRecover(items, hdr[0], hdr[1] == 1, hdr[2])
	sq := make([]int, len(seqs))
	cm := make([]int, len(seqs))
	for i := range seqs {
		sq[i] = int(seqs[i])
		if committed[i] {
			cm[i] = 1
		}
	}
	return fmt.Sprintf("cl=%s sq=%s cm=%s rs=%s", c29Ints(class), c29Ints(sq), c29Ints(cm), c29Ints(sizes))
}

func c29Drain(f []string) string {
	if len(f) == 0 {
		return "bad-op"
	}
	arr := make([]uint64, 0, len(f))
	for _, x := range f {
		v, err := strconv.Atoi(x)
		if err != nil || v < 0 || v > 1<<20 {
			return "bad-op"
		}
		arr = append(arr, uint64(v))
	}
	groups := channelappend.VerifCompletionDrain(arr)
	parts := make([]string, len(groups))
	for i, g := range groups {
		xs := make([]int, len(g))
		for k, v := range g {
			xs[k] = int(v)
		}
		parts[i] = c29Ints(xs)
	}
	return strings.Join(parts, "|")
}

// c29Expired: ONE SubmitLocal call on one channel through the public API; item i carries a Deadline in the
// past when flags[i] == 'x' (prepare does not look at deadlines, the append effect does: activeAppendItems).
// No port failures, distinct keys, so the run is deterministic:
//   sent=<item indexes handed to the Appender, in request order> res=<0 ok | 2 error per item> stored=<item indexes persisted>
func c29Expired(f []string) string {
	if len(f) != 1 || len(f[0]) == 0 || len(f[0]) > 16 {
		return "bad-op"
	}
	flags := f[0]
	for _, c := range flags {
		if c != 'x' && c != 'l' {
			return "bad-op"
		}
	}
	log := &c29Log{}
	port := &c29Port{log: log}
	group := channelappend.New(channelappend.Options{LocalNodeID: 1, Appender: port, Idempotency: port, MessageID: &c29IDs{}, InboxCoalesceWindow: -1})
	if err := group.Start(context.Background()); err != nil {
		return "start-failed"
	}
	items := make([]channelappend.SendBatchItem, len(flags))
	for i, c := range flags {
		items[i] = channelappend.SendBatchItem{Context: context.Background(), Command: channelappend.SendCommand{
			FromUID: "u1", ClientMsgNo: c29Msg(i + 1), ChannelID: "c0", ChannelType: 2, Payload: c29Payload(i % 5)}}
		if c == 'x' {
			items[i].Deadline = time.Now().Add(-time.Hour)
		}
	}
	target := channelappend.AuthorityTarget{ChannelID: channelappend.ChannelID{ID: "c0", Type: 2}, LeaderNodeID: 1, Epoch: 1, LeaderEpoch: 1}
	fut, err := group.SubmitLocal(context.Background(), target, items)
	if err != nil {
		return "submit-failed"
	}
	wctx, cancel := context.WithTimeout(context.Background(), 25*time.Second)
	res, werr := fut.Wait(wctx)
	cancel()
	sctx, cancel2 := context.WithTimeout(context.Background(), 25*time.Second)
	_ = group.Stop(sctx)
	cancel2()
	if werr != nil {
		return "never-answered"
	}
	var sent, stored, kinds []int
	log.mu.Lock()
	for _, t := range log.tok {
		p := strings.Split(t, ".")
		if p[0] == "M" {
			m, _ := strconv.Atoi(p[3])
			sent = append(sent, m-1)
		}
		if p[0] == "P" {
			m, _ := strconv.Atoi(p[3])
			stored = append(stored, m-1)
		}
	}
	log.mu.Unlock()
	for _, r := range res {
		if r.Err == nil && r.Result.Reason == channelappend.ReasonSuccess {
			kinds = append(kinds, 0)
		} else {
			kinds = append(kinds, 2)
		}
	}
	return fmt.Sprintf("sent=%s res=%s stored=%s", c29Ints(sent), c29Ints(kinds), c29Ints(stored))
}

func c29LogResults(log *c29Log, id int, results []channelappend.SendBatchItemResult) {
	toks := []string{fmt.Sprintf("L.%d.%d", id, len(results))}
	for i, r := range results {
		kind, mid, seq := 0, r.Result.MessageID, r.Result.MessageSeq
		switch {
		case r.Err != nil:
			kind, mid, seq = 2, 0, 0
		case r.Result.Reason != channelappend.ReasonSuccess:
			kind, mid, seq = 1, 0, 0
		}
		toks = append(toks, fmt.Sprintf("R.%d.%d.%d.%d.%d", id, i, kind, mid, seq))
	}
	toks = append(toks, fmt.Sprintf("E.%d", id))
	log.addAll(toks)
}

// c29RouterDeadline <variant> <seed>: one Router.SendBatch of two sends to one channel; X carries BOTH a
// cancellable Context and a Deadline, Y a live Context and a far Deadline (variant 1: Y has no client number).
// The append is held in the port; X's context is cancelled and X's deadline passes while it is in flight; then
// the append is released.  No port failures: every send must reach the Appender exactly once and Y must succeed.
func c29RouterDeadline(f []string) string {
	if len(f) != 2 {
		return "bad-op"
	}
	variant, err := strconv.Atoi(f[0])
	if err != nil || variant < 0 || variant > 2 {
		return "bad-op"
	}
	if _, err := strconv.ParseUint(f[1], 10, 64); err != nil {
		return "bad-op"
	}
	log := &c29Log{}
	port := &c29Port{log: log, gateCh: 0, entered: make(chan struct{}), gate: make(chan struct{})}
	group := channelappend.New(channelappend.Options{LocalNodeID: 1, Appender: port, Idempotency: port, MessageID: &c29IDs{}, InboxCoalesceWindow: -1})
	if err := group.Start(context.Background()); err != nil {
		return "start-failed"
	}
	rt := channelappend.NewRouter(channelappend.RouterOptions{LocalNodeID: 1, Resolver: c29Resolver{}, Local: group,
		RetryBackoff: 200 * time.Microsecond, MaxRouteAttempts: 3})
	xctx, xcancel := context.WithCancel(context.Background())
	yctx, ycancel := context.WithCancel(context.Background())
	defer ycancel()
	xDeadline := time.Now().Add(15 * time.Millisecond)
	ym := 2
	if variant == 1 {
		ym = 0
	}
	items := []channelappend.SendBatchItem{
		{Context: xctx, Deadline: xDeadline, Command: channelappend.SendCommand{FromUID: "u1", ClientMsgNo: c29Msg(1), ChannelID: "c0", ChannelType: 2, Payload: c29Payload(1)}},
		{Context: yctx, Deadline: time.Now().Add(20 * time.Second), Command: channelappend.SendCommand{FromUID: "u1", ClientMsgNo: c29Msg(ym), ChannelID: "c0", ChannelType: 2, Payload: c29Payload(2)}},
	}
	if variant == 2 { // control: X has only a deadline
		items[0].Context = context.Background()
	}
	log.addAll([]string{"I.1.0.0.1.1.1", fmt.Sprintf("I.1.1.0.1.%d.2", ym), "B.1"})
	done := make(chan []channelappend.SendBatchItemResult, 1)
	go func() { done <- rt.SendBatch(items) }()
	select { // the append is in flight (held)
	case <-port.entered:
	case <-time.After(5 * time.Second):
	}
	xcancel()
	if d := time.Until(xDeadline); d > 0 {
		time.Sleep(d)
	}
	time.Sleep(10 * time.Millisecond) // both terminal sources of X have fired; a wrongly cancelled group re-submits Y meanwhile
	close(port.gate)
	var results []channelappend.SendBatchItemResult
	select {
	case results = <-done:
	case <-time.After(25 * time.Second):
		log.add("H.1")
	}
	c29LogResults(log, 1, results)
	sctx, cancel := context.WithTimeout(context.Background(), 25*time.Second)
	if err := group.Stop(sctx); err != nil {
		log.add("H.0")
	}
	cancel()
	log.mu.Lock()
	defer log.mu.Unlock()
	return "ev=" + strings.Join(log.tok, ",")
}

// c29IdleWriter <retentionMs> <seed>: WriterIdleRetention is tiny, one shard.  An append to channel 0 is held in
// the port for longer than the retention; then the FIRST send to channel 1 (writer creation runs the idle
// sweep of the shard); then another send to channel 0.  The writer of channel 0 has an append in flight, so it
// must not be reclaimed: the second send to channel 0 waits behind the first (one append in flight, order kept).
func c29IdleWriter(f []string) string {
	if len(f) != 2 {
		return "bad-op"
	}
	ret, err := strconv.Atoi(f[0])
	if err != nil || ret < 1 || ret > 100 {
		return "bad-op"
	}
	if _, err := strconv.ParseUint(f[1], 10, 64); err != nil {
		return "bad-op"
	}
	log := &c29Log{}
	port := &c29Port{log: log, gateCh: 0, entered: make(chan struct{}), gate: make(chan struct{})}
	group := channelappend.New(channelappend.Options{LocalNodeID: 1, Appender: port, Idempotency: port, MessageID: &c29IDs{},
		AuthorityShardCount: 1, InboxCoalesceWindow: -1, WriterIdleRetention: time.Duration(ret) * time.Millisecond})
	if err := group.Start(context.Background()); err != nil {
		return "start-failed"
	}
	var wg sync.WaitGroup
	send := func(id, ch, m int, wait bool) {
		log.addAll([]string{fmt.Sprintf("I.%d.0.%d.1.%d.%d", id, ch, m, m), fmt.Sprintf("B.%d", id)})
		target := channelappend.AuthorityTarget{ChannelID: channelappend.ChannelID{ID: "c" + strconv.Itoa(ch), Type: 2}, LeaderNodeID: 1, Epoch: 1, LeaderEpoch: 1}
		items := []channelappend.SendBatchItem{{Context: context.Background(), Command: channelappend.SendCommand{
			FromUID: "u1", ClientMsgNo: c29Msg(m), ChannelID: "c" + strconv.Itoa(ch), ChannelType: 2, Payload: c29Payload(m)}}}
		fut, err := group.SubmitLocal(context.Background(), target, items)
		if err != nil {
			c29LogResults(log, id, []channelappend.SendBatchItemResult{{Err: err}})
			return
		}
		finish := func() {
			wctx, cancel := context.WithTimeout(context.Background(), 25*time.Second)
			res, werr := fut.Wait(wctx)
			cancel()
			if werr != nil {
				log.add("H.%d", id)
			}
			c29LogResults(log, id, res)
		}
		if wait {
			finish()
			return
		}
		wg.Add(1)
		go func() { defer wg.Done(); finish() }()
	}
	send(1, 0, 1, false)
	select {
	case <-port.entered:
	case <-time.After(5 * time.Second):
	}
	time.Sleep(time.Duration(3*ret) * time.Millisecond) // longer than the retention; only widens, never asserted on
	send(2, 1, 2, true)                                // first send to another channel of the shard: idle sweep
	send(3, 0, 3, false)                               // must queue behind the append in flight
	time.Sleep(5 * time.Millisecond)
	close(port.gate)
	wg.Wait()
	sctx, cancel := context.WithTimeout(context.Background(), 25*time.Second)
	if err := group.Stop(sctx); err != nil {
		log.add("H.0")
	}
	cancel()
	log.mu.Lock()
	defer log.mu.Unlock()
	return "ev=" + strings.Join(log.tok, ",")
}

// c29GateAuth is an Authorizer port (called during prepare, outside the writer lock) that holds the sends whose
// payload number has a gate, announcing that it was reached.
type c29GateAuth struct {
	mu      sync.Mutex
	gates   map[int]chan struct{}
	reached map[int]chan struct{}
}

func (a *c29GateAuth) AuthorizeSend(_ context.Context, cmd channelappend.SendCommand) (channelappend.Decision, error) {
	p := c29PayloadNum(cmd.Payload)
	a.mu.Lock()
	g, r := a.gates[p], a.reached[p]
	delete(a.reached, p)
	a.mu.Unlock()
	if r != nil {
		close(r)
	}
	if g != nil {
		select {
		case <-g:
		case <-time.After(10 * time.Second):
		}
	}
	return channelappend.Decision{Allowed: true, Reason: channelappend.ReasonSuccess}, nil
}

// c29TwoPass <postCommit 0|1> <seed>: one channel, four SubmitLocal calls X1..X4 from one goroutine (so their submission order is
// 1 < 2 < 3 < 4).  X1's append is held in the port (the channel is at its in-flight limit); X2's prepare is held in
// the authorizer while X3 is submitted (it arrives during the active pass's deactivate window); then X3's prepare
// is held while X4 is submitted.  Exactly one pass may advance the writer, so X4 must queue behind X3.
type c29Post struct{}

func (c29Post) EnqueuePersistAfter(context.Context, channelappend.CommittedEnvelope) {}

func c29TwoPass(f []string) string {
	if len(f) != 2 || (f[0] != "0" && f[0] != "1") {
		return "bad-op"
	}
	if _, err := strconv.ParseUint(f[1], 10, 64); err != nil {
		return "bad-op"
	}
	withPostCommit := f[0] == "1" // post-commit work configured: the writer runs advance(), else advanceAppendOnly()
	log := &c29Log{}
	port := &c29Port{log: log, gateCh: 0, entered: make(chan struct{}), gate: make(chan struct{})}
	auth := &c29GateAuth{gates: map[int]chan struct{}{2: make(chan struct{}), 3: make(chan struct{})},
		reached: map[int]chan struct{}{2: make(chan struct{}), 3: make(chan struct{})}}
	reached2, reached3 := auth.reached[2], auth.reached[3]
	topts := channelappend.Options{LocalNodeID: 1, Appender: port, Idempotency: port, MessageID: &c29IDs{}, Authorizer: auth,
		AuthorityShardCount: 1, AdvancePoolSize: 4, InboxCoalesceWindow: -1}
	if withPostCommit {
		topts.PersistAfterEnqueuer = c29Post{}
	}
	group := channelappend.New(topts)
	if err := group.Start(context.Background()); err != nil {
		return "start-failed"
	}
	var wg sync.WaitGroup
	send := func(id int) {
		log.addAll([]string{fmt.Sprintf("I.%d.0.0.1.%d.%d", id, id, id), fmt.Sprintf("B.%d", id)})
		target := channelappend.AuthorityTarget{ChannelID: channelappend.ChannelID{ID: "c0", Type: 2}, LeaderNodeID: 1, Epoch: 1, LeaderEpoch: 1}
		items := []channelappend.SendBatchItem{{Context: context.Background(), Command: channelappend.SendCommand{
			FromUID: "u1", ClientMsgNo: c29Msg(id), ChannelID: "c0", ChannelType: 2, Payload: c29Payload(id)}}}
		fut, err := group.SubmitLocal(context.Background(), target, items)
		if err != nil {
			c29LogResults(log, id, []channelappend.SendBatchItemResult{{Err: err}})
			return
		}
		wg.Add(1)
		go func() {
			defer wg.Done()
			wctx, cancel := context.WithTimeout(context.Background(), 25*time.Second)
			res, werr := fut.Wait(wctx)
			cancel()
			if werr != nil {
				log.add("H.%d", id)
			}
			c29LogResults(log, id, res)
		}()
	}
	wait := func(ch <-chan struct{}) {
		select {
		case <-ch:
		case <-time.After(5 * time.Second):
		}
	}
	send(1)
	wait(port.entered) // X1's append is in flight and held
	send(2)
	wait(reached2) // a pass is preparing X2 outside the writer lock
	send(3)        // arrives meanwhile: stays in the inbox
	close(auth.gates[2])
	wait(reached3) // the pass found X3 in its deactivate re-check and is now preparing it
	send(4)
	time.Sleep(5 * time.Millisecond) // a second pass, if the protocol allowed one, handles X4 now; never asserted on
	close(auth.gates[3])
	time.Sleep(2 * time.Millisecond)
	close(port.gate)
	wg.Wait()
	sctx, cancel := context.WithTimeout(context.Background(), 25*time.Second)
	if err := group.Stop(sctx); err != nil {
		log.add("H.0")
	}
	cancel()
	log.mu.Lock()
	defer log.mu.Unlock()
	return "ev=" + strings.Join(log.tok, ",")
}

func c29Traffic(f []string) string {
	if len(f) != 13 {
		return "bad-op"
	}
	v := make([]int, 12)
	for i := 0; i < 12; i++ {
		x, err := strconv.Atoi(f[i])
		if err != nil || x < 0 || x > 100000 {
			return "bad-op"
		}
		v[i] = x
	}
	seed, err := strconv.ParseUint(f[12], 10, 64)
	if err != nil {
		return "bad-op"
	}
	nch, senders, calls, maxItems, dup, fail, lat, adm, backlog, fenced, router, coalesce := v[0], v[1], v[2], v[3], v[4], v[5], v[6], v[7], v[8], v[9], v[10], v[11]
	if nch < 1 || nch > 8 || senders < 1 || senders > 8 || calls < 1 || calls > 8 || maxItems < 1 || maxItems > 8 {
		return "bad-op"
	}
	log := &c29Log{}
	port := &c29Port{log: log, seed: seed, failPct: fail, latUs: lat}
	opts := channelappend.Options{LocalNodeID: 1, Appender: port, Idempotency: port, MessageID: &c29IDs{}, Authorizer: &c29Auth{seed: seed},
		AuthorityShardCount: 2, AdvancePoolSize: 2, EffectPoolSize: 2, AdmissionCapacityPerShard: adm, ChannelBacklogHighWatermark: backlog}
	if coalesce == 0 {
		opts.InboxCoalesceWindow = -1
	}
	group := channelappend.New(opts)
	if err := group.Start(context.Background()); err != nil {
		return "start-failed"
	}
	rt := channelappend.NewRouter(channelappend.RouterOptions{LocalNodeID: 1, Resolver: c29Resolver{fenced: fenced == 1}, Local: group,
		RetryBackoff: 200 * time.Microsecond, MaxRouteAttempts: 2})

	var callNo atomic.Int64
	var wg sync.WaitGroup
	for s := 0; s < senders; s++ {
		wg.Add(1)
		go func(s int) {
			defer wg.Done()
			type key struct{ c, u, m, p int }
			var hist []key
			next := 1
			for k := 0; k < calls; k++ {
				h := c29mix(seed^uint64(s+1)<<32, uint64(k))
				n := 1 + int(h%uint64(maxItems))
				oneCh := int(h>>8) % nch
				items := make([]channelappend.SendBatchItem, 0, n)
				keys := make([]key, 0, n)
				for i := 0; i < n; i++ {
					hi := c29mix(h, uint64(i))
					var it key
					if len(hist) > 0 && int(hi%100) < dup {
						it = hist[int(hi>>8)%len(hist)]
						if (hi>>20)%4 == 0 {
							it.p = (it.p + 1) % 5 // same key, different payload
						}
					} else {
						it = key{c: int(hi>>8) % nch, u: s + 1, m: next, p: int(hi>>16) % 5}
						next++
						if (hi>>24)%11 == 0 {
							it.u = 9 // a uid shared by all senders
							it.m = 1 + int(hi>>28)%3
						}
						if (hi>>32)%13 == 0 {
							it.m = 0 // no client message number: no idempotency
						}
					}
					if router == 0 {
						it.c = oneCh
					}
					hist = append(hist, it)
					keys = append(keys, it)
					items = append(items, channelappend.SendBatchItem{Context: context.Background(), Deadline: time.Now().Add(20 * time.Second), Command: channelappend.SendCommand{
						FromUID: c29UID(it.u), ClientMsgNo: c29Msg(it.m), ChannelID: "c" + strconv.Itoa(it.c), ChannelType: 2, Payload: c29Payload(it.p)}})
				}
				id := int(callNo.Add(1))
				toks := make([]string, 0, n+1)
				for i, it := range keys {
					toks = append(toks, fmt.Sprintf("I.%d.%d.%d.%d.%d.%d", id, i, it.c, it.u, it.m, it.p))
				}
				toks = append(toks, fmt.Sprintf("B.%d", id))
				log.addAll(toks)
				var results []channelappend.SendBatchItemResult
				if router == 1 {
					results = rt.SendBatch(items)
				} else {
					target := channelappend.AuthorityTarget{ChannelID: channelappend.ChannelID{ID: "c" + strconv.Itoa(oneCh), Type: 2}, LeaderNodeID: 1, Epoch: 1, LeaderEpoch: 1, WriteFenced: fenced == 1}
					fut, err := group.SubmitLocal(context.Background(), target, items)
					if err != nil {
						results = make([]channelappend.SendBatchItemResult, len(items))
						for i := range results {
							results[i].Err = err
						}
					} else {
						wctx, cancel := context.WithTimeout(context.Background(), 25*time.Second)
						res, werr := fut.Wait(wctx)
						cancel()
						if werr != nil {
							log.add("H.%d", id) // a future that never completes
						}
						results = res
					}
				}
				toks = toks[:0]
				toks = append(toks, fmt.Sprintf("L.%d.%d", id, len(results)))
				for i, r := range results {
					kind, mid, seq := 0, r.Result.MessageID, r.Result.MessageSeq
					switch {
					case r.Err != nil:
						kind, mid, seq = 2, 0, 0
						if errors.Is(r.Err, context.DeadlineExceeded) {
							kind = 5 // nothing in a scenario takes 20 s: an item that was never answered
						} else if errors.Is(r.Err, channelappend.ErrBackpressured) {
							kind = 3
						} else if errors.Is(r.Err, channelappend.ErrChannelBusy) {
							kind = 4
						}
					case r.Result.Reason != channelappend.ReasonSuccess:
						kind, mid, seq = 1, 0, 0
					}
					toks = append(toks, fmt.Sprintf("R.%d.%d.%d.%d.%d", id, i, kind, mid, seq))
				}
				toks = append(toks, fmt.Sprintf("E.%d", id))
				log.addAll(toks)
			}
		}(s)
	}
	wg.Wait()
	sctx, cancel := context.WithTimeout(context.Background(), 30*time.Second)
	if err := group.Stop(sctx); err != nil {
		log.add("H.0")
	}
	cancel()
	log.mu.Lock()
	defer log.mu.Unlock()
	if len(log.tok) == 0 {
		return "ev=-"
	}
	return "ev=" + strings.Join(log.tok, ",")
}

//go:build verif

package main

import (
	"bufio"
	"encoding/hex"
	"encoding/json"
	"fmt"
	"os"
	"sort"
)

// Rand is splitmix64: every random choice of a run derives from one seed.
type Rand struct{ s uint64 }

// NewRand hashes the seed once (splitmix finaliser) so that consecutive seeds
// give unrelated streams rather than the same stream shifted by one draw.
func NewRand(seed uint64) *Rand {
	z := seed + 0x9E3779B97F4A7C15
	z = (z ^ (z >> 30)) * 0xBF58476D1CE4E5B9
	z = (z ^ (z >> 27)) * 0x94D049BB133111EB
	z = z ^ (z >> 31)
	return &Rand{s: z ^ 0x1234567}
}

func (r *Rand) U64() uint64 {
	r.s += 0x9E3779B97F4A7C15
	z := r.s
	z = (z ^ (z >> 30)) * 0xBF58476D1CE4E5B9
	z = (z ^ (z >> 27)) * 0x94D049BB133111EB
	return z ^ (z >> 31)
}

// Intn returns a value in [0,n).
func (r *Rand) Intn(n int) int {
	if n <= 0 {
		return 0
	}
	return int(r.U64() % uint64(n))
}

// Range returns a value in [lo,hi].
func (r *Rand) Range(lo, hi int) int { return lo + r.Intn(hi-lo+1) }

func (r *Rand) Bool() bool { return r.U64()&1 == 1 }

// Chance is true with probability pct/100.
func (r *Rand) Chance(pct int) bool { return r.Intn(100) < pct }

func (r *Rand) Bytes(n int) []byte {
	b := make([]byte, n)
	for i := range b {
		b[i] = byte(r.U64())
	}
	return b
}

// Pick returns one of the weighted alternatives; weights are ints.
func (r *Rand) Pick(weights ...int) int {
	t := 0
	for _, w := range weights {
		t += w
	}
	x := r.Intn(t)
	for i, w := range weights {
		if x < w {
			return i
		}
		x -= w
	}
	return len(weights) - 1
}

// BoundaryU64 favours boundary values of unsigned integers.
func (r *Rand) BoundaryU64() uint64 {
	switch r.Intn(10) {
	case 0:
		return 0
	case 1:
		return 1
	case 2:
		return ^uint64(0)
	case 3:
		return ^uint64(0) - 1
	case 4:
		return uint64(r.Intn(16))
	case 5:
		return 1 << uint(r.Intn(64))
	case 6:
		return (1 << uint(r.Intn(64))) - 1
	default:
		return r.U64() >> uint(r.Intn(64))
	}
}

// Gen is the generator context handed to a property's Gen function.
type Gen struct {
	R    *Rand
	N    int
	Tier string
	w    *bufio.Writer
	Hist map[string]int
	case_ int
}

func (g *Gen) Case() {
	g.case_++
	fmt.Fprintf(g.w, "#case %d\n", g.case_)
}

// Op writes one op line and counts its kind (first field) in the histogram.
func (g *Gen) Op(kind string, format string, args ...any) {
	g.Hist["op:"+kind]++
	if format == "" {
		fmt.Fprintln(g.w, kind)
		return
	}
	fmt.Fprintf(g.w, "%s %s\n", kind, fmt.Sprintf(format, args...))
}

// Count adds to an arbitrary histogram bucket (input-distribution evidence).
func (g *Gen) Count(bucket string) { g.Hist[bucket]++ }

func (g *Gen) dumpHist() {
	keys := make([]string, 0, len(g.Hist))
	for k := range g.Hist {
		keys = append(keys, k)
	}
	sort.Strings(keys)
	m := map[string]int{}
	for _, k := range keys {
		m[k] = g.Hist[k]
	}
	b, _ := json.Marshal(map[string]any{"cases": g.case_, "hist": m})
	fmt.Fprintln(os.Stderr, "GENSTATS "+string(b))
}

// Hex renders bytes the way the Lean driver parses them ("-" for empty).
func Hex(b []byte) string {
	if len(b) == 0 {
		return "-"
	}
	return hex.EncodeToString(b)
}

func UnHex(s string) []byte {
	if s == "-" {
		return nil
	}
	b, err := hex.DecodeString(s)
	if err != nil {
		panic("bad hex in op: " + s)
	}
	return b
}

//go:build verif

// Correspondence harness (one binary per property, built into /repo through
// `go build -overlay`, see /verif/DESIGN.md §2).
//
//   harness gen --seed S --n N --tier quick|thorough   -> ops on stdout
//   harness run                                        -> reads ops on stdin, runs the REAL code,
//                                                         prints `<op>\t<implOut>` per op
//   harness stats                                      -> after gen: distribution JSON on stderr
//
// Lines starting with `#case` separate independent histories.
package main

import (
	"bufio"
	"flag"
	"fmt"
	"os"
	"runtime/debug"
	"strings"
)

// Prop is what a property's harness file registers.
type Prop struct {
	// Gen writes cases (each starting with a `#case <k>` line) to w.
	Gen func(g *Gen)
	// NewRunner returns a fresh implementation-side state for one case.
	NewRunner func() Runner
}

// Runner executes one op on the real implementation and returns its canonical output.
type Runner interface {
	Step(op string) string
	Close()
}

var prop *Prop

func Register(p *Prop) { prop = p }

func main() {
	if prop == nil || len(os.Args) < 2 {
		fmt.Fprintln(os.Stderr, "usage: harness gen|run ...")
		os.Exit(64)
	}
	switch os.Args[1] {
	case "gen":
		fs := flag.NewFlagSet("gen", flag.ExitOnError)
		seed := fs.Uint64("seed", 1, "")
		n := fs.Int("n", 100, "")
		tier := fs.String("tier", "quick", "")
		_ = fs.Parse(os.Args[2:])
		w := bufio.NewWriterSize(os.Stdout, 1<<20)
		g := &Gen{R: NewRand(*seed), N: *n, Tier: *tier, w: w, Hist: map[string]int{}}
		prop.Gen(g)
		w.Flush()
		g.dumpHist()
	case "run":
		runAll()
	default:
		os.Exit(64)
	}
}

func safeStep(r Runner, op string) (out string) {
	defer func() {
		if e := recover(); e != nil {
			st := strings.ReplaceAll(string(debug.Stack()), "\n", " | ")
			if len(st) > 600 {
				st = st[:600]
			}
			out = fmt.Sprintf("PANIC %v %s", e, strings.ReplaceAll(st, "\t", " "))
		}
	}()
	return r.Step(op)
}

func runAll() {
	in := bufio.NewScanner(os.Stdin)
	in.Buffer(make([]byte, 1<<20), 1<<28)
	w := bufio.NewWriterSize(os.Stdout, 1<<20)
	defer w.Flush()
	var r Runner
	for in.Scan() {
		line := in.Text()
		if strings.HasPrefix(line, "#case") {
			if r != nil {
				r.Close()
			}
			r = prop.NewRunner()
			fmt.Fprintln(w, line)
			continue
		}
		if line == "" {
			continue
		}
		if r == nil {
			r = prop.NewRunner()
		}
		out := safeStep(r, line)
		out = strings.NewReplacer("\t", " ", "\n", " ", "\r", " ").Replace(out)
		fmt.Fprintf(w, "%s\t%s\n", line, out)
	}
	if r != nil {
		r.Close()
	}
}

//go:build verif

package main

// C13 — slot state machine: deterministic and batch-transparent.
//
// A case is one command log (`c` ops) followed by `run` ops.  Every `run`
// replays the WHOLE log on a fresh real meta DB + real FSM according to a plan:
//     <n>  apply the next n commands in ONE ApplyBatch call
//     R    close and reopen the meta DB, new FSM (restart)
//     S    FSM.Snapshot(), fresh DB + FSM, FSM.Restore(snapshot at the durable applied index)
// and prints, per command, a result token and, per ApplyBatch call, the durable
// applied index and a digest of the exported meta snapshot.  The first run of a
// case is one-at-a-time; the Lean driver turns it into the per-command function
// `applyOne` and predicts every other run with the model's `applyBatch`.

import (
	"context"
	"crypto/sha256"
	"encoding/hex"
	"errors"
	"fmt"
	"os"
	"path/filepath"
	"reflect"
	"strconv"
	"strings"

	"github.com/WuKongIM/WuKongIM/pkg/protocol/channelid"
	metadb "github.com/WuKongIM/WuKongIM/pkg/db/meta"
	"github.com/WuKongIM/WuKongIM/pkg/slot/fsm"
	"github.com/WuKongIM/WuKongIM/pkg/slot/multiraft"
)

func init() {
	Register(&Prop{Gen: genC13, NewRunner: func() Runner { return &c13Runner{} }})
}

const c13Slot = 1

var c13Owned = []uint16{1, 2, 3}
// hash slots 1-3 are owned, 4 is registered as an incoming migration target (deltas for it
// are expected, it is part of FSM.Snapshot), 5 is neither: nothing may ever be written there
var c13Incoming = []uint16{4}
var c13DigestSlots = []uint16{1, 2, 3, 4}
var c13ForeignSlots = []uint16{5}

type c13Cmd struct {
	index    uint64
	slot     uint64
	hashSlot uint16
	data     []byte
}

type c13Runner struct {
	cmds []c13Cmd
	seq  int
}

func (r *c13Runner) Close() {}

type c13FSM interface {
	multiraft.BatchStateMachine
	DurableAppliedIndex(ctx context.Context) (uint64, error)
	UpdateOutgoingDeltaTargets(targets map[uint16]multiraft.SlotID)
	UpdateIncomingDeltaHashSlots(hashSlots []uint16)
}

type c13Inst struct {
	dir string
	db  *metadb.DB
	sm  c13FSM
}

var c13Seq int

func c13Open(dir string) *c13Inst {
	db, err := metadb.Open(dir)
	if err != nil {
		panic("open meta: " + err.Error())
	}
	sm, err := fsm.NewStateMachineWithHashSlots(db, c13Slot, c13Owned)
	if err != nil {
		panic("new fsm: " + err.Error())
	}
	f, ok := sm.(c13FSM)
	if !ok {
		panic("fsm does not implement batch/durable-applied/outgoing-delta interfaces")
	}
	// hash slot 2 is being migrated to slot 7 (delta phase): every applied command on it is also staged to the outbox
	f.UpdateOutgoingDeltaTargets(map[uint16]multiraft.SlotID{2: 7})
	f.UpdateIncomingDeltaHashSlots(c13Incoming)
	return &c13Inst{dir: dir, db: db, sm: f}
}

func c13NewDir() string {
	base := os.Getenv("VERIF_SCRATCH")
	if base == "" {
		base = os.TempDir()
	}
	c13Seq++
	dir := filepath.Join(base, fmt.Sprintf("c13-%d-%d", os.Getpid(), c13Seq))
	_ = os.RemoveAll(dir)
	return dir
}

func (in *c13Inst) close(remove bool) {
	if in.db != nil {
		_ = in.db.Close()
		in.db = nil
	}
	if remove {
		_ = os.RemoveAll(in.dir)
	}
}

func (in *c13Inst) state() string {
	ctx := context.Background()
	applied, err := in.sm.DurableAppliedIndex(ctx)
	if err != nil {
		return "@err"
	}
	snap, err := in.db.ExportHashSlotSnapshot(ctx, c13DigestSlots)
	if err != nil {
		return fmt.Sprintf("@%d:err", applied)
	}
	sum := sha256.Sum256(snap.Data)
	return fmt.Sprintf("@%d:%s", applied, hex.EncodeToString(sum[:6]))
}

func (in *c13Inst) foreign() string {
	snap, err := in.db.ExportHashSlotSnapshot(context.Background(), c13ForeignSlots)
	if err != nil {
		return "err"
	}
	sum := sha256.Sum256(snap.Data)
	return hex.EncodeToString(sum[:6])
}

func c13ErrClass(err error) string {
	switch {
	case errors.Is(err, metadb.ErrInvalidArgument):
		return "einvalid"
	case errors.Is(err, metadb.ErrCorruptValue):
		return "ecorrupt"
	case errors.Is(err, metadb.ErrStaleMeta):
		return "estale"
	case errors.Is(err, metadb.ErrNotFound):
		return "enotfound"
	case errors.Is(err, metadb.ErrAlreadyExists):
		return "eexists"
	default:
		return "eother"
	}
}

func c13Result(b []byte) string {
	switch string(b) {
	case fsm.ApplyResultOK:
		return "ok"
	case fsm.ApplyResultStaleMeta:
		return "stale"
	case fsm.ApplyResultHashSlotFenced:
		return "fenced"
	}
	sum := sha256.Sum256(b)
	return "r" + hex.EncodeToString(sum[:4])
}

func (in *c13Inst) apply(cmds []c13Cmd) (res []string, errClass string) {
	batch := make([]multiraft.Command, len(cmds))
	for i, c := range cmds {
		data := make([]byte, len(c.data))
		copy(data, c.data)
		// cap == len: a decoder that slices past the end of the payload panics instead of reading slack bytes
		batch[i] = multiraft.Command{SlotID: multiraft.SlotID(c.slot), HashSlot: c.hashSlot, Index: c.index, Term: 1,
			Data: data[:len(data):len(data)]}
	}
	out, err := in.sm.ApplyBatch(context.Background(), batch)
	if err != nil {
		return nil, c13ErrClass(err)
	}
	if len(out) != len(cmds) {
		return nil, fmt.Sprintf("ebadlen%d", len(out))
	}
	res = make([]string, len(out))
	for i, b := range out {
		res[i] = c13Result(b)
	}
	return res, ""
}

func (r *c13Runner) run(plan []string) string {
	in := c13Open(c13NewDir())
	defer func() { in.close(true) }()
	var out []string
	out = append(out, "I"+in.state())
	foreign0 := in.foreign()
	foreignAt := uint64(0) // index of the command after which the unowned hash slot first changed
	checkForeign := func(idx uint64) {
		if foreignAt == 0 && in.foreign() != foreign0 {
			foreignAt = idx
		}
	}
	pos := 0
	singles := func(cmds []c13Cmd) {
		for _, c := range cmds {
			res, ec := in.apply([]c13Cmd{c})
			if ec != "" {
				out = append(out, fmt.Sprintf("%d:%s%s", c.index, ec, in.state()))
			} else {
				out = append(out, fmt.Sprintf("%d:%s%s", c.index, res[0], in.state()))
			}
			checkForeign(c.index)
		}
	}
	for _, item := range plan {
		switch item {
		case "R":
			dir := in.dir
			in.close(false)
			in = c13Open(dir)
			out = append(out, "R"+in.state())
		case "S":
			ctx := context.Background()
			applied, err := in.sm.DurableAppliedIndex(ctx)
			if err != nil {
				panic(err)
			}
			snap, err := in.sm.Snapshot(ctx)
			if err != nil {
				out = append(out, "S:snaperr")
				continue
			}
			next := c13Open(c13NewDir())
			if err := next.sm.Restore(ctx, multiraft.Snapshot{Index: applied, Term: 1, Data: snap.Data}); err != nil {
				next.close(true)
				out = append(out, "S:restoreerr")
				continue
			}
			in.close(true)
			in = next
			out = append(out, "S"+in.state())
		default:
			if strings.HasPrefix(item, "X") {
				// X<j>: snapshot the current replica and Restore it onto a replica that has applied a
				// DIFFERENT prefix of the log (the first j commands): a follower that is behind, or a
				// replica rolled back to an older snapshot.  Restore must REPLACE its state.
				j, err := strconv.Atoi(item[1:])
				if err != nil || j < 0 || j > len(r.cmds) {
					return "bad-op"
				}
				ctx := context.Background()
				applied, err := in.sm.DurableAppliedIndex(ctx)
				if err != nil {
					panic(err)
				}
				if applied == 0 {
					out = append(out, "X"+in.state()) // a snapshot at index 0 is never installed
					continue
				}
				snap, err := in.sm.Snapshot(ctx)
				if err != nil {
					out = append(out, "X:snaperr")
					continue
				}
				next := c13Open(c13NewDir())
				for _, c := range r.cmds[:j] {
					_, _ = next.apply([]c13Cmd{c})
				}
				if err := next.sm.Restore(ctx, multiraft.Snapshot{Index: applied, Term: 1, Data: snap.Data}); err != nil {
					next.close(true)
					out = append(out, "X:restoreerr")
					continue
				}
				in.close(true)
				in = next
				out = append(out, "X"+in.state())
				continue
			}
			n, err := strconv.Atoi(item)
			if err != nil || n < 1 {
				return "bad-op"
			}
			if pos >= len(r.cmds) {
				continue
			}
			end := pos + n
			if end > len(r.cmds) {
				end = len(r.cmds)
			}
			batch := r.cmds[pos:end]
			pos = end
			if len(batch) == 1 {
				singles(batch)
				continue
			}
			res, ec := in.apply(batch)
			checkForeign(batch[len(batch)-1].index)
			if ec == "" {
				parts := make([]string, len(batch))
				for i, c := range batch {
					parts[i] = fmt.Sprintf("%d:%s", c.index, res[i])
				}
				out = append(out, strings.Join(parts, ",")+in.state())
				continue
			}
			// the batch was refused: like a restarted replica, resume one at a time after the durable applied index
			out = append(out, fmt.Sprintf("B%d-%d:%s%s", batch[0].index, batch[len(batch)-1].index, ec, in.state()))
			applied, err := in.sm.DurableAppliedIndex(context.Background())
			if err != nil {
				panic(err)
			}
			var rest []c13Cmd
			for _, c := range batch {
				if c.index > applied {
					rest = append(rest, c)
				}
			}
			singles(rest)
		}
	}
	// whatever the plan left over is applied one at a time
	if pos < len(r.cmds) {
		singles(r.cmds[pos:])
	}
	if foreignAt == 0 {
		out = append(out, "U=-")
	} else {
		out = append(out, fmt.Sprintf("U=%d", foreignAt))
	}
	return strings.Join(out, " ")
}

func (r *c13Runner) Step(op string) string {
	f := strings.Fields(op)
	if len(f) == 0 {
		return "bad-op"
	}
	switch f[0] {
	case "c":
		if len(f) != 6 {
			return "bad-op"
		}
		idx, e1 := strconv.ParseUint(f[1], 10, 64)
		slot, e2 := strconv.ParseUint(f[2], 10, 64)
		hs, e3 := strconv.ParseUint(f[3], 10, 16)
		if e1 != nil || e2 != nil || e3 != nil {
			return "bad-op"
		}
		r.cmds = append(r.cmds, c13Cmd{index: idx, slot: slot, hashSlot: uint16(hs), data: UnHex(f[4])})
		return "ok"
	case "run":
		if len(f) != 2 {
			return "bad-op"
		}
		return r.run(strings.Split(f[1], ","))
	}
	return "bad-op"
}

// ------------------------------------------------------------- generator ---

var c13UIDs = []string{"u1", "u2", "u3", "u4"}
var c13Chans = []string{"c1", "c2", "g3", channelid.EncodePersonChannel("u1", "u2"), channelid.EncodePersonChannel("u2", "u3")}
var c13Tasks = []string{"t1", "t2"}
var c13Tokens = []string{"", "tokA", "tokB"}

func c13FillString(g *Gen, name string) string {
	n := strings.ToLower(name)
	switch {
	case strings.Contains(n, "channelid"):
		return c13Chans[g.R.Intn(len(c13Chans))]
	case strings.Contains(n, "uid") || strings.Contains(n, "user"):
		return c13UIDs[g.R.Intn(len(c13UIDs))]
	case strings.Contains(n, "taskid"):
		return c13Tasks[g.R.Intn(len(c13Tasks))]
	case strings.Contains(n, "token"):
		return c13Tokens[g.R.Intn(len(c13Tokens))]
	case strings.Contains(n, "pluginno"):
		return []string{"p1", "p2"}[g.R.Intn(2)]
	}
	return []string{"", "a", "b", "x1", "a", "b"}[g.R.Intn(6)]
}

func c13FillUint(g *Gen, name string) uint64 {
	n := strings.ToLower(name)
	switch {
	case strings.Contains(n, "hashslot"):
		switch {
		case g.R.Chance(4):
			return 4
		case g.R.Chance(2):
			return 5
		}
		return uint64(g.R.Range(1, 3))
	case strings.Contains(n, "channeltype"):
		return uint64(g.R.Range(1, 2))
	case strings.Contains(n, "leader") && !strings.Contains(n, "epoch"), strings.Contains(n, "node"), strings.Contains(n, "replica"),
		strings.Contains(n, "learner"), strings.Contains(n, "source"), strings.Contains(n, "target"), strings.Contains(n, "owner"):
		return uint64(g.R.Range(1, 4))
	case strings.Contains(n, "kind"):
		return uint64(g.R.Range(1, 3))
	case strings.Contains(n, "status"):
		return uint64(g.R.Pick(1, 6, 6, 2, 1, 1, 1))
	case strings.Contains(n, "phase"):
		return uint64(g.R.Range(1, 5))
	case strings.Contains(n, "limit"):
		return uint64(g.R.Range(1, 5))
	case strings.HasSuffix(n, "ms"), strings.HasSuffix(n, "at"):
		return uint64(g.R.Range(1, 9))
	case strings.Contains(n, "minisr"):
		return uint64(g.R.Range(1, 2))
	}
	return uint64(g.R.Range(0, 4))
}

// c13Fill fills an exported struct/slice/scalar from small pools chosen by field name.
func c13Fill(g *Gen, v reflect.Value, name string, depth int) {
	switch v.Kind() {
	case reflect.String:
		v.SetString(c13FillString(g, name))
	case reflect.Bool:
		v.SetBool(g.R.Bool())
	case reflect.Int, reflect.Int64, reflect.Int32, reflect.Int16, reflect.Int8:
		v.SetInt(int64(c13FillUint(g, name)))
	case reflect.Uint, reflect.Uint64, reflect.Uint32, reflect.Uint16, reflect.Uint8:
		v.SetUint(c13FillUint(g, name))
	case reflect.Slice:
		n := g.R.Range(0, 3)
		if depth == 0 && n == 0 {
			n = 1
		}
		if v.Type().Elem().Kind() == reflect.Uint8 {
			v.SetBytes(g.R.Bytes(n))
			return
		}
		s := reflect.MakeSlice(v.Type(), n, n)
		for i := 0; i < n; i++ {
			c13Fill(g, s.Index(i), name, depth+1)
		}
		v.Set(s)
	case reflect.Struct:
		for i := 0; i < v.NumField(); i++ {
			if !v.Type().Field(i).IsExported() {
				continue
			}
			c13Fill(g, v.Field(i), v.Type().Field(i).Name, depth+1)
		}
		if m, ok := v.Addr().Interface().(*metadb.ChannelRuntimeMeta); ok && g.R.Chance(85) {
			c13FixRuntimeMeta(g, m)
		}
	case reflect.Ptr:
		if g.R.Bool() {
			p := reflect.New(v.Type().Elem())
			c13Fill(g, p.Elem(), name, depth+1)
			v.Set(p)
		}
	case reflect.Map:
		// left nil
	}
}

// c13FixRuntimeMeta makes a randomly filled runtime meta pass validateChannelRuntimeMeta.
func c13FixRuntimeMeta(g *Gen, m *metadb.ChannelRuntimeMeta) {
	reps := []uint64{1, 2, 3, 4}[:g.R.Range(1, 4)]
	m.Replicas = append([]uint64(nil), reps...)
	m.ISR = append([]uint64(nil), reps[:g.R.Range(1, len(reps))]...)
	m.Leader = 0
	if g.R.Chance(80) {
		m.Leader = m.ISR[g.R.Intn(len(m.ISR))]
	}
	m.MinISR = int64(g.R.Range(1, len(reps)))
	if g.R.Chance(70) {
		m.WriteFenceToken, m.WriteFenceVersion, m.WriteFenceReason, m.WriteFenceUntilMS = "", 0, 0, 0
	} else {
		m.WriteFenceToken, m.WriteFenceVersion, m.WriteFenceReason, m.WriteFenceUntilMS = c13Tokens[1+g.R.Intn(2)], uint64(g.R.Range(1, 3)), uint8(g.R.Range(1, 2)), int64(g.R.Range(1, 9))
	}
	if m.ChannelID == "" {
		m.ChannelID = "c1"
	}
}

func c13PersonChan(g *Gen) string { return c13Chans[3+g.R.Intn(2)] }

func c13Rand[T any](g *Gen) T {
	var x T
	c13Fill(g, reflect.ValueOf(&x).Elem(), "", 0)
	return x
}

type c13Maker struct {
	name string
	make func(g *Gen) []byte
}

func c13Checked(b []byte, err error) []byte {
	if err != nil {
		return nil
	}
	return b
}

// every command type of commandDecoders, through the package's own encoders
var c13Makers = []c13Maker{
	{"noop", func(g *Gen) []byte { return fsm.EncodeNoopCommand() }},
	{"upsertUser", func(g *Gen) []byte { return fsm.EncodeUpsertUserCommand(c13Rand[metadb.User](g)) }},
	{"createUser", func(g *Gen) []byte { return fsm.EncodeCreateUserCommand(c13Rand[metadb.User](g)) }},
	{"upsertDevice", func(g *Gen) []byte { return fsm.EncodeUpsertDeviceCommand(c13Rand[metadb.Device](g)) }},
	{"upsertChannel", func(g *Gen) []byte { return fsm.EncodeUpsertChannelCommand(c13Rand[metadb.Channel](g)) }},
	{"createChannel", func(g *Gen) []byte { return fsm.EncodeCreateChannelCommand(c13Rand[metadb.Channel](g)) }},
	{"patchChannelFlags", func(g *Gen) []byte {
		return fsm.EncodePatchChannelBusinessFlagsCommand(c13FillString(g, "ChannelID"), int64(g.R.Range(1, 2)), c13Rand[metadb.ChannelBusinessFlags](g))
	}},
	{"deleteChannel", func(g *Gen) []byte {
		return fsm.EncodeDeleteChannelCommand(c13FillString(g, "ChannelID"), int64(g.R.Range(1, 2)))
	}},
	{"upsertRuntimeMeta", func(g *Gen) []byte {
		return fsm.EncodeUpsertChannelRuntimeMetaCommand(c13Rand[metadb.ChannelRuntimeMeta](g))
	}},
	{"deleteRuntimeMeta", func(g *Gen) []byte {
		return fsm.EncodeDeleteChannelRuntimeMetaCommand(c13FillString(g, "ChannelID"), int64(g.R.Range(1, 2)))
	}},
	{"createRuntimeMetaBatch", func(g *Gen) []byte {
		return c13Checked(fsm.EncodeCreateChannelRuntimeMetaBatchCommandChecked(c13Rand[[]fsm.CreateChannelRuntimeMetaBatchItem](g)))
	}},
	{"advanceRetention", func(g *Gen) []byte {
		return fsm.EncodeAdvanceChannelRetentionThroughSeqCommand(c13Rand[metadb.ChannelRetentionAdvance](g))
	}},
	{"addSubscribers", func(g *Gen) []byte {
		return c13Checked(fsm.EncodeAddSubscribersCommandChecked(c13FillString(g, "ChannelID"), int64(g.R.Range(1, 2)), c13Rand[[]string](g), uint64(g.R.Range(0, 3))))
	}},
	{"removeSubscribers", func(g *Gen) []byte {
		return c13Checked(fsm.EncodeRemoveSubscribersCommandChecked(c13FillString(g, "ChannelID"), int64(g.R.Range(1, 2)), c13Rand[[]string](g), uint64(g.R.Range(0, 3))))
	}},
	{"upsertMemberships", func(g *Gen) []byte {
		return c13Checked(fsm.EncodeUpsertUserChannelMembershipsCommandChecked(c13Rand[[]metadb.UserChannelMembership](g)))
	}},
	{"deleteMemberships", func(g *Gen) []byte {
		return c13Checked(fsm.EncodeDeleteUserChannelMembershipsCommandChecked(c13Rand[[]metadb.UserChannelMembership](g)))
	}},
	{"advanceReadSeq", func(g *Gen) []byte {
		return fsm.EncodeAdvanceUserChannelMembershipReadSeqCommand(c13Rand[[]metadb.UserChannelMembership](g))
	}},
	{"hideMembership", func(g *Gen) []byte {
		return fsm.EncodeHideUserChannelMembershipCommand(c13Rand[[]metadb.UserChannelMembership](g))
	}},
	{"activateMembership", func(g *Gen) []byte {
		return fsm.EncodeActivateUserChannelMembershipCommand(c13Rand[[]metadb.UserChannelMembership](g))
	}},
	{"upsertCMDMemberships", func(g *Gen) []byte {
		return fsm.EncodeUpsertUserCMDChannelMembershipsCommand(c13Rand[[]metadb.UserCMDChannelMembership](g))
	}},
	{"advanceCMDAcks", func(g *Gen) []byte {
		return fsm.EncodeAdvanceUserCMDChannelMembershipAcksCommand(c13Rand[[]metadb.UserCMDChannelMembership](g))
	}},
	{"tombstoneCMD", func(g *Gen) []byte {
		return fsm.EncodeTombstoneUserCMDChannelMembershipsCommand(c13Rand[[]metadb.UserCMDChannelMembership](g))
	}},
	{"upsertChannelLatest", func(g *Gen) []byte {
		return c13Checked(fsm.EncodeUpsertChannelLatestCommandChecked(c13Rand[metadb.ChannelLatest](g)))
	}},
	{"upsertChannelLatestBatch", func(g *Gen) []byte {
		return c13Checked(fsm.EncodeUpsertChannelLatestBatchCommandChecked(c13Rand[[]fsm.ChannelLatestBatchItem](g)))
	}},
	{"appendMessageEvent", func(g *Gen) []byte {
		return fsm.EncodeAppendMessageEventCommand(c13Rand[metadb.MessageEventAppend](g))
	}},
	{"appendMessageEvents", func(g *Gen) []byte {
		return fsm.EncodeAppendMessageEventsCommand(c13Rand[[]metadb.MessageEventAppend](g))
	}},
	{"bindPlugin", func(g *Gen) []byte { return fsm.EncodeBindPluginUserCommand(c13Rand[metadb.PluginUserBinding](g)) }},
	{"unbindPlugin", func(g *Gen) []byte {
		return fsm.EncodeUnbindPluginUserCommand(c13FillString(g, "UID"), c13FillString(g, "PluginNo"))
	}},
	{"admitPersonDirectory", func(g *Gen) []byte {
		items := c13Rand[[]fsm.PersonDirectoryAdmissionBatchItem](g)
		for i := range items {
			items[i].Task.ChannelID, items[i].Task.ChannelType = c13PersonChan(g), 1
			items[i].RuntimeMeta.ChannelID, items[i].RuntimeMeta.ChannelType = items[i].Task.ChannelID, 1
			items[i].HashSlot = uint16(i%3 + 1)
		}
		return c13Checked(fsm.EncodeAdmitPersonDirectoryTaskBatchCommandChecked(items))
	}},
	{"ensureMembershipBatch", func(g *Gen) []byte {
		items := c13Rand[[]fsm.UserChannelMembershipBatchItem](g)
		for i := range items {
			items[i].Membership.ChannelID, items[i].Membership.ChannelType = c13Chans[3], 1
			items[i].Membership.UID = []string{"u1", "u2"}[i%2]
			items[i].HashSlot = uint16(i%3 + 1)
		}
		return c13Checked(fsm.EncodeEnsureUserChannelMembershipBatchCommandChecked(items))
	}},
	{"completePersonDirectory", func(g *Gen) []byte {
		items := c13Rand[[]fsm.PersonDirectoryCompletionBatchItem](g)
		for i := range items {
			items[i].ChannelID, items[i].ChannelType = c13PersonChan(g), 1
			items[i].HashSlot = uint16(i%3 + 1)
		}
		return c13Checked(fsm.EncodeCompletePersonDirectoryTaskBatchCommandChecked(items))
	}},
	{"migCreateTask", func(g *Gen) []byte {
		return fsm.EncodeCreateChannelMigrationTaskCommand(c13Rand[metadb.ChannelMigrationTask](g))
	}},
	{"migCreateTaskGuarded", func(g *Gen) []byte {
		return fsm.EncodeCreateChannelMigrationTaskWithRuntimeGuardCommand(c13Rand[metadb.ChannelMigrationTaskCreate](g))
	}},
	{"migClaim", func(g *Gen) []byte {
		return fsm.EncodeClaimChannelMigrationTaskCommand(c13Rand[metadb.ChannelMigrationTaskClaim](g))
	}},
	{"migAdvance", func(g *Gen) []byte {
		return fsm.EncodeAdvanceChannelMigrationTaskCommand(c13Rand[metadb.ChannelMigrationTaskAdvance](g))
	}},
	{"migSetFence", func(g *Gen) []byte {
		return fsm.EncodeSetChannelWriteFenceCommand(c13Rand[metadb.ChannelMigrationFenceRequest](g))
	}},
	{"migResetFence", func(g *Gen) []byte {
		return fsm.EncodeResetChannelWriteFenceToPreCutoverCommand(c13Rand[metadb.ChannelMigrationResetFenceRequest](g))
	}},
	{"migLeaderTransfer", func(g *Gen) []byte {
		return fsm.EncodeCommitChannelLeaderTransferCommand(c13Rand[metadb.ChannelMigrationLeaderTransferRequest](g))
	}},
	{"migAddLearner", func(g *Gen) []byte {
		return fsm.EncodeAddChannelLearnerCommand(c13Rand[metadb.ChannelMigrationAddLearnerRequest](g))
	}},
	{"migPromoteLearner", func(g *Gen) []byte {
		return fsm.EncodePromoteLearnerAndRemoveReplicaCommand(c13Rand[metadb.ChannelMigrationPromoteLearnerRequest](g))
	}},
	{"migClearFence", func(g *Gen) []byte {
		return fsm.EncodeClearChannelWriteFenceCommand(c13Rand[metadb.ChannelMigrationClearFenceRequest](g))
	}},
	{"migAbort", func(g *Gen) []byte {
		return fsm.EncodeAbortChannelMigrationCommand(c13Rand[metadb.ChannelMigrationAbortRequest](g))
	}},
	{"migGC", func(g *Gen) []byte {
		return fsm.EncodeGarbageCollectTerminalChannelMigrationTasksCommand(c13Rand[metadb.ChannelMigrationTaskGCRequest](g))
	}},
	{"enterFence", func(g *Gen) []byte {
		hs := uint16(g.R.Range(1, 3))
		if g.R.Chance(80) {
			c13WantHS = hs // envelope and payload agree
		}
		if hs == 2 && g.R.Bool() {
			return fsm.EncodeEnterFenceCommand(hs) // slot 2 has a configured outgoing target
		}
		return fsm.EncodeEnterFenceCommandForTarget(hs, multiraft.SlotID(g.R.Pick(1, 6)*7))
	}},
	{"ackOutbox", func(g *Gen) []byte {
		return fsm.EncodeAckHashSlotMigrationOutboxCommand(uint16(g.R.Range(1, 3)), multiraft.SlotID(g.R.Range(1, 2)), multiraft.SlotID(g.R.Pick(1, 1, 4)*3+1), uint64(g.R.Range(0, 30)))
	}},
	{"cleanupOutbox", func(g *Gen) []byte {
		return fsm.EncodeCleanupHashSlotMigrationOutboxCommand(uint16(g.R.Range(1, 3)), multiraft.SlotID(g.R.Range(1, 2)), multiraft.SlotID(g.R.Pick(1, 1, 4)*3+1), uint64(g.R.Range(0, 30)))
	}},
}

// c13WantHS: set by a maker that needs a particular envelope hash slot (0 = any)
var c13WantHS uint16

// c13Clean: in a clean log the command families whose random instances are mostly
// refused (they need a long consistent migration history) are drawn less often, so
// that multi-command batches without any refusal are common.
var c13Clean bool

func c13MakeCmd(g *Gen) (string, []byte) {
	for {
		m := c13Makers[g.R.Intn(len(c13Makers))]
		often := strings.HasPrefix(m.name, "mig") && m.name != "migCreateTask" && m.name != "migGC" ||
			strings.HasPrefix(m.name, "appendMessage") || m.name == "ackOutbox" || m.name == "cleanupOutbox"
		if c13Clean && often && !g.R.Chance(15) {
			continue
		}
		if m.name != "enterFence" && m.name != "noop" && g.R.Chance(4) {
			m = c13Makers[len(c13Makers)-3] // enterFence, drawn more often: later commands of the hash slot get fenced
		}
		if b := m.make(g); len(b) > 0 {
			return m.name, b
		}
	}
}

// ---- structured logs: set-like tables, add / remove / re-add of the SAME key ----------

// c13Scenario: one key of a set-like table is added, removed and re-added (the order in
// which staged deletions and insertions of the SAME key must be seen by later commands of
// the same write batch), preceded by whatever row the family needs and followed by a few
// random mutations of the same key.
func c13Scenario(g *Gen, family int) (string, [][]byte) {
	if family == 7 || family == 8 {
		// the hash-slot fence inside a batch: an ordinary write, EnterFence, ordinary writes of the SAME
		// hash slot (family 8: with a CleanupMigrationOutbox that lifts the fence again in between)
		write := func() []byte {
			u := c13Rand[metadb.User](g)
			u.UID = []string{"u1", "u2"}[g.R.Intn(2)]
			return fsm.EncodeUpsertUserCommand(u)
		}
		fence := fsm.EncodeEnterFenceCommandForTarget(1, 7)
		if family == 7 {
			out := [][]byte{write(), fence, write()}
			if g.R.Bool() {
				out = append(out, write())
			}
			return "fence-then-write", out
		}
		cleanup := fsm.EncodeCleanupHashSlotMigrationOutboxCommand(1, 1, 7, 1000)
		return "fence-cleanup-write", [][]byte{write(), fence, write(), cleanup, write()}
	}
	ch := []string{"g1", "c2"}[g.R.Intn(2)]
	var out [][]byte
	var name string
	var add, rem func() []byte
	switch family % 7 {
	case 0:
		name = "subscribers"
		out = append(out, fsm.EncodeUpsertChannelCommand(metadb.Channel{ChannelID: ch, ChannelType: 2}))
		ver := uint64(0)
		versioned := g.R.Chance(30)
		next := func() uint64 {
			if versioned {
				ver++
			}
			return ver
		}
		uids := func() []string {
			if g.R.Chance(20) {
				return []string{"u1", "u2"}
			}
			return []string{"u1"}
		}
		add = func() []byte { return fsm.EncodeAddSubscribersCommand(ch, 2, uids(), next()) }
		rem = func() []byte { return fsm.EncodeRemoveSubscribersCommand(ch, 2, uids(), next()) }
	case 1:
		name = "channel-row"
		chn := func() metadb.Channel {
			return metadb.Channel{ChannelID: ch, ChannelType: 2, Ban: int64(g.R.Intn(2)), Large: int64(g.R.Intn(2))}
		}
		add = func() []byte {
			switch g.R.Intn(3) {
			case 0:
				return fsm.EncodeCreateChannelCommand(chn())
			case 1:
				return fsm.EncodeUpsertChannelCommand(chn())
			}
			return fsm.EncodePatchChannelBusinessFlagsCommand(ch, 2, c13Rand[metadb.ChannelBusinessFlags](g))
		}
		rem = func() []byte { return fsm.EncodeDeleteChannelCommand(ch, 2) }
	case 2:
		name = "membership"
		ms := func() []metadb.UserChannelMembership {
			m := c13Rand[metadb.UserChannelMembership](g)
			m.UID, m.ChannelID, m.ChannelType = "u1", ch, 2
			return []metadb.UserChannelMembership{m}
		}
		add = func() []byte {
			if g.R.Chance(25) {
				return fsm.EncodeActivateUserChannelMembershipCommand(ms())
			}
			return fsm.EncodeUpsertUserChannelMembershipsCommand(ms())
		}
		rem = func() []byte {
			if g.R.Chance(30) {
				return fsm.EncodeHideUserChannelMembershipCommand(ms())
			}
			return fsm.EncodeDeleteUserChannelMembershipsCommand(ms())
		}
	case 3:
		name = "cmd-membership"
		ms := func() []metadb.UserCMDChannelMembership {
			m := c13Rand[metadb.UserCMDChannelMembership](g)
			m.UID, m.CommandChannelID, m.ChannelType = "u1", ch, 2
			return []metadb.UserCMDChannelMembership{m}
		}
		add = func() []byte {
			if g.R.Chance(25) {
				return fsm.EncodeAdvanceUserCMDChannelMembershipAcksCommand(ms())
			}
			return fsm.EncodeUpsertUserCMDChannelMembershipsCommand(ms())
		}
		rem = func() []byte { return fsm.EncodeTombstoneUserCMDChannelMembershipsCommand(ms()) }
	case 4:
		name = "plugin-binding"
		add = func() []byte {
			b := c13Rand[metadb.PluginUserBinding](g)
			b.UID = "u1"
			return fsm.EncodeBindPluginUserCommand(b)
		}
		rem = func() []byte { return fsm.EncodeUnbindPluginUserCommand("u1", []string{"p1", "p2"}[g.R.Intn(2)]) }
	case 5:
		name = "runtime-meta-row"
		meta := func() metadb.ChannelRuntimeMeta {
			m := c13Rand[metadb.ChannelRuntimeMeta](g)
			c13FixRuntimeMeta(g, &m)
			m.ChannelID, m.ChannelType = ch, 2
			return m
		}
		add = func() []byte {
			if g.R.Bool() {
				if b := c13Checked(fsm.EncodeCreateChannelRuntimeMetaBatchCommandChecked([]fsm.CreateChannelRuntimeMetaBatchItem{{HashSlot: 1, Meta: meta()}})); b != nil {
					return b
				}
			}
			return fsm.EncodeUpsertChannelRuntimeMetaCommand(meta())
		}
		rem = func() []byte { return fsm.EncodeDeleteChannelRuntimeMetaCommand(ch, 2) }
	default:
		name = "user-device"
		add = func() []byte {
			u := c13Rand[metadb.User](g)
			u.UID = "u1"
			if g.R.Bool() {
				return fsm.EncodeCreateUserCommand(u)
			}
			return fsm.EncodeUpsertUserCommand(u)
		}
		rem = func() []byte {
			d := c13Rand[metadb.Device](g)
			d.UID = "u1"
			return fsm.EncodeUpsertDeviceCommand(d)
		}
	}
	out = append(out, add(), rem(), add())
	for extra := g.R.Range(0, 2); extra > 0 && len(out) < 6; extra-- {
		if g.R.Bool() {
			out = append(out, add())
		} else {
			out = append(out, rem())
		}
	}
	return name, out
}

// all compositions of n (every way to cut the log into consecutive batches)
func c13Compositions(n int) [][]int {
	var out [][]int
	for mask := 0; mask < 1<<(n-1); mask++ {
		var parts []int
		run := 1
		for i := 0; i < n-1; i++ {
			if mask&(1<<i) != 0 {
				parts = append(parts, run)
				run = 1
			} else {
				run++
			}
		}
		out = append(out, append(parts, run))
	}
	return out
}

func genC13Scenario(g *Gen, family int) {
	name, cmds := c13Scenario(g, family)
	g.Count("scenario:" + name)
	for i, d := range cmds {
		g.Op("c", "%d %d %d %s %s", i+1, c13Slot, 1, Hex(d), "scn:"+name)
	}
	ones := make([]string, len(cmds))
	for i := range ones {
		ones[i] = "1"
	}
	g.Op("run", "%s", strings.Join(ones, ","))
	for _, parts := range c13Compositions(len(cmds)) {
		if len(parts) == len(cmds) {
			continue
		}
		p := make([]string, len(parts))
		for i, x := range parts {
			p[i] = strconv.Itoa(x)
		}
		g.Op("run", "%s", strings.Join(p, ","))
	}
	// snapshot after the first k commands, restore onto a replica that applied the first j (j != k), go on
	n := len(cmds)
	for k := 1; k <= n; k++ {
		for j := 0; j <= n; j++ {
			if j == k || (n > 4 && !g.R.Chance(45)) {
				continue
			}
			g.Count("plan:restore-onto-other-prefix")
			plan := fmt.Sprintf("%d,X%d", k, j)
			if k < n {
				plan += fmt.Sprintf(",%d", n-k)
			}
			g.Op("run", "%s", plan)
		}
	}
}

// ---- structure-aware malformed payloads -------------------------------------------

type c13Field struct {
	tag byte
	val []byte
}

func c13Fields(body []byte) ([]c13Field, bool) {
	var out []c13Field
	for len(body) > 0 {
		if len(body) < 5 {
			return nil, false
		}
		n := int(body[1])<<24 | int(body[2])<<16 | int(body[3])<<8 | int(body[4])
		if n > len(body)-5 {
			return nil, false
		}
		out = append(out, c13Field{body[0], body[5 : 5+n]})
		body = body[5+n:]
	}
	return out, true
}

func c13Encode(hdr []byte, fs []c13Field) []byte {
	out := append([]byte(nil), hdr...)
	for _, f := range fs {
		n := len(f.val)
		out = append(out, f.tag, byte(n>>24), byte(n>>16), byte(n>>8), byte(n))
		out = append(out, f.val...)
	}
	return out
}

// genC13Sweep: for one well-formed command of EVERY type, keep the outer TLV framing valid and
// give each top-level field every length 0..24 and len-2..len+2 (cut, or extended with bytes 0/1/random)
func genC13Sweep(g *Gen) {
	idx := 0
	emit := func(name string, data []byte) {
		idx++
		g.Op("c", "%d %d %d %s %s", idx, c13Slot, g.R.Range(1, 3), Hex(data), name)
	}
	for _, m := range c13Makers {
		var base []byte
		for try := 0; try < 20 && len(base) < 2; try++ {
			base = m.make(g)
		}
		if len(base) < 2 {
			continue
		}
		fs, ok := c13Fields(base[2:])
		if !ok {
			continue
		}
		g.Count("sweep:type")
		for fi := range fs {
			orig := fs[fi].val
			lens := map[int]bool{}
			for l := 0; l <= 24; l++ {
				lens[l] = true
			}
			for l := len(orig) - 2; l <= len(orig)+2; l++ {
				if l >= 0 {
					lens[l] = true
				}
			}
			for l := 0; l <= len(orig)+2 && l <= 4096; l++ {
				if !lens[l] || l == len(orig) {
					continue
				}
				var v []byte
				if l <= len(orig) {
					v = orig[:l]
				} else {
					v = append(append([]byte(nil), orig...), make([]byte, l-len(orig))...)
					for k := len(orig); k < l; k++ {
						v[k] = []byte{0, 1, byte(g.R.U64())}[g.R.Intn(3)]
					}
				}
				alt := append([]c13Field(nil), fs...)
				alt[fi] = c13Field{fs[fi].tag, v}
				g.Count("sweep:altered-field-length")
				emit("swp:"+m.name, c13Encode(base[:2], alt))
			}
		}
	}
	ones := make([]string, 0, 64)
	for i := 0; i < 40; i++ {
		ones = append(ones, "1")
	}
	// the leftover of a plan is applied one at a time by the runner
	g.Op("run", "%s", strings.Join(ones, ","))
	g.Op("run", "%d,%d,%d", g.R.Range(2, 9), g.R.Range(2, 30), g.R.Range(2, 60))
}

func genC13(g *Gen) {
	for c := 0; c < g.N; c++ {
		g.Case()
		if c == 0 {
			// first case of every run: write, EnterFence, write on one hash slot under ALL partitions
			g.Count("log:fence-scenario")
			genC13Scenario(g, 7)
			continue
		}
		if c == 1 {
			g.Count("log:field-length-sweep")
			genC13Sweep(g)
			continue
		}
		if c <= 9 || g.R.Chance(15) {
			// cases 2..9 of every shard: fence+cleanup, then one add / remove / re-add scenario per set-like table, ALL partitions
			g.Count("log:set-table-scenario")
			family := c - 3
			if c == 2 {
				family = 8
			} else if c > 9 {
				family = g.R.Intn(9)
			}
			genC13Scenario(g, family)
			continue
		}
		n := g.R.Range(12, 40)
		c13Clean = g.R.Chance(60)
		if c13Clean {
			g.Count("log:clean")
		} else {
			g.Count("log:with-malformed-and-unowned")
		}
		var prev [][]byte
		for i := 1; i <= n; i++ {
			slot := uint64(c13Slot)
			hs := uint16(g.R.Range(1, 3))
			var name string
			var data []byte
			c13WantHS = 0
			malW := 10
			if c13Clean {
				malW = 0
			}
			switch g.R.Pick(70, 8, 12, malW) {
			case 0:
				name, data = c13MakeCmd(g)
				if c13WantHS != 0 {
					hs = c13WantHS
				}
			case 1: // a delta forwarded from another slot, wrapping an ordinary command
				var inner []byte
				name, inner = c13MakeCmd(g)
				name = "applyDelta(" + name + ")"
				if g.R.Chance(25) {
					hs = 4 // a delta for the incoming hash slot
				}
				dhs := hs
				if g.R.Chance(10) {
					dhs = uint16(g.R.Range(1, 4)) // envelope / payload mismatch
				}
				data = fsm.EncodeApplyDeltaCommand(multiraft.SlotID(g.R.Range(2, 3)), uint64(g.R.Range(1, 6)), dhs, inner)
			case 2: // exact retry / replay of an earlier payload (conflicts, idempotence)
				if len(prev) == 0 {
					name, data = c13MakeCmd(g)
				} else {
					name, data = "retry", prev[g.R.Intn(len(prev))]
				}
			default: // malformed payload bytes
				_, base := c13MakeCmd(g)
				data = append([]byte(nil), base...)
				switch g.R.Intn(8) {
				case 0:
					cut := g.R.Intn(len(data))
					if g.R.Bool() && len(data) > 2 {
						cut = len(data) - g.R.Range(1, 2) // one or two bytes short: the off-by-one zone of every length check
					}
					name, data = "mal:truncated", data[:cut]
				case 1:
					name = "mal:bitflip"
					data[g.R.Intn(len(data))] ^= byte(1 << uint(g.R.Intn(8)))
				case 2:
					name, data = "mal:garbage", g.R.Bytes(g.R.Range(0, 40))
				case 3:
					name, data = "mal:header-only", data[:2]
				case 4:
					name = "mal:unknown-type"
					data[1] = byte([]int{0, 10, 16, 24, 58, 66, 200, 255}[g.R.Intn(8)])
				case 5:
					name, data = "mal:trailing-bytes", append(data, g.R.Bytes(g.R.Range(1, 6))...)
				case 6:
					name, data = "mal:huge-length", append(data, 9, 0xff, 0xff, 0xff, 0xff, 1, 2)
				default:
					name = "mal:bad-version"
					data[0] = byte(g.R.Range(0, 3) * 2)
				}
			}
			envW := 1
			if c13Clean {
				envW = 0
			}
			switch g.R.Pick(90, 5*envW, 3*envW, 2*envW) {
			case 1:
				hs = uint16(g.R.Range(4, 5))
				g.Count("envelope:unowned-hash-slot")
			case 2:
				hs = 0
				g.Count("envelope:hash-slot-0")
			case 3:
				slot = 2
				g.Count("envelope:wrong-slot-id")
			}
			if strings.HasPrefix(name, "mal:") {
				g.Count(name)
			} else {
				g.Count("cmd:" + name)
				prev = append(prev, data)
			}
			g.Op("c", "%d %d %d %s %s", i, slot, hs, Hex(data), strings.ReplaceAll(name, " ", ""))
		}
		// run 1: one at a time (defines applyOne along this log)
		ones := make([]string, n)
		for i := range ones {
			ones[i] = "1"
		}
		g.Op("run", "%s", strings.Join(ones, ","))
		// runs 2..: random partitions, restarts, snapshot/restore at random prefixes
		for k := 0; k < 3; k++ {
			var plan []string
			left := n
			for left > 0 {
				sz := g.R.Pick(3, 4, 3, 2)
				sz = []int{1, g.R.Range(2, 3), g.R.Range(4, 8), g.R.Range(9, 40)}[sz]
				if sz > left {
					sz = left
				}
				plan = append(plan, strconv.Itoa(sz))
				left -= sz
				if left > 0 {
					switch {
					case k >= 1 && g.R.Chance(12):
						plan = append(plan, fmt.Sprintf("X%d", g.R.Intn(n+1)))
						g.Count("plan:restore-onto-other-prefix")
					case k >= 1 && g.R.Chance(25):
						plan = append(plan, "S")
						g.Count("plan:snapshot-restore")
					case g.R.Chance(12):
						plan = append(plan, "R")
						g.Count("plan:reopen")
					}
				}
			}
			if k == 2 && g.R.Chance(50) {
				plan = append(plan, "S")
				g.Count("plan:snapshot-restore-at-end")
			}
			g.Count("plan:partition-run")
			g.Op("run", "%s", strings.Join(plan, ","))
		}
	}
}

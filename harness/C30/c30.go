//go:build verif

package main

// C30 — message ids are unique and increasing.
//
// ops (one history = one allocator):
//   new <nodeID>                      fresh allocator                          -> ok
//   next                              Next()                                   -> `<id> <floorAfter>`
//   rewind                            the real generator forgets its last timestamp (clock regression):
//                                     it re-emits ids of the current millisecond -> ok
//   floor rel <d>                     SetFloor(floor.Load() + d)               -> `<floor> ok|err <floorAfter>`
//   floor gen <d>                     SetFloor(Generate() + d)                 -> `<floor> ok|err <floorAfter>`
//   floor abs <v>                     SetFloor(v), any uint64                  -> `<floor> ok|err <floorAfter>`
//   floor genmax <d>                  SetFloor((Generate() | 0x3fffff) + d ms) -> `<floor> ok|err <floorAfter>`
//   conc <G> <N> <S> <R> <seed>       G goroutines x N Next(), S floor setters, R rewinders, all concurrent
//                                     -> events `N:<g>:<start>:<end>:<id>` / `F:<g>:<start>:<end>:<floor>:<ok|err>`
//                                        (start/end = ticks of one global atomic counter), then `E:<floorAfter>`

import (
	"fmt"
	"runtime"
	"sort"
	"strconv"
	"strings"
	"sync"
	"sync/atomic"

	"github.com/WuKongIM/WuKongIM/internal/app"
)

func init() {
	Register(&Prop{Gen: genC30, NewRunner: func() Runner { return &c30Runner{} }})
}

func genC30(g *Gen) {
	r := g.R
	for c := 0; c < g.N; c++ {
		g.Case()
		g.Op("new", "%d", []int{0, 1, 7, 1023}[r.Intn(4)])
		nops := r.Range(20, 60)
		for i := 0; i < nops; i++ {
			switch r.Pick(40, 25, 12, 12, 3, 5, 4) {
			case 5: // restored maxima with the top bit set (negative as int64) and other extremes
				v := []uint64{1 << 63, 1<<63 | 12345, ^uint64(0) - 1, ^uint64(0), 1<<63 - 1, 1<<63 + 1<<62, 1 << 62}[r.Intn(7)]
				g.Count("floor-abs:>=2^62")
				g.Op("floor", "abs %d", v)
				g.Op("next", "")
				continue
			case 6: // same millisecond as the clock, maximal node/step bits
				d := []int64{0, 0, 0, -1, 1}[r.Intn(5)]
				g.Count(fmt.Sprintf("floor-genmax:%+d-ms", d))
				g.Op("floor", "genmax %d", d)
				g.Op("next", "")
				continue
			}
			switch r.Pick(40, 25, 12, 12, 3) {
			case 0:
				g.Op("next", "")
			case 1: // duplicate-prone burst: the generator re-emits (now, step 0..)
				k := r.Range(1, 4)
				for j := 0; j < k; j++ {
					g.Op("rewind", "")
					g.Op("next", "")
				}
				g.Count("burst:rewind-next")
			case 2:
				d := []int64{-3, -1, 0, 1, 2, 5, 4096, 1 << 22, 1 << 40}[r.Intn(9)]
				g.Count(fmt.Sprintf("floor-rel:%s", c30sign(d)))
				g.Op("floor", "rel %d", d)
			case 3:
				d := []int64{-(1 << 30), -(1 << 22), -4096, -1, 0, 1, 1 << 22, 1 << 30, 1 << 45}[r.Intn(9)]
				g.Count(fmt.Sprintf("floor-gen:%s", c30sign(d)))
				g.Op("floor", "gen %d", d)
			default:
				g.Op("conc", "%d %d %d %d %d", r.Range(2, 8), r.Range(5, 60), r.Range(0, 2), r.Range(0, 2), r.Intn(1<<30))
			}
		}
	}
}

func c30sign(d int64) string {
	switch {
	case d < 0:
		return "below"
	case d == 0:
		return "equal"
	case d < 1<<22:
		return "above-same-ms"
	default:
		return "above-future-ms"
	}
}

type c30Runner struct {
	ids *app.VerifMessageIDs
}

func (*c30Runner) Close() {}

func c30add(base uint64, d int64) uint64 {
	if d < 0 {
		if uint64(-d) > base {
			return 0
		}
		return base - uint64(-d)
	}
	if base+uint64(d) < base {
		return ^uint64(0)
	}
	return base + uint64(d)
}

func (x *c30Runner) Step(op string) string {
	f := strings.Fields(op)
	if len(f) == 0 {
		return "bad-op"
	}
	if f[0] == "new" {
		if len(f) != 2 {
			return "bad-op"
		}
		n, err := strconv.ParseUint(f[1], 10, 64)
		if err != nil {
			return "bad-op"
		}
		ids, err := app.VerifNewMessageIDs(n)
		if err != nil {
			x.ids = nil
			return "new-failed"
		}
		x.ids = ids
		return "ok"
	}
	if x.ids == nil {
		return "no-allocator"
	}
	switch f[0] {
	case "next":
		if len(f) != 1 {
			return "bad-op"
		}
		id := x.ids.Next()
		return fmt.Sprintf("%d %d", id, x.ids.Floor())
	case "rewind":
		if len(f) != 1 {
			return "bad-op"
		}
		if !x.ids.Rewind(1) {
			return "unsupported"
		}
		return "ok"
	case "floor":
		if len(f) != 3 {
			return "bad-op"
		}
		var d int64
		var abs uint64
		var err error
		if f[1] == "abs" {
			abs, err = strconv.ParseUint(f[2], 10, 64)
		} else {
			d, err = strconv.ParseInt(f[2], 10, 64)
		}
		if err != nil {
			return "bad-op"
		}
		var fl uint64
		switch f[1] {
		case "abs": // an absolute restored maximum (top-bit-set values included)
			fl = abs
		case "genmax": // current millisecond, node and step bits all ones (+ d milliseconds)
			fl = c30add(x.ids.Generate()|(1<<22-1), d<<22)
		case "rel":
			fl = c30add(x.ids.Floor(), d)
		case "gen":
			fl = c30add(x.ids.Generate(), d)
		default:
			return "bad-op"
		}
		res := "ok"
		if err := x.ids.SetFloor(fl); err != nil {
			res = "err"
		}
		return fmt.Sprintf("%d %s %d", fl, res, x.ids.Floor())
	case "conc":
		if len(f) != 6 {
			return "bad-op"
		}
		var p [5]int
		for i := range p {
			v, err := strconv.Atoi(f[1+i])
			if err != nil || v < 0 {
				return "bad-op"
			}
			p[i] = v
		}
		G, N, S, R := p[0], p[1], p[2], p[3]
		if G < 1 || G > 64 || N < 1 || N > 1000 || S > 8 || R > 8 {
			return "bad-op"
		}
		return x.conc(G, N, S, R, uint64(p[4]))
	}
	return "bad-op"
}

type c30Ev struct {
	kind       byte
	g          int
	start, end uint64
	val        uint64
	ok         bool
}

func (x *c30Runner) conc(G, N, S, R int, seed uint64) string {
	var tick atomic.Uint64
	var stop atomic.Bool
	evs := make([][]c30Ev, G+S)
	var wg, rw sync.WaitGroup
	begin := make(chan struct{})
	for g := 0; g < G; g++ {
		wg.Add(1)
		go func(g int) {
			defer wg.Done()
			<-begin
			out := make([]c30Ev, 0, N)
			for i := 0; i < N; i++ {
				s := tick.Add(1)
				id := x.ids.Next()
				e := tick.Add(1)
				out = append(out, c30Ev{kind: 'N', g: g, start: s, end: e, val: id})
			}
			evs[g] = out
		}(g)
	}
	for s := 0; s < S; s++ {
		wg.Add(1)
		go func(s int) {
			defer wg.Done()
			rnd := NewRand(seed + uint64(s)*7919)
			<-begin
			var out []c30Ev
			for i := 0; i < 6; i++ {
				var fl uint64
				switch rnd.Intn(4) {
				case 0:
					fl = c30add(x.ids.Floor(), int64(rnd.Intn(7))-3)
				case 1:
					fl = c30add(x.ids.Generate(), -int64(rnd.Intn(1<<23)))
				case 2:
					fl = c30add(x.ids.Floor(), 4096)
				default:
					fl = c30add(x.ids.Generate(), 1<<40)
				}
				st := tick.Add(1)
				err := x.ids.SetFloor(fl)
				en := tick.Add(1)
				out = append(out, c30Ev{kind: 'F', g: G + s, start: st, end: en, val: fl, ok: err == nil})
			}
			evs[G+s] = out
		}(s)
	}
	for r := 0; r < R; r++ {
		rw.Add(1)
		go func() {
			defer rw.Done()
			<-begin
			for !stop.Load() {
				x.ids.Rewind(1)
				for k := 0; k < 3000 && !stop.Load(); k++ {
					_ = tick.Load()
				}
				runtime.Gosched()
			}
		}()
	}
	close(begin)
	wg.Wait()
	stop.Store(true)
	rw.Wait()
	var all []c30Ev
	for _, l := range evs {
		all = append(all, l...)
	}
	sort.Slice(all, func(i, j int) bool { return all[i].start < all[j].start })
	parts := make([]string, len(all))
	for i, e := range all {
		if e.kind == 'N' {
			parts[i] = fmt.Sprintf("N:%d:%d:%d:%d", e.g, e.start, e.end, e.val)
		} else {
			res := "err"
			if e.ok {
				res = "ok"
			}
			parts[i] = fmt.Sprintf("F:%d:%d:%d:%d:%s", e.g, e.start, e.end, e.val, res)
		}
	}
	return strings.Join(parts, " ") + fmt.Sprintf(" E:%d", x.ids.Floor())
}

//go:build verif

package main

// C20 — hash-slot table: table ops, codec, the three planners, on the REAL
// pkg/hashslot code.  Line protocol: see lean/Driver/C20.lean.

import (
	"encoding/binary"
	"fmt"
	"sort"
	"strconv"
	"strings"

	"github.com/WuKongIM/WuKongIM/pkg/hashslot"
	"github.com/WuKongIM/WuKongIM/pkg/slot/multiraft"
)

func init() {
	Register(&Prop{Gen: genC20, NewRunner: func() Runner { return &c20Runner{} }})
}

// ---------------------------------------------------------------- generator ---

// shadow is the generator's own bookkeeping of the table it is steering (used
// only to bias ops towards the interesting branches; never taken from the
// implementation).  valid=false once a plan has been applied.
type c20Mig struct {
	src, tgt uint64
	phase    int
}
type c20Shadow struct {
	valid bool
	asg   []uint64
	migs  map[int]c20Mig
	ver   uint64
}

func c20Layout(h, p int) []uint64 {
	a := make([]uint64, h)
	if h == 0 || p <= 0 {
		return a
	}
	base, rem, next := h/p, h%p, 0
	for i := 0; i < p; i++ {
		c := base
		if i < rem {
			c++
		}
		for j := 0; j < c && next < h; j++ {
			a[next] = uint64(i + 1)
			next++
		}
	}
	return a
}

func c20Encode(ver uint16, version uint64, asg []uint64, migs [][4]uint64, declaredH, declaredM int) []byte {
	var d []byte
	d = binary.BigEndian.AppendUint16(d, ver)
	d = binary.BigEndian.AppendUint16(d, uint16(declaredH))
	d = binary.BigEndian.AppendUint64(d, version)
	for _, s := range asg {
		d = binary.BigEndian.AppendUint64(d, s)
	}
	if ver == 1 {
		return d
	}
	d = binary.BigEndian.AppendUint16(d, uint16(declaredM))
	for _, m := range migs {
		d = binary.BigEndian.AppendUint16(d, uint16(m[0]))
		d = append(d, byte(m[3]), byte(m[3]>>8)) // second byte = padding (0 in valid encodings)
		d = binary.BigEndian.AppendUint64(d, m[1])
		d = binary.BigEndian.AppendUint64(d, m[2])
	}
	return d
}

func (s *c20Shadow) active() []uint64 {
	seen := map[uint64]bool{}
	var out []uint64
	for _, x := range s.asg {
		if x != 0 && !seen[x] {
			seen[x] = true
			out = append(out, x)
		}
	}
	sort.Slice(out, func(i, j int) bool { return out[i] < out[j] })
	return out
}

func (s *c20Shadow) level() bool {
	act := s.active()
	if len(act) == 0 {
		return false
	}
	cnt := map[uint64]int{}
	for _, x := range s.asg {
		if x == 0 {
			return false
		}
		cnt[x]++
	}
	lo, hi := len(s.asg)/len(act), (len(s.asg)+len(act)-1)/len(act)
	for _, a := range act {
		if cnt[a] < lo || cnt[a] > hi {
			return false
		}
	}
	return true
}

func c20SlotID(g *Gen, nslots int) uint64 {
	switch g.R.Pick(70, 18, 6, 4, 2) {
	case 0:
		return uint64(g.R.Range(1, nslots))
	case 1:
		return uint64(g.R.Range(nslots+1, nslots+6))
	case 2:
		return []uint64{1 << 32, 1<<63 + 5, ^uint64(0), ^uint64(0) - 1}[g.R.Intn(4)]
	case 3:
		return uint64(g.R.Range(1, 70))
	default:
		return 0
	}
}

func c20PickH(g *Gen) int {
	switch g.R.Pick(30, 38, 20, 9, 3) {
	case 0:
		return g.R.Range(1, 16)
	case 1:
		return g.R.Range(17, 256)
	case 2:
		return g.R.Range(257, 1024)
	case 3:
		return g.R.Range(1025, 4096)
	default:
		return []int{0, 1, 2, 4096, 65535}[g.R.Intn(5)]
	}
}

func c20PlanOps(g *Gen, sh *c20Shadow, nslots int, applyPct int) {
	mode := "n"
	if g.R.Chance(applyPct) {
		mode = []string{"r", "m"}[g.R.Intn(2)]
	}
	bal := "unknown"
	if sh.valid {
		if sh.level() {
			bal = "balanced"
		} else {
			bal = "unbalanced"
		}
	}
	act := []uint64{}
	if sh.valid {
		act = sh.active()
	}
	switch g.R.Pick(35, 35, 30) {
	case 0:
		var s uint64
		if sh.valid && g.R.Chance(85) { // a genuinely new id: below, between or above the existing ones
			for tries := 0; tries < 8; tries++ {
				s = uint64(g.R.Range(1, nslots+8))
				if g.R.Chance(5) {
					s = ^uint64(0) - uint64(g.R.Intn(3))
				}
				ok := true
				for _, a := range act {
					if a == s {
						ok = false
					}
				}
				if ok {
					break
				}
			}
		} else {
			s = c20SlotID(g, nslots)
		}
		g.Count("plan:add:input-" + bal)
		g.Op("plan", "add %d %s", s, mode)
	case 1:
		var s uint64
		if len(act) > 0 && g.R.Chance(88) {
			s = act[g.R.Intn(len(act))]
			if len(act) == 1 {
				g.Count("plan:rm:last-slot")
			}
		} else {
			s = c20SlotID(g, nslots)
		}
		g.Count("plan:rm:input-" + bal)
		g.Op("plan", "rm %d %s", s, mode)
	default:
		g.Count("plan:reb:input-" + bal)
		g.Op("plan", "reb 0 %s", mode)
	}
	if mode != "n" {
		sh.valid = false
		g.Count("plan:applied:" + mode)
	}
}

// one random history
func c20History(g *Gen) {
	g.Case()
	h := c20PickH(g)
	var p int
	switch g.R.Pick(70, 12, 8, 5, 5) {
	case 0:
		p = g.R.Range(1, 12)
	case 1:
		p = g.R.Range(13, 64)
	case 2:
		p = h + g.R.Range(0, 5) // more slots than hash slots (or equal)
	case 3:
		p = 0
	default:
		p = -g.R.Range(1, 3)
	}
	if p > 5000 {
		p = 5000
	}
	if h == 65535 {
		g.Count("new:h=65535")
	}
	if h == 0 {
		g.Count("new:h=0")
	}
	if p <= 0 {
		g.Count("new:p<=0")
	} else if p > h {
		g.Count("new:p>h")
	}
	g.Op("new", "%d %d", h, p)
	sh := &c20Shadow{valid: true, asg: c20Layout(h, p), migs: map[int]c20Mig{}, ver: 1}
	nslots := p
	if nslots < 1 {
		nslots = 3
	}
	if nslots > 64 {
		nslots = 64
	}
	heavy := h > 4096
	nops := g.R.Range(4, 40)
	if heavy {
		nops = g.R.Range(2, 6)
	}
	// a balanced table straight into a plan, sometimes
	if g.R.Chance(25) {
		c20PlanOps(g, sh, nslots, 30)
	}
	hsPick := func() int {
		if h == 0 {
			return g.R.Intn(4)
		}
		switch g.R.Pick(80, 8, 6, 6) {
		case 0:
			return g.R.Intn(h)
		case 1:
			return h - 1
		case 2:
			if h < 65535 {
				return h // first out-of-range
			}
			return h - 1
		default:
			if h+100 < 65535 {
				return h + g.R.Intn(100)
			}
			return g.R.Intn(h)
		}
	}
	migHS := func() (int, bool) {
		if !sh.valid || len(sh.migs) == 0 {
			return 0, false
		}
		keys := make([]int, 0, len(sh.migs))
		for k := range sh.migs {
			keys = append(keys, k)
		}
		sort.Ints(keys)
		return keys[g.R.Intn(len(keys))], true
	}
	for i := 0; i < nops; i++ {
		switch g.R.Pick(30, 14, 9, 8, 5, 4, 6, 4, 4, 16) {
		case 0: // reassign
			hs := hsPick()
			s := c20SlotID(g, nslots)
			if sh.valid && hs < len(sh.asg) && g.R.Chance(10) {
				s = sh.asg[hs] // no-op reassign
			}
			if sh.valid && hs < len(sh.asg) {
				if sh.asg[hs] == s {
					g.Count("reassign:noop")
				} else {
					g.Count("reassign:effective")
					sh.asg[hs] = s
				}
			} else if sh.valid {
				g.Count("reassign:out-of-range")
			}
			g.Op("reassign", "%d %d", hs, s)
		case 1: // start migration
			hs := hsPick()
			var src uint64
			if sh.valid && hs < len(sh.asg) && g.R.Chance(85) {
				src = sh.asg[hs]
			} else {
				src = c20SlotID(g, nslots)
			}
			tgt := c20SlotID(g, nslots)
			if g.R.Chance(5) {
				tgt = src
			}
			if sh.valid {
				_, dup := sh.migs[hs]
				switch {
				case hs >= len(sh.asg):
					g.Count("start:out-of-range")
				case src == 0 || tgt == 0 || src == tgt || sh.asg[hs] != src:
					g.Count("start:rejected-args")
				case dup:
					g.Count("start:already-migrating")
				default:
					g.Count("start:effective")
					sh.migs[hs] = c20Mig{src, tgt, 0}
				}
			}
			g.Op("start", "%d %d %d", hs, src, tgt)
		case 2: // advance
			hs, ok := migHS()
			if !ok || g.R.Chance(10) {
				hs = hsPick()
			}
			ph := g.R.Pick(10, 35, 35, 15, 5)
			if ph == 4 {
				ph = g.R.Range(4, 255)
			}
			if sh.valid {
				if m, ok := sh.migs[hs]; ok {
					if m.phase == ph {
						g.Count("advance:same-phase")
					} else {
						g.Count("advance:effective")
						m.phase = ph
						sh.migs[hs] = m
					}
				} else {
					g.Count("advance:no-migration")
				}
			}
			g.Op("advance", "%d %d", hs, ph)
		case 3: // finalize
			hs, ok := migHS()
			if !ok || g.R.Chance(10) {
				hs = hsPick()
			}
			if sh.valid {
				if m, ok := sh.migs[hs]; ok {
					g.Count("finalize:effective")
					if hs < len(sh.asg) {
						sh.asg[hs] = m.tgt
					}
					delete(sh.migs, hs)
				} else {
					g.Count("finalize:no-migration")
				}
			}
			g.Op("finalize", "%d", hs)
		case 4: // abort
			hs, ok := migHS()
			if !ok || g.R.Chance(10) {
				hs = hsPick()
			}
			if sh.valid {
				if _, ok := sh.migs[hs]; ok {
					g.Count("abort:effective")
					delete(sh.migs, hs)
				} else {
					g.Count("abort:no-migration")
				}
			}
			g.Op("abort", "%d", hs)
		case 5:
			g.Op("lookup", "%d", hsPick())
		case 6:
			if sh.valid && len(sh.migs) > 0 {
				g.Count("rt:with-migrations")
			}
			g.Op("rt", "")
		case 7:
			if h <= 1024 {
				g.Op("enc", "")
			} else {
				g.Op("rt", "")
			}
		case 8:
			g.Op("dump", "")
		default:
			if heavy && i > 0 {
				g.Op("rt", "")
			} else {
				c20PlanOps(g, sh, nslots, 55)
			}
		}
	}
	g.Op("dump", "")
}

// a Decode-centred history: (mostly) valid encodings with migrations, and broken ones
func c20DecodeHistory(g *Gen) {
	g.Case()
	h := g.R.Range(0, 12)
	if g.R.Chance(15) {
		h = g.R.Range(13, 200)
	}
	nslots := g.R.Range(1, 5)
	asg := make([]uint64, h)
	for i := range asg {
		asg[i] = uint64(g.R.Range(1, nslots))
		if g.R.Chance(3) {
			asg[i] = c20SlotID(g, nslots)
		}
	}
	nm := g.R.Pick(30, 30, 20, 20) // 0,1,2,3+
	if nm == 3 {
		nm = g.R.Range(3, 8)
	}
	var migs [][4]uint64
	used := map[int]bool{}
	for i := 0; i < nm; i++ {
		hs := g.R.Intn(h + 3)
		if g.R.Chance(4) {
			hs = 65535
		}
		if used[hs] && !g.R.Chance(15) {
			continue
		}
		used[hs] = true
		src, tgt := c20SlotID(g, nslots), c20SlotID(g, nslots)
		if hs < h && g.R.Chance(80) {
			src = asg[hs]
		}
		ph := uint64(g.R.Pick(40, 25, 20, 10, 5))
		if ph == 4 {
			ph = uint64(g.R.Range(4, 255))
		}
		migs = append(migs, [4]uint64{uint64(hs), src, tgt, ph})
	}
	if g.R.Chance(75) {
		sort.SliceStable(migs, func(i, j int) bool { return migs[i][0] < migs[j][0] })
	} else {
		g.Count("dec:unsorted-migrations")
	}
	version := g.R.BoundaryU64()
	ver := uint16(2)
	declH, declM := h, len(migs)
	kind := g.R.Pick(46, 8, 6, 6, 6, 6, 6, 6, 5, 5)
	var data []byte
	switch kind {
	case 0:
		g.Count("dec:valid-v2")
	case 1:
		ver = 1
		g.Count("dec:valid-v1")
	case 2:
		ver = uint16([]int{0, 3, 256, 513, 65535}[g.R.Intn(5)])
		g.Count("dec:bad-format-version")
	case 3:
		declH = h + g.R.Range(1, 3)
		g.Count("dec:declared-h-too-big")
	case 4:
		if h > 0 {
			declH = h - 1
		}
		g.Count("dec:declared-h-too-small")
	case 5:
		declM = len(migs) + g.R.Range(1, 2)
		g.Count("dec:declared-migrations-too-many")
	case 6:
		if len(migs) > 0 {
			declM = len(migs) - 1
		}
		g.Count("dec:declared-migrations-too-few")
	case 7:
		g.Count("dec:pad-byte-nonzero")
		for i := range migs {
			migs[i][3] |= uint64(g.R.Range(1, 255)) << 8
		}
	}
	data = c20Encode(ver, version, asg, migs, declH, declM)
	switch kind {
	case 8:
		if len(data) > 0 {
			data = data[:g.R.Intn(len(data))]
		}
		g.Count("dec:truncated")
	case 9:
		data = append(data, g.R.Bytes(g.R.Range(1, 21))...)
		g.Count("dec:trailing-bytes")
	}
	if ver == 2 && len(migs) == 0 && g.R.Chance(40) && kind == 0 {
		data = data[:len(data)-2] // v2 without the migration section is accepted too
		g.Count("dec:v2-no-migration-section")
	}
	// sometimes decode over an existing table (error must keep it)
	if g.R.Chance(30) {
		g.Op("new", "%d %d", g.R.Range(1, 9), g.R.Range(1, 3))
	}
	g.Op("dec", "%s", Hex(data))
	g.Op("dump", "")
	g.Op("rt", "")
	g.Op("enc", "")
	nfollow := g.R.Range(0, 8)
	for i := 0; i < nfollow; i++ {
		var hs int
		if len(migs) > 0 && g.R.Chance(75) {
			hs = int(migs[g.R.Intn(len(migs))][0])
		} else {
			hs = g.R.Intn(h + 3)
		}
		switch g.R.Pick(3, 3, 2, 2, 2, 2) {
		case 0:
			g.Op("advance", "%d %d", hs, g.R.Intn(5))
		case 1:
			g.Op("finalize", "%d", hs)
		case 2:
			g.Op("abort", "%d", hs)
		case 3:
			g.Op("lookup", "%d", hs)
		case 4:
			g.Op("start", "%d %d %d", hs, g.R.Range(0, nslots), g.R.Range(0, nslots+1))
		default:
			g.Op("rt", "")
		}
	}
	if g.R.Chance(50) {
		sh := &c20Shadow{valid: false}
		c20PlanOps(g, sh, nslots, 50)
	}
	g.Op("dump", "")
}

// exhaustive small scope: every table over `ids` with H hash slots, every plan request
func c20Exhaustive(g *Gen, maxH int, ids []uint64, extra []uint64) {
	for h := 1; h <= maxH; h++ {
		total := 1
		for i := 0; i < h; i++ {
			total *= len(ids)
		}
		for code := 0; code < total; code++ {
			asg := make([]uint64, h)
			c := code
			for i := 0; i < h; i++ {
				asg[i] = ids[c%len(ids)]
				c /= len(ids)
			}
			g.Case()
			g.Count("exhaustive:tables")
			g.Op("dec", "%s", Hex(c20Encode(2, 7, asg, nil, h, 0)))
			g.Op("plan", "reb 0 n")
			for _, s := range extra {
				g.Op("plan", "add %d n", s)
			}
			for _, s := range ids {
				g.Op("plan", "rm %d n", s)
			}
			g.Op("rt", "")
		}
	}
}

func genC20(g *Gen) {
	// directed: the DESIGN §8.4 witnesses and a table at the uint64 version limit
	g.Case()
	a := make([]uint64, 12)
	for i := range a {
		a[i] = 1
		if i >= 10 {
			a[i] = 2
		}
	}
	g.Op("dec", "%s", Hex(c20Encode(2, 1, a, nil, 12, 0)))
	g.Op("plan", "add 3 n")
	g.Case()
	b := []uint64{1, 1, 1, 1, 1, 1, 1, 1, 2, 2, 3, 3}
	g.Op("dec", "%s", Hex(c20Encode(2, 1, b, nil, 12, 0)))
	g.Op("plan", "rm 3 n")
	g.Case()
	g.Op("dec", "%s", Hex(c20Encode(2, ^uint64(0)-1, []uint64{1, 2}, nil, 2, 0)))
	g.Op("reassign", "0 5")
	g.Op("reassign", "1 5") // wraps: version limit, outside the claim
	g.Op("dump", "")

	if g.Tier == "thorough" {
		c20Exhaustive(g, 7, []uint64{2, 3, 5}, []uint64{1, 4, 9})
		c20Exhaustive(g, 5, []uint64{1, 2, 3, 4}, []uint64{5})
	} else {
		c20Exhaustive(g, 5, []uint64{2, 3, 5}, []uint64{1, 4, 9})
	}
	for i := 0; i < g.N; i++ {
		if g.R.Chance(22) {
			c20DecodeHistory(g)
		} else {
			c20History(g)
		}
	}
}

// ------------------------------------------------------------------- runner ---

type c20Runner struct {
	t *hashslot.HashSlotTable
}

func (r *c20Runner) Close() {}

func c20Dump(t *hashslot.HashSlotTable) string {
	if t == nil {
		return "nil"
	}
	var sb strings.Builder
	fmt.Fprintf(&sb, "v=%d h=%d a=", t.Version(), t.HashSlotCount())
	n := int(t.HashSlotCount())
	if n == 0 {
		sb.WriteString("-")
	}
	for i := 0; i < n; {
		s := t.Lookup(uint16(i))
		j := i
		for j < n && t.Lookup(uint16(j)) == s {
			j++
		}
		if i > 0 {
			sb.WriteString(",")
		}
		fmt.Fprintf(&sb, "%d*%d", uint64(s), j-i)
		i = j
	}
	sb.WriteString(" m=")
	ms := t.ActiveMigrations()
	if len(ms) == 0 {
		sb.WriteString("-")
	}
	for i, m := range ms {
		if i > 0 {
			sb.WriteString(";")
		}
		fmt.Fprintf(&sb, "%d:%d:%d:%d", m.HashSlot, uint64(m.Source), uint64(m.Target), uint8(m.Phase))
	}
	return sb.String()
}

func (r *c20Runner) mutOut(hs uint16) string {
	g := "-"
	if m := r.t.GetMigration(hs); m != nil {
		g = fmt.Sprintf("%d:%d:%d", uint64(m.Source), uint64(m.Target), uint8(m.Phase))
	}
	return fmt.Sprintf("v=%d l=%d g=%s", r.t.Version(), uint64(r.t.Lookup(hs)), g)
}

func c20U16(s string) (uint16, bool) {
	v, err := strconv.ParseUint(s, 10, 16)
	return uint16(v), err == nil
}

func c20U64(s string) (uint64, bool) {
	v, err := strconv.ParseUint(s, 10, 64)
	return v, err == nil
}

func (r *c20Runner) Step(op string) string {
	f := strings.Fields(op)
	if len(f) == 0 {
		return "bad-op"
	}
	switch f[0] {
	case "new":
		if len(f) != 3 {
			return "bad-op"
		}
		h, ok := c20U16(f[1])
		p, err := strconv.ParseInt(f[2], 10, 32)
		if !ok || err != nil {
			return "bad-op"
		}
		r.t = hashslot.NewHashSlotTable(h, int(p))
		return c20Dump(r.t)
	case "dump":
		if len(f) != 1 {
			return "bad-op"
		}
		return c20Dump(r.t)
	case "lookup":
		if len(f) != 2 {
			return "bad-op"
		}
		hs, ok := c20U16(f[1])
		if !ok {
			return "bad-op"
		}
		return strconv.FormatUint(uint64(r.t.Lookup(hs)), 10)
	case "reassign":
		if len(f) != 3 {
			return "bad-op"
		}
		hs, ok1 := c20U16(f[1])
		s, ok2 := c20U64(f[2])
		if !ok1 || !ok2 {
			return "bad-op"
		}
		r.t.Reassign(hs, multiraft.SlotID(s))
		return r.mutOut(hs)
	case "start":
		if len(f) != 4 {
			return "bad-op"
		}
		hs, ok1 := c20U16(f[1])
		a, ok2 := c20U64(f[2])
		b, ok3 := c20U64(f[3])
		if !ok1 || !ok2 || !ok3 {
			return "bad-op"
		}
		r.t.StartMigration(hs, multiraft.SlotID(a), multiraft.SlotID(b))
		return r.mutOut(hs)
	case "advance":
		if len(f) != 3 {
			return "bad-op"
		}
		hs, ok1 := c20U16(f[1])
		ph, err := strconv.ParseUint(f[2], 10, 8)
		if !ok1 || err != nil {
			return "bad-op"
		}
		r.t.AdvanceMigration(hs, hashslot.MigrationPhase(ph))
		return r.mutOut(hs)
	case "finalize", "abort":
		if len(f) != 2 {
			return "bad-op"
		}
		hs, ok := c20U16(f[1])
		if !ok {
			return "bad-op"
		}
		if f[0] == "finalize" {
			r.t.FinalizeMigration(hs)
		} else {
			r.t.AbortMigration(hs)
		}
		return r.mutOut(hs)
	case "enc":
		if len(f) != 1 {
			return "bad-op"
		}
		return Hex(r.t.Encode())
	case "rt":
		if len(f) != 1 {
			return "bad-op"
		}
		if r.t == nil {
			return "nil"
		}
		d, err := hashslot.DecodeHashSlotTable(r.t.Encode())
		if err != nil {
			return "err"
		}
		if c20Dump(d) == c20Dump(r.t) {
			return "same"
		}
		return "diff"
	case "dec":
		if len(f) != 2 {
			return "bad-op"
		}
		d, err := hashslot.DecodeHashSlotTable(UnHex(f[1]))
		if err != nil {
			return "err"
		}
		r.t = d
		return c20Dump(r.t)
	case "plan":
		if len(f) != 4 {
			return "bad-op"
		}
		s, ok := c20U64(f[2])
		if !ok || (f[3] != "n" && f[3] != "r" && f[3] != "m") {
			return "bad-op"
		}
		var plan []hashslot.MigrationPlan
		switch f[1] {
		case "add":
			plan = hashslot.ComputeAddSlotPlan(r.t, multiraft.SlotID(s))
		case "rm":
			plan = hashslot.ComputeRemoveSlotPlan(r.t, multiraft.SlotID(s))
		case "reb":
			plan = hashslot.ComputeRebalancePlan(r.t)
		default:
			return "bad-op"
		}
		var sb strings.Builder
		sb.WriteString("p=")
		if len(plan) == 0 {
			sb.WriteString("-")
		}
		for i, m := range plan {
			if i > 0 {
				sb.WriteString(",")
			}
			fmt.Fprintf(&sb, "%d:%d>%d", m.HashSlot, uint64(m.From), uint64(m.To))
		}
		for _, m := range plan {
			switch f[3] {
			case "r":
				r.t.Reassign(m.HashSlot, m.To)
			case "m":
				r.t.StartMigration(m.HashSlot, m.From, m.To)
				r.t.AdvanceMigration(m.HashSlot, hashslot.PhaseDelta)
				r.t.AdvanceMigration(m.HashSlot, hashslot.PhaseSwitching)
				r.t.FinalizeMigration(m.HashSlot)
			}
		}
		fmt.Fprintf(&sb, " v=%d", r.t.Version())
		return sb.String()
	}
	return "bad-op"
}

//go:build verif

package main

// C16 generator.  g.N = number of cases.  Two streams (DESIGN §7 C16):
//   raw  : arbitrary table rows / arbitrary source versions (reaches the
//          assign-not-max branches: KNOWN-FINDING classes, anything else = VIOLATION)
//   ctor : join rows shaped the way the two real constructors build them
//          (ReadSeq = DeletedToSeq = committed tail, monotone tail, cursors <= tail);
//          the judge runs in `mode ctor`, where ANY regression is a violation.
// The generator keeps only its own bookkeeping (what it sent), never results.

import (
	"fmt"
	"strings"
)

type c16GKey struct {
	slot int
	uid  string
	ch   string
	ct   int64
}

func (k c16GKey) s() string {
	return fmt.Sprintf("%d %s %s %d", k.slot, Hex([]byte(k.uid)), Hex([]byte(k.ch)), k.ct)
}

type c16GInfo struct {
	sent   bool
	maxSV  uint64
	tomb   bool // last upsert sent was a tombstone
	ctomb  bool
	cbound bool
}

var c16Uids = []struct {
	uid  string
	slot int
}{{"u1", 3}, {"u2", 3}, {"bob", 7}, {"u", 7}, {"u10", 3}}

var c16Chans = []string{"a", "b", "g1", "g2", "g10", "zz", "c", "team", "z"}

func genC16(g *Gen) {
	for i := 0; i < g.N; i++ {
		g.Case()
		if i%3 == 2 {
			g.Count("case:ctor")
			genC16Ctor(g)
		} else {
			g.Count("case:raw")
			genC16Raw(g)
		}
	}
}

func c16Seq(g *Gen) uint64 {
	switch g.R.Pick(70, 20, 6, 4) {
	case 0:
		return uint64(g.R.Intn(40))
	case 1:
		return uint64(g.R.Intn(8))
	case 2:
		return g.R.BoundaryU64()
	default:
		return ^uint64(0) - uint64(g.R.Intn(3))
	}
}

func c16Time(g *Gen) int64 {
	switch g.R.Pick(80, 12, 5, 3) {
	case 0:
		return int64(g.R.Intn(100))
	case 1:
		return 0
	case 2:
		return -int64(g.R.Intn(5)) - 1
	default:
		return int64(^uint64(0)>>1) - int64(g.R.Intn(3))
	}
}

func c16Act(g *Gen) int64 {
	switch g.R.Pick(55, 30, 10, 3, 2) {
	case 0:
		return int64(g.R.Intn(6)) // collisions of activation time: order decided by channel id / type
	case 1:
		return int64(g.R.Intn(60))
	case 2:
		return 0
	case 3:
		return -int64(g.R.Intn(4)) - 1
	default:
		return int64(^uint64(0)>>1) - int64(g.R.Intn(2))
	}
}

func genC16Raw(g *Gen) {
	g.Op("mode", "raw")
	nu := g.R.Range(1, 3)
	nc := g.R.Range(2, 6)
	uoff := g.R.Intn(len(c16Uids))
	coff := g.R.Intn(len(c16Chans))
	var keys []c16GKey
	for u := 0; u < nu; u++ {
		uu := c16Uids[(uoff+u)%len(c16Uids)]
		for c := 0; c < nc; c++ {
			keys = append(keys, c16GKey{uu.slot, uu.uid, c16Chans[(coff+c)%len(c16Chans)], int64(1 + g.R.Intn(2))})
		}
	}
	info := make([]c16GInfo, len(keys))
	nops := g.R.Range(20, 70)
	pickKey := func() int {
		if g.R.Chance(2) {
			return -1
		}
		return g.R.Intn(len(keys))
	}
	keyStr := func(i int) string {
		if i >= 0 {
			return keys[i].s()
		}
		// an invalid identity (empty uid or channel id)
		g.Count("key:invalid")
		if g.R.Bool() {
			return fmt.Sprintf("3 - %s 1", Hex([]byte("a")))
		}
		return fmt.Sprintf("3 %s - 1", Hex([]byte("u1")))
	}
	svFor := func(i int) uint64 {
		if i < 0 || !info[i].sent {
			return uint64(g.R.Intn(4))
		}
		m := info[i].maxSV
		switch g.R.Pick(50, 22, 22, 6) {
		case 0:
			g.Count("sv:newer")
			return m + 1 + uint64(g.R.Intn(2))
		case 1:
			g.Count("sv:equal")
			return m
		case 2:
			g.Count("sv:older")
			if m == 0 {
				return 0
			}
			return m - 1 - uint64(g.R.Intn(int(m)))%m
		default:
			return uint64(g.R.Intn(3))
		}
	}
	upsertArgs := func(i int, kind string) string {
		sv := svFor(i)
		tomb := kind == "up" && g.R.Chance(35)
		if kind == "en" && g.R.Chance(5) {
			tomb = true
		}
		if i >= 0 {
			if info[i].sent && kind == "up" && info[i].tomb && !tomb && sv > info[i].maxSV {
				g.Count("shape:rejoin-newer-sv")
			}
			if info[i].sent && kind == "up" && info[i].tomb && !tomb && sv == info[i].maxSV {
				g.Count("shape:untomb-same-sv")
			}
			if info[i].sent && kind == "en" && sv > info[i].maxSV {
				g.Count("shape:ensure-newer-gen")
			}
			if kind == "up" {
				info[i].tomb = tomb
			}
			if sv > info[i].maxSV {
				info[i].maxSV = sv
			}
			info[i].sent = true
		}
		tombAt := int64(0)
		if tomb || g.R.Chance(5) {
			tombAt = c16Time(g)
		}
		act := int64(0)
		if g.R.Chance(60) {
			act = c16Act(g)
		}
		return fmt.Sprintf("%d %d %d %d %s %d %d %d", c16Seq(g), c16Seq(g), c16Seq(g), act, b01(tomb), tombAt, sv, c16Time(g))
	}
	subOp := func(inBatch bool) string {
		i := pickKey()
		switch g.R.Pick(24, 10, 16, 9, 10, 3, 9, 9, 6) {
		case 0:
			return "up " + keyStr(i) + " " + upsertArgs(i, "up")
		case 1:
			return "en " + keyStr(i) + " " + upsertArgs(i, "en")
		case 2:
			return fmt.Sprintf("rd %s %d %d", keyStr(i), c16Seq(g), c16Time(g))
		case 3:
			return fmt.Sprintf("hd %s %d %d", keyStr(i), c16Seq(g), c16Time(g))
		case 4:
			return fmt.Sprintf("ac %s %d %d", keyStr(i), c16Act(g), c16Time(g))
		case 5:
			if i >= 0 {
				info[i] = c16GInfo{}
			}
			return "dl " + keyStr(i)
		case 6:
			tomb := g.R.Chance(25)
			if i >= 0 {
				if info[i].cbound && info[i].ctomb && !tomb {
					g.Count("shape:cmd-rebind")
				}
				info[i].cbound = true
				info[i].ctomb = tomb
			}
			tombAt := int64(0)
			if tomb {
				tombAt = c16Time(g)
			}
			return fmt.Sprintf("cup %s %d %d %s %d %d", keyStr(i), c16Seq(g), c16Seq(g), b01(tomb), tombAt, c16Time(g))
		case 7:
			return fmt.Sprintf("cak %s %d %d", keyStr(i), c16Seq(g), c16Time(g))
		default:
			if i >= 0 {
				info[i].ctomb = true
			}
			if inBatch {
				return fmt.Sprintf("ctb %s %d %d", keyStr(i), c16Time(g), c16Time(g))
			}
			return fmt.Sprintf("ctb %s %d", keyStr(i), c16Time(g))
		}
	}
	emit := func(line string) {
		f := strings.SplitN(line, " ", 2)
		g.Op(f[0], "%s", f[1])
	}
	scanUser := func() (int, string) {
		uu := c16Uids[(uoff+g.R.Intn(nu))%len(c16Uids)]
		return uu.slot, Hex([]byte(uu.uid))
	}
	for n := 0; n < nops; n++ {
		switch g.R.Pick(60, 12, 12, 5, 5, 6, 5) {
		case 5:
			// two (or three) mutations of ONE row inside one batch, larger value first:
			// the batch must behave as its sequential history (the overlay of staged rows)
			i := g.R.Intn(len(keys))
			hi := uint64(g.R.Range(20, 60))
			lo := uint64(g.R.Intn(20))
			var subs []string
			switch g.R.Intn(4) {
			case 0:
				subs = []string{fmt.Sprintf("cak %s %d %d", keys[i].s(), hi, c16Time(g)), fmt.Sprintf("cak %s %d %d", keys[i].s(), lo, c16Time(g))}
				g.Count("shape:batch-same-row-ack-desc")
			case 1:
				subs = []string{fmt.Sprintf("rd %s %d %d", keys[i].s(), hi, g.R.Intn(100)), fmt.Sprintf("rd %s %d %d", keys[i].s(), lo, g.R.Intn(100))}
				g.Count("shape:batch-same-row-read-desc")
			case 2:
				subs = []string{fmt.Sprintf("hd %s %d %d", keys[i].s(), hi, g.R.Intn(100)), fmt.Sprintf("hd %s %d %d", keys[i].s(), lo, g.R.Intn(100))}
				g.Count("shape:batch-same-row-hide-desc")
			default:
				subs = []string{fmt.Sprintf("rd %s %d %d", keys[i].s(), hi, g.R.Intn(100)), fmt.Sprintf("hd %s %d %d", keys[i].s(), hi, g.R.Intn(100)),
					fmt.Sprintf("rd %s %d %d", keys[i].s(), lo, g.R.Intn(100)), fmt.Sprintf("cak %s %d %d", keys[i].s(), hi, g.R.Intn(100)), fmt.Sprintf("cak %s %d %d", keys[i].s(), lo, g.R.Intn(100))}
				g.Count("shape:batch-same-row-mixed-desc")
			}
			if g.R.Chance(30) {
				subs = append([]string{subOp(true)}, subs...)
			}
			emit("bt " + strings.Join(subs, " ; "))
		case 6:
			// clock skew: a delete carrying a NEWER source version but an UpdatedAt that is not newer
			// than the stored one, then a delayed add whose version lies between the old fence and the delete
			i := g.R.Intn(len(keys))
			m := info[i].maxSV
			late := int64(g.R.Range(50, 99))
			emit(fmt.Sprintf("up %s %d %d %d 0 0 0 %d %d", keys[i].s(), c16Seq(g), c16Seq(g), c16Seq(g), m+1, g.R.Intn(50)))
			emit(fmt.Sprintf("rd %s %d %d", keys[i].s(), 40+g.R.Intn(20), late))
			emit(fmt.Sprintf("up %s 1 0 0 0 1 %d %d %d", keys[i].s(), g.R.Intn(50), m+3, []int64{late, late - 1, 0, int64(g.R.Intn(int(late)))}[g.R.Intn(4)]))
			emit(fmt.Sprintf("up %s %d %d %d 0 0 0 %d %d", keys[i].s(), g.R.Intn(30), g.R.Intn(30), g.R.Intn(30), m+2, g.R.Intn(100)))
			info[i].sent, info[i].maxSV, info[i].tomb = true, m+3, true
			g.Count("shape:skewed-delete-then-late-add")
		case 0:
			emit(subOp(false))
		case 1:
			k := g.R.Range(1, 5)
			subs := make([]string, k)
			for j := range subs {
				subs[j] = subOp(true)
			}
			g.Count(fmt.Sprintf("batch:size%d", k))
			emit("bt " + strings.Join(subs, " ; "))
		case 2:
			// a directory pass: page sizes 1..7, sometimes interleaved with mutations
			slot, uid := scanUser()
			g.Op("ps", "%d %s", slot, uid)
			pages := g.R.Range(2, 9)
			inter := g.R.Chance(40)
			for p := 0; p < pages; p++ {
				g.Op("pg", "%d %s %d", slot, uid, g.R.Range(1, 7))
				if inter && g.R.Chance(50) {
					g.Count("pass:interleaved-mutation")
					emit(subOp(false))
				}
			}
			g.Op("pg", "%d %s %d", slot, uid, 50)
		case 3:
			slot, uid := scanUser()
			limit := int64(g.R.Range(1, 7))
			if g.R.Chance(15) {
				limit = int64(g.R.Range(-1, 0))
				g.Count("page:bad-limit")
			}
			ch := Hex([]byte(c16Chans[g.R.Intn(len(c16Chans))]))
			if g.R.Chance(10) {
				ch = "-"
			}
			g.Op("pc", "%d %s %d %s %d %d", slot, uid, c16Act(g), ch, g.R.Intn(3), limit)
		default:
			// exact replay of nothing new: same op twice in a row
			l := subOp(false)
			emit(l)
			emit(l)
			g.Count("replay:immediate")
		}
	}
}

// ---------------------------------------------------------------- ctor stream ---

func genC16Ctor(g *Gen) {
	g.Op("mode", "ctor")
	nu := g.R.Range(1, 3)
	uoff := g.R.Intn(len(c16Uids))
	type channel struct {
		id     string
		ct     int64
		tail   uint64
		sv     uint64 // subscriber source version / person-directory generation
		person bool
	}
	chans := []*channel{}
	nc := g.R.Range(1, 4)
	coff := g.R.Intn(len(c16Chans))
	for c := 0; c < nc; c++ {
		person := g.R.Chance(30)
		ct := int64(2)
		if person {
			ct = 1
		}
		chans = append(chans, &channel{id: c16Chans[(coff+c)%len(c16Chans)], ct: ct, tail: uint64(g.R.Intn(10)), sv: 0, person: person})
	}
	now := int64(10)
	var history []string
	emit := func(line string, remember bool) {
		f := strings.SplitN(line, " ", 2)
		g.Op(f[0], "%s", f[1])
		if remember {
			history = append(history, line)
		}
	}
	key := func(u int, c *channel) c16GKey {
		uu := c16Uids[(uoff+u)%len(c16Uids)]
		return c16GKey{uu.slot, uu.uid, c.id, c.ct}
	}
	joinRow := func(c *channel, tomb bool) string {
		// pkg/cluster/node_meta.go groupUserChannelMembershipsByHashSlot
		if tomb {
			return fmt.Sprintf("1 0 0 0 1 %d %d %d", now, c.sv, now)
		}
		return fmt.Sprintf("%d %d %d 0 0 0 %d %d", c.tail+1, c.tail, c.tail, c.sv, now)
	}
	nops := g.R.Range(25, 70)
	for n := 0; n < nops; n++ {
		now += int64(g.R.Intn(3))
		c := chans[g.R.Intn(len(chans))]
		c.tail += uint64(g.R.Pick(40, 30, 20, 10)) // monotone committed tail
		u := g.R.Intn(nu)
		k := key(u, c)
		switch g.R.Pick(18, 12, 14, 8, 8, 8, 10, 8, 6, 8) {
		case 0: // join (subscriber add) — one proposal may carry several users
			if c.person {
				continue
			}
			c.sv++
			g.Count("ctor:join")
			if g.R.Chance(40) {
				var subs []string
				for uu := 0; uu < nu; uu++ {
					subs = append(subs, "up "+key(uu, c).s()+" "+joinRow(c, false))
				}
				emit("bt "+strings.Join(subs, " ; "), false)
			} else if g.R.Bool() {
				emit("bt up "+k.s()+" "+joinRow(c, false), true)
			} else {
				emit("up "+k.s()+" "+joinRow(c, false), true)
			}
		case 1: // leave (subscriber remove) = tombstone upsert
			if c.person {
				continue
			}
			c.sv++
			g.Count("ctor:leave")
			emit("bt up "+k.s()+" "+joinRow(c, true), true)
		case 2: // person-directory projection: internal/runtime/persondirectory projectedMembership
			if !c.person {
				continue
			}
			if g.R.Chance(45) {
				c.sv++
			}
			g.Count("ctor:ensure")
			join := c.tail + 1
			if g.R.Chance(30) {
				join = uint64(g.R.Intn(int(c.tail + 1)))
			}
			emit(fmt.Sprintf("bt en %s %d %d %d 0 0 0 %d %d", k.s(), join, c.tail, c.tail, c.sv, now), true)
		case 3: // clear unread / set unread: target <= committed tail
			v := c.tail
			if g.R.Bool() {
				v = uint64(g.R.Intn(int(c.tail + 1)))
			}
			g.Count("ctor:read")
			emit(fmt.Sprintf("bt rd %s %d %d", k.s(), v, now), true)
		case 4: // delete conversation: hide through the committed tail
			g.Count("ctor:hide")
			emit(fmt.Sprintf("bt hd %s %d %d", k.s(), c.tail, now), true)
		case 5:
			g.Count("ctor:activate")
			emit(fmt.Sprintf("bt ac %s %d %d", k.s(), now, now), true)
		case 6: // CMD bind: StartSeq = tail+1, AckSeq = 0  (internal/usecase/cmdsync Bind)
			g.Count("ctor:cmd-bind")
			emit(fmt.Sprintf("bt cup %s %d 0 0 0 %d", k.s(), c.tail+1, now), false)
		case 7: // CMD sync ack: <= tail
			g.Count("ctor:cmd-ack")
			emit(fmt.Sprintf("bt cak %s %d %d", k.s(), uint64(g.R.Intn(int(c.tail+1))), now), true)
		case 8:
			g.Count("ctor:cmd-unbind")
			emit(fmt.Sprintf("bt ctb %s %d %d", k.s(), now, now), true)
		default:
			if len(history) > 0 {
				g.Count("ctor:replay-old-command")
				emit(history[g.R.Intn(len(history))], false)
			}
		}
		if g.R.Chance(8) {
			uu := c16Uids[(uoff+u)%len(c16Uids)]
			g.Op("ps", "%d %s", uu.slot, Hex([]byte(uu.uid)))
			for p := 0; p < 4; p++ {
				g.Op("pg", "%d %s %d", uu.slot, Hex([]byte(uu.uid)), g.R.Range(1, 3))
			}
		}
	}
}

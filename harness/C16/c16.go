//go:build verif

package main

// C16 — per-user conversation cursors are monotonic.
// Runner: the REAL meta store (db.OpenNodeStore(...).Meta()): Shard methods and
// meta.Batch staging + Commit.  Op syntax: see /verif/lean/Driver/C16.lean.

import (
	"context"
	"errors"
	"fmt"
	"os"
	"strconv"
	"strings"

	"github.com/WuKongIM/WuKongIM/pkg/db"
	metadb "github.com/WuKongIM/WuKongIM/pkg/db/meta"
)

func init() {
	Register(&Prop{Gen: genC16, NewRunner: func() Runner { return newC16Runner() }})
}

// ---------------------------------------------------------------- runner ---

type c16Scan struct {
	cur metadb.UserChannelMembershipCursor
}

type c16Runner struct {
	dir   string
	store *db.NodeStore
	meta  *metadb.MetaDB
	scans map[string]*c16Scan
	err   error
}

func newC16Runner() *c16Runner {
	r := &c16Runner{scans: map[string]*c16Scan{}}
	base := os.Getenv("VERIF_SCRATCH")
	if base == "" {
		base = "."
	}
	dir, err := os.MkdirTemp(base, "c16-")
	if err != nil {
		r.err = err
		return r
	}
	r.dir = dir
	st, err := db.OpenNodeStore(db.DefaultNodeStoreOptions(dir))
	if err != nil {
		r.err = err
		return r
	}
	r.store = st
	r.meta = st.Meta()
	return r
}

func (r *c16Runner) Close() {
	if r.store != nil {
		_ = r.store.Close()
	}
	if r.dir != "" {
		_ = os.RemoveAll(r.dir)
	}
}

func c16Err(err error) string {
	switch {
	case err == nil:
		return "ok"
	case errors.Is(err, db.ErrNotFound):
		return "notfound"
	case errors.Is(err, db.ErrInvalidArgument):
		return "invalid"
	}
	return "other:" + strings.ReplaceAll(err.Error(), " ", "_")
}

type c16Key struct {
	slot metadb.HashSlot
	uid  string
	ch   string
	ct   int64
}

func c16ParseKey(f []string) (c16Key, bool) {
	if len(f) < 4 {
		return c16Key{}, false
	}
	s, err := strconv.ParseUint(f[0], 10, 16)
	if err != nil {
		return c16Key{}, false
	}
	uid, ok1 := c16Hex(f[1])
	ch, ok2 := c16Hex(f[2])
	ct, err := strconv.ParseInt(f[3], 10, 64)
	if !ok1 || !ok2 || err != nil {
		return c16Key{}, false
	}
	return c16Key{metadb.HashSlot(s), uid, ch, ct}, true
}

func c16Hex(s string) (out string, ok bool) {
	defer func() {
		if recover() != nil {
			ok = false
		}
	}()
	b := UnHex(s)
	if len(b) > 65535 {
		return "", false
	}
	return string(b), true
}

func pu(s string) (uint64, bool) {
	v, err := strconv.ParseUint(s, 10, 64)
	return v, err == nil && !strings.HasPrefix(s, "+")
}

func pi(s string) (int64, bool) {
	v, err := strconv.ParseInt(s, 10, 64)
	return v, err == nil && !strings.HasPrefix(s, "+")
}

func pb(s string) (bool, bool) {
	if s == "1" {
		return true, true
	}
	if s == "0" {
		return false, true
	}
	return false, false
}

// c16Op is one parsed (sub-)operation.
type c16Op struct {
	kind string
	k    c16Key
	m    metadb.UserChannelMembership
	c    metadb.UserCMDChannelMembership
	v    uint64
	a    int64
	upd  int64
	cmd  bool
}

func c16ParseOp(f []string, inBatch bool) (c16Op, bool) {
	if len(f) < 5 {
		return c16Op{}, false
	}
	k, ok := c16ParseKey(f[1:])
	if !ok {
		return c16Op{}, false
	}
	o := c16Op{kind: f[0], k: k}
	a := f[5:]
	switch f[0] {
	case "up", "en":
		if len(a) != 8 {
			return o, false
		}
		j, o1 := pu(a[0])
		rd, o2 := pu(a[1])
		dl, o3 := pu(a[2])
		ac, o4 := pi(a[3])
		tb, o5 := pb(a[4])
		ta, o6 := pi(a[5])
		sv, o7 := pu(a[6])
		up, o8 := pi(a[7])
		if !(o1 && o2 && o3 && o4 && o5 && o6 && o7 && o8) {
			return o, false
		}
		o.m = metadb.UserChannelMembership{UID: k.uid, ChannelID: k.ch, ChannelType: k.ct, JoinSeq: j, ReadSeq: rd,
			DeletedToSeq: dl, ActivatedAt: ac, Tombstone: tb, TombstoneAt: ta, SourceVersion: sv, UpdatedAt: up}
	case "rd", "hd":
		if len(a) != 2 {
			return o, false
		}
		v, o1 := pu(a[0])
		up, o2 := pi(a[1])
		if !(o1 && o2) {
			return o, false
		}
		o.v, o.upd = v, up
	case "ac":
		if len(a) != 2 {
			return o, false
		}
		ac, o1 := pi(a[0])
		up, o2 := pi(a[1])
		if !(o1 && o2) {
			return o, false
		}
		o.a, o.upd = ac, up
	case "dl":
		if len(a) != 0 {
			return o, false
		}
	case "cup":
		if len(a) != 5 {
			return o, false
		}
		st, o1 := pu(a[0])
		ak, o2 := pu(a[1])
		tb, o3 := pb(a[2])
		ta, o4 := pi(a[3])
		up, o5 := pi(a[4])
		if !(o1 && o2 && o3 && o4 && o5) {
			return o, false
		}
		o.cmd = true
		o.c = metadb.UserCMDChannelMembership{UID: k.uid, CommandChannelID: k.ch, ChannelType: k.ct, StartSeq: st, AckSeq: ak,
			Tombstone: tb, TombstoneAt: ta, UpdatedAt: up}
	case "cak":
		if len(a) != 2 {
			return o, false
		}
		ak, o1 := pu(a[0])
		up, o2 := pi(a[1])
		if !(o1 && o2) {
			return o, false
		}
		o.cmd = true
		o.v, o.upd = ak, up
	case "ctb":
		o.cmd = true
		if inBatch {
			if len(a) != 2 {
				return o, false
			}
			ta, o1 := pi(a[0])
			up, o2 := pi(a[1])
			if !(o1 && o2) {
				return o, false
			}
			o.a, o.upd = ta, up
		} else {
			if len(a) != 1 {
				return o, false
			}
			ta, o1 := pi(a[0])
			if !o1 {
				return o, false
			}
			o.a = ta
		}
	default:
		return o, false
	}
	return o, true
}

func (r *c16Runner) rowStr(o c16Op) string {
	ctx := context.Background()
	sh := r.meta.HashSlot(o.k.slot)
	if o.cmd {
		m, ok, err := sh.GetUserCMDChannelMembership(ctx, o.k.uid, o.k.ch, o.k.ct)
		if err != nil {
			if errors.Is(err, db.ErrInvalidArgument) {
				return "-"
			}
			return "geterr:" + c16Err(err)
		}
		if !ok {
			return "-"
		}
		if m.UID != o.k.uid || m.CommandChannelID != o.k.ch || m.ChannelType != o.k.ct {
			return "wrong-identity"
		}
		return fmt.Sprintf("%d,%d,%s,%d,%d", m.StartSeq, m.AckSeq, b01(m.Tombstone), m.TombstoneAt, m.UpdatedAt)
	}
	m, ok, err := sh.GetUserChannelMembership(ctx, o.k.uid, o.k.ch, o.k.ct)
	if err != nil {
		if errors.Is(err, db.ErrInvalidArgument) {
			return "-"
		}
		return "geterr:" + c16Err(err)
	}
	if !ok {
		return "-"
	}
	if m.UID != o.k.uid || m.ChannelID != o.k.ch || m.ChannelType != o.k.ct {
		return "wrong-identity"
	}
	return c16Row(m)
}

func b01(b bool) string {
	if b {
		return "1"
	}
	return "0"
}

func c16Row(m metadb.UserChannelMembership) string {
	return fmt.Sprintf("%d,%d,%d,%d,%s,%d,%d,%d", m.JoinSeq, m.ReadSeq, m.DeletedToSeq, m.ActivatedAt, b01(m.Tombstone),
		m.TombstoneAt, m.SourceVersion, m.UpdatedAt)
}

func (r *c16Runner) shardOp(o c16Op) error {
	ctx := context.Background()
	sh := r.meta.HashSlot(o.k.slot)
	key := metadb.ChannelKey{ChannelID: o.k.ch, ChannelType: o.k.ct}
	switch o.kind {
	case "up":
		return sh.UpsertUserChannelMembership(ctx, o.m)
	case "en":
		return sh.EnsureUserChannelMembership(ctx, o.m)
	case "rd":
		return sh.AdvanceUserChannelMembershipReadSeq(ctx, o.k.uid, key, o.v, o.upd)
	case "hd":
		return sh.HideUserChannelMembership(ctx, o.k.uid, key, o.v, o.upd)
	case "ac":
		return sh.SetUserChannelMembershipActivatedAt(ctx, o.k.uid, key, o.a, o.upd)
	case "dl":
		return sh.DeleteUserChannelMembership(ctx, o.k.uid, key)
	case "cup":
		return sh.UpsertUserCMDChannelMembership(ctx, o.c)
	case "cak":
		return sh.AdvanceUserCMDChannelMembershipAckSeq(ctx, o.k.uid, o.k.ch, o.k.ct, o.v, o.upd)
	case "ctb":
		return sh.TombstoneUserCMDChannelMembership(ctx, o.k.uid, o.k.ch, o.k.ct, o.a)
	}
	return errors.New("unknown op")
}

func (r *c16Runner) stageOp(b *metadb.Batch, o c16Op) error {
	key := metadb.ChannelKey{ChannelID: o.k.ch, ChannelType: o.k.ct}
	switch o.kind {
	case "up":
		return b.UpsertUserChannelMembership(o.k.slot, o.m)
	case "en":
		return b.EnsureUserChannelMembership(o.k.slot, o.m)
	case "rd":
		return b.AdvanceUserChannelMembershipReadSeq(o.k.slot, o.k.uid, key, o.v, o.upd)
	case "hd":
		return b.HideUserChannelMembership(o.k.slot, o.k.uid, key, o.v, o.upd)
	case "ac":
		return b.ActivateUserChannelMembership(o.k.slot, o.k.uid, key, o.a, o.upd)
	case "dl":
		return b.DeleteUserChannelMembership(o.k.slot, o.k.uid, key)
	case "cup":
		return b.UpsertUserCMDChannelMembership(o.k.slot, o.c)
	case "cak":
		return b.AdvanceUserCMDChannelMembershipAckSeq(o.k.slot, metadb.UserCMDChannelMembership{UID: o.k.uid, CommandChannelID: o.k.ch,
			ChannelType: o.k.ct, AckSeq: o.v, UpdatedAt: o.upd})
	case "ctb":
		return b.TombstoneUserCMDChannelMembership(o.k.slot, metadb.UserCMDChannelMembership{UID: o.k.uid, CommandChannelID: o.k.ch,
			ChannelType: o.k.ct, Tombstone: true, TombstoneAt: o.a, UpdatedAt: o.upd})
	}
	return errors.New("unknown op")
}

func (r *c16Runner) page(slot metadb.HashSlot, uid string, cur metadb.UserChannelMembershipCursor, limit int64) (string, metadb.UserChannelMembershipCursor, bool) {
	rows, next, done, err := r.meta.HashSlot(slot).ListUserChannelMembershipPage(context.Background(), uid, cur, int(limit))
	if err != nil {
		return c16Err(err), cur, false
	}
	var sb strings.Builder
	fmt.Fprintf(&sb, "ok %s %d:%s:%d", b01(done), next.ActivatedAt, Hex([]byte(next.ChannelID)), next.ChannelType)
	for _, m := range rows {
		if m.UID != uid {
			sb.WriteString(" wrong-uid")
			continue
		}
		fmt.Fprintf(&sb, " %s:%d:%s", Hex([]byte(m.ChannelID)), m.ChannelType, c16Row(m))
	}
	return sb.String(), next, true
}

func (r *c16Runner) Step(op string) string {
	if r.err != nil {
		return "other:open:" + r.err.Error()
	}
	f := strings.Fields(op)
	if len(f) == 0 {
		return "bad-op"
	}
	switch f[0] {
	case "mode":
		if len(f) == 2 && (f[1] == "ctor" || f[1] == "raw") {
			return "ok"
		}
		return "bad-op"
	case "ps", "pg", "pc":
		if len(f) < 3 {
			return "bad-op"
		}
		s, err := strconv.ParseUint(f[1], 10, 16)
		uid, ok := c16Hex(f[2])
		if err != nil || !ok {
			return "bad-op"
		}
		slot := metadb.HashSlot(s)
		sk := f[1] + "/" + f[2]
		switch f[0] {
		case "ps":
			if len(f) != 3 {
				return "bad-op"
			}
			r.scans[sk] = &c16Scan{}
			return "ok"
		case "pg":
			if len(f) != 4 {
				return "bad-op"
			}
			limit, ok := pi(f[3])
			if !ok {
				return "bad-op"
			}
			sc := r.scans[sk]
			if sc == nil {
				sc = &c16Scan{}
				r.scans[sk] = sc
			}
			out, next, good := r.page(slot, uid, sc.cur, limit)
			if good {
				sc.cur = next
			}
			return out
		default:
			if len(f) != 7 {
				return "bad-op"
			}
			act, o1 := pi(f[3])
			ch, o2 := c16Hex(f[4])
			ct, o3 := pi(f[5])
			limit, o4 := pi(f[6])
			if !(o1 && o2 && o3 && o4) {
				return "bad-op"
			}
			out, _, _ := r.page(slot, uid, metadb.UserChannelMembershipCursor{ActivatedAt: act, ChannelID: ch, ChannelType: ct}, limit)
			return out
		}
	case "bt":
		var subs [][]string
		cur := []string{}
		for _, x := range f[1:] {
			if x == ";" {
				subs = append(subs, cur)
				cur = []string{}
			} else {
				cur = append(cur, x)
			}
		}
		subs = append(subs, cur)
		ops := make([]c16Op, 0, len(subs))
		for _, s := range subs {
			o, ok := c16ParseOp(s, true)
			if !ok {
				return "bad-op"
			}
			ops = append(ops, o)
		}
		b := r.meta.NewBatch()
		var err error
		for _, o := range ops {
			if err = r.stageOp(b, o); err != nil {
				break
			}
		}
		if err == nil {
			err = b.Commit(context.Background())
		}
		_ = b.Close()
		out := c16Err(err)
		for _, o := range ops {
			out += " " + r.rowStr(o)
		}
		return out
	}
	o, ok := c16ParseOp(f, false)
	if !ok {
		return "bad-op"
	}
	err := r.shardOp(o)
	return c16Err(err) + " " + r.rowStr(o)
}

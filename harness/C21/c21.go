//go:build verif

package main

import (
	"fmt"
	"hash/crc32"
	"strconv"
	"strings"

	"github.com/WuKongIM/WuKongIM/internal/bench/workload"
	"github.com/WuKongIM/WuKongIM/pkg/cluster"
	"github.com/WuKongIM/WuKongIM/pkg/cluster/routing"
	"github.com/WuKongIM/WuKongIM/pkg/hashslot"
)

func init() {
	Register(&Prop{Gen: genC21, NewRunner: func() Runner { return c21Runner{} }})
}

var c21Counts = []int{1, 2, 3, 255, 256, 257, 1024, 4096, 65535, 0}

func genC21(g *Gen) {
	g.Case()
	// exhaustive short keys first (all 0- and 1-byte strings, a slice of 2-byte ones)
	emit := func(key []byte, count int) {
		switch {
		case len(key) == 0:
			g.Count("key:empty")
		case len(key) <= 2:
			g.Count("key:len<=2")
		case len(key) <= 16:
			g.Count("key:len<=16")
		default:
			g.Count("key:long")
		}
		if count == 0 {
			g.Count("count:zero")
		}
		g.Op("hs", "%s %d", Hex(key), count)
	}
	for _, c := range c21Counts {
		emit(nil, c)
	}
	for b := 0; b < 256; b++ {
		emit([]byte{byte(b)}, c21Counts[b%len(c21Counts)])
	}
	for i := 0; i < g.N; i++ {
		var key []byte
		switch g.R.Pick(2, 4, 3, 1) {
		case 0:
			key = g.R.Bytes(2)
		case 1:
			key = g.R.Bytes(g.R.Range(3, 16))
		case 2: // ascii-ish uid / channel id
			n := g.R.Range(1, 24)
			key = make([]byte, n)
			for j := range key {
				key[j] = "abcdefghijklmnopqrstuvwxyz0123456789_@-"[g.R.Intn(39)]
			}
		default:
			key = g.R.Bytes(g.R.Range(17, 300))
		}
		var count int
		if g.R.Chance(50) {
			count = c21Counts[g.R.Intn(len(c21Counts))]
		} else {
			count = g.R.Range(1, 65535)
		}
		emit(key, count)
	}
}

type c21Runner struct{}

func (c21Runner) Close() {}

func (c21Runner) Step(op string) string {
	f := strings.Fields(op)
	if len(f) != 3 || f[0] != "hs" {
		return "bad-op"
	}
	key := string(UnHex(f[1]))
	c, err := strconv.Atoi(f[2])
	if err != nil || c < 0 || c > 65535 {
		return "bad-op"
	}
	count := uint16(c)
	return fmt.Sprintf("%d %d %d %d %d %d",
		routing.HashSlotForKey(key, count),
		hashslot.HashSlotForKey(key, count),
		workload.VerifPhysicalHashSlotForKey(key, count),
		cluster.VerifNodeWithHashSlotCount(count).HashSlotForKey(key),
		routing.VerifChecksumIEEEString(key),
		crc32.ChecksumIEEE([]byte(key)))
}

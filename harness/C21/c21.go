//go:build verif

package main

import (
	"fmt"
	"hash/crc32"
	"strconv"
	"strings"

	"github.com/WuKongIM/WuKongIM/internal/bench/chatlifecycle"
	"github.com/WuKongIM/WuKongIM/internal/bench/workload"
	slotproxy "github.com/WuKongIM/WuKongIM/pkg/slot/proxy"
	"github.com/WuKongIM/WuKongIM/pkg/cluster"
	"github.com/WuKongIM/WuKongIM/pkg/cluster/routing"
	"github.com/WuKongIM/WuKongIM/pkg/hashslot"
)

func init() {
	Register(&Prop{Gen: genC21, NewRunner: func() Runner { return c21Runner{} }})
}

var c21Counts = []int{1, 2, 3, 255, 256, 257, 1024, 4096, 65535, 0}

func genC21(g *Gen) {
	g.Case()
	// exhaustive short keys first (all 0- and 1-byte strings, a slice of 2-byte ones)
	emit := func(key []byte, count int) {
		switch {
		case len(key) == 0:
			g.Count("key:empty")
		case len(key) <= 2:
			g.Count("key:len<=2")
		case len(key) <= 16:
			g.Count("key:len<=16")
		default:
			g.Count("key:long")
		}
		if count == 0 {
			g.Count("count:zero")
		}
		g.Op("hs", "%s %d", Hex(key), count)
	}
	for _, c := range c21Counts {
		emit(nil, c)
	}
	for b := 0; b < 256; b++ {
		emit([]byte{byte(b)}, c21Counts[b%len(c21Counts)])
	}
	// routing batches: every key of a batch must be hashed on its own (repeats, leaderless slots)
	for i := 0; i < g.N/20+40; i++ {
		count := c21Counts[g.R.Intn(9)]
		if g.R.Chance(50) {
			count = g.R.Range(1, 64)
		}
		dead := g.R.Intn(16)
		nk := g.R.Range(1, 6)
		var ks []string
		var prev []byte
		for j := 0; j < nk; j++ {
			var k []byte
			if j > 0 && g.R.Chance(45) {
				k = prev
				g.Count("rt:adjacent-repeat")
			} else {
				k = g.R.Bytes(g.R.Range(1, 6))
			}
			prev = k
			ks = append(ks, Hex(k))
		}
		if dead != 0 {
			g.Count("rt:some-slot-leaderless")
		}
		g.Op("rt", "%d %d %s", count, dead, strings.Join(ks, " "))
	}
	for i := 0; i < g.N; i++ {
		var key []byte
		switch g.R.Pick(2, 4, 3, 1) {
		case 0:
			key = g.R.Bytes(2)
		case 1:
			key = g.R.Bytes(g.R.Range(3, 16))
		case 2: // ascii-ish uid / channel id
			n := g.R.Range(1, 24)
			key = make([]byte, n)
			for j := range key {
				key[j] = "abcdefghijklmnopqrstuvwxyz0123456789_@-"[g.R.Intn(39)]
			}
		default:
			key = g.R.Bytes(g.R.Range(17, 300))
		}
		var count int
		if g.R.Chance(50) {
			count = c21Counts[g.R.Intn(len(c21Counts))]
		} else {
			count = g.R.Range(1, 65535)
		}
		emit(key, count)
	}
}

type c21Runner struct{}

func (c21Runner) Close() {}

func (c21Runner) Step(op string) string {
	f := strings.Fields(op)
	if len(f) >= 4 && f[0] == "rt" {
		return c21Route(f[1:])
	}
	if len(f) != 3 || f[0] != "hs" {
		return "bad-op"
	}
	key := string(UnHex(f[1]))
	c, err := strconv.Atoi(f[2])
	if err != nil || c < 0 || c > 65535 {
		return "bad-op"
	}
	count := uint16(c)
	return fmt.Sprintf("%d %d %d %d %d %d %d %d",
		routing.HashSlotForKey(key, count),
		hashslot.HashSlotForKey(key, count),
		workload.VerifPhysicalHashSlotForKey(key, count),
		cluster.VerifNodeWithHashSlotCount(count).HashSlotForKey(key),
		routing.VerifChecksumIEEEString(key),
		crc32.ChecksumIEEE([]byte(key)),
		chatlifecycle.VerifLifecycleHashSlotForKey(key, count),
		slotproxy.VerifHashSlotForKey(cluster.VerifNodeWithHashSlotCount(count), key))
}

// c21Route: `rt <count> <deadmask> <hexkey>...` — 4 logical slots, hash slot h belongs to slot h%4+1,
// slot s is leaderless iff bit s-1 of deadmask is set. Output: four ';'-separated lists (one entry per
// key: the hash slot the call routed the key to, or `e` for a key-specific error) for
// Table.RouteAuthoritiesPartial, Router.RouteAuthoritiesPartial, Router.RouteKeysPartial, and
// Table.RouteAuthorities (all-or-nothing: `E` if the batch failed).
func c21Route(f []string) string {
	c, err1 := strconv.Atoi(f[0])
	dead, err2 := strconv.Atoi(f[1])
	if err1 != nil || err2 != nil || c < 1 || c > 65535 || dead < 0 || dead > 15 {
		return "bad-op"
	}
	t := &routing.Table{Revision: 1, HashSlotCount: uint16(c), HashToSlot: make([]uint32, c),
		SlotLeaders: map[uint32]uint64{}, SlotLeaderTerms: map[uint32]uint64{}, SlotConfigEpochs: map[uint32]uint64{},
		SlotPreferredLeaders: map[uint32]uint64{}, SlotPeers: map[uint32][]uint64{}}
	for h := 0; h < c; h++ {
		t.HashToSlot[h] = uint32(h%4 + 1)
	}
	for s := uint32(1); s <= 4; s++ {
		if dead&(1<<(s-1)) == 0 {
			t.SlotLeaders[s] = uint64(s)
		}
	}
	keys := make([]string, 0, len(f)-2)
	for _, h := range f[2:] {
		keys = append(keys, string(UnHex(h)))
	}
	var out []string
	tp, _ := t.RouteAuthoritiesPartial(keys)
	var a []string
	for _, r := range tp {
		if r.Err != nil {
			a = append(a, "e")
		} else {
			a = append(a, strconv.Itoa(int(r.Authority.HashSlot)))
		}
	}
	out = append(out, strings.Join(a, ","))
	r := routing.VerifRouterWithTable(t)
	rp, _ := r.RouteAuthoritiesPartial(keys)
	a = nil
	for _, x := range rp {
		if x.Err != nil {
			a = append(a, "e")
		} else {
			a = append(a, strconv.Itoa(int(x.Authority.HashSlot)))
		}
	}
	out = append(out, strings.Join(a, ","))
	kp, _ := r.RouteKeysPartial(keys)
	a = nil
	for _, x := range kp {
		if x.Err != nil {
			a = append(a, "e")
		} else {
			a = append(a, strconv.Itoa(int(x.Route.HashSlot)))
		}
	}
	out = append(out, strings.Join(a, ","))
	all, err := t.RouteAuthorities(keys)
	if err != nil {
		out = append(out, "E")
	} else {
		a = nil
		for _, x := range all {
			a = append(a, strconv.Itoa(int(x.HashSlot)))
		}
		out = append(out, strings.Join(a, ","))
	}
	return strings.Join(out, ";")
}

//go:build verif

package main

// C19 — Controller state file is replaced atomically.
//
// ops (one store per case, in a fresh scratch directory):
//
//	save <spec>            in-process Save                          -> ok | err:invalid | err:other
//	savefail <spec>        Save whose afterTempWrite hook fails     -> err:hook | ok | err:invalid
//	ksave <spec> <point>   Save in a CHILD PROCESS that is killed on entering the first system
//	                       call of kind <point> (seccomp: creat write fsync close rename opendir),
//	                       or kills itself in the afterTempWrite hook (hook), or runs to the
//	                       end (none)                               -> killed | exited | err
//	tsave <spec> <us>      child killed by SIGKILL <us> microseconds after it started Save
//	                                                                -> killed | exited (not compared)
//	load                   Store.Load                               -> ok <spec> exact=<0|1> | err:<kind>
//	ls                     files in the directory besides the state file, classified
//	                                                                -> tmp=[empty|partial|full:<spec>,...]
//	corrupt <kind> <a> <b> damage the bytes of the state file in place -> ok | err:nofile
//	sweep <mode> <spec>    every single-bit flip (bits) / every single-byte value change (all) /
//	                       every digit substitution (digits) of Encode(spec), each Loaded through
//	                       a Store                                  -> n=.. rej=.. same=.. diff=.. first=..
//	strace <spec>          Save in a child under `strace -f`; the observed call sequence
//	                                                                -> creat write fsync ... | nostrace
//	crashmodel <old|-> <new>  no implementation step: the driver runs the power-loss enumeration
//	                       on the call list regenerated from the source -> -

import (
	"bytes"
	"context"
	"errors"
	"fmt"
	"os"
	"os/exec"
	"path/filepath"
	"regexp"
	"runtime"
	"sort"
	"strconv"
	"strings"
	"syscall"
	"time"
	"unsafe"

	"github.com/WuKongIM/WuKongIM/pkg/controller/state"
	"github.com/WuKongIM/WuKongIM/pkg/controller/statefile"
)

const c19Base = "cluster-state.json"

func init() {
	if p := os.Getenv("VERIF_C19_CHILD"); p != "" {
		c19Child(p)
	}
	Register(&Prop{Gen: genC19, NewRunner: func() Runner { return newC19Runner() }})
}

// ---------------------------------------------------------------- child ---

type c19SockFilter struct {
	Code uint16
	Jt   uint8
	Jf   uint8
	K    uint32
}

type c19SockFprog struct {
	Len    uint16
	_      [6]byte
	Filter *c19SockFilter
}

const (
	c19RetKill  = 0x80000000 // SECCOMP_RET_KILL_PROCESS
	c19RetAllow = 0x7fff0000
)

// c19Seccomp kills the whole process on entering one of the system calls nrs.
// cond: 0 = always, 1 = only if (args[2] & val) != 0, 2 = only if (args[2] & val) == 0,
// 3 = only if args[2] == val (low 32 bits).
func c19Seccomp(nrs []uint32, cond int, val uint32) error {
	var f []c19SockFilter
	f = append(f, c19SockFilter{0x20, 0, 0, 0}) // ld [0] (nr)
	l := len(nrs)
	for k, nr := range nrs {
		f = append(f, c19SockFilter{0x15, uint8(l - k), 0, nr}) // jeq nr -> CHECK
	}
	f = append(f, c19SockFilter{0x06, 0, 0, c19RetAllow})
	switch cond {
	case 0:
		f = append(f, c19SockFilter{0x06, 0, 0, c19RetKill})
	default:
		f = append(f, c19SockFilter{0x20, 0, 0, 32}) // ld [32] = low word of args[2]
		switch cond {
		case 1:
			f = append(f, c19SockFilter{0x45, 0, 1, val}) // jset: set -> kill
		case 2:
			f = append(f, c19SockFilter{0x45, 1, 0, val}) // jset: set -> allow
		case 3:
			f = append(f, c19SockFilter{0x15, 0, 1, val}) // jeq
		}
		f = append(f, c19SockFilter{0x06, 0, 0, c19RetKill})
		f = append(f, c19SockFilter{0x06, 0, 0, c19RetAllow})
	}
	p := c19SockFprog{Len: uint16(len(f)), Filter: &f[0]}
	runtime.LockOSThread()
	if _, _, e := syscall.RawSyscall6(syscall.SYS_PRCTL, 38 /*PR_SET_NO_NEW_PRIVS*/, 1, 0, 0, 0, 0); e != 0 {
		return e
	}
	// seccomp(SECCOMP_SET_MODE_FILTER, SECCOMP_FILTER_FLAG_TSYNC, &prog)
	if _, _, e := syscall.RawSyscall(317, 1, 1, uintptr(unsafe.Pointer(&p))); e != 0 {
		return e
	}
	runtime.KeepAlive(f)
	return nil
}

// c19Child: VERIF_C19_CHILD=<point> VERIF_C19_PATH=<state file> VERIF_C19_SPEC=<spec>
// exit 0 = Save returned nil, 2 = Save returned an error, 3 = setup problem.
func c19Child(point string) {
	path := os.Getenv("VERIF_C19_PATH")
	spec, ok := c19ParseSpec(os.Getenv("VERIF_C19_SPEC"))
	if !ok || path == "" {
		os.Exit(3)
	}
	st := c19Build(spec)
	// warm-up: one complete Save into a private directory so that every lazy
	// initialisation of the runtime / standard library has happened before the
	// filter is installed.
	if wd, err := os.MkdirTemp(filepath.Dir(path), "warm-"); err == nil {
		_ = statefile.New(filepath.Join(wd, c19Base)).Save(context.Background(), c19Build(c19Spec{rev: 1, idx: 1, nodes: 3, slots: 1, suffix: "w"}))
		_ = os.RemoveAll(wd)
	}
	data, encErr := state.Encode(st)
	var opts []statefile.Option
	if point == "hook" {
		opts = append(opts, statefile.WithAfterTempWriteHook(func() error {
			_ = syscall.Kill(syscall.Getpid(), syscall.SIGKILL)
			select {}
		}))
	}
	store := statefile.New(path, opts...)
	if os.Getenv("VERIF_C19_READY") != "" {
		// timer kill: tell the parent that Save starts now
		_, _ = os.Stdout.Write([]byte("R"))
	}
	var err error
	switch point {
	case "creat":
		err = c19Seccomp([]uint32{syscall.SYS_OPENAT, syscall.SYS_OPEN, syscall.SYS_CREAT}, 1, syscall.O_CREAT)
	case "opendir":
		err = c19Seccomp([]uint32{syscall.SYS_OPENAT, syscall.SYS_OPEN}, 2, syscall.O_CREAT)
	case "write":
		if encErr == nil {
			err = c19Seccomp([]uint32{syscall.SYS_WRITE, syscall.SYS_PWRITE64}, 3, uint32(len(data)))
		}
	case "fsync":
		err = c19Seccomp([]uint32{syscall.SYS_FSYNC, syscall.SYS_FDATASYNC}, 0, 0)
	case "close":
		err = c19Seccomp([]uint32{syscall.SYS_CLOSE}, 0, 0)
	case "rename":
		err = c19Seccomp([]uint32{syscall.SYS_RENAME, syscall.SYS_RENAMEAT, 316 /*renameat2*/}, 0, 0)
	case "hook", "none":
	default:
		os.Exit(3)
	}
	if err != nil {
		os.Exit(3)
	}
	if err := store.Save(context.Background(), st); err != nil {
		os.Exit(2)
	}
	os.Exit(0)
}

// --------------------------------------------------------------- runner ---

type c19Runner struct {
	dir   string
	path  string
	self  string
	sweep int
}

func newC19Runner() *c19Runner {
	root := os.Getenv("VERIF_SCRATCH")
	if root == "" {
		root, _ = os.Getwd()
	}
	dir, err := os.MkdirTemp(root, "c19-")
	if err != nil {
		panic(err)
	}
	self, err := os.Executable()
	if err != nil {
		panic(err)
	}
	return &c19Runner{dir: dir, path: filepath.Join(dir, c19Base), self: self}
}

func (r *c19Runner) Close() { _ = os.RemoveAll(r.dir) }

var errC19Hook = errors.New("verif: hook failure")

func c19ErrKind(err error) string {
	switch {
	case err == nil:
		return "ok"
	case errors.Is(err, errC19Hook):
		return "err:hook"
	case errors.Is(err, os.ErrNotExist):
		return "err:notfound"
	case errors.Is(err, state.ErrChecksumMismatch):
		return "err:checksum"
	case errors.Is(err, state.ErrUnsupportedSchema):
		return "err:schema"
	case errors.Is(err, state.ErrInvalidState):
		return "err:invalid"
	}
	return "err:syntax"
}

func c19LoadLine(path string) string {
	st, err := statefile.New(path).Load(context.Background())
	if err != nil {
		return c19ErrKind(err)
	}
	spec, exact := c19SpecOf(st)
	return fmt.Sprintf("ok %s exact=%d", spec, map[bool]int{false: 0, true: 1}[exact])
}

func (r *c19Runner) child(spec, point string, ready bool) *exec.Cmd {
	c := exec.Command(r.self)
	c.Env = append(os.Environ(), "VERIF_C19_CHILD="+point, "VERIF_C19_PATH="+r.path, "VERIF_C19_SPEC="+spec, "GOMAXPROCS=2")
	if ready {
		c.Env = append(c.Env, "VERIF_C19_READY=1")
	}
	return c
}

func c19ExitLine(err error) string {
	if err == nil {
		return "exited"
	}
	var ee *exec.ExitError
	if errors.As(err, &ee) {
		if ws, ok := ee.Sys().(syscall.WaitStatus); ok && ws.Signaled() {
			return "killed"
		}
		if ee.ExitCode() == 2 {
			return "err"
		}
		return fmt.Sprintf("child-exit-%d", ee.ExitCode())
	}
	return "child-failed"
}

func (r *c19Runner) Step(op string) string {
	f := strings.Fields(op)
	if len(f) == 0 {
		return "bad-op"
	}
	ctx := context.Background()
	switch f[0] {
	case "save", "savefail":
		if len(f) != 2 {
			return "bad-op"
		}
		spec, ok := c19ParseSpec(f[1])
		if !ok {
			return "bad-op"
		}
		var opts []statefile.Option
		if f[0] == "savefail" {
			opts = append(opts, statefile.WithAfterTempWriteHook(func() error { return errC19Hook }))
		}
		err := statefile.New(r.path, opts...).Save(ctx, c19Build(spec))
		k := c19ErrKind(err)
		if k == "err:syntax" || k == "err:notfound" {
			k = "err:other"
		}
		return k
	case "ksave":
		if len(f) != 3 {
			return "bad-op"
		}
		if _, ok := c19ParseSpec(f[1]); !ok {
			return "bad-op"
		}
		switch f[2] {
		case "creat", "write", "fsync", "close", "rename", "opendir", "hook", "none":
		default:
			return "bad-op"
		}
		return c19ExitLine(r.child(f[1], f[2], false).Run())
	case "tsave":
		if len(f) != 3 {
			return "bad-op"
		}
		us, err := strconv.Atoi(f[2])
		if _, ok := c19ParseSpec(f[1]); !ok || err != nil || us < 0 || us > 1000000 {
			return "bad-op"
		}
		c := r.child(f[1], "none", true)
		out, err := c.StdoutPipe()
		if err != nil {
			return "child-failed"
		}
		if err := c.Start(); err != nil {
			return "child-failed"
		}
		b := make([]byte, 1)
		_, _ = out.Read(b)
		time.Sleep(time.Duration(us) * time.Microsecond)
		_ = c.Process.Kill()
		return c19ExitLine(c.Wait())
	case "load":
		if len(f) != 1 {
			return "bad-op"
		}
		return c19LoadLine(r.path)
	case "ls":
		if len(f) != 1 {
			return "bad-op"
		}
		ents, err := os.ReadDir(r.dir)
		if err != nil {
			return "err:other"
		}
		var cls []string
		for _, e := range ents {
			if e.Name() == c19Base || e.IsDir() || strings.HasPrefix(e.Name(), "side-") {
				continue
			}
			b, err := os.ReadFile(filepath.Join(r.dir, e.Name()))
			switch {
			case err != nil:
				cls = append(cls, "unreadable")
			case len(b) == 0:
				cls = append(cls, "empty")
			default:
				if st, err := state.Decode(b); err == nil {
					spec, exact := c19SpecOf(st)
					if exact {
						cls = append(cls, "full:"+spec)
						continue
					}
				}
				cls = append(cls, "partial")
			}
		}
		sort.Strings(cls)
		return "tmp=[" + strings.Join(cls, ",") + "]"
	case "corrupt":
		if len(f) != 4 {
			return "bad-op"
		}
		a, e1 := strconv.Atoi(f[2])
		b, e2 := strconv.Atoi(f[3])
		if e1 != nil || e2 != nil || a < 0 || b < 0 {
			return "bad-op"
		}
		data, err := os.ReadFile(r.path)
		if err != nil {
			return "err:nofile"
		}
		out, ok := c19Corrupt(data, f[1], a, b)
		if !ok {
			return "bad-op"
		}
		if err := os.WriteFile(r.path, out, 0o600); err != nil {
			return "err:other"
		}
		return "ok"
	case "sweep":
		if len(f) != 3 {
			return "bad-op"
		}
		spec, ok := c19ParseSpec(f[2])
		if !ok || spec.bad {
			return "bad-op"
		}
		return r.sweepOp(f[1], spec)
	case "strace":
		if len(f) != 2 {
			return "bad-op"
		}
		if s, ok := c19ParseSpec(f[1]); !ok || s.bad {
			return "bad-op"
		}
		return r.straceOp(f[1])
	case "crashmodel":
		if len(f) != 3 {
			return "bad-op"
		}
		return "-"
	}
	return "bad-op"
}

var c19SumRe = regexp.MustCompile(`"checksum":"([^"]*)"`)

// c19Corrupt damages data.  Every kind changes at least one byte of a
// non-empty file (the generator only emits such parameters).
func c19Corrupt(data []byte, kind string, a, b int) ([]byte, bool) {
	n := len(data)
	out := append([]byte(nil), data...)
	if n == 0 {
		return []byte{'x'}, true
	}
	switch kind {
	case "flip": // byte a%n ^= mask b (1..255)
		if b < 1 || b > 255 {
			return nil, false
		}
		out[a%n] ^= byte(b)
	case "trunc": // keep n*a/1000 bytes, a in 0..999
		if a > 999 {
			return nil, false
		}
		out = out[:n*a/1000]
	case "zero": // zero b (>=1) bytes from a%n
		if b < 1 {
			return nil, false
		}
		for i := a % n; i < n && i < a%n+b; i++ {
			out[i] = 0
		}
	case "del": // delete b (>=1) bytes from a%n
		if b < 1 {
			return nil, false
		}
		i := a % n
		j := i + b
		if j > n {
			j = n
		}
		out = append(out[:i:i], data[j:]...)
	case "dup": // insert a copy of b (>=1) bytes from a%n in front of them
		if b < 1 {
			return nil, false
		}
		i := a % n
		j := i + b
		if j > n {
			j = n
		}
		out = append(append(append([]byte(nil), data[:j]...), data[i:j]...), data[j:]...)
	case "digit": // the (a mod #digits)-th decimal digit += b (1..9) mod 10
		if b < 1 || b > 9 {
			return nil, false
		}
		var pos []int
		for i, c := range data {
			if c >= '0' && c <= '9' {
				pos = append(pos, i)
			}
		}
		if len(pos) == 0 {
			out[0] ^= 1
			break
		}
		p := pos[a%len(pos)]
		out[p] = '0' + (data[p]-'0'+byte(b))%10
	case "letter": // the (a mod #letters)-th lower-case letter rotated by b (1..25)
		if b < 1 || b > 25 {
			return nil, false
		}
		var pos []int
		for i, c := range data {
			if c >= 'a' && c <= 'z' {
				pos = append(pos, i)
			}
		}
		if len(pos) == 0 {
			out[0] ^= 1
			break
		}
		p := pos[a%len(pos)]
		out[p] = 'a' + (data[p]-'a'+byte(b))%26
	case "sum": // the checksum member: 0 = "", 1 = upper-case hex, 2 = all-zero value, 3 = member removed, 4 = one hex digit changed
		m := c19SumRe.FindSubmatchIndex(data)
		if m == nil {
			out[0] ^= 1
			break
		}
		val := string(data[m[2]:m[3]])
		var repl string
		switch a % 5 {
		case 0:
			repl = `"checksum":""`
		case 1:
			repl = `"checksum":"` + strings.ToUpper(val) + `"`
			if strings.ToUpper(val) == val {
				repl = `"checksum":"x` + val + `"`
			}
		case 2:
			repl = `"checksum":"crc32c:00000000"`
			if val == "crc32c:00000000" {
				repl = `"checksum":"crc32c:00000001"`
			}
		case 3:
			// remove the member and one adjacent comma
			s, e := m[0], m[1]
			if s > 0 && data[s-1] == ',' {
				s--
			} else if e < n && data[e] == ',' {
				e++
			}
			return append(append([]byte(nil), data[:s]...), data[e:]...), true
		case 4:
			if len(val) == 0 {
				repl = `"checksum":"0"`
			} else {
				v := []byte(val)
				p := len(v) - 1 - b%8
				if p < 0 {
					p = 0
				}
				if v[p] == '0' {
					v[p] = '1'
				} else {
					v[p] = '0'
				}
				repl = `"checksum":"` + string(v) + `"`
			}
		}
		out = append(append(append([]byte(nil), data[:m[0]]...), repl...), data[m[1]:]...)
	default:
		return nil, false
	}
	return out, true
}

// sweepOp: exhaustive single-position damage of Encode(spec); every variant goes
// through a real Store.Load.  "same" = accepted and exactly the saved state.
func (r *c19Runner) sweepOp(mode string, spec c19Spec) string {
	data, err := state.Encode(c19Build(spec))
	if err != nil {
		return "err:invalid"
	}
	want := spec.String()
	r.sweep++
	side := filepath.Join(r.dir, fmt.Sprintf("side-%d", r.sweep))
	if err := os.MkdirAll(side, 0o700); err != nil {
		return "err:other"
	}
	defer os.RemoveAll(side)
	p := filepath.Join(side, c19Base)
	store := statefile.New(p)
	n, rej, same, diff := 0, 0, 0, 0
	first := "-"
	if err := os.WriteFile(p, data, 0o600); err != nil {
		panic(err)
	}
	fh, err := os.OpenFile(p, os.O_RDWR, 0)
	if err != nil {
		panic(err)
	}
	defer fh.Close()
	try := func(pos int, v byte) {
		old := data[pos]
		if old == v {
			return
		}
		n++
		if _, err := fh.WriteAt([]byte{v}, int64(pos)); err != nil {
			panic(err)
		}
		st, err := store.Load(context.Background())
		if _, err := fh.WriteAt([]byte{old}, int64(pos)); err != nil {
			panic(err)
		}
		if err != nil {
			rej++
			return
		}
		got, exact := c19SpecOf(st)
		if exact && got == want {
			same++
			return
		}
		diff++
		if first == "-" {
			first = fmt.Sprintf("%d:%d", pos, v)
		}
	}
	switch mode {
	case "bits":
		for pos := range data {
			for b := 0; b < 8; b++ {
				try(pos, data[pos]^(1<<uint(b)))
			}
		}
	case "all":
		for pos := range data {
			for v := 0; v < 256; v++ {
				try(pos, byte(v))
			}
		}
	case "digits":
		for pos := range data {
			if data[pos] >= '0' && data[pos] <= '9' {
				for v := byte('0'); v <= '9'; v++ {
					try(pos, v)
				}
			}
		}
	case "trunc":
		for l := 0; l < len(data); l++ {
			n++
			if err := os.WriteFile(p, data[:l], 0o600); err != nil {
				panic(err)
			}
			st, err := store.Load(context.Background())
			if err != nil {
				rej++
				continue
			}
			if got, exact := c19SpecOf(st); exact && got == want {
				same++
			} else {
				diff++
				if first == "-" {
					first = fmt.Sprintf("len%d", l)
				}
			}
		}
	default:
		return "bad-op"
	}
	return fmt.Sprintf("n=%d rej=%d same=%d diff=%d first=%s", n, rej, same, diff, first)
}

// straceOp runs one Save of spec in a child under strace (into a side directory
// that already holds a state file) and returns the observed file-system calls
// that concern the state file's directory, in order.
func (r *c19Runner) straceOp(spec string) string {
	bin, err := exec.LookPath("strace")
	if err != nil {
		return "nostrace"
	}
	r.sweep++
	side := filepath.Join(r.dir, fmt.Sprintf("side-%d", r.sweep))
	if err := os.MkdirAll(side, 0o700); err != nil {
		return "nostrace"
	}
	defer os.RemoveAll(side)
	p := filepath.Join(side, c19Base)
	if err := statefile.New(p).Save(context.Background(), c19Build(c19Spec{rev: 1, idx: 1, nodes: 3, slots: 1, suffix: "old"})); err != nil {
		return "nostrace"
	}
	trace := filepath.Join(side, "trace.txt")
	c := exec.Command(bin, "-f", "-qq", "-s", "0", "-o", trace, "-e",
		"trace=open,openat,creat,write,pwrite64,fsync,fdatasync,close,rename,renameat,renameat2,unlink,unlinkat,ftruncate,truncate", r.self)
	c.Env = append(os.Environ(), "VERIF_C19_CHILD=none", "VERIF_C19_PATH="+p, "VERIF_C19_SPEC="+spec, "GOMAXPROCS=2", "VERIF_C19_READY=1")
	if err := c.Run(); err != nil {
		return "nostrace"
	}
	raw, err := os.ReadFile(trace)
	if err != nil {
		return "nostrace"
	}
	toks, ok := c19ParseStrace(string(raw), side)
	if !ok {
		return "nostrace"
	}
	return strings.Join(toks, " ")
}

var (
	c19OpenRe   = regexp.MustCompile(`^\d+\s+(openat|open|creat)\((?:AT_FDCWD, )?"([^"]*)"(?:\.\.\.)?, ([A-Z_|0-9a-fx]+)(?:, [0-7]+)?\)\s+= (\d+)`)
	c19FdRe     = regexp.MustCompile(`^\d+\s+(write|pwrite64|fsync|fdatasync|close|ftruncate)\((\d+)[,)].*= (-?\d+)`)
	c19RenameRe = regexp.MustCompile(`^\d+\s+(rename|renameat|renameat2)\((?:AT_FDCWD, )?"([^"]*)"(?:\.\.\.)?, (?:AT_FDCWD, )?"([^"]*)"(?:\.\.\.)?[,)].*= 0`)
	c19ReadyRe  = regexp.MustCompile(`^\d+\s+write\(1, .*, 1\)\s+= `)
	c19UnlinkRe = regexp.MustCompile(`^\d+\s+(unlink|unlinkat)\((?:AT_FDCWD, )?"([^"]*)"(?:\.\.\.)?[,)].*= 0`)
)

// c19ParseStrace keeps only calls on files inside dir (after the warm-up save,
// which runs in a `warm-` sub directory) and maps them to the token vocabulary
// of the Lean model: creat write fsync close rename opendir fsyncdir closedir unlink.
func c19ParseStrace(raw, dir string) ([]string, bool) {
	var toks []string
	fds := map[string]string{} // fd -> "tmp" | "dir"
	started := false
	for _, line := range strings.Split(raw, "\n") {
		if !started {
			// the child writes one byte to stdout right before the Save under test
			if c19ReadyRe.MatchString(line) {
				started = true
			}
			continue
		}
		if strings.Contains(line, "<unfinished") || strings.Contains(line, "resumed>") {
			// -f interleaving of a call of interest would make the order ambiguous
			if strings.Contains(line, dir) && !strings.Contains(line, "warm-") {
				return nil, false
			}
			continue
		}
		if m := c19OpenRe.FindStringSubmatch(line); m != nil {
			name, flags, fd := m[2], m[3], m[4]
			if strings.Contains(name, "warm-") {
				continue
			}
			switch {
			case name == dir:
				fds[fd] = "dir"
				toks = append(toks, "opendir")
			case filepath.Dir(name) == dir && (strings.Contains(flags, "O_CREAT") || m[1] == "creat"):
				fds[fd] = "tmp"
				if filepath.Base(name) == c19Base {
					toks = append(toks, "creat-in-place")
				} else {
					toks = append(toks, "creat")
				}
			case filepath.Dir(name) == dir && (strings.Contains(flags, "O_WRONLY") || strings.Contains(flags, "O_RDWR")):
				fds[fd] = "tmp"
				toks = append(toks, "open-for-write")
			}
			continue
		}
		if m := c19FdRe.FindStringSubmatch(line); m != nil {
			kind, ok := fds[m[2]]
			if !ok {
				continue
			}
			call := m[1]
			switch call {
			case "pwrite64":
				call = "write"
			case "fdatasync":
				call = "fsync"
			}
			if kind == "dir" {
				switch call {
				case "fsync":
					toks = append(toks, "fsyncdir")
				case "close":
					toks = append(toks, "closedir")
					delete(fds, m[2])
				}
				continue
			}
			toks = append(toks, call)
			if call == "close" {
				delete(fds, m[2])
			}
			continue
		}
		if m := c19RenameRe.FindStringSubmatch(line); m != nil {
			if strings.Contains(m[2], "warm-") {
				continue
			}
			if filepath.Dir(m[2]) == dir && m[3] == filepath.Join(dir, c19Base) {
				toks = append(toks, "rename")
			} else if filepath.Dir(m[2]) == dir || filepath.Dir(m[3]) == dir {
				toks = append(toks, "rename-other")
			}
			continue
		}
		if m := c19UnlinkRe.FindStringSubmatch(line); m != nil {
			if !strings.Contains(m[2], "warm-") && filepath.Dir(m[2]) == dir {
				toks = append(toks, "unlink")
			}
		}
	}
	if len(toks) == 0 {
		return nil, false
	}
	return toks, true
}

// ------------------------------------------------------------ generator ---

func c19GenSpec(g *Gen, big bool) c19Spec {
	s := c19Spec{rev: uint64(g.R.Range(1, 40)), idx: uint64(g.R.Range(1, 99999)), nodes: g.R.Range(3, 7), suffix: fmt.Sprintf("c%d", g.R.Intn(1000))}
	if g.R.Chance(10) {
		s.rev = g.R.BoundaryU64()
		if s.rev == 0 {
			s.rev = 1
		}
	}
	if g.R.Chance(10) {
		s.idx = g.R.BoundaryU64()
	}
	if big {
		s.nodes = g.R.Range(60, 150)
	}
	s.slots = g.R.Range(1, s.nodes)
	if s.slots > 8 && !big {
		s.slots = 8
	}
	if s.slots > 64 {
		s.slots = 64
	}
	s.tasks = g.R.Intn(s.slots + 1)
	s.feat = g.R.Intn(16)
	if g.R.Chance(12) {
		s.feat = (s.feat &^ c19FeatBackup) | c19FeatActiveBackup
		s.tasks = 0
	}
	return s
}

var c19KillPoints = []string{"creat", "write", "fsync", "close", "rename", "opendir", "hook", "none"}

func genC19(g *Gen) {
	// case 1: directed — the power-loss enumeration on the regenerated call list,
	// one strace translation validation, exhaustive single-position damage
	g.Case()
	g.Op("crashmodel", "- V.1.1.3.1.0.0.a")
	g.Op("crashmodel", "V.1.1.3.1.0.0.a V.2.9.4.2.1.3.b")
	g.Op("strace", "V.3.7.4.2.2.5.st")
	g.Count("directed:crashmodel")
	all := c19Spec{rev: 12, idx: 345, nodes: 4, slots: 3, tasks: 3, feat: c19FeatAll, suffix: "sw"}
	small := c19Spec{rev: 7, idx: 8, nodes: 3, slots: 1, tasks: 1, feat: 0, suffix: "s"}
	g.Op("sweep", "bits %s", all)
	g.Op("sweep", "digits %s", all)
	g.Op("sweep", "trunc %s", all)
	g.Op("sweep", "bits %s", small)
	g.Count("directed:sweep")
	if g.Tier == "thorough" {
		g.Op("sweep", "all %s", small)
		ab := c19Spec{rev: 3, idx: 4, nodes: 3, slots: 2, tasks: 0, feat: c19FeatActiveBackup | c19FeatHealth, suffix: "ab"}
		g.Op("sweep", "digits %s", ab)
		g.Op("sweep", "trunc %s", ab)
	}

	for c := 0; c < g.N; c++ {
		g.Case()
		big := g.R.Chance(15)
		nops := g.R.Range(6, 16)
		have := false
		for i := 0; i < nops; i++ {
			var k int
			if !have {
				k = g.R.Pick(6, 1, 2, 1, 1, 1, 0, 0)
			} else {
				k = g.R.Pick(3, 2, 6, 2, 4, 2, 5, 1)
			}
			switch k {
			case 0:
				s := c19GenSpec(g, big)
				if g.R.Chance(8) {
					s.bad = true
					g.Count("save:invalid-state")
				} else {
					have = true
				}
				g.Op("save", "%s", s)
			case 1:
				g.Op("savefail", "%s", c19GenSpec(g, big))
			case 2:
				p := c19KillPoints[g.R.Intn(len(c19KillPoints))]
				g.Count("kill:" + p)
				g.Op("ksave", "%s %s", c19GenSpec(g, big), p)
				if p == "opendir" || p == "none" {
					have = true
				}
				g.Op("load", "")
				if g.R.Chance(50) {
					g.Op("ls", "")
				}
			case 3:
				us := []int{0, 50, 200, 500, 1000, 2000, 4000, 8000}[g.R.Intn(8)] + g.R.Intn(50)
				g.Count("kill:timer")
				g.Op("tsave", "%s %d", c19GenSpec(g, true), us)
				g.Op("load", "")
			case 4:
				g.Op("load", "")
			case 5:
				g.Op("ls", "")
			case 6:
				kind := []string{"flip", "flip", "trunc", "zero", "del", "dup", "digit", "digit", "letter", "sum"}[g.R.Intn(10)]
				a, b := g.R.Intn(1<<20), 1
				switch kind {
				case "flip":
					b = g.R.Range(1, 255)
					if g.R.Chance(50) {
						b = 1 << uint(g.R.Intn(8))
					}
				case "trunc":
					a = g.R.Intn(1000)
					if g.R.Chance(30) {
						a = 999 - g.R.Intn(3)
					}
				case "zero", "del", "dup":
					b = g.R.Range(1, 40)
				case "digit":
					b = g.R.Range(1, 9)
				case "letter":
					b = g.R.Range(1, 25)
				case "sum":
					a, b = g.R.Intn(5), g.R.Intn(8)
				}
				g.Count("corrupt:" + kind)
				g.Op("corrupt", "%s %d %d", kind, a, b)
				g.Op("load", "")
			case 7:
				s := c19GenSpec(g, false)
				s.feat &^= c19FeatActiveBackup
				g.Op("sweep", "digits %s", s)
			}
		}
	}
}

var _ = bytes.Equal

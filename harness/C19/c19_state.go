//go:build verif

package main

import (
	"bytes"
	"fmt"
	"strconv"
	"strings"
	"time"

	"github.com/WuKongIM/WuKongIM/pkg/controller/state"
)

// A spec is the whole identity of a generated cluster state:
//
//	<V|B>.<rev>.<idx>.<nodes>.<slots>.<tasks>.<feat>.<suffix>
//
// V = valid, B = invalid (duplicate node id; Encode must refuse it).  The Lean
// model treats the spec string as the file contents; the runner maps a loaded
// state back to its spec (c19SpecOf) and checks that the loaded state is exactly
// the state the spec denotes (`exact=1`).
type c19Spec struct {
	bad                       bool
	rev, idx                  uint64
	nodes, slots, tasks, feat int
	suffix                    string
}

const (
	c19FeatHealth = 1 << iota
	c19FeatBackup
	c19FeatMCP
	c19FeatDefWeight
	c19FeatActiveBackup
	c19FeatAll = c19FeatHealth | c19FeatBackup | c19FeatMCP | c19FeatDefWeight
)

func (s c19Spec) String() string {
	v := "V"
	if s.bad {
		v = "B"
	}
	return fmt.Sprintf("%s.%d.%d.%d.%d.%d.%d.%s", v, s.rev, s.idx, s.nodes, s.slots, s.tasks, s.feat, s.suffix)
}

func c19ParseSpec(t string) (c19Spec, bool) {
	f := strings.Split(t, ".")
	if len(f) != 8 || (f[0] != "V" && f[0] != "B") {
		return c19Spec{}, false
	}
	var s c19Spec
	s.bad = f[0] == "B"
	var err error
	if s.rev, err = strconv.ParseUint(f[1], 10, 64); err != nil {
		return s, false
	}
	if s.idx, err = strconv.ParseUint(f[2], 10, 64); err != nil {
		return s, false
	}
	ints := []*int{&s.nodes, &s.slots, &s.tasks, &s.feat}
	for i, p := range ints {
		v, err := strconv.Atoi(f[3+i])
		if err != nil || v < 0 {
			return s, false
		}
		*p = v
	}
	s.suffix = f[7]
	if s.nodes < 3 || s.nodes > 200 || s.slots < 1 || s.slots > 64 || s.tasks > s.slots || s.suffix == "" {
		return s, false
	}
	return s, true
}

func c19Peers(slot, nodes int) []uint64 {
	a := uint64((slot-1)%nodes) + 1
	b := uint64((slot)%nodes) + 1
	c := uint64((slot+1)%nodes) + 1
	return []uint64{a, b, c}
}

func c19Sorted(p []uint64) []uint64 {
	out := append([]uint64(nil), p...)
	for i := range out {
		for j := i + 1; j < len(out); j++ {
			if out[j] < out[i] {
				out[i], out[j] = out[j], out[i]
			}
		}
	}
	return out
}

// c19Build constructs the cluster state a spec denotes.
func c19Build(s c19Spec) state.ClusterState {
	hashSlots := uint16(64)
	st := state.ClusterState{
		SchemaVersion:    state.CurrentSchemaVersion,
		ClusterID:        "wk-" + s.suffix,
		Revision:         s.rev,
		AppliedRaftIndex: s.idx,
		UpdatedAt:        time.Unix(1750000000+int64(s.rev%100000)*60, 0).UTC(),
		Config:           state.ClusterConfig{SlotCount: uint32(s.slots), HashSlotCount: hashSlots, ReplicaCount: 3},
	}
	if s.feat&c19FeatDefWeight != 0 {
		st.Config.DefaultCapacityWeight = 50
	}
	statuses := []state.NodeStatus{state.NodeStatusAlive, state.NodeStatusSuspect, state.NodeStatusDown}
	for i := 1; i <= s.nodes; i++ {
		n := state.Node{
			NodeID: uint64(i), Name: fmt.Sprintf("n%d-%s", i, s.suffix), Addr: fmt.Sprintf("10.0.%d.%d:7000", i/250, i%250),
			Roles: []state.NodeRole{state.NodeRoleData}, JoinState: state.NodeJoinStateActive,
			Status: statuses[(uint64(i)+s.rev%3)%3], CapacityWeight: uint32(100 + i),
		}
		if i <= 3 {
			n.Roles = []state.NodeRole{state.NodeRoleControllerVoter, state.NodeRoleData}
			st.Controllers = append(st.Controllers, state.ControllerVoter{NodeID: uint64(i), Addr: n.Addr, Role: state.ControllerRoleVoter})
		}
		if s.bad && i == 2 {
			n.NodeID = 1
		}
		st.Nodes = append(st.Nodes, n)
	}
	for j := 1; j <= s.slots; j++ {
		peers := c19Sorted(c19Peers(j, s.nodes))
		st.Slots = append(st.Slots, state.SlotAssignment{SlotID: uint32(j), DesiredPeers: peers, ConfigEpoch: uint64(j) + s.rev%7 + 1, PreferredLeader: peers[0]})
	}
	tbl, err := state.BuildInitialHashSlotTable(uint32(s.slots), hashSlots)
	if err != nil {
		panic(err)
	}
	st.HashSlots = tbl
	for j := 1; j <= s.tasks; j++ {
		a := st.Slots[j-1]
		t := state.ReconcileTask{
			TaskID: fmt.Sprintf("slot-%d-task-%d", j, s.rev), SlotID: uint32(j), ConfigEpoch: a.ConfigEpoch,
			Attempt: uint32(j % 3), Status: []state.TaskStatus{state.TaskStatusPending, state.TaskStatusRunning, state.TaskStatusFailed}[j%3],
		}
		if t.Status == state.TaskStatusFailed {
			t.LastError = "boom \"quoted\" \\ <x> é"
		}
		kind := int((uint64(j) + s.rev%3) % 3)
		if kind == 2 && s.nodes < 4 {
			kind = 0
		}
		switch kind {
		case 0:
			t.Kind, t.Step = state.TaskKindBootstrap, state.TaskStepCreateSlot
			t.TargetNode = a.PreferredLeader
			t.TargetPeers = append([]uint64(nil), a.DesiredPeers...)
			t.CompletionPolicy = state.TaskCompletionPolicyAllTargetPeers
			for k, p := range a.DesiredPeers {
				t.ParticipantProgress = append(t.ParticipantProgress, state.TaskParticipantProgress{NodeID: p, Attempt: uint32(k),
					Status: []state.TaskParticipantStatus{state.TaskParticipantStatusPending, state.TaskParticipantStatusDone, state.TaskParticipantStatusFailed}[k%3]})
			}
		case 1:
			t.Kind, t.Step = state.TaskKindLeaderTransfer, state.TaskStepTransferLeader
			t.SourceNode, t.TargetNode = a.DesiredPeers[1], a.PreferredLeader
			t.TargetPeers = append([]uint64(nil), a.DesiredPeers...)
			t.CompletionPolicy = state.TaskCompletionPolicySingleObserver
		case 2:
			t.Kind, t.Step = state.TaskKindSlotReplicaMove, state.TaskStepPromoteLearner
			var target uint64
			for c := uint64(1); c <= uint64(s.nodes); c++ {
				if c != a.DesiredPeers[0] && c != a.DesiredPeers[1] && c != a.DesiredPeers[2] {
					target = c
					break
				}
			}
			t.SourceNode, t.TargetNode = a.DesiredPeers[2], target
			np := []uint64{a.DesiredPeers[0], a.DesiredPeers[1], target}
			t.TargetPeers = c19Sorted(np)
			t.CompletionPolicy = state.TaskCompletionPolicySingleObserver
			t.PhaseIndex = 2
			t.ObservedConfigIndex = 1000 + s.rev
			t.ObservedVoters = append([]uint64(nil), a.DesiredPeers...)
			t.ObservedLearners = []uint64{target}
		}
		st.Tasks = append(st.Tasks, t)
	}
	if s.feat&c19FeatHealth != 0 {
		for i := 1; i <= s.nodes; i++ {
			if s.bad && i == 2 {
				continue
			}
			st.NodeHealthReports = append(st.NodeHealthReports, state.NodeHealthReport{
				NodeID: uint64(i), Status: statuses[i%3], RuntimeReady: i%2 == 0, ObservedControlRevision: s.rev,
				ObservedSlotRevision: uint64(i), ReportSeq: uint64(i) * 3, ReportedAtUnixMilli: 1750000000000 + int64(i), AppliedRaftIndex: s.idx, ErrorCode: []string{"", "disk_full"}[i%2]})
		}
	}
	if s.feat&(c19FeatBackup|c19FeatActiveBackup) != 0 {
		sb := &state.ScheduledBackupState{Revision: s.rev, ManagerSessionEpoch: 3,
			Plan: &state.BackupPlan{Revision: 2, Enabled: true, Store: state.BackupStoreConfig{Kind: state.BackupStoreKindS3, Endpoint: "https://s3.example", Region: "r1", Bucket: "b-" + s.suffix, Prefix: "p", PathStyle: true, CredentialCiphertext: []byte{1, 2, 3, 250}, CredentialRevision: 4},
				RepositoryVerification: &state.BackupRepositoryVerification{Status: state.BackupRepositoryVerificationVerified, VerifiedAtUnixMillis: 1750000000001},
				Cron:                   "0 3 * * *", TimeZone: "UTC", RetentionCount: 7, RateBytesPerSec: 1 << 20, WorkersPerNode: 2, MaxDurationMillis: 2 * 60 * 60 * 1000,
				ScheduleCursorUnixMillis: 1750000000500, CreatedUnixMillis: 1750000000000, UpdatedUnixMillis: 1750000000100},
			History: []state.BackupTaskRecord{{ID: "h1", Kind: "backup", Initiator: "ops", Trigger: state.BackupTriggerManual, Status: "succeeded", StartedUnixMillis: 1750000000000, CompletedUnixMillis: 1750000001000, ScheduledUnixMillis: 5},
				{ID: "h2", Kind: "restore", Initiator: "root", Status: "failed", StartedUnixMillis: 1750000002000, CompletedUnixMillis: 1750000002000, ErrorCode: "x"}},
		}
		if s.feat&c19FeatActiveBackup != 0 && s.tasks == 0 {
			job := &state.ScheduledBackupJob{ID: "job-" + s.suffix, Trigger: state.BackupTriggerScheduled, Status: state.BackupJobStatusExporting, PlanRevision: 2,
				ScheduledAtUnixMillis: 7, StartedAtUnixMillis: 1750000003000, DeadlineUnixMillis: 1750000009000, UpdatedUnixMillis: 1750000004000, LogicalBytes: 10, StoredBytes: 9, Records: 8}
			for h := 0; h < state.BackupHashSlotCount; h++ {
				p := state.BackupSlotProgress{HashSlot: uint16(h), Status: state.BackupSlotStatusPending}
				switch h % 3 {
				case 1:
					p.Status, p.Attempt, p.OwnerNodeID, p.OwnerTerm, p.UpdatedUnixMillis = state.BackupSlotStatusRunning, 1, 1, 2, 1750000003500
				case 2:
					p.Status, p.Attempt, p.OwnerNodeID, p.OwnerTerm = state.BackupSlotStatusComplete, 2, 2, 3
					p.ManifestKey = fmt.Sprintf("m/%d", h)
					p.ManifestSHA256 = strings.Repeat("ab", 32)
					p.LogicalBytes, p.StoredBytes, p.Records, p.MaxMessageID = uint64(h), uint64(h)/2, 5, uint64(h)*100
				}
				job.Slots = append(job.Slots, p)
			}
			sb.ActiveBackup = job
		} else {
			sb.ActiveArchiveOperation = &state.BackupArchiveOperation{Token: "tok", Kind: "verify", ArchiveID: "a1", CoordinatorNodeID: 1, CoordinatorTerm: 2, StartedUnixMillis: 1750000000000, ExpiresUnixMillis: 1750000005000}
		}
		st.ScheduledBackup = sb
	}
	if s.feat&c19FeatMCP != 0 {
		st.OpsMCP = &state.OpsMCPState{Enabled: true, OwnerNodeID: 1, ProfileFenceUntilUnixMillis: 1750000000777,
			Credentials: []state.OpsMCPCredential{{ID: "cred-" + strings.ToLower(s.suffix), DigestSHA256: strings.Repeat("0f", 32), CreatedAtUnixMillis: 1750000000000}}}
	}
	return st
}

// c19SpecOf maps a (loaded) state back to the spec it would have been built
// from, and says whether the state is EXACTLY what that spec denotes.
func c19SpecOf(st state.ClusterState) (string, bool) {
	s := c19Spec{rev: st.Revision, idx: st.AppliedRaftIndex, nodes: len(st.Nodes), slots: int(st.Config.SlotCount), tasks: len(st.Tasks)}
	s.suffix = strings.TrimPrefix(st.ClusterID, "wk-")
	if st.NodeHealthReports != nil {
		s.feat |= c19FeatHealth
	}
	if st.ScheduledBackup != nil {
		if st.ScheduledBackup.ActiveBackup != nil {
			s.feat |= c19FeatActiveBackup
		} else {
			s.feat |= c19FeatBackup
		}
	}
	if st.OpsMCP != nil {
		s.feat |= c19FeatMCP
	}
	if st.Config.DefaultCapacityWeight != 0 {
		s.feat |= c19FeatDefWeight
	}
	text := s.String()
	if _, ok := c19ParseSpec(text); !ok {
		return "unbuildable", false
	}
	want, err := state.Encode(c19Build(s))
	if err != nil {
		return text, false
	}
	got, err := state.Encode(st)
	if err != nil {
		return text, false
	}
	return text, bytes.Equal(want, got)
}

//go:build verif

package main

import (
	"fmt"
	"strings"
)

// Generator for C39.  g.N = number of independent migrations (cases).
// Each case follows the protocol  writes ; start ; writes ; snap ; (writes |
// deliveries)* ; fence ; deliveries ; switch ; post-switch traffic  with random
// interleavings: duplicate / batched / late deliveries, restarts of either FSM,
// acks, writes against the fence and against non-owners, premature switch
// attempts, and (rarely) out-of-order delivery of deltas that touch the same key.
type c39G struct {
	g        *Gen
	idx      int   // source log index the next w / fence will get
	pending  []int // forwarded indices not yet delivered, in source order
	all      []int // every forwarded index
	done     []int // forwarded indices already handed to a delivery
	dropped  map[int]bool // live forward lost: only the outbox has it
	acked    map[int]bool
	keyOf    map[int]int
	val      int
	started  bool
	snapped  bool
	fenced   bool
	switched bool
}

func (x *c39G) w() {
	r := x.g.R
	if r.Chance(12) {
		x.sbatch(false)
		return
	}
	x.idx++
	k := r.Range(1, 4)
	if r.Chance(50) {
		k = r.Range(1, 2) // hot keys: conflicting writes
	}
	x.val++
	if x.started && !x.fenced && !x.switched {
		x.pending = append(x.pending, x.idx)
		x.all = append(x.all, x.idx)
		x.keyOf[x.idx] = k
	}
	switch {
	case x.switched:
		x.g.Count("w:after-switch(non-owner)")
	case x.fenced:
		x.g.Count("w:against-fence")
	case x.started:
		x.g.Count("w:forwarded")
	default:
		x.g.Count("w:before-start")
	}
	if x.started && !x.fenced && !x.switched && x.g.R.Chance(18) {
		x.dropped[x.idx] = true
		x.g.Count("w:forward-dropped")
		x.g.Op("wd", "%d %d", k, x.val)
		return
	}
	x.g.Op("w", "%d %d", k, x.val)
}

// ack acknowledges a delivered row, often out of order (a later row before an earlier undelivered one).
func (x *c39G) ack() {
	r := x.g.R
	i := r.Range(0, 3)
	if len(x.done) > 0 {
		i = x.done[r.Intn(len(x.done))]
		if len(x.pending) > 0 && r.Chance(50) { // prefer the newest delivered row while older ones are still undelivered
			for _, d := range x.done {
				if d > i {
					i = d
				}
			}
		}
		if len(x.pending) > 0 && i > x.pending[0] {
			x.g.Count("ack:later-row-while-earlier-undelivered")
		}
		x.acked[i] = true
	}
	if r.Chance(65) {
		x.idx++ // the replicated ack consumes a source log index
		x.g.Op("ackc", "%d", i)
		return
	}
	x.g.Op("ack", "%d", i)
}

// wItem books one ordinary write that is part of a multi-command source batch.
func (x *c39G) wItem() string {
	r := x.g.R
	x.idx++
	k := r.Range(1, 4)
	if r.Chance(50) {
		k = r.Range(1, 2)
	}
	x.val++
	if x.started && !x.fenced && !x.switched {
		x.pending = append(x.pending, x.idx)
		x.all = append(x.all, x.idx)
		x.keyOf[x.idx] = k
	}
	return fmt.Sprintf("w.%d.%d", k, x.val)
}

func (x *c39G) fItem() string {
	x.idx++
	if x.started && !x.fenced && !x.switched {
		x.fenced = true
		x.pending = append(x.pending, x.idx)
		x.all = append(x.all, x.idx)
	}
	return "f"
}

// sbatch emits ONE source ApplyBatch: writes, optionally with enter_fence in front of / between them.
func (x *c39G) sbatch(withFence bool) {
	r := x.g.R
	var items []string
	n := r.Range(2, 4)
	fpos := -1
	if withFence {
		fpos = r.Intn(n - 1) // at least one write follows the fence
		x.g.Count("sb:fence-then-writes")
	} else {
		x.g.Count("sb:writes")
	}
	for j := 0; j < n; j++ {
		if j == fpos {
			items = append(items, x.fItem())
		} else {
			items = append(items, x.wItem())
		}
	}
	x.g.Op("sb", "%s", strings.Join(items, " "))
}

func (x *c39G) deliver() {
	r := x.g.R
	if len(x.all) == 0 {
		x.g.Op("dl", "%d", r.Range(1, 5))
		x.g.Count("dl:nothing-forwarded")
		return
	}
	n := r.Pick(55, 25, 12, 8) + 1
	var is []string
	for j := 0; j < n; j++ {
		switch {
		case len(x.pending) > 0 && r.Chance(70): // next pending, in source order
			is = append(is, fmt.Sprint(x.pending[0]))
			x.done = append(x.done, x.pending[0])
			x.pending = x.pending[1:]
			x.g.Count("dl:in-order")
		case len(x.done) > 0 && r.Chance(75): // replay of something delivered earlier
			is = append(is, fmt.Sprint(x.done[r.Intn(len(x.done))]))
			x.g.Count("dl:replay-of-delivered")
		case len(x.pending) > 1: // out of order: a later pending delta first
			j := 1 + r.Intn(len(x.pending)-1)
			i := x.pending[j]
			conflict := false
			for _, e := range x.pending[:j] {
				if x.keyOf[e] == x.keyOf[i] && x.keyOf[i] != 0 {
					conflict = true
				}
			}
			if conflict && !r.Chance(15) { // conflicting reorder is the known finding: keep it rare
				is = append(is, fmt.Sprint(x.pending[0]))
				x.done = append(x.done, x.pending[0])
				x.pending = x.pending[1:]
				x.g.Count("dl:in-order")
				break
			}
			if conflict {
				x.g.Count("dl:out-of-order-conflicting")
			} else {
				x.g.Count("dl:out-of-order-commuting")
			}
			is = append(is, fmt.Sprint(i))
			x.done = append(x.done, i)
			x.pending = append(append([]int(nil), x.pending[:j]...), x.pending[j+1:]...)
		case r.Chance(12):
			is = append(is, fmt.Sprint(x.idx+r.Range(1, 3))) // never forwarded
			x.g.Count("dl:unknown-index")
		case len(x.pending) > 0:
			is = append(is, fmt.Sprint(x.pending[0]))
			x.done = append(x.done, x.pending[0])
			x.pending = x.pending[1:]
			x.g.Count("dl:in-order")
		default:
			is = append(is, fmt.Sprint(x.all[r.Intn(len(x.all))]))
			x.g.Count("dl:replay-of-delivered")
		}
	}
	if !x.snapped {
		x.g.Count("dl:before-snapshot(skip)")
	}
	kind := []string{"dl", "dl", "dlo", "dlm"}[r.Intn(4)]
	for _, v := range is {
		var n int
		fmt.Sscan(v, &n)
		if x.dropped[n] {
			kind = "dlo" // only the durable outbox has it
		}
	}
	if kind == "dlo" {
		for _, v := range is {
			var n int
			fmt.Sscan(v, &n)
			if x.acked[n] {
				x.g.Count("dlo:acked-row(norow)")
			}
		}
	}
	switch kind {
	case "dlm":
		x.g.Count("dl:mixed-batch-with-stale-command")
		x.g.Op("dlm", "%d %s", r.Intn(2), strings.Join(is, " "))
	default:
		x.g.Op(kind, "%s", strings.Join(is, " "))
	}
}

func (x *c39G) misc() {
	r := x.g.R
	switch r.Pick(25, 20, 15, 15, 15, 10, 14, 6) {
	case 6:
		x.g.Op("snap2", "")
		if x.snapped && !x.switched {
			x.g.Count("snap2:reinstall-after-deltas")
		}
	case 7:
		x.idx++
		x.g.Op("cl", "%d", r.Range(1, x.idx))
	case 0:
		x.g.Op("rt", "")
	case 1:
		x.g.Op("rs", "")
	case 2:
		x.ack()
	case 3:
		x.val++
		x.g.Op("wt", "%d %d", r.Range(1, 4), x.val)
		if x.switched {
			x.g.Count("wt:after-switch")
		} else {
			x.g.Count("wt:before-switch(non-owner)")
		}
	case 4:
		x.g.Op("switch", "")
		if x.started && x.snapped && x.fenced && len(x.pending) == 0 && !x.switched {
			x.switched = true
			x.g.Count("switch:ready")
		} else {
			x.g.Count("switch:premature-or-repeated")
		}
	default:
		op := []string{"start", "snap", "fence"}[r.Intn(3)]
		x.g.Op(op, "")
		x.g.Count("protocol-op:out-of-place")
		if op == "fence" {
			x.idx++
			if x.started && !x.fenced && !x.switched {
				x.fenced = true
				x.pending = append(x.pending, x.idx)
				x.all = append(x.all, x.idx)
			}
		}
	}
}

func genC39(g *Gen) {
	for c := 0; c < g.N; c++ {
		g.Case()
		x := &c39G{g: g, keyOf: map[int]int{}, dropped: map[int]bool{}, acked: map[int]bool{}}
		r := g.R
		burst := func(lo, hi int, f func()) {
			for n := r.Range(lo, hi); n > 0; n-- {
				if r.Chance(12) {
					x.misc()
				}
				f()
			}
		}
		burst(0, 4, x.w)
		g.Op("start", "")
		x.started = true
		burst(0, 4, x.w)
		if r.Chance(10) {
			x.deliver() // before the snapshot is imported: the orchestrator must not (skip)
		}
		g.Op("snap", "")
		x.snapped = true
		burst(2, 9, func() {
			switch r.Pick(45, 40, 15) {
			case 0:
				x.w()
			case 1:
				x.deliver()
			default:
				x.ack()
			}
		})
		if r.Chance(85) {
			if r.Chance(50) {
				x.sbatch(true) // enter_fence and following writes in ONE ApplyBatch
			} else {
				g.Op("fence", "")
				x.fItem()
			}
		}
		burst(1, 8, func() {
			switch r.Pick(50, 15, 15, 20) {
			case 0:
				x.deliver()
			case 1:
				x.w()
			case 2:
				x.ack()
			default:
				x.misc()
			}
		})
		// drain (mostly) and switch
		for len(x.pending) > 0 && r.Chance(92) {
			x.deliver()
		}
		g.Op("switch", "")
		if x.started && x.snapped && x.fenced && len(x.pending) == 0 && !x.switched {
			x.switched = true
			g.Count("switch:ready")
		} else {
			g.Count("switch:premature-or-repeated")
		}
		burst(1, 6, func() {
			switch r.Pick(30, 30, 25, 15) {
			case 0:
				x.w()
			case 1:
				x.val++
				g.Op("wt", "%d %d", r.Range(1, 4), x.val)
				if x.switched {
					g.Count("wt:after-switch")
				} else {
					g.Count("wt:before-switch(non-owner)")
				}
			case 2:
				x.deliver()
			default:
				x.misc()
			}
		})
	}
}

//go:build verif

// C39 — hash-slot migration neither loses nor duplicates metadata writes.
//
// Two REAL slot state machines (source slot 1, target slot 2) on two REAL
// metadata DBs.  The runner plays the (absent from this tree) migration
// orchestrator: it starts delta forwarding, ships the snapshot, delivers the
// forwarded deltas to the target in the order / multiplicity the op asks for,
// fences, acks, cleans up, switches ownership and restarts either machine.
// Ops whose protocol precondition does not hold are answered `skip` by both
// sides (the same bookkeeping is in the Lean driver).
package main

import (
	"context"
	"errors"
	"fmt"
	"os"
	"path/filepath"
	"sort"
	"strconv"
	"strings"
	"sync/atomic"

	metadb "github.com/WuKongIM/WuKongIM/pkg/db/meta"
	"github.com/WuKongIM/WuKongIM/pkg/slot/fsm"
	"github.com/WuKongIM/WuKongIM/pkg/slot/multiraft"
)

func init() {
	Register(&Prop{Gen: genC39, NewRunner: func() Runner { return newC39Runner() }})
}

const (
	c39HS       = uint16(7) // the migrating hash slot
	c39SrcSlot  = uint64(1)
	c39TgtSlot  = uint64(2)
	c39SrcOther = uint16(8)
	c39TgtOther = uint16(9)
	c39Keys     = 4
)

var c39Seq atomic.Uint64

type c39SM interface {
	multiraft.BatchStateMachine
	UpdateOwnedHashSlots([]uint16)
	UpdateOutgoingDeltaTargets(map[uint16]multiraft.SlotID)
	UpdateIncomingDeltaHashSlots([]uint16)
	SetDeltaForwarder(func(context.Context, multiraft.SlotID, multiraft.Command) error)
	ExportHashSlotSnapshot(context.Context, uint16) (metadb.SlotSnapshot, error)
	ImportHashSlotSnapshot(context.Context, metadb.SlotSnapshot) error
	AckHashSlotMigrationOutbox(ctx context.Context, hashSlot uint16, sourceSlot, targetSlot, sourceIndex uint64) error
}

type c39Runner struct {
	dir      string
	sdb, tdb *metadb.DB
	s, t     c39SM
	err      string
	sIdx     uint64 // source raft index
	tIdx     uint64
	// orchestrator bookkeeping (mirrored by the Lean driver)
	started, snapDone, switched bool
	fwd                         map[uint64]multiraft.Command // captured live forwards by source index
	outboxed                    map[uint64]bool              // indices the orchestrator saw forwarded
	delivered                   map[uint64]bool
	fencedSeen                  bool
	dropNext                    bool // the next live forward is lost (the outbox row is the only copy)
}

func newC39Runner() *c39Runner {
	base := os.Getenv("VERIF_SCRATCH")
	if base == "" {
		base = "."
	}
	r := &c39Runner{dir: filepath.Join(base, fmt.Sprintf("c39-%d-%d", os.Getpid(), c39Seq.Add(1))),
		fwd: map[uint64]multiraft.Command{}, outboxed: map[uint64]bool{}, delivered: map[uint64]bool{}}
	var err error
	if r.sdb, err = metadb.Open(filepath.Join(r.dir, "src")); err != nil {
		r.err = "open:" + err.Error()
		return r
	}
	if r.tdb, err = metadb.Open(filepath.Join(r.dir, "tgt")); err != nil {
		r.err = "open:" + err.Error()
		return r
	}
	if err := r.newSource(); err != nil {
		r.err = err.Error()
	}
	if err := r.newTarget(); err != nil {
		r.err = err.Error()
	}
	return r
}

func (r *c39Runner) forward(_ context.Context, target multiraft.SlotID, cmd multiraft.Command) error {
	if uint64(target) != c39TgtSlot {
		return nil
	}
	r.outboxed[cmd.Index] = true
	if r.dropNext {
		return errors.New("forward dropped")
	}
	cp := cmd
	cp.Data = append([]byte(nil), cmd.Data...)
	r.fwd[cmd.Index] = cp
	return nil
}

// newSource (re)creates the source FSM on its DB and re-applies the runtime configuration.
func (r *c39Runner) newSource() error {
	owned := []uint16{c39SrcOther, c39HS}
	if r.switched {
		owned = []uint16{c39SrcOther}
	}
	sm, err := fsm.NewStateMachineWithHashSlots(r.sdb, c39SrcSlot, owned)
	if err != nil {
		return err
	}
	s, ok := sm.(c39SM)
	if !ok {
		return errors.New("source FSM lacks the migration methods")
	}
	s.SetDeltaForwarder(r.forward)
	if r.started && !r.switched {
		s.UpdateOutgoingDeltaTargets(map[uint16]multiraft.SlotID{c39HS: multiraft.SlotID(c39TgtSlot)})
	}
	r.s = s
	return nil
}

func (r *c39Runner) newTarget() error {
	owned := []uint16{c39TgtOther}
	if r.switched {
		owned = []uint16{c39TgtOther, c39HS}
	}
	sm, err := fsm.NewStateMachineWithHashSlots(r.tdb, c39TgtSlot, owned)
	if err != nil {
		return err
	}
	t, ok := sm.(c39SM)
	if !ok {
		return errors.New("target FSM lacks the migration methods")
	}
	if r.started && !r.switched {
		t.UpdateIncomingDeltaHashSlots([]uint16{c39HS})
	}
	r.t = t
	return nil
}

func (r *c39Runner) Close() {
	if r.sdb != nil {
		_ = r.sdb.Close()
	}
	if r.tdb != nil {
		_ = r.tdb.Close()
	}
	_ = os.RemoveAll(r.dir)
}

type c39Bad struct{}

func c39Num(s string, max uint64) uint64 {
	n, err := strconv.ParseUint(s, 10, 32)
	if err != nil || n > max || (len(s) > 1 && s[0] == '0') {
		panic(c39Bad{})
	}
	return n
}

func c39Err(err error) string {
	switch {
	case errors.Is(err, metadb.ErrInvalidArgument):
		return "err:invalid"
	case errors.Is(err, metadb.ErrNotFound):
		return "err:notfound"
	case errors.Is(err, metadb.ErrStaleMeta):
		return "err:conflict"
	default:
		return "err:other"
	}
}

func c39Res(results [][]byte, err error) string {
	if err != nil {
		return c39Err(err)
	}
	parts := make([]string, len(results))
	for i, b := range results {
		switch string(b) {
		case fsm.ApplyResultOK:
			parts[i] = "ok"
		case fsm.ApplyResultHashSlotFenced:
			parts[i] = "fenced"
		case fsm.ApplyResultStaleMeta:
			parts[i] = "stale"
		default:
			parts[i] = "res?"
		}
	}
	return strings.Join(parts, ",")
}

func c39User(k, v uint64) metadb.User {
	return metadb.User{UID: fmt.Sprintf("u%d", k), Token: fmt.Sprintf("v%d", v), DeviceFlag: int64(v)}
}

func (r *c39Runner) users(db *metadb.DB) string {
	var parts []string
	for k := uint64(1); k <= c39Keys; k++ {
		u, err := db.ForHashSlot(c39HS).GetUser(context.Background(), fmt.Sprintf("u%d", k))
		if errors.Is(err, metadb.ErrNotFound) {
			continue
		}
		if err != nil {
			parts = append(parts, fmt.Sprintf("%d=!%s", k, c39Err(err)))
			continue
		}
		v := "?"
		if strings.HasPrefix(u.Token, "v") && fmt.Sprintf("v%d", u.DeviceFlag) == u.Token {
			v = u.Token[1:]
		}
		parts = append(parts, fmt.Sprintf("%d=%s", k, v))
	}
	if len(parts) == 0 {
		return "-"
	}
	return strings.Join(parts, ",")
}

func c39Idx(xs []uint64) string {
	if len(xs) == 0 {
		return "-"
	}
	sort.Slice(xs, func(i, j int) bool { return xs[i] < xs[j] })
	s := make([]string, len(xs))
	for i, x := range xs {
		s[i] = strconv.FormatUint(x, 10)
	}
	return strings.Join(s, ",")
}

func (r *c39Runner) dump() string {
	ctx := context.Background()
	var ob []uint64
	rows, err := r.sdb.ListHashSlotMigrationOutbox(ctx, c39HS, c39SrcSlot, c39TgtSlot, 0, 1000)
	obs := ""
	if err != nil {
		obs = "!" + c39Err(err)
	} else {
		for _, row := range rows {
			ob = append(ob, row.SourceIndex)
		}
		obs = c39Idx(ob)
	}
	st := "-"
	if s, err := r.sdb.LoadHashSlotMigrationState(ctx, c39HS); err == nil {
		st = fmt.Sprintf("%d.%d.%d.%d.%d.%d", s.SourceSlot, s.TargetSlot, s.Phase, s.FenceIndex, s.LastOutboxIndex, s.LastAckedIndex)
	} else if !errors.Is(err, metadb.ErrNotFound) {
		st = "!" + c39Err(err)
	}
	var ad []uint64
	ads := ""
	if ds, err := r.tdb.ListAppliedHashSlotDeltas(ctx, c39HS); err != nil {
		ads = "!" + c39Err(err)
	} else {
		for _, d := range ds {
			if d.SourceSlot == c39SrcSlot {
				ad = append(ad, d.SourceIndex)
			} else {
				ad = append(ad, 1000000+d.SourceIndex)
			}
		}
		ads = c39Idx(ad)
	}
	return fmt.Sprintf("S:%s T:%s OB:%s ST:%s AD:%s", r.users(r.sdb), r.users(r.tdb), obs, st, ads)
}

func (r *c39Runner) applyS(data []byte) string {
	r.sIdx++
	return c39Res(r.s.ApplyBatch(context.Background(), []multiraft.Command{{SlotID: multiraft.SlotID(c39SrcSlot), HashSlot: c39HS, Index: r.sIdx, Term: 1, Data: data}}))
}

func (r *c39Runner) Step(op string) (out string) {
	if r.err != "" {
		return "setup-failed " + r.err
	}
	defer func() {
		if e := recover(); e != nil {
			if _, ok := e.(c39Bad); ok {
				out = "bad-op"
				return
			}
			panic(e)
		}
	}()
	f := strings.Fields(op)
	if len(f) == 0 {
		return "bad-op"
	}
	ctx := context.Background()
	res := ""
	switch f[0] {
	case "w", "wd": // ordinary write at the source (`wd`: its live forward is lost)
		if len(f) != 3 {
			return "bad-op"
		}
		k, v := c39Num(f[1], c39Keys), c39Num(f[2], 1<<20)
		if k == 0 {
			return "bad-op"
		}
		r.dropNext = f[0] == "wd"
		res = r.applyS(fsm.EncodeUpsertUserCommand(c39User(k, v)))
		r.dropNext = false
	case "wt": // ordinary write for the migrating hash slot at the target
		if len(f) != 3 {
			return "bad-op"
		}
		k, v := c39Num(f[1], c39Keys), c39Num(f[2], 1<<20)
		if k == 0 {
			return "bad-op"
		}
		r.tIdx++
		res = c39Res(r.t.ApplyBatch(ctx, []multiraft.Command{{SlotID: multiraft.SlotID(c39TgtSlot), HashSlot: c39HS, Index: r.tIdx, Term: 1,
			Data: fsm.EncodeUpsertUserCommand(c39User(k, v))}}))
	case "start":
		if len(f) != 1 {
			return "bad-op"
		}
		if r.started || r.switched {
			res = "skip"
			break
		}
		r.started = true
		r.s.UpdateOutgoingDeltaTargets(map[uint16]multiraft.SlotID{c39HS: multiraft.SlotID(c39TgtSlot)})
		r.t.UpdateIncomingDeltaHashSlots([]uint16{c39HS})
		res = "ok"
	case "snap":
		if len(f) != 1 {
			return "bad-op"
		}
		if !r.started || r.snapDone || r.switched {
			res = "skip"
			break
		}
		snap, err := r.s.ExportHashSlotSnapshot(ctx, c39HS)
		if err != nil {
			res = c39Err(err)
			break
		}
		if err := r.t.ImportHashSlotSnapshot(ctx, snap); err != nil {
			res = c39Err(err)
			break
		}
		r.snapDone = true
		res = "ok"
	case "snap2": // the target installs the hash-slot snapshot AGAIN (retry / newer snapshot)
		if len(f) != 1 {
			return "bad-op"
		}
		if !r.snapDone || r.switched {
			res = "skip"
			break
		}
		snap, err := r.s.ExportHashSlotSnapshot(ctx, c39HS)
		if err != nil {
			res = c39Err(err)
			break
		}
		if err := r.t.ImportHashSlotSnapshot(ctx, snap); err != nil {
			res = c39Err(err)
			break
		}
		res = "ok"
	case "sb": // ONE source ApplyBatch with several commands: f = enter_fence, w.k.v = write, a.i = replicated ack
		if len(f) < 3 || len(f) > 6 {
			return "bad-op"
		}
		var batch []multiraft.Command
		var kinds []string
		skip := false
		base := r.sIdx
		for n, it := range f[1:] {
			p := strings.Split(it, ".")
			var data []byte
			switch {
			case it == "f":
				data = fsm.EncodeEnterFenceCommand(c39HS)
			case p[0] == "w" && len(p) == 3:
				k, v := c39Num(p[1], c39Keys), c39Num(p[2], 1<<20)
				if k == 0 {
					return "bad-op"
				}
				data = fsm.EncodeUpsertUserCommand(c39User(k, v))
			case p[0] == "a" && len(p) == 2:
				i := c39Num(p[1], 1<<20)
				if !r.delivered[i] {
					skip = true
				}
				data = fsm.EncodeAckHashSlotMigrationOutboxCommand(c39HS, multiraft.SlotID(c39SrcSlot), multiraft.SlotID(c39TgtSlot), i)
			default:
				return "bad-op"
			}
			kinds = append(kinds, it[:1])
			batch = append(batch, multiraft.Command{SlotID: multiraft.SlotID(c39SrcSlot), HashSlot: c39HS, Index: base + uint64(n) + 1, Term: 1, Data: data})
		}
		r.sIdx = base + uint64(len(batch)) // the line always consumes one source index per command
		if skip {
			res = "skip"
			break
		}
		res = c39Res(r.s.ApplyBatch(ctx, batch))
		if !strings.HasPrefix(res, "err") {
			for n, x := range strings.Split(res, ",") {
				if kinds[n] == "f" && x == "ok" {
					r.fencedSeen = true
				}
			}
		}
	case "cl": // replicated outbox cleanup (orchestrator: only after the switch)
		if len(f) != 2 {
			return "bad-op"
		}
		i := c39Num(f[1], 1<<20)
		if !r.switched {
			r.sIdx++
			res = "skip"
			break
		}
		res = r.applyS(fsm.EncodeCleanupHashSlotMigrationOutboxCommand(c39HS, multiraft.SlotID(c39SrcSlot), multiraft.SlotID(c39TgtSlot), i))
	case "dl", "dlo", "dlm":
		// dl : deliver live-forwarded deltas (by source index) to the target in ONE ApplyBatch, in the given order
		// dlo: the same, but the replayer reads the rows from the source's durable outbox
		// dlm <0|1> …: like dl, with an ordinary command for another hash slot of the target in the same
		//      batch whose commit-time guard is stale (first / last), so the batch is re-applied one by one
		args := f[1:]
		pos := uint64(0)
		if f[0] == "dlm" {
			if len(args) < 1 {
				return "bad-op"
			}
			pos = c39Num(args[0], 1)
			args = args[1:]
		}
		if len(args) < 1 || len(args) > 4 {
			return "bad-op"
		}
		var idxs []uint64
		for _, x := range args {
			idxs = append(idxs, c39Num(x, 1<<20))
		}
		if !r.snapDone {
			res = "skip"
			break
		}
		var batch []multiraft.Command
		for _, i := range idxs {
			var c multiraft.Command
			ok := false
			if f[0] == "dlo" {
				rows, err := r.sdb.ListHashSlotMigrationOutbox(ctx, c39HS, c39SrcSlot, c39TgtSlot, i-1, 1)
				if i > 0 && err == nil && len(rows) == 1 && rows[0].SourceIndex == i {
					c = multiraft.Command{SlotID: multiraft.SlotID(c39SrcSlot), HashSlot: c39HS, Index: i, Data: rows[0].Data}
					ok = true
				}
			} else {
				c, ok = r.fwd[i]
			}
			if !ok {
				batch = nil
				res = "norow"
				break
			}
			r.tIdx++
			batch = append(batch, multiraft.Command{SlotID: multiraft.SlotID(c39TgtSlot), HashSlot: c39HS, Index: r.tIdx, Term: 1,
				Data: fsm.EncodeApplyDeltaCommand(c.SlotID, c.Index, c.HashSlot, c.Data)})
		}
		if res == "norow" {
			break
		}
		if f[0] == "dlm" {
			r.tIdx++
			stale := multiraft.Command{SlotID: multiraft.SlotID(c39TgtSlot), HashSlot: c39TgtOther, Index: r.tIdx, Term: 1,
				Data: fsm.EncodeAdvanceChannelRetentionThroughSeqCommand(metadb.ChannelRetentionAdvance{ChannelID: "nochan", ChannelType: 2,
					ExpectedChannelEpoch: 1, ExpectedLeaderEpoch: 1, ExpectedLeader: 1, RetentionThroughSeq: 5, RetentionUpdatedAtMS: 1})}
			if pos == 0 {
				batch = append([]multiraft.Command{stale}, batch...)
			} else {
				batch = append(batch, stale)
			}
		}
		res = c39Res(r.t.ApplyBatch(ctx, batch))
		if !strings.HasPrefix(res, "err") {
			for _, i := range idxs {
				r.delivered[i] = true
			}
		}
	case "fence":
		if len(f) != 1 {
			return "bad-op"
		}
		res = r.applyS(fsm.EncodeEnterFenceCommand(c39HS))
		if res == "ok" {
			r.fencedSeen = true
		}
	case "ack":
		if len(f) != 2 {
			return "bad-op"
		}
		i := c39Num(f[1], 1<<20)
		if !r.delivered[i] {
			res = "skip"
			break
		}
		if err := r.s.AckHashSlotMigrationOutbox(ctx, c39HS, c39SrcSlot, c39TgtSlot, i); err != nil {
			res = c39Err(err)
		} else {
			res = "ok"
		}
	case "ackc": // the replicated ack command (applyMigrationOutboxAck)
		if len(f) != 2 {
			return "bad-op"
		}
		i := c39Num(f[1], 1<<20)
		if !r.delivered[i] {
			r.sIdx++ // the op always consumes one source log index, so indices stay predictable
			res = "skip"
			break
		}
		res = r.applyS(fsm.EncodeAckHashSlotMigrationOutboxCommand(c39HS, multiraft.SlotID(c39SrcSlot), multiraft.SlotID(c39TgtSlot), i))
	case "switch":
		if len(f) != 1 {
			return "bad-op"
		}
		// the orchestrator switches once the fence is in and every row still in the durable outbox was delivered
		ready := r.started && r.snapDone && !r.switched && r.fencedSeen
		rows, err := r.sdb.ListHashSlotMigrationOutbox(ctx, c39HS, c39SrcSlot, c39TgtSlot, 0, 100000)
		if err != nil {
			ready = false
		}
		for _, row := range rows {
			if !r.delivered[row.SourceIndex] {
				ready = false
			}
		}
		if !ready {
			res = "skip"
			break
		}
		r.switched = true
		r.s.UpdateOwnedHashSlots([]uint16{c39SrcOther})
		r.s.UpdateOutgoingDeltaTargets(map[uint16]multiraft.SlotID{})
		r.t.UpdateOwnedHashSlots([]uint16{c39TgtOther, c39HS})
		r.t.UpdateIncomingDeltaHashSlots(nil)
		res = "ok"
	case "rt": // restart the target FSM (in-memory applied-delta set is lost, the durable records stay)
		if err := r.newTarget(); err != nil {
			res = "err:other"
		} else {
			res = "ok"
		}
	case "rs":
		if err := r.newSource(); err != nil {
			res = "err:other"
		} else {
			res = "ok"
		}
	default:
		return "bad-op"
	}
	return res + " # " + r.dump()
}

//go:build verif

// C17 — channel migration cutover is fenced and irreversible.
//
// The runner drives the REAL slot state machine (pkg/slot/fsm) on a real
// metadata DB.  One op line = one ApplyBatch call (`batch a ; b ; c` = several
// commands in one call) or one environment step (`setmeta`).  Guard / proof
// fields may be symbolic: `*` = the value currently stored, `^` = stored + 1, `~` = stored - 1;
// they are resolved against the state BEFORE the line, identically by the Lean
// model, so that fresh guards stay fresh under shrinking.
package main

import (
	"context"
	"errors"
	"fmt"
	"os"
	"path/filepath"
	"sort"
	"strconv"
	"strings"
	"sync/atomic"

	metadb "github.com/WuKongIM/WuKongIM/pkg/db/meta"
	"github.com/WuKongIM/WuKongIM/pkg/slot/fsm"
	"github.com/WuKongIM/WuKongIM/pkg/slot/multiraft"
)

func init() {
	Register(&Prop{Gen: genC17, NewRunner: func() Runner { return newC17Runner() }})
}

const (
	c17HashSlot    = uint16(7)
	c17Slot        = uint64(1)
)

var c17Seq atomic.Uint64

type c17Runner struct {
	dir string
	db  *metadb.DB
	sm  multiraft.StateMachine
	idx uint64
	err string
	ops int
}

func newC17Runner() *c17Runner {
	base := os.Getenv("VERIF_SCRATCH")
	if base == "" {
		base = "."
	}
	c17Mode = 0
	r := &c17Runner{dir: filepath.Join(base, fmt.Sprintf("c17-%d-%d", os.Getpid(), c17Seq.Add(1)))}
	db, err := metadb.Open(r.dir)
	if err != nil {
		r.err = "open:" + err.Error()
		return r
	}
	r.db = db
	sm, err := fsm.NewStateMachineWithHashSlots(db, c17Slot, []uint16{c17HashSlot})
	if err != nil {
		r.err = "fsm:" + err.Error()
		return r
	}
	r.sm = sm
	return r
}

func (r *c17Runner) Close() {
	if r.db != nil {
		_ = r.db.Close()
	}
	_ = os.RemoveAll(r.dir)
}

// c17Mode selects how the model's two channels map to real channels (set by the `chmode` op, first op of a case):
//   0: ("ca",2) ("cb",2)  different ids, same type
//   1: ("cc",2) ("cc",3)  SAME id, different type
//   2: ("ca",2) ("cb",3)  both differ
var c17Mode int

func c17Chan(n uint64) string {
	switch {
	case c17Mode == 1:
		return "cc"
	case n == 1:
		return "ca"
	default:
		return "cb"
	}
}

func c17Type(n uint64) int64 {
	if c17Mode != 0 && n == 2 {
		return 3
	}
	return 2
}

func c17Tok(n uint64) string {
	if n == 0 {
		return ""
	}
	return fmt.Sprintf("t%d", n)
}

func c17TokNum(s string) string {
	if s == "" {
		return "0"
	}
	if len(s) >= 2 && s[0] == 't' {
		if n, err := strconv.ParseUint(s[1:], 10, 32); err == nil && n > 0 {
			return strconv.FormatUint(n, 10)
		}
	}
	return "?"
}

type c17BadOp struct{}

// tok resolves a symbolic field.
func c17Val(tok string, cur uint64) uint64 {
	switch tok {
	case "*":
		return cur
	case "^":
		return cur + 1
	case "~":
		if cur == 0 {
			return 0
		}
		return cur - 1
	}
	return c17Lit(tok)
}

// c17Lit parses a literal; both sides reject numbers >= 2^31.
func c17Lit(tok string) uint64 {
	n, err := strconv.ParseUint(tok, 10, 63)
	if err != nil || n >= 1<<31 || (len(tok) > 1 && tok[0] == '0') || tok[0] == '+' {
		panic(c17BadOp{})
	}
	return n
}

func c17U8(n uint64) uint64 {
	if n > 255 {
		panic(c17BadOp{})
	}
	return n
}

func c17List(tok string) []uint64 {
	if tok == "-" {
		return nil
	}
	var out []uint64
	for _, p := range strings.Split(tok, ",") {
		out = append(out, c17Lit(p))
	}
	return out
}

func (r *c17Runner) store() *metadb.ShardStore { return r.db.ForHashSlot(c17HashSlot) }

func (r *c17Runner) curTask(c, id uint64) metadb.ChannelMigrationTask {
	t, err := r.store().GetChannelMigrationTask(context.Background(), c17Chan(c), c17Type(c), c17Tok(id))
	if err != nil {
		return metadb.ChannelMigrationTask{}
	}
	return t
}

func (r *c17Runner) curMeta(c uint64) metadb.ChannelRuntimeMeta {
	m, err := r.store().GetChannelRuntimeMeta(context.Background(), c17Chan(c), c17Type(c))
	if err != nil {
		return metadb.ChannelRuntimeMeta{}
	}
	return m
}

type c17Args struct {
	f []string
	i int
}

func (a *c17Args) next() string {
	if a.i >= len(a.f) {
		panic(c17BadOp{})
	}
	s := a.f[a.i]
	a.i++
	return s
}
func (a *c17Args) lit() uint64            { return c17Lit(a.next()) }
func (a *c17Args) lit8() uint64           { return c17U8(c17Lit(a.next())) }
func (a *c17Args) val(cur uint64) uint64  { return c17Val(a.next(), cur) }
func (a *c17Args) val8(cur uint64) uint64 { return c17U8(c17Val(a.next(), cur)) }
func (a *c17Args) chanP() uint64 {
	c := a.lit()
	if c != 1 && c != 2 {
		panic(c17BadOp{})
	}
	return c
}
func (a *c17Args) idP() uint64 {
	i := a.lit()
	if i < 1 || i > 9 {
		panic(c17BadOp{})
	}
	return i
}
func (a *c17Args) done() {
	if a.i != len(a.f) {
		panic(c17BadOp{})
	}
}

func (r *c17Runner) guard(a *c17Args, c, id uint64) metadb.ChannelMigrationTaskGuard {
	t := r.curTask(c, id)
	return metadb.ChannelMigrationTaskGuard{
		ChannelID: c17Chan(c), ChannelType: c17Type(c), TaskID: c17Tok(id),
		ExpectedStatus:            metadb.ChannelMigrationStatus(a.val8(uint64(t.Status))),
		ExpectedPhase:             metadb.ChannelMigrationPhase(a.val8(uint64(t.Phase))),
		ExpectedOwnerNodeID:       a.val(t.OwnerNodeID),
		ExpectedOwnerLeaseUntilMS: int64(a.val(uint64(t.OwnerLeaseUntilMS))),
		ExpectedUpdatedAtMS:       int64(a.val(uint64(t.UpdatedAtMS))),
	}
}

func c17TokCur(s string) uint64 {
	n, err := strconv.ParseUint(strings.TrimPrefix(s, "t"), 10, 32)
	if s == "" || err != nil {
		return 0
	}
	return n
}

// rtguard parses `rc ecep elep eld etok efver ergen`.
func (r *c17Runner) rtguard(a *c17Args) (metadb.ChannelMigrationRuntimeGuard, uint64) {
	rc := a.chanP()
	m := r.curMeta(rc)
	return metadb.ChannelMigrationRuntimeGuard{
		ChannelID: c17Chan(rc), ChannelType: c17Type(rc),
		ExpectedChannelEpoch:    a.val(m.ChannelEpoch),
		ExpectedLeaderEpoch:     a.val(m.LeaderEpoch),
		ExpectedLeader:          a.val(m.Leader),
		ExpectedFenceToken:      c17Tok(a.val(c17TokCur(m.WriteFenceToken))),
		ExpectedFenceVersion:    a.val(m.WriteFenceVersion),
		ExpectedRouteGeneration: a.val(m.RouteGeneration),
	}, rc
}

func c17TaskLit(a *c17Args) metadb.ChannelMigrationTask {
	c := a.chanP()
	id := a.idP()
	t := metadb.ChannelMigrationTask{ChannelID: c17Chan(c), ChannelType: c17Type(c), TaskID: c17Tok(id)}
	t.Kind = metadb.ChannelMigrationKind(a.lit8())
	t.Status = metadb.ChannelMigrationStatus(a.lit8())
	t.Phase = metadb.ChannelMigrationPhase(a.lit8())
	t.SourceNode = a.lit()
	t.TargetNode = a.lit()
	t.DesiredLeader = a.lit()
	t.FenceToken = c17Tok(a.lit())
	t.FenceVersion = a.lit()
	t.FenceUntilMS = int64(a.lit())
	t.EmbeddedLeaderTransfer = a.lit() != 0
	t.EmbeddedDesiredLeader = a.lit()
	t.OwnerNodeID = a.lit()
	t.OwnerLeaseUntilMS = int64(a.lit())
	t.CutoverLEO = a.lit()
	t.CutoverHW = a.lit()
	t.DrainedLeaderNode = a.lit()
	t.DrainedRuntimeGeneration = a.lit()
	t.DrainedChannelEpoch = a.lit()
	t.DrainedLeaderEpoch = a.lit()
	t.DrainedFenceVersion = a.lit()
	t.UpdatedAtMS = int64(a.lit())
	t.CompletedAtMS = int64(a.lit())
	return t
}

// encode builds the real FSM command bytes for one command.
func (r *c17Runner) encode(f []string) []byte {
	a := &c17Args{f: f[1:]}
	var data []byte
	switch f[0] {
	case "create":
		data = fsm.EncodeCreateChannelMigrationTaskCommand(c17TaskLit(a))
	case "createg":
		t := c17TaskLit(a)
		g, _ := r.rtguard(a)
		data = fsm.EncodeCreateChannelMigrationTaskWithRuntimeGuardCommand(metadb.ChannelMigrationTaskCreate{Task: t, RuntimeGuard: g})
	case "claim":
		c, id := a.chanP(), a.idP()
		t := r.curTask(c, id)
		req := metadb.ChannelMigrationTaskClaim{Guard: r.guard(a, c, id)}
		req.Status = metadb.ChannelMigrationStatus(a.val8(uint64(t.Status)))
		req.Phase = metadb.ChannelMigrationPhase(a.val8(uint64(t.Phase)))
		req.OwnerNodeID = a.lit()
		req.OwnerLeaseUntilMS = int64(a.lit())
		req.NowMS = int64(a.lit())
		req.UpdatedAtMS = int64(a.val(uint64(t.UpdatedAtMS)))
		data = fsm.EncodeClaimChannelMigrationTaskCommand(req)
	case "advance":
		c, id := a.chanP(), a.idP()
		t := r.curTask(c, id)
		m := r.curMeta(c)
		req := metadb.ChannelMigrationTaskAdvance{Guard: r.guard(a, c, id)}
		req.Status = metadb.ChannelMigrationStatus(a.val8(uint64(t.Status)))
		req.Phase = metadb.ChannelMigrationPhase(a.val8(uint64(t.Phase)))
		req.UpdatedAtMS = int64(a.val(uint64(t.UpdatedAtMS)))
		req.CompletedAtMS = int64(a.val(uint64(t.CompletedAtMS)))
		req.CutoverProof.CutoverLEO = a.lit()
		req.CutoverProof.CutoverHW = a.lit()
		req.CutoverProof.DrainedLeaderNode = a.val(m.Leader)
		req.CutoverProof.DrainedRuntimeGeneration = a.val(m.RouteGeneration)
		req.CutoverProof.DrainedChannelEpoch = a.val(m.ChannelEpoch)
		req.CutoverProof.DrainedLeaderEpoch = a.val(m.LeaderEpoch)
		req.CutoverProof.DrainedFenceVersion = a.val(m.WriteFenceVersion)
		req.EmbeddedDesiredLeader = a.lit()
		data = fsm.EncodeAdvanceChannelMigrationTaskCommand(req)
	case "setfence":
		c, id := a.chanP(), a.idP()
		t := r.curTask(c, id)
		req := metadb.ChannelMigrationFenceRequest{Guard: r.guard(a, c, id)}
		req.RuntimeGuard, _ = r.rtguard(a)
		req.Status = metadb.ChannelMigrationStatus(a.val8(uint64(t.Status)))
		req.Phase = metadb.ChannelMigrationPhase(a.val8(uint64(t.Phase)))
		req.FenceReason = uint8(a.lit8())
		req.FenceUntilMS = int64(a.lit())
		req.UpdatedAtMS = int64(a.val(uint64(t.UpdatedAtMS)))
		data = fsm.EncodeSetChannelWriteFenceCommand(req)
	case "resetfence":
		c, id := a.chanP(), a.idP()
		t := r.curTask(c, id)
		req := metadb.ChannelMigrationResetFenceRequest{Guard: r.guard(a, c, id)}
		req.RuntimeGuard, _ = r.rtguard(a)
		req.Status = metadb.ChannelMigrationStatus(a.val8(uint64(t.Status)))
		req.Phase = metadb.ChannelMigrationPhase(a.val8(uint64(t.Phase)))
		req.NowMS = int64(a.lit())
		req.UpdatedAtMS = int64(a.val(uint64(t.UpdatedAtMS)))
		data = fsm.EncodeResetChannelWriteFenceToPreCutoverCommand(req)
	case "commit":
		c, id := a.chanP(), a.idP()
		t := r.curTask(c, id)
		req := metadb.ChannelMigrationLeaderTransferRequest{Guard: r.guard(a, c, id)}
		var rc uint64
		req.RuntimeGuard, rc = r.rtguard(a)
		m := r.curMeta(rc)
		req.Status = metadb.ChannelMigrationStatus(a.val8(uint64(t.Status)))
		req.Phase = metadb.ChannelMigrationPhase(a.val8(uint64(t.Phase)))
		des := t.DesiredLeader
		if t.EmbeddedLeaderTransfer && t.EmbeddedDesiredLeader != 0 {
			des = t.EmbeddedDesiredLeader
		}
		req.DesiredLeader = a.val(des)
		req.NextLeaderEpoch = a.val(m.LeaderEpoch)
		req.LeaseUntilMS = int64(a.lit())
		req.NowMS = int64(a.lit())
		req.UpdatedAtMS = int64(a.val(uint64(t.UpdatedAtMS)))
		data = fsm.EncodeCommitChannelLeaderTransferCommand(req)
	case "addlearner":
		c, id := a.chanP(), a.idP()
		t := r.curTask(c, id)
		req := metadb.ChannelMigrationAddLearnerRequest{Guard: r.guard(a, c, id)}
		req.RuntimeGuard, _ = r.rtguard(a)
		req.Status = metadb.ChannelMigrationStatus(a.val8(uint64(t.Status)))
		req.Phase = metadb.ChannelMigrationPhase(a.val8(uint64(t.Phase)))
		req.TargetNode = a.val(t.TargetNode)
		req.UpdatedAtMS = int64(a.val(uint64(t.UpdatedAtMS)))
		data = fsm.EncodeAddChannelLearnerCommand(req)
	case "promote":
		c, id := a.chanP(), a.idP()
		t := r.curTask(c, id)
		req := metadb.ChannelMigrationPromoteLearnerRequest{Guard: r.guard(a, c, id)}
		req.RuntimeGuard, _ = r.rtguard(a)
		req.Status = metadb.ChannelMigrationStatus(a.val8(uint64(t.Status)))
		req.Phase = metadb.ChannelMigrationPhase(a.val8(uint64(t.Phase)))
		req.SourceNode = a.val(t.SourceNode)
		req.TargetNode = a.val(t.TargetNode)
		req.NowMS = int64(a.lit())
		req.UpdatedAtMS = int64(a.val(uint64(t.UpdatedAtMS)))
		data = fsm.EncodePromoteLearnerAndRemoveReplicaCommand(req)
	case "clearfence":
		c, id := a.chanP(), a.idP()
		t := r.curTask(c, id)
		req := metadb.ChannelMigrationClearFenceRequest{Guard: r.guard(a, c, id)}
		req.RuntimeGuard, _ = r.rtguard(a)
		req.Status = metadb.ChannelMigrationStatus(a.val8(uint64(t.Status)))
		req.Phase = metadb.ChannelMigrationPhase(a.val8(uint64(t.Phase)))
		req.UpdatedAtMS = int64(a.val(uint64(t.UpdatedAtMS)))
		req.CompletedAtMS = int64(a.val(uint64(t.CompletedAtMS)))
		data = fsm.EncodeClearChannelWriteFenceCommand(req)
	case "abort":
		c, id := a.chanP(), a.idP()
		t := r.curTask(c, id)
		req := metadb.ChannelMigrationAbortRequest{Guard: r.guard(a, c, id)}
		req.RuntimeGuard, _ = r.rtguard(a)
		req.Status = metadb.ChannelMigrationStatus(a.val8(uint64(t.Status)))
		req.Phase = metadb.ChannelMigrationPhase(a.val8(uint64(t.Phase)))
		req.UpdatedAtMS = int64(a.val(uint64(t.UpdatedAtMS)))
		req.CompletedAtMS = int64(a.val(uint64(t.CompletedAtMS)))
		data = fsm.EncodeAbortChannelMigrationCommand(req)
	case "gc":
		req := metadb.ChannelMigrationTaskGCRequest{BeforeMS: int64(a.lit()), Limit: int(a.lit())}
		data = fsm.EncodeGarbageCollectTerminalChannelMigrationTasksCommand(req)
	default:
		panic(c17BadOp{})
	}
	a.done()
	return data
}

func c17ErrKind(err error) string {
	switch {
	case errors.Is(err, metadb.ErrInvalidArgument):
		return "err:invalid"
	case errors.Is(err, metadb.ErrAlreadyExists):
		return "err:exists"
	case errors.Is(err, metadb.ErrNotFound):
		return "err:notfound"
	case errors.Is(err, metadb.ErrStaleMeta):
		return "err:conflict"
	case errors.Is(err, metadb.ErrCorruptValue):
		return "err:corrupt"
	default:
		return "err:other"
	}
}

func (r *c17Runner) setMeta(f []string) string {
	a := &c17Args{f: f[1:]}
	c := a.chanP()
	m := metadb.ChannelRuntimeMeta{ChannelID: c17Chan(c), ChannelType: c17Type(c)}
	cur := r.curMeta(c)
	m.ChannelEpoch = a.val(cur.ChannelEpoch)
	m.LeaderEpoch = a.val(cur.LeaderEpoch)
	m.Leader = a.val(cur.Leader)
	m.MinISR = int64(a.val(uint64(cur.MinISR)))
	m.LeaseUntilMS = int64(a.val(uint64(cur.LeaseUntilMS)))
	m.Replicas = c17List(a.next())
	m.ISR = c17List(a.next())
	m.WriteFenceToken = c17Tok(a.val(c17TokCur(cur.WriteFenceToken)))
	m.WriteFenceVersion = a.val(cur.WriteFenceVersion)
	m.WriteFenceReason = uint8(a.val8(uint64(cur.WriteFenceReason)))
	m.WriteFenceUntilMS = int64(a.val(uint64(cur.WriteFenceUntilMS)))
	a.done()
	ctx := context.Background()
	if err := r.store().DeleteChannelRuntimeMeta(ctx, m.ChannelID, m.ChannelType); err != nil && !errors.Is(err, metadb.ErrNotFound) {
		return c17ErrKind(err)
	}
	if err := r.store().UpsertChannelRuntimeMeta(ctx, m); err != nil {
		return c17ErrKind(err)
	}
	return "ok"
}

func c17Nums(xs []uint64) string {
	if len(xs) == 0 {
		return "-"
	}
	s := make([]string, len(xs))
	for i, x := range xs {
		s[i] = strconv.FormatUint(x, 10)
	}
	return strings.Join(s, ",")
}

func c17B(b bool) int {
	if b {
		return 1
	}
	return 0
}

func c17ChanNum(id string, typ int64) string {
	for n := uint64(1); n <= 2; n++ {
		if c17Chan(n) == id && c17Type(n) == typ {
			return strconv.FormatUint(n, 10)
		}
	}
	return "?"
}

func (r *c17Runner) dump() string {
	ctx := context.Background()
	var sb strings.Builder
	for c := uint64(1); c <= 2; c++ {
		m, err := r.store().GetChannelRuntimeMeta(ctx, c17Chan(c), c17Type(c))
		if errors.Is(err, metadb.ErrNotFound) {
			fmt.Fprintf(&sb, " M%d:-", c)
		} else if err != nil {
			fmt.Fprintf(&sb, " M%d:!%s", c, c17ErrKind(err))
		} else {
			fmt.Fprintf(&sb, " M%d:%d,%d,%d,%d,%d,%d,%s,%s,%s,%d,%d,%d", c, m.ChannelEpoch, m.LeaderEpoch, m.RouteGeneration, m.Leader,
				m.MinISR, m.LeaseUntilMS, strings.ReplaceAll(c17Nums(m.Replicas), ",", "+"), strings.ReplaceAll(c17Nums(m.ISR), ",", "+"),
				c17TokNum(m.WriteFenceToken), m.WriteFenceVersion, m.WriteFenceReason, m.WriteFenceUntilMS)
		}
		v, ok, err := r.store().VerifChannelMigrationActiveIndexRaw(c17Chan(c), c17Type(c))
		switch {
		case err != nil:
			fmt.Fprintf(&sb, " A%d:!", c)
		case !ok:
			fmt.Fprintf(&sb, " A%d:0", c)
		default:
			fmt.Fprintf(&sb, " A%d:%s", c, c17TokNum(v))
		}
	}
	tasks, err := r.store().ListChannelMigrationTasks(ctx)
	if err != nil {
		return sb.String() + " T!" + c17ErrKind(err)
	}
	sort.SliceStable(tasks, func(i, j int) bool {
		if a, b := c17ChanNum(tasks[i].ChannelID, tasks[i].ChannelType), c17ChanNum(tasks[j].ChannelID, tasks[j].ChannelType); a != b {
			return a < b
		}
		return tasks[i].TaskID < tasks[j].TaskID
	})
	for _, t := range tasks {
		fmt.Fprintf(&sb, " T%s.%s:%d,%d,%d,%d,%d,%d,%s,%d,%d,%d,%d,%d,%d,%d,%d,%d,%d,%d,%d,%d,%d,%d",
			c17ChanNum(t.ChannelID, t.ChannelType), c17TokNum(t.TaskID), t.Kind, t.Status, t.Phase, t.SourceNode, t.TargetNode, t.DesiredLeader,
			c17TokNum(t.FenceToken), t.FenceVersion, t.FenceUntilMS, c17B(t.EmbeddedLeaderTransfer), t.EmbeddedDesiredLeader,
			t.OwnerNodeID, t.OwnerLeaseUntilMS, t.CutoverLEO, t.CutoverHW, t.DrainedLeaderNode, t.DrainedRuntimeGeneration,
			t.DrainedChannelEpoch, t.DrainedLeaderEpoch, t.DrainedFenceVersion, t.UpdatedAtMS, t.CompletedAtMS)
	}
	return sb.String()
}

func c17Result(b []byte) string {
	s := string(b)
	switch s {
	case fsm.ApplyResultOK, fsm.ApplyResultStaleMeta:
		return s
	case fsm.ApplyResultHashSlotFenced:
		return "fenced"
	}
	if _, ok, err := fsm.DecodeGarbageCollectTerminalChannelMigrationTasksResult(b); ok && err == nil {
		return "gc"
	}
	return "res?"
}

func (r *c17Runner) Step(op string) (out string) {
	if r.err != "" {
		return "setup-failed " + r.err
	}
	defer func() {
		if e := recover(); e != nil {
			if _, ok := e.(c17BadOp); ok {
				out = "bad-op"
				return
			}
			panic(e)
		}
	}()
	f := strings.Fields(op)
	if len(f) == 0 {
		return "bad-op"
	}
	r.ops++
	if f[0] == "chmode" { // channel mapping; only as the very first op of a case
		if len(f) != 2 || (f[1] != "0" && f[1] != "1" && f[1] != "2") {
			return "bad-op"
		}
		if r.ops != 1 {
			return "skip #" + r.dump()
		}
		c17Mode = int(f[1][0] - '0')
		return "ok #" + r.dump()
	}
	if f[0] == "setmeta" {
		return r.setMeta(f) + " #" + r.dump()
	}
	var cmds [][]string
	if f[0] == "batch" {
		cur := []string{}
		for _, x := range f[1:] {
			if x == ";" {
				cmds = append(cmds, cur)
				cur = []string{}
				continue
			}
			cur = append(cur, x)
		}
		cmds = append(cmds, cur)
	} else {
		cmds = [][]string{f}
	}
	var batch []multiraft.Command
	for _, c := range cmds {
		if len(c) == 0 {
			return "bad-op"
		}
		data := r.encode(c)
		r.idx++
		batch = append(batch, multiraft.Command{SlotID: multiraft.SlotID(c17Slot), HashSlot: c17HashSlot, Index: r.idx, Term: 1, Data: data})
	}
	results, err := r.sm.(multiraft.BatchStateMachine).ApplyBatch(context.Background(), batch)
	var res string
	if err != nil {
		res = c17ErrKind(err)
	} else {
		parts := make([]string, len(results))
		for i, b := range results {
			parts[i] = c17Result(b)
		}
		res = strings.Join(parts, ",")
	}
	return res + " #" + r.dump()
}

//go:build verif

package main

import (
	"fmt"
	"strings"
)

// Generator for C17.  g.N = number of independent histories (cases).
//
// Every case sets up runtime metadata for one or two channels, creates a few
// migration tasks and then walks them through the leader-transfer /
// replica-replace protocols with `*` (fresh) guards, interleaved with
// deviations: stale guards, stale / partial / foreign proofs, environment
// metadata changes between drain and commit, expired fences, aborts at every
// phase, free-form advance rewinds, cross-channel runtime guards, terminal
// creates, GC and multi-command batches.  The generator never looks at results;
// it only tracks the phase it INTENDS each task to be in.

type c17GTask struct {
	c, id    int
	kind     int
	phase    int
	emb      bool
	dead     bool // the generator asked for a terminal state
	badProof bool // the stored proof is believed not to match the channel's meta
	forced   bool // a forced terminal advance was already sent
	src, tgt int
}

type c17GMeta struct {
	set      bool
	leader   int
	replicas []int
	isr      []int
}

type c17Gen struct {
	g     *Gen
	tasks []*c17GTask
	metas [3]c17GMeta
	dev   bool // a deviation was injected into the command being built
	forceC, forceID int // when non-zero, create() uses this channel / task id
}

const c17G = "* * * * *"

func c17R(rc int) string { return fmt.Sprintf("%d * * * * * *", rc) }

func (x *c17Gen) r() *Rand { return x.g.R }

// staleGuard replaces one field of a fresh guard by a literal.
func (x *c17Gen) guard() string {
	if !x.r().Chance(5) {
		return c17G
	}
	x.dev = true
	x.g.Count("dev:stale-task-guard")
	f := strings.Fields(c17G)
	i := x.r().Intn(len(f))
	switch i {
	case 0:
		f[i] = fmt.Sprint(x.r().Range(0, 6))
	case 1:
		f[i] = fmt.Sprint([]int{0, 1, 3, 4, 6, 7, 20, 22, 25, 26, 27}[x.r().Intn(11)])
	default:
		f[i] = fmt.Sprint(x.r().Range(0, 12))
	}
	return strings.Join(f, " ")
}

func (x *c17Gen) rtguard(c int) string {
	rc := c
	if x.r().Chance(5) {
		x.dev = true
		x.g.Count("dev:cross-channel-rtguard")
		rc = 3 - c
	}
	f := strings.Fields(c17R(rc))
	if x.r().Chance(5) {
		x.dev = true
		x.g.Count("dev:stale-runtime-guard")
		i := 1 + x.r().Intn(6)
		f[i] = fmt.Sprint(x.r().Range(0, 4))
	}
	return strings.Join(f, " ")
}

func (x *c17Gen) pickNot(from []int, not ...int) int {
	var c []int
	for _, v := range from {
		ok := true
		for _, n := range not {
			if v == n {
				ok = false
			}
		}
		if ok {
			c = append(c, v)
		}
	}
	if len(c) == 0 {
		return x.r().Range(1, 5)
	}
	return c[x.r().Intn(len(c))]
}

func c17Join(xs []int) string {
	if len(xs) == 0 {
		return "-"
	}
	s := make([]string, len(xs))
	for i, v := range xs {
		s[i] = fmt.Sprint(v)
	}
	return strings.Join(s, ",")
}

// setMeta emits an environment metadata write.  Fence fields `*` keep the stored fence.
func (x *c17Gen) setMeta(c int, mode string) string {
	r := x.r()
	m := &x.metas[c]
	switch mode {
	case "fresh":
		n := r.Range(2, 4)
		perm := []int{1, 2, 3, 4, 5}
		for i := range perm {
			j := i + r.Intn(len(perm)-i)
			perm[i], perm[j] = perm[j], perm[i]
		}
		m.replicas = append([]int(nil), perm[:n]...)
		k := r.Range(2, n)
		m.isr = append([]int(nil), m.replicas[:k]...)
		m.leader = m.isr[0]
		m.set = true
		minisr := r.Range(1, k)
		if r.Chance(8) {
			minisr = r.Range(0, n+1)
		}
		for _, t := range x.tasks {
			if t.c == c {
				t.badProof = true
			}
		}
		return fmt.Sprintf("setmeta %d %d %d %d %d %d %s %s 0 0 0 0", c, r.Range(1, 3), r.Range(1, 3), m.leader, minisr, 100, c17Join(m.replicas), c17Join(m.isr))
	case "bump": // same membership and fence; ONE authority field (or all) moves on: stored proofs become stale
		if !m.set {
			return x.setMeta(c, "fresh")
		}
		for _, t := range x.tasks {
			if t.c == c {
				t.badProof = true
			}
		}
		cep, lep, leader := "*", "*", "*"
		switch r.Pick(25, 25, 25, 25) {
		case 0:
			cep = "^"
			x.g.Count("env:bump-channel-epoch-only")
		case 1:
			lep = "^"
			x.g.Count("env:bump-leader-epoch-only")
		case 2:
			m.leader = x.pickNot(m.isr, m.leader)
			leader = fmt.Sprint(m.leader)
			x.g.Count("env:bump-leader-only")
		default:
			cep, lep = "^", "^"
			m.leader = m.isr[r.Intn(len(m.isr))]
			leader = fmt.Sprint(m.leader)
			x.g.Count("env:bump-all")
		}
		return fmt.Sprintf("setmeta %d %s %s %s * * %s %s * * * *", c, cep, lep, leader, c17Join(m.replicas), c17Join(m.isr))
	case "fullisr": // minISR = |replicas| with the live replica-replace learner counted: an abort would then shrink below minISR
		if !m.set {
			return x.setMeta(c, "fresh")
		}
		reps := append([]int(nil), m.replicas...)
		if t := x.live(c); t != nil && t.kind == 2 && t.phase >= 21 && t.phase <= 25 {
			reps = append(reps, t.tgt)
		}
		for _, t := range x.tasks {
			if t.c == c {
				t.badProof = true
			}
		}
		return fmt.Sprintf("setmeta %d %d %d %d %d %d %s %s * * * *", c, r.Range(2, 5), r.Range(2, 6), m.leader, len(reps), 150, c17Join(reps), c17Join(m.isr))
	case "foreignfence": // a fence held by some other token / version
		if !m.set {
			return x.setMeta(c, "fresh")
		}
		return fmt.Sprintf("setmeta %d %d %d %d %d %d %s %s %d %d %d %d", c, r.Range(1, 3), r.Range(1, 3), m.leader, 1, 100, c17Join(m.replicas), c17Join(m.isr),
			r.Range(1, 4), r.Range(1, 3), r.Range(0, 2), []int{0, 200, 400}[r.Intn(3)])
	default: // arbitrary, often invalid
		reps := []int{}
		for i := 0; i < r.Range(0, 4); i++ {
			reps = append(reps, r.Range(1, 5))
		}
		isr := []int{}
		for i := 0; i < r.Range(0, 3); i++ {
			isr = append(isr, r.Range(1, 5))
		}
		m.set = false
		return fmt.Sprintf("setmeta %d %d %d %d %d %d %s %s %d %d %d %d", c, r.Range(0, 3), r.Range(0, 3), r.Range(0, 5), r.Range(0, 4), r.Range(0, 200),
			c17Join(reps), c17Join(isr), r.Range(0, 2), r.Range(0, 2), r.Range(0, 2), []int{0, 200}[r.Intn(2)])
	}
}

func (x *c17Gen) find(c, id int) *c17GTask {
	for _, t := range x.tasks {
		if t.c == c && t.id == id {
			return t
		}
	}
	return nil
}

// live returns the task the generator believes is active on channel c.
func (x *c17Gen) live(c int) *c17GTask {
	for _, t := range x.tasks {
		if t.c == c && !t.dead {
			return t
		}
	}
	return nil
}

// create emits a create / createg.  Mostly for a channel without a live task
// and an unused id; sometimes colliding on purpose.
func (x *c17Gen) create() string {
	r := x.r()
	c := 1
	if x.metas[2].set && (x.live(1) != nil || r.Chance(40)) {
		c = 2
	}
	if x.forceC != 0 {
		c = x.forceC
	}
	if x.live(c) != nil {
		x.g.Count("create:while-active-exists")
	}
	id := 0
	for k := 1; k <= 4; k++ {
		if x.find(c, k) == nil {
			id = k
			break
		}
	}
	if id == 0 || r.Chance(10) {
		id = r.Range(1, 4)
	}
	if x.forceID != 0 {
		id = x.forceID
	}
	m := x.metas[c]
	kind := []int{1, 2, 3, 1, 2, 2}[r.Intn(6)]
	if r.Chance(2) {
		kind = r.Range(0, 4)
	}
	t := &c17GTask{c: c, id: id, kind: kind, phase: 1}
	status := []int{1, 1, 2}[r.Intn(3)]
	comp := 0
	des := 0
	if kind == 2 {
		t.src = x.pickNot(m.replicas, m.leader)
		t.tgt = x.pickNot([]int{1, 2, 3, 4, 5}, m.replicas...)
		if r.Chance(6) {
			t.src = m.leader
		}
		if r.Chance(6) {
			t.tgt = x.pickNot(m.replicas)
		}
	} else {
		t.src = m.leader
		t.tgt = x.pickNot(m.isr, m.leader)
		des = t.tgt
		if r.Chance(6) {
			des = r.Range(0, 5)
		}
	}
	if r.Chance(6) { // start somewhere else in the protocol
		t.phase = []int{2, 3, 6, 7, 20, 22, 25, 26, 27}[r.Intn(9)]
		x.g.Count("create:mid-protocol")
	}
	if r.Chance(6) { // terminal create
		status = r.Range(4, 6)
		comp = r.Range(0, 60)
		t.dead = true
		x.g.Count("create:terminal")
	}
	ftok, fver, funtil := 0, 0, 0
	if r.Chance(4) {
		ftok, fver, funtil = r.Range(0, 3), r.Range(0, 2), []int{0, 200}[r.Intn(2)]
		x.g.Count("create:with-fence-fields")
	}
	lit := fmt.Sprintf("%d %d %d %d %d %d %d %d %d %d %d 0 0 0 0 0 0 0 0 0 0 0 %d %d", c, id, kind, status, t.phase, t.src, t.tgt, des, ftok, fver, funtil, 10, comp)
	if old := x.find(c, id); old == nil {
		if x.live(c) == nil || t.dead {
			x.tasks = append(x.tasks, t)
		}
	} else {
		x.g.Count("create:id-collision")
	}
	if r.Chance(40) {
		rg := x.rtguard(c)
		if r.Chance(4) { // guard for the other channel: invalid argument
			rg = c17R(3 - c)
		}
		return "createg " + lit + " " + rg
	}
	return "create " + lit
}

func (x *c17Gen) advance(t *c17GTask, st, ph int, proof string, embdes int, comp string) string {
	return fmt.Sprintf("advance %d %d %s %d %d ^ %s %s %d", t.c, t.id, x.guard(), st, ph, comp, proof, embdes)
}

const c17NoProof = "0 0 0 0 0 0 0"

// proof returns proof tokens; bad = the generator expects the cutover to refuse it.
func (x *c17Gen) proof() (string, bool) {
	r := x.r()
	switch r.Pick(72, 4, 5, 10, 5, 4) {
	case 0:
		return fmt.Sprintf("%d %d * * * * *", 10, r.Range(5, 10)), false
	case 1:
		x.g.Count("dev:proof-hw>leo")
		return "5 9 * * * * *", true
	case 2:
		x.g.Count("dev:proof-partial")
		f := strings.Fields("10 10 * * * * *")
		f[2+r.Intn(5)] = "0"
		return strings.Join(f, " "), true
	case 3:
		x.g.Count("dev:proof-wrong-field")
		f := strings.Fields("10 10 * * * * *")
		i := 2 + r.Intn(5)
		if i == 3 {
			i = 4
		}
		f[i] = "^"
		return strings.Join(f, " "), true
	case 4:
		x.g.Count("dev:proof-literal")
		return fmt.Sprintf("10 10 %d %d %d %d %d", r.Range(1, 5), r.Range(1, 4), r.Range(1, 4), r.Range(1, 4), r.Range(1, 3)), true
	default:
		x.g.Count("dev:proof-missing")
		return c17NoProof, true
	}
}

func (x *c17Gen) nowTok() string {
	if x.r().Chance(8) {
		x.dev = true
		x.g.Count("dev:fence-expired-now")
		return "900"
	}
	return "50"
}

// scripted emits the next protocol step of t (as the generator believes it).
// If a deviation was injected, the believed phase is NOT advanced, so the next
// scripted step retries the same step with fresh guards.
func (x *c17Gen) scripted(t *c17GTask) string {
	saved := *t
	x.dev = false
	cmd := x.scriptedStep(t)
	if x.dev {
		bp := t.badProof
		*t = saved
		t.badProof = bp
		x.g.Count("step:scripted-with-deviation")
	}
	return cmd
}

func (x *c17Gen) scriptedStep(t *c17GTask) string {
	r := x.r()
	lt := t.kind == 1 || t.kind == 3 || (t.kind == 2 && t.emb)
	c, id := t.c, t.id
	pre := fmt.Sprintf("%d %d", c, id)
	reproof := func() string {
		// the stored proof is believed stale: drain again (same phase, fresh proof)
		x.g.Count("script:re-drain")
		t.badProof = false
		return x.advance(t, 2, t.phase, fmt.Sprintf("12 %d * * * * *", r.Range(6, 12)), 0, "0")
	}
	if lt {
		switch t.phase {
		case 1:
			t.phase = 2
			return x.advance(t, 2, 2, c17NoProof, 0, "0")
		case 2:
			t.phase = 3
			return x.advance(t, 2, 3, c17NoProof, 0, "0")
		case 3:
			t.phase = 4
			return fmt.Sprintf("setfence %s %s %s 2 4 %d %d ^", pre, x.guard(), x.rtguard(c), r.Range(1, 2), []int{200, 300}[r.Intn(2)])
		case 4:
			t.phase = []int{5, 6}[r.Intn(2)]
			p, bad := x.proof()
			t.badProof = bad
			return x.advance(t, 2, t.phase, p, 0, "0")
		case 5:
			t.phase = 6
			return x.advance(t, 2, 6, c17NoProof, 0, "0")
		case 6:
			if t.badProof && r.Chance(45) {
				return reproof()
			}
			nle := "^"
			if r.Chance(6) {
				nle = "*"
				x.dev = true
				x.g.Count("dev:commit-same-epoch")
			}
			des := "*"
			if r.Chance(5) {
				des = fmt.Sprint(r.Range(1, 5))
				x.dev = true
				x.g.Count("dev:commit-other-leader")
			}
			if t.badProof {
				x.dev = true
				x.g.Count("dev:commit-with-bad-proof")
			}
			t.phase = 7
			return fmt.Sprintf("commit %s %s %s 2 7 %s %s 300 %s ^", pre, x.guard(), x.rtguard(c), des, nle, x.nowTok())
		case 7:
			if t.kind == 2 {
				t.phase, t.emb = 20, false
				x.g.Count("script:embedded-handoff")
				return fmt.Sprintf("clearfence %s %s %s 2 20 ^ 0", pre, x.guard(), x.rtguard(c))
			}
			t.phase, t.dead = 27, true
			return fmt.Sprintf("clearfence %s %s %s 4 27 ^ %d", pre, x.guard(), x.rtguard(c), r.Range(20, 60))
		}
	} else {
		switch t.phase {
		case 1:
			if r.Chance(30) { // start an embedded leader transfer
				t.emb, t.phase = true, 2
				x.g.Count("script:embedded-transfer")
				return x.advance(t, 2, 2, c17NoProof, x.pickNot(x.metas[c].isr, x.metas[c].leader), "0")
			}
			t.phase = 20
			return x.advance(t, 2, 20, c17NoProof, 0, "0")
		case 20:
			t.phase = 21
			return fmt.Sprintf("addlearner %s %s %s 2 21 * ^", pre, x.guard(), x.rtguard(c))
		case 21:
			t.phase = 22
			return x.advance(t, 2, 22, c17NoProof, 0, "0")
		case 22:
			t.phase = 23
			return fmt.Sprintf("setfence %s %s %s 2 23 %d %d ^", pre, x.guard(), x.rtguard(c), r.Range(1, 2), []int{200, 300}[r.Intn(2)])
		case 23:
			t.phase = []int{5, 25}[r.Intn(2)]
			p, bad := x.proof()
			t.badProof = bad
			return x.advance(t, 2, t.phase, p, 0, "0")
		case 5:
			t.phase = 25
			return x.advance(t, 2, 25, c17NoProof, 0, "0")
		case 25:
			if t.badProof && r.Chance(45) {
				return reproof()
			}
			if t.badProof {
				x.dev = true
				x.g.Count("dev:promote-with-bad-proof")
			}
			t.phase = 26
			return fmt.Sprintf("promote %s %s %s 2 26 * * %s ^", pre, x.guard(), x.rtguard(c), x.nowTok())
		case 26:
			t.phase, t.dead = 27, true
			return fmt.Sprintf("clearfence %s %s %s 4 27 ^ %d", pre, x.guard(), x.rtguard(c), r.Range(20, 60))
		}
	}
	// replay of the terminal clear exactly as first sent (old guard, same stamps): the idempotent path
	x.g.Count("script:clearfence-replay")
	t.dead = true
	old := 7
	if t.kind == 2 {
		old = 26
	}
	return fmt.Sprintf("clearfence %s 2 %d * * ~ %d * * * %d ~ * 4 27 * *", pre, old, c, id)
}

var c17Phases = []int{1, 2, 3, 4, 5, 6, 7, 20, 21, 22, 23, 25, 26, 27}

// random emits an arbitrary command on t.
func (x *c17Gen) random(t *c17GTask) string {
	r := x.r()
	c, id := t.c, t.id
	pre := fmt.Sprintf("%d %d", c, id)
	switch r.Pick(14, 10, 8, 8, 6, 6, 6, 6, 6, 6, 4, 8) {
	case 0: // abort
		x.g.Count("dev:abort")
		st := 6
		if r.Chance(4) {
			st = 5
		}
		comp := fmt.Sprint(r.Range(20, 60))
		if r.Chance(4) {
			comp = "0"
		}
		x.dev = false
		cmd := fmt.Sprintf("abort %s %s %s %d * ^ %s", pre, x.guard(), x.rtguard(c), st, comp)
		if !x.dev && st == 6 && comp != "0" && t.phase != 7 && t.phase != 26 && t.phase != 27 {
			t.dead = true
		}
		return cmd
	case 1: // free-form advance to an arbitrary phase (rewind / skip)
		x.g.Count("dev:advance-arbitrary-phase")
		ph := c17Phases[r.Intn(len(c17Phases))]
		t.phase = ph
		st := 2
		comp := "0"
		if r.Chance(15) {
			st = r.Range(3, 6)
			if st >= 4 {
				comp = fmt.Sprint(r.Range(0, 50))
				t.dead = true
			}
		} else if t.dead {
			t.dead = false
			x.g.Count("dev:advance-reactivate")
		}
		return x.advance(t, st, ph, c17NoProof, 0, comp)
	case 2: // claim
		x.g.Count("op:claim-variants")
		now := r.Range(0, 60)
		return fmt.Sprintf("claim %s %s * * %d %d %d ^", pre, x.guard(), r.Range(0, 3), now+r.Range(0, 40), now)
	case 3: // reset an (expired?) fence
		x.g.Count("dev:resetfence")
		now := []int{50, 900, 900}[r.Intn(3)]
		ph := []int{2, 3, 22}[r.Intn(3)]
		if now == 900 {
			t.phase = ph
		}
		return fmt.Sprintf("resetfence %s %s %s 2 %d %d ^", pre, x.guard(), x.rtguard(c), ph, now)
	case 4: // fence renewal / out-of-phase set
		x.g.Count("dev:setfence-any-phase")
		ph := "*"
		if r.Chance(40) {
			ph = fmt.Sprint(c17Phases[r.Intn(len(c17Phases))])
		}
		t.badProof = true
		return fmt.Sprintf("setfence %s %s %s 2 %s %d %d ^", pre, x.guard(), x.rtguard(c), ph, r.Range(0, 2), []int{0, 200, 300}[r.Intn(3)])
	case 5: // commit out of phase
		x.g.Count("dev:commit-any-phase")
		return fmt.Sprintf("commit %s %s %s 2 7 * ^ 300 %s ^", pre, x.guard(), x.rtguard(c), x.nowTok())
	case 6:
		x.g.Count("dev:promote-any-phase")
		return fmt.Sprintf("promote %s %s %s 2 26 * * %s ^", pre, x.guard(), x.rtguard(c), x.nowTok())
	case 7:
		x.g.Count("dev:addlearner-any-phase")
		return fmt.Sprintf("addlearner %s %s %s 2 21 * ^", pre, x.guard(), x.rtguard(c))
	case 8:
		x.g.Count("dev:clearfence-any-phase")
		if r.Chance(50) {
			return fmt.Sprintf("clearfence %s %s %s 4 27 ^ %d", pre, x.guard(), x.rtguard(c), r.Range(0, 60))
		}
		return fmt.Sprintf("clearfence %s %s %s 2 20 ^ 0", pre, x.guard(), x.rtguard(c))
	case 9: // advance that only stores a proof
		x.g.Count("dev:advance-proof-only")
		p, bad := x.proof()
		t.badProof = bad
		return x.advance(t, 2, t.phase, p, 0, "0")
	case 10: // stale update stamp
		x.g.Count("dev:stale-updated-at")
		return fmt.Sprintf("abort %s %s %s 6 * * %d", pre, c17G, c17R(c), r.Range(20, 60))
	default: // force the believed phase (resynchronise)
		x.g.Count("op:advance-resync")
		return x.advance(t, 2, t.phase, c17NoProof, 0, "0")
	}
}

func (x *c17Gen) oneCmd() string {
	r := x.r()
	var cands []*c17GTask
	for _, t := range x.tasks {
		cands = append(cands, t)
		if !t.dead { // live tasks get most of the traffic
			cands = append(cands, t, t, t)
		}
	}
	needCreate := x.live(1) == nil || (x.metas[2].set && x.live(2) == nil)
	if len(cands) == 0 || (needCreate && r.Chance(35)) || r.Chance(4) {
		return x.create()
	}
	if r.Chance(4) { // make sure a task the generator believes finished really is terminal (free-form advance)
		for _, t := range x.tasks {
			if t.dead && !t.forced {
				t.forced = true
				x.g.Count("op:advance-force-terminal")
				return fmt.Sprintf("advance %d %d %s 5 * ^ 40 %s 0", t.c, t.id, c17G, c17NoProof)
			}
		}
	}
	if r.Chance(3) {
		x.g.Count("op:gc-variants")
		return fmt.Sprintf("gc %d %d", r.Range(0, 70), r.Range(0, 3))
	}
	t := cands[r.Intn(len(cands))]
	if !t.dead && r.Chance(78) {
		x.g.Count("step:scripted")
		return x.scripted(t)
	}
	x.g.Count("step:random")
	return x.random(t)
}

func (x *c17Gen) emit(cmd string) {
	f := strings.SplitN(cmd, " ", 2)
	if len(f) == 1 {
		x.g.Op(f[0], "")
		return
	}
	x.g.Op(f[0], "%s", f[1])
}

func genC17(g *Gen) {
	for k := 0; k < g.N; k++ {
		g.Case()
		x := &c17Gen{g: g}
		r := g.R
		mode := r.Pick(45, 40, 15) // real channels differ in id / in TYPE only / in both
		g.Count([]string{"chmode:ids-differ", "chmode:same-id-types-differ", "chmode:both-differ"}[mode])
		g.Op("chmode", "%d", mode)
		x.emit(x.setMeta(1, "fresh"))
		twin := r.Chance(12)
		if twin || r.Chance(60) {
			x.emit(x.setMeta(2, "fresh"))
		}
		if twin {
			// same-named tasks on BOTH channels, fenced at the same version, then one command whose task guard
			// names one channel and whose runtime guard names the other (must be rejected)
			g.Count("scenario:twin-tasks-crossed-guard")
			id := r.Range(1, 3)
			for c := 1; c <= 2; c++ {
				m := x.metas[c]
				tgt := x.pickNot(m.isr, m.leader)
				x.emit(fmt.Sprintf("create %d %d 1 2 3 %d %d %d 0 0 0 0 0 0 0 0 0 0 0 0 0 0 10 0", c, id, m.leader, tgt, tgt))
				x.emit(fmt.Sprintf("setfence %d %d %s %s 2 4 1 200 ^", c, id, c17G, c17R(c)))
				x.tasks = append(x.tasks, &c17GTask{c: c, id: id, kind: 1, phase: 4, src: m.leader, tgt: tgt})
			}
			a, b := 1+r.Intn(2), 0
			b = 3 - a
			switch r.Intn(4) {
			case 0:
				x.emit(fmt.Sprintf("abort %d %d %s %s 6 * ^ 99", a, id, c17G, c17R(b)))
			case 1:
				x.emit(fmt.Sprintf("advance %d %d %s 2 7 ^ 0 %s 0", a, id, c17G, c17NoProof))
				x.emit(fmt.Sprintf("clearfence %d %d %s %s 4 27 ^ 99", a, id, c17G, c17R(b)))
				x.find(a, id).phase = 7
			case 2:
				x.emit(fmt.Sprintf("resetfence %d %d %s %s 2 2 900 ^", a, id, c17G, c17R(b)))
			default:
				x.emit(fmt.Sprintf("setfence %d %d %s %s 2 4 2 400 ^", a, id, c17G, c17R(b)))
			}
		}
		n := r.Range(15, 50)
		for i := 0; i < n; i++ {
			atCutover := false
			for _, t := range x.tasks {
				if !t.dead && (t.phase == 6 || t.phase == 25 || t.phase == 5) {
					atCutover = true
				}
			}
			switch {
			case r.Chance(4) || (atCutover && r.Chance(12)):
				c := 1 + r.Intn(2)
				mode := []string{"bump", "bump", "bump", "foreignfence", "foreignfence", "fullisr", "fresh", "junk"}[r.Intn(8)]
				g.Count("env:setmeta-" + mode)
				x.emit(x.setMeta(c, mode))
			case r.Chance(9):
				k := r.Range(2, 3)
				cmds := make([]string, k)
				for j := range cmds {
					cmds[j] = x.oneCmd()
				}
				if r.Chance(22) { // two creates (plain / runtime-guarded) for ONE channel, different ids, in one batch
					x.forceC = 1
					if x.metas[2].set && (x.live(1) != nil || r.Chance(40)) {
						x.forceC = 2
					}
					if x.live(x.forceC) == nil {
						g.Count("line:batch-two-creates-on-idle-channel")
					}
					var free []int
					for id := 1; id <= 6; id++ {
						if x.find(x.forceC, id) == nil {
							free = append(free, id)
						}
					}
					a, b := r.Range(1, 4), 0
					if len(free) >= 2 {
						a, b = free[0], free[1]
					} else {
						b = 1 + (a+r.Range(0, 2))%4
					}
					if r.Chance(70) {
						cmds = cmds[:2]
					}
					pos := r.Intn(len(cmds) - 1)
					x.forceID = a
					cmds[pos] = x.create()
					x.forceID = b
					cmds[pos+1] = x.create()
					x.forceC, x.forceID = 0, 0
					g.Count("line:batch-two-creates-one-channel")
				}
				g.Count(fmt.Sprintf("line:batch-%d", k))
				x.emit("batch " + strings.Join(cmds, " ; "))
			default:
				x.emit(x.oneCmd())
			}
		}
	}
}

//go:build verif

package main

func genC17(g *Gen) {
	g.Case()
}

//go:build verif && !race

package main

func c32RaceSeen() string { return "" }
